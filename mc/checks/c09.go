package checks

import (
	"bytes"
	"compress/zlib"
	"encoding/hex"
	"errors"
	"fmt"
	"io"
	"os"
	"os/exec"
	"path/filepath"
	"regexp"
	"strings"
	"sync"
	"sync/atomic"
	"syscall"

	"github.com/go-git/go-billy/v6/memfs"
	"github.com/go-git/go-git/v6/plumbing"
	"github.com/go-git/go-git/v6/plumbing/cache"
	"github.com/go-git/go-git/v6/storage/filesystem"

	"verifmc/fw"
)

// C09: corrupt or malicious packs never yield wrong objects; what git
// index-pack rejects for a structural reason go-git rejects too.

func init() {
	if os.Getenv("VERIF_B_CHILD") == "packwriter" {
		c09Child()
	}
	fw.Register(&fw.Check{ID: "C09", Level: "fault_enumeration", Run: runC09, QuickBudget: 100, ThoroughBudget: 1300})
}

// c09Child is the body of the helper process used for packs whose header
// announces a huge object count: go-git's idxfile.Writer allocates by that
// count, which can abort the whole process (not a recoverable panic). The
// child caps its address space so that the outcome does not depend on the
// machine's memory.
func c09Child() {
	lim := syscall.Rlimit{Cur: 6 << 30, Max: 6 << 30}
	syscall.Setrlimit(syscall.RLIMIT_AS, &lim)
	pack, err := os.ReadFile(os.Getenv("VERIF_B_PACK"))
	if err != nil {
		fmt.Println("CHILD-ERROR", err)
		os.Exit(3)
	}
	r := c09PackWriter(pack, os.Getenv("VERIF_B_SHA256") == "1", nil)
	switch {
	case r.panic != "":
		fmt.Println("PANIC", r.panic)
	case r.accepted:
		fmt.Println("ACCEPTED")
	default:
		fmt.Println("REJECTED", r.err)
	}
	os.Exit(0)
}

const c09ChildThreshold = 1 << 20

func c09DeclaredCount(pack []byte) uint32 {
	if len(pack) < 12 {
		return 0
	}
	return uint32(pack[8])<<24 | uint32(pack[9])<<16 | uint32(pack[10])<<8 | uint32(pack[11])
}

var c09ChildSeq atomic.Int64

// c09PackWriterChild runs c09PackWriter in a helper process.
func c09PackWriterChild(c *fw.Ctx, pack []byte, sha256fmt bool) (r c09Run) {
	r.mode = "filesystem PackfileWriter"
	pf := filepath.Join(c.Scratch(), fmt.Sprintf("c09child-%d.pack", c09ChildSeq.Add(1)))
	bWriteFile(pf, pack)
	defer os.Remove(pf)
	cmd := exec.Command("/proc/self/exe")
	cmd.Env = append(os.Environ(), "VERIF_B_CHILD=packwriter", "VERIF_B_PACK="+pf, "GOTRACEBACK=none")
	if sha256fmt {
		cmd.Env = append(cmd.Env, "VERIF_B_SHA256=1")
	}
	var out, errb bytes.Buffer
	cmd.Stdout, cmd.Stderr = &out, &errb
	err := cmd.Run()
	o := strings.TrimSpace(out.String())
	switch {
	case err == nil && strings.HasPrefix(o, "ACCEPTED"):
		r.accepted = true
		r.storeErr = "" // objects of such packs are not read back (never accepted in practice)
	case err == nil && strings.HasPrefix(o, "REJECTED"):
		r.err = strings.TrimPrefix(o, "REJECTED ")
	case err == nil && strings.HasPrefix(o, "PANIC"):
		r.panic = strings.TrimPrefix(o, "PANIC ")
	case strings.Contains(o, "CHILD-ERROR"):
		fw.Abort("C09 helper process: %s", o)
	default:
		msg := bFirstLine(errb.Bytes())
		if msg == "" {
			msg = fmt.Sprint(err)
		}
		r.crash = msg
	}
	return
}

type c09Region struct {
	from, to int64
	name     string
}

type c09Base struct {
	name    string
	sha256  bool
	pack    []byte
	pre     []bObj // external bases (thin)
	regions []c09Region
}

func (b *c09Base) region(off int64) string {
	for _, r := range b.regions {
		if off >= r.from && off < r.to {
			return r.name
		}
	}
	return "?"
}

// c09Regions labels every byte of a well-formed pack.
func c09Regions(pack []byte, sha256fmt bool, ext map[string]bObj) []c09Region {
	hs := 20
	if sha256fmt {
		hs = 32
	}
	ents, err := bReadPack(pack, sha256fmt, ext)
	if err != nil {
		fw.Abort("C09 set-up: base pack unreadable: %v", err)
	}
	rs := []c09Region{{0, 4, "pack signature"}, {4, 8, "pack version"}, {8, 12, "object count"}}
	for _, e := range ents {
		kind := "object"
		if e.Type >= 6 {
			kind = "delta"
		}
		rs = append(rs, c09Region{e.Off, e.Off + int64(e.HdrLen), kind + " entry type/size header"})
		if e.Type == bTOfs {
			rs = append(rs, c09Region{e.Off + int64(e.HdrLen), e.ZOff, "ofs-delta base offset"})
		}
		if e.Type == bTRef {
			rs = append(rs, c09Region{e.Off + int64(e.HdrLen), e.ZOff, "ref-delta base id"})
		}
		rs = append(rs, c09Region{e.ZOff, e.ZOff + 2, kind + " zlib header"},
			c09Region{e.ZOff + 2, e.End - 4, kind + " deflate data"},
			c09Region{e.End - 4, e.End, kind + " adler32"})
	}
	rs = append(rs, c09Region{int64(len(pack) - hs), int64(len(pack)), "pack trailer"})
	return rs
}

func c09Bases() []*c09Base {
	var out []*c09Base
	mk := func(name string, s bool, p *bPack, pre []bObj) {
		ext := map[string]bObj{}
		for _, o := range pre {
			ext[bOIDHex(s, o.Type, o.Data)] = o
		}
		pack := p.Bytes()
		out = append(out, &c09Base{name: name, sha256: s, pack: pack, pre: pre, regions: c09Regions(pack, s, ext)})
	}
	who := "A U Thor <author@example.com> 1700000000 +0000"
	text := func(n int) []byte {
		var b bytes.Buffer
		for i := 0; b.Len() < n; i++ {
			fmt.Fprintf(&b, "line %d of the file, some words\n", i)
		}
		return b.Bytes()[:n]
	}
	b0 := text(90)
	b1 := append(append([]byte{}, b0[:40]...), append([]byte("EDIT-1 "), b0[40:]...)...)
	b2 := append(append([]byte{}, b1[:70]...), append([]byte("EDIT-2 "), b1[70:]...)...)
	mkDelta := func(src, tgt []byte, cut int, ins string) []byte {
		// copy [0,cut) insert ins copy [cut, len(src))
		d := append(bVarint(uint64(len(src))), bVarint(uint64(len(tgt)))...)
		d = append(d, 0x90, byte(cut))
		d = append(d, byte(len(ins)))
		d = append(d, ins...)
		d = append(d, 0x91, byte(cut), byte(len(src)-cut))
		if out, reason := bGitPatchDelta(src, d); reason != "" || !bytes.Equal(out, tgt) {
			fw.Abort("C09 set-up: bad hand-made delta (%s)", reason)
		}
		return d
	}
	d01 := mkDelta(b0, b1, 40, "EDIT-1 ")
	d12 := mkDelta(b1, b2, 70, "EDIT-2 ")
	for _, s := range []bool{false, true} {
		blob := []byte("hello, pack\n")
		bid := bOID(s, "blob", blob)
		tree := append([]byte("100644 f\x00"), bid...)
		tid := bOIDHex(s, "tree", tree)
		commit := []byte(fmt.Sprintf("tree %s\nauthor %s\ncommitter %s\n\nmsg\n", tid, who, who))
		if !s {
			p := bNewPack(s)
			p.Obj(bTCommit, commit, false)
			p.Obj(bTTree, tree, false)
			p.Obj(bTBlob, blob, false)
			mk("plain", s, p, nil)

			p = bNewPack(s)
			o0 := p.Obj(bTBlob, b0, false)
			o1 := p.Ofs(o0, d01, false)
			p.Ofs(o1, d12, false)
			mk("ofs-chain", s, p, nil)

			p = bNewPack(s)
			p.Ref(bOID(s, "blob", b1), d12, false) // delta before its base
			p.Obj(bTBlob, b0, false)
			p.Ref(bOID(s, "blob", b0), d01, false)
			mk("ref-chain", s, p, nil)

			p = bNewPack(s)
			p.Obj(bTBlob, blob, false)
			p.Ref(bOID(s, "blob", b0), d01, false)
			mk("thin", s, p, []bObj{{"blob", b0}})

			big := bytes.Repeat([]byte("0123456789abcdef"), 6400) // 100 KiB, compresses to a few hundred bytes
			big2 := append(append([]byte{}, big[:50000]...), append([]byte("MID"), big[50000:]...)...)
			dl := append(bVarint(uint64(len(big))), bVarint(uint64(len(big2)))...)
			dl = append(dl, 0xb0, 0x50, 0xc3, 0x03, 'M', 'I', 'D', 0xb3, 0x50, 0xc3, 0xb0, 0xcc)
			if outb, reason := bGitPatchDelta(big, dl); reason != "" || !bytes.Equal(outb, big2) {
				fw.Abort("C09 set-up: bad large delta (%s)", reason)
			}
			p = bNewPack(s)
			ob := p.Obj(bTBlob, big, false)
			p.Ofs(ob, dl, false)
			mk("large", s, p, nil)

			// "medium": the only base whose BYTES are longer than the scanner's
			// 4 KiB read buffer and the 32 KiB pooled copy buffer (incompressible
			// data: stored deflate blocks, read with Read instead of ReadByte)
			rnd := func(n int, seed uint32) []byte {
				out := make([]byte, n)
				x := seed
				for i := range out {
					x ^= x << 13
					x ^= x >> 17
					x ^= x << 5
					out[i] = byte(x >> 9)
				}
				return out
			}
			ma := rnd(5000, 2463534242)
			ma2 := append(append(append([]byte{}, ma[:2500]...), "EDIT"...), ma[2500:]...)
			dm := append(bVarint(5000), bVarint(5004)...)
			dm = append(dm, bCopyOp(0, 2500)...)
			dm = append(dm, 4, 'E', 'D', 'I', 'T')
			dm = append(dm, bCopyOp(2500, 2500)...)
			if outb, reason := bGitPatchDelta(ma, dm); reason != "" || !bytes.Equal(outb, ma2) {
				fw.Abort("C09 set-up: bad medium delta (%s)", reason)
			}
			mc := rnd(36000, 88172645)
			p = bNewPack(s)
			oa := p.Obj(bTBlob, ma, false)
			p.Ofs(oa, dm, false)
			p.Obj(bTBlob, mc, false)
			p.Ref(bOID(s, "blob", ma2), append(append(bVarint(5004), bVarint(3)...), bCopyOp(2499, 3)...), false)
			if p.Len() < 40000 {
				fw.Abort("C09 set-up: the medium pack is only %d bytes", p.Len())
			}
			mk("medium", s, p, nil)
		} else {
			p := bNewPack(s)
			p.Obj(bTCommit, commit, false)
			p.Obj(bTTree, tree, false)
			p.Obj(bTBlob, blob, false)
			o0 := p.Obj(bTBlob, b0, false)
			p.Ofs(o0, d01, false)
			p.Ref(bOID(s, "blob", b1), d12, false)
			mk("sha256", s, p, nil)
		}
	}
	return out
}

// ---- one candidate pack --------------------------------------------------

type c09Case struct {
	base   *c09Base
	pack   []byte
	family string // key component: which kind of corruption
	region string // key component: where
	desc   string // replay description
}

type c09Run struct {
	mode     string
	accepted bool
	err      string
	panic    string
	stored   map[string]bObj
	storeErr string
	seen     []bSeen
	crash    string // the process died (helper process only)
}

var c09Modes = []int{bModeNone, bModeStream, bModeMem, bModeFS}

// c09PackWriter feeds the pack to the filesystem storage's PackfileWriter (on
// an in-memory filesystem) and, when that succeeds, reads every object back.
func c09PackWriter(pack []byte, sha256fmt bool, pre []bObj) (r c09Run) {
	r.mode = "filesystem PackfileWriter"
	defer func() {
		if x := recover(); x != nil {
			r.panic = fmt.Sprint(x)
			r.accepted = false
		}
	}()
	st := filesystem.NewStorageWithOptions(memfs.New(), cache.NewObjectLRU(cache.MiByte), filesystem.Options{ObjectFormat: bObjFormat(sha256fmt)})
	if err := st.Init(); err != nil {
		fw.Abort("C09: storage init: %v", err)
	}
	defer st.Close()
	for _, o := range pre {
		eo := st.NewEncodedObject()
		t, _ := plumbing.ParseObjectType(o.Type)
		eo.SetType(t)
		eo.SetSize(int64(len(o.Data)))
		w, _ := eo.Writer()
		w.Write(o.Data)
		w.Close()
		if _, err := st.SetEncodedObject(eo); err != nil {
			fw.Abort("C09: pre-store: %v", err)
		}
	}
	w, err := st.PackfileWriter()
	if err != nil {
		r.err = err.Error()
		return
	}
	if _, err := io.Copy(w, bytes.NewReader(pack)); err != nil {
		w.Close()
		r.err = "write: " + err.Error()
		return
	}
	if err := w.Close(); err != nil {
		r.err = "close: " + err.Error()
		return
	}
	r.accepted = true
	r.stored = map[string]bObj{}
	it, err := st.IterEncodedObjects(plumbing.AnyObject)
	if err != nil {
		r.storeErr = err.Error()
		return
	}
	err = it.ForEach(func(o plumbing.EncodedObject) error {
		rd, err := o.Reader()
		if err != nil {
			return fmt.Errorf("open %s: %w", o.Hash(), err)
		}
		data, err := io.ReadAll(rd)
		rd.Close()
		if err != nil {
			return fmt.Errorf("read %s: %w", o.Hash(), err)
		}
		r.stored[o.Hash().String()] = bObj{o.Type().String(), data}
		return nil
	})
	if err != nil {
		r.storeErr = err.Error()
	}
	return
}

func c09GoGit(c *fw.Ctx, cs *c09Case) []c09Run {
	var runs []c09Run
	for _, m := range c09Modes {
		res := bParse(cs.pack, m, cs.base.sha256, "", cs.base.pre)
		r := c09Run{mode: "Parser/" + bModeNames[m], accepted: res.Err == nil && res.Panic == "", panic: res.Panic, stored: res.Stored, storeErr: res.StoreErr, seen: res.Seen}
		if res.Err != nil {
			r.err = res.Err.Error()
		}
		runs = append(runs, r)
	}
	if c09DeclaredCount(cs.pack) > c09ChildThreshold {
		runs = append(runs, c09PackWriterChild(c, cs.pack, cs.base.sha256))
	} else {
		runs = append(runs, c09PackWriter(cs.pack, cs.base.sha256, cs.base.pre))
	}
	return runs
}

var c09Num = regexp.MustCompile(`[0-9a-f]{40,64}|[0-9]+`)

// c09GitClass normalises git's complaint; structural=false for the reasons
// the property excludes (missing thin base) or that are limits, not structure.
func c09GitClass(stderr []byte) (class string, structural bool) {
	lines := strings.Split(strings.TrimSpace(string(stderr)), "\n")
	msg := ""
	for _, l := range lines {
		if strings.HasPrefix(l, "fatal: ") {
			msg = strings.TrimPrefix(l, "fatal: ")
		}
	}
	if msg == "" && len(lines) > 0 {
		msg = lines[len(lines)-1]
	}
	class = c09Num.ReplaceAllString(msg, "N")
	if i := strings.Index(class, " (disk corruption?)"); i > 0 {
		class = class[:i]
	}
	switch {
	case strings.Contains(class, "unresolved delta"):
		return class, false // a base that is not in the pack nor in the repository: "missing base in thin pack"
	case strings.Contains(class, "duplicate base"):
		return class, false // git's own limitation on packs with the same object twice
	case strings.Contains(class, "Out of memory"), strings.Contains(class, "exceeds maximum"), strings.Contains(class, "malloc"), strings.Contains(class, "too large"):
		return class, false // resource limit
	}
	return class, true
}

type c09Git struct {
	mu   sync.Mutex
	home *fw.Git
	repo string // holds the external bases
	n    atomic.Int64
	c    *fw.Ctx
	memo sync.Map
}

type c09GitRes struct {
	ok         bool
	class      string
	structural bool
	raw        string
}

// verdict runs real git on the pack (memoised by content).
func (g *c09Git) verdict(cs *c09Case) c09GitRes {
	key := bFmtName(cs.base.sha256) + string(cs.pack)
	if v, ok := g.memo.Load(key); ok {
		return v.(c09GitRes)
	}
	g.n.Add(1)
	gg, dir := g.c.InitRepo("c09git", bFmtName(cs.base.sha256), true)
	var r fw.Res
	if len(cs.base.pre) > 0 {
		for _, o := range cs.base.pre {
			gg.MustRunIn(o.Data, "hash-object", "-w", "-t", o.Type, "--stdin")
		}
		r = gg.RunIn(cs.pack, "index-pack", "--fix-thin", "--stdin")
	} else {
		pf := filepath.Join(dir, "t.pack")
		bWriteFile(pf, cs.pack)
		r = gg.Run("index-pack", "-o", filepath.Join(dir, "t.idx"), pf)
	}
	res := c09GitRes{ok: r.OK(), raw: bFirstLine(r.Err)}
	if !r.OK() {
		res.class, res.structural = c09GitClass(r.Err)
	}
	os.RemoveAll(dir)
	g.memo.Store(key, res)
	return res
}

// c09Diagnose names the first structural problem of a candidate pack (in file
// order, then delta semantics). It is a function of the bytes only and is what
// finding keys are made of: many mutation sites, one root cause, one key.
func c09Diagnose(pack []byte, sha256fmt bool, ext map[string]bObj) string {
	hs := 20
	if sha256fmt {
		hs = 32
	}
	if len(pack) == 0 {
		return "empty input"
	}
	if len(pack) < 12 {
		return "input ends inside the 12-byte pack header"
	}
	if string(pack[:4]) != "PACK" {
		return "bad pack signature"
	}
	if v := c09U32(pack[4:]); v != 2 {
		return "unsupported pack version"
	}
	n := int(c09U32(pack[8:]))
	pos := 12
	type ent struct {
		off     int
		typ     int
		data    []byte
		baseOff int
		baseID  string
	}
	var ents []ent
	starts := map[int]bool{}
	problem := ""
	for i := 0; i < n && problem == ""; i++ {
		if i > 1<<16 {
			break
		}
		if len(pack)-pos == hs {
			return "object count larger than the entries present"
		}
		if len(pack)-pos <= 0 {
			return "input ends where an entry should start"
		}
		e := ent{off: pos}
		c := pack[pos]
		pos++
		e.typ = int(c>>4) & 7
		size := uint64(c & 15)
		shift := uint(4)
		for c&0x80 != 0 {
			if pos >= len(pack) {
				return "input ends inside an entry header"
			}
			if shift > 57 {
				return "entry size varint too long"
			}
			c = pack[pos]
			pos++
			size |= uint64(c&0x7f) << shift
			shift += 7
		}
		if e.typ == 0 || e.typ == 5 {
			return fmt.Sprintf("invalid entry type %d", e.typ)
		}
		kind := "object"
		if e.typ >= 6 {
			kind = "delta"
		}
		if e.typ == bTOfs {
			if pos >= len(pack) {
				return "input ends inside an entry header"
			}
			c = pack[pos]
			pos++
			v := uint64(c & 0x7f)
			k := 0
			for c&0x80 != 0 {
				if pos >= len(pack) {
					return "input ends inside an entry header"
				}
				k++
				if k > 8 {
					return "ofs-delta offset varint too long"
				}
				v++
				c = pack[pos]
				pos++
				v = v<<7 | uint64(c&0x7f)
			}
			if v == 0 || v > uint64(e.off) || e.off-int(v) < 12 {
				return "ofs-delta base offset outside the pack body"
			}
			e.baseOff = e.off - int(v)
			if !starts[e.baseOff] {
				return "ofs-delta base offset is not the start of an earlier entry"
			}
		}
		if e.typ == bTRef {
			if pos+hs > len(pack) {
				return "input ends inside an entry header"
			}
			e.baseID = hex.EncodeToString(pack[pos : pos+hs])
			pos += hs
		}
		br := bytes.NewReader(pack[pos:])
		zr, err := zlib.NewReader(br)
		var data []byte
		if err == nil {
			data, err = io.ReadAll(io.LimitReader(zr, int64(size)+(1<<20)))
			if err == nil && uint64(len(data)) >= size+(1<<20) {
				err = nil // more than declared anyway
			}
		}
		if err != nil {
			switch {
			case errors.Is(err, zlib.ErrHeader):
				return kind + ": invalid zlib header"
			case errors.Is(err, zlib.ErrChecksum):
				return kind + ": zlib checksum mismatch"
			case errors.Is(err, zlib.ErrDictionary):
				return kind + ": zlib preset dictionary"
			case errors.Is(err, io.ErrUnexpectedEOF), errors.Is(err, io.EOF):
				return kind + ": zlib stream cut short by the end of the input"
			default:
				return kind + ": corrupt deflate data"
			}
		}
		pos = len(pack) - br.Len()
		if uint64(len(data)) < size {
			return kind + ": inflated data shorter than the declared size"
		}
		if uint64(len(data)) > size {
			return kind + ": inflated data longer than the declared size"
		}
		e.data = data
		starts[e.off] = true
		ents = append(ents, e)
	}
	rest := len(pack) - pos
	if rest < hs {
		return "input ends inside the trailer"
	}
	sealed := bSealPack(append([]byte{}, pack[:pos]...), sha256fmt)
	if !bytes.Equal(sealed[pos:], pack[pos:pos+hs]) {
		if rest > hs {
			return "more data after the announced number of entries (trailer position holds no checksum)"
		}
		return "trailer is not the checksum of the contents"
	}
	if rest > hs {
		return "junk after the trailer"
	}
	// delta semantics
	type res struct {
		typ  string
		data []byte
		ok   bool
	}
	byOff := map[int]*res{}
	byID := map[string]*res{}
	rs := make([]*res, len(ents))
	for i, e := range ents {
		rs[i] = &res{}
		byOff[e.off] = rs[i]
		if e.typ <= 4 {
			rs[i].typ, rs[i].data, rs[i].ok = bTypeName[e.typ], e.data, true
			byID[bOIDHex(sha256fmt, rs[i].typ, e.data)] = rs[i]
		}
	}
	for progress := true; progress; {
		progress = false
		for i, e := range ents {
			if rs[i].ok || e.typ <= 4 {
				continue
			}
			var b *res
			if e.typ == bTOfs {
				b = byOff[e.baseOff]
			} else if x, ok := byID[e.baseID]; ok {
				b = x
			} else if x, ok := ext[e.baseID]; ok {
				b = &res{x.Type, x.Data, true}
			}
			if b == nil || !b.ok {
				continue
			}
			out, reason := bGitPatchDelta(b.data, e.data)
			if reason != "" {
				return "invalid delta instructions: " + reason
			}
			rs[i].typ, rs[i].data, rs[i].ok = b.typ, out, true
			id := bOIDHex(sha256fmt, b.typ, out)
			if _, dup := byID[id]; !dup {
				byID[id] = rs[i]
			}
			progress = true
		}
	}
	for i := range ents {
		if !rs[i].ok {
			return "delta whose base is neither in the pack nor in the repository"
		}
	}
	return "well-formed"
}

func c09U32(b []byte) uint32 {
	return uint32(b[0])<<24 | uint32(b[1])<<16 | uint32(b[2])<<8 | uint32(b[3])
}

// c09Judge applies both halves of the property to one candidate. Keys name
// the corruption family, the region of the pack it hits, git's normalised
// complaint and the set of go-git entry points concerned, so that one defect
// gives one key and a defect reaching a new entry point gives a new one.
func c09Judge(c *fw.Ctx, g *c09Git, cs *c09Case, stats *c09Stats) {
	runs := c09GoGit(c, cs)
	c.Evals(len(runs))
	rep := func(extra string) map[string]any {
		m := map[string]any{"base_pack": cs.base.name, "format": bFmtName(cs.base.sha256), "mutation": cs.desc, "site": cs.family + ": " + cs.region, "detail": extra}
		if len(cs.pack) <= 4096 {
			m["pack_hex"] = hex.EncodeToString(cs.pack)
		}
		return m
	}
	modes := func(sel func(r c09Run) bool) string {
		var in []string
		n := 0
		for _, r := range runs {
			if sel(r) {
				in = append(in, r.mode)
				n++
			}
		}
		if n == 0 {
			return ""
		}
		if n == len(runs) {
			return "every entry point"
		}
		return strings.Join(in, ", ")
	}
	ext := map[string]bObj{}
	for _, o := range cs.base.pre {
		ext[bOIDHex(cs.base.sha256, o.Type, o.Data)] = o
	}
	site := cs.family + ": " + cs.region
	diagnosed := false
	where := ""
	diag := func() string { // computed only for candidates that matter
		if !diagnosed {
			where = c09Diagnose(cs.pack, cs.base.sha256, ext)
			diagnosed = true
		}
		return where
	}
	if m := modes(func(r c09Run) bool { return r.crash != "" }); m != "" {
		var msg string
		for _, r := range runs {
			if r.crash != "" {
				msg = r.crash
			}
		}
		c.Fail(fmt.Sprintf("go-git kills the process (%s): pack header announces more than 2^20 objects [%s]", c09Num.ReplaceAllString(msg, "N"), m),
			fmt.Sprintf("the helper process died: %s (declared object count %d)", msg, c09DeclaredCount(cs.pack)), rep(msg))
	}
	if m := modes(func(r c09Run) bool { return r.panic != "" }); m != "" {
		var msg string
		for _, r := range runs {
			if r.panic != "" {
				msg = r.panic
			}
		}
		c.Fail(fmt.Sprintf("go-git panics: %s [%s]", diag(), m), "panic: "+msg, rep(msg))
	}
	anyAccept := false
	wrong := map[string]string{}
	unreadable := map[string]string{}
	for _, r := range runs {
		if !r.accepted {
			continue
		}
		anyAccept = true
		// half 1: everything yielded hashes to its name
		if r.stored != nil {
			if r.storeErr != "" {
				unreadable[r.mode] = c09Num.ReplaceAllString(r.storeErr, "N")
			}
			for _, id := range bSortedKeys(r.stored) {
				o := r.stored[id]
				if got := bOIDHex(cs.base.sha256, o.Type, o.Data); got != id {
					wrong[r.mode] = fmt.Sprintf("object %s (%s, %d bytes) re-hashes to %s", id, o.Type, len(o.Data), got)
					break
				}
			}
		}
	}
	if len(wrong) > 0 {
		m := modes(func(r c09Run) bool { return wrong[r.mode] != "" })
		var d string
		for _, k := range bSortedKeys(wrong) {
			d = wrong[k]
		}
		c.Fail(fmt.Sprintf("accepted pack yields an object that does not hash to its name: %s [%s]", diag(), m), d, rep(d))
	}
	if len(unreadable) > 0 {
		m := modes(func(r c09Run) bool { return unreadable[r.mode] != "" })
		var d string
		for _, k := range bSortedKeys(unreadable) {
			d = unreadable[k]
		}
		c.Fail(fmt.Sprintf("accepted pack leaves objects that cannot be read back: %s [%s]", diag(), m), d, rep(d))
	}
	if !anyAccept {
		stats.rejected.Add(1)
		c.Class("rejected:" + site)
		return
	}
	stats.accepted.Add(1)
	// half 2: git's verdict
	gv := g.verdict(cs)
	if gv.ok {
		c.Class("both-accept:" + site)
		return
	}
	c.Class("git-rejects:" + gv.class)
	if !gv.structural && strings.Contains(gv.class, "unresolved delta") && strings.HasPrefix(diag(), "ofs-delta base offset") {
		// "unresolved" because an OFS_DELTA points at something that is not an
		// entry: that is not a missing thin base but a broken pack
		gv.structural = true
	}
	if !gv.structural {
		return
	}
	m := modes(func(r c09Run) bool { return r.accepted })
	d := diag()
	if d == "well-formed" {
		d = "no problem found by the independent reader; git says: " + gv.class
	}
	c.Fail(fmt.Sprintf("go-git accepts, git index-pack rejects: %s [%s]", d, m), "git: "+gv.raw+" ("+site+")", rep(gv.raw))
}

type c09Stats struct{ accepted, rejected atomic.Int64 }

func runC09(c *fw.Ctx) {
	bases := c09Bases()
	vals := []string{"b^01", "b^80", "00", "ff"}
	if c.Thorough() {
		vals = []string{"00", "01", "7f", "80", "ff", "b^01", "b^80"}
	}
	c.Bound("base_packs", func() []string {
		var n []string
		for _, b := range bases {
			n = append(n, fmt.Sprintf("%s(%s,%d bytes)", b.name, bFmtName(b.sha256), len(b.pack)))
		}
		return n
	}())
	c.Bound("substitution_values", vals)
	c.Bound("medium_pack_windows", "the 41 KB base is mutated / cut at every offset within 8 of a multiple of 4096, within [-6,+12] of every entry start, in the last 8 bytes of every entry, in the first and the last 64 bytes (quick and thorough)")
	c.Bound("variants", []string{"raw (trailer left alone)", "resealed (trailer recomputed: malicious)"})
	c.Bound("pairs", c.Pick(0, 1))
	c.SetRule("for each base pack: every single-byte substitution at every offset with every listed value, every truncation length, each both raw and with the trailer recomputed; (thorough) every pair of substitutions b^01/b^80 within the first 40 bytes; plus hand-built packs (declared size vs inflated length +-1,2 for objects and deltas, ofs-delta offsets 0 / beyond the start / into the header / into the middle of an entry, ref-delta to itself via a 2-cycle and to a missing id, delta chains of depth 4095/4096/4097, wrong trailer, trailing garbage, object count +-1, bad types, oversized size varints, truncated delta instructions). Each candidate is parsed by go-git in 4 parser modes and through the filesystem PackfileWriter; when any mode accepts, every yielded object is re-hashed with an independent hasher and real `git index-pack` (thin family: --fix-thin --stdin in a repository holding the base) gives its verdict. non-trivial = candidates at least one mode accepts; distinct = (verdict pair, family, pack region / git's normalised message).")
	c.Assume("structural rejection by git = any index-pack failure except 'unresolved deltas' (missing thin base), 'duplicate base' (git's own limitation with duplicated objects) and memory/size limits; index-pack is run without --strict (object content checks are not structural)")
	c.Assume("objects left in a storage by a parse that FAILS are not judged: the property allows 'rejects'")
	g := &c09Git{c: c}
	stats := &c09Stats{}

	var cases []*c09Case
	add := func(b *c09Base, pack []byte, family, region, desc string) {
		cases = append(cases, &c09Case{base: b, pack: pack, family: family, region: region, desc: desc})
	}
	// hand-built first (cheap, high value)
	c09Hand(c, bases, add)
	nHand := len(cases)
	for _, b := range bases {
		hs := 20
		if b.sha256 {
			hs = 32
		}
		if !c.Thorough() && (b.name == "large") {
			continue
		}
		win := c09Windows(b)
		for off := 0; off < len(b.pack); off++ {
			if win != nil && !win[off] {
				continue
			}
			for _, v := range vals {
				orig := b.pack[off]
				var nb byte
				switch v {
				case "b^01":
					nb = orig ^ 1
				case "b^80":
					nb = orig ^ 0x80
				default:
					x, _ := hex.DecodeString(v)
					nb = x[0]
				}
				if nb == orig {
					continue
				}
				m := append([]byte{}, b.pack...)
				m[off] = nb
				reg := b.region(int64(off))
				desc := fmt.Sprintf("byte %d: %02x -> %02x", off, orig, nb)
				add(b, m, "substitution", reg, desc)
				if off < len(b.pack)-hs {
					add(b, bReseal(m, b.sha256), "substitution+new trailer", reg, desc+", trailer recomputed")
				}
			}
		}
		for l := 0; l < len(b.pack); l++ {
			if win != nil && !win[l] {
				continue
			}
			add(b, append([]byte{}, b.pack[:l]...), "truncation", b.region(int64(l)), fmt.Sprintf("file cut to %d bytes", l))
			if l >= 12 && l < len(b.pack)-hs {
				add(b, bSealPack(append([]byte{}, b.pack[:l]...), b.sha256), "truncation+new trailer", b.region(int64(l)), fmt.Sprintf("body cut to %d bytes, trailer recomputed", l))
			}
		}
		if c.Thorough() && win == nil {
			lim := 40
			for i := 0; i < lim; i++ {
				for j := i + 1; j < lim; j++ {
					for _, xi := range []byte{1, 0x80} {
						for _, xj := range []byte{1, 0x80} {
							m := append([]byte{}, b.pack...)
							m[i] ^= xi
							m[j] ^= xj
							add(b, bReseal(m, b.sha256), "two substitutions+new trailer", b.region(int64(i))+" & "+b.region(int64(j)), fmt.Sprintf("bytes %d^%02x and %d^%02x, trailer recomputed", i, xi, j, xj))
						}
					}
				}
			}
		}
	}
	c.Bound("hand_built_packs", nHand)
	c.Bound("candidates", len(cases))
	c.ParDo(len(cases), 0, func(i int) {
		c09Judge(c, g, cases[i], stats)
		if i%4001 == 17 {
			c.Sample(map[string]any{"base": cases[i].base.name, "mutation": cases[i].desc, "family": cases[i].family, "region": cases[i].region})
		}
	})
	c.Extra("accepted_by_some_mode", stats.accepted.Load())
	c.Extra("rejected_by_all_modes", stats.rejected.Load())
	c.Extra("git_runs", g.n.Load())
	// sanity: the unmodified bases are accepted by everyone
	for _, b := range bases {
		cs := &c09Case{base: b, pack: b.pack, family: "unmodified", region: "-", desc: "unmodified"}
		if gv := g.verdict(cs); !gv.ok {
			fw.Abort("C09 set-up: git rejects the unmodified base pack %s: %s", b.name, gv.raw)
		}
		for _, r := range c09GoGit(c, cs) {
			if strings.Contains(r.mode, "nostorage") && len(b.pre) > 0 {
				continue
			}
			if r.mode == "filesystem PackfileWriter" && len(b.pre) > 0 {
				continue
			}
			if !r.accepted {
				c.Fail("go-git rejects the unmodified base pack "+b.name+" ["+r.mode+"]", r.err+r.panic, map[string]any{"base": b.name})
			}
		}
	}
}

// c09Hand builds the hand-made family.
func c09Hand(c *fw.Ctx, bases []*c09Base, add func(b *c09Base, pack []byte, family, region, desc string)) {
	hb := &c09Base{name: "hand-built", sha256: false}
	s := false
	blob := []byte("some content of a blob, long enough\n")
	src := []byte("0123456789abcdefghijklmnopqrstuvwxyz0123456789ABCDEFGHIJKLMNOPQRSTUVWXYZ\n")
	tgt := append(append([]byte{}, src[:10]...), append([]byte("+++"), src[10:]...)...)
	delta := append(bVarint(uint64(len(src))), bVarint(uint64(len(tgt)))...)
	delta = append(delta, 0x90, 10, 3, '+', '+', '+', 0x91, 10, byte(len(src)-10))
	if o, r := bGitPatchDelta(src, delta); r != "" || !bytes.Equal(o, tgt) {
		fw.Abort("C09 set-up: hand delta invalid: %s", r)
	}
	// H1: declared size vs inflated length
	for _, d := range []int{-2, -1, 1, 2} {
		p := bNewPack(s)
		p.Raw(bTBlob, uint64(len(blob)+d), nil, bDeflate(blob))
		what := "larger"
		if d < 0 {
			what = "smaller"
		}
		add(hb, p.Bytes(), "declared size "+what+" than the inflated data", "whole object", fmt.Sprintf("blob of %d bytes declared as %d", len(blob), len(blob)+d))
		p = bNewPack(s)
		o0 := p.Obj(bTBlob, src, false)
		off := p.Len()
		p.Raw(bTOfs, uint64(len(delta)+d), bOfsEnc(uint64(off-o0)), bDeflate(delta))
		add(hb, p.Bytes(), "declared size "+what+" than the inflated data", "delta instructions", fmt.Sprintf("delta of %d bytes declared as %d", len(delta), len(delta)+d))
	}
	// H2: ofs-delta base offsets
	{
		p := bNewPack(s)
		o0 := p.Obj(bTBlob, src, false)
		off := p.Len() // where the delta entry starts in every pack below
		mid := o0 + 3
		for _, t := range []struct {
			name string
			neg  []byte
		}{
			{"zero (points to itself)", []byte{0}},
			{"beyond the start of the pack", bOfsEnc(uint64(off + 5))},
			{"exactly the delta's own offset (base at 0)", bOfsEnc(uint64(off))},
			{"into the pack header", bOfsEnc(uint64(off - 4))},
			{"into the middle of an entry", bOfsEnc(uint64(off - mid))},
			{"overlong offset varint", []byte{0xff, 0xff, 0xff, 0xff, 0xff, 0xff, 0xff, 0xff, 0xff, 0x7f}},
		} {
			q := bNewPack(s)
			q.Obj(bTBlob, src, false)
			q.Raw(bTOfs, uint64(len(delta)), t.neg, bDeflate(delta))
			add(hb, q.Bytes(), "ofs-delta base offset", t.name, "ofs-delta whose negative offset is "+t.name)
		}
	}
	// H3: ref-delta to a missing id, and a 2-cycle
	{
		p := bNewPack(s)
		p.Obj(bTBlob, blob, false)
		p.Ref(bytes.Repeat([]byte{0xab}, 20), delta, false)
		add(hb, p.Bytes(), "ref-delta base", "missing id", "ref-delta against an id that exists nowhere")
		back := append(bVarint(uint64(len(tgt))), bVarint(uint64(len(src)))...)
		back = append(back, 0x90, 10, 0x91, 13, byte(len(src)-10))
		if o, r := bGitPatchDelta(tgt, back); r != "" || !bytes.Equal(o, src) {
			fw.Abort("C09 set-up: back delta invalid: %s", r)
		}
		p = bNewPack(s)
		p.Ref(bOID(s, "blob", src), delta, false) // yields tgt, needs src
		p.Ref(bOID(s, "blob", tgt), back, false)  // yields src, needs tgt
		add(hb, p.Bytes(), "ref-delta base", "2-cycle", "two ref-deltas that are each other's base")
	}
	// H4: chains
	for _, depth := range []int{4095, 4096, 4097} {
		p := bNewPack(s)
		cur := []byte("base\n")
		prev := p.Obj(bTBlob, cur, true)
		for i := 0; i < depth; i++ {
			d := append(bVarint(uint64(len(cur))), bVarint(uint64(len(cur)+1))...)
			d = append(d, bCopyOp(0, uint64(len(cur)))...)
			d = append(d, 1, byte('a'+i%26))
			prev = p.Ofs(prev, d, true)
			cur = append(cur, byte('a'+i%26))
		}
		add(hb, p.Bytes(), "delta chain depth", fmt.Sprint(depth), fmt.Sprintf("ofs-delta chain of depth %d", depth))
	}
	// H5: trailer, garbage, count
	{
		p := bNewPack(s)
		p.Obj(bTBlob, blob, false)
		p.Obj(bTBlob, src, false)
		good := p.Bytes()
		w := append([]byte{}, good...)
		w[len(w)-1] ^= 0xff
		add(hb, w, "trailer", "wrong checksum", "last trailer byte flipped")
		add(hb, append(append([]byte{}, good...), 'j', 'u', 'n', 'k'), "trailer", "garbage after the trailer", "4 bytes appended after the trailer")
		body := append(append([]byte{}, good[:len(good)-20]...), 'j', 'u', 'n', 'k')
		add(hb, bSealPack(body, s), "trailer", "garbage before a correct trailer", "4 bytes between the last entry and a recomputed trailer")
		for _, dn := range []int{-1, 1} {
			m := append([]byte{}, good[:len(good)-20]...)
			m[11] = byte(2 + dn)
			add(hb, bSealPack(m, s), "object count", fmt.Sprintf("%+d", dn), fmt.Sprintf("header says %d objects, pack has 2, trailer recomputed", 2+dn))
		}
		m := append([]byte{}, good[:len(good)-20]...)
		m[7] = 3
		add(hb, bSealPack(m, s), "pack header", "version 3", "version 3, trailer recomputed")
		add(hb, bSealPack([]byte{'P', 'A', 'C', 'K', 0, 0, 0, 2, 0, 0, 0, 0}, s), "object count", "empty pack", "zero objects with a correct trailer")
	}
	// H6: types and sizes
	for _, t := range []int{0, 5} {
		p := bNewPack(s)
		p.Raw(t, uint64(len(blob)), nil, bDeflate(blob))
		add(hb, p.Bytes(), "entry type", fmt.Sprint(t), fmt.Sprintf("entry of type %d", t))
	}
	{
		p := bNewPack(s)
		p.Raw(bTBlob, 1<<40, nil, bDeflate(blob))
		add(hb, p.Bytes(), "declared size larger than the inflated data", "huge size", "blob declared as 2^40 bytes")
		q := bNewPack(s)
		q.buf.Write([]byte{0xbf, 0xff, 0xff, 0xff, 0xff, 0xff, 0xff, 0xff, 0xff, 0xff, 0x7f})
		q.buf.Write(bDeflate(blob))
		q.n++
		add(hb, q.Bytes(), "entry size varint", "overlong", "11-byte size varint")
		// zlib stream followed by garbage inside the entry area
		r := bNewPack(s)
		r.Raw(bTBlob, uint64(len(blob)), nil, append(bDeflate(blob), 'x', 'y'))
		r.Obj(bTBlob, src, false)
		add(hb, r.Bytes(), "bytes between entries", "after a zlib stream", "two stray bytes after the first entry's zlib stream")
		// empty deflate for a non-empty declared size, stored blocks with bad LEN/NLEN
		z := bStored(blob)
		z[4] ^= 0xff
		t := bNewPack(s)
		t.Raw(bTBlob, uint64(len(blob)), nil, z)
		add(hb, t.Bytes(), "zlib stream", "stored block LEN/NLEN mismatch", "stored block with corrupted NLEN")
		z = bStored(blob)
		z[0] = 0x78
		z[1] = 0xbb // FDICT set, checksum ok? (0x78bb % 31 == 0)
		u := bNewPack(s)
		u.Raw(bTBlob, uint64(len(blob)), nil, z)
		add(hb, u.Bytes(), "zlib stream", "preset dictionary flag", "zlib header 78 bb (FDICT)")
	}
	// H8: delta instruction streams that git refuses (see C06), inside an otherwise valid pack
	for _, t := range []struct{ name, hexd string }{
		{"insert literal cut short", ""},
		{"copy beyond the source", ""},
		{"target size not reached", ""},
		{"trailing instruction after the target is complete", ""},
		{"source size mismatch", ""},
		{"source size smaller than the base", ""},
		{"opcode 0", ""},
	} {
		var d []byte
		hdr := append(bVarint(uint64(len(src))), bVarint(20)...)
		switch t.name {
		case "insert literal cut short":
			d = append(append([]byte{}, hdr...), 0x90, 10, 10, 'a', 'b', 'c')
		case "copy beyond the source":
			d = append(append([]byte{}, hdr...), 0x91, byte(len(src)-5), 20)
		case "target size not reached":
			d = append(append([]byte{}, hdr...), 0x90, 10)
		case "trailing instruction after the target is complete":
			d = append(append([]byte{}, hdr...), 0x90, 20, 0x90, 1)
		case "source size mismatch":
			d = append(append(bVarint(uint64(len(src)+1)), bVarint(20)...), 0x90, 20)
		case "source size smaller than the base":
			d = append(append(bVarint(uint64(len(src)-1)), bVarint(20)...), 0x90, 20)
		case "opcode 0":
			d = append(append([]byte{}, hdr...), 0x90, 19, 0x00, 'x')
		}
		if _, r := bGitPatchDelta(src, d); r == "" {
			fw.Abort("C09 set-up: delta %q should be invalid", t.name)
		}
		p := bNewPack(s)
		o0 := p.Obj(bTBlob, src, false)
		p.Ofs(o0, d, false)
		add(hb, p.Bytes(), "invalid delta instructions", t.name, "ofs-delta with "+t.name)
	}
}

// c09Windows: the offsets of a big base pack that are mutated (nil = all).
func c09Windows(b *c09Base) map[int]bool {
	if b.name != "medium" {
		return nil
	}
	win := map[int]bool{}
	mark := func(lo, hi int) {
		for i := lo; i < hi; i++ {
			if i >= 0 && i < len(b.pack) {
				win[i] = true
			}
		}
	}
	mark(0, 64)
	mark(len(b.pack)-64, len(b.pack))
	for k := 4096; k < len(b.pack)+8; k += 4096 {
		mark(k-8, k+9)
	}
	for _, r := range b.regions {
		mark(int(r.from)-6, int(r.from)+13)
		mark(int(r.to)-8, int(r.to))
	}
	return win
}

package checks

import (
	"os"
	"archive/tar"
	"archive/zip"
	"bytes"
	"compress/gzip"
	"fmt"
	"io"
	"io/fs"
	"sort"
	"strings"
	"sync"

	git "github.com/go-git/go-git/v6"

	"verifmc/fw"
)

// C50: archives have `git archive`'s content. go-git side: the public
// Repository.Archive (which calls internal/archive.ResolveTreeish + WriteArchive);
// git side: `git archive --format=tar|tar.gz|zip [--prefix=P] <tree-ish> [path]`.
// Both outputs are parsed with archive/tar / archive/zip and compared entry-wise.

func init() {
	fw.Register(&fw.Check{ID: "C50", Level: "exploration", Run: runC50, QuickBudget: 100, ThoroughBudget: 1200})
}

type arEntry struct {
	Name  string
	Kind  string // file | exec | symlink | dir
	Mode  int64  // tar only: permission bits
	Link  string
	Data  string
	MTime int64
}

type arParsed struct {
	Entries map[string]arEntry
	Comment string // pax global comment / zip comment
	Dups    []string
}

func c50ParseTar(b []byte, gz bool) (*arParsed, error) {
	var r io.Reader = bytes.NewReader(b)
	if gz {
		zr, err := gzip.NewReader(r)
		if err != nil {
			return nil, err
		}
		r = zr
	}
	tr := tar.NewReader(r)
	p := &arParsed{Entries: map[string]arEntry{}}
	for {
		h, err := tr.Next()
		if err == io.EOF {
			return p, nil
		}
		if err != nil {
			return nil, err
		}
		if h.Typeflag == tar.TypeXGlobalHeader {
			p.Comment = h.PAXRecords["comment"]
			continue
		}
		e := arEntry{Name: h.Name, Mode: h.Mode & 0o7777, Link: h.Linkname, MTime: h.ModTime.Unix()}
		switch h.Typeflag {
		case tar.TypeDir:
			e.Kind = "dir"
		case tar.TypeSymlink:
			e.Kind = "symlink"
		case tar.TypeReg:
			e.Kind = "file"
			if h.Mode&0o111 != 0 {
				e.Kind = "exec"
			}
			d, err := io.ReadAll(tr)
			if err != nil {
				return nil, err
			}
			e.Data = string(d)
		default:
			e.Kind = fmt.Sprintf("typeflag-%c", h.Typeflag)
		}
		if _, dup := p.Entries[e.Name]; dup {
			p.Dups = append(p.Dups, e.Name)
		}
		p.Entries[e.Name] = e
	}
}

func c50ParseZip(b []byte) (*arParsed, error) {
	zr, err := zip.NewReader(bytes.NewReader(b), int64(len(b)))
	if err != nil {
		return nil, err
	}
	p := &arParsed{Entries: map[string]arEntry{}, Comment: zr.Comment}
	for _, f := range zr.File {
		e := arEntry{Name: f.Name, MTime: f.Modified.Unix()}
		m := f.Mode()
		rc, err := f.Open()
		if err != nil {
			return nil, err
		}
		d, err := io.ReadAll(rc)
		rc.Close()
		if err != nil {
			return nil, err
		}
		switch {
		case strings.HasSuffix(f.Name, "/") || m.IsDir():
			e.Kind = "dir"
		case m&fs.ModeSymlink != 0:
			e.Kind = "symlink"
			e.Link = string(d)
		default:
			e.Kind = "file"
			if m&0o111 != 0 {
				e.Kind = "exec"
			}
			e.Data = string(d)
		}
		if _, dup := p.Entries[e.Name]; dup {
			p.Dups = append(p.Dups, e.Name)
		}
		p.Entries[e.Name] = e
	}
	return p, nil
}

// tree element kinds of the generator
type c50Elem struct {
	id    string
	lines func(ids map[string]string) []string // mktree lines for the root tree
	files []string                             // a regular path usable as a file filter ("" none)
	dirs  []string                             // a path usable as a directory filter
}

func runC50(c *fw.Ctx) {
	g, dir := c.InitRepo("c50", "sha1", false)
	long := strings.Repeat("n", 60) + "/" + strings.Repeat("m", 70) + ".txt" // 135 characters
	// blobs and subtrees
	blob := func(data string) string {
		return g.MustRunIn([]byte(data), "hash-object", "-w", "--stdin").S()
	}
	bFile, bExec, bLink, bInner, bEmpty := blob("file content\n"), blob("#!/bin/sh\necho x\n"), blob("target/path"), blob("inner\n"), blob("")
	mktree := func(lines ...string) string {
		return g.MustRunIn([]byte(strings.Join(lines, "\n")+"\n"), "mktree").S()
	}
	emptyTree := g.MustRunIn([]byte(""), "mktree").S()
	tD := mktree("100644 blob " + bInner + "\tinner.txt")
	tD2 := mktree("100755 blob "+bExec+"\trun.sh", "120000 blob "+bLink+"\tln")
	tN3 := mktree("100644 blob " + bInner + "\tdeep.txt")
	tN2 := mktree("040000 tree " + tN3 + "\tn3")
	tLongInner := mktree("100644 blob " + bFile + "\t" + strings.Repeat("m", 70) + ".txt")
	subCommit := strings.Repeat("1234567890", 4)
	elems := []c50Elem{
		{id: "file", lines: func(map[string]string) []string { return []string{"100644 blob " + bFile + "\tf.txt"} }, files: []string{"f.txt"}},
		{id: "exec", lines: func(map[string]string) []string { return []string{"100755 blob " + bExec + "\tx.sh"} }, files: []string{"x.sh"}},
		{id: "symlink", lines: func(map[string]string) []string { return []string{"120000 blob " + bLink + "\tlnk"} }, files: []string{"lnk"}},
		{id: "submodule", lines: func(map[string]string) []string { return []string{"160000 commit " + subCommit + "\tsub"} }, dirs: []string{"sub"}},
		{id: "dir", lines: func(map[string]string) []string { return []string{"040000 tree " + tD + "\td"} }, dirs: []string{"d"}, files: []string{"d/inner.txt"}},
		{id: "dir2", lines: func(map[string]string) []string { return []string{"040000 tree " + tD2 + "\te"} }, dirs: []string{"e"}},
		{id: "emptydir", lines: func(map[string]string) []string { return []string{"040000 tree " + emptyTree + "\tempty"} }, dirs: []string{"empty"}},
		{id: "longname", lines: func(map[string]string) []string {
			return []string{"040000 tree " + tLongInner + "\t" + strings.Repeat("n", 60)}
		}, files: []string{long}},
		{id: "nested", lines: func(map[string]string) []string { return []string{"040000 tree " + tN2 + "\tn2"} }, dirs: []string{"n2/n3"}},
		{id: "emptyfile", lines: func(map[string]string) []string { return []string{"100644 blob " + bEmpty + "\tzero"} }, files: []string{"zero"}},
	}
	maxElems := c.Pick(2, 3)
	subsets := fw.Subsets(len(elems), maxElems)
	var enames []string
	for _, e := range elems {
		enames = append(enames, e.id)
	}
	c.Bound("tree_elements", enames)
	c.Bound("max_elements_per_tree", maxElems)
	c.Bound("trees", len(subsets))
	prefixes := []string{"", "p/", "p"}
	formats := []string{"tar", "tar.gz", "zip"}
	c.Bound("prefixes", prefixes)
	c.Bound("formats", formats)
	c.Bound("tree_ish_kinds", "commit id for every request; tree id and annotated tag for the requests without prefix and filter")
	c.SetRule("trees = every subset of <= max_elements_per_tree of the tree elements (regular/executable/empty file, symlink, gitlink, directory, directory with exec+symlink, entry pointing at the empty tree, 135-character path, 3-level nesting); requests = tree x prefix x path filter {none, each directory of the tree, each file of the tree} x format; go-git Repository.Archive vs `git archive`, both parsed with archive/tar, archive/zip: entry names, kind (file/exec/symlink/dir), tar permission bits, link target, bytes, mtime (commit and tag requests only: for a bare tree git stamps the current time), commit id comment; non-trivial = a request whose git archive has at least one entry; distinct = (format, prefix shape, filter kind, multiset of entry kinds) classes")
	c.Assume("git 2.39.5 archive with default tar.umask (002); zip permission bits are compared only as kind (git stores no unix mode for non-executable files in zip); entry order inside the archive is not compared")

	// commits (one per tree), a tag on each
	type treeCase struct {
		elems          []int
		tree, commit   string
		files, dirs    []string
		tag            string
		expectKindByID map[string]string
	}
	cases := make([]*treeCase, len(subsets))
	for i, ss := range subsets {
		var lines []string
		tc := &treeCase{elems: ss}
		for _, ei := range ss {
			lines = append(lines, elems[ei].lines(nil)...)
			tc.files = append(tc.files, elems[ei].files...)
			tc.dirs = append(tc.dirs, elems[ei].dirs...)
		}
		// mktree sorts entries itself
		if len(lines) == 0 {
			tc.tree = emptyTree
		} else {
			tc.tree = g.MustRunIn([]byte(strings.Join(lines, "\n")+"\n"), "mktree").S()
		}
		tc.commit = g.MustRun("commit-tree", "-m", fmt.Sprintf("tree %d", i), tc.tree).S()
		cases[i] = tc
	}
	for i, tc := range cases {
		tc.tag = fmt.Sprintf("t%d", i)
		g.MustRun("tag", "-a", "-m", "tag", tc.tag, tc.commit)
	}

	repo, err := git.PlainOpen(dir)
	c.Must(err, "PlainOpen")

	type request struct {
		tc      *treeCase
		ti      int
		treeish string
		kind    string // commit | tree | tag
		prefix  string
		filter  string
		fkind   string // none | dir | file
		format  string
		filters []string // several path filters (the extra requests); nil = {filter}
	}
	var reqs []request
	for ti, tc := range cases {
		for _, pf := range prefixes {
			type flt struct{ p, k string }
			fl := []flt{{"", "none"}}
			for _, d := range tc.dirs {
				fl = append(fl, flt{d, "dir"})
			}
			for _, f := range tc.files {
				fl = append(fl, flt{f, "file"})
			}
			for _, f := range fl {
				for _, fm := range formats {
					reqs = append(reqs, request{tc, ti, tc.commit, "commit", pf, f.p, f.k, fm, nil})
				}
			}
		}
		for _, fm := range formats {
			reqs = append(reqs, request{tc, ti, tc.tree, "tree", "", "", "none", fm, nil})
			reqs = append(reqs, request{tc, ti, tc.tag, "tag", "", "", "none", fm, nil})
		}
	}
	if os.Getenv("S13_ONLY_NEW") != "" { // development aid: only the extra requests
		reqs = nil
	}
	richTC := &treeCase{}
	// the extra requests go first: one request each for shapes the enumeration
	// below repeats many times, so a deadline should cut the enumeration's tail
	var extraReqs []request
	c50ExtraRequests(c, g, func(kind, treeish, prefix, fkind, format string, filters []string) {
		extraReqs = append(extraReqs, request{richTC, -1, treeish, kind, prefix, strings.Join(filters, " "), fkind, format, filters})
	})
	reqs = append(extraReqs, reqs...)
	c.Bound("requests", len(reqs))

	type failure struct {
		key, what string
		replay    map[string]any
	}
	var mu sync.Mutex
	var fails []failure
	c.ParDo(len(reqs), 0, func(i int) {
		rq := reqs[i]
		c.Eval()
		args := []string{"archive"}
		if rq.format != "" {
			args = append(args, "--format="+rq.format)
		}
		if rq.prefix != "" {
			args = append(args, "--prefix="+rq.prefix)
		}
		args = append(args, rq.treeish)
		filters := rq.filters
		if filters == nil && rq.filter != "" {
			filters = []string{rq.filter}
		}
		args = append(args, filters...)
		gzipped := rq.format == "tar.gz" || rq.format == "tgz"
		gr := g.Run(args...)
		var gp *arParsed
		var gerr error
		if gr.OK() {
			if rq.format == "zip" {
				gp, gerr = c50ParseZip(gr.Out)
			} else {
				gp, gerr = c50ParseTar(gr.Out, gzipped)
			}
			if gerr != nil {
				fw.Abort("cannot parse git archive output (%v): %v", args, gerr)
			}
		}
		// go-git
		var ob []byte
		var oerr error
		func() {
			defer func() {
				if r := recover(); r != nil {
					oerr = fmt.Errorf("panic: %v", r)
				}
			}()
			paths := filters
			rc, err := repo.Archive(&git.ArchiveOptions{Format: rq.format, Prefix: rq.prefix, Treeish: rq.treeish, Paths: paths})
			if err != nil {
				oerr = err
				return
			}
			ob, oerr = io.ReadAll(rc)
			rc.Close()
		}()
		var ids []string
		for _, e := range rq.tc.elems {
			ids = append(ids, elems[e].id)
		}
		desc := map[string]any{"tree_elements": ids, "tree_ish": rq.kind, "prefix": rq.prefix, "filter": rq.filter, "format": rq.format, "git_args": args}
		fam := rq.format
		if fam == "tar.gz" || fam == "tgz" || fam == "" {
			fam = "tar" // same writer; the gzip layer is checked by decoding
		}
		add := func(key, what string) {
			mu.Lock()
			fails = append(fails, failure{fam + ": " + key, what, desc})
			mu.Unlock()
		}
		if !gr.OK() {
			return // git refuses the request: outside the property
		}
		if oerr != nil {
			add("go-git fails where git archive succeeds ("+rq.fkind+" filter, "+rq.kind+")", oerr.Error())
			return
		}
		var op *arParsed
		if rq.format == "zip" {
			op, oerr = c50ParseZip(ob)
		} else {
			op, oerr = c50ParseTar(ob, gzipped)
		}
		if oerr != nil {
			add("go-git's archive cannot be parsed", oerr.Error())
			return
		}
		// classes
		var kinds []string
		for _, e := range gp.Entries {
			kinds = append(kinds, e.Kind)
		}
		sort.Strings(kinds)
		if len(kinds) > 0 {
			pshape := map[string]string{"": "noprefix", "p/": "dirprefix", "p": "strprefix", "p/q/": "nestedprefix"}[rq.prefix]
			c.Class(fmt.Sprintf("%s|%s|%s|%s|%s", rq.format, pshape, rq.fkind, rq.kind, strings.Join(kinds, ",")))
		}
		if len(op.Dups) > 0 {
			add("go-git writes an entry twice", fmt.Sprint(op.Dups))
		}
		// entry sets
		var missing, extra []string
		for n, e := range gp.Entries {
			if _, ok := op.Entries[n]; !ok {
				missing = append(missing, e.Kind)
			}
		}
		for n, e := range op.Entries {
			if _, ok := gp.Entries[n]; !ok {
				extra = append(extra, e.Kind)
			}
		}
		uniq := func(a []string) []string {
			sort.Strings(a)
			var o []string
			for _, x := range a {
				if len(o) == 0 || o[len(o)-1] != x {
					o = append(o, x)
				}
			}
			return o
		}
		if rq.ti < 0 {
			// the extra requests: one key per kind of filter / tree-ish and direction.
			// zip archives have no directory entries at all (known defect, keyed by the
			// subset enumeration), so a missing directory entry is not reported again.
			var miss []string
			for _, k := range missing {
				if !(rq.format == "zip" && k == "dir") {
					miss = append(miss, k)
				}
			}
			if len(miss) > 0 {
				add(fmt.Sprintf("entries differ (%s filter, %s request): go-git lacks entries git archives", rq.fkind, rq.kind),
					fmt.Sprintf("filters %q: git %v vs go-git %v", filters, names(gp), names(op)))
			}
			if len(extra) > 0 {
				add(fmt.Sprintf("entries differ (%s filter, %s request): go-git archives entries git does not", rq.fkind, rq.kind),
					fmt.Sprintf("filters %q: git %v vs go-git %v", filters, names(gp), names(op)))
			}
		} else if len(missing)+len(extra) > 0 {
			add(fmt.Sprintf("entries differ: go-git lacks %v, has extra %v (%s filter)", uniq(missing), uniq(extra), rq.fkind),
				fmt.Sprintf("git %v vs go-git %v", names(gp), names(op)))
		}
		for n, ge := range gp.Entries {
			oe, ok := op.Entries[n]
			if !ok {
				continue
			}
			if ge.Kind != oe.Kind {
				add(fmt.Sprintf("kind of a %s entry differs (go-git: %s)", ge.Kind, oe.Kind), n)
				continue
			}
			if rq.format != "zip" && ge.Mode != oe.Mode {
				add(fmt.Sprintf("permission bits of a %s entry differ (git %o, go-git %o)", ge.Kind, ge.Mode, oe.Mode), n)
			}
			if ge.Link != oe.Link {
				add("symlink target differs", n)
			}
			if ge.Data != oe.Data {
				add(fmt.Sprintf("content of a %s entry differs", ge.Kind), n)
			}
			if rq.kind != "tree" && rq.kind != "subtree" && ge.MTime != oe.MTime {
				add(fmt.Sprintf("modification time of a %s entry differs (%s request)", ge.Kind, rq.kind), fmt.Sprintf("%s: git %d go-git %d", n, ge.MTime, oe.MTime))
			}
		}
		if gp.Comment != op.Comment {
			add(fmt.Sprintf("commit id comment differs (%s request)", rq.kind), fmt.Sprintf("git %q go-git %q", gp.Comment, op.Comment))
		}
		if i%211 == 3 {
			c.Sample(map[string]any{"request": desc, "git_entries": names(gp)})
		}
	})
	sort.Slice(fails, func(a, b int) bool { return fails[a].key+fails[a].what < fails[b].key+fails[b].what })
	for _, f := range fails {
		c.Fail(f.key, f.key+" :: "+f.what, f.replay)
	}
}

func names(p *arParsed) []string {
	var n []string
	for k, e := range p.Entries {
		n = append(n, k+"("+e.Kind+")")
	}
	sort.Strings(n)
	return n
}

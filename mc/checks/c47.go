package checks

// C47: revision expressions resolve as `git rev-parse <rev>^{commit}`.
//
// Two spaces, both bounded-exhaustive:
//
//  G (graph navigation): every DAG with <= N commits (ordered parent lists, up
//    to 3 parents = octopus), every assignment of distinct commit times that is
//    monotone along edges (child newer than its parents: the only case where
//    "youngest matching commit" of ^{/re} is forced and not an artefact of
//    git's date-queue tie handling), every commit as start (full id), every
//    suffix sequence of <= L tokens from {~ ~2 ^ ^2 ^0 ^{commit} ^{} ^{/even}
//    ^{/low} ^{/!-even} ^{/zzz}}. All histories live in ONE repository.
//
//  N (names and abbreviations): one fixed history (merge, octopus, second
//    root) in four ref configurations (no colliding names / colliding names as
//    branches / as tags / as branches then packed), bases = HEAD, @, branch+tag
//    of the same name x, qualified forms, annotated tag, remote and remote
//    HEAD, absent names, names that are 1/2/3/4/7/40-digit hex prefixes of a
//    commit id (with and without a ref of that name), full ids of commit / tag /
//    tree / blob, 4..7-digit unique prefixes (lower and upper case), a 4-digit
//    prefix shared by two commits and one shared by a commit and a blob
//    (constructed by nonce search), a hex word matching nothing; times every
//    suffix sequence of <= L tokens.
//
// Oracle: `git cat-file --batch-check` on `<expr>^{commit}` (one process per
// repository): resolved id / missing / ambiguous; conformance of that front-end
// with `git rev-parse --verify --quiet` is replayed on a slice of the space.
// Verdict (exactly the statement): when go-git returns a hash, git must resolve
// the expression to the same commit; expressions git finds missing or ambiguous
// must not be resolved. go-git refusing an expression git resolves is not a
// violation ("for every expression go-git accepts") and is only counted.

import (
	"crypto/sha1"
	"encoding/hex"
	"fmt"
	"os"
	"os/exec"
	"sort"
	"strings"
	"sync"

	git "github.com/go-git/go-git/v6"
	"github.com/go-git/go-git/v6/plumbing"

	"verifmc/fw"
)

func init() {
	fw.Register(&fw.Check{ID: "C47", Level: "exploration", Run: runC47, QuickBudget: 150, ThoroughBudget: 900})
}

var c47Suffixes = []string{"~", "~2", "^", "^2", "^0", "^{commit}", "^{}", "^{/even}", "^{/low}", "^{/!-even}", "^{/zzz}",
	// extended tokens (see c47SuffixSeqs): the explicit-number forms of the
	// parser (`~0` identity, `~1`, `^1`, `~3` deeper than most histories) and a
	// regex assembled from several scanner tokens (number, space, word)
	"~0", "~1", "^1", "~3", "^{/1 odd}"}

const c47CoreSuffixes = 11 // the first 11 tokens are combined freely

// c47SuffixSeqs: all sequences of <= maxLen core tokens, plus every extended
// token alone and paired (before and after) with each of the navigation
// tokens ~ ^ ^2.
func c47SuffixSeqs(maxLen int) [][]int {
	out := fw.Seqs(c47CoreSuffixes, maxLen)
	nav := []int{0, 2, 3}
	for x := c47CoreSuffixes; x < len(c47Suffixes); x++ {
		out = append(out, []int{x})
		if maxLen >= 2 {
			for _, n := range nav {
				out = append(out, []int{x, n}, []int{n, x})
			}
		}
	}
	return out
}

// c47Norm abstracts the regex text away for failure keys.
func c47Norm(tok string) string {
	switch {
	case strings.HasPrefix(tok, "^{/!-"):
		return "^{/!-re}"
	case strings.HasPrefix(tok, "^{/"):
		return "^{/re}"
	}
	return tok
}

func c47Msg(i int, uniq string) string {
	par, lvl := "even", "low"
	if i%2 == 1 {
		par = "odd"
	}
	if i >= 2 {
		lvl = "high"
	}
	return fmt.Sprintf("m%d %s %s\n\nu %s\n", i, par, lvl, uniq)
}

// c47GitAnswers resolves `<expr>^{commit}` for every expression with one git
// process; answer = 40-hex id, "missing" or "ambiguous".
func c47GitAnswers(g *fw.Git, exprs []string) []string {
	var in strings.Builder
	for _, e := range exprs {
		in.WriteString(e + "^{commit}\n")
	}
	out := g.MustRunIn([]byte(in.String()), "cat-file", "--batch-check").S()
	lines := strings.Split(out, "\n")
	if len(lines) != len(exprs) {
		fw.Abort("cat-file --batch-check: %d answers for %d expressions", len(lines), len(exprs))
	}
	ans := make([]string, len(exprs))
	for i, l := range lines {
		f := strings.Fields(l)
		switch {
		case len(f) == 3 && f[1] == "commit" && len(f[0]) == 40:
			ans[i] = f[0]
		case len(f) >= 2 && f[len(f)-1] == "missing" && strings.HasPrefix(l, exprs[i]):
			ans[i] = "missing"
		case len(f) >= 2 && f[len(f)-1] == "ambiguous" && strings.HasPrefix(l, exprs[i]):
			ans[i] = "ambiguous"
		default:
			fw.Abort("cat-file --batch-check: unexpected answer %q for %q", l, exprs[i])
		}
	}
	return ans
}

// c47Resolve runs the real ResolveRevision; "" + err text when it refuses.
func c47Resolve(r *git.Repository, expr string) (hash, errS, panicS string) {
	panicS = fRecover(func() {
		h, err := r.ResolveRevision(plumbing.Revision(expr))
		if err != nil {
			errS = err.Error()
			return
		}
		if h == nil {
			errS = "nil hash without error"
			return
		}
		hash = h.String()
	})
	return
}

// c47Verdict: "" when fine, else the direction of the disagreement.
func c47Verdict(goHash, gitAns string) string {
	if goHash == "" {
		return ""
	}
	switch gitAns {
	case "missing":
		return "go-git resolves, git: unknown revision"
	case "ambiguous":
		return "go-git resolves, git: ambiguous"
	}
	if gitAns != goHash {
		return "go-git resolves to a different commit than git"
	}
	return ""
}

func c47Join(base string, seq []int) string {
	s := base
	for _, t := range seq {
		s += c47Suffixes[t]
	}
	return s
}

// c47MinSuffix deletes suffix tokens while the same disagreement persists.
func c47MinSuffix(r *git.Repository, base string, seq []int, verdict string, gitOf func(string) (string, bool)) []int {
	return fw.MinSeq(seq, nil, func(cand []int) bool {
		e := c47Join(base, cand)
		ga, ok := gitOf(e)
		if !ok {
			return false
		}
		h, _, _ := c47Resolve(r, e)
		return c47Verdict(h, ga) == verdict
	})
}

// c47Class names the defect class of a minimised failing suffix: the same
// root cause produces thousands of failing (history, expression) pairs.
func c47Class(seq []int, mergeReachable bool, verdict string) (string, bool) {
	for i, t := range seq {
		if c47Suffixes[t] == "^{}" && i < len(seq)-1 {
			return "the token following ^{} is ignored", true
		}
	}
	for _, t := range seq {
		if strings.HasPrefix(c47Suffixes[t], "^{/") {
			if mergeReachable {
				return "^{/re} finds another commit than git when a merge is reachable", true
			}
			return "^{/re} on a linear history: " + verdict + ": " + c47NormSeq(seq), true
		}
	}
	return "", false
}

func c47MergeReachable(parents [][]int, start int) bool {
	if start < 0 || start >= len(parents) {
		return true
	}
	for x := range (fw.DAG{Parents: parents}).Reach(start) {
		if len(parents[x]) > 1 {
			return true
		}
	}
	return false
}

func c47NormSeq(seq []int) string {
	var p []string
	for _, t := range seq {
		p = append(p, c47Norm(c47Suffixes[t]))
	}
	return strings.Join(p, "")
}

// c47RawCommit builds the canonical bytes of a commit object.
func c47RawCommit(tree string, parents []string, t int64, msg string) []byte {
	var b strings.Builder
	b.WriteString("tree " + tree + "\n")
	for _, p := range parents {
		b.WriteString("parent " + p + "\n")
	}
	fmt.Fprintf(&b, "author A U Thor <author@example.com> %d +0000\n", t)
	fmt.Fprintf(&b, "committer C O Mitter <committer@example.com> %d +0000\n", t)
	b.WriteString("\n" + msg)
	return []byte(b.String())
}

func c47ObjID(typ string, body []byte) string {
	h := sha1.New()
	fmt.Fprintf(h, "%s %d\x00", typ, len(body))
	h.Write(body)
	return hex.EncodeToString(h.Sum(nil))
}

// c47Nonce searches the smallest nonce n such that make(n) has an object id
// accepted by ok; deterministic. Bounded (engine error when exhausted).
func c47Nonce(typ string, make func(n int) []byte, ok func(id string) bool) ([]byte, string) {
	for n := 0; n < 40_000_000; n++ {
		b := make(n)
		if id := c47ObjID(typ, b); ok(id) {
			return b, id
		}
	}
	fw.Abort("nonce search exhausted")
	return nil, ""
}

func c47WriteObj(g *fw.Git, typ string, body []byte, wantID string) {
	id := g.MustRunIn(body, "hash-object", "-t", typ, "-w", "--stdin").S()
	if id != wantID {
		fw.Abort("hash-object wrote %s, expected %s", id, wantID)
	}
}

type c47Base struct {
	text, label, class string
	hintDependent      bool
}

type c47Fail struct {
	key, what string
	rank      []int
	replay    map[string]any
}

// c47Collector keeps, per key, the failure with the smallest rank so that the
// reported replay is the same on every run.
type c47Collector struct {
	mu sync.Mutex
	m  map[string]*c47Fail
	n  map[string]int
}

func (cl *c47Collector) add(f *c47Fail) {
	cl.mu.Lock()
	defer cl.mu.Unlock()
	cl.n[f.key]++
	o, ok := cl.m[f.key]
	if !ok || c47Less(f.rank, o.rank) {
		cl.m[f.key] = f
	}
}

func c47Less(a, b []int) bool {
	for i := 0; i < len(a) && i < len(b); i++ {
		if a[i] != b[i] {
			return a[i] < b[i]
		}
	}
	return len(a) < len(b)
}

func (cl *c47Collector) flush(c *fw.Ctx) {
	var keys []string
	for k := range cl.m {
		keys = append(keys, k)
	}
	sort.Strings(keys)
	for _, k := range keys {
		f := cl.m[k]
		f.replay["cases_in_class"] = cl.n[k]
		for i := 0; i < cl.n[k]; i++ {
			c.Fail(f.key, f.what, f.replay)
		}
	}
}

func runC47(c *fw.Ctx) {
	maxN := c.Pick(4, 5)      // commits per DAG in space G
	maxPar := 3               // octopus
	gLen := c.Pick(2, 2)      // suffix tokens in space G
	gLenSmall := c.Pick(3, 4) // longer suffix sequences on DAGs with <= 3 commits
	nLen := c.Pick(2, 3)      // suffix tokens in space N
	c.Bound("G_max_commits", maxN)
	c.Bound("G_max_parents", maxPar)
	c.Bound("G_suffix_tokens", gLen)
	c.Bound("G_suffix_tokens_on_dags_up_to_3_commits", gLenSmall)
	c.Bound("N_suffix_tokens", nLen)
	c.Bound("suffix_alphabet", c47Suffixes)
	c.SetRule("G: all DAGs x all edge-monotone distinct time orders x every start commit x all suffix sequences; N: fixed history x 4 ref configurations x ~45 bases (names, colliding names, ids, constructed ambiguous prefixes) x all suffix sequences; Repository.ResolveRevision vs `git cat-file --batch-check <expr>^{commit}`; non-trivial = the expression has at least one suffix token or a base that is not a full id; distinct = (base class, normalised suffix sequence, outcome pair) classes")
	c.Assume("git 2.39.5 is the reference; only commit times that are distinct and increase from parent to child are generated (with equal or skewed times git's ^{/re} answer depends on its date-queue tie handling, not on the documented 'youngest matching commit'); regexes are literal words (no POSIX-vs-RE2 dialect question); @{...}, ^{tree}, :path and :/re forms are outside the statement's list and not generated; an expression go-git refuses is never a violation")
	if maxN == 5 {
		maxPar = 2
		c.Bound("G_max_parents_at_5_commits", 2)
	}
	coll := &c47Collector{m: map[string]*c47Fail{}, n: map[string]int{}}
	c47SpaceG(c, coll, maxN, maxPar, gLen, gLenSmall)
	if !c.Expired() {
		c47SpaceN(c, coll, nLen)
	}
	coll.flush(c)
}

// ---------------------------------------------------------------- space G

type c47Hist struct {
	dag   fw.DAG
	di    int
	order []int // rank of each commit
	oi    int
	ids   []string
}

func c47MonotoneOrders(d fw.DAG) [][]int {
	n := len(d.Parents)
	var out [][]int
	for _, p := range fw.Perms(n) { // p[i] = rank of commit i
		ok := true
		for i, ps := range d.Parents {
			for _, q := range ps {
				if p[q] >= p[i] {
					ok = false
				}
			}
		}
		if ok {
			out = append(out, append([]int{}, p...))
		}
	}
	return out
}

func c47SpaceG(c *fw.Ctx, coll *c47Collector, maxN, maxPar, sufLen, sufLenSmall int) {
	g, dir := c.InitRepo("c47g", "sha1", true)
	var hists []*c47Hist
	var specs []fw.CommitSpec
	di := 0
	for n := 1; n <= maxN; n++ {
		mp := 3
		if n == 5 {
			mp = maxPar
		}
		for _, d := range fw.DAGs(n, mp, true) {
			for oi, ord := range c47MonotoneOrders(d) {
				h := &c47Hist{dag: d, di: di, order: ord, oi: oi}
				base := len(specs)
				for i, ps := range d.Parents {
					var par []int
					for _, p := range ps {
						par = append(par, base+p)
					}
					specs = append(specs, fw.CommitSpec{Parents: par, Time: 1700000000 + int64(ord[i])*10,
						Files: map[string]fw.FileSpec{"f": {Data: fmt.Sprintf("%d\n", i)}}, Msg: c47Msg(i, fmt.Sprintf("%d %d", di, oi))})
				}
				hists = append(hists, h)
			}
			di++
		}
	}
	c.Bound("G_dags", di)
	c.Bound("G_histories", len(hists))
	c.Bound("G_commits", len(specs))
	ids := c47BuildHistory(g, specs)
	k := 0
	for _, h := range hists {
		h.ids = ids[k : k+len(h.dag.Parents)]
		k += len(h.dag.Parents)
	}
	fPackAll(g, dir)
	seqsShort := c47SuffixSeqs(sufLen)
	if !c.Thorough() {
		// quick: at the largest DAG size only sequences over a reduced alphabet
		drop := map[string]bool{"~2": true, "^{commit}": true, "^{/zzz}": true}
		var keep [][]int
		for _, s := range seqsShort {
			ok := true
			for _, t := range s {
				if drop[c47Suffixes[t]] {
					ok = false
				}
			}
			if ok {
				keep = append(keep, s)
			}
		}
		seqsShort = keep
		c.Bound("G_quick_alphabet_at_4_commits", "without ~2, ^{commit}, ^{/zzz}")
	}
	seqsLong := c47SuffixSeqs(sufLenSmall)
	objs := fMemObjects(g)
	spool := &fStoragePool{objs: objs}
	// conformance of the batch front-end with rev-parse on the first histories
	c47Conformance(c, g, func() []string {
		var ex []string
		for _, h := range hists {
			if len(h.ids) != 3 || len(ex) >= len(c47Suffixes) {
				continue
			}
			if len(h.dag.Parents[2]) == 2 { // the first 3-commit history whose tip is a merge
				for _, s := range seqsShort {
					if len(s) == 1 {
						ex = append(ex, c47Join(h.ids[2], s))
					}
				}
			}
		}
		return ex
	}())

	// git answers: one cat-file process per block of histories (process
	// start-up is by far the most expensive step on a busy machine)
	exprsOf := func(h *c47Hist) (exprs []string, seqs [][]int) {
		seqs = seqsShort
		if len(h.ids) <= 3 {
			seqs = seqsLong
		}
		for _, id := range h.ids {
			for _, s := range seqs {
				exprs = append(exprs, c47Join(id, s))
			}
		}
		return
	}
	const blocks = 48
	c.ParDo(blocks, 0, func(bl int) {
		var mine []*c47Hist
		var all []string
		for hi := bl; hi < len(hists); hi += blocks {
			mine = append(mine, hists[hi])
			e, _ := exprsOf(hists[hi])
			all = append(all, e...)
		}
		if len(mine) == 0 {
			return
		}
		allAns := c47GitAnswers(g, all)
		off := 0
		for _, h := range mine {
			if c.Expired() {
				c.Incomplete("internal deadline reached inside a block of space G")
				return
			}
			exprs, seqs := exprsOf(h)
			ans := allAns[off : off+len(exprs)]
			off += len(exprs)
			c47DoHistG(c, coll, spool, h, exprs, seqs, ans)
		}
	})
}

func c47DoHistG(c *fw.Ctx, coll *c47Collector, spool *fStoragePool, h *c47Hist, exprs []string, seqs [][]int, ans []string) {
	{
		gitOf := map[string]string{}
		for i, e := range exprs {
			gitOf[e] = ans[i]
		}
		lookup := func(e string) (string, bool) { a, ok := gitOf[e]; return a, ok }
		idx := map[string]int{}
		for i, id := range h.ids {
			idx[id] = i
		}
		st := spool.get()
		defer spool.put(st)
		// an unborn HEAD is all git.Open needs; no other ref exists in space G
		st.SetReference(plumbing.NewSymbolicReference(plumbing.HEAD, "refs/heads/unborn"))
		repo, err := git.Open(st, nil)
		if err != nil {
			fw.Abort("git.Open on memory storage: %v", err)
		}
		ei := 0
		for bi, id := range h.ids {
			for _, s := range seqs {
				e := exprs[ei]
				ga := ans[ei]
				ei++
				c.Eval()
				hash, errS, pan := c47Resolve(repo, e)
				if pan != "" {
					coll.add(&c47Fail{key: "G: panic on suffix " + c47NormSeq(s), what: "ResolveRevision panics: " + pan,
						rank: []int{len(h.ids), h.di, h.oi, bi, len(s)}, replay: map[string]any{"expr": e, "parents": h.dag.Parents, "time_rank": h.order, "ids": h.ids}})
					continue
				}
				v := c47Verdict(hash, ga)
				if v == "" {
					if len(s) > 0 {
						out := "same"
						if hash == "" {
							out = "go-git refuses/" + map[bool]string{true: "git resolves", false: "git fails"}[len(ga) == 40]
						}
						c.Class(fmt.Sprintf("G %s np=%d %s", c47NormSeq(s), len(h.dag.Parents[bi]), out))
					}
					_ = errS
					continue
				}
				ms := c47MinSuffix(repo, id, s, v, lookup)
				mh, _, _ := c47Resolve(repo, c47Join(id, ms))
				role := func(x string) string {
					if i, ok := idx[x]; ok {
						return fmt.Sprintf("commit #%d", i)
					}
					return x
				}
				mga, _ := lookup(c47Join(id, ms))
				key := "G: " + v + ": <id>" + c47NormSeq(ms)
				if cl, ok := c47Class(ms, c47MergeReachable(h.dag.Parents, bi), v); ok {
					key = cl
				}
				coll.add(&c47Fail{key: key,
					what: fmt.Sprintf("%s: <id of commit #%d>%s -> go-git %s, git %s (history parents=%v, commit-time ranks=%v, messages m<i> even|odd low|high)", v, bi, c47NormSeq(ms), role(mh), role(mga), h.dag.Parents, h.order),
					rank: []int{len(h.ids), h.di, h.oi, bi, len(ms)},
					replay: map[string]any{"expr": c47Join(id, ms), "from_expr": e, "parents": h.dag.Parents, "time_rank": h.order, "ids": h.ids,
						"go_git": mh, "git": mga, "how": "commit i has message 'm<i> even|odd low|high', time 1700000000+10*rank; ResolveRevision(expr) vs git rev-parse expr^{commit}"}})
			}
		}
	}
}

// c47BuildHistory is fw.BuildHistory without the per-commit rev-parse (one
// fast-import with marks exported).
func c47BuildHistory(g *fw.Git, specs []fw.CommitSpec) []string {
	marks := g.Dir + "/verif-marks"
	var b strings.Builder
	for i, s := range specs {
		// the scratch ref is reset after every commit, so a commit without
		// `from` is a root
		fmt.Fprintf(&b, "commit refs/verif/tmp\nmark :%d\n", i+1)
		fmt.Fprintf(&b, "author A U Thor <author@example.com> %d +0000\n", s.Time)
		fmt.Fprintf(&b, "committer C O Mitter <committer@example.com> %d +0000\n", s.Time)
		fmt.Fprintf(&b, "data %d\n%s\n", len(s.Msg), s.Msg)
		for j, p := range s.Parents {
			if j == 0 {
				fmt.Fprintf(&b, "from :%d\n", p+1)
			} else {
				fmt.Fprintf(&b, "merge :%d\n", p+1)
			}
		}
		b.WriteString("deleteall\n")
		var paths []string
		for p := range s.Files {
			paths = append(paths, p)
		}
		sort.Strings(paths)
		for _, p := range paths {
			f := s.Files[p]
			mode := f.Mode
			if mode == "" {
				mode = "100644"
			}
			fmt.Fprintf(&b, "M %s inline %s\ndata %d\n%s\n", mode, p, len(f.Data), f.Data)
		}
		b.WriteString("\nreset refs/verif/tmp\n\n")
	}
	b.WriteString("done\n")
	g.MustRunIn([]byte(b.String()), "fast-import", "--quiet", "--done", "--date-format=raw", "--export-marks="+marks)
	raw, err := os.ReadFile(marks)
	if err != nil {
		fw.Abort("read marks: %v", err)
	}
	ids := make([]string, len(specs))
	for _, l := range strings.Split(strings.TrimSpace(string(raw)), "\n") {
		var m int
		var id string
		if _, err := fmt.Sscanf(l, ":%d %s", &m, &id); err != nil {
			fw.Abort("bad marks line %q", l)
		}
		if m >= 1 && m <= len(specs) {
			ids[m-1] = id
		}
	}
	for i, id := range ids {
		if len(id) != 40 {
			fw.Abort("no mark for commit %d", i)
		}
	}
	os.Remove(marks)
	return ids
}

func c47Conformance(c *fw.Ctx, g *fw.Git, exprs []string) {
	ans := c47GitAnswers(g, exprs)
	c.ParDo(len(exprs), 0, func(i int) {
		r := g.Run("rev-parse", "--verify", "--quiet", exprs[i]+"^{commit}")
		got := strings.TrimSpace(string(r.Out))
		want := ans[i]
		if len(want) != 40 {
			want = ""
		}
		if (r.OK() && got != want) || (!r.OK() && want != "") {
			fw.Abort("cat-file --batch-check and rev-parse --verify disagree on %q: %q vs %q (exit %d)", exprs[i], ans[i], got, r.Code)
		}
		c.TracesValidated(1)
	})
}

// ---------------------------------------------------------------- space N

func c47SpaceN(c *fw.Ctx, coll *c47Collector, sufLen int) {
	g, dir := c.InitRepo("c47n", "sha1", true)
	t0 := int64(1700000000)
	file := func(i int) map[string]fw.FileSpec {
		return map[string]fw.FileSpec{"f": {Data: fmt.Sprintf("v%d\n", i)}, "d/g": {Data: "g\n"}}
	}
	par := [][]int{{}, {0}, {0}, {1, 2}, {3}, {}, {4, 2, 5}}
	var specs []fw.CommitSpec
	for i, p := range par {
		specs = append(specs, fw.CommitSpec{Parents: p, Time: t0 + int64(i)*10, Files: file(i), Msg: c47Msg(i, "n")})
	}
	cs := c47BuildHistory(g, specs)
	tree := g.MustRun("rev-parse", cs[0]+"^{tree}").S()
	// k1: child of c6 (tip of branch k); k2: child of c0 with the same 4 digits
	k1body := c47RawCommit(tree, []string{cs[6]}, t0+70, c47Msg(7, "k1"))
	k1 := c47ObjID("commit", k1body)
	c47WriteObj(g, "commit", k1body, k1)
	k2body, k2 := c47Nonce("commit", func(n int) []byte {
		return c47RawCommit(tree, []string{cs[0]}, t0+80, c47Msg(8, fmt.Sprintf("k2 nonce %d", n)))
	}, func(id string) bool { return id[:4] == k1[:4] && id[4] != k1[4] })
	c47WriteObj(g, "commit", k2body, k2)
	// blob sharing 4 digits with commit c1
	bbody, bid := c47Nonce("blob", func(n int) []byte { return []byte(fmt.Sprintf("nonce %d\n", n)) },
		func(id string) bool { return id[:4] == cs[1][:4] && id[4] != cs[1][4] })
	c47WriteObj(g, "blob", bbody, bid)
	blobG := g.MustRun("rev-parse", cs[0]+":d/g").S()
	g.MustRun("tag", "-a", "-m", "annotated", "t", cs[3])
	tagObj := g.MustRun("rev-parse", "refs/tags/t").S()
	var refs strings.Builder
	fmt.Fprintf(&refs, "create refs/heads/main %s\n", cs[6])
	fmt.Fprintf(&refs, "create refs/heads/x %s\n", cs[1])
	fmt.Fprintf(&refs, "create refs/tags/x %s\n", cs[2])
	fmt.Fprintf(&refs, "create refs/remotes/origin/x %s\n", cs[4])
	fmt.Fprintf(&refs, "create refs/heads/k %s\n", k1)
	fmt.Fprintf(&refs, "create refs/heads/k2 %s\n", k2)
	fmt.Fprintf(&refs, "create refs/keep/blob %s\n", bid)
	g.MustRunIn([]byte(refs.String()), "update-ref", "--stdin")
	g.MustRun("symbolic-ref", "refs/remotes/origin/HEAD", "refs/remotes/origin/x")
	g.MustRun("symbolic-ref", "HEAD", "refs/heads/main")

	all := strings.Fields(g.MustRun("cat-file", "--batch-all-objects", "--batch-check=%(objectname)").S())
	countPrefix := func(p string) int {
		n := 0
		for _, id := range all {
			if strings.HasPrefix(id, strings.ToLower(p)) {
				n++
			}
		}
		return n
	}
	if countPrefix(k1[:4]) != 2 || countPrefix(cs[1][:4]) != 2 {
		fw.Abort("constructed prefixes are shared by more objects than intended")
	}
	uniq := func(id string, n int) string { // shortest unique prefix of length >= n
		for l := n; l <= 40; l++ {
			if countPrefix(id[:l]) == 1 {
				return id[:l]
			}
		}
		return id
	}
	// a 4-digit hex word matching no object
	none := ""
	for _, w := range []string{"dead", "beef", "cafe", "face", "fade", "feed", "bead", "deaf"} {
		if countPrefix(w) == 0 {
			none = w
			break
		}
	}
	if none == "" {
		fw.Abort("no unused hex word")
	}
	// the commit whose id prefixes are used as colliding names: the first of
	// #4, #3, #2, #5 whose 4-digit prefix is unique in the repository
	c4 := ""
	for _, i := range []int{4, 3, 2, 5} {
		if countPrefix(cs[i][:4]) == 1 {
			c4 = cs[i]
			break
		}
	}
	if c4 == "" {
		fw.Abort("no commit with a unique 4-digit prefix; adjust the fixed history")
	}
	hexNames := []string{c4[:1], c4[:2], c4[:3], c4[:4], c4[:7], c4, k1[:4]}

	// ref configurations
	type variant struct {
		name string
		g    *fw.Git
		dir  string
		coll bool
	}
	variants := []*variant{{"no-colliding-names", g, dir, false}}
	for _, vn := range []string{"colliding-branches", "colliding-tags", "colliding-branches-packed"} {
		d2 := c.TempDir("c47n-" + vn)
		if out, err := exec.Command("cp", "-a", dir+"/.", d2).CombinedOutput(); err != nil {
			fw.Abort("cp: %v %s", err, out)
		}
		g2 := g.In(d2)
		ns := "refs/heads/"
		if vn == "colliding-tags" {
			ns = "refs/tags/"
		}
		var in strings.Builder
		for _, n := range hexNames {
			fmt.Fprintf(&in, "create %s%s %s\n", ns, n, cs[0])
		}
		g2.MustRunIn([]byte(in.String()), "update-ref", "--stdin")
		if vn == "colliding-branches-packed" {
			g2.MustRun("pack-refs", "--all")
		}
		variants = append(variants, &variant{vn, g2, d2, true})
	}

	bases := []c47Base{
		{"HEAD", "HEAD", "", false},
		{"@", "@", "", false},
		{"main", "branch", "", false},
		{"x", "branch+tag same name", "", false},
		{"heads/x", "heads/<name>", "", false},
		{"tags/x", "tags/<name>", "", false},
		{"refs/heads/x", "full refname", "", false},
		{"refs/tags/x", "full refname", "", false},
		{"t", "annotated tag", "", false},
		{"refs/tags/t", "full refname of annotated tag", "", false},
		{"origin", "remote (origin/HEAD)", "", false},
		{"origin/x", "remote branch", "", false},
		{"origin/HEAD", "remote HEAD", "", false},
		{"remotes/origin/x", "remotes/<r>/<b>", "", false},
		{"k", "branch", "", false},
		{"nosuch", "absent name", "", false},
		{"refs/heads/nosuch", "absent full refname", "", false},
		{none, "hex word matching no object", "", false},
		{hexNames[0], "1-digit hex prefix of a commit id", "hex string shorter than 4 digits", false},
		{hexNames[1], "2-digit hex prefix of a commit id", "hex string shorter than 4 digits", false},
		{hexNames[2], "3-digit hex prefix of a commit id", "hex string shorter than 4 digits", false},
		{hexNames[3], "4-digit unique prefix of a commit id", "unique 4..39-digit prefix of a commit id", false},
		{c4[:5], "5-digit unique prefix", "", false},
		{c4[:6], "6-digit unique prefix", "", false},
		{hexNames[4], "7-digit unique prefix of a commit id", "unique 4..39-digit prefix of a commit id", false},
		{c4, "full commit id", "", false},
		{strings.ToUpper(c4[:4]), "4-digit unique prefix, upper case", "", false},
		{strings.ToUpper(c4[:5]), "5-digit unique prefix, upper case", "", false},
		{strings.ToUpper(c4), "full commit id, upper case", "", false},
		{k1[:4], "4-digit prefix shared by two commits", "4-digit prefix shared by two commits", false},
		{uniq(k1, 5), "shortest unique prefix of commit k1", "", false},
		{uniq(k2, 5), "shortest unique prefix of commit k2", "", false},
		{cs[1][:4], "4-digit prefix shared by a commit and a blob", "", true},
		{uniq(cs[1], 5), "unique prefix of the commit sharing 4 digits with a blob", "", false},
		{uniq(bid, 5), "unique prefix of a blob", "", false},
		{tagObj, "full id of a tag object", "", false},
		{uniq(tagObj, 7), "unique prefix of a tag object", "", false},
		{tree, "full id of a tree", "", false},
		{uniq(tree, 7), "unique prefix of a tree", "", false},
		{blobG, "full id of a blob", "", false},
		{cs[6], "full id of the octopus merge", "", false},
		{cs[3], "full id of a merge", "", false},
		{cs[5], "full id of a root", "", false},
		{"0000000000000000000000000000000000000000", "null id", "", false},
	}
	c.Bound("N_bases", len(bases))
	c.Bound("N_ref_configurations", len(variants))
	seqs := c47SuffixSeqs(sufLen)
	role := map[string]string{k1: "k1", k2: "k2"}
	for i, id := range cs {
		role[id] = fmt.Sprintf("commit #%d", i)
	}
	roleOf := func(x string) string {
		if r, ok := role[x]; ok {
			return r
		}
		return x
	}
	parN := append(append([][]int{}, par...), []int{6}, []int{0})
	idxN := map[string]int{k1: 7, k2: 8}
	for i, id := range cs {
		idxN[id] = i
	}

	for vi, v := range variants {
		var exprs []string
		for _, b := range bases {
			for _, s := range seqs {
				exprs = append(exprs, c47Join(b.text, s))
			}
		}
		ans := c47GitAnswers(v.g, exprs)
		gitOf := make(map[string]string, len(exprs))
		for i, e := range exprs {
			gitOf[e] = ans[i]
		}
		lookup := func(e string) (string, bool) { a, ok := gitOf[e]; return a, ok }
		if vi == 1 {
			var conf []string
			for bi := 0; bi < len(bases); bi += 3 {
				conf = append(conf, exprs[bi*len(seqs)+(bi/3)%2*(1+bi%len(c47Suffixes))])
			}
			c47Conformance(c, v.g, conf)
		}
		pool := &fRepoPool{dir: v.dir}
		c.ParDo(len(bases), 0, func(bi int) {
			b := bases[bi]
			repo := pool.get()
			defer pool.put(repo)
			label := b.label
			isHexName := false
			for _, hn := range hexNames {
				if b.text == hn {
					isHexName = true
				}
			}
			if isHexName {
				if v.coll {
					label += " (a ref of that name exists)"
				} else {
					label += " (no ref of that name)"
				}
			}
			class := b.class
			if class == "" {
				class = label
			} else if isHexName && v.coll {
				class = "hex string that is also the name of a ref"
			} else if isHexName {
				class += " (no ref of that name)"
			}
			baseHash, _, _ := c47Resolve(repo, b.text)
			baseGit, _ := lookup(b.text)
			for si, s := range seqs {
				e := exprs[bi*len(seqs)+si]
				ga := ans[bi*len(seqs)+si]
				if b.hintDependent && len(s) > 0 && c47Suffixes[s[0]] == "^{}" {
					// <prefix shared by a commit and a blob>^{}: git resolves
					// such a prefix only through its commit-ish disambiguation
					// hint, which ^{} does not pass on -- a git heuristic the
					// property does not pin down
					continue
				}
				c.Eval()
				hash, _, pan := c47Resolve(repo, e)
				if pan != "" {
					coll.add(&c47Fail{key: "N: panic: " + label + " " + c47NormSeq(s), what: "ResolveRevision panics: " + pan, rank: []int{vi, bi, si},
						replay: map[string]any{"expr": e, "ref_configuration": v.name}})
					continue
				}
				vd := c47Verdict(hash, ga)
				if vd == "" {
					out := "same"
					if hash == "" {
						out = "go-git refuses/" + map[bool]string{true: "git resolves", false: "git fails"}[len(ga) == 40]
					}
					c.Class(fmt.Sprintf("N %s|%s|%s", label, c47NormSeq(s), out))
					if si == 3 && bi%7 == 0 {
						c.Sample(map[string]any{"expr": e, "refs": v.name, "git": roleOf(ga), "go_git": roleOf(hash)})
					}
					continue
				}
				ms := c47MinSuffix(repo, b.text, s, vd, func(e string) (string, bool) {
					if b.hintDependent && strings.HasPrefix(e, b.text+"^{}") {
						return "", false // not compared (see above): not a valid reduction
					}
					return lookup(e)
				})
				me := c47Join(b.text, ms)
				mh, _, _ := c47Resolve(repo, me)
				mga, _ := lookup(me)
				key := "N: " + vd + ": <" + label + ">" + c47NormSeq(ms)
				if bvd := c47Verdict(baseHash, baseGit); bvd != "" {
					// the base alone is already resolved wrongly: one root cause
					// whatever the suffix
					key = "N: " + bvd + ": <" + class + ">"
				}
				start := -1
				if ba, _ := lookup(b.text); len(ba) == 40 {
					start = idxN[ba]
				} else if bh, _, _ := c47Resolve(repo, b.text); bh != "" {
					start = idxN[bh]
				}
				if cl, ok := c47Class(ms, c47MergeReachable(parN, start), vd); ok && c47Verdict(baseHash, baseGit) == "" {
					key = cl
				}
				coll.add(&c47Fail{key: key,
					what: fmt.Sprintf("%s: %q (%s; refs: %s) -> go-git %s, git %s", vd, me, label, v.name, roleOf(mh), roleOf(mga)),
					rank: []int{vi, bi, len(ms), si},
					replay: map[string]any{"expr": me, "from_expr": e, "ref_configuration": v.name, "base_class": label, "go_git": mh, "git": mga,
						"how": "history parents " + fmt.Sprint(par) + " (+ k1 child of #6, k2 child of #0 sharing 4 id digits with k1); refs main=#6 heads/x=#1 tags/x=#2 t=annotated(#3) origin/x=#4 k=k1; colliding names (hex prefixes of " + roleOf(c4) + "'s id, its full id, k1's 4 digits) point at #0"}})
			}
		})
	}
}

package checks

import (
	"strings"

	"github.com/go-git/go-git/v6/plumbing"

	"verifmc/fw"
)

// gitRefnameOK transcribes check_refname_format(refname, 0) of git's refs.c.
func gitRefnameOK(s string) bool {
	if s == "@" {
		return false
	}
	comps := 0
	rest := s
	for {
		// check_refname_component
		n := 0
		last := byte(0)
		for n < len(rest) && rest[n] != '/' {
			ch := rest[n]
			switch {
			case ch == '.' && last == '.':
				return false
			case ch == '{' && last == '@':
				return false
			case ch < 0x20 || ch == 0x7f || ch == ' ' || ch == '~' || ch == '^' || ch == ':' || ch == '?' || ch == '[' || ch == '\\' || ch == '*':
				return false
			}
			last = ch
			n++
		}
		if n == 0 {
			return false
		}
		if rest[0] == '.' {
			return false
		}
		if n >= 5 && rest[n-5:n] == ".lock" {
			return false
		}
		comps++
		if n == len(rest) {
			if rest[n-1] == '.' {
				return false
			}
			break
		}
		rest = rest[n+1:]
	}
	return comps >= 2
}

func init() {
	fw.Register(&fw.Check{ID: "C13", Level: "model_checking", Run: runC13, QuickBudget: 90, ThoroughBudget: 900})
}

func runC13(c *fw.Ctx) {
	sigma := []string{"a", "/", ".", "@", "{", "~", "^", ":", "?", "*", "[", "\\", " ", "-", "\x01", "\x7f", "\xc3", "k"}
	maxLen := c.Pick(4, 5)
	confLen := c.Pick(2, 3)
	c.Bound("alphabet", sigma)
	c.Bound("max_len", maxLen)
	c.Bound("conformance_len", confLen)
	c.SetRule("all strings over an 18-symbol alphabet up to max_len, bare and behind refs/heads/, refs/tags/, refs/x/, plus fixed-word splices; ReferenceName.Validate vs a transcription of git's check_refname_format; the transcription is itself replayed against real `git check-ref-format` on every string up to conformance_len; a case is non-trivial when distinct (name, verdict) with at least one '/'; distinct counts (verdict, rule-shape) classes")
	c.Assume("git 2.39.5 check-ref-format is the reference; literal HEAD excluded (documented special case); extra rule: short name of a branch/tag may not start with '-'")

	// 1. conformance of the model against real git on the complete small space.
	g := c.GitHome()
	small := fw.Strings(sigma, confLen)
	var confNames []string
	for _, s := range small {
		if s == "" || s == "-h" {
			continue
		}
		confNames = append(confNames, s, "refs/x/"+s, s+"/a")
	}
	c.ParDo(len(confNames), 0, func(i int) {
		n := confNames[i]
		if strings.HasPrefix(n, "-") { // git treats a leading dash as an option; covered behind refs/x/
			return
		}
		r := g.Run("check-ref-format", n)
		if r.Code != 0 && r.Code != 1 {
			fw.Abort("git check-ref-format %q exit %d: %s", n, r.Code, r.Err)
		}
		if (r.Code == 0) != gitRefnameOK(n) {
			fw.Abort("refname model disagrees with real git on %q: git=%v model=%v", n, r.Code == 0, gitRefnameOK(n))
		}
		c.TracesValidated(1)
	})

	// 2. the real Validate against the model on the full space.
	prefixes := []string{"", "refs/heads/", "refs/tags/", "refs/x/", "refs/heads/a/"}
	words := []string{".lock", "@{", "HEAD", "a.lock", ".."}
	total := fw.CountStrings(len(sigma), maxLen)
	c.States(total)
	check := func(name string) {
		if name == "HEAD" {
			return
		}
		c.Eval()
		c.Transitions(1)
		want := gitRefnameOK(name)
		for _, p := range []string{"refs/heads/", "refs/tags/"} {
			if strings.HasPrefix(name, p) && strings.HasPrefix(name[len(p):], "-") {
				want = false
			}
		}
		got := plumbing.ReferenceName(name).Validate() == nil
		if strings.Contains(name, "/") {
			shape := ""
			if got {
				shape = "ok"
			} else {
				shape = "rej"
			}
			// rule-shape: which symbol classes occur
			for _, ch := range []string{"/", ".", "@", "{", "-", ".lock", "//"} {
				if strings.Contains(name, ch) {
					shape += ch
				}
			}
			c.Class(shape)
		}
		if got != want {
			fails := func(s string) bool {
				if s == "HEAD" || s == "" {
					return false
				}
				w := gitRefnameOK(s)
				for _, p := range []string{"refs/heads/", "refs/tags/"} {
					if strings.HasPrefix(s, p) && strings.HasPrefix(s[len(p):], "-") {
						w = false
					}
				}
				gg := plumbing.ReferenceName(s).Validate() == nil
				return gg != w && gg == got
			}
			min := fw.MinString(name, "a/.@{-k", fails)
			dir := "go-git rejects, git accepts"
			if got {
				dir = "go-git accepts, git rejects"
			}
			c.Fail(dir+": "+fw.Q(min), dir+" (minimised from "+fw.Q(name)+")", map[string]any{"name": name, "minimal": min, "go_git_accepts": got, "git_accepts": want})
		}
	}
	c.ParDo(total, 0, func(i int) {
		s := fw.StringAt(sigma, i)
		if i < 4 {
			c.Sample(map[string]any{"name": "refs/heads/" + s, "git_accepts": gitRefnameOK("refs/heads/" + s)})
		}
		for _, p := range prefixes {
			check(p + s)
		}
		if len(s) <= maxLen-2 {
			for _, w := range words {
				check("refs/heads/" + s + w)
				check("refs/heads/" + w + s)
				check(s + w + "/a")
			}
		}
	})
	c.Sample(map[string]any{"name": "refs/heads/a.lock/k", "git_accepts": gitRefnameOK("refs/heads/a.lock/k")})
}

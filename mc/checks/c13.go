package checks

import (
	"bytes"
	"fmt"
	"os"
	"path/filepath"
	"sort"
	"strings"

	"github.com/go-git/go-git/v6/plumbing"

	"verifmc/fw"
)

// gitRefnameOK transcribes check_refname_format(refname, 0) of git's refs.c.
func gitRefnameOK(s string) bool {
	if s == "@" {
		return false
	}
	comps := 0
	rest := s
	for {
		// check_refname_component
		n := 0
		last := byte(0)
		for n < len(rest) && rest[n] != '/' {
			ch := rest[n]
			switch {
			case ch == '.' && last == '.':
				return false
			case ch == '{' && last == '@':
				return false
			case ch < 0x20 || ch == 0x7f || ch == ' ' || ch == '~' || ch == '^' || ch == ':' || ch == '?' || ch == '[' || ch == '\\' || ch == '*':
				return false
			}
			last = ch
			n++
		}
		if n == 0 {
			return false
		}
		if rest[0] == '.' {
			return false
		}
		if n >= 5 && rest[n-5:n] == ".lock" {
			return false
		}
		comps++
		if n == len(rest) {
			if rest[n-1] == '.' {
				return false
			}
			break
		}
		rest = rest[n+1:]
	}
	return comps >= 2
}

func c13HasAtComponent(s string) bool {
	for _, p := range strings.Split(s, "/") {
		if p == "@" {
			return true
		}
	}
	return false
}

// c13BatchEligible reports whether real git can be asked about name through a packed-refs file: git refuses to read
// the whole file ("packed refname is dangerous") when a name is not under refs/ or has an empty, "." or ".."
// component, and a line cannot hold LF or NUL.
func c13BatchEligible(name string) bool {
	rest, ok := strings.CutPrefix(name, "refs/")
	if !ok || rest == "" || strings.ContainsAny(name, "\n\x00") {
		return false
	}
	for _, p := range strings.Split(rest, "/") {
		if p == "" || p == "." || p == ".." {
			return false
		}
	}
	return true
}

// c13GitBatch asks real git about many names with one process per chunk: the names are written as the lines of a
// packed-refs file of a scratch repository; `git for-each-ref` then runs check_refname_format on each line and
// lists exactly the well-formed ones (the others are reported "ignoring ref with broken name"). Every name must be
// c13BatchEligible. Names under refs/ have two components, so the one-level rule plays no part.
func c13GitBatch(c *fw.Ctx, names []string) map[string]bool {
	const chunk = 40000
	uniq := map[string]bool{}
	var list []string
	for _, n := range names {
		if !uniq[n] {
			uniq[n] = true
			list = append(list, n)
		}
	}
	sort.Strings(list)
	nch := (len(list) + chunk - 1) / chunk
	outs := make([][]string, nch)
	c.ParDo(nch, 0, func(i int) {
		g, dir := c.InitRepo("c13batch", "", true)
		blob := g.MustRunIn([]byte{}, "hash-object", "-w", "--stdin").S()
		var b bytes.Buffer
		b.WriteString("# pack-refs with: peeled fully-peeled \n")
		part := list[i*chunk : min(len(list), (i+1)*chunk)]
		for _, n := range part {
			b.WriteString(blob + " " + n + "\n")
		}
		c.Must(os.WriteFile(filepath.Join(dir, "packed-refs"), b.Bytes(), 0o644), "write packed-refs")
		r := g.Run("for-each-ref", "--format=%(refname)")
		if !r.OK() {
			fw.Abort("git for-each-ref over %d crafted packed-refs lines failed (%d): %.300s", len(part), r.Code, r.Err)
		}
		for _, l := range bytes.Split(r.Out, []byte("\n")) {
			if len(l) > 0 {
				outs[i] = append(outs[i], string(l))
			}
		}
		os.RemoveAll(dir)
	})
	if c.Expired() {
		return nil
	}
	res := make(map[string]bool, len(list))
	for _, n := range list {
		res[n] = false
	}
	for _, o := range outs {
		for _, n := range o {
			if _, ok := res[n]; !ok {
				fw.Abort("git for-each-ref listed %q which was not asked", n)
			}
			res[n] = true
		}
	}
	return res
}

// c13Extra is the part of the space that the dense 18-symbol enumeration cannot reach: every byte value, valid
// multi-byte runes (C1 controls, format characters, look-alikes of '/' and '.'), letter-case variants of the
// fixed words, long components, further ref categories, and the one-edit neighbourhood of realistic names.
func c13Extra(sigma []string, thorough bool) (names []string, nByteCtx int, bounds map[string]any) {
	seen := map[string]bool{}
	add := func(s string) {
		if s != "" && !seen[s] {
			seen[s] = true
			names = append(names, s)
		}
	}
	bounds = map[string]any{}
	// 1. every byte value in every position class of a component, and every PAIR of byte values
	ctx1 := []string{"refs/heads/%", "refs/heads/a%", "refs/heads/%a", "refs/heads/a%b", "refs/%/a", "refs/heads/a%/b", "refs/heads/a/%b", "%/a", "a/%", "a%/b",
		"refs/heads/.%", "refs/heads/%.", "refs/heads/@%", "refs/heads/%{", "refs/heads/%.lock", "refs/heads/a.lock%", "refs/tags/%", "refs/remotes/%", "refs/heads/a%a%a"}
	for b := 0; b < 256; b++ {
		for _, t := range ctx1 {
			add(strings.ReplaceAll(t, "%", string([]byte{byte(b)})))
		}
	}
	nByteCtx = len(names)
	for b1 := 0; b1 < 256; b1++ {
		for b2 := 0; b2 < 256; b2++ {
			p := string([]byte{byte(b1), byte(b2)})
			add("refs/heads/" + p)
			add("refs/x/a" + p + "b")
		}
	}
	bounds["byte_contexts"] = ctx1
	bounds["byte_pairs"] = "all 65536 two-byte strings as a whole component and inside one"
	// 2. words: runes, case variants, pseudo-refs
	words := []string{"\u0085", "\u009f", "\u00a0", "\u00ad", "\u200c", "\u200e", "\u2028", "\u2029", "\u202e", "\ufeff", "\u00e9", "e\u0301", "\U0001f600",
		"\xed\xa0\x80", "\xc0\xaf", "\xc0\xae", "\uff0f", "\uff0e", "\u3002", "\u2024", "\u2215", "\uff20", "\uff5b", "\ufffd",
		".LOCK", ".Lock", ".lOCK", ".lock.", ".lock.lock", ".loc", ".lockk", "lock", ".lck",
		"HEAD", "head", "Head", "ORIG_HEAD", "FETCH_HEAD", "MERGE_HEAD", "CHERRY_PICK_HEAD", "BISECT_HEAD", "AUTO_MERGE", "HEAD^", "@", "@@", "-", "--", "-HEAD",
		"refs", "REFS", "heads", "tags", "remotes", "CON", "nul", "aux.txt", "~1", "A~1", ".git", ".GIT", "git~1", ".gitmodules", "config", "packed-refs", "index.lock"}
	glue := append([]string{""}, sigma...)
	for _, w := range words {
		add(w) // bare (one level)
		for _, a := range glue {
			for _, b := range glue {
				add("refs/heads/" + a + w + b)
				add("refs/" + a + w + b + "/k")
				add(a + w + b + "/k")
			}
		}
		for _, p := range []string{"refs/tags/", "refs/remotes/", "refs/remotes/o/", "refs/notes/", "refs/", "refs/heads/a/", "refs/tags/a/"} {
			add(p + w)
		}
	}
	bounds["words"] = len(words)
	// 3. long components and long names (no length rule exists in git)
	for _, n := range []int{249, 250, 251, 254, 255, 256, 257, 511, 512, 1023, 1024, 4095, 4096, 4097, 65535, 65536} {
		long := strings.Repeat("k", n)
		add("refs/heads/" + long)
		add("refs/" + long + "/a")
		add("refs/heads/" + long + ".lock")
		add("refs/heads/" + long + ".")
		add("refs/heads/" + long + "/.a")
		add(long + "/a")
		add("refs/heads/" + strings.TrimSuffix(strings.Repeat("a/", n/2), "/"))
		add("refs/heads/" + strings.Repeat("a/", n/2))
	}
	bounds["long_lengths"] = "249..65536 (16 lengths) as one component and as n/2 components"
	// 4. further categories: every string over the alphabet (one symbol shorter) behind each
	cats := []string{"refs/remotes/", "refs/remotes/o/", "refs/notes/", "refs/tags/a/", "refs/", "heads/", "refs/heads", "refs/tagsx/", "refs/headsx/", "refs/HEADS/", "refs/Tags/"}
	l4 := 3
	if thorough {
		l4 = 4
	}
	for _, s := range fw.Strings(sigma, l4) {
		for _, p := range cats {
			add(p + s)
		}
	}
	bounds["more_prefixes"] = cats
	bounds["more_prefixes_len"] = l4
	// 5. realistic names and every single edit of them
	real := []string{"refs/heads/main", "refs/heads/feature/foo-bar", "refs/heads/release-1.2.x", "refs/tags/v1.0.0", "refs/tags/v1.0.0-rc.1", "refs/remotes/origin/HEAD",
		"refs/remotes/origin/main", "refs/stash", "refs/notes/commits", "refs/pull/123/head", "refs/heads/user@example.com", "refs/heads/dependabot/npm_and_yarn/lodash-4.17.21",
		"refs/changes/45/12345/6", "refs/heads/日本語", "refs/heads/wip.lock.bak", "refs/original/refs/heads/main", "refs/bisect/bad", "refs/worktree/foo",
		"refs/replace/1111111111111111111111111111111111111111", "refs/heads/UPPER", "refs/heads/x--y", "refs/heads/@{u}", "refs/tags/-v1", "refs/heads/a.lock", "FETCH_HEAD", "main", "origin/main", "heads/main"}
	edits := append(append([]string{}, sigma...), "..", "@{", ".lock", "//", "\t", "\n", "\x1f", "\x80", "A", "/.", "./", "/-", "@")
	for _, r := range real {
		add(r)
		for i := 0; i <= len(r); i++ {
			for _, e := range edits {
				add(r[:i] + e + r[i:])
				if i < len(r) {
					add(r[:i] + e + r[i+1:])
				}
			}
			if i < len(r) {
				add(r[:i] + r[i+1:])
			}
		}
	}
	bounds["real_names"] = real
	bounds["edit_symbols"] = edits
	return names, nByteCtx, bounds
}

func init() {
	fw.Register(&fw.Check{ID: "C13", Level: "model_checking", Run: runC13, QuickBudget: 240, ThoroughBudget: 1200})
}

func runC13(c *fw.Ctx) {
	sigma := []string{"a", "/", ".", "@", "{", "~", "^", ":", "?", "*", "[", "\\", " ", "-", "\x01", "\x7f", "\xc3", "k"}
	maxLen := c.Pick(4, 5)
	confLen := c.Pick(2, 3)
	c.Bound("alphabet", sigma)
	c.Bound("max_len", maxLen)
	c.Bound("conformance_len", confLen)
	c.SetRule("(a) all strings over an 18-symbol alphabet up to max_len, bare and behind refs/heads/, refs/tags/, refs/x/, refs/heads/a/, plus fixed-word splices; (b) extra names: every byte value 0..255 in 19 component contexts and all 65536 byte pairs (as a component and inside one), 60+ words (valid multi-byte runes incl. C1 controls / format characters / look-alikes of '/' '.' '@' '{', letter-case variants of .lock and HEAD, pseudo-ref names, reserved device and .git names) glued between every pair of alphabet symbols in three contexts, 16 component/name lengths from 249 to 65536 bytes, every alphabet string one symbol shorter behind 11 further prefixes (remotes, notes, nested tags, look-alike categories), and every single insertion/replacement/deletion over 31 edit symbols applied to 28 realistic names; ReferenceName.Validate vs a transcription of git's check_refname_format; the transcription is replayed against real `git check-ref-format` (one process per name) on every string up to conformance_len and on the single-byte sweep names git cannot read from a file, and against real git's packed-refs reader (`git for-each-ref` over crafted packed-refs files, which lists exactly the names check_refname_format accepts) on ALL extra names under refs/, the refs/x/ image of the others, and every dense string up to conformance_len+1; both front-ends are compared with each other where both were asked; a case is non-trivial when distinct (name, verdict) with at least one '/'; distinct counts (verdict, rule-shape) classes")
	c.Assume("git 2.39.5 check-ref-format is the reference; literal HEAD excluded (documented special case); extra rule: short name of a branch/tag may not start with '-'; a name containing NUL cannot be handed to git at all and counts as rejected (documented rule 4: no byte below \\040)")

	// 1. conformance of the model against real git on the complete small space.
	g := c.GitHome()
	small := fw.Strings(sigma, confLen)
	var confNames []string
	for _, s := range small {
		if s == "" || s == "-h" {
			continue
		}
		confNames = append(confNames, s, "refs/x/"+s, s+"/a")
	}
	extra, nByteCtx, eb := c13Extra(sigma, c.Thorough())
	for k, v := range eb {
		c.Bound(k, v)
	}
	c.Bound("extra_names", len(extra))
	// names of the single-byte sweep that the batch front-end cannot carry (LF, empty or dot components, not under
	// refs/) are asked one process each as well
	for _, n := range extra[:nByteCtx] {
		if !c13BatchEligible(n) && !c13BatchEligible("refs/x/"+n) && !strings.Contains(n, "\x00") {
			confNames = append(confNames, n)
		}
	}
	// 1b. conformance of the model on the LARGE space through the batch front-end (one git process per 40000
	// names): every extra name, every dense string up to conformance_len+1 behind four prefixes, and for names
	// that are not under refs/ their image behind refs/x/ (same components, so the same per-component rules).
	var batch []string
	addBatch := func(n string) {
		if c13BatchEligible(n) {
			batch = append(batch, n)
		} else if !strings.HasPrefix(n, "refs/") && c13BatchEligible("refs/x/"+n) {
			batch = append(batch, "refs/x/"+n)
		}
	}
	for _, n := range extra {
		addBatch(n)
	}
	for _, s := range fw.Strings(sigma, confLen+1) {
		for _, p := range []string{"refs/heads/", "refs/tags/", "refs/x/", "refs/heads/a/", "refs/"} {
			addBatch(p + s)
		}
	}
	for _, n := range confNames {
		addBatch(n)
	}
	verdict := c13GitBatch(c, batch)
	if verdict == nil {
		c.Incomplete("deadline reached during the batch conformance step")
		return
	}
	c.Bound("batch_conformance_names", len(verdict))
	for n, ok := range verdict {
		if ok != gitRefnameOK(n) {
			fw.Abort("refname model disagrees with real git (packed-refs front-end) on %q: git=%v model=%v", n, ok, gitRefnameOK(n))
		}
	}
	c.TracesValidated(len(verdict))
	// 2. the real Validate against the model on the full space.
	prefixes := []string{"", "refs/heads/", "refs/tags/", "refs/x/", "refs/heads/a/"}
	words := []string{".lock", "@{", "HEAD", "a.lock", ".."}
	total := fw.CountStrings(len(sigma), maxLen)
	c.States(total)
	check := func(name string) {
		if name == "HEAD" {
			return
		}
		c.Eval()
		c.Transitions(1)
		want := gitRefnameOK(name)
		for _, p := range []string{"refs/heads/", "refs/tags/"} {
			if strings.HasPrefix(name, p) && strings.HasPrefix(name[len(p):], "-") {
				want = false
			}
		}
		got := plumbing.ReferenceName(name).Validate() == nil
		if strings.Contains(name, "/") {
			shape := ""
			if got {
				shape = "ok"
			} else {
				shape = "rej"
			}
			// rule-shape: which symbol classes occur
			for _, ch := range []string{"/", ".", "@", "{", "-", ".lock", "//"} {
				if strings.Contains(name, ch) {
					shape += ch
				}
			}
			c.Class(shape)
		}
		if got != want {
			fails := func(s string) bool {
				if s == "HEAD" || s == "" {
					return false
				}
				// the minimiser must stay inside the class of the original mismatch: replacing a byte by '@' can
				// turn any rejected name into an instance of the listed "@ component" defect and the new mismatch
				// would then be reported under that known key
				if c13HasAtComponent(s) != c13HasAtComponent(name) {
					return false
				}
				w := gitRefnameOK(s)
				for _, p := range []string{"refs/heads/", "refs/tags/"} {
					if strings.HasPrefix(s, p) && strings.HasPrefix(s[len(p):], "-") {
						w = false
					}
				}
				gg := plumbing.ReferenceName(s).Validate() == nil
				return gg != w && gg == got
			}
			dir := "go-git rejects, git accepts"
			if got {
				dir = "go-git accepts, git rejects"
			}
			if len(name) > 240 {
				// minimising a 64 KiB name byte by byte is quadratic; long names form one class
				c.Fail(dir+": long name", fmt.Sprintf("%s a %d-byte name beginning %s", dir, len(name), fw.Q(name[:40])), map[string]any{"name_len": len(name), "name_head": name[:40], "name_tail": name[len(name)-20:], "go_git_accepts": got, "git_accepts": want})
				return
			}
			min := fw.MinString(name, "a/.@{-k", fails)
			c.Fail(dir+": "+fw.Q(min), dir+" (minimised from "+fw.Q(name)+")", map[string]any{"name": name, "minimal": min, "go_git_accepts": got, "git_accepts": want})
		}
	}
	c.ParDo(total, 0, func(i int) {
		s := fw.StringAt(sigma, i)
		if i < 4 {
			c.Sample(map[string]any{"name": "refs/heads/" + s, "git_accepts": gitRefnameOK("refs/heads/" + s)})
		}
		for _, p := range prefixes {
			check(p + s)
		}
		if len(s) <= maxLen-2 {
			for _, w := range words {
				check("refs/heads/" + s + w)
				check("refs/heads/" + w + s)
				check(s + w + "/a")
			}
		}
	})
	c.Sample(map[string]any{"name": "refs/heads/a.lock/k", "git_accepts": gitRefnameOK("refs/heads/a.lock/k")})
	c.States(len(extra))
	c.ParDo(len(extra), 0, func(i int) {
		check(extra[i])
		if i%40009 == 0 {
			c.Sample(map[string]any{"name": extra[i], "git_accepts": gitRefnameOK(extra[i])})
		}
	})
	// 3. the model against `git check-ref-format` itself, one process per name (slow on a loaded machine: last)
	spawned := make([]int8, len(confNames)) // 0 not asked, 1 accepted, 2 rejected
	c.ParDo(len(confNames), 0, func(i int) {
		n := confNames[i]
		if strings.HasPrefix(n, "-") { // git treats a leading dash as an option; covered behind refs/x/
			return
		}
		r := g.Run("check-ref-format", n)
		if r.Code != 0 && r.Code != 1 {
			fw.Abort("git check-ref-format %q exit %d: %s", n, r.Code, r.Err)
		}
		if (r.Code == 0) != gitRefnameOK(n) {
			fw.Abort("refname model disagrees with real git on %q: git=%v model=%v", n, r.Code == 0, gitRefnameOK(n))
		}
		spawned[i] = int8(r.Code) + 1
		c.TracesValidated(1)
	})

	// the batch front-end and `git check-ref-format` itself agree wherever both were asked
	both := 0
	for i, n := range confNames {
		if v, ok := verdict[n]; ok && spawned[i] != 0 {
			both++
			if v != (spawned[i] == 1) {
				fw.Abort("git check-ref-format and the packed-refs front-end disagree on %q", n)
			}
		}
	}
	c.Bound("names_asked_both_ways", both)

}

package checks

import (
	"bytes"
	"fmt"
	"os"
	"path/filepath"
	"sort"
	"strings"
	"sync"
	"sync/atomic"

	"github.com/go-git/go-billy/v6"
	"github.com/go-git/go-billy/v6/memfs"
	"github.com/go-git/go-git/v6/plumbing/format/gitignore"

	"verifmc/fw"
)

// C49: go-git classifies a path as ignored exactly when `git check-ignore` does.
//
// go-git side: the documented walk API (RootPatterns + NewScope, one
// Scope.Descend per directory on the way down with DirPatterns as readOwn,
// Scope.Match on the entry) over an in-memory filesystem holding the ignore
// files: this is what utils/merkletrie/filesystem (Worktree.Status) does.
// git side: `git check-ignore --no-index -v -n -z --stdin`; a path is ignored
// iff a pattern is reported and it is not a negation.

func init() {
	fw.Register(&fw.Check{ID: "C49", Level: "exploration", Run: runC49, QuickBudget: 100, ThoroughBudget: 1200})
}

// igConfig is one set of ignore files: lines of .gitignore, a/.gitignore and
// .git/info/exclude (nil = file absent).
type igConfig struct {
	Root []string `json:"root_gitignore,omitempty"`
	Sub  []string `json:"a_gitignore,omitempty"`
	Excl []string `json:"info_exclude,omitempty"`
}

func (g igConfig) String() string {
	return fmt.Sprintf("root=%q a/=%q excl=%q", g.Root, g.Sub, g.Excl)
}

type igQuery struct {
	Path  string
	IsDir bool
}

func igFile(lines []string) []byte { return []byte(strings.Join(lines, "\n") + "\n") }

// gogitIgnored evaluates all queries with go-git's Scope API.
func gogitIgnored(cfg igConfig, qs []igQuery) (res []bool, panicked any) {
	defer func() {
		if r := recover(); r != nil {
			panicked = r
		}
	}()
	fs := memfs.New()
	write := func(p string, lines []string) {
		if lines == nil {
			return
		}
		f, err := fs.Create(p)
		if err != nil {
			fw.Abort("memfs create %s: %v", p, err)
		}
		f.Write(igFile(lines))
		f.Close()
	}
	fs.MkdirAll(".git/info", 0o755)
	write(".git/info/exclude", cfg.Excl)
	write(".gitignore", cfg.Root)
	if cfg.Sub != nil {
		fs.MkdirAll("a", 0o755)
		write("a/.gitignore", cfg.Sub)
	}
	hasOwn := func(dir []string) bool {
		if len(dir) == 0 {
			return cfg.Root != nil
		}
		return len(dir) == 1 && dir[0] == "a" && cfg.Sub != nil
	}
	rootPs, err := gitignore.RootPatterns(fs)
	if err != nil {
		fw.Abort("RootPatterns: %v", err)
	}
	scopes := map[string]*gitignore.Scope{}
	var scopeOf func(dir []string) *gitignore.Scope
	scopeOf = func(dir []string) *gitignore.Scope {
		k := strings.Join(dir, "/")
		if s, ok := scopes[k]; ok {
			return s
		}
		var parent *gitignore.Scope
		if len(dir) == 0 {
			parent = gitignore.NewScope(rootPs)
		} else {
			parent = scopeOf(dir[:len(dir)-1])
		}
		var readOwn func() ([]gitignore.Pattern, error)
		if hasOwn(dir) {
			d := append([]string{}, dir...)
			readOwn = func() ([]gitignore.Pattern, error) { return gitignore.DirPatterns(fs, d) }
		}
		s, err := parent.Descend(append([]string{}, dir...), readOwn)
		if err != nil {
			fw.Abort("Scope.Descend(%v): %v", dir, err)
		}
		scopes[k] = s
		return s
	}
	res = make([]bool, len(qs))
	for i, q := range qs {
		comps := strings.Split(q.Path, "/")
		res[i] = scopeOf(comps[:len(comps)-1]).Match(comps, q.IsDir)
	}
	return res, nil
}

var _ billy.Filesystem

// igRepoSkeleton writes a minimal repository so that no `git init` process is needed.
func igRepoSkeleton(c *fw.Ctx, dir string) {
	c.Must(os.MkdirAll(filepath.Join(dir, ".git", "objects"), 0o755), "skeleton")
	c.Must(os.MkdirAll(filepath.Join(dir, ".git", "refs", "heads"), 0o755), "skeleton")
	c.Must(os.MkdirAll(filepath.Join(dir, ".git", "info"), 0o755), "skeleton")
	c.Must(os.WriteFile(filepath.Join(dir, ".git", "HEAD"), []byte("ref: refs/heads/main\n"), 0o644), "skeleton")
	c.Must(os.WriteFile(filepath.Join(dir, ".git", "config"), []byte("[core]\n\trepositoryformatversion = 0\n\tbare = false\n"), 0o644), "skeleton")
}

// igMaterialise creates, under base, the layout for one config: base+".d" has
// every queried directory; base+".f" has no entries except a/ when a/.gitignore
// exists (a path that does not exist is "not a directory" for git, and leading
// components are always treated as directories).
func igMaterialise(c *fw.Ctx, base string, cfg igConfig, dirs []string) {
	for _, suffix := range []string{".d", ".f"} {
		root := base + suffix
		c.Must(os.MkdirAll(root, 0o755), "mkdir")
		if cfg.Root != nil {
			c.Must(os.WriteFile(filepath.Join(root, ".gitignore"), igFile(cfg.Root), 0o644), "write")
		}
		if suffix == ".d" {
			for _, d := range dirs {
				c.Must(os.MkdirAll(filepath.Join(root, d), 0o755), "mkdir")
			}
		}
		if cfg.Sub != nil {
			c.Must(os.MkdirAll(filepath.Join(root, "a"), 0o755), "mkdir")
			c.Must(os.WriteFile(filepath.Join(root, "a", ".gitignore"), igFile(cfg.Sub), 0o644), "write")
		}
	}
}

type igAnswer struct {
	Ignored bool
	Pattern string
	Source  string
}

// igGitBatch asks git about prefix+q for all queries (the prefix selects the
// layout by q.IsDir: <name>.d/ or <name>.f/); repo is the worktree root.
func igGitBatch(g *fw.Git, repo string, names []string, qs [][]igQuery) [][]igAnswer {
	var in bytes.Buffer
	n := 0
	for i, name := range names {
		for _, q := range qs[i] {
			suffix := ".f/"
			if q.IsDir {
				suffix = ".d/"
			}
			in.WriteString(name + suffix + q.Path)
			in.WriteByte(0)
			n++
		}
	}
	if n == 0 {
		return make([][]igAnswer, len(names))
	}
	r := g.In(repo).RunIn(in.Bytes(), "check-ignore", "--no-index", "-v", "-n", "-z", "--stdin")
	if r.Code != 0 && r.Code != 1 {
		fw.Abort("git check-ignore failed (%d): %s", r.Code, r.Err)
	}
	f := bytes.Split(r.Out, []byte{0})
	if len(f) != 4*n+1 {
		fw.Abort("git check-ignore: %d fields for %d queries; stderr=%s", len(f)-1, n, r.Err)
	}
	out := make([][]igAnswer, len(names))
	k := 0
	for i, name := range names {
		for _, q := range qs[i] {
			suffix := ".f/"
			if q.IsDir {
				suffix = ".d/"
			}
			src, pat, p := string(f[4*k]), string(f[4*k+2]), string(f[4*k+3])
			if p != name+suffix+q.Path {
				fw.Abort("git check-ignore answered for %q, expected %q", p, name+suffix+q.Path)
			}
			out[i] = append(out[i], igAnswer{Ignored: pat != "" && !strings.HasPrefix(pat, "!"), Pattern: pat, Source: src})
			k++
		}
	}
	return out
}

// c49Kind describes one family of configurations: roles[i] says which file the
// i-th pattern goes to ("root", "sub" = a/.gitignore, "excl" = .git/info/exclude).
type c49Kind struct {
	name   string
	roles  []string
	maxTok []int // per pattern
	asRoot bool // must be evaluated at a real work-tree root (uses info/exclude)
}

func (k c49Kind) config(pats [][]int, tokens []string) igConfig {
	var cfg igConfig
	for i, r := range k.roles {
		line := ""
		for _, t := range pats[i] {
			line += tokens[t]
		}
		switch r {
		case "root":
			cfg.Root = append(cfg.Root, line)
		case "sub":
			cfg.Sub = append(cfg.Sub, line)
		case "excl":
			cfg.Excl = append(cfg.Excl, line)
		}
	}
	return cfg
}

func c49SeqKey(kind string, pats [][]int) string {
	var b strings.Builder
	b.WriteString(kind)
	for _, p := range pats {
		b.WriteByte('|')
		for _, t := range p {
			b.WriteByte(byte('A' + t))
		}
	}
	return b.String()
}

// c49LegacyShape reports whether p contains a `**` with a non-slash neighbour.
// go-git's own conformance suite documents that git before 2.52.0 (fix
// 1940a02dc1, match_pathname prefix context) mishandles exactly this shape; the
// installed oracle is 2.39.5, so such patterns are outside the space.
func c49LegacyShape(p string) bool {
	for i := 0; i+1 < len(p); i++ {
		if p[i] != '*' || p[i+1] != '*' {
			continue
		}
		beforeOK := i == 0 || p[i-1] == '/'
		afterOK := i+2 >= len(p) || p[i+2] == '/'
		if !beforeOK || !afterOK {
			return true
		}
	}
	return false
}

func c49Excluded(cfg igConfig) bool {
	for _, ls := range [][]string{cfg.Root, cfg.Sub, cfg.Excl} {
		for _, l := range ls {
			if c49LegacyShape(l) {
				return true
			}
		}
	}
	return false
}

// c49DefectClass recognises, by a predicate on the minimised configuration and
// the disagreeing query, the known defect families, so that one defect has one
// key whatever the bound. "" = unclassified (the key is then the minimal case).
func c49DefectClass(dir int, cfg igConfig, q igQuery) string {
	comps := strings.Split(q.Path, "/")
	var all []string
	all = append(append(append(all, cfg.Excl...), cfg.Root...), cfg.Sub...)
	matches := func(pat string, path []string, isDir bool) bool {
		defer func() { recover() }()
		return gitignore.ParsePattern(pat, nil).Match(path, isDir) == gitignore.Exclude
	}
	switch dir {
	case 1: // git ignores, go-git does not
		for _, p := range all {
			if strings.HasPrefix(p, "!") && len(p) > 1 {
				// the negation names a proper ancestor directory of the path
				// (patterns of a/.gitignore are relative to a/)
				for cut := 1; cut < len(comps); cut++ {
					if matches(p[1:], comps[:cut], true) || (len(cfg.Sub) > 0 && cut > 1 && comps[0] == "a" && matches(p[1:], comps[1:cut], true)) {
						return "a negated pattern naming a parent directory re-includes the whole subtree"
					}
				}
			}
		}
		for _, p := range all {
			if strings.Contains(p, "\\/") {
				return "an escaped slash is treated as a separator"
			}
		}
		for _, p := range all {
			if i := strings.Index(p, "**/"); i >= 0 && (i == 0 || p[i-1] == '/') && strings.Contains(strings.TrimSuffix(p[i+3:], "/"), "/") {
				return "`**/x/y` does not backtrack over the directories `**` may span"
			}
		}
	case 0: // go-git ignores, git does not
		for _, p := range all {
			t := strings.TrimSuffix(strings.TrimRight(p, " "), "/")
			if strings.HasSuffix(t, "/**") && q.IsDir && !strings.HasPrefix(p, "!") && matches(strings.TrimSuffix(t, "/**"), comps, true) {
				return "a trailing `/**` matches the directory itself"
			}
		}
		for _, p := range all {
			if strings.Contains(p, "//") {
				return "empty pattern segments (`//`) are skipped"
			}
		}
	}
	return ""
}

// c49Res is the comparison result of one configuration: for each direction the
// first disagreeing query (-1 = none).
type c49Res struct {
	gogitOnly, gitOnly int // index into the query list of the config
	panicv             any
}

func runC49(c *fw.Ctx) {
	// token order = simplicity rank used when minimising
	tokens := []string{"a", "b", "*", "?", "[ab]", "**", "/", "!", "\\", " ", "#"}
	single := c.Pick(4, 5)
	pairTok := 2
	pairFirst := c.Pick(2, 3) // the first (lower-priority) pattern of a pair may be longer in the thorough tier
	exclTok := c.Pick(1, 2)
	c.Bound("pattern_tokens", tokens)
	c.Bound("max_tokens_single_root_pattern", single)
	c.Bound("max_tokens_per_pattern_in_pairs", []int{pairFirst, pairTok})
	c.Bound("max_tokens_per_pattern_with_info_exclude", exclTok)

	// paths: depth <=2 over {a,b,ab}, depth 3 over {a,b}; each as file and as directory
	var paths []string
	n1 := []string{"a", "b", "ab"}
	paths = append(paths, n1...)
	for _, x := range n1 {
		for _, y := range n1 {
			paths = append(paths, x+"/"+y)
		}
	}
	for _, x := range []string{"a", "b"} {
		for _, y := range []string{"a", "b"} {
			for _, z := range []string{"a", "b"} {
				paths = append(paths, x+"/"+y+"/"+z)
			}
		}
	}
	c.Bound("paths", paths)
	c.Bound("path_kinds", "each path queried as a regular file and as a directory")
	var allQ []igQuery
	for _, p := range paths {
		allQ = append(allQ, igQuery{p, false}, igQuery{p, true})
	}
	var allQSub []igQuery
	for _, q := range allQ {
		if q.Path == "a" && !q.IsDir {
			continue // a/.gitignore exists, so a is a directory
		}
		allQSub = append(allQSub, q)
	}
	queriesFor := func(cfg igConfig) []igQuery {
		if cfg.Sub == nil {
			return allQ
		}
		return allQSub
	}

	c.SetRule("ignore-file configurations: (A) one root .gitignore pattern of <= max_tokens_single_root_pattern tokens, (B) two root patterns, (C) root pattern x a/.gitignore pattern, (D) info/exclude pattern x root pattern, (E) info/exclude x root x a/.gitignore over <=1-token patterns; every path of the path set as file and as directory; go-git = RootPatterns+NewScope, Scope.Descend per directory with DirPatterns, Scope.Match; git = check-ignore --no-index -v -n -z --stdin with real directories on disk (configs A-C are batched as sub-directories of one work tree; a sample of them and all of D/E are run as a real work-tree root, and the two must agree); a case is non-trivial when either side says ignored or a negation matched; distinct = (config kind, git's verdict, go-git's verdict, token kinds of the deciding pattern, depth, file/dir) classes")
	c.Assume("git 2.39.5 check-ignore --no-index is the reference; a .gitignore in a sub-directory of the work tree behaves for the entries below it as a root .gitignore does (checked on a sample every run); names are limited to {a,b,ab}; patterns with `**` beside a non-slash character are excluded (git < 2.52.0 mishandles them, as go-git's conformance suite documents); core.excludesFile / global ignore files are not part of the space; the deprecated flat ReadPatterns+NewMatcher API is documented as unable to express excluded parents and is not judged")

	nTok := len(tokens)
	kinds := []c49Kind{
		{"A", []string{"root"}, []int{single}, false},
		{"B", []string{"root", "root"}, []int{pairFirst, pairTok}, false},
		{"C", []string{"root", "sub"}, []int{pairFirst, pairTok}, false},
		{"D", []string{"excl", "root"}, []int{exclTok, exclTok}, true},
		{"E", []string{"excl", "root", "sub"}, []int{1, 1, 1}, true},
	}
	seqAt := func(idx int) []int { return c41SeqAt(nTok, idx) }
	// configuration i of a kind: mixed-radix over per-pattern string indices
	patsAt := func(k c49Kind, i int) [][]int {
		out := make([][]int, len(k.roles))
		for j := len(k.roles) - 1; j >= 0; j-- {
			per := fw.CountStrings(nTok, k.maxTok[j])
			out[j] = seqAt(i % per)
			i /= per
		}
		return out
	}
	countOf := func(k c49Kind) int {
		n := 1
		for j := range k.roles {
			n *= fw.CountStrings(nTok, k.maxTok[j])
		}
		return n
	}

	g := c.GitHome()
	dirs := paths

	var rmu sync.Mutex
	results := map[string]c49Res{}

	tokenKinds := func(p string) string {
		var ks []string
		for _, t := range []string{"**", "*", "?", "/", "!", "\\", "[", " ", "#"} {
			if strings.Contains(p, t) {
				ks = append(ks, t)
				if t == "**" {
					p = strings.ReplaceAll(p, "**", "")
				}
			}
		}
		return strings.Join(ks, "")
	}

	var excludedN atomic.Int64
	compare := func(kd string, cfg igConfig, qs []igQuery, ans []igAnswer) c49Res {
		if c49Excluded(cfg) {
			excludedN.Add(1)
			return c49Res{-1, -1, nil}
		}
		got, pv := gogitIgnored(cfg, qs)
		res := c49Res{-1, -1, pv}
		for j, q := range qs {
			c.Eval()
			gg := false
			if pv == nil {
				gg = got[j]
			}
			if ans[j].Pattern != "" || gg {
				c.Class(fmt.Sprintf("%s|%v|%v|%s|%d|%v", kd, ans[j].Ignored, gg, tokenKinds(ans[j].Pattern), strings.Count(q.Path, "/"), q.IsDir))
			}
			if gg && !ans[j].Ignored && res.gogitOnly < 0 {
				res.gogitOnly = j
			}
			if !gg && ans[j].Ignored && res.gitOnly < 0 {
				res.gitOnly = j
			}
		}
		return res
	}

	// forests: reusable work trees with 256 config slots whose .d layouts exist
	const chunk = 256
	type forest struct{ repo string }
	nForest := 16
	forests := make(chan *forest, nForest)
	c.ParDo(nForest, 0, func(i int) {
		repo := c.TempDir("c49-forest")
		igRepoSkeleton(c, repo)
		for s := 0; s < chunk; s++ {
			base := filepath.Join(repo, fmt.Sprintf("c%d", s))
			c.Must(os.MkdirAll(base+".f", 0o755), "mkdir")
			for _, d := range dirs {
				c.Must(os.MkdirAll(filepath.Join(base+".d", d), 0o755), "mkdir")
			}
		}
		forests <- &forest{repo}
	})
	if len(forests) < nForest { // deadline hit during set-up
		return
	}
	// place writes the ignore files of cfg into slot s of forest f.
	place := func(f *forest, s int, cfg igConfig) {
		base := filepath.Join(f.repo, fmt.Sprintf("c%d", s))
		for _, suffix := range []string{".d", ".f"} {
			root := base + suffix
			if cfg.Root != nil {
				c.Must(os.WriteFile(filepath.Join(root, ".gitignore"), igFile(cfg.Root), 0o644), "write")
			} else {
				os.Remove(filepath.Join(root, ".gitignore"))
			}
			if cfg.Sub != nil {
				if suffix == ".f" {
					c.Must(os.MkdirAll(filepath.Join(root, "a"), 0o755), "mkdir")
				}
				c.Must(os.WriteFile(filepath.Join(root, "a", ".gitignore"), igFile(cfg.Sub), 0o644), "write")
			} else if suffix == ".f" {
				os.RemoveAll(filepath.Join(root, "a"))
			} else {
				os.Remove(filepath.Join(root, "a", ".gitignore"))
			}
		}
	}
	slotNames := make([]string, chunk)
	for s := range slotNames {
		slotNames[s] = fmt.Sprintf("c%d", s)
	}

	// asRoot answers with the config at the real root of a work tree (two layouts => two repos).
	asRoot := func(cfg igConfig, qs []igQuery) []igAnswer {
		base := c.TempDir("c49-root")
		defer os.RemoveAll(base)
		igMaterialise(c, filepath.Join(base, "w"), cfg, dirs)
		out := make([]igAnswer, len(qs))
		for _, suffix := range []string{".d", ".f"} {
			repo := filepath.Join(base, "w"+suffix)
			igRepoSkeleton(c, repo)
			if cfg.Excl != nil {
				c.Must(os.WriteFile(filepath.Join(repo, ".git", "info", "exclude"), igFile(cfg.Excl), 0o644), "write exclude")
			}
			var in bytes.Buffer
			var idx []int
			for j, q := range qs {
				if q.IsDir == (suffix == ".d") {
					in.WriteString(q.Path)
					in.WriteByte(0)
					idx = append(idx, j)
				}
			}
			if len(idx) == 0 {
				continue
			}
			r := g.In(repo).RunIn(in.Bytes(), "check-ignore", "--no-index", "-v", "-n", "-z", "--stdin")
			if r.Code != 0 && r.Code != 1 {
				fw.Abort("git check-ignore failed (%d): %s", r.Code, r.Err)
			}
			f := bytes.Split(r.Out, []byte{0})
			if len(f) != 4*len(idx)+1 {
				fw.Abort("git check-ignore: %d fields for %d queries; stderr=%s", len(f)-1, len(idx), r.Err)
			}
			for k, j := range idx {
				pat := string(f[4*k+2])
				if string(f[4*k+3]) != qs[j].Path {
					fw.Abort("git check-ignore answered for %q, expected %q", f[4*k+3], qs[j].Path)
				}
				out[j] = igAnswer{Ignored: pat != "" && !strings.HasPrefix(pat, "!"), Pattern: pat, Source: string(f[4*k])}
			}
		}
		return out
	}

	if !c.Thorough() {
		kinds = kinds[:4] // kind E (three files at once, one git process per configuration) only in the thorough tier
	}
	// the structured spaces first: they are batched and cheap, the real-root
	// kinds D/E below are the slow part a deadline should cut
	c49More(c, g)
	if os.Getenv("S13_ONLY_NEW") != "" { // development aid: only the structured spaces
		kinds = nil
	}
	for _, kd := range kinds {
		kd := kd
		n := countOf(kd)
		c.Bound("configs_"+kd.name, n)
		if kd.asRoot {
			c.ParDo(n, 0, func(i int) {
				pats := patsAt(kd, i)
				cfg := kd.config(pats, tokens)
				qs := queriesFor(cfg)
				res := compare(kd.name, cfg, qs, asRoot(cfg, qs))
				rmu.Lock()
				results[c49SeqKey(kd.name, pats)] = res
				rmu.Unlock()
			})
			continue
		}
		c.ParDo((n+chunk-1)/chunk, 0, func(ci int) {
			f := <-forests
			defer func() { forests <- f }()
			var names []string
			var cfgs []igConfig
			var qss [][]igQuery
			var keys []string
			for i := ci * chunk; i < (ci+1)*chunk && i < n; i++ {
				pats := patsAt(kd, i)
				cfg := kd.config(pats, tokens)
				place(f, i-ci*chunk, cfg)
				names = append(names, slotNames[i-ci*chunk])
				cfgs = append(cfgs, cfg)
				qss = append(qss, queriesFor(cfg))
				keys = append(keys, c49SeqKey(kd.name, pats))
			}
			ans := igGitBatch(g, f.repo, names, qss)
			local := make([]c49Res, len(names))
			for k := range names {
				local[k] = compare(kd.name, cfgs[k], qss[k], ans[k])
				if (ci*chunk+k)%2477 == 3 {
					c.Sample(map[string]any{"config": cfgs[k], "query": qss[k][3], "git": ans[k][3]})
				}
			}
			rmu.Lock()
			for k := range names {
				results[keys[k]] = local[k]
			}
			rmu.Unlock()
		})
	}

	// conformance of the sub-directory trick: a sample of A-C configs as real roots
	confEvery := c.Pick(211, 97)
	var confN int64
	var confMu sync.Mutex
	for _, kd := range kinds {
		if kd.asRoot {
			continue
		}
		kd := kd
		var idxs []int
		for i := 0; i < countOf(kd); i += confEvery {
			idxs = append(idxs, i)
		}
		c.ParDo(len(idxs), 0, func(k int) {
			cfg := kd.config(patsAt(kd, idxs[k]), tokens)
			qs := queriesFor(cfg)
			rootAns := asRoot(cfg, qs)
			f := <-forests
			place(f, 0, cfg)
			sub := igGitBatch(g, f.repo, []string{"c0"}, [][]igQuery{qs})[0]
			forests <- f
			for j := range qs {
				if sub[j].Ignored != rootAns[j].Ignored || sub[j].Pattern != rootAns[j].Pattern {
					fw.Abort("sub-directory batching misrepresents git: config %s query %+v: as root %+v, as sub-directory %+v", cfg, qs[j], rootAns[j], sub[j])
				}
			}
			confMu.Lock()
			confN += int64(len(qs))
			confMu.Unlock()
		})
	}
	c.Extra("subdir_batching_conformance_queries", confN)
	c.Extra("configs_excluded_double_star_beside_non_slash", excludedN.Load())

	// ---- reporting: minimise every disagreeing configuration inside the
	// enumerated space (neighbours are looked up, or evaluated at a real root
	// when the deadline cut the enumeration), then key by the minimal config.
	kindBy := map[string]c49Kind{}
	for _, k := range kinds {
		kindBy[k.name] = k
	}
	evalOne := func(kd c49Kind, pats [][]int) c49Res {
		key := c49SeqKey(kd.name, pats)
		rmu.Lock()
		r, ok := results[key]
		rmu.Unlock()
		if ok {
			return r
		}
		cfg := kd.config(pats, tokens)
		qs := queriesFor(cfg)
		r = compare(kd.name, cfg, qs, asRoot(cfg, qs))
		rmu.Lock()
		results[key] = r
		rmu.Unlock()
		return r
	}
	failsDir := func(r c49Res, dir int) bool {
		if r.panicv != nil {
			return dir == 2
		}
		return (dir == 0 && r.gogitOnly >= 0) || (dir == 1 && r.gitOnly >= 0)
	}
	minimise := func(kd c49Kind, pats [][]int, dir int) [][]int {
		cur := make([][]int, len(pats))
		for i := range pats {
			cur[i] = append([]int{}, pats[i]...)
		}
		for changed := true; changed; {
			changed = false
			for pi := range cur { // drop a whole pattern
				if len(cur[pi]) > 1 {
					cand := make([][]int, len(cur))
					copy(cand, cur)
					cand[pi] = nil
					if failsDir(evalOne(kd, cand), dir) {
						cur = cand
						changed = true
					}
				}
			}
			for pi := range cur {
				for d := 0; d < len(cur[pi]); d++ {
					cand := make([][]int, len(cur))
					copy(cand, cur)
					cand[pi] = append(append([]int{}, cur[pi][:d]...), cur[pi][d+1:]...)
					if failsDir(evalOne(kd, cand), dir) {
						cur = cand
						changed = true
						d--
					}
				}
			}
			for pi := range cur {
				for d := 0; d < len(cur[pi]); d++ {
					for lower := 0; lower < cur[pi][d]; lower++ {
						cand := make([][]int, len(cur))
						copy(cand, cur)
						cand[pi] = append([]int{}, cur[pi]...)
						cand[pi][d] = lower
						if failsDir(evalOne(kd, cand), dir) {
							cur = cand
							changed = true
							break
						}
					}
				}
			}
		}
		return cur
	}
	type start struct {
		kd   c49Kind
		pats [][]int
		key  string
	}
	var starts []start
	for key, r := range results {
		if r.gogitOnly < 0 && r.gitOnly < 0 && r.panicv == nil {
			continue
		}
		parts := strings.Split(key, "|")
		kd := kindBy[parts[0]]
		pats := make([][]int, len(parts)-1)
		for i, p := range parts[1:] {
			for _, ch := range []byte(p) {
				pats[i] = append(pats[i], int(ch-'A'))
			}
		}
		starts = append(starts, start{kd, pats, key})
	}
	sort.Slice(starts, func(a, b int) bool { return starts[a].key < starts[b].key })
	c.Extra("configurations_with_a_disagreement", len(starts))
	dirNames := []string{"go-git ignores, git does not", "git ignores, go-git does not", "go-git panics"}
	for _, st := range starts {
		r := evalOne(st.kd, st.pats)
		for dir := 0; dir < 3; dir++ {
			if !failsDir(r, dir) {
				continue
			}
			min := minimise(st.kd, st.pats, dir)
			mr := evalOne(st.kd, min)
			mcfg := st.kd.config(min, tokens)
			qs := queriesFor(mcfg)
			qi := mr.gogitOnly
			if dir == 1 {
				qi = mr.gitOnly
			}
			qdesc := ""
			if qi >= 0 {
				kindS := "file"
				if qs[qi].IsDir {
					kindS = "dir"
				}
				qdesc = fmt.Sprintf(" path=%s (%s)", qs[qi].Path, kindS)
			}
			// drop blank lines so that the same minimal rule set found through different kinds is one key
			strip := func(ls []string) []string {
				var o []string
				for _, l := range ls {
					if l != "" {
						o = append(o, l)
					}
				}
				return o
			}
			desc := ""
			if x := strip(mcfg.Excl); len(x) > 0 {
				desc += fmt.Sprintf(" info/exclude=%q", x)
			}
			if x := strip(mcfg.Root); len(x) > 0 {
				desc += fmt.Sprintf(" .gitignore=%q", x)
			}
			if x := strip(mcfg.Sub); len(x) > 0 {
				desc += fmt.Sprintf(" a/.gitignore=%q", x)
			}
			key := dirNames[dir] + ":" + desc + qdesc
			if qi >= 0 {
				if cl := c49DefectClass(dir, mcfg, qs[qi]); cl != "" {
					key = dirNames[dir] + ": class " + cl
				}
			}
			c.Fail(key, fmt.Sprintf("%s (minimised from kind %s %s)", key, st.kd.name, st.kd.config(st.pats, tokens)),
				map[string]any{"kind": st.kd.name, "config": st.kd.config(st.pats, tokens), "minimal_config": mcfg, "direction": dirNames[dir], "panic": fmt.Sprint(r.panicv)})
		}
	}
}

package checks

// C38 — push transfers complete history and respects the update rules.
//
// Space: a universe DAG with <= N commits; the subject branch S has every local
// value l and every remote value r (a commit or absent), i.e. every relation
// {equal, fast-forward, rewind, diverged, new, delete, absent}; a second branch
// k (local = last commit, remote = first commit), a remote-only branch, tags
// (annotated reachable / unreachable, lightweight, one that exists remotely with
// another value); branch names {a, x/a, refs/heads/a (nested)}; refspecs {plain,
// +forced, :delete, wildcard, +wildcard, rename, tags wildcard}; options {none,
// Force, ForceWithLease {tracking fresh / stale / absent, explicit match,
// explicit stale, lease on another ref}, FollowTags, Prune, Atomic,
// push-options, Force+Prune, none with a stale tracking ref}; pairings go-git->go-git (file transport),
// go-git->git (real `git receive-pack`), git->go-git (real `git push
// --receive-pack="vcheck __serve receive-pack"`).
//
// Oracle: a rule table (the model) computes for every candidate ref update
// whether it is allowed (fast-forward / create / forced / lease matches /
// explicit delete / prune / follow-tags). The model is replayed against real
// git->git at a smaller bound on every run. For the go-git side:
//   - `git fsck --connectivity-only` on the remote after every push;
//   - successful push: remote refs == old refs + every allowed update, and no
//     update the rules forbid;
//   - failed push: no forbidden update applied, every ref has its old value or
//     the requested (allowed) new value, nothing else changed.

import (
	"context"
	"errors"
	"fmt"
	"os"
	"path/filepath"
	"sort"
	"strconv"
	"strings"
	"sync"

	git "github.com/go-git/go-git/v6"
	"github.com/go-git/go-git/v6/config"
	"github.com/go-git/go-git/v6/plumbing"
	"github.com/go-git/go-git/v6/plumbing/client"

	"verifmc/fw"
)

func init() {
	fw.Register(&fw.Check{ID: "C38", Level: "exploration", Run: runC38, QuickBudget: 150, ThoroughBudget: 1400})
}

type i38Base struct {
	idx                               int
	dag                               fw.DAG
	name                              string
	dir                               string   // local template: all objects, no refs
	ids                               []string // commits
	rtmpl                             []string // remote object templates: rtmpl[r+1] holds closure(r) + c0 + tagOldR
	ltmpl                             []string // local object templates: ltmpl[l+1] holds closure(l) + closure(last) + c0 + the local tags
	ltmplS                            []string // the same made with --depth=1: a shallow pusher (n >= 2 only)
	tagT0, tagTLast, tagOldL, tagOldR string
}

var i38Names = []string{"a", "x/a", "refs/heads/a"}

type i38SpecKind struct {
	Name  string
	Specs func(S string) []string
}

var i38Specs = []i38SpecKind{
	{"plain", func(S string) []string { return []string{S + ":" + S} }},
	{"forced", func(S string) []string { return []string{"+" + S + ":" + S} }},
	{"delete", func(S string) []string { return []string{":" + S} }},
	{"wildcard", func(S string) []string { return []string{"refs/heads/*:refs/heads/*"} }},
	{"+wildcard", func(S string) []string { return []string{"+refs/heads/*:refs/heads/*"} }},
	{"rename", func(S string) []string { return []string{S + ":refs/heads/renamed"} }},
	{"tags", func(S string) []string { return []string{"refs/tags/*:refs/tags/*"} }},
	// the source is an object id instead of a reference (separate code path in
	// the pusher: Remote.addObject); "<l>" is replaced by the local value of S
	{"hash", func(S string) []string { return []string{"<l>:" + S} }},
	// a delete and an update in one request (the pusher skips the object walk
	// when every refspec is a delete)
	{"delete+plain", func(S string) []string { return []string{":" + S, "refs/heads/k:refs/heads/k"} }},
}

type i38Opt struct {
	Name     string
	Force    bool
	Lease    string // "", track, explicit-match, explicit-stale, other
	Tracking string // fresh | stale | absent
	Follow   bool
	Prune    bool
	Atomic   bool
	PushOpt  bool
	Shallow  bool // the pusher is a shallow repository (depth 1 at each of its tips)
}

var i38Opts = []i38Opt{
	{Name: "none", Tracking: "fresh"},
	{Name: "force", Force: true, Tracking: "fresh"},
	{Name: "lease-track-fresh", Lease: "track", Tracking: "fresh"},
	{Name: "lease-track-stale", Lease: "track", Tracking: "stale"},
	{Name: "lease-track-absent", Lease: "track", Tracking: "absent"},
	{Name: "lease-explicit-match", Lease: "explicit-match", Tracking: "fresh"},
	{Name: "lease-explicit-stale", Lease: "explicit-stale", Tracking: "fresh"},
	{Name: "lease-other-ref", Lease: "other", Tracking: "fresh"},
	{Name: "follow-tags", Follow: true, Tracking: "fresh"},
	{Name: "prune", Prune: true, Tracking: "fresh"},
	{Name: "atomic", Atomic: true, Tracking: "fresh"},
	{Name: "push-option", PushOpt: true, Tracking: "fresh"},
	{Name: "force+prune", Force: true, Prune: true, Tracking: "fresh"},
	{Name: "stale-tracking", Tracking: "stale"},
	{Name: "shallow-pusher", Tracking: "fresh", Shallow: true},
	{Name: "shallow-pusher+force", Tracking: "fresh", Shallow: true, Force: true},
}

type i38Case struct {
	b    *i38Base
	l, r int // commit index or -1
	name int
	spec int
	opt  int
}

func (k i38Case) String() string {
	return fmt.Sprintf("%s l=%d r=%d name=%s spec=%s opt=%s", k.b.name, k.l, k.r, i38Names[k.name], i38Specs[k.spec].Name, i38Opts[k.opt].Name)
}

// state of one case
type i38State struct {
	S        string
	local    map[string]string // local refs (heads, tags, remote-tracking)
	remote   map[string]string
	specs    []string
	leaseRef string // "" = all (track), else the ref the lease names
	leaseOID string // explicit expectation ("" = use tracking)
	hasLease bool
}

func i38Setup(k i38Case) (i38State, bool) {
	b := k.b
	n := len(b.ids)
	o := i38Opts[k.opt]
	S := "refs/heads/" + i38Names[k.name]
	st := i38State{S: S, local: map[string]string{}, remote: map[string]string{}}
	if k.l >= 0 {
		st.local[S] = b.ids[k.l]
	}
	if k.r >= 0 {
		st.remote[S] = b.ids[k.r]
	}
	st.local["refs/heads/k"] = b.ids[n-1]
	st.remote["refs/heads/k"] = b.ids[0]
	st.remote["refs/heads/ronly"] = b.ids[0]
	st.local["refs/remotes/origin/k"] = b.ids[0]
	st.local["refs/remotes/origin/ronly"] = b.ids[0]
	st.local["refs/tags/t0"] = b.tagT0
	st.local["refs/tags/tlast"] = b.tagTLast
	st.local["refs/tags/lw"] = b.ids[0]
	st.local["refs/tags/old"] = b.tagOldL
	st.remote["refs/tags/old"] = b.tagOldR
	track := "refs/remotes/origin/" + i38Names[k.name]
	switch o.Tracking {
	case "fresh":
		if k.r >= 0 {
			st.local[track] = b.ids[k.r]
		}
	case "stale":
		// a value different from the remote's (or a value although the remote has none)
		if n < 2 && k.r >= 0 {
			return st, false
		}
		st.local[track] = b.ids[(k.r+1+n)%n]
		if k.r >= 0 && st.local[track] == b.ids[k.r] {
			return st, false
		}
	case "absent":
	}
	if k.name == 2 && k.r >= 0 {
		// decoy: the tracking ref a lookup that strips "refs/heads/" everywhere would find
		st.local["refs/remotes/origin/a"] = b.ids[k.r]
	}
	if o.Shallow && n < 2 {
		return st, false // a single root commit cannot be cut off from anything
	}
	// a remote-tracking ref can only name a commit the pusher has
	known := b.dag.Reach(n - 1)
	if o.Shallow {
		known = map[int]bool{n - 1: true}
	}
	known[0] = true
	if k.l >= 0 {
		if o.Shallow {
			known[k.l] = true
		} else {
			for c := range b.dag.Reach(k.l) {
				known[c] = true
			}
		}
	}
	for name, id := range st.local {
		if strings.HasPrefix(name, "refs/remotes/") {
			for i, x := range b.ids {
				if x == id && !known[i] {
					delete(st.local, name)
				}
			}
		}
	}
	st.specs = i38Specs[k.spec].Specs(S)
	for i, sp := range st.specs {
		if strings.Contains(sp, "<l>") {
			if k.l < 0 {
				return st, false // no object to name
			}
			st.specs[i] = strings.Replace(sp, "<l>", b.ids[k.l], 1)
		}
	}
	switch o.Lease {
	case "track":
		st.hasLease = true
	case "explicit-match":
		if k.r < 0 {
			return st, false
		}
		st.hasLease, st.leaseRef, st.leaseOID = true, S, b.ids[k.r]
	case "explicit-stale":
		if n < 2 {
			return st, false
		}
		st.hasLease, st.leaseRef, st.leaseOID = true, S, b.ids[(k.r+1+n)%n]
		if k.r >= 0 && st.leaseOID == b.ids[k.r] {
			return st, false
		}
	case "other":
		st.hasLease, st.leaseRef = true, "refs/heads/k"
	}
	return st, true
}

// ---------------------------------------------------------------------------
// the rule table

type i38Upd struct {
	Dst, Old, New string
	Allowed       bool
	Why           string
}

// i38Model returns the candidate updates of the request. client selects the
// documented follow-tags rule: git follows annotated tags reachable from
// anything the remote will have after the push, go-git those reachable from the
// refs being pushed. fatal is set when the request as a whole is refused before
// anything is sent (git: src refspec matches nothing / deleting an absent ref).
func (b *i38Base) i38Model(st i38State, o i38Opt, client string) (upds []i38Upd, fatal string) {
	idx := map[string]int{}
	for i, id := range b.ids {
		idx[id] = i
	}
	isAnc := func(old, nw string) bool { // old is an ancestor-or-self of new (both commits)
		oi, ok1 := idx[old]
		ni, ok2 := idx[nw]
		if !ok1 || !ok2 {
			return false
		}
		return b.dag.Reach(ni)[oi]
	}
	seen := map[string]bool{}
	decide := func(dst, nw string, forced bool) {
		if seen[dst] {
			return
		}
		seen[dst] = true
		old := st.remote[dst]
		u := i38Upd{Dst: dst, Old: old, New: nw}
		leaseApplies := st.hasLease && (st.leaseRef == "" || st.leaseRef == dst)
		exp := st.leaseOID
		if exp == "" {
			exp = st.local["refs/remotes/origin/"+strings.TrimPrefix(dst, "refs/heads/")]
		}
		if old == nw {
			if nw == "" && leaseApplies && !forced && exp != "" {
				// deleting an absent ref under a lease that expects a value: refused as stale
				u.Allowed, u.Why = false, "lease stale"
				upds = append(upds, u)
			}
			return
		}
		switch {
		case forced:
			// git: "--force will defeat any rejection", a stale lease included
			u.Allowed, u.Why = true, "forced"
		case leaseApplies:
			u.Allowed = exp == old
			u.Why = "lease"
			if !u.Allowed {
				u.Why = "lease stale"
			}
		case nw == "":
			u.Allowed, u.Why = true, "explicit delete"
		case old == "":
			u.Allowed, u.Why = true, "create"
		case strings.HasPrefix(dst, "refs/tags/"):
			u.Allowed, u.Why = false, "tag exists"
		case isAnc(old, nw):
			u.Allowed, u.Why = true, "fast-forward"
		default:
			u.Allowed, u.Why = false, "non-fast-forward"
		}
		upds = append(upds, u)
	}
	localNames := iSortedKeys(st.local)
	for _, sp := range st.specs {
		forced := strings.HasPrefix(sp, "+") || o.Force
		body := strings.TrimPrefix(sp, "+")
		src, dst, _ := strings.Cut(body, ":")
		switch {
		case src == "":
			// deleting a ref the remote does not have is a no-op for git (the
			// server warns "deleting a non-existent ref" and reports ok)
			decide(dst, "", o.Force)
		case strings.Contains(src, "*"):
			for _, name := range localNames {
				if d, ok := i36Map(body, name); ok {
					decide(d, st.local[name], forced)
				}
			}
		default:
			if v, ok := st.local[src]; ok {
				decide(dst, v, forced)
			} else if iIsHex(src) {
				decide(dst, src, forced)
			} else {
				fatal = "src refspec matches nothing"
			}
		}
		if o.Prune && src != "" {
			rev := dst + ":" + src
			for _, rname := range iSortedKeys(st.remote) {
				if lname, ok := i36Map(rev, rname); ok {
					if _, has := st.local[lname]; !has && !seen[rname] {
						seen[rname] = true
						upds = append(upds, i38Upd{Dst: rname, Old: st.remote[rname], New: "", Allowed: true, Why: "prune"})
					}
				}
			}
		}
	}
	if o.Follow {
		// tips the tag's commit must be reachable from
		var tips []string
		for _, u := range upds {
			if u.Allowed && u.New != "" && !strings.HasPrefix(u.Dst, "refs/tags/") {
				tips = append(tips, u.New)
			}
		}
		if client == "git" {
			// remote.c add_missing_tags: everything the remote is known to have,
			// taking the new value where one is pushed and the old one otherwise
			// (also for a ref that is being deleted)
			tips = nil
			for name, v := range st.remote {
				t := v
				for _, u := range upds {
					if u.Dst == name && u.New != "" {
						t = u.New
					}
				}
				tips = append(tips, t)
			}
			for _, u := range upds {
				if u.Old == "" && u.New != "" {
					tips = append(tips, u.New)
				}
			}
		}
		tagTarget := map[string]int{"refs/tags/t0": 0, "refs/tags/tlast": len(b.ids) - 1, "refs/tags/old": 0}
		for _, name := range []string{"refs/tags/old", "refs/tags/t0", "refs/tags/tlast"} {
			if _, on := st.remote[name]; on || seen[name] {
				continue
			}
			reach := false
			for _, t := range tips {
				if ti, ok := idx[t]; ok && b.dag.Reach(ti)[tagTarget[name]] {
					reach = true
				}
			}
			if reach {
				seen[name] = true
				upds = append(upds, i38Upd{Dst: name, Old: "", New: st.local[name], Allowed: true, Why: "follow-tags"})
			}
		}
	}
	return upds, fatal
}

// ---------------------------------------------------------------------------

func i38BuildBase(c *fw.Ctx, idx int, d fw.DAG, home string) *i38Base {
	specs := fw.HistoryFromDAG(d, nil, 1600000000, 1000)
	g, dir := c.InitRepo("c38base", "sha1", true)
	ids := g.BuildHistory(specs, true)
	n := len(ids)
	b := &i38Base{idx: idx, dag: d, dir: dir, ids: ids, name: i36DagName(d, 0)}
	g.MustRun("tag", "-a", "-m", "t0", "t0", ids[0])
	g.MustRun("tag", "-a", "-m", "tlast", "tlast", ids[n-1])
	g.MustRun("tag", "-a", "-m", "old as the pusher has it", "oldL", ids[0])
	g.MustRun("tag", "-a", "-m", "old as the remote has it", "oldR", ids[0])
	b.tagT0 = g.MustRun("rev-parse", "refs/tags/t0").S()
	b.tagTLast = g.MustRun("rev-parse", "refs/tags/tlast").S()
	b.tagOldL = g.MustRun("rev-parse", "refs/tags/oldL").S()
	b.tagOldR = g.MustRun("rev-parse", "refs/tags/oldR").S()
	// remote object templates (objects only; refs are written per case)
	gh := fw.NewGit("", home).C(i36GitConf...)
	for r := -1; r < n; r++ {
		rd := c.TempDir("c38rt")
		gh.MustRun("init", "-q", "--bare", rd)
		args := []string{"fetch", "-q", "--no-tags", "--no-write-fetch-head", dir, "refs/verif/c0:refs/tmp/c0", "refs/tags/oldR:refs/tmp/old"}
		if r >= 0 {
			args = append(args, fmt.Sprintf("refs/verif/c%d:refs/tmp/r", r))
		}
		gh.In(rd).MustRun(args...)
		os.RemoveAll(filepath.Join(rd, "refs", "tmp"))
		if (r+1)%2 == 1 {
			// every second remote keeps its objects in one pack instead of loose files
			gh.In(rd).MustRun("repack", "-a", "-d", "-q")
		}
		b.rtmpl = append(b.rtmpl, rd)
	}
	// local object templates: only what the pusher's own refs reach (the remote's
	// other commits are unknown locally, as after someone else's push)
	for l := -1; l < n; l++ {
		ld := c.TempDir("c38lt")
		gh.MustRun("init", "-q", "--bare", ld)
		args := []string{"fetch", "-q", "--no-tags", "--no-write-fetch-head", dir, "refs/verif/c0:refs/tmp/c0", fmt.Sprintf("refs/verif/c%d:refs/tmp/last", n-1),
			"refs/tags/t0:refs/tmp/t0", "refs/tags/tlast:refs/tmp/tlast", "refs/tags/oldL:refs/tmp/oldL"}
		if l >= 0 {
			args = append(args, fmt.Sprintf("refs/verif/c%d:refs/tmp/l", l))
		}
		gh.In(ld).MustRun(args...)
		os.RemoveAll(filepath.Join(ld, "refs", "tmp"))
		os.MkdirAll(filepath.Join(ld, "refs", "heads"), 0o755)
		os.MkdirAll(filepath.Join(ld, "refs", "tags"), 0o755)
		if (l+1)%2 == 0 {
			// every second pusher keeps its objects in one pack instead of loose files
			gh.In(ld).MustRun("repack", "-a", "-d", "-q")
		}
		b.ltmpl = append(b.ltmpl, ld)
		// shallow twin: the same tips, each cut off below itself (depth 1)
		if n >= 2 {
			sd := c.TempDir("c38ls")
			gh.MustRun("init", "-q", "--bare", sd)
			// (file:// so that the depth is honoured: a plain local path is not a transport)
			sargs := append([]string{"fetch", "-q", "--depth=1", "--no-tags", "--no-write-fetch-head", "file://" + dir}, args[5:]...)
			gh.In(sd).MustRun(sargs...)
			os.RemoveAll(filepath.Join(sd, "refs", "tmp"))
			os.MkdirAll(filepath.Join(sd, "refs", "heads"), 0o755)
			os.MkdirAll(filepath.Join(sd, "refs", "tags"), 0o755)
			b.ltmplS = append(b.ltmplS, sd)
		}
	}
	return b
}

func i38WriteRefs(dir string, refs map[string]string) error {
	for name, id := range refs {
		p := filepath.Join(dir, name)
		if err := os.MkdirAll(filepath.Dir(p), 0o755); err != nil {
			return err
		}
		if err := os.WriteFile(p, []byte(id+"\n"), 0o644); err != nil {
			return err
		}
	}
	return nil
}

// i38WritePacked stores refs in packed-refs (no header: git then peels tags
// itself); the reference `loose`, when present, is also written as a loose
// file and gets the value `stale` in packed-refs (the loose file wins).
func i38WritePacked(dir string, refs map[string]string, loose, stale string) error {
	var b strings.Builder
	for _, name := range iSortedKeys(refs) {
		id := refs[name]
		if name == loose {
			if err := i38WriteRefs(dir, map[string]string{name: id}); err != nil {
				return err
			}
			id = stale
		}
		fmt.Fprintf(&b, "%s %s\n", id, name)
	}
	return os.WriteFile(filepath.Join(dir, "packed-refs"), []byte(b.String()), 0o644)
}

type i38Run struct {
	c       *fw.Ctx
	home    string
	self    string
	mu      sync.Mutex
	fails   []i36Fail
	failed  map[string]int
	msgs    map[string]string
	cut     bool
	confErr []string
}

func (r *i38Run) fail(order int, key, what string, rep map[string]any) {
	r.mu.Lock()
	r.fails = append(r.fails, i36Fail{order, key, what, rep})
	r.mu.Unlock()
}

func (r *i38Run) conf(msg string) {
	r.mu.Lock()
	r.confErr = append(r.confErr, msg)
	r.mu.Unlock()
}

func (r *i38Run) expired() bool {
	if r.c.Expired() {
		r.mu.Lock()
		first := !r.cut
		r.cut = true
		r.mu.Unlock()
		if first {
			r.c.Incomplete("internal deadline reached; remaining cases skipped")
		}
		return true
	}
	return false
}

// prepare creates the (local, remote) repositories of a case.
func (r *i38Run) prepare(k i38Case, st i38State) (local, remote string) {
	c := r.c
	local = c.TempDir("c38l")
	remote = c.TempDir("c38r")
	ltmpl := k.b.ltmpl[k.l+1]
	if i38Opts[k.opt].Shallow {
		ltmpl = k.b.ltmplS[k.l+1]
	}
	c.Must(iCopyDir(ltmpl, local), "copy local template")
	c.Must(iCopyDir(k.b.rtmpl[k.r+1], remote), "copy remote template")
	// references: loose files, or (every second (l, r) pair) a packed-refs file;
	// on the packed side the subject branch additionally has a stale packed
	// value hidden by its loose file
	if (k.l+k.r)%2 != 0 {
		c.Must(i38WritePacked(local, st.local, st.S, k.b.ids[0]), "write local refs")
		c.Must(i38WritePacked(remote, st.remote, st.S, k.b.ids[0]), "write remote refs")
	} else {
		c.Must(i38WriteRefs(local, st.local), "write local refs")
		c.Must(i38WriteRefs(remote, st.remote), "write remote refs")
	}
	cfg := fmt.Sprintf("[remote \"origin\"]\n\turl = file://%s\n\tfetch = +refs/heads/*:refs/remotes/origin/*\n", remote)
	f, err := os.OpenFile(filepath.Join(local, "config"), os.O_APPEND|os.O_WRONLY, 0o644)
	c.Must(err, "open local config")
	f.WriteString(cfg)
	f.Close()
	f, err = os.OpenFile(filepath.Join(remote, "config"), os.O_APPEND|os.O_WRONLY, 0o644)
	c.Must(err, "open remote config")
	f.WriteString("[receive]\n\tadvertisePushOptions = true\n")
	f.Close()
	return
}

func (r *i38Run) goPush(local string, st i38State, o i38Opt, exec bool) (error, bool) {
	return i36GoOp(func(ctx context.Context) error {
		repo, err := git.PlainOpen(local)
		if err != nil {
			return fmt.Errorf("open: %w", err)
		}
		defer repo.Close()
		po := &git.PushOptions{RemoteName: "origin", Force: o.Force, FollowTags: o.Follow, Prune: o.Prune, Atomic: o.Atomic}
		for _, s := range st.specs {
			po.RefSpecs = append(po.RefSpecs, config.RefSpec(s))
		}
		if st.hasLease {
			po.ForceWithLease = &git.ForceWithLease{RefName: plumbing.ReferenceName(st.leaseRef)}
			if st.leaseOID != "" {
				po.ForceWithLease.Hash = plumbing.NewHash(st.leaseOID)
			}
		}
		if o.PushOpt {
			po.Options = []string{"verif=1"}
		}
		if exec {
			po.ClientOptions = []client.Option{client.WithTransport("file", &iExecTransport{home: r.home})}
		}
		err = repo.PushContext(ctx, po)
		if errors.Is(err, git.NoErrAlreadyUpToDate) {
			err = nil
		}
		return err
	})
}

func i38GitPushArgs(st i38State, o i38Opt) []string {
	a := []string{"push", "-q"}
	if o.Force {
		a = append(a, "--force")
	}
	if st.hasLease {
		switch {
		case st.leaseRef == "":
			a = append(a, "--force-with-lease")
		case st.leaseOID == "":
			a = append(a, "--force-with-lease="+st.leaseRef)
		default:
			a = append(a, "--force-with-lease="+st.leaseRef+":"+st.leaseOID)
		}
	}
	if o.Follow {
		a = append(a, "--follow-tags")
	}
	if o.Prune {
		a = append(a, "--prune")
	}
	if o.Atomic {
		a = append(a, "--atomic")
	}
	if o.PushOpt {
		a = append(a, "-o", "verif=1")
	}
	return a
}

// i38Bad is one ref on which the remote disagrees with the rule table.
type i38Bad struct {
	Ref  string
	Kind string // outside-request | forbidden-applied | not-applied
	Why  string // rule of the candidate update
	Msg  string
	Gone bool // the ref is absent after the push
}

// i38Verdict compares the remote after a push with the rule table. success:
// every allowed update applied, nothing else; failure: nothing forbidden
// applied, every ref old or allowed-new.
func i38Verdict(st i38State, upds []i38Upd, after map[string]string, success, exact bool) []i38Bad {
	byDst := map[string]i38Upd{}
	for _, u := range upds {
		byDst[u.Dst] = u
	}
	names := map[string]bool{}
	for k := range after {
		names[k] = true
	}
	for k := range st.remote {
		names[k] = true
	}
	for k := range byDst {
		names[k] = true
	}
	var bad []i38Bad
	for _, n := range iSortedKeys(names) {
		got := after[n]
		old := st.remote[n]
		u, has := byDst[n]
		switch {
		case !has:
			if got != old {
				bad = append(bad, i38Bad{n, "outside-request", "", fmt.Sprintf("%s changed %s->%s although not part of the request", n, i36Short(old), i36Short(got)), got == ""})
			}
		case !u.Allowed:
			if got != old {
				bad = append(bad, i38Bad{n, "forbidden-applied", u.Why, fmt.Sprintf("%s: forbidden update (%s) applied %s->%s", n, u.Why, i36Short(old), i36Short(got)), got == ""})
			}
		default:
			if got != u.New && (got != old || (success && exact)) {
				bad = append(bad, i38Bad{n, "not-applied", u.Why, fmt.Sprintf("%s: allowed update (%s) %s->%s not applied, is %s", n, u.Why, i36Short(old), i36Short(u.New), i36Short(got)), got == ""})
			}
		}
	}
	return bad
}

// i38Key maps a disagreement to a finding key. For a go-git client four class
// predicates (on the request, not on the outcome) name the part of
// Remote.addReferencesToUpdate involved; everything else gets a generic key.
func i38Key(k i38Case, st i38State, o i38Opt, pairing string, b i38Bad) string {
	if pairing != i36XG {
		forcedSpec := o.Force
		for _, sp := range st.specs {
			if strings.HasPrefix(sp, "+") {
				forcedSpec = true
			}
		}
		_, localHas := st.local[b.Ref]
		switch {
		case o.Prune && forcedSpec && b.Gone && localHas && b.Kind != "forbidden-applied":
			return "prune with a forced refspec deletes remote refs that still exist locally (client=gogit)"
		case i38Specs[k.spec].Name == "delete" && st.hasLease && b.Kind == "forbidden-applied" && b.Why == "lease stale":
			return "an explicit delete ignores a stale lease (client=gogit)"
		case st.hasLease && st.leaseRef != "" && b.Ref != st.leaseRef && b.Kind == "forbidden-applied" && b.Why != "lease stale":
			return "a lease that names another ref disables the fast-forward check (client=gogit)"
		case k.name == 2 && o.Lease == "track" && b.Kind == "forbidden-applied" && b.Why == "lease stale":
			return "the lease looks up the tracking ref with every refs/heads/ removed (nested branch name) (client=gogit)"
		}
	}
	return fmt.Sprintf("%s %s spec=%s opt=%s", b.Kind, pairing, i38Specs[k.spec].Name, o.Name)
}

// i38QuickKeep selects the quick tier's sub-space (still enumerated completely): the single commit,
// the 2-chain and the 3-fork (every relation fast-forward / diverged / new / equal / delete occurs),
// the main branch name for every kept refspec x option, the other names only on the 2-chain.
func i38QuickKeep(d fw.DAG, l, r, name int, spec, opt string) bool {
	n := len(d.Parents)
	if n == 3 && !((l == 1 && r == 2) || (l == 2 && r == 1)) {
		return false // the fork adds only the diverged relation
	}
	shape := n == 1 || (n == 2 && len(d.Parents[1]) == 1) ||
		(n == 3 && len(d.Parents[1]) == 1 && d.Parents[1][0] == 0 && len(d.Parents[2]) == 1 && d.Parents[2][0] == 0)
	if !shape {
		return false
	}
	if name != 0 && (n != 2 || spec != "plain") {
		return false
	}
	switch spec {
	case "plain", "forced", "delete", "+wildcard":
	default:
		return n <= 2 && opt == "none"
	}
	switch opt {
	case "lease-track-fresh":
		// on an already forced refspec a matching lease adds nothing: those cases
		// gave their place to the shallow pusher / object-id source / mixed request
		return spec == "plain" || spec == "delete"
	case "prune", "force+prune":
		return spec != "delete" // a delete refspec has no source side to prune against
	case "none", "force", "lease-track-stale", "lease-explicit-stale", "lease-other-ref", "shallow-pusher":
		return true
	}
	return n <= 2 && spec == "plain"
}

func runC38(c *fw.Ctx) {
	maxCommits := c.Pick(3, 4)
	maxCommitsX := c.Pick(1, 3) // bound for every run that involves a git process on one side
	only := os.Getenv("C38_ONLY")
	c.Bound("max_commits", maxCommits)
	c.Bound("max_commits_pairings_with_git_and_model_conformance", maxCommitsX)
	c.Bound("branch_names", i38Names)
	var sn, on []string
	for _, s := range i38Specs {
		sn = append(sn, s.Name)
	}
	for _, o := range i38Opts {
		on = append(on, o.Name)
	}
	c.Bound("refspecs", sn)
	c.Bound("options", on)
	c.Bound("pairings", []string{i36GG, i36GX, i36XG})
	c.SetRule("(quick tier: the sub-space selected by i38QuickKeep - single commit, 2-chain, 3-fork; 4 refspec kinds x 8 options on the main branch name, the rest on the 2-chain only - enumerated completely) every DAG with <= max_commits commits x every (local, remote) value of the subject branch x branch name x refspec kind x option set (names other than `a` only with the lease options and none); each case is pushed go-git->go-git and, up to the smaller bound, go-git->git receive-pack, git->go-git receive-pack and git->git (conformance of the rule table); remote fsck + rule table; non-trivial = the request contains at least one candidate update; a class is (pairing, refspec, option, outcome, multiset of (relation, allowed, applied))")
	c.Assume("git 2.39.5 push/receive-pack/fsck are the reference; follow-tags is judged by each client's documented rule (git: tags reachable from anything the remote will have; go-git: from the refs being pushed); an unsuccessful push is only required to apply nothing forbidden and nothing outside the request")

	r := &i38Run{c: c, home: filepath.Join(c.Scratch(), "home"), self: iSelf(), failed: map[string]int{}, msgs: map[string]string{}}
	os.MkdirAll(r.home, 0o755)

	var dags []fw.DAG
	for n := 1; n <= maxCommits; n++ {
		for _, d := range fw.DAGs(n, 2, false) {
			if only != "" && !strings.Contains(i36DagName(d, 0), only) {
				continue
			}
			if os.Getenv("C38_MIN3") != "" && n < 3 { // debugging aid: only the 3+-commit DAGs
				continue
			}
			dags = append(dags, d)
		}
	}
	// bases are built on first use so that the small DAGs start at once
	type lazyBase struct {
		once sync.Once
		b    *i38Base
	}
	lazy := make([]*lazyBase, len(dags))
	for i := range lazy {
		lazy[i] = &lazyBase{}
	}
	getBase := func(i int) *i38Base {
		lazy[i].once.Do(func() { lazy[i].b = i38BuildBase(c, i, dags[i], r.home) })
		return lazy[i].b
	}

	type protoCase struct {
		bi                  int
		l, r, name, sp, opt int
	}
	var cases []protoCase
	for bi, d := range dags {
		n := len(d.Parents)
		for l := -1; l < n; l++ {
			for rr := -1; rr < n; rr++ {
				for name := range i38Names {
					for sp := range i38Specs {
						for op, o := range i38Opts {
							if name != 0 && !(o.Lease != "" || o.Name == "none") {
								continue
							}
							if !c.Thorough() && !i38QuickKeep(d, l, rr, name, i38Specs[sp].Name, o.Name) {
								continue
							}
							cases = append(cases, protoCase{bi, l, rr, name, sp, op})
						}
					}
				}
			}
		}
	}
	c.Bound("cases", len(cases))

	c.ParDo(len(cases), 0, func(ci int) {
		if r.expired() {
			return
		}
		pc := cases[ci]
		if from, _ := strconv.Atoi(os.Getenv("C38_FROM")); ci < from { // debugging aid: resume a cut run
			return
		}
		if f := os.Getenv("C38_CASE"); f != "" {
			probe := i38Case{&i38Base{name: i36DagName(dags[pc.bi], 0)}, pc.l, pc.r, pc.name, pc.sp, pc.opt}
			if !strings.Contains(probe.String(), f) {
				return
			}
		}
		b := getBase(pc.bi)
		if b == nil {
			return
		}
		k := i38Case{b, pc.l, pc.r, pc.name, pc.sp, pc.opt}
		o := i38Opts[k.opt]
		st, ok := i38Setup(k)
		if !ok {
			return
		}
		n := len(k.b.ids)
		withGit := n <= maxCommitsX
		updsGo, _ := k.b.i38Model(st, o, "gogit")
		updsGit, fatalGit := k.b.i38Model(st, o, "git")

		type ex struct {
			pairing string
		}
		exs := []string{i36GG}
		if withGit {
			exs = append(exs, i36GX, i36XG, "git->git")
			if o.Shallow {
				// a shallow git pusher follows rules of its own (updates that would make
				// the remote shallow are refused by the server): the rule table is about
				// true ancestry, only the go-git client is judged by it here
				exs = []string{i36GG, i36GX}
			}
		}
		if os.Getenv("C38_CONF") != "" { // debugging aid: only the git->git conformance replay
			exs = []string{"git->git"}
		}
		if p := os.Getenv("C38_PAIR"); p != "" { // debugging aid: one pairing
			exs = []string{p}
		}
		for _, pairing := range exs {
			local, remote := r.prepare(k, st)
			var failMsg string
			var hung bool
			gitClient := pairing == i36XG || pairing == "git->git"
			if !gitClient {
				c.Eval()
				err, h := r.goPush(local, st, o, pairing == i36GX)
				hung = h
				if err != nil {
					failMsg = err.Error()
				}
			} else {
				args := i38GitPushArgs(st, o)
				if pairing == i36XG {
					c.Eval()
					args = append(args, "--receive-pack="+r.self+" __serve receive-pack")
				}
				args = append(args, "origin")
				args = append(args, st.specs...)
				res := iGit(r.home, local, i36GitConf, args...)
				hung = res.TimedOut
				if res.Code != 0 {
					failMsg = fmt.Sprintf("exit %d: %s", res.Code, strings.TrimSpace(res.Err))
				}
			}
			cls := fmt.Sprintf("%s spec=%s opt=%s", pairing, i38Specs[k.spec].Name, o.Name)
			if hung {
				c.Incomplete("watchdog (60 s) expired: " + cls + " on " + k.String())
				continue
			}
			rep := map[string]any{"case": k.String(), "pairing": pairing, "refspecs": st.specs, "option": o, "local_refs": st.local, "remote_refs_before": st.remote, "error": failMsg}
			if strings.HasPrefix(failMsg, "PANIC") {
				r.fail(ci, "panic "+pairing, failMsg+" :: "+k.String(), rep)
				os.RemoveAll(local)
				os.RemoveAll(remote)
				continue
			}
			after, err := iReadState("", remote)
			if err != nil {
				if pairing == "git->git" {
					fw.Abort("cannot read remote after git->git push: %v", err)
				}
				r.fail(ci, "unreadable remote refs "+pairing, i36ErrClass(err.Error())+" :: "+k.String(), rep)
				continue
			}
			rep["remote_refs_after"] = after.Refs
			upds := updsGo
			if gitClient {
				upds = updsGit
			}
			rep["rule_table"] = upds
			success := failMsg == ""
			if pairing == "git->git" {
				// conformance of the rule table: git applies exactly the allowed updates
				// (none when atomic and something is refused, none on a fatal request)
				exp := map[string]string{}
				for kk, v := range st.remote {
					exp[kk] = v
				}
				refused := false
				for _, u := range upds {
					if !u.Allowed {
						refused = true
					}
				}
				if fatalGit == "" && !(o.Atomic && refused) {
					for _, u := range upds {
						if u.Allowed {
							if u.New == "" {
								delete(exp, u.Dst)
							} else {
								exp[u.Dst] = u.New
							}
						}
					}
				}
				if m := i36RefsEq(after.Refs, exp, nil); m != "" {
					r.conf(fmt.Sprintf("rule table disagrees with git->git on %s: %s (git: %s)", k, m, failMsg))
				}
				if fatalGit == "" && refused == success && !strings.HasPrefix(failMsg, "exit -1:") { // exit -1: git died from a signal (seen with -o and nothing to push)
					r.conf(fmt.Sprintf("rule table disagrees with git->git on the outcome of %s: refused=%v git error=%q", k, refused, failMsg))
				}
				c.TracesValidated(1)
				os.RemoveAll(local)
				os.RemoveAll(remote)
				continue
			}
			if !success {
				r.mu.Lock()
				cl := pairing + " :: " + i36ErrClass(failMsg)
				r.failed[cl]++
				if _, ok := r.msgs[cl]; !ok {
					r.msgs[cl] = k.String() + " :: " + failMsg
				}
				r.mu.Unlock()
			}
			kbase := fmt.Sprintf("%s spec=%s opt=%s", pairing, i38Specs[k.spec].Name, o.Name)
			if f := iFsck(r.home, remote); f != "" {
				r.fail(ci, "incomplete "+kbase, "remote fails fsck --connectivity-only after the push: "+i36FirstLine(f)+" :: "+k.String(), rep)
			} else {
				outcome := "succeeded"
				if !success {
					outcome = "failed: " + i36ErrClass(failMsg)
				}
				for _, bd := range i38Verdict(st, upds, after.Refs, success, !gitClient) {
					r.fail(ci, i38Key(k, st, o, pairing, bd), bd.Msg+" :: "+k.String()+" (push "+outcome+")", rep)
				}
			}
			if len(upds) > 0 {
				var sig []string
				for _, u := range upds {
					applied := after.Refs[u.Dst] == u.New
					sig = append(sig, fmt.Sprintf("%s/%v/%v", u.Why, u.Allowed, applied))
				}
				sort.Strings(sig)
				c.Class(fmt.Sprintf("%s ok=%v %s", cls, success, strings.Join(sig, ",")))
			}
			if ci%5003 == 0 {
				c.Sample(map[string]any{"case": k.String(), "pairing": pairing, "success": success, "rule_table": upds})
			}
			os.RemoveAll(local)
			os.RemoveAll(remote)
		}
	})

	if len(r.confErr) > 0 {
		sort.Strings(r.confErr)
		if len(r.confErr) > 12 {
			r.confErr = append(r.confErr[:12], fmt.Sprintf("... and %d more", len(r.confErr)-12))
		}
		fw.Abort("%s", strings.Join(r.confErr, "\n"))
	}
	sort.SliceStable(r.fails, func(i, j int) bool { return r.fails[i].order < r.fails[j].order })
	for _, f := range r.fails {
		c.Fail(f.key, f.what, f.rep)
	}
	c.Extra("unsuccessful_pushes_by_class", r.failed)
	c.Extra("unsuccessful_push_examples", r.msgs)
}

package checks

import (
	"fmt"
	"net/http"
	"net/http/httptest"
	"net/url"
	"os"
	"sort"
	"strings"

	"github.com/go-git/go-billy/v6/osfs"
	"github.com/go-git/go-git/v6/backend"
	"github.com/go-git/go-git/v6/plumbing"
	"github.com/go-git/go-git/v6/plumbing/transport"
	"github.com/go-git/go-git/v6/storage"

	"verifmc/fw"
	"verifmc/mcfs"
)

func init() {
	fw.Register(&fw.Check{ID: "C40", Level: "exploration", Run: runC40, QuickBudget: 90, ThoroughBudget: 900})
}

func runC40(c *fw.Ctx) {
	segs := []string{"..", ".", "repo", "repo.git", ".git", "", "%2e%2e", "gf", "outside", "out.git", "srvroot", "...", "..\\", "objects"}
	maxSeg := c.Pick(3, 4)
	gitfiles := []string{
		"gitdir: ../repo.git\n", "gitdir: ../../outside/out.git\n", "gitdir: /outside/out.git\n", "gitdir: /srvroot/repo.git\n",
		"gitdir: ..\n", "gitdir: ../..\n", "nogitdir\n", "gitdir: ../repo/.git", "gitdir: ../../../../../outside/out.git\n",
		"gitdir: ../repo.git/../../outside/out.git\n", "gitdir: \n", "gitdir: ../outside-link\n",
	}
	c.Bound("segments", segs)
	c.Bound("max_segments", maxSeg)
	c.Bound("gitfile_contents", gitfiles)
	c.SetRule("request paths = every sequence of <= max_segments segments joined by '/', with and without a leading '/', x strict on/off, x every gitfile content for the directory 'gf' under the root; loader = the real transport.FilesystemLoader over an mcfs view rooted at /srvroot inside a larger tree that also holds /outside/out.git and /outside/wt/.git (valid repositories); second pass on a real directory (osfs.BoundOS): the same requests plus absolute gitfile targets, prefix-sharing siblings, links inside the root that lead out of it (named directly, through a gitfile, as the .git entry), absolute request paths of the outside repositories, repositories inside the root whose objects/info/alternates names an object directory outside it (an object stored only outside must not be served) - through Load and through the HTTP backend handler (GET <path>/info/refs, percent-decoded path, with and without a Prefix); oracle: the complete mcfs journal of the Load call and of reading references/HEAD/config/objects through the returned storer - no resolved path outside /srvroot may be touched, the returned storer's filesystem root is under /srvroot, and the served repository is one of those inside the root; distinct = (outcome, resolved repository) classes")
	c.Assume("the content of the root directory itself is trusted (no symlinks placed inside it that point outside); mcfs resolves paths like the chroot helpers of billy (lexical confinement) and symlinks without confinement")
	n, err := mcfs.Conformance(c.Scratch(), 2)
	c.Must(err, "mcfs/osfs conformance")
	c.Extra("mcfs_osfs_conformance_sequences", n)

	// world
	gsrv, sdir := c.InitRepo("c40", "", false)
	ids := gsrv.BuildHistory([]fw.CommitSpec{{Time: 1700000000, Files: map[string]fw.FileSpec{"f": {Data: "x\n"}}}}, false)
	gsrv.MustRun("update-ref", "refs/heads/main", ids[0])
	base := mcfs.NewWorld()
	base.JournalReads = true
	for _, dst := range []string{"/srvroot/repo.git", "/srvroot/repo/.git", "/outside/out.git", "/outside/wt/.git", "/srvroot/gf-target.git"} {
		c.Must(base.Import(sdir+"/.git", dst), "import")
		base.RemoveSetup(dst + "/hooks")
	}
	// mark the outside repositories so that serving them is recognisable
	base.WriteFile("/outside/out.git/refs/heads/OUTSIDE", []byte(ids[0]+"\n"), false)
	base.WriteFile("/outside/wt/.git/refs/heads/OUTSIDE", []byte(ids[0]+"\n"), false)
	base.MkdirSetup("/srvroot/gf")

	var paths []string
	seen := map[string]bool{}
	for _, s := range fw.Seqs(len(segs), maxSeg) {
		if len(s) == 0 {
			continue
		}
		var parts []string
		for _, k := range s {
			parts = append(parts, segs[k])
		}
		for _, p := range []string{strings.Join(parts, "/"), "/" + strings.Join(parts, "/")} {
			if !seen[p] {
				seen[p] = true
				paths = append(paths, p)
			}
		}
	}
	c.Bound("request_paths", len(paths))
	type job struct {
		path    string
		strict  bool
		gitfile int // -1: gf has no .git file
	}
	var jobs []job
	for _, p := range paths {
		for _, st := range []bool{false, true} {
			jobs = append(jobs, job{p, st, -1})
		}
	}
	// gitfile dimension: requests that reach gf
	for gi := range gitfiles {
		for _, p := range []string{"gf", "/gf", "gf/", "/gf/.git", "gf/../gf", "repo/../gf", "/srvroot/gf"} {
			for _, st := range []bool{false, true} {
				jobs = append(jobs, job{p, st, gi})
			}
		}
	}
	c.ParDo(len(jobs), 0, func(i int) {
		j := jobs[i]
		w := base.Clone()
		w.JournalReads = true
		if j.gitfile >= 0 {
			w.WriteFile("/srvroot/gf/.git", []byte(gitfiles[j.gitfile]), false)
		}
		w.ResetJournal()
		l := transport.NewFilesystemLoader(w.View("/srvroot", "base"), j.strict)
		var st storage.Storer
		var lerr error
		func() {
			defer func() {
				if r := recover(); r != nil {
					lerr = fmt.Errorf("panic: %v", r)
				}
			}()
			st, lerr = l.Load(&url.URL{Scheme: "file", Path: j.path})
		}()
		c.Eval()
		desc := fmt.Sprintf("path=%s strict=%v", fw.Q(j.path), j.strict)
		if j.gitfile >= 0 {
			desc += " gitfile=" + fw.Q(gitfiles[j.gitfile])
		}
		outcome := "refused"
		served := ""
		if lerr != nil && strings.HasPrefix(lerr.Error(), "panic:") {
			c.Fail("loader panics", desc+": "+lerr.Error(), map[string]any{"path": j.path, "strict": j.strict})
			return
		}
		if lerr == nil && st != nil {
			outcome = "served"
			// use the storer like a server would
			if it, err := st.IterReferences(); err == nil {
				it.ForEach(func(r *plumbing.Reference) error {
					if r.Name() == "refs/heads/OUTSIDE" {
						served = "OUTSIDE"
					}
					return nil
				})
			}
			st.Reference(plumbing.HEAD)
			st.Config()
			st.HasEncodedObject(plumbing.NewHash(ids[0]))
			if fsr, ok := st.(interface{ Filesystem() interface{ Root() string } }); ok {
				_ = fsr
			}
		}
		var esc []string
		for _, op := range w.Journal() {
			for _, p := range []string{op.Path, op.Path2} {
				if !strings.HasPrefix(p, "/") {
					continue
				}
				if p != "/srvroot" && !strings.HasPrefix(p, "/srvroot/") {
					esc = append(esc, op.Kind+" "+p)
				}
			}
		}
		sort.Strings(esc)
		esc = dedup(esc)
		c.Class(fmt.Sprintf("%s|strict=%v|%s|%d", outcome, j.strict, served, len(esc)))
		if served == "OUTSIDE" {
			c.Fail("serves a repository outside the root", desc+": the returned storer lists refs/heads/OUTSIDE, i.e. it is a repository located outside /srvroot", map[string]any{"path": j.path, "strict": j.strict, "gitfile": j.gitfile})
		}
		if len(esc) > 0 {
			c.Fail("touches a path outside the root: "+pathClass(esc[0]), desc+": filesystem calls outside /srvroot: "+strings.Join(esc, "; "), map[string]any{"path": j.path, "strict": j.strict, "gitfile": j.gitfile, "calls": esc})
		}
		if i%1499 == 0 {
			c.Sample(map[string]any{"path": j.path, "strict": j.strict, "outcome": outcome})
		}
	})

	// second pass on the real OS (billy osfs rooted at a real directory): catches an escape that
	// bypasses the base filesystem altogether (e.g. resolving an absolute gitdir through the OS root)
	real := c.TempDir("c40real")
	for _, dst := range []string{"/srvroot/repo.git", "/srvroot/repo/.git", "/outside/out.git", "/outside/wt/.git"} {
		c.Must(base.Dump(dst, real+dst), "dump")
	}
	os.MkdirAll(real+"/srvroot/gf", 0o755)
	// a sibling whose name merely starts with the root's name, and an absolute path that runs through the root lexically
	c.Must(base.Dump("/outside/out.git", real+"/srvroot-private/secret.git"), "dump")
	c.Must(base.Dump("/outside/out.git", real+"/srvroot.git"), "dump")
	realGitfiles := append([]string{}, gitfiles...)
	realGitfiles = append(realGitfiles, "gitdir: "+real+"/outside/out.git\n", "gitdir: "+real+"/outside/wt/.git\n",
		"gitdir: "+real+"/srvroot-private/secret.git\n", "gitdir: "+real+"/srvroot.git\n",
		"gitdir: "+real+"/srvroot/../outside/out.git\n", "gitdir: "+real+"/srvroot/../srvroot-private/secret.git\n",
		"gitdir: "+real+"/srvroot/repo.git/../../outside/out.git\n")
	// links inside the root that lead out of it (the OS-level confinement of the base filesystem is what stops them),
	// named directly, through a gitfile, and as the .git entry itself
	os.Symlink("../outside/out.git", real+"/srvroot/link-out")
	os.Symlink(real+"/outside/out.git", real+"/srvroot/link-abs")
	os.MkdirAll(real+"/srvroot/gl", 0o755)
	os.Symlink("../../outside/out.git", real+"/srvroot/gl/.git")
	os.MkdirAll(real+"/srvroot/gg", 0o755)
	os.WriteFile(real+"/outside/gitfile", []byte("gitdir: "+real+"/outside/out.git\n"), 0o644)
	os.Symlink("../../outside/gitfile", real+"/srvroot/gg/.git")
	realGitfiles = append(realGitfiles, "gitdir: ../link-out\n", "gitdir: ../link-abs\n", "gitdir: ../link-out/../out.git\n")
	// repositories inside the root that borrow objects from outside it: objects/info/alternates naming the outside
	// repository's object directory, absolutely and relatively; SECRET is an object stored only outside
	secretID := ""
	{
		gs := c.GitHome().In(real + "/outside/out.git")
		secretID = gs.MustRunIn([]byte("SECRET stored only outside the root\n"), "hash-object", "-w", "--stdin").S()
		for name, alt := range map[string]string{"alt-abs.git": real + "/outside/out.git/objects\n", "alt-rel.git": "../../../outside/out.git/objects\n"} {
			c.Must(base.Dump("/srvroot/repo.git", real+"/srvroot/"+name), "dump")
			os.MkdirAll(real+"/srvroot/"+name+"/objects/info", 0o755)
			c.Must(os.WriteFile(real+"/srvroot/"+name+"/objects/info/alternates", []byte(alt), 0o644), "alternates")
		}
	}
	absReqs := []string{"alt-abs.git", "alt-rel.git", real + "/outside/out.git", real + "/srvroot-private/secret.git", real + "/srvroot.git", real + "/srvroot/../outside/out.git",
		"link-out", "/link-out", "link-abs", "gl", "gl/.git", "gg", "link-out/../../outside/out.git", "repo.git/../link-out"}
	c.Bound("osfs_extra_requests", absReqs)
	shortReq := map[string]bool{"gf": true, "/gf": true, "gf/": true, "repo/../gf": true, "repo": true, "repo.git": true, "../outside/out.git": true, "/../outside/out.git": true}
	for _, p := range absReqs {
		shortReq[p] = true
	}
	servesOutside := func(st storage.Storer) bool {
		outside := false
		if it, err := st.IterReferences(); err == nil {
			it.ForEach(func(r *plumbing.Reference) error {
				if r.Name() == "refs/heads/OUTSIDE" {
					outside = true
				}
				return nil
			})
		}
		if secretID != "" {
			if _, err := st.EncodedObject(plumbing.AnyObject, plumbing.NewHash(secretID)); err == nil {
				outside = true // an object that exists only outside the root is served
			}
			if st.HasEncodedObject(plumbing.NewHash(secretID)) == nil {
				outside = true
			}
		}
		if cl, ok := st.(interface{ Close() error }); ok {
			cl.Close()
		}
		return outside
	}
	// the HTTP server in front of the loader: the request path is percent-decoded, stripped of the service suffix and
	// parsed as an endpoint before it reaches Load
	httpGet := func(strict bool, prefix, reqPath string) (int, string) {
		b := backend.New(transport.NewFilesystemLoader(osfs.New(real+"/srvroot"), strict))
		b.Prefix = prefix
		req := httptest.NewRequest(http.MethodGet, "http://h/", nil)
		req.URL.Path = prefix + "/" + strings.TrimPrefix(reqPath, "/") + "/info/refs"
		if strings.HasPrefix(reqPath, "//") {
			req.URL.Path = prefix + reqPath + "/info/refs"
		}
		req.URL.RawQuery = "service=git-upload-pack"
		rec := httptest.NewRecorder()
		func() {
			defer func() {
				if r := recover(); r != nil {
					rec.Code = -1
					rec.Body.WriteString(fmt.Sprint("panic: ", r))
				}
			}()
			b.ServeHTTP(rec, req)
		}()
		return rec.Code, rec.Body.String()
	}
	for gi, content := range realGitfiles {
		if err := os.WriteFile(real+"/srvroot/gf/.git", []byte(content), 0o644); err != nil {
			fw.Abort("write gitfile: %v", err)
		}
		reqs := []string{"gf", "/gf", "gf/", "repo/../gf"}
		if gi == 0 {
			reqs = append(reqs, paths...)
			reqs = append(reqs, absReqs...)
		}
		for _, p := range reqs {
			for _, strict := range []bool{false, true} {
				for _, prefix := range []string{"", "/git"} {
					if prefix != "" && (gi != 0 || !shortReq[p]) {
						continue
					}
					for _, dec := range []string{p, strings.ReplaceAll(p, "%2e", "."), "/" + p} {
						if dec != p && !(strings.Contains(p, "%2e") || strings.HasPrefix(p, "/")) {
							continue
						}
						code, body := httpGet(strict, prefix, dec)
						c.Eval()
						c.Class(fmt.Sprintf("osfs|http|%d|outside=%v", code, strings.Contains(body, "refs/heads/OUTSIDE")))
						if code == -1 {
							c.Fail("HTTP backend panics", fmt.Sprintf("osfs root %s/srvroot, GET %s/info/refs strict=%v: %s", real, fw.Q(dec), strict, body), map[string]any{"path": dec, "strict": strict})
						} else if strings.Contains(body, "refs/heads/OUTSIDE") {
							c.Fail("HTTP backend serves a repository outside the root", fmt.Sprintf("osfs root %s/srvroot, GET %s%s/info/refs?service=git-upload-pack strict=%v gitfile=%s: the advertisement lists refs/heads/OUTSIDE", real, prefix, fw.Q(dec), strict, fw.Q(content)), map[string]any{"path": dec, "strict": strict, "gitfile": content})
						}
					}
				}
			}
		}
		for _, p := range reqs {
			for _, strict := range []bool{false, true} {
				l := transport.NewFilesystemLoader(osfs.New(real+"/srvroot"), strict)
				st, lerr := func() (st storage.Storer, err error) {
					defer func() {
						if r := recover(); r != nil {
							err = fmt.Errorf("panic: %v", r)
						}
					}()
					return l.Load(&url.URL{Scheme: "file", Path: p})
				}()
				c.Eval()
				if lerr != nil || st == nil {
					continue
				}
				outside := servesOutside(st)
				c.Class(fmt.Sprintf("osfs|served|outside=%v", outside))
				if outside {
					c.Fail("serves a repository outside the root", fmt.Sprintf("osfs root %s/srvroot, path=%s strict=%v gitfile=%s: the returned storer is the repository outside the root", real, fw.Q(p), strict, fw.Q(content)), map[string]any{"path": p, "strict": strict, "gitfile": content})
				}
			}
		}
	}
}

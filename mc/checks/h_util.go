package checks

// Shared helpers of batch "h" (C25, C27, C28, C30, C31, C32): tiny real
// repositories on disk (osfs) built from a template, worktree writers with
// controlled mtimes, porcelain parsing, mixed-radix case vectors and a
// deterministic coordinate-descent minimiser.

import (
	"bytes"
	"compress/zlib"
	"crypto/sha1"
	"encoding/binary"
	"encoding/hex"
	"fmt"
	"os"
	"path/filepath"
	"sort"
	"strconv"
	"strings"
	"sync"
	"syscall"

	"golang.org/x/sys/unix"

	"verifmc/fw"
)

// ---- file kinds -----------------------------------------------------------

// A "kind" is one byte describing what sits at a path:
//
//	'-' absent   '1' "one\n" 0644   '2' "two\n" 0644   'x' "one\n" 0755
//	'l' symlink -> "one"   'r' "one\r\n" 0644   '3' "three\n" 0644
func hKindSpec(k byte) (mode, data string) {
	switch k {
	case '1':
		return "100644", "one\n"
	case '2':
		return "100644", "two\n"
	case '3':
		return "100644", "three\n"
	case 'x':
		return "100755", "one\n"
	case 'l':
		return "120000", "one"
	case 'r':
		return "100644", "one\r\n"
	case 'e':
		return "100644", "" // the empty file: size 0 is also what a stat-less index entry records
	}
	panic("hKindSpec: bad kind " + string(k))
}

// hOldTime is the mtime given to worktree files: clearly older than any index
// written during the run, so that no racy-git situation arises by accident.
const hOldTime int64 = 1600000000

func hSetMtime(full string, sec int64) {
	ts := []unix.Timespec{{Sec: sec}, {Sec: sec}}
	if err := unix.UtimesNanoAt(unix.AT_FDCWD, full, ts, unix.AT_SYMLINK_NOFOLLOW); err != nil {
		fw.Abort("utimensat %s: %v", full, err)
	}
}

// hClearPath makes sure nothing occupies rel and that every parent is a
// directory (a file or symlink in the way is removed).
func hClearPath(root, rel string) {
	parts := strings.Split(rel, "/")
	cur := root
	for _, p := range parts[:len(parts)-1] {
		cur = filepath.Join(cur, p)
		if fi, err := os.Lstat(cur); err == nil && !fi.IsDir() {
			os.Remove(cur)
		}
	}
	if err := os.RemoveAll(filepath.Join(root, rel)); err != nil {
		fw.Abort("clear %s: %v", rel, err)
	}
}

// hPutBytes writes data (or a symlink when mode is 120000) at rel with mtime.
func hPutBytes(root, rel, mode string, data []byte, mtime int64) {
	hClearPath(root, rel)
	full := filepath.Join(root, rel)
	if err := os.MkdirAll(filepath.Dir(full), 0o755); err != nil {
		fw.Abort("mkdir for %s: %v", rel, err)
	}
	switch mode {
	case "120000":
		if err := os.Symlink(string(data), full); err != nil {
			fw.Abort("symlink %s: %v", rel, err)
		}
	default:
		perm := os.FileMode(0o644)
		if mode == "100755" {
			perm = 0o755
		}
		if err := os.WriteFile(full, data, perm); err != nil {
			fw.Abort("write %s: %v", rel, err)
		}
		os.Chmod(full, perm)
	}
	if mtime != 0 {
		hSetMtime(full, mtime)
	}
}

// hPut materialises kind k at rel ('-' removes it and then-empty parents are
// left alone).
func hPut(root, rel string, k byte, mtime int64) {
	if k == '-' {
		hClearPath(root, rel)
		return
	}
	mode, data := hKindSpec(k)
	hPutBytes(root, rel, mode, []byte(data), mtime)
}

// hRemoveEmptyParents removes empty parent directories of rel (like git does
// when it deletes the last file of a directory).
func hRemoveEmptyParents(root, rel string) {
	d := filepath.Dir(rel)
	for d != "." && d != "/" && d != "" {
		if err := os.Remove(filepath.Join(root, d)); err != nil {
			return
		}
		d = filepath.Dir(d)
	}
}

// ---- repository skeleton ---------------------------------------------------

type hSkelFile struct {
	rel  string
	data []byte
	perm os.FileMode
}

// hSkel is an in-memory copy of a template .git directory (packed objects,
// refs) that is stamped out once per case without spawning a process.
type hSkel struct {
	dirs  []string
	files []hSkelFile
}

func hReadSkel(gitdir string) *hSkel {
	s := &hSkel{}
	err := filepath.Walk(gitdir, func(p string, fi os.FileInfo, err error) error {
		if err != nil {
			return err
		}
		rel, _ := filepath.Rel(gitdir, p)
		if rel == "." {
			return nil
		}
		top := strings.Split(rel, string(filepath.Separator))[0]
		if top == "hooks" || top == "logs" || top == "index" || top == "config" || top == "HEAD" || top == "ORIG_HEAD" {
			if fi.IsDir() {
				return filepath.SkipDir
			}
			return nil
		}
		if fi.IsDir() {
			s.dirs = append(s.dirs, rel)
			return nil
		}
		b, err := os.ReadFile(p)
		if err != nil {
			return err
		}
		s.files = append(s.files, hSkelFile{rel, b, fi.Mode().Perm()})
		return nil
	})
	if err != nil {
		fw.Abort("read template %s: %v", gitdir, err)
	}
	return s
}

// hConfig is the per-case .git/config content.
type hConfig struct {
	FileMode bool
	AutoCRLF string // "", "input", "true"
	Extra    string // raw extra lines
}

func (cf hConfig) bytes() []byte {
	var b bytes.Buffer
	fmt.Fprintf(&b, "[core]\n\trepositoryformatversion = 0\n\tfilemode = %v\n\tbare = false\n\tlogallrefupdates = false\n", cf.FileMode)
	if cf.AutoCRLF != "" {
		fmt.Fprintf(&b, "\tautocrlf = %s\n", cf.AutoCRLF)
	}
	b.WriteString("[user]\n\tname = V Erif\n\temail = verif@example.com\n")
	b.WriteString(cf.Extra)
	return b.Bytes()
}

// instantiate creates root/.git from the skeleton; head is the content of
// HEAD ("ref: refs/heads/main"), branches maps branch -> commit id.
func (s *hSkel) instantiate(root string, cf hConfig, head string, branches map[string]string) {
	gd := filepath.Join(root, ".git")
	must := func(err error) {
		if err != nil {
			fw.Abort("instantiate %s: %v", root, err)
		}
	}
	must(os.MkdirAll(gd, 0o755))
	for _, d := range s.dirs {
		must(os.MkdirAll(filepath.Join(gd, d), 0o755))
	}
	for _, f := range s.files {
		must(os.WriteFile(filepath.Join(gd, f.rel), f.data, f.perm))
	}
	must(os.WriteFile(filepath.Join(gd, "config"), cf.bytes(), 0o644))
	must(os.WriteFile(filepath.Join(gd, "HEAD"), []byte(head+"\n"), 0o644))
	must(os.MkdirAll(filepath.Join(gd, "refs", "heads"), 0o755))
	for b, id := range branches {
		p := filepath.Join(gd, "refs", "heads", b)
		must(os.MkdirAll(filepath.Dir(p), 0o755))
		must(os.WriteFile(p, []byte(id+"\n"), 0o644))
	}
}

// hCopyTree copies a directory tree (files, symlinks, modes, mtimes of files)
// without spawning a process. Used to make the twin copy B of a state.
func hCopyTree(src, dst string) {
	err := filepath.Walk(src, func(p string, fi os.FileInfo, err error) error {
		if err != nil {
			return err
		}
		rel, _ := filepath.Rel(src, p)
		q := filepath.Join(dst, rel)
		switch {
		case fi.IsDir():
			return os.MkdirAll(q, 0o755)
		case fi.Mode()&os.ModeSymlink != 0:
			t, err := os.Readlink(p)
			if err != nil {
				return err
			}
			if err := os.Symlink(t, q); err != nil {
				return err
			}
		default:
			b, err := os.ReadFile(p)
			if err != nil {
				return err
			}
			if err := os.WriteFile(q, b, fi.Mode().Perm()); err != nil {
				return err
			}
			os.Chmod(q, fi.Mode().Perm())
		}
		ts := []unix.Timespec{unix.NsecToTimespec(fi.ModTime().UnixNano()), unix.NsecToTimespec(fi.ModTime().UnixNano())}
		return unix.UtimesNanoAt(unix.AT_FDCWD, q, ts, unix.AT_SYMLINK_NOFOLLOW)
	})
	if err != nil {
		fw.Abort("copy %s -> %s: %v", src, dst, err)
	}
}

// hSnapshotWT lists the worktree (everything except .git) as
// path -> "mode:content" (symlinks "L:target", empty dirs "D:").
func hSnapshotWT(root string) map[string]string {
	out := map[string]string{}
	filepath.Walk(root, func(p string, fi os.FileInfo, err error) error {
		if err != nil {
			return nil
		}
		rel, _ := filepath.Rel(root, p)
		if rel == "." {
			return nil
		}
		if rel == ".git" {
			if fi.IsDir() {
				return filepath.SkipDir
			}
			return nil
		}
		switch {
		case fi.IsDir():
			ents, _ := os.ReadDir(p)
			if len(ents) == 0 {
				out[rel] = "D:"
			}
		case fi.Mode()&os.ModeSymlink != 0:
			t, _ := os.Readlink(p)
			out[rel] = "L:" + t
		default:
			b, _ := os.ReadFile(p)
			x := "F:"
			if fi.Mode().Perm()&0o100 != 0 {
				x = "X:"
			}
			out[rel] = x + string(b)
		}
		return nil
	})
	return out
}

func hMapString(m map[string]string) string {
	var ks []string
	for k := range m {
		ks = append(ks, k)
	}
	sort.Strings(ks)
	var b strings.Builder
	for _, k := range ks {
		fmt.Fprintf(&b, "%s=%q ", k, m[k])
	}
	return strings.TrimSpace(b.String())
}

// hParsePorcelainZ parses `git status --porcelain=v1 -z --no-renames`.
func hParsePorcelainZ(out []byte) map[string]string {
	m := map[string]string{}
	for _, rec := range bytes.Split(out, []byte{0}) {
		if len(rec) < 4 {
			continue
		}
		m[string(rec[3:])] = string(rec[:2])
	}
	return m
}

// ---- case vectors ------------------------------------------------------------

// hVecAt decodes index i into a mixed-radix vector (last dimension fastest).
func hVecAt(dims []int, i int) []int {
	v := make([]int, len(dims))
	for k := len(dims) - 1; k >= 0; k-- {
		v[k] = i % dims[k]
		i /= dims[k]
	}
	return v
}

func hVecCount(dims []int) int {
	n := 1
	for _, d := range dims {
		n *= d
	}
	return n
}

// hFailures collects failing cases during a parallel run; report() then
// minimises one representative per signature deterministically.
type hFailures struct {
	mu    sync.Mutex
	fails []hFailCase
}

type hFailCase struct {
	ord  int // deterministic order key of the case
	vec  []int
	sig  string // what disagreed (e.g. "a: A/AM")
	hint string // extra grouping key (e.g. the state of the disagreeing path) so that different causes of the same signature get their own representative
}

func (f *hFailures) add(ord int, vec []int, sig string) { f.addHint(ord, vec, sig, "") }

func (f *hFailures) addHint(ord int, vec []int, sig, hint string) {
	f.mu.Lock()
	f.fails = append(f.fails, hFailCase{ord, append([]int{}, vec...), sig, hint})
	f.mu.Unlock()
}

func (f *hFailures) n() int { f.mu.Lock(); defer f.mu.Unlock(); return len(f.fails) }

// hMinVec lowers every coordinate as far as possible (0 = simplest) while
// fails() stays true; deterministic coordinate descent to a fixpoint.
func hMinVec(vec []int, fails func([]int) bool) []int {
	cur := append([]int{}, vec...)
	for changed := true; changed; {
		changed = false
		for i := range cur {
			for v := 0; v < cur[i]; v++ {
				cand := append([]int{}, cur...)
				cand[i] = v
				if fails(cand) {
					cur = cand
					changed = true
					break
				}
			}
		}
	}
	return cur
}

// report groups the failures by signature, minimises the first case (lowest
// ord) of every group with sigOf (returns "" when the case passes; a candidate
// counts as "the same failure" when its signature shares a disagreement token
// with the original), and records one c.Fail per distinct minimal case.
func (f *hFailures) report(c *fw.Ctx, sigOf func(vec []int) string, render func(vec []int) string) {
	f.mu.Lock()
	groups := map[string]hFailCase{}
	counts := map[string]int{}
	for _, fc := range f.fails {
		gk := fc.sig + "|" + fc.hint
		counts[gk]++
		if g, ok := groups[gk]; !ok || fc.ord < g.ord {
			groups[gk] = fc
		}
	}
	f.mu.Unlock()
	var sigs []string
	for s := range groups {
		sigs = append(sigs, s)
	}
	sort.Strings(sigs)
	type res struct {
		key, what string
		replay    map[string]any
		n         int
	}
	results := make([]res, len(sigs))
	// minimisations of different groups revisit the same small vectors: memoise
	var memoMu sync.Mutex
	memo := map[string]string{}
	rawSigOf := sigOf
	sigOf = func(v []int) string {
		k := fmt.Sprint(v)
		memoMu.Lock()
		s, ok := memo[k]
		memoMu.Unlock()
		if ok {
			return s
		}
		s = rawSigOf(v)
		memoMu.Lock()
		memo[k] = s
		memoMu.Unlock()
		return s
	}
	var wg sync.WaitGroup
	sem := make(chan struct{}, 8)
	for gi, s := range sigs {
		wg.Add(1)
		sem <- struct{}{}
		go func(gi int, s string) {
			defer wg.Done()
			defer func() { <-sem }()
			fc := groups[s]
			s = fc.sig
			want := hSigTokens(s)
			same := func(sig string) bool {
				if sig == "" {
					return false
				}
				for t := range hSigTokens(sig) {
					if want[t] {
						return true
					}
				}
				return false
			}
			min := hMinVec(fc.vec, func(v []int) bool { return same(sigOf(v)) })
			msig := sigOf(min)
			if msig == "" { // not reproducible: keep the original (flaky oracle would be an engine problem)
				min, msig = fc.vec, s
			}
			key := render(min) + " => " + hSigKinds(msig)
			results[gi] = res{key, fmt.Sprintf("%s (minimised from %s: %s)", msig, render(fc.vec), s),
				map[string]any{"minimal": render(min), "minimal_vec": min, "original": render(fc.vec), "original_vec": fc.vec, "disagreement": msig}, counts[fc.sig+"|"+fc.hint]}
		}(gi, s)
	}
	wg.Wait()
	for _, r := range results {
		for i := 0; i < r.n; i++ {
			c.Fail(r.key, r.what, r.replay)
		}
	}
}

// A signature is "item;item;..." with item = "<path>:<expected>/<got>"; the
// token of an item is "<expected>/<got>" (path-independent).
func hSigTokens(sig string) map[string]bool {
	m := map[string]bool{}
	for _, it := range strings.Split(sig, ";") {
		if i := strings.LastIndex(it, ":"); i >= 0 {
			m[it[i+1:]] = true
		} else if it != "" {
			m[it] = true
		}
	}
	return m
}

func hSigKinds(sig string) string {
	var ks []string
	for k := range hSigTokens(sig) {
		ks = append(ks, k)
	}
	sort.Strings(ks)
	return strings.Join(ks, ",")
}

// hDiffMaps renders the disagreement between expected and got as a signature
// ("" when equal). Missing entries are shown as "∅".
func hDiffMaps(want, got map[string]string) string {
	keys := map[string]bool{}
	for k := range want {
		keys[k] = true
	}
	for k := range got {
		keys[k] = true
	}
	var ks []string
	for k := range keys {
		ks = append(ks, k)
	}
	sort.Strings(ks)
	var items []string
	for _, k := range ks {
		w, okw := want[k]
		g, okg := got[k]
		if !okw {
			w = "∅"
		}
		if !okg {
			g = "∅"
		}
		if w != g {
			items = append(items, fmt.Sprintf("%s:%s/%s", k, w, g))
		}
	}
	return strings.Join(items, ";")
}

// ---- index writer ---------------------------------------------------------------

// hBlobID is git's object id of a blob (sha1 of "blob <n>\0" + data).
func hBlobID(data []byte) string {
	h := sha1.New()
	fmt.Fprintf(h, "blob %d\x00", len(data))
	h.Write(data)
	return hex.EncodeToString(h.Sum(nil))
}

// hIdxEntry is one stage-0 index entry. StatOf, when not empty, is the path
// (relative to the worktree root) whose lstat data is recorded, exactly what
// `git update-index --refresh` stores for an up-to-date entry; otherwise the
// stat fields are zero (what read-tree / --cacheinfo leave behind).
type hIdxEntry struct {
	Path   string
	Mode   uint32 // 0100644, 0100755, 0120000, 0160000
	OID    string // hex
	StatOf string
	ITA    bool
	SkipWT bool
}

// hWriteIndex writes root/.git/index (version 2, or 3 when an entry needs
// extended flags) in git's documented on-disk format. The file is read back by
// real git in every case (git status / ls-files abort on a malformed index),
// so the writer cannot silently drift from the format.
func hWriteIndex(root string, ents []hIdxEntry) {
	sort.Slice(ents, func(i, j int) bool { return ents[i].Path < ents[j].Path })
	ver := uint32(2)
	for _, e := range ents {
		if e.ITA || e.SkipWT {
			ver = 3
		}
	}
	var b bytes.Buffer
	b.WriteString("DIRC")
	binary.Write(&b, binary.BigEndian, ver)
	binary.Write(&b, binary.BigEndian, uint32(len(ents)))
	for _, e := range ents {
		start := b.Len()
		var f [10]uint32
		if e.StatOf != "" {
			var st syscall.Stat_t
			if err := syscall.Lstat(filepath.Join(root, e.StatOf), &st); err != nil {
				fw.Abort("lstat %s: %v", e.StatOf, err)
			}
			f = [10]uint32{uint32(st.Ctim.Sec), uint32(st.Ctim.Nsec), uint32(st.Mtim.Sec), uint32(st.Mtim.Nsec),
				uint32(st.Dev), uint32(st.Ino), 0, st.Uid, st.Gid, uint32(st.Size)}
		}
		f[6] = e.Mode
		binary.Write(&b, binary.BigEndian, f)
		id, err := hex.DecodeString(e.OID)
		if err != nil || len(id) != 20 {
			fw.Abort("bad oid %q", e.OID)
		}
		b.Write(id)
		flags := uint16(len(e.Path))
		if len(e.Path) > 0xfff {
			flags = 0xfff
		}
		ext := uint16(0)
		if e.ITA {
			ext |= 0x2000
		}
		if e.SkipWT {
			ext |= 0x4000
		}
		if ext != 0 {
			flags |= 0x4000
		}
		binary.Write(&b, binary.BigEndian, flags)
		if ext != 0 {
			binary.Write(&b, binary.BigEndian, ext)
		}
		b.WriteString(e.Path)
		b.WriteByte(0)
		for (b.Len()-start)%8 != 0 {
			b.WriteByte(0)
		}
	}
	sum := sha1.Sum(b.Bytes())
	b.Write(sum[:])
	if err := os.WriteFile(filepath.Join(root, ".git", "index"), b.Bytes(), 0o644); err != nil {
		fw.Abort("write index: %v", err)
	}
}

func hKindMode(k byte) uint32 {
	switch k {
	case 'x':
		return 0o100755
	case 'l':
		return 0o120000
	}
	return 0o100644
}

func hKindOID(k byte) string {
	_, data := hKindSpec(k)
	return hBlobID([]byte(data))
}

// hStatusColumns splits an XY disagreement map into per-column tokens so that
// e.g. (git "A ", go-git "AM") and (git clean, go-git " M") are recognised as
// the same worktree-column disagreement ' '->'M'.
func hDiffStatus(want, got map[string]string) string {
	keys := map[string]bool{}
	for k := range want {
		keys[k] = true
	}
	for k := range got {
		keys[k] = true
	}
	var ks []string
	for k := range keys {
		ks = append(ks, k)
	}
	sort.Strings(ks)
	var items []string
	for _, k := range ks {
		w, okw := want[k]
		g, okg := got[k]
		if !okw {
			w = "  "
		}
		if !okg {
			g = "  "
		}
		if w == g {
			continue
		}
		if w[0] != g[0] {
			items = append(items, fmt.Sprintf("%s:X'%c'/'%c'", k, w[0], g[0]))
		}
		if w[1] != g[1] {
			items = append(items, fmt.Sprintf("%s:Y'%c'/'%c'", k, w[1], g[1]))
		}
	}
	return strings.Join(items, ";")
}

// hCall runs a go-git call and turns a panic inside it into an error (a panic
// in go-git is a property violation, never an engine error).
func hCall(f func() error) (err error) {
	defer func() {
		if r := recover(); r != nil {
			err = fmt.Errorf("PANIC in go-git: %v", r)
		}
	}()
	return f()
}

func hPanicked(err error) bool {
	return err != nil && strings.HasPrefix(err.Error(), "PANIC in go-git")
}

// ---- loose object writer ------------------------------------------------------

// hWriteLoose stores an object as a loose file (zlib of "<type> <len>\0" +
// data) and returns its id. Objects written this way are read back by real
// git in the same case, so a malformed object cannot go unnoticed.
func hWriteLoose(gitdir, typ string, data []byte) string {
	hdr := fmt.Sprintf("%s %d\x00", typ, len(data))
	h := sha1.New()
	h.Write([]byte(hdr))
	h.Write(data)
	id := hex.EncodeToString(h.Sum(nil))
	dir := filepath.Join(gitdir, "objects", id[:2])
	if err := os.MkdirAll(dir, 0o755); err != nil {
		fw.Abort("mkdir %s: %v", dir, err)
	}
	var b bytes.Buffer
	zw := zlib.NewWriter(&b)
	zw.Write([]byte(hdr))
	zw.Write(data)
	zw.Close()
	if err := os.WriteFile(filepath.Join(dir, id[2:]), b.Bytes(), 0o444); err != nil && !os.IsExist(err) && !os.IsPermission(err) {
		fw.Abort("write object %s: %v", id, err)
	}
	return id
}

type hTreeEnt struct {
	Mode string // "100644", "100755", "120000", "40000"
	Name string
	ID   string
}

// hTreeData encodes a tree object body (entries must not nest; names sorted the
// way git sorts them, directories as if they ended with '/').
func hTreeData(ents []hTreeEnt) []byte {
	key := func(e hTreeEnt) string {
		if e.Mode == "40000" {
			return e.Name + "/"
		}
		return e.Name
	}
	sort.Slice(ents, func(i, j int) bool { return key(ents[i]) < key(ents[j]) })
	var b bytes.Buffer
	for _, e := range ents {
		id, _ := hex.DecodeString(e.ID)
		fmt.Fprintf(&b, "%s %s\x00", e.Mode, e.Name)
		b.Write(id)
	}
	return b.Bytes()
}

func hCommitData(tree string, parents []string, msg string) []byte {
	var b bytes.Buffer
	fmt.Fprintf(&b, "tree %s\n", tree)
	for _, p := range parents {
		fmt.Fprintf(&b, "parent %s\n", p)
	}
	b.WriteString("author A U Thor <author@example.com> 1700000000 +0000\ncommitter C O Mitter <committer@example.com> 1700000000 +0000\n\n")
	b.WriteString(msg)
	return b.Bytes()
}

// hParallel runs f(0..n-1) on at most k goroutines, ignoring the check's
// deadline (used to minimise and report failures that were already found).
func hParallel(n, k int, f func(i int)) {
	var wg sync.WaitGroup
	sem := make(chan struct{}, k)
	for i := 0; i < n; i++ {
		wg.Add(1)
		sem <- struct{}{}
		go func(i int) {
			defer wg.Done()
			defer func() { <-sem }()
			f(i)
		}(i)
	}
	wg.Wait()
}

// ---- single-case replay (development and triage aid) --------------------------

// hDevVec returns the vector given in $VERIF_H_VEC ("1,0,2,...") or nil. A
// check that sees one runs only that case, prints what it observed and keeps a
// copy of the case directories under $VERIF_H_KEEP (when set).
func hDevVec() []int {
	s := os.Getenv("VERIF_H_VEC")
	if s == "" {
		return nil
	}
	var v []int
	for _, f := range strings.Split(s, ",") {
		n, err := strconv.Atoi(strings.TrimSpace(f))
		if err != nil {
			fw.Abort("bad VERIF_H_VEC %q", s)
		}
		v = append(v, n)
	}
	return v
}

// hKeep copies a case directory to $VERIF_H_KEEP/<name> when that is set.
func hKeep(root, name string) {
	if k := os.Getenv("VERIF_H_KEEP"); k != "" && hDevVec() != nil {
		dst := filepath.Join(k, name)
		os.RemoveAll(dst)
		hCopyTree(root, dst)
	}
}

// hSpread maps the i-th executed case to a case index so that a run cut short
// by the deadline has touched every region of the space (a fixed bijection of
// [0,n): multiplication by a prime that does not divide n).
func hSpread(i, n int) int {
	if n < 2 {
		return i
	}
	p := 7919
	for n%p == 0 {
		p += 2
		for !hIsPrime(p) {
			p += 2
		}
	}
	return int((int64(i) * int64(p)) % int64(n))
}

func hIsPrime(p int) bool {
	for d := 2; d*d <= p; d++ {
		if p%d == 0 {
			return false
		}
	}
	return p > 1
}

// hReportClasses reports one violation key per class (the hint of each failure):
// used when one defect shows up at many paths / shapes and a predicate on the
// case names the defect better than a minimal vector. The lowest-numbered case
// of each class is kept as the example.
func hReportClasses(c *fw.Ctx, f *hFailures, render func([]int) string) {
	f.mu.Lock()
	type ex struct {
		ord int
		vec []int
		sig string
		n   int
	}
	classes := map[string]*ex{}
	for _, fc := range f.fails {
		x := classes[fc.hint]
		if x == nil {
			x = &ex{ord: fc.ord, vec: fc.vec, sig: fc.sig}
			classes[fc.hint] = x
		}
		if fc.ord < x.ord {
			x.ord, x.vec, x.sig = fc.ord, fc.vec, fc.sig
		}
		x.n++
	}
	f.mu.Unlock()
	var ks []string
	for k := range classes {
		ks = append(ks, k)
	}
	sort.Strings(ks)
	for _, k := range ks {
		x := classes[k]
		for i := 0; i < x.n; i++ {
			c.Fail(k, fmt.Sprintf("%s; first case: %s: %s", k, render(x.vec), x.sig), map[string]any{"first_case": render(x.vec), "vec": x.vec, "disagreement": x.sig})
		}
	}
}

// hReadLooseCommit reads tree and parents of a commit stored as a loose object
// (ok=false when it is not loose, e.g. packed).
func hReadLooseCommit(gitdir, id string) (tree string, parents []string, ok bool) {
	if len(id) < 40 {
		return "", nil, false
	}
	f, err := os.Open(filepath.Join(gitdir, "objects", id[:2], id[2:]))
	if err != nil {
		return "", nil, false
	}
	defer f.Close()
	zr, err := zlib.NewReader(f)
	if err != nil {
		return "", nil, false
	}
	var b bytes.Buffer
	if _, err := b.ReadFrom(zr); err != nil {
		return "", nil, false
	}
	data := b.Bytes()
	i := bytes.IndexByte(data, 0)
	if i < 0 || !bytes.HasPrefix(data, []byte("commit ")) {
		return "", nil, false
	}
	for _, l := range strings.Split(string(data[i+1:]), "\n") {
		switch {
		case strings.HasPrefix(l, "tree "):
			tree = strings.TrimPrefix(l, "tree ")
		case strings.HasPrefix(l, "parent "):
			parents = append(parents, strings.TrimPrefix(l, "parent "))
		case l == "":
			return tree, parents, tree != ""
		}
	}
	return tree, parents, tree != ""
}

package checks

// C53 decoder table: how each decoder of untrusted input is driven, its
// reduced alphabet, templates and literal seeds.

import (
	"bufio"
	"bytes"
	"crypto"
	"errors"
	"fmt"
	"io"
	"io/fs"
	"strings"
	"testing/fstest"
	"time"

	"github.com/go-git/go-git/v6/config"
	"github.com/go-git/go-git/v6/plumbing"
	"github.com/go-git/go-git/v6/plumbing/format/commitgraph"
	fconfig "github.com/go-git/go-git/v6/plumbing/format/config"
	"github.com/go-git/go-git/v6/plumbing/format/gitignore"
	"github.com/go-git/go-git/v6/plumbing/format/idxfile"
	"github.com/go-git/go-git/v6/plumbing/format/index"
	"github.com/go-git/go-git/v6/plumbing/format/objfile"
	"github.com/go-git/go-git/v6/plumbing/format/packfile"
	"github.com/go-git/go-git/v6/plumbing/format/packfile/util"
	"github.com/go-git/go-git/v6/plumbing/format/pktline"
	"github.com/go-git/go-git/v6/plumbing/format/reflog"
	"github.com/go-git/go-git/v6/plumbing/format/revfile"
	"github.com/go-git/go-git/v6/plumbing/hash"
	"github.com/go-git/go-git/v6/plumbing/object"
	"github.com/go-git/go-git/v6/plumbing/protocol/capability"
	"github.com/go-git/go-git/v6/plumbing/protocol/packp"
	"github.com/go-git/go-git/v6/plumbing/protocol/packp/sideband"
	"github.com/go-git/go-git/v6/x/verif/bridge"
)

// c53Budget is the panic value raised by a counting source when a decoder
// exceeds its step budget (number of Read/ReadAt/Seek calls).
type c53Budget struct{ steps int }

// c53Lim hands out counting sources for one case.
type c53Lim struct {
	steps  int
	budget int
}

func (l *c53Lim) step() {
	l.steps++
	if l.steps > l.budget {
		panic(c53Budget{l.steps})
	}
}

// c53Stream is a plain io.Reader (a network stream).
type c53Stream struct {
	l    *c53Lim
	data []byte
	pos  int
}

func (s *c53Stream) Read(p []byte) (int, error) {
	s.l.step()
	if s.pos >= len(s.data) {
		return 0, io.EOF
	}
	n := copy(p, s.data[s.pos:])
	s.pos += n
	return n, nil
}

// c53File is a seekable, ReadAt-able source (a file).
type c53File struct {
	c53Stream
}

func (f *c53File) ReadAt(p []byte, off int64) (int, error) {
	f.l.step()
	if off < 0 {
		return 0, errors.New("negative offset")
	}
	if off >= int64(len(f.data)) {
		return 0, io.EOF
	}
	n := copy(p, f.data[off:])
	if n < len(p) {
		return n, io.EOF
	}
	return n, nil
}

func (f *c53File) Seek(off int64, whence int) (int64, error) {
	f.l.step()
	var abs int64
	switch whence {
	case io.SeekStart:
		abs = off
	case io.SeekCurrent:
		abs = int64(f.pos) + off
	case io.SeekEnd:
		abs = int64(len(f.data)) + off
	default:
		return 0, errors.New("bad whence")
	}
	if abs < 0 {
		return 0, errors.New("negative position")
	}
	if abs > int64(len(f.data)) {
		f.pos = len(f.data)
	} else {
		f.pos = int(abs)
	}
	return abs, nil
}

func (f *c53File) Close() error { return nil }

// c53PackFile is the counting file as a billy.File (what packfile.NewPackfile takes).
type c53PackFile struct{ *c53File }

type c53Info struct{ n int64 }

func (i c53Info) Name() string       { return "p.pack" }
func (i c53Info) Size() int64        { return i.n }
func (i c53Info) Mode() fs.FileMode  { return 0o444 }
func (i c53Info) ModTime() time.Time { return time.Time{} }
func (i c53Info) IsDir() bool        { return false }
func (i c53Info) Sys() any           { return nil }

func (f c53PackFile) Stat() (fs.FileInfo, error)         { return c53Info{int64(len(f.data))}, nil }
func (f c53PackFile) Name() string                       { return "p.pack" }
func (f c53PackFile) Write([]byte) (int, error)          { return 0, errors.New("read-only") }
func (f c53PackFile) WriteAt([]byte, int64) (int, error) { return 0, errors.New("read-only") }
func (f c53PackFile) Truncate(int64) error               { return errors.New("read-only") }

// c53Bundle joins an idx and its pack into one input: 2-byte big-endian idx
// length, idx, pack. The random-access decoder takes it apart again, so that
// the neighbourhoods mutate the pack under a valid idx, the idx over a valid
// pack, and the split point.
func c53Bundle(idx, pack []byte) []byte {
	b := []byte{byte(len(idx) >> 8), byte(len(idx))}
	return append(append(b, idx...), pack...)
}

// c53RandomAccess opens the pack through packfile.Packfile (the path used for
// every object read from a packed repository) and reads every object the idx
// lists, by id and by offset, and then all of them through the iterator.
func c53RandomAccess(d []byte, l *c53Lim) error {
	if len(d) < 2 {
		return errors.New("short bundle")
	}
	n := int(d[0])<<8 | int(d[1])
	if n > len(d)-2 {
		return errors.New("short bundle")
	}
	idxData, pack := d[2:2+n], d[2+n:]
	in, err := fstest.MapFS{"idx": {Data: idxData}}.Open("idx")
	if err != nil {
		return err
	}
	idx := new(idxfile.MemoryIndex)
	if err := idxfile.NewDecoder(in.(interface {
		io.Reader
		Stat() (fs.FileInfo, error)
	}), hash.New(crypto.SHA1)).Decode(idx); err != nil {
		return err
	}
	pf := packfile.NewPackfile(c53PackFile{l.file(pack)}, packfile.WithIdx(idx))
	defer pf.Close()
	var first error
	note := func(err error) {
		if err != nil && first == nil {
			first = err
		}
	}
	read := func(o plumbing.EncodedObject, err error) {
		note(err)
		if err != nil || o == nil {
			return
		}
		r, err := o.Reader()
		note(err)
		if err == nil {
			_, err = io.Copy(io.Discard, io.LimitReader(r, 1<<22))
			note(err)
			_ = r.Close()
		}
	}
	if iter, err := idx.Entries(); err == nil {
		for range 64 {
			e, err := iter.Next()
			if err != nil {
				break
			}
			read(pf.Get(e.Hash))
			read(pf.GetByOffset(int64(e.Offset)))
			_, err = pf.GetSizeByOffset(int64(e.Offset))
			note(err)
		}
		_ = iter.Close()
	}
	if it, err := pf.GetAll(); err == nil {
		for range 64 {
			o, err := it.Next()
			if err != nil {
				break
			}
			read(o, nil)
		}
		it.Close()
	} else {
		note(err)
	}
	return first
}

func (l *c53Lim) stream(d []byte) *c53Stream { return &c53Stream{l: l, data: d} }
func (l *c53Lim) file(d []byte) *c53File     { return &c53File{c53Stream{l: l, data: d}} }

// c53Tpl embeds an enumerated string: pre+s+post, optionally framed as one
// pkt-line followed by tail (which is appended verbatim).
type c53Tpl struct {
	pre, post string
	pkt       bool
	tail      string
}

func (t c53Tpl) make(s string) []byte {
	body := t.pre + s + t.post
	if !t.pkt {
		return []byte(body + t.tail)
	}
	return []byte(fmt.Sprintf("%04x", len(body)+4) + body + t.tail)
}

type c53Decoder struct {
	name  string
	run   func(d []byte, l *c53Lim) error
	alpha []string
	tpls  []c53Tpl
	seeds []string // literal seeds
	files []string // seed files (generated with git / go-git by the parent) by name
}

func c53Pk[T any, PT interface {
	*T
	Decode(io.Reader) error
}]() func([]byte, *c53Lim) error {
	return func(d []byte, l *c53Lim) error {
		var v T
		return PT(&v).Decode(l.stream(d))
	}
}

func c53Obj(t plumbing.ObjectType, dec func(o plumbing.EncodedObject) error) func([]byte, *c53Lim) error {
	return func(d []byte, _ *c53Lim) error {
		mo := &plumbing.MemoryObject{}
		mo.SetType(t)
		_, _ = mo.Write(d)
		return dec(mo)
	}
}

func c53IdxExercise(idx idxfile.Index) {
	testHash := plumbing.NewHash("abcdef1234567890abcdef1234567890abcdef12")
	_, _ = idx.Contains(testHash)
	_, _ = idx.FindOffset(testHash)
	_, _ = idx.FindCRC32(testHash)
	_, _ = idx.FindHash(42)
	_, _ = idx.FindHash(12)
	_, _ = idx.Count()
	if iter, err := idx.Entries(); err == nil {
		for range 100 {
			e, err := iter.Next()
			if err != nil {
				break
			}
			_, _ = idx.FindOffset(e.Hash)
			_, _ = idx.FindHash(int64(e.Offset))
		}
		_ = iter.Close()
	}
	if iter, err := idx.EntriesByOffset(); err == nil {
		for range 100 {
			if _, err := iter.Next(); err != nil {
				break
			}
		}
		_ = iter.Close()
	}
}

func c53Lazy(idxData, revData []byte, l *c53Lim) error {
	var packHash plumbing.Hash
	for _, hs := range []int{20, 32} {
		if len(idxData) >= hs*2 {
			packHash.ResetBySize(hs)
			_, _ = packHash.Write(idxData[len(idxData)-hs*2 : len(idxData)-hs])
		}
	}
	openIdx := func() (idxfile.ReadAtCloser, error) { return l.file(idxData), nil }
	var openRev func() (idxfile.ReadAtCloser, error)
	if len(revData) > 0 {
		openRev = func() (idxfile.ReadAtCloser, error) { return l.file(revData), nil }
	}
	idx, err := idxfile.NewLazyIndex(openIdx, openRev, packHash)
	if err != nil {
		return err
	}
	defer idx.Close()
	c53IdxExercise(idx)
	return nil
}

const c53H = "6ecf0ef2c2dffb796033e5a02219af86ec6584e5"
const c53H2 = "1111111111111111111111111111111111111111"

var c53Zero40 = strings.Repeat("0", 40)

func c53P(s string) string { return fmt.Sprintf("%04x%s", len(s)+4, s) }

// c53FixedIdx / c53FixedRev are filled from the seed directory (valid idx and
// rev of the same pack) for the two-input lazy index decoder.
var c53FixedIdx, c53FixedRev []byte

func c53Decoders() []*c53Decoder {
	text := []string{"a", " ", "\n", "\x00", "<", ">", "-", "1"}
	pkta := []string{"a", " ", "\n", "\x00", "0", "=", "f", ":"}
	bin := []string{"\x00", "\x01", "\x7f", "\x80", "\xff", "a"}
	P := func(pre string) c53Tpl { return c53Tpl{pre: pre, pkt: true, tail: "0000"} }
	raw := c53Tpl{}
	ds := []*c53Decoder{
		{name: "object/commit", alpha: text, tpls: []c53Tpl{raw, {pre: "tree " + c53Zero40 + "\n"}, {pre: "tree " + c53Zero40 + "\nauthor a <a> 0 +0000\ncommitter c <c> ", post: "\n\nm\n"}, {pre: "tree " + c53Zero40 + "\ngpgsig ", post: "\n\nm"}},
			run: c53Obj(plumbing.CommitObject, func(o plumbing.EncodedObject) error { return (&object.Commit{}).Decode(o) }),
			seeds: []string{"tree " + c53Zero40 + "\nauthor a <a> 0 +0000\ncommitter c <c> 0 +0000\n\nmsg\n",
				"tree " + c53Zero40 + "\nparent " + c53H + "\nparent " + c53H2 + "\nauthor A U Thor <a@x> 1700000000 -0130\ncommitter C <c@x> 1700000000 +0000\nencoding ISO-8859-1\ngpgsig -----BEGIN PGP SIGNATURE-----\n \n abc\n -----END PGP SIGNATURE-----\nmergetag object " + c53H + "\n type commit\n\nsubject\n\nbody\n"},
			files: []string{"commit.obj", "commit-merge.obj"}},
		{name: "object/tree", alpha: []string{"1", "0", "4", " ", "a", "\x00", "/", "\xff"}, tpls: []c53Tpl{raw, {pre: "100644 a\x00" + string(make([]byte, 20))}, {pre: "40000 ", post: "\x00" + string(make([]byte, 20))}},
			run:   c53Obj(plumbing.TreeObject, func(o plumbing.EncodedObject) error { return (&object.Tree{}).Decode(o) }),
			seeds: []string{"100644 a\x00" + string(make([]byte, 20)), "100644 a\x00" + string(make([]byte, 20)) + "40000 b\x00" + strings.Repeat("\x11", 20) + "160000 c\x00" + strings.Repeat("\x22", 20)},
			files: []string{"tree.obj"}},
		{name: "object/tag", alpha: text, tpls: []c53Tpl{raw, {pre: "object " + c53Zero40 + "\ntype "}, {pre: "object " + c53Zero40 + "\ntype commit\ntag v\ntagger t <t> ", post: "\n\nm\n"}},
			run:   c53Obj(plumbing.TagObject, func(o plumbing.EncodedObject) error { return (&object.Tag{}).Decode(o) }),
			seeds: []string{"object " + c53Zero40 + "\ntype commit\ntag v1\ntagger t <t> 0 +0000\n\nmsg\n", "object " + c53H + "\ntype tag\ntag v2\ntagger T <t@x> 1700000000 +0100\n\nmsg\n-----BEGIN PGP SIGNATURE-----\n\nabc\n-----END PGP SIGNATURE-----\n"},
			files: []string{"tag.obj"}},
		{name: "object/blob", alpha: bin, tpls: []c53Tpl{raw},
			run: c53Obj(plumbing.BlobObject, func(o plumbing.EncodedObject) error {
				b := &object.Blob{}
				if err := b.Decode(o); err != nil {
					return err
				}
				r, err := b.Reader()
				if err != nil {
					return err
				}
				_, err = io.Copy(io.Discard, r)
				return err
			}), seeds: []string{"hello\x00world\x01\x02"}},
		{name: "object/signature", alpha: text, tpls: []c53Tpl{raw, {pre: "A <a@b> "}, {pre: "A <a@b> 1 +"}},
			run: func(d []byte, _ *c53Lim) error {
				var s object.Signature
				s.Decode(d)
				_ = s.String()
				return nil
			}, seeds: []string{"A U Thor <author@example.com> 1700000000 +0000", "A <a@b> 1 -0130"}},
		{name: "object/signed-bytes", alpha: []string{"-", "B", "\n", " ", "a", "E"}, tpls: []c53Tpl{raw, {pre: "x\n-----BEGIN PGP SIGNATURE-----\n", post: "-----END PGP SIGNATURE-----"}},
			run:   func(d []byte, _ *c53Lim) error { object.VerifParseSignedBytes(d); return nil },
			seeds: []string{"msg\n-----BEGIN PGP SIGNATURE-----\n\nabc\n-----END PGP SIGNATURE-----\n", "m\n-----BEGIN SSH SIGNATURE-----\nabc\n-----END SSH SIGNATURE-----\n", "m\n-----BEGIN SIGNED MESSAGE-----\nabc\n-----END SIGNED MESSAGE-----\n"}},
		{name: "objfile/reader", alpha: []string{"\x78", "\x9c", "\x01", "\x00", "\xff", "\x4b"}, tpls: []c53Tpl{raw, {pre: "\x78\x9c"}},
			run: func(d []byte, l *c53Lim) error {
				r, err := objfile.NewReader(l.stream(d), fconfig.SHA1)
				if err != nil {
					return err
				}
				defer r.Close()
				if _, _, err = r.Header(); err != nil {
					return err
				}
				if _, err = io.Copy(io.Discard, r); err != nil {
					return err
				}
				_ = r.Hash()
				return nil
			}, files: []string{"loose-blob.z", "loose-commit.z", "loose-tree.z", "loose-bigheader.z", "loose-hugesize.z"}},
		{name: "packfile/parser-stream", alpha: bin, tpls: []c53Tpl{raw, {pre: "PACK\x00\x00\x00\x02\x00\x00\x00\x01"}, {pre: "PACK\x00\x00\x00\x02", post: "\x30\x78\x9c\x03\x00\x00\x00\x00\x01"}},
			run:   func(d []byte, l *c53Lim) error { _, err := packfile.NewParser(l.stream(d)).Parse(); return err },
			files: []string{"pack-small.pack", "pack-delta.pack", "pack-refdelta.pack", "pack-empty.pack", "pack-overflow.pack"}},
		{name: "packfile/parser-file", alpha: bin, tpls: []c53Tpl{{pre: "PACK\x00\x00\x00\x02\x00\x00\x00\x02"}},
			run:   func(d []byte, l *c53Lim) error { _, err := packfile.NewParser(l.file(d)).Parse(); return err },
			files: []string{"pack-small.pack", "pack-delta.pack", "pack-refdelta.pack"}},
		{name: "packfile/scanner", alpha: bin, tpls: []c53Tpl{raw, {pre: "PACK\x00\x00\x00\x02\x00\x00\x00\x01"}},
			run: func(d []byte, l *c53Lim) error {
				s := packfile.NewScanner(l.file(d))
				for s.Scan() {
					dd := s.Data()
					_ = dd.Section
					_ = dd.Value()
				}
				return s.Error()
			}, files: []string{"pack-small.pack", "pack-delta.pack", "pack-ofsself.pack", "pack-empty.pack"}},
		{name: "packfile/random-access", alpha: bin, tpls: []c53Tpl{raw},
			run: c53RandomAccess, files: []string{"bundle-small.bin", "bundle-delta.bin", "bundle-refdelta.bin", "bundle-selfref.bin", "bundle-refcycle.bin", "bundle-ofszero.bin"}},
		{name: "packfile/patch-delta", alpha: []string{"\x00", "\x01", "\x0a", "\x7f", "\x80", "\x90", "\xff", "a"}, tpls: []c53Tpl{raw, {pre: "\x0a"}, {pre: "\x0a\x0a"}},
			run:   func(d []byte, _ *c53Lim) error { _, err := packfile.PatchDelta([]byte("some value"), d); return err },
			seeds: []string{"\n\f\fsomenewvalue", "\n\x0e\x0evalue", "\n\x0e\x0eva", "\n\x80\x80\x80\x80\x80\x802\x7fvalue", "\n\n\aBBBBBBB\aCCCCCCC", "\n\n\x90\a\x90\a", "\n\x0e\x91\x00\x04\x0a value", "\n\x14\xb1\x00\x0a\x00\x90\x0a"}},
		{name: "packfile/varint", alpha: bin, tpls: []c53Tpl{raw},
			run: func(d []byte, l *c53Lim) error {
				_, _, _ = util.DecodeLEB128(d)
				if len(d) > 0 {
					_, err := util.VariableLengthSize(d[0], bufio.NewReader(l.stream(d[1:])))
					return err
				}
				return nil
			}, seeds: []string{"\x90\x80\x80\x80\x80\x80\x80\x80\x80\x80", "\x80\x01", strings.Repeat("\x80", 12)}},
		{name: "idxfile/memory", alpha: bin, tpls: []c53Tpl{raw, {pre: "\xfftOc\x00\x00\x00\x02"}},
			run: func(d []byte, _ *c53Lim) error {
				in, err := fstest.MapFS{"idx": {Data: d}}.Open("idx")
				if err != nil {
					return err
				}
				idx := new(idxfile.MemoryIndex)
				if err := idxfile.NewDecoder(in.(interface {
					io.Reader
					Stat() (fs.FileInfo, error)
				}), hash.New(crypto.SHA1)).Decode(idx); err != nil {
					return err
				}
				c53IdxExercise(idx)
				return nil
			}, files: []string{"pack-small.idx", "pack-delta.idx", "idx-v1.idx", "idx-off64.idx"}},
		{name: "idxfile/lazy-idx", alpha: bin, tpls: []c53Tpl{raw, {pre: "\xfftOc\x00\x00\x00\x02"}},
			run:   func(d []byte, l *c53Lim) error { return c53Lazy(d, c53FixedRev, l) },
			files: []string{"pack-small.idx", "pack-delta.idx", "idx-off64.idx"}},
		{name: "idxfile/lazy-rev", alpha: bin, tpls: []c53Tpl{raw, {pre: "RIDX\x00\x00\x00\x01\x00\x00\x00\x01"}},
			run:   func(d []byte, l *c53Lim) error { return c53Lazy(c53FixedIdx, d, l) },
			files: []string{"pack-small.rev"}},
		{name: "revfile/decode", alpha: bin, tpls: []c53Tpl{raw, {pre: "RIDX\x00\x00\x00\x01\x00\x00\x00\x01"}},
			run: func(d []byte, l *c53Lim) error {
				out := make(chan uint32, 64)
				done := make(chan struct{})
				go func() {
					defer close(done)
					for range out {
					}
				}()
				var packID plumbing.Hash
				err := revfile.Decode(l.stream(d), 0, packID, out)
				<-done
				return err
			}, seeds: []string{"RIDX\x00\x00\x00\x01\x00\x00\x00\x01"}, files: []string{"pack-small.rev"}},
		{name: "index/decoder", alpha: bin, tpls: []c53Tpl{raw, {pre: "DIRC\x00\x00\x00\x02\x00\x00\x00\x01"}, {pre: "DIRC\x00\x00\x00\x04\x00\x00\x00\x01"}, {pre: "DIRC\x00\x00\x00\x02\x00\x00\x00\x00TREE\x00\x00\x00", post: string(make([]byte, 60))}},
			run: func(d []byte, l *c53Lim) error {
				return index.NewDecoder(l.stream(d), hash.New(crypto.SHA1), index.WithSkipHash()).Decode(&index.Index{})
			}, seeds: []string{"DIRC\x00\x00\x00\x02\x00\x00\x00\x00", "DIRC\x00\x00\x00\x03\x00\x00\x00\x00", "DIRC\x00\x00\x00\x04\x00\x00\x00\x00",
				"DIRC\x00\x00\x00\x02\x00\x00\x00\x00TREE\x00\x00\x00\x19\x000 0\n" + string(make([]byte, 40))},
			files: []string{"index-v2", "index-v3", "index-v4", "index-ext"}},
		{name: "commitgraph/file", alpha: bin, tpls: []c53Tpl{raw, {pre: "CGPH\x01\x01"}},
			run: func(d []byte, l *c53Lim) error {
				idx, err := commitgraph.OpenFileIndex(l.file(d))
				if err != nil {
					return err
				}
				defer idx.Close()
				hashes := idx.Hashes()
				for i := range min(len(hashes), 4096) {
					_, _ = idx.GetIndexByHash(hashes[i])
					_, _ = idx.GetHashByIndex(uint32(i))
					_, _ = idx.GetCommitDataByIndex(uint32(i))
				}
				return nil
			}, seeds: []string{"CGPH\x01\x01\x00\x00"}, files: []string{"commit-graph", "commit-graph-octopus"}},
		{name: "config/format-decoder", alpha: []string{"[", "]", "a", "=", "\"", "\\", "\n", " ", "#", "."}, tpls: []c53Tpl{raw, {pre: "[a \""}, {pre: "[a]\nb = "}},
			run:   func(d []byte, l *c53Lim) error { return fconfig.NewDecoder(l.stream(d)).Decode(&fconfig.Config{}) },
			seeds: []string{"[core]\n\tbare = false\n[remote \"origin\"]\n\turl = https://x/y\n\tfetch = +refs/heads/*:refs/remotes/origin/*\n[a \"b\\\"c\"]\n\tk = \"v; \\t\" ; c\n\tmulti = a \\\n  b\n"},
			files: []string{"config"}},
		{name: "config/unmarshal", alpha: []string{"[", "]", "a", "=", "\"", "\n", " ", "+", ":", "*"}, tpls: []c53Tpl{raw, {pre: "[remote \"o\"]\nfetch = "}, {pre: "[remote \"o\"]\nurl = "}, {pre: "[branch \"b\"]\nmerge = "}, {pre: "[core]\nrepositoryformatversion = "}},
			run:   func(d []byte, _ *c53Lim) error { return config.NewConfig().Unmarshal(d) },
			seeds: []string{"[core]\n\tbare = false\n\tworktree = /x\n[remote \"origin\"]\n\turl = https://x/y\n\tfetch = +refs/heads/*:refs/remotes/origin/*\n[branch \"main\"]\n\tremote = origin\n\tmerge = refs/heads/main\n[submodule \"s\"]\n\tpath = s\n\turl = u\n[url \"a\"]\n\tinsteadOf = b\n[extensions]\n\tobjectformat = sha256\n"},
			files: []string{"config"}},
		{name: "gitignore/pattern", alpha: []string{"a", "*", "?", "[", "]", "!", "/", "\\", "-", ":"}, tpls: []c53Tpl{raw, {pre: "[[:"}, {pre: "a/**/"}, {pre: strings.Repeat("*a", 20)}},
			run: func(d []byte, _ *c53Lim) error {
				p := gitignore.ParsePattern(string(d), nil)
				for _, path := range []string{"a", "a/b/c", "aa/", "[", "x/y/a/", c53LongA, "x/" + c53LongA} {
					isDir := strings.HasSuffix(path, "/")
					_ = p.Match(strings.Split(strings.Trim(path, "/"), "/"), isDir)
				}
				_ = gitignore.ParsePattern(string(d), []string{"a"}).Match([]string{"a", "b"}, false)
				return nil
			}, seeds: []string{"foo", "!foo", "*.go", "**/bar", "foo/**/bar", "build/", `foo\*`, "[abc]", "[!abc]", "[a-z]", "[[:alpha:]]", "[[:unknown:]]", "[", "[unterminated", `\`, "a/b/c", "/a/*/c/",
				// many stars around a literal with a tail that cannot match: wildmatch must prune, not backtrack
				strings.Repeat("*a", 24) + "*b", strings.Repeat("a*", 24) + "b", "**/" + strings.Repeat("*a", 20) + "*b", strings.Repeat("?*", 20) + "b", strings.Repeat("[a]*", 16) + "b"}},
		{name: "reflog/decode", alpha: []string{"0", "a", " ", "<", ">", "\t", "\n", "+"}, tpls: []c53Tpl{raw, {pre: c53Zero40 + " " + c53H + " "}, {pre: c53Zero40 + " " + c53H + " A <a@b> "}},
			run: func(d []byte, l *c53Lim) error { _, err := reflog.Decode(l.stream(d)); return err },
			seeds: []string{c53Zero40 + " " + c53H + " Author Name <author@example.com> 1234567890 +0000\tcommit (initial): Initial commit\n", c53H + " " + c53H2 + " Author <a@b.com> 1234567890 +0000\n",
				strings.Repeat("a", 64) + " " + strings.Repeat("b", 64) + " Author <a@b.com> 1234567890 +0000\tcommit: test\n"},
			files: []string{"reflog"}},
		{name: "pktline/readers", alpha: []string{"0", "1", "4", "5", "f", "g", "E", "R", " "}, tpls: []c53Tpl{raw, {pre: "0008ERR"}, {pre: "000"}},
			run: func(d []byte, l *c53Lim) error {
				for _, size := range []int{0, 1, 3, 4, 5, pktline.MaxSize} {
					_, _ = pktline.Read(l.stream(d), make([]byte, size))
				}
				r := l.stream(d)
				for i := 0; i < len(d)+2; i++ {
					if _, _, err := pktline.ReadLine(r); err != nil && !errors.Is(err, pktline.ErrInvalidPktLen) {
						break
					}
				}
				s := pktline.NewScanner(l.stream(d))
				for s.Scan() {
					_ = s.Bytes()
				}
				_, _, _ = pktline.PeekLine(bufio.NewReader(l.stream(d)))
				var el pktline.ErrorLine
				_ = el.Decode(l.stream(d))
				return s.Err()
			}, seeds: []string{"0000", "0001", "0002", "0003", "0004", "0005a", "0008ERR ", "000cERR EOF\n", "fff1", "0008XRR 0005E", "0006a\n0000"}},
		{name: "sideband/demuxer", alpha: []string{"0", "5", "6", "\x01", "\x02", "\x03", "a", "f"}, tpls: []c53Tpl{raw, {pre: "\x01", pkt: true, tail: "0000"}, {pre: "0005"}},
			run: func(d []byte, l *c53Lim) error {
				var err error
				for _, t := range []sideband.Type{sideband.Sideband, sideband.Sideband64k} {
					dm := sideband.NewDemuxer(t, l.stream(d))
					dm.Progress = io.Discard
					_, err = io.Copy(io.Discard, io.LimitReader(dm, 1<<22))
				}
				return err
			}, seeds: []string{"0006\x01a0006\x02b0000", "0006\x03e", "0005\x01"}},
		{name: "capability/list", alpha: []string{"a", " ", "=", "\x00", "-", "/", ":", "\n"}, tpls: []c53Tpl{raw, {pre: "agent="}, {pre: "symref=HEAD:"}},
			run: func(d []byte, _ *c53Lim) error {
				var cl capability.List
				capability.DecodeList(d, &cl)
				_ = cl.String()
				return nil
			}, seeds: []string{"multi_ack", "multi_ack thin-pack", "agent=git/2.0", "symref=HEAD:refs/heads/main object-format=sha1 agent=x"}},
		{name: "revision/parser", alpha: []string{"a", "@", "{", "}", "^", "~", ":", "/", "1", "-", "!", "."}, tpls: []c53Tpl{raw, {pre: "a^{"}, {pre: "@{"}, {pre: ":/"}},
			run:   func(d []byte, l *c53Lim) error { _, err := bridge.RevisionParse(l.stream(d)); return err },
			seeds: []string{"@{2016-12-16T21:42:47Z}", "@~3", "v0.99.8^{}", "master:./README", "HEAD^{/fix nasty bug}", "HEAD^{/[A-", ":/fix nasty bug", ":/[A-", "a@{-1}", "a@{upstream}", "a^^2~3^{commit}", ":0:README"}},
		// ---- smart protocol messages (pkt-line framed)
		{name: "packp/advrefs", alpha: pkta, run: c53Pk[packp.AdvRefs](), tpls: []c53Tpl{raw, P(""), P(c53H + " "), P(c53H + " HEAD\x00"), {pre: c53H + " HEAD\x00ofs-delta", pkt: true, tail: ""}, P("shallow "), {pre: "# service=git-upload-pack\n", pkt: true, tail: "0000"}},
			seeds: []string{"003b" + c53H + " HEAD\x00ofs-delta0000", "0000"}, files: []string{"advrefs-git.pkt", "advrefs-empty-git.pkt"}},
		{name: "packp/ulreq", alpha: pkta, run: c53Pk[packp.UploadRequest](), tpls: []c53Tpl{raw, P(""), P("want "), P("want " + c53H + " "), {pre: "want " + c53H + "\n", pkt: true, tail: ""}, {pre: "", pkt: true, tail: "0000"}},
			seeds: []string{"0032want " + c53Zero40 + "\n0000", "0000",
				c53P("want "+c53H+" multi_ack_detailed side-band-64k ofs-delta agent=x\n") + c53P("want "+c53H2+"\n") + c53P("shallow "+c53H+"\n") + c53P("deepen 3\n") + c53P("filter blob:none\n") + "0000",
				c53P("want "+c53H+" shallow deepen-since deepen-not\n") + c53P("deepen-since 1700000000\n") + c53P("deepen-not refs/heads/a\n") + "0000"}},
		{name: "packp/uphaves", alpha: pkta, run: c53Pk[packp.UploadHaves](), tpls: []c53Tpl{raw, P(""), P("have ")},
			seeds: []string{"0032have " + c53H + "\n0009done\n", "0032have " + c53H + "\n0000"}},
		{name: "packp/updreq", alpha: pkta, run: c53Pk[packp.UpdateRequests](), tpls: []c53Tpl{raw, P(""), P(c53H + " " + c53H2 + " "), P(c53H + " " + c53H2 + " refs/heads/a\x00"), P("shallow ")},
			seeds: []string{"0000",
				c53P(c53H+" "+c53H2+" refs/heads/a\x00report-status delete-refs agent=x") + c53P(c53Zero40+" "+c53H+" refs/heads/b") + c53P(c53H+" "+c53Zero40+" refs/tags/t") + "0000",
				c53P("shallow "+c53H) + c53P(c53H+" "+c53H2+" refs/heads/a\x00report-status-v2 push-options atomic") + "0000" + c53P("k=v") + "0000"}},
		{name: "packp/srvresp", alpha: pkta, run: c53Pk[packp.ServerResponse](), tpls: []c53Tpl{raw, P(""), P("ACK "), P("ACK " + c53H + " "), P("NAK")},
			seeds: []string{"0008NAK\n", "0031ACK " + c53H + "\n", "0038ACK " + c53H + " common\n0008NAK\n", "0037ACK " + c53H + " ready\n"}},
		{name: "packp/shallowupd", alpha: pkta, run: c53Pk[packp.ShallowUpdate](), tpls: []c53Tpl{raw, P(""), P("shallow "), P("unshallow ")},
			seeds: []string{"0034shallow " + strings.Repeat("a", 40) + "0000", "0036unshallow " + strings.Repeat("a", 40) + "0000"}},
		{name: "packp/report-status", alpha: pkta, run: c53Pk[packp.ReportStatus](), tpls: []c53Tpl{raw, P(""), P("unpack "), {pre: "unpack ok\n", pkt: true, tail: ""}, {pre: "ok ", pkt: true, tail: "0000"}},
			seeds: []string{"000eunpack ok\n0019ok refs/heads/master\n0000", "000eunpack ok\n001cng refs/heads/a failed\n0000", "0012unpack failed\n0000"}},
		{name: "packp/gitproto", alpha: pkta, run: c53Pk[packp.GitProtoRequest](), tpls: []c53Tpl{raw, {pkt: true}, {pre: "git-upload-pack /a\x00", pkt: true}, {pre: "git-upload-pack /a\x00host=h\x00\x00", pkt: true}},
			seeds: []string{"002ecommand pathname\x00host=host\x00\x00param1\x00param2\x00", "0033git-upload-pack /project.git\x00host=myserver.com\x00"}},
		{name: "packp/pushopts", alpha: pkta, run: c53Pk[packp.PushOptions](), tpls: []c53Tpl{raw, P("")}, seeds: []string{"0015SomeKey=SomeValue0000", "0000"}},
		{name: "packp/fetch-args", alpha: pkta, run: c53Pk[packp.FetchArgs](), tpls: []c53Tpl{raw, P(""), P("want "), P("deepen "), P("filter "), P("deepen-since ")},
			seeds: []string{"0032want " + c53H + "\n0009done\n0000", "0000", "0032want " + c53H + "\n0038deepen-not " + c53H + "\n0038deepen-not " + c53H + "\n0000",
				"0032want " + c53H + "\n0032have " + c53H2 + "\n000ethin-pack\n000fno-progress\n000finclude-tag\n000eofs-delta\n000ddeepen 1\n0014deepen-relative\n0015filter blob:none\n001dwant-ref refs/heads/main\n0009done\n0000"}},
		{name: "packp/fetch-output", alpha: pkta, run: c53Pk[packp.FetchOutput](), tpls: []c53Tpl{raw, P(""), {pre: "acknowledgments\n", pkt: true}, {pre: "", pkt: true, tail: "0001000dpackfile\n0000"}},
			seeds: []string{"0014acknowledgments\n0008NAK\n0000", "0014acknowledgments\n000aready\n0001000dpackfile\n0000", "0011shallow-info\n0035shallow " + c53H + "\n0001000dpackfile\n0000",
				"0010wanted-refs\n003d" + c53H + " refs/heads/main\n0001000dpackfile\n0000", "0012packfile-uris\n0044" + c53H + " https://example/p.pack\n0001000dpackfile\n0000"}},
		{name: "packp/command-request", alpha: pkta, tpls: []c53Tpl{raw, P(""), P("command="), {pre: "command=ls-refs\n", pkt: true, tail: ""}, {pre: "command=ls-refs\n", pkt: true, tail: "0001"}},
			run: func(d []byte, l *c53Lim) error {
				err := (&packp.CommandRequest{Args: &packp.LsRefsArgs{}}).Decode(l.stream(d))
				_ = (&packp.CommandRequest{Args: &packp.FetchArgs{}}).Decode(l.stream(d))
				_ = (&packp.CommandRequest{}).Decode(l.stream(d))
				return err
			}, seeds: []string{"0014command=ls-refs\n0017object-format=sha1\n00010014ref-prefix HEAD\n0000", "0000", "0012command=fetch\n0001000ddone\n0000"}},
		{name: "packp/capability-adv", alpha: pkta, run: c53Pk[packp.CapabilityAdv](), tpls: []c53Tpl{raw, P(""), P("version "), {pre: "version 2\n", pkt: true, tail: ""}},
			seeds: []string{"000eversion 2\n000cls-refs\n0017object-format=sha1\n0000", "000eversion 2\n0000"}, files: []string{"capadv-git.pkt"}},
		{name: "packp/lsrefs-args", alpha: pkta, run: c53Pk[packp.LsRefsArgs](), tpls: []c53Tpl{raw, P(""), P("ref-prefix ")},
			seeds: []string{"0009peel\n000csymrefs\n0014ref-prefix HEAD\n0000", "0000"}},
		{name: "packp/lsrefs-output", alpha: pkta, run: c53Pk[packp.LsRefsOutput](), tpls: []c53Tpl{raw, P(""), P(c53H + " "), P(c53H + " HEAD "), P(c53H + " a peeled:"), P(c53H + " a symref-target:")},
			seeds: []string{"003d" + c53H + " refs/heads/main\n0050" + c53H + " HEAD symref-target:refs/heads/main\n0000"}, files: []string{"lsrefs-git.pkt"}},
		{name: "packp/info-refs", alpha: pkta, run: c53Pk[packp.InfoRefs](), tpls: []c53Tpl{raw, {pre: c53H + "\t"}},
			seeds: []string{c53H + "\trefs/heads/main\n" + c53H2 + "\trefs/tags/v1\n" + c53H + "\trefs/tags/v1^{}\n"}},
		{name: "packp/smart-reply", alpha: pkta, run: c53Pk[packp.SmartReply](), tpls: []c53Tpl{raw, P(""), P("# service=")},
			seeds: []string{"001e# service=git-upload-pack\n0000"}},
		{name: "packp/list-v2", alpha: pkta, tpls: []c53Tpl{raw, P("")},
			run: func(d []byte, l *c53Lim) error {
				var cl capability.List
				_, err := packp.DecodeListV2(l.stream(d), &cl)
				return err
			}, seeds: []string{"000cls-refs\n0017object-format=sha1\n0000"}},
	}
	return ds
}

// c53Outcome normalises an error into a short class: the first six words of
// the message, where a word that is not purely alphabetic (or that could be
// echoed input: only hex letters) becomes "_". The number of distinct classes
// then measures how many decoder paths the neighbourhood reached, not how many
// inputs were echoed in messages.
func c53Outcome(err error) string {
	if err == nil {
		return "ok"
	}
	s := err.Error()
	if len(s) > 200 {
		s = s[:200]
	}
	words := strings.FieldsFunc(s, func(r rune) bool {
		return r == ' ' || r == ':' || r == '\n' || r == '\t' || r == '"' || r == '\'' || r == ',' || r == '(' || r == ')' || r == '='
	})
	var b strings.Builder
	last := ""
	n := 0
	for _, w := range words {
		alpha, hexOnly := true, true
		for i := 0; i < len(w); i++ {
			ch := w[i] | 0x20
			if (ch < 'a' || ch > 'z') && w[i] != '-' && w[i] != '_' {
				alpha = false
				break
			}
			if ch > 'f' {
				hexOnly = false
			}
		}
		if !alpha || hexOnly || len(w) < 2 {
			w = "_"
		}
		if w == "_" && last == "_" {
			continue
		}
		last = w
		if n > 0 {
			b.WriteByte(' ')
		}
		b.WriteString(w)
		n++
		if n == 6 {
			break
		}
	}
	return b.String()
}

var _ = bytes.Equal

// c53LongA is a path component made of one literal only, long enough for a
// backtracking matcher to explode on a many-star pattern.
var c53LongA = strings.Repeat("a", 72)

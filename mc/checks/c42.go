package checks

// C42: ancestry, merge-base, independents and the fast-forward test agree with
// git merge-base --is-ancestor / --all / --independent, for every DAG with up
// to N commits x every weak order of committer timestamps.
//
// Oracle: the graph reference model of e_util.go (reachability on bit masks).
// The model is replayed against real git (one repository holding the complete
// smaller space, one process per DISTINCT query) on every run.

import (
	"crypto/sha1"
	"encoding/hex"
	"fmt"
	"os"
	"path/filepath"
	"sort"
	"strings"
	"sync"

	git "github.com/go-git/go-git/v6"
	"github.com/go-git/go-git/v6/plumbing"
	"github.com/go-git/go-git/v6/plumbing/object"

	"verifmc/fw"
)

func init() {
	fw.Register(&fw.Check{ID: "C42", Level: "model_checking", Run: runC42, QuickBudget: 100, ThoroughBudget: 1400})
}

// c42Seqs returns the argument lists used for Independents on n commits: every
// sequence of 1..3 distinct commits (argument order matters to go-git because
// ties in the date sort keep input order), the full set when n>3 (every
// argument order at n=4, with and without one duplicate), and the
// duplicate-carrying lists [a a] and [a b a].
func c42Seqs(n int) [][]int {
	var out [][]int
	for a := 0; a < n; a++ {
		out = append(out, []int{a})
	}
	for a := 0; a < n; a++ {
		for b := 0; b < n; b++ {
			if a != b {
				out = append(out, []int{a, b})
			}
		}
	}
	for a := 0; a < n; a++ {
		for b := 0; b < n; b++ {
			for d := 0; d < n; d++ {
				if a != b && a != d && b != d {
					out = append(out, []int{a, b, d})
				}
			}
		}
	}
	if n == 4 {
		// every argument order of the full set, and the full set with one duplicate
		for _, p := range fw.Perms(n) {
			out = append(out, append([]int{}, p...))
		}
		for a := 0; a < n; a++ {
			out = append(out, []int{0, 1, 2, 3, a}, []int{a, 3, 2, 1, 0})
		}
	} else if n > 4 {
		all := make([]int, n)
		rev := make([]int, n)
		for i := range all {
			all[i] = i
			rev[i] = n - 1 - i
		}
		out = append(out, all, rev)
	}
	for a := 0; a < n; a++ {
		out = append(out, []int{a, a})
		for b := 0; b < n; b++ {
			if a != b {
				out = append(out, []int{a, b, a})
			}
		}
	}
	return out
}

// c42Shallows returns the shallow sets tried for n commits: none, every single
// commit, and (when pairs) every pair.
func c42Shallows(n int, pairs bool) []uint32 {
	out := []uint32{0}
	for i := 0; i < n; i++ {
		out = append(out, 1<<i)
	}
	if pairs {
		for i := 0; i < n; i++ {
			for j := i + 1; j < n; j++ {
				out = append(out, 1<<i|1<<j)
			}
		}
	}
	return out
}

// c42MissingID is a commit id that is in no store.
const c42MissingID = "eeeeeeeeeeeeeeeeeeeeeeeeeeeeeeeeeeeeeeee"

func c42Union(in *eInst, xs ...int) uint32 {
	var m uint32
	for _, x := range xs {
		m |= in.anc[x]
	}
	return m
}

func runC42(c *fw.Ctx) {
	maxN := c.Pick(4, 5)
	litN := 3 // literal git commands: complete <=3-commit space in both tiers (<=4 would be 329,066 processes)
	batchN := 4
	maxPar := func(n int) int {
		if n <= 4 {
			return 3
		}
		return 2
	}
	// parent lists are ordered (first parent matters to the walkers) up to 4
	// commits; at 5 commits parent sets are ascending (lowered bound: the
	// ordered space has 919,700 instances x ~310 queries).
	ordered := func(n int) bool { return n <= 4 }
	space := eNewSpace(maxN, maxPar, ordered)
	c.Bound("max_commits", maxN)
	c.Bound("max_parents", "3 for n<=4 (octopus, every parent order), 2 for n=5 (ascending parent lists)")
	c.Bound("timestamp_orders", "all weak orders of n committer timestamps (author order reversed)")
	c.Bound("space", space.Sizes())
	c.Bound("conformance_max_commits", map[string]int{"literal git merge-base commands": litN, "batched git rev-parse A...B": batchN})
	c.Bound("queries", "IsAncestor & MergeBase: all ordered pairs; Independents: all sequences of 1..3 distinct commits + full set + duplicate-carrying lists; isFastForward: all ordered pairs x shallow sets {none, every single commit, every pair (n<=4)}, and the shallow list naming only a commit absent from the store (every n) or a single shallow commit plus the absent one, before or after it (n<=3); Independents at n=4 additionally every argument order of the full set and the full set plus one duplicate")
	c.SetRule("every DAG x weak order up to the bound; go-git Commit.IsAncestor / MergeBase / object.Independents / isFastForward on a memory store holding the raw commits, against a bit-mask reachability model; the model is replayed against real `git merge-base --is-ancestor/--all/--independent` (and GIT_SHALLOW_FILE for shallow variants) on the complete space up to conformance_max_commits; a case is non-trivial when its arguments are distinct commits; distinct counts (operation, answer shape, timestamp shape mono/tie/inv, shallow situation) classes")
	c.Assume("git 2.39.5 merge-base is the reference; a shallow repository is modelled as git does (parents of shallow commits cut); only the memory storage backend is driven (the algorithms are storage-independent)")

	fails := eNewFailSet()
	c.States(space.Total)
	c.ParDo(space.Total, 0, func(idx int) {
		in := space.Inst(idx, nil)
		c42Instance(c, in, idx, fails)
	})
	fails.Report(c)
	// the model-vs-git replay runs last so that a slow machine cuts the
	// replay, not the enumeration (both are complete on an idle machine)
	t0 := c.Elapsed()
	if c.Expired() {
		c.Incomplete("deadline reached before the model-vs-git conformance replay")
		return
	}
	c42Conformance(c, litN, batchN, maxPar)
	c.Extra("conformance_seconds", int((c.Elapsed() - t0).Seconds()))
}

// ---------------------------------------------------------------------------
// conformance: model vs real git

type c42Query struct {
	kind    byte // 'A' is-ancestor, 'M' merge-base --all, 'I' --independent, 'S' shallow is-ancestor
	args    []string
	shallow []string
	expBool bool
	expSet  []string
	inst    string
}

func (q *c42Query) key() string {
	return string(q.kind) + " " + strings.Join(q.shallow, ",") + " | " + strings.Join(q.args, " ")
}

func c42Conformance(c *fw.Ctx, litN, batchN int, maxPar func(int) int) {
	space := eNewSpace(batchN, maxPar, eAlways)
	insts := make([]*eInst, space.Total)
	for i := range insts {
		insts[i] = space.Inst(i, nil)
	}
	repo := eBuildRepo(c, "c42conf", insts)
	c.Extra("conformance_repo_commits", repo.NObjs)

	ids := func(in *eInst, m uint32) []string {
		var out []string
		for _, i := range eBits(m) {
			out = append(out, in.ID[i])
		}
		sort.Strings(out)
		return out
	}

	// (1) batch: merge bases (and, derived, ancestry) of every pair of every
	// instance up to batchN through `git rev-parse A...B` (prints B, A, then
	// ^base for every merge base; the same get_merge_bases as merge-base
	// --all), thousands of pairs per process.
	type pairQ struct {
		a, b string
		exp  []string
		inst string
	}
	pq := map[string]*pairQ{}
	for _, in := range insts {
		for a := 0; a < in.N; a++ {
			for b := a; b < in.N; b++ {
				k := in.ID[a] + "..." + in.ID[b]
				exp := ids(in, eMergeBases(in.anc, a, b))
				if old, ok := pq[k]; ok {
					if strings.Join(old.exp, " ") != strings.Join(exp, " ") {
						fw.Abort("reference model is not a function of the objects: %s expects differently for %s and %s", k, old.inst, in)
					}
					continue
				}
				pq[k] = &pairQ{in.ID[a], in.ID[b], exp, in.String()}
			}
		}
	}
	pkeys := make([]string, 0, len(pq))
	for k := range pq {
		pkeys = append(pkeys, k)
	}
	sort.Strings(pkeys)
	const chunk = 4000
	nch := (len(pkeys) + chunk - 1) / chunk
	c.ParDo(nch, 0, func(ci int) {
		ks := pkeys[ci*chunk : min(len(pkeys), (ci+1)*chunk)]
		r := repo.G.MustRun(append([]string{"rev-parse"}, ks...)...)
		lines := eLines(r.Out)
		li := 0
		for _, k := range ks {
			q := pq[k]
			if li+2 > len(lines) || lines[li] != q.b || lines[li+1] != q.a {
				fw.Abort("git rev-parse %s: unexpected output layout at line %d", k, li)
			}
			li += 2
			var got []string
			for li < len(lines) && strings.HasPrefix(lines[li], "^") {
				got = append(got, lines[li][1:])
				li++
			}
			sort.Strings(got)
			if strings.Join(got, " ") != strings.Join(q.exp, " ") {
				fw.Abort("reference model disagrees with real git: merge bases of %s: git=%v model=%v (instance %s)", k, got, q.exp, q.inst)
			}
			c.TracesValidated(1)
		}
		if li != len(lines) {
			fw.Abort("git rev-parse: %d trailing lines", len(lines)-li)
		}
	})
	c.Extra("conformance_batch_pairs_rev_parse", len(pkeys))

	// (2) literal `git merge-base --is-ancestor / --all / --independent` (one
	// process per DISTINCT query) on the complete space up to litN, and
	// --is-ancestor under GIT_SHALLOW_FILE for every single shallow commit.
	qs := map[string]*c42Query{}
	add := func(q *c42Query) {
		k := q.key()
		if old, ok := qs[k]; ok {
			if old.expBool != q.expBool || strings.Join(old.expSet, " ") != strings.Join(q.expSet, " ") {
				fw.Abort("reference model is not a function of the objects: query %s expects differently for %s and %s", k, old.inst, q.inst)
			}
			return
		}
		qs[k] = q
	}
	for _, in := range insts {
		n := in.N
		if n > litN {
			continue
		}
		for a := 0; a < n; a++ {
			for b := 0; b < n; b++ {
				add(&c42Query{kind: 'A', args: []string{in.ID[a], in.ID[b]}, expBool: in.anc[b]&(1<<a) != 0, inst: in.String()})
				if a <= b {
					add(&c42Query{kind: 'M', args: []string{in.ID[a], in.ID[b]}, expSet: ids(in, eMergeBases(in.anc, a, b)), inst: in.String()})
				}
			}
		}
		for set := uint32(1); set < 1<<n; set++ {
			if set&(set-1) == 0 {
				continue // single commit: trivial
			}
			add(&c42Query{kind: 'I', args: ids(in, set), expSet: ids(in, eIndependent(in.anc, set)), inst: in.String()})
		}
		for _, sh := range c42Shallows(n, false) {
			for _, absent := range []bool{false, true} {
				if sh == 0 && !absent {
					continue
				}
				anc := eAncMasks(in.Parents, sh)
				shl := ids(in, sh)
				if absent {
					shl = append(shl, c42MissingID) // git: a shallow entry for an absent commit changes nothing
				}
				for a := 0; a < n; a++ {
					for b := a + 1; b < n; b++ {
						add(&c42Query{kind: 'S', shallow: shl, args: []string{in.ID[a], in.ID[b]}, expBool: anc[b]&(1<<a) != 0, inst: in.String()})
					}
				}
			}
		}
	}
	keys := make([]string, 0, len(qs))
	for k := range qs {
		keys = append(keys, k)
	}
	sort.Strings(keys)

	// shallow files, one per distinct shallow set
	shDir := c.TempDir("c42shallow")
	shFile := map[string]string{}
	for _, k := range keys {
		q := qs[k]
		if q.kind != 'S' {
			continue
		}
		sk := strings.Join(q.shallow, "\n") + "\n"
		if _, ok := shFile[sk]; !ok {
			h := sha1.Sum([]byte(sk))
			p := filepath.Join(shDir, hex.EncodeToString(h[:8]))
			if err := os.WriteFile(p, []byte(sk), 0o644); err != nil {
				fw.Abort("shallow file: %v", err)
			}
			shFile[sk] = p
		}
	}
	var mu sync.Mutex
	kinds := map[byte]int{}
	c.ParDo(len(keys), 0, func(i int) {
		q := qs[keys[i]]
		g := repo.G
		switch q.kind {
		case 'A', 'S':
			if q.kind == 'S' {
				g = g.With("GIT_SHALLOW_FILE=" + shFile[strings.Join(q.shallow, "\n")+"\n"])
			}
			r := g.Run("merge-base", "--is-ancestor", q.args[0], q.args[1])
			if r.Code != 0 && r.Code != 1 {
				fw.Abort("git merge-base --is-ancestor failed (%d): %s", r.Code, r.Err)
			}
			if (r.Code == 0) != q.expBool {
				fw.Abort("reference model disagrees with real git: %s: git is-ancestor=%v model=%v (instance %s)", q.key(), r.Code == 0, q.expBool, q.inst)
			}
		case 'M', 'I':
			flag := "--all"
			if q.kind == 'I' {
				flag = "--independent"
			}
			r := g.Run(append([]string{"merge-base", flag}, q.args...)...)
			if r.Code != 0 && r.Code != 1 {
				fw.Abort("git merge-base %s failed (%d): %s", flag, r.Code, r.Err)
			}
			got := eLines(r.Out)
			sort.Strings(got)
			if strings.Join(got, " ") != strings.Join(q.expSet, " ") {
				fw.Abort("reference model disagrees with real git: merge-base %s %v: git=%v model=%v (instance %s)", flag, q.args, got, q.expSet, q.inst)
			}
		}
		c.TracesValidated(1)
		mu.Lock()
		kinds[q.kind]++
		mu.Unlock()
	})
	c.Extra("conformance_distinct_literal_git_queries", map[string]int{"is-ancestor": kinds['A'], "merge-base --all": kinds['M'], "merge-base --independent": kinds['I'], "is-ancestor in shallow repo": kinds['S'], "planned": len(keys)})
}

// ---------------------------------------------------------------------------
// the real code against the model

func c42Instance(c *fw.Ctx, in *eInst, idx int, fails *eFailSet) {
	st := eMemStore(in)
	cs := eCommits(st, in)
	n := in.N
	if idx%5003 == 1 {
		c.Sample(map[string]any{"index": idx, "instance": in.Desc()})
	}
	setOf := func(res []*object.Commit) (m uint32, dup, foreign bool) {
		for _, r := range res {
			i := in.Idx(r.Hash)
			if i < 0 {
				foreign = true
				continue
			}
			if m&(1<<i) != 0 {
				dup = true
			}
			m |= 1 << i
		}
		return
	}
	rep := func(op string, q any, got, want any) func() map[string]any {
		return func() map[string]any {
			return map[string]any{"instance": in.Desc(), "op": op, "query": q, "go_git": got, "git_model": want}
		}
	}

	// IsAncestor and MergeBase: all ordered pairs
	for a := 0; a < n; a++ {
		for b := 0; b < n; b++ {
			shape := in.TimeShape(c42Union(in, a, b))
			// --- IsAncestor
			var got bool
			var err error
			pan := eSafe(func() { got, err = cs[a].IsAncestor(cs[b]) })
			c.Eval()
			c.Transitions(1)
			want := in.anc[b]&(1<<a) != 0
			q := fmt.Sprintf("IsAncestor(%d,%d)", a, b)
			switch {
			case pan != "":
				fails.Add("IsAncestor: panic", idx, q, pan, rep("IsAncestor", []int{a, b}, "panic: "+pan, want))
			case err != nil:
				fails.Add("IsAncestor: error", idx, q, err.Error(), rep("IsAncestor", []int{a, b}, "error: "+err.Error(), want))
			case got != want:
				fails.Add(fmt.Sprintf("IsAncestor: go-git=%v git=%v [%s]", got, want, shape), idx, q, in.String()+" "+q, rep("IsAncestor", []int{a, b}, got, want))
			}
			if a != b {
				c.Class(fmt.Sprintf("anc %v %s", got, shape))
			}

			// --- MergeBase
			var res []*object.Commit
			pan = eSafe(func() { res, err = cs[a].MergeBase(cs[b]) })
			c.Eval()
			c.Transitions(1)
			wantM := eMergeBases(in.anc, a, b)
			q = fmt.Sprintf("MergeBase(%d,%d)", a, b)
			switch {
			case pan != "":
				fails.Add("MergeBase: panic", idx, q, pan, rep("MergeBase", []int{a, b}, "panic: "+pan, eBits(wantM)))
			case err != nil:
				fails.Add("MergeBase: error", idx, q, err.Error(), rep("MergeBase", []int{a, b}, "error: "+err.Error(), eBits(wantM)))
			default:
				gotM, dup, foreign := setOf(res)
				var kinds []string
				if foreign {
					kinds = append(kinds, "unknown-commit")
				}
				if dup {
					kinds = append(kinds, "duplicate")
				}
				if wantM&^gotM != 0 {
					kinds = append(kinds, "missing-base")
				}
				if extra := gotM &^ wantM; extra != 0 {
					if extra&^(in.anc[a]&in.anc[b]) != 0 {
						kinds = append(kinds, "not-a-common-ancestor")
					} else {
						kinds = append(kinds, "redundant-base")
					}
				}
				if len(kinds) > 0 {
					fails.Add(fmt.Sprintf("MergeBase: %s [%s]", strings.Join(kinds, "+"), shape), idx, q,
						fmt.Sprintf("%s %s go-git=%v git=%v", in, q, eBits(gotM), eBits(wantM)), rep("MergeBase", []int{a, b}, eBits(gotM), eBits(wantM)))
				}
				if a != b {
					inp := "other"
					if wantM == 1<<a || wantM == 1<<b {
						inp = "input"
					}
					c.Class(fmt.Sprintf("mb %d %s %s", len(eBits(wantM)), inp, shape))
				}
			}
		}
	}

	// Independents
	for _, seq := range c42Seqs(n) {
		args := make([]*object.Commit, len(seq))
		for i, x := range seq {
			args[i] = cs[x]
		}
		set := eMask(seq)
		shape := in.TimeShape(c42Union(in, seq...))
		var res []*object.Commit
		var err error
		pan := eSafe(func() { res, err = object.Independents(args) })
		c.Eval()
		c.Transitions(1)
		want := eIndependent(in.anc, set)
		q := fmt.Sprintf("Independents(%v)", seq)
		switch {
		case pan != "":
			fails.Add("Independents: panic", idx, q, pan, rep("Independents", seq, "panic: "+pan, eBits(want)))
		case err != nil:
			fails.Add("Independents: error", idx, q, err.Error(), rep("Independents", seq, "error: "+err.Error(), eBits(want)))
		default:
			got, dup, foreign := setOf(res)
			var kinds []string
			if foreign || got&^set != 0 {
				kinds = append(kinds, "not-an-argument")
			}
			if dup {
				kinds = append(kinds, "duplicate")
			}
			if want&^got != 0 {
				kinds = append(kinds, "dropped-independent")
			}
			if got&set&^want != 0 {
				kinds = append(kinds, "kept-redundant")
			}
			if len(kinds) > 0 {
				fails.Add(fmt.Sprintf("Independents: %s [%s]", strings.Join(kinds, "+"), shape), idx, q,
					fmt.Sprintf("%s %s go-git=%v git=%v", in, q, eBits(got), eBits(want)), rep("Independents", seq, eBits(got), eBits(want)))
			}
			if len(eBits(set)) > 1 {
				c.Class(fmt.Sprintf("ind %d->%d %s", len(eBits(set)), len(eBits(want)), shape))
			}
		}
	}

	// fast-forward test, with shallow variants; the shallow list may also name
	// a commit that is not in the store (first or last in the list): no effect
	type shv struct {
		sh      uint32
		missing int // 0 none, 1 first, 2 last
	}
	var shvs []shv
	for _, sh := range c42Shallows(n, n <= 4) {
		shvs = append(shvs, shv{sh, 0})
		if sh == 0 {
			shvs = append(shvs, shv{sh, 1})
		} else if sh&(sh-1) == 0 && n <= 3 { // a single shallow commit
			shvs = append(shvs, shv{sh, 1}, shv{sh, 2})
		}
	}
	for _, v := range shvs {
		sh := v.sh
		anc := in.anc
		var shallows []plumbing.Hash
		if v.missing == 1 {
			shallows = append(shallows, plumbing.NewHash(c42MissingID))
		}
		if sh != 0 {
			anc = eAncMasks(in.Parents, sh)
			for _, i := range eBits(sh) {
				shallows = append(shallows, in.H[i])
			}
		}
		if v.missing == 2 {
			shallows = append(shallows, plumbing.NewHash(c42MissingID))
		}
		for old := 0; old < n; old++ {
			for nw := 0; nw < n; nw++ {
				var got bool
				var err error
				pan := eSafe(func() { got, err = git.VerifIsFastForward(st, in.H[old], in.H[nw], shallows) })
				c.Eval()
				c.Transitions(1)
				want := anc[nw]&(1<<old) != 0
				sit := "no-shallow"
				if sh != 0 {
					if anc[nw]&sh != 0 {
						sit = "walk-reaches-shallow"
					} else {
						sit = "shallow-not-reached"
					}
				}
				if v.missing != 0 {
					sit += "+absent-shallow-entry"
				}
				q := fmt.Sprintf("isFastForward(old=%d,new=%d,shallow=%v,absent=%d)", old, nw, eBits(sh), v.missing)
				r := rep("isFastForward", map[string]any{"old": old, "new": nw, "shallow": eBits(sh), "shallow_list_also_names_an_absent_commit": []string{"no", "first", "last"}[v.missing]}, got, want)
				switch {
				case pan != "":
					fails.Add("isFastForward: panic", idx, q, pan, r)
				case err != nil:
					fails.Add("isFastForward: error ["+sit+"]", idx, q, err.Error(), r)
				case got != want:
					// class = predicate on the input naming the cause
					cause := sit
					if !got && sh != 0 && !c42ReachAvoiding(in, sh, old, nw) {
						cause = "old reachable only through a parent of a shallow commit"
					} else if got && sh != 0 && anc[nw]&sh != 0 {
						cause = "history of new reaches a shallow commit and old is not in it"
					}
					fails.Add(fmt.Sprintf("isFastForward: go-git=%v git=%v [%s]", got, want, cause), idx, q, in.String()+" "+q, r)
				}
				if old != nw {
					c.Class(fmt.Sprintf("ff %v %s", want, sit))
				}
			}
		}
	}
}

// c42ReachAvoiding reports whether old is reachable from nw in the shallow-cut
// graph without touching (as start, end or intermediate) any commit that is a
// parent of a shallow commit.
func c42ReachAvoiding(in *eInst, sh uint32, old, nw int) bool {
	var p uint32
	for _, s := range eBits(sh) {
		p |= eMask(in.Parents[s])
	}
	if p&(1<<nw) != 0 {
		return false
	}
	seen := uint32(1) << nw
	stack := []int{nw}
	for len(stack) > 0 {
		x := stack[len(stack)-1]
		stack = stack[:len(stack)-1]
		if x == old {
			return true
		}
		if sh&(1<<x) != 0 {
			continue
		}
		for _, q := range in.Parents[x] {
			if p&(1<<q) == 0 && seen&(1<<q) == 0 {
				seen |= 1 << q
				stack = append(stack, q)
			}
		}
	}
	return false
}

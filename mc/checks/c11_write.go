package checks

// C11, reads after writes on the SAME Storage instance.
//
// The main C11 product reads a repository that never changes. go-git keeps
// per-instance state that a write must invalidate or extend (the sorted
// loose-object list and map under ExclusiveAccess, the object cache, the pack
// index map): this pass interleaves writes of NEW loose objects - chosen so
// that their ids sort before, between and after the existing loose objects -
// and re-writes of objects that already exist (loose / packed) with reads
// before and after, on private copies of the repository, and compares every
// read with the git map extended by exactly the objects written so far.

import (
	"crypto/sha1"
	"crypto/sha256"
	"fmt"
	"io"
	"io/fs"
	"os"
	"path/filepath"
	"sort"
	"strings"

	"github.com/go-git/go-git/v6/plumbing"
	"github.com/go-git/go-git/v6/storage/filesystem"

	"verifmc/fw"
)

type c11wNew struct {
	Role string // w-first | w-mid | w-last
	Hex  string
	Type string
	Data []byte
}

// c11wWrite is one write step.
type c11wWrite struct {
	Name string
	Role string // role of the object written (a new one or an existing one)
	API  int    // 0 SetEncodedObject, 1 RawObjectWriter
}

func (w c11wWrite) String() string { return w.Name }

func c11GitID(of, typ string, data []byte) string {
	hdr := fmt.Sprintf("%s %d\x00", typ, len(data))
	if of == "sha256" {
		h := sha256.New()
		h.Write([]byte(hdr))
		h.Write(data)
		return fw.Hex(h.Sum(nil))
	}
	h := sha1.New()
	h.Write([]byte(hdr))
	h.Write(data)
	return fw.Hex(h.Sum(nil))
}

func c11CopyTree(src, dst string) {
	err := filepath.WalkDir(src, func(p string, d fs.DirEntry, err error) error {
		if err != nil {
			return err
		}
		rel, _ := filepath.Rel(src, p)
		to := filepath.Join(dst, rel)
		if d.IsDir() {
			return os.MkdirAll(to, 0o755)
		}
		if d.Type()&fs.ModeSymlink != 0 {
			return nil
		}
		b, err := os.ReadFile(p)
		if err != nil {
			return err
		}
		return os.WriteFile(to, b, 0o644)
	})
	if err != nil {
		fw.Abort("c11 copy %s: %v", src, err)
	}
}

// c11NewObjects picks three objects that are not in the repository: a blob whose
// id sorts before every loose object of the main repository, a commit whose id
// falls strictly inside the loose range (not next to its ends) and a blob whose
// id sorts after every loose object. The ids are confirmed by git.
func c11NewObjects(c *fw.Ctx, r *c11Repo, g *fw.Git) []c11wNew {
	var loose []string
	for h := range r.loose {
		loose = append(loose, h)
	}
	sort.Strings(loose)
	if len(loose) < 4 {
		fw.Abort("c11 write pass: only %d loose objects", len(loose))
	}
	lo, hi := loose[0], loose[len(loose)-1]
	midLo, midHi := loose[len(loose)/2-1], loose[len(loose)/2]
	commitBase := r.model[r.roles["loose-commit"]].Data
	gen := func(role string, i int) (string, []byte) {
		if role == "w-mid" {
			return "commit", append(append([]byte(nil), commitBase...), []byte(fmt.Sprintf("written later %d\n", i))...)
		}
		return "blob", []byte(fmt.Sprintf("an object written during the sequence (%s %d)\n", role, i))
	}
	want := map[string]func(h string) bool{
		"w-first": func(h string) bool { return h < lo },
		"w-mid":   func(h string) bool { return h > midLo && h < midHi },
		"w-last":  func(h string) bool { return h > hi },
	}
	var out []c11wNew
	for _, role := range []string{"w-first", "w-mid", "w-last"} {
		found := false
		for i := 0; i < 200000 && !found; i++ {
			typ, data := gen(role, i)
			h := c11GitID(r.of, typ, data)
			if _, exists := r.model[h]; exists || !want[role](h) {
				continue
			}
			// no other object of the repository may share the first two bytes, so that the prefix
			// queries on the new object have exactly one right answer before and after the write
			clash := false
			for m := range r.model {
				if m[:4] == h[:4] {
					clash = true
				}
			}
			if clash {
				continue
			}
			out = append(out, c11wNew{role, h, typ, data})
			found = true
		}
		if !found {
			fw.Abort("c11 write pass (%s): no %s object found", r.of, role)
		}
	}
	for _, n := range out {
		got := g.MustRunIn(n.Data, "hash-object", "-t", n.Type, "--stdin").S()
		if got != n.Hex {
			fw.Abort("c11 write pass: git hash-object says %s for the %s object, computed %s", got, n.Role, n.Hex)
		}
		c.TracesValidated(1)
	}
	return out
}

func c11DoWrite(st *filesystem.Storage, api int, typ plumbing.ObjectType, data []byte) (h plumbing.Hash, err error) {
	if api == 0 {
		o := st.NewEncodedObject()
		o.SetType(typ)
		o.SetSize(int64(len(data)))
		w, err := o.Writer()
		if err != nil {
			return h, err
		}
		if _, err := w.Write(data); err != nil {
			return h, err
		}
		if err := w.Close(); err != nil {
			return h, err
		}
		return st.SetEncodedObject(o)
	}
	w, err := st.RawObjectWriter(typ, int64(len(data)))
	if err != nil {
		return h, err
	}
	if _, err := w.Write(data); err != nil {
		w.Close()
		return h, err
	}
	return h, w.Close()
}

func c11WritePass(c *fw.Ctx, r *c11Repo) {
	g := c.GitHome().In(filepath.Dir(r.dotgit))
	news := c11NewObjects(c, r, g)
	newBy := map[string]c11wNew{}
	for _, n := range news {
		newBy[n.Role] = n
	}
	var loose []string
	for h := range r.loose {
		loose = append(loose, h)
	}
	sort.Strings(loose)
	after := "" // the loose object right after w-mid
	for _, h := range loose {
		if h > newBy["w-mid"].Hex {
			after = h
			break
		}
	}

	// private copies of the repository (the alternate stays shared: it is never written)
	nCopies := 16
	pool := make(chan string, nCopies)
	root := c.TempDir("c11w-" + r.of)
	for i := 0; i < nCopies; i++ {
		d := filepath.Join(root, fmt.Sprintf("copy%d", i), ".git")
		c11CopyTree(r.dotgit, d)
		pool <- d
	}

	// base roles + the new ones (absent from the model until written) + a neighbour
	roles := map[string]string{}
	for k, v := range r.roles {
		roles[k] = v
	}
	for _, n := range news {
		roles[n.Role] = n.Hex
	}
	roles["loose-after-mid"] = after
	// model/local for every subset of written new objects
	type world struct {
		model map[string]c11Obj
		local map[string]bool
	}
	worlds := make([]world, 8)
	for m := 0; m < 8; m++ {
		w := world{map[string]c11Obj{}, map[string]bool{}}
		for k, v := range r.model {
			w.model[k] = v
		}
		for k, v := range r.local {
			w.local[k] = v
		}
		for i, n := range news {
			if m&(1<<i) != 0 {
				w.model[n.Hex] = c11Obj{n.Type, n.Data}
				w.local[n.Hex] = true
			}
		}
		worlds[m] = w
	}
	bit := map[string]int{"w-first": 1, "w-mid": 2, "w-last": 4}

	wm, wf, wl := newBy["w-mid"].Hex, newBy["w-first"].Hex, newBy["w-last"].Hex
	none := c11Op{Kind: -1}
	pre := []c11Op{none, {c11GetAny, "loose"}, {c11GetAny, "w-mid"}, {c11Iter, "any"}, {c11Prefix, ""}, {c11Prefix, wm[:2]}}
	writes := [][]c11wWrite{
		{{"Set(new-first)", "w-first", 0}},
		{{"Set(new-mid)", "w-mid", 0}},
		{{"Set(new-last)", "w-last", 0}},
		{{"RawWriter(new-first)", "w-first", 1}},
		{{"RawWriter(new-mid)", "w-mid", 1}},
		{{"Set(new-mid)", "w-mid", 0}, {"Set(new-first)", "w-first", 0}},
		{{"Set(new-last)", "w-last", 0}, {"RawWriter(new-mid)", "w-mid", 1}},
		{{"Set(existing-loose)", "loose", 0}},
		{{"Set(existing-packed)", "packA-base", 0}},
	}
	post := []c11Op{
		{c11GetAny, "w-first"}, {c11GetAny, "w-mid"}, {c11GetAny, "w-last"}, {c11GetTyped, "w-mid"}, {c11Has, "w-mid"}, {c11Size, "w-first"}, {c11Delta, "w-mid"},
		{c11Prefix, wf[:2]}, {c11Prefix, wm[:2]}, {c11Prefix, wl[:2]}, {c11Prefix, wm[:4]}, {c11Prefix, wm}, {c11Prefix, ""},
		{c11Prefix, r.roles["loose"][:4]}, {c11Prefix, after[:2]}, {c11Prefix, after},
		{c11Iter, "any"}, {c11Iter, "commit"}, {c11GetAny, "loose"}, {c11GetAny, "loose-after-mid"}, {c11GetAny, "packA-base"}, {c11Size, "packA-base"}, {c11GetAny, "packA-delta"},
	}
	var cfgs []c11Cfg
	for _, ex := range []bool{false, true} {
		for _, ca := range []int{0, 2} {
			for _, im := range []bool{false, true} {
				for lot := 0; lot < 2; lot++ {
					if r.of == "sha256" && (im || lot != 0) {
						continue
					}
					if lot != 0 && (im || ca != 2) {
						continue // the large-object threshold only matters for loose reads: combined with ExclusiveAccess only
					}
					cfgs = append(cfgs, c11Cfg{Excl: ex, Cache: ca, InMemIdx: im, LOT: lot})
				}
			}
		}
	}
	c.Bound("write_pass_"+r.of, fmt.Sprintf("%d configurations x %d reads before x %d write sequences x %d reads after, on %d private copies", len(cfgs), len(pre), len(writes), len(post), nCopies))
	c.States(len(cfgs))

	// runOne executes pre, the writes, post on a fresh Storage over a private copy; "" = ok
	runOne := func(k c11Cfg, p c11Op, ws []c11wWrite, q c11Op, classes func(string)) (where, bad, detail string, steps int) {
		dir := <-pool
		defer func() {
			// back to the initial state: drop whatever the writes created
			for _, n := range news {
				os.Remove(filepath.Join(dir, "objects", n.Hex[:2], n.Hex[2:]))
				os.Remove(filepath.Join(dir, "objects", n.Hex[:2]))
			}
			pb := r.roles["packA-base"]
			os.Remove(filepath.Join(dir, "objects", pb[:2], pb[2:]))
			os.Remove(filepath.Join(dir, "objects", pb[:2]))
			pool <- dir
		}()
		rr := *r
		rr.dotgit = dir
		rr.roles = roles
		state := 0
		rr.model, rr.local = worlds[state].model, worlds[state].local
		var st *filesystem.Storage
		if pn, what := ccGuard(func() { st = rr.open(k) }); pn {
			return "open", "panic", what, 0
		}
		defer ccGuard(func() { st.Close() })
		if p.Kind >= 0 {
			b, d, cl := rr.run(st, p)
			steps++
			if b != "" {
				return "before", b, d, steps
			}
			if classes != nil {
				classes("write-pass/before/" + c11KindName[p.Kind] + "/" + cl)
			}
		}
		for _, w := range ws {
			hex := roles[w.Role]
			var obj c11Obj
			if n, ok := newBy[w.Role]; ok {
				obj = c11Obj{n.Type, n.Data}
			} else {
				obj = r.model[hex]
			}
			var h plumbing.Hash
			var err error
			if pn, what := ccGuard(func() { h, err = c11DoWrite(st, w.API, c11TypeOf(obj.Type), obj.Data) }); pn {
				return "write", "panic", what, steps
			}
			steps++
			if err != nil {
				return "write", "write-error", w.Name + ": " + err.Error(), steps
			}
			if w.API == 0 && h.String() != hex {
				return "write", "wrong-hash", fmt.Sprintf("%s returned %s, git hash-object says %s", w.Name, h, hex), steps
			}
			state |= bit[w.Role]
			rr.model, rr.local = worlds[state].model, worlds[state].local
		}
		b, d, cl := rr.run(st, q)
		steps++
		if b != "" {
			return "after", b, d, steps
		}
		if classes != nil {
			qn := c11KindName[q.Kind]
			if n, ok := newBy[q.Role]; ok {
				qn += "(" + n.Role + ")"
			}
			classes(fmt.Sprintf("write-pass/after-%d-writes/%s/%s", len(ws), qn, cl))
		}
		return "", "", "", steps
	}

	type job struct {
		k c11Cfg
		p c11Op
	}
	var jobs []job
	for _, k := range cfgs {
		for _, p := range pre {
			jobs = append(jobs, job{k, p})
		}
	}
	c.ParDo(len(jobs), 0, func(i int) {
		j := jobs[i]
		trans := 0
		reported := map[string]bool{}
		for _, ws := range writes {
			for _, q := range post {
				where, bad, detail, steps := runOne(j.k, j.p, ws, q, c.Class)
				trans += steps
				c.Eval()
				if bad == "" {
					continue
				}
				// minimise: without the read before; with fewer writes; with default options
				p, w2, k := j.p, ws, j.k
				same := func(k c11Cfg, p c11Op, ws []c11wWrite) bool {
					wh, b, _, _ := runOne(k, p, ws, q, nil)
					return wh == where && b == bad
				}
				if p.Kind >= 0 && same(k, none, w2) {
					p = none
				}
				if len(w2) > 1 {
					for d := 0; d < len(w2); d++ {
						t := append(append([]c11wWrite(nil), w2[:d]...), w2[d+1:]...)
						if same(k, p, t) {
							w2 = t
							break
						}
					}
				}
				def := c11Cfg{Cache: 2}
				for _, f := range []func(*c11Cfg){func(t *c11Cfg) { t.Excl = def.Excl }, func(t *c11Cfg) { t.InMemIdx = def.InMemIdx }, func(t *c11Cfg) { t.LOT = def.LOT }, func(t *c11Cfg) { t.Cache = def.Cache }} {
					t := k
					f(&t)
					if t != k && same(t, p, w2) {
						k = t
					}
				}
				var ss []string
				if p.Kind >= 0 {
					ss = append(ss, "read") // any read before the write: the kind is in the replay, not in the key
				}
				for _, w := range w2 {
					ss = append(ss, w.Name)
				}
				obs := "*"
				if where != "after" {
					obs = ""
				}
				key := fmt.Sprintf("storage-write/%s>%s/%s-%s/[%s]", strings.Join(ss, ">"), obs, where, bad, k)
				sig := key
				if reported[sig] {
					continue
				}
				reported[sig] = true
				c.Fail(key, fmt.Sprintf("%s repository, options [%s]: on one Storage: read %v, writes %v, then %v: %s (%s: %s)", r.of, k, c11wOpStr(p), w2, q, bad, where, detail),
					map[string]any{"object_format": r.of, "options": k.String(), "read_before": c11wOpStr(p), "writes": fmt.Sprint(w2), "read_after": fmt.Sprint(q), "discrepancy": bad, "detail": detail,
						"new_objects": map[string]string{"w-first": wf, "w-mid": wm, "w-last": wl}, "original_options": j.k.String(), "original_writes": fmt.Sprint(ws), "original_read_before": c11wOpStr(j.p)})
			}
		}
		c.Transitions(trans)
	})
	_ = io.EOF
}

func c11wOpStr(o c11Op) string {
	if o.Kind < 0 {
		return "(none)"
	}
	return o.String()
}


package checks

// C43: history traversal. For every DAG x weak order of committer timestamps:
// Repository.Log in every order from every start (and --all over ref sets)
// yields exactly the reachable commits, each once, in an order satisfying the
// order's contract; Since/Until/To limits select what git's
// --since-as-filter/--until select (To = prefix up to and including the tail);
// commit-graph-backed CommitNode walks yield the same commits as object-backed
// ones and keep the same contract.
//
// Oracle: graph model (reach sets, first-parent chain, BFS distance, pop rule,
// topological constraint, per-commit time filter). The model is replayed
// against real `git rev-list` on the complete smaller space on every run.

import (
	"bytes"
	"fmt"
	"os"
	"path/filepath"
	"sort"
	"strings"
	"sync"
	"time"

	git "github.com/go-git/go-git/v6"
	"github.com/go-git/go-git/v6/plumbing"
	cgfmt "github.com/go-git/go-git/v6/plumbing/format/commitgraph"
	"github.com/go-git/go-git/v6/plumbing/object"
	cgobj "github.com/go-git/go-git/v6/plumbing/object/commitgraph"
	"github.com/go-git/go-git/v6/plumbing/storer"
	"github.com/go-git/go-git/v6/storage/memory"

	"verifmc/fw"
)

func init() {
	fw.Register(&fw.Check{ID: "C43", Level: "model_checking", Run: runC43, QuickBudget: 100, ThoroughBudget: 1200})
}

type c43Order struct {
	name  string
	order git.LogOrder
}

var c43Orders = []c43Order{
	{"default", git.LogOrderDefault},
	{"DFS", git.LogOrderDFS},
	{"DFSPost", git.LogOrderDFSPost},
	{"BFS", git.LogOrderBSF},
	{"CTime", git.LogOrderCommitterTime},
	{"DFSPostFirstParent", git.LogOrderDFSPostFirstParent},
}

// ---- model ----

func c43FirstParentChain(in *eInst, s int) []int {
	out := []int{s}
	for len(in.Parents[s]) > 0 {
		s = in.Parents[s][0]
		out = append(out, s)
	}
	return out
}

func c43Dist(in *eInst, s int) []int {
	d := make([]int, in.N)
	for i := range d {
		d[i] = -1
	}
	d[s] = 0
	q := []int{s}
	for len(q) > 0 {
		x := q[0]
		q = q[1:]
		for _, p := range in.Parents[x] {
			if d[p] < 0 {
				d[p] = d[x] + 1
				q = append(q, p)
			}
		}
	}
	return d
}

// c43PopSeq is git's default rev-list order when all timestamps in reach(s)
// are distinct: repeatedly emit the newest commit of the frontier.
func c43PopSeq(in *eInst, starts []int) []int {
	var front, done uint32
	for _, s := range starts {
		front |= 1 << s
	}
	var out []int
	for front != 0 {
		best := -1
		for _, x := range eBits(front) {
			if best < 0 || in.Time[x] > in.Time[best] {
				best = x
			}
		}
		out = append(out, best)
		done |= 1 << best
		front &^= 1 << best
		for _, p := range in.Parents[best] {
			if done&(1<<p) == 0 {
				front |= 1 << p
			}
		}
	}
	return out
}

func c43Strict(in *eInst, mask uint32) bool {
	seen := map[int64]bool{}
	for _, i := range eBits(mask) {
		if seen[in.Time[i]] {
			return false
		}
		seen[in.Time[i]] = true
	}
	return true
}

// contract predicates: return "" when the sequence satisfies the contract.

func c43PopRule(in *eInst, starts []int, seq []int) string {
	var front, done uint32
	for _, s := range starts {
		front |= 1 << s
	}
	for _, x := range seq {
		if front&(1<<x) == 0 {
			return "emitted a commit that is not in the frontier"
		}
		for _, y := range eBits(front) {
			if in.Time[y] > in.Time[x] {
				return "emitted a commit older than another commit waiting in the frontier"
			}
		}
		done |= 1 << x
		front &^= 1 << x
		for _, p := range in.Parents[x] {
			if done&(1<<p) == 0 {
				front |= 1 << p
			}
		}
	}
	return ""
}

func c43DFSPre(in *eInst, s int, seq []int) string {
	if len(seq) == 0 || seq[0] != s {
		return "does not begin with the start commit"
	}
	var done uint32 = 1 << seq[0]
	for i := 1; i < len(seq); i++ {
		u := -1
		for j := i - 1; j >= 0 && u < 0; j-- {
			for _, p := range in.Parents[seq[j]] {
				if done&(1<<p) == 0 {
					u = seq[j]
					break
				}
			}
		}
		if u < 0 {
			return "continues after every parent was emitted"
		}
		ok := false
		for _, p := range in.Parents[u] {
			if p == seq[i] {
				ok = true
			}
		}
		if !ok {
			return "not a depth-first pre-order"
		}
		done |= 1 << seq[i]
	}
	return ""
}

func c43BFS(in *eInst, s int, seq []int) string {
	if len(seq) == 0 || seq[0] != s {
		return "does not begin with the start commit"
	}
	d := c43Dist(in, s)
	for i := 1; i < len(seq); i++ {
		if d[seq[i]] < d[seq[i-1]] {
			return "distance from the start decreases"
		}
	}
	return ""
}

// c43MergedBeforeBase: the documented property of the "post-order" walker:
// "after walking a merge commit, the merged commit will be walked before the
// base it was merged on": when a merge is emitted while its base (first
// parent) and at least one merged parent are still unwalked, some merged
// parent is emitted before the base.
func c43MergedBeforeBase(in *eInst, s int, seq []int) string {
	if len(seq) == 0 || seq[0] != s {
		return "does not begin with the start commit"
	}
	pos := make([]int, in.N)
	for i := range pos {
		pos[i] = -1
	}
	for i, x := range seq {
		pos[x] = i
	}
	for i, m := range seq {
		ps := in.Parents[m]
		if len(ps) < 2 || pos[ps[0]] < i {
			continue
		}
		pending, before := false, false
		for _, x := range ps[1:] {
			if pos[x] > i {
				pending = true
				if pos[x] < pos[ps[0]] {
					before = true
				}
			}
		}
		if pending && !before {
			return "base walked before every merged commit"
		}
	}
	return ""
}

// c43Topo: no parent before all of its children (within the walked set).
func c43Topo(in *eInst, seq []int) string {
	pos := make([]int, in.N)
	for i := range pos {
		pos[i] = -1
	}
	for i, x := range seq {
		pos[x] = i
	}
	for _, x := range seq {
		for _, p := range in.Parents[x] {
			if pos[p] >= 0 && pos[p] < pos[x] {
				return "parent emitted before its child"
			}
		}
	}
	return ""
}

// ---- driving go-git ----

func c43Collect(in *eInst, next func() (plumbing.Hash, error), capN int) (seq []int, errS string) {
	pan := eSafe(func() {
		for {
			h, err := next()
			if err != nil {
				if err.Error() != "EOF" {
					errS = "error: " + err.Error()
				}
				return
			}
			seq = append(seq, in.Idx(h))
			if len(seq) > capN {
				errS = "runaway: more commits than exist"
				return
			}
		}
	})
	if pan != "" {
		errS = "panic: " + pan
	}
	return
}

func c43Log(r *git.Repository, in *eInst, o *git.LogOptions) ([]int, string) {
	var it object.CommitIter
	var err error
	if pan := eSafe(func() { it, err = r.Log(o) }); pan != "" {
		return nil, "panic: " + pan
	}
	if err != nil {
		return nil, "error: " + err.Error()
	}
	defer it.Close()
	// ForEach is what callers use (it implements the To/ErrStop protocol)
	var seq []int
	errS := ""
	pan := eSafe(func() {
		e := it.ForEach(func(c *object.Commit) error {
			seq = append(seq, in.Idx(c.Hash))
			if len(seq) > 3*in.N+4 {
				errS = "runaway: more commits than exist"
				return storer.ErrStop
			}
			return nil
		})
		if e != nil {
			errS = "error: " + e.Error()
		}
	})
	if pan != "" {
		errS = "panic: " + pan
	}
	return seq, errS
}

// c43SetKinds compares a walked sequence with the expected set.
func c43SetKinds(seq []int, want uint32) (kinds []string, got uint32) {
	dup, foreign := false, false
	for _, x := range seq {
		if x < 0 {
			foreign = true
			continue
		}
		if got&(1<<x) != 0 {
			dup = true
		}
		got |= 1 << x
	}
	if foreign {
		kinds = append(kinds, "unknown-commit")
	}
	if dup {
		kinds = append(kinds, "commit-twice")
	}
	if want&^got != 0 {
		kinds = append(kinds, "missing-commit")
	}
	if got&^want != 0 {
		kinds = append(kinds, "unreachable-commit")
	}
	return
}

type nopCloserAt struct{ *bytes.Reader }

func (nopCloserAt) Close() error { return nil }

type c43Graphs struct {
	full, partial []byte // git-written commit-graph files (partial: commits numbered 0 and 1 only)
	v1            []byte // the full graph written with commitGraph.generationVersion=1 (no generation data chunk)
	chain, mixed  [][]byte // 2-layer chains (layer 0 = commits numbered 0 and 1); mixed: layer 1 written without generation data
}

func runC43(c *fw.Ctx) {
	maxN := c.Pick(4, 5)
	litN := 3
	graphN := 4
	maxPar := func(n int) int {
		if n <= 4 {
			return 3
		}
		return 2
	}
	// up to 4 commits: ordered parent lists x all weak orders. At 5 commits
	// (thorough) the space is split to stay within budget: the orders that
	// never read a timestamp run on every ordered-parent DAG with one
	// timestamp assignment per DAG shape class (ranks ascending and
	// descending), the timestamp-dependent walks (CTime, limits) on every
	// ascending-parent DAG x every weak order.
	space := eNewSpace(min(maxN, 4), maxPar, eAlways)
	c.Bound("max_commits", maxN)
	c.Bound("space_upto4", space.Sizes())
	c.Bound("orders", []string{"default", "DFS", "DFSPost", "BFS", "CTime", "DFSPostFirstParent", "All x each"})
	c.Bound("limits", "sources DFS, BFS, CTime; Since in {none, t, t+1}, Until in {none, t-1, t} for every timestamp t present (full product for CTime, one-sided for DFS/BFS); To = every commit (alone; with every exact Since for CTime)")
	c.Bound("all_ref_sets", "branches on every 1- and 2-subset of the commits, HEAD symbolic to the first or detached on every commit")
	c.Bound("commit_graph", fmt.Sprintf("git-written commit-graph over the complete <=%d-commit space: full with generation v2, partial (commits 0,1 only), full without generation data (commitGraph.generationVersion=1), 2-layer chain (layer 0 = commits 0,1), 2-layer chain with generation data in layer 0 only; CommitNode iterators CTime/Topo/Date/AuthorDate from every start", graphN))
	c.Bound("conformance_max_commits", litN)
	c.SetRule("every DAG (ordered parent lists, octopus up to 4 commits) x every weak order of committer timestamps; Repository.Log per order/start/limit/ref set and commitgraph CommitNode iterators on a memory store holding the raw commits (graph-backed: a commit-graph file written by git); oracle = graph model (reach set, first-parent chain, BFS distance, pop rule, merged-before-base, topological constraint, time filter, prefix-to-tail); the model is replayed against real `git rev-list [--first-parent] [--since-as-filter --until | --since] <starts>` for every distinct start of the complete space up to conformance_max_commits; non-trivial = walks from a commit with at least one parent; distinct counts (walker, result length, merge/time shape, limit shape) classes")
	c.Assume("git 2.39.5 rev-list is the reference; go-git's Since/Until are per-commit filters = git --since-as-filter/--until (plain --since only for monotone timestamps); To has no git counterpart: contract = prefix of the same walk up to and including the tail; DFS/BFS/post-order contracts are the generic definitions (any parent order)")

	insts := make([]*eInst, space.Total)
	for i := range insts {
		insts[i] = space.Inst(i, nil)
	}
	repo := eBuildRepo(c, "c43", insts)
	c.Extra("repo_commits", repo.NObjs)
	graphs := c43WriteGraphs(c, repo, insts)
	c.Extra("setup_seconds", int(c.Elapsed().Seconds()))

	fails := eNewFailSet()
	c.States(space.Total)
	c.ParDo(space.Total, 0, func(idx int) {
		in := insts[idx]
		if idx%4001 == 7 {
			c.Sample(map[string]any{"index": idx, "instance": in.Desc()})
		}
		c43Instance(c, in, idx, fails, true, true, false)
		c43GraphInstance(c, in, idx, fails, graphs)
	})
	if maxN >= 5 && !c.Expired() {
		// timestamp-independent orders: every ordered-parent 5-commit DAG
		d5 := fw.DAGs(5, 2, true)
		base := space.Total
		asc := []int{0, 1, 2, 3, 4}
		desc := []int{4, 3, 2, 1, 0}
		c.Bound("space_5_untimed", fmt.Sprintf("%d ordered-parent DAGs x {ascending, descending} timestamps: default/DFS/DFSPost/BFS/FirstParent/All", len(d5)))
		c.States(2 * len(d5))
		c.ParDo(2*len(d5), 0, func(k int) {
			r := asc
			if k%2 == 1 {
				r = desc
			}
			in := eNewInst(d5[k/2], r, nil)
			c43Instance(c, in, base+k, fails, true, false, false)
		})
		base += 2 * len(d5)
		// timestamp-dependent walks: ascending-parent DAGs x all weak orders
		sp5 := eNewSpace(5, maxPar, func(int) bool { return false })
		n5 := sp5.Total - sp5.Start[5]
		c.Bound("space_5_timed", fmt.Sprintf("%d ascending-parent DAGs x %d weak orders: CTime walk, one-sided Since/Until on and between every timestamp, two-sided on exact timestamps, To on every commit", len(sp5.Dags[5]), len(sp5.Ords[5])))
		c.States(n5)
		c.ParDo(n5, 0, func(k int) {
			in := sp5.Inst(sp5.Start[5]+k, nil)
			c43Instance(c, in, base+k, fails, false, true, true)
		})
	}
	fails.Report(c)
	// the model-vs-git replay runs last so that a slow machine cuts the
	// replay, not the enumeration (both are complete on an idle machine)
	t0 := c.Elapsed()
	if c.Expired() {
		c.Incomplete("deadline reached before the model-vs-git conformance replay")
		return
	}
	c43Conformance(c, repo, insts, litN)
	c.Extra("conformance_seconds", int((c.Elapsed() - t0).Seconds()))
}

// ---------------------------------------------------------------------------

func c43Instance(c *fw.Ctx, in *eInst, idx int, fails *eFailSet, untimed, timed, lite bool) {
	st := eMemStore(in)
	r, err := git.Init(st)
	if err != nil {
		fw.Abort("git.Init on memory store: %v", err)
	}
	n := in.N
	rep := func(op string, q any, got, want any) func() map[string]any {
		return func() map[string]any {
			return map[string]any{"instance": in.Desc(), "op": op, "query": q, "go_git": got, "expected": want}
		}
	}
	mshape := func(mask uint32) string {
		merges := 0
		for _, i := range eBits(mask) {
			if len(in.Parents[i]) > 1 {
				merges++
			}
		}
		return fmt.Sprintf("m%d", min(merges, 2))
	}
	full := map[[2]int][]int{} // (order, start) -> unlimited sequence

	for oi, o := range c43Orders {
		timeDep := o.name == "CTime"
		if (timeDep && !timed) || (!timeDep && !untimed) {
			continue
		}
		for s := 0; s < n; s++ {
			seq, errS := c43Log(r, in, &git.LogOptions{From: in.H[s], Order: o.order})
			c.Eval()
			c.Transitions(1)
			want := in.anc[s]
			var wantSeq []int
			if o.name == "DFSPostFirstParent" {
				wantSeq = c43FirstParentChain(in, s)
				want = eMask(wantSeq)
			}
			q := fmt.Sprintf("Log(From=%d,Order=%s)", s, o.name)
			if errS != "" {
				fails.Add("Log "+o.name+": "+strings.SplitN(errS, ":", 2)[0], idx, q, in.String()+" "+q+" "+errS, rep("Log", q, errS, eBits(want)))
				continue
			}
			full[[2]int{oi, s}] = seq
			// the other way to consume an iterator: Next() until io.EOF
			if it, err := r.Log(&git.LogOptions{From: in.H[s], Order: o.order}); err == nil {
				seqN, errN := c43Collect(in, func() (plumbing.Hash, error) {
					cm, err := it.Next()
					if err != nil {
						return plumbing.ZeroHash, err
					}
					return cm.Hash, nil
				}, 3*in.N+4)
				it.Close()
				c.Eval()
				c.Transitions(1)
				if errN != "" || fmt.Sprint(seqN) != fmt.Sprint(seq) {
					fails.Add("Log "+o.name+": Next() yields another sequence than ForEach", idx, q, fmt.Sprintf("%s %s Next=%v %s ForEach=%v", in, q, seqN, errN, seq), rep("Log via Next()", q, fmt.Sprint(seqN, " ", errN), seq))
				}
			}
			kinds, _ := c43SetKinds(seq, want)
			contract := ""
			if len(kinds) == 0 {
				switch o.name {
				case "default", "DFS":
					contract = c43DFSPre(in, s, seq)
				case "BFS":
					contract = c43BFS(in, s, seq)
				case "DFSPost":
					contract = c43MergedBeforeBase(in, s, seq)
				case "CTime":
					contract = c43PopRule(in, []int{s}, seq)
				case "DFSPostFirstParent":
					if fmt.Sprint(seq) != fmt.Sprint(wantSeq) {
						contract = "not the first-parent chain in order"
					}
				}
				if contract != "" {
					kinds = append(kinds, "order contract: "+contract)
				}
			}
			if len(kinds) > 0 {
				fails.Add(fmt.Sprintf("Log %s: %s [%s]", o.name, strings.Join(kinds, "+"), in.TimeShape(in.anc[s])), idx, q,
					fmt.Sprintf("%s %s go-git=%v expected set=%v", in, q, seq, eBits(want)), rep("Log", q, seq, eBits(want)))
			}
			if len(in.Parents[s]) > 0 {
				c.Class(fmt.Sprintf("log %s len%d %s %s", o.name, len(seq), mshape(in.anc[s]), in.TimeShape(in.anc[s])))
			}
		}
	}

	// ---- limits
	var times []int64
	{
		seen := map[int64]bool{}
		for _, t := range in.Time {
			if !seen[t] {
				seen[t] = true
				times = append(times, t)
			}
		}
		sort.Slice(times, func(i, j int) bool { return times[i] < times[j] })
	}
	sinces := []int64{0}
	untils := []int64{0}
	for _, t := range times {
		sinces = append(sinces, t, t+1)
		untils = append(untils, t-1, t)
	}
	filter := func(seq []int, since, until int64) []int {
		var out []int
		for _, x := range seq {
			if since != 0 && in.Time[x] < since {
				continue
			}
			if until != 0 && in.Time[x] > until {
				continue
			}
			out = append(out, x)
		}
		return out
	}
	tp := func(t int64) *time.Time {
		if t == 0 {
			return nil
		}
		x := time.Unix(t, 0).UTC()
		return &x
	}
	for oi, o := range c43Orders {
		timeDep := o.name == "CTime"
		if o.name == "default" || (!timed && timeDep) || (!untimed && !timeDep) {
			continue
		}
		if !timed {
			continue // limits are exercised in the timed part only (they read timestamps)
		}
		if o.name == "DFSPost" || o.name == "DFSPostFirstParent" {
			continue // the limit wrapper is order-agnostic: DFS, BFS and CTime sources
		}
		for s := 0; s < n; s++ {
			base, ok := full[[2]int{oi, s}]
			if !ok {
				// the unlimited walk was not run in this split (n=5): run it now
				var errS string
				base, errS = c43Log(r, in, &git.LogOptions{From: in.H[s], Order: o.order})
				if errS != "" {
					continue
				}
			}
			for _, since := range sinces {
				for _, until := range untils {
					if since == 0 && until == 0 {
						continue
					}
					if !timeDep && since != 0 && until != 0 {
						continue // full product only for CTime
					}
					if lite && since != 0 && until != 0 && ((since-eBase)%eStep != 0 || (until-eBase)%eStep != 0 || since > until) {
						continue // 5 commits: two-sided limits on exact timestamps only
					}
					seq, errS := c43Log(r, in, &git.LogOptions{From: in.H[s], Order: o.order, Since: tp(since), Until: tp(until)})
					c.Eval()
					c.Transitions(1)
					want := filter(base, since, until)
					q := fmt.Sprintf("Log(From=%d,Order=%s,Since=%d,Until=%d)", s, o.name, since, until)
					if errS != "" || fmt.Sprint(seq) != fmt.Sprint(want) {
						kind := "selects other commits than git --since-as-filter/--until"
						if errS != "" {
							kind = strings.SplitN(errS, ":", 2)[0]
						} else if k, _ := c43SetKinds(seq, eMask(want)); len(k) == 0 {
							kind = "same commits, order differs from the unlimited walk"
						}
						fails.Add("Log limit Since/Until: "+kind, idx, q, fmt.Sprintf("%s %s go-git=%v%s expected=%v", in, q, seq, errS, want), rep("Log", q, fmt.Sprint(seq)+errS, want))
					}
					if len(in.Parents[s]) > 0 {
						c.Class(fmt.Sprintf("lim %s s%v u%v keep%d/%d", o.name, since != 0, until != 0, len(want), len(base)))
					}
				}
			}
			// To, alone and with Since
			for t := 0; t < n; t++ {
				for _, since := range sinces {
					if since != 0 && ((since-eBase)%eStep != 0 || lite || !timeDep) {
						continue // To combined with Since: CTime only
					}
					seq, errS := c43Log(r, in, &git.LogOptions{From: in.H[s], Order: o.order, To: in.H[t], Since: tp(since)})
					c.Eval()
					c.Transitions(1)
					var want []int
					for _, x := range filter(base, since, 0) {
						want = append(want, x)
						if x == t {
							break
						}
					}
					q := fmt.Sprintf("Log(From=%d,Order=%s,To=%d,Since=%d)", s, o.name, t, since)
					if errS != "" || fmt.Sprint(seq) != fmt.Sprint(want) {
						kind := "not the prefix up to and including the tail"
						if errS != "" {
							kind = strings.SplitN(errS, ":", 2)[0]
						}
						fails.Add("Log limit To: "+kind, idx, q, fmt.Sprintf("%s %s go-git=%v%s expected=%v", in, q, seq, errS, want), rep("Log", q, fmt.Sprint(seq)+errS, want))
					}
					if len(in.Parents[s]) > 0 {
						c.Class(fmt.Sprintf("to %s hit%v s%v", o.name, len(want) > 0 && want[len(want)-1] == t, since != 0))
					}
				}
			}
		}
	}

	// ---- All: ref sets
	if !lite {
		type refset struct {
			branches []int
			head     int // -1: symbolic to first branch; else detached at commit
		}
		var sets []refset
		for a := 0; a < n; a++ {
			sets = append(sets, refset{[]int{a}, -1})
			for b := 0; b < n; b++ {
				if b != a {
					sets = append(sets, refset{[]int{a, b}, -1})
					sets = append(sets, refset{[]int{a}, b})
				}
			}
		}
		for _, rs := range sets {
			// reset refs
			it, _ := st.IterReferences()
			var names []plumbing.ReferenceName
			it.ForEach(func(r *plumbing.Reference) error { names = append(names, r.Name()); return nil })
			for _, nm := range names {
				st.RemoveReference(nm)
			}
			var tips uint32
			for bi, b := range rs.branches {
				st.SetReference(plumbing.NewHashReference(plumbing.NewBranchReferenceName(fmt.Sprintf("b%d", bi)), in.H[b]))
				tips |= 1 << b
			}
			if rs.head < 0 {
				st.SetReference(plumbing.NewSymbolicReference(plumbing.HEAD, plumbing.NewBranchReferenceName("b0")))
			} else {
				st.SetReference(plumbing.NewHashReference(plumbing.HEAD, in.H[rs.head]))
				tips |= 1 << rs.head
			}
			var want uint32
			for _, t := range eBits(tips) {
				want |= in.anc[t]
			}
			for _, o := range c43Orders {
				timeDep := o.name == "CTime"
				if o.name == "default" || (timeDep && !timed) || (!timeDep && !untimed) {
					continue
				}
				seq, errS := c43Log(r, in, &git.LogOptions{All: true, Order: o.order})
				c.Eval()
				c.Transitions(1)
				q := fmt.Sprintf("Log(All,Order=%s) branches=%v head=%d", o.name, rs.branches, rs.head)
				w := want
				if o.name == "DFSPostFirstParent" {
					w = 0
					for _, t := range eBits(tips) {
						w |= eMask(c43FirstParentChain(in, t))
					}
				}
				if errS != "" {
					fails.Add("Log All "+o.name+": "+strings.SplitN(errS, ":", 2)[0], idx, q, in.String()+" "+q+" "+errS, rep("Log", q, errS, eBits(w)))
					continue
				}
				kinds, _ := c43SetKinds(seq, w)
				if len(kinds) > 0 {
					key := fmt.Sprintf("Log All %s: %s", o.name, strings.Join(kinds, "+"))
					if strings.Join(kinds, "+") == "missing-commit" {
						// one shared cause whatever the order (commitAllIterator)
						key = "Log All: missing-commit"
					}
					fails.Add(key, idx, q,
						fmt.Sprintf("%s %s go-git=%v expected set=%v", in, q, seq, eBits(w)), rep("Log", q, seq, eBits(w)))
				}
				if len(eBits(tips)) > 1 {
					c.Class(fmt.Sprintf("all %s tips%d len%d/%d", o.name, len(eBits(tips)), len(seq), len(eBits(w))))
				}
			}
		}
	}
}

// ---------------------------------------------------------------------------
// commit-graph-backed CommitNode walks vs object-backed walks

type c43NodeIter struct {
	name string
	mk   func(cgobj.CommitNode) cgobj.CommitNodeIter
}

var c43NodeIters = []c43NodeIter{
	{"CTime", func(n cgobj.CommitNode) cgobj.CommitNodeIter { return cgobj.NewCommitNodeIterCTime(n, nil, nil) }},
	{"TopoOrder", func(n cgobj.CommitNode) cgobj.CommitNodeIter { return cgobj.NewCommitNodeIterTopoOrder(n, nil, nil) }},
	{"DateOrder", func(n cgobj.CommitNode) cgobj.CommitNodeIter { return cgobj.NewCommitNodeIterDateOrder(n, nil, nil) }},
	{"AuthorDateOrder", func(n cgobj.CommitNode) cgobj.CommitNodeIter {
		return cgobj.NewCommitNodeIterAuthorDateOrder(n, nil, nil)
	}},
}

func c43GraphInstance(c *fw.Ctx, in *eInst, idx int, fails *eFailSet, g *c43Graphs) {
	st := eMemStore(in)
	type backing struct {
		name string
		ni   cgobj.CommitNodeIndex
	}
	open := func(b []byte) cgfmt.Index {
		ix, err := cgfmt.OpenFileIndex(nopCloserAt{bytes.NewReader(b)})
		if err != nil {
			fails.Add("commit-graph: go-git cannot open the file git wrote", idx, "", err.Error(), func() map[string]any { return map[string]any{"error": err.Error()} })
			return nil
		}
		return ix
	}
	backs := []backing{{"object", cgobj.NewObjectCommitNodeIndex(st)}}
	if ix := open(g.full); ix != nil {
		backs = append(backs, backing{"graph", cgobj.NewGraphCommitNodeIndex(ix, st)})
	}
	if ix := open(g.partial); ix != nil {
		backs = append(backs, backing{"partial-graph", cgobj.NewGraphCommitNodeIndex(ix, st)})
	}
	if ix := open(g.v1); ix != nil {
		if ix.HasGenerationV2() {
			fails.Add("commit-graph: generation v2 claimed for a file without generation data", idx, "", "", func() map[string]any { return map[string]any{} })
		}
		backs = append(backs, backing{"graph-without-generation-data", cgobj.NewGraphCommitNodeIndex(ix, st)})
	}
	openChain := func(layers [][]byte) cgfmt.Index {
		var ix cgfmt.Index
		for _, b := range layers {
			nx, err := cgfmt.OpenFileIndexWithParent(nopCloserAt{bytes.NewReader(b)}, ix)
			if err != nil {
				fails.Add("commit-graph: go-git cannot open the chain git wrote", idx, "", err.Error(), func() map[string]any { return map[string]any{"error": err.Error()} })
				return nil
			}
			ix = nx
		}
		return ix
	}
	if ix := openChain(g.chain); ix != nil {
		backs = append(backs, backing{"graph-chain", cgobj.NewGraphCommitNodeIndex(ix, st)})
	}
	if ix := openChain(g.mixed); ix != nil {
		backs = append(backs, backing{"graph-chain-mixed-generation-data", cgobj.NewGraphCommitNodeIndex(ix, st)})
	}
	for s := 0; s < in.N; s++ {
		for _, ni := range c43NodeIters {
			seqs := map[string][]int{}
			for _, b := range backs {
				var node cgobj.CommitNode
				var err error
				q := fmt.Sprintf("%s/%s from %d", b.name, ni.name, s)
				rep := func(got any) func() map[string]any {
					return func() map[string]any {
						return map[string]any{"instance": in.Desc(), "op": "CommitNodeIter", "query": q, "go_git": got, "expected_set": eBits(in.anc[s])}
					}
				}
				if pan := eSafe(func() { node, err = b.ni.Get(in.H[s]) }); pan != "" || err != nil {
					fails.Add("CommitNodeIndex.Get ("+b.name+"): error", idx, q, fmt.Sprint(pan, err), rep(fmt.Sprint(pan, err)))
					continue
				}
				var it cgobj.CommitNodeIter
				if pan := eSafe(func() { it = ni.mk(node) }); pan != "" {
					fails.Add("CommitNodeIter "+ni.name+" ("+b.name+"): panic", idx, q, pan, rep(pan))
					continue
				}
				seq, errS := c43Collect(in, func() (plumbing.Hash, error) {
					n, err := it.Next()
					if err != nil {
						return plumbing.ZeroHash, err
					}
					return n.ID(), nil
				}, 3*in.N+4)
				c.Eval()
				c.Transitions(1)
				if errS != "" {
					fails.Add("CommitNodeIter "+ni.name+" ("+b.name+"): "+strings.SplitN(errS, ":", 2)[0], idx, q, in.String()+" "+q+" "+errS, rep(errS))
					continue
				}
				seqs[b.name] = seq
				kinds, _ := c43SetKinds(seq, in.anc[s])
				if len(kinds) == 0 {
					contract := ""
					if ni.name == "CTime" {
						contract = c43PopRule(in, []int{s}, seq)
					} else {
						contract = c43Topo(in, seq)
					}
					if contract != "" {
						kinds = append(kinds, "order contract: "+contract)
					}
				}
				if len(kinds) > 0 {
					grp, shape := ni.name, "monotone timestamps"
					if ni.name != "CTime" {
						grp = "topological" // Topo/Date/AuthorDate share commitNodeIteratorTopological
					}
					if in.TimeShape(in.anc[s]) != "mono" {
						shape = "non-monotone timestamps"
					}
					fails.Add(fmt.Sprintf("CommitNodeIter %s (%s): %s [%s]", grp, b.name, strings.Join(kinds, "+"), shape), idx, q,
						fmt.Sprintf("%s %s go-git=%v expected set=%v", in, q, seq, eBits(in.anc[s])), rep(seq))
				}
			}
			if len(in.Parents[s]) > 0 {
				same := "same-seq"
				if o, ok := seqs["object"]; ok {
					for _, b := range backs[1:] {
						if g, ok := seqs[b.name]; ok && fmt.Sprint(g) != fmt.Sprint(o) {
							same = "seq-differs"
						}
					}
				}
				c.Class(fmt.Sprintf("node %s len%d %s %s", ni.name, len(seqs["object"]), in.TimeShape(in.anc[s]), same))
			}
		}
	}
}

// c43WriteGraphs lets git write the commit-graph over all commits of the
// repository (full) and over the commits numbered 0 and 1 only (partial:
// ancestor-closed, so the walk enters the graph part-way).
func c43WriteGraphs(c *fw.Ctx, repo *eRepo, insts []*eInst) *c43Graphs {
	var all, low bytes.Buffer
	seen := map[string]bool{}
	for _, in := range insts {
		for i := 0; i < in.N; i++ {
			if seen[in.ID[i]] {
				continue
			}
			seen[in.ID[i]] = true
			all.WriteString(in.ID[i] + "\n")
			if i <= 1 {
				low.WriteString(in.ID[i] + "\n")
			}
		}
	}
	path := filepath.Join(repo.Dir, "objects", "info", "commit-graph")
	g := &c43Graphs{}
	var err error
	repo.G.MustRunIn(low.Bytes(), "commit-graph", "write", "--stdin-commits")
	if g.partial, err = os.ReadFile(path); err != nil {
		fw.Abort("partial commit-graph: %v", err)
	}
	repo.G.MustRunIn(all.Bytes(), "commit-graph", "write", "--stdin-commits")
	if g.full, err = os.ReadFile(path); err != nil {
		fw.Abort("commit-graph: %v", err)
	}
	repo.G.MustRun("commit-graph", "verify")
	os.Remove(path)
	// the same graph without the generation data chunk (what older gits and
	// commitGraph.generationVersion=1 write): the walkers fall back to generation v1
	gv1 := repo.G.C("commitGraph.generationVersion=1")
	gv1.MustRunIn(all.Bytes(), "commit-graph", "write", "--stdin-commits")
	if g.v1, err = os.ReadFile(path); err != nil {
		fw.Abort("v1 commit-graph: %v", err)
	}
	if bytes.Contains(g.v1[:200], []byte("GDA2")) || !bytes.Contains(g.full[:200], []byte("GDA2")) {
		fw.Abort("generation data chunk: unexpected presence/absence in the git-written graphs")
	}
	repo.G.MustRun("commit-graph", "verify")
	os.Remove(path)
	// 2-layer chains: layer 0 = commits numbered 0 and 1
	chainDir := filepath.Join(repo.Dir, "objects", "info", "commit-graphs")
	readChain := func(what string) [][]byte {
		cb, err := os.ReadFile(filepath.Join(chainDir, "commit-graph-chain"))
		if err != nil {
			fw.Abort("%s: %v", what, err)
		}
		var out [][]byte
		for _, l := range eLines(cb) {
			b, err := os.ReadFile(filepath.Join(chainDir, "graph-"+l+".graph"))
			if err != nil {
				fw.Abort("%s: %v", what, err)
			}
			out = append(out, b)
		}
		if len(out) != 2 {
			fw.Abort("%s: git wrote %d layers", what, len(out))
		}
		return out
	}
	for _, mixed := range []bool{false, true} {
		os.RemoveAll(chainDir)
		repo.G.MustRunIn(low.Bytes(), "commit-graph", "write", "--split=no-merge", "--stdin-commits")
		top := repo.G
		if mixed {
			top = gv1
		}
		top.MustRunIn(all.Bytes(), "commit-graph", "write", "--split=no-merge", "--stdin-commits")
		repo.G.MustRun("commit-graph", "verify")
		if mixed {
			g.mixed = readChain("mixed chain")
			if bytes.Contains(g.mixed[1][:200], []byte("GDA2")) || !bytes.Contains(g.mixed[0][:200], []byte("GDA2")) {
				fw.Abort("mixed chain: generation data chunk expected in layer 0 only")
			}
		} else {
			g.chain = readChain("chain")
		}
	}
	os.RemoveAll(chainDir)
	c.Extra("commit_graph_bytes", map[string]int{"full": len(g.full), "partial": len(g.partial), "without_generation_data": len(g.v1), "chain_top_layer": len(g.chain[1]), "mixed_chain_top_layer": len(g.mixed[1])})
	return g
}

// ---------------------------------------------------------------------------
// conformance: model vs real git rev-list

func c43Conformance(c *fw.Ctx, repo *eRepo, insts []*eInst, litN int) {
	type query struct {
		args []string
		set  bool   // compare as set
		exp  []string
		inst string
	}
	qs := map[string]*query{}
	add := func(in *eInst, exp []int, set bool, args ...string) {
		e := make([]string, len(exp))
		for i, x := range exp {
			e[i] = in.ID[x]
		}
		if set {
			sort.Strings(e)
		}
		k := strings.Join(args, " ")
		if set {
			k = "set " + k
		}
		if old, ok := qs[k]; ok {
			if strings.Join(old.exp, " ") != strings.Join(e, " ") {
				fw.Abort("reference model is not a function of the objects: %s expects differently for %s and %s", k, old.inst, in)
			}
			return
		}
		qs[k] = &query{args: args, set: set, exp: e, inst: in.String()}
	}
	for _, in := range insts {
		if in.N > litN {
			continue
		}
		for s := 0; s < in.N; s++ {
			reach := in.anc[s]
			add(in, eBits(reach), true, "rev-list", in.ID[s])
			if c43Strict(in, reach) {
				add(in, c43PopSeq(in, []int{s}), false, "rev-list", in.ID[s])
			}
			add(in, c43FirstParentChain(in, s), false, "rev-list", "--first-parent", in.ID[s])
			if len(in.Parents[s]) == 0 {
				continue
			}
			// limits on the timestamps present in reach(s)
			seen := map[int64]bool{}
			var ts []int64
			for _, i := range eBits(reach) {
				if !seen[in.Time[i]] {
					seen[in.Time[i]] = true
					ts = append(ts, in.Time[i])
				}
			}
			sort.Slice(ts, func(i, j int) bool { return ts[i] < ts[j] })
			sel := func(since, until int64) []int {
				var out []int
				for _, i := range eBits(reach) {
					if (since == 0 || in.Time[i] >= since) && (until == 0 || in.Time[i] <= until) {
						out = append(out, i)
					}
				}
				return out
			}
			mono := in.TimeShape(reach) == "mono"
			for _, t := range ts {
				add(in, sel(t, 0), true, "rev-list", fmt.Sprintf("--since-as-filter=%d", t), in.ID[s])
				add(in, sel(t+1, 0), true, "rev-list", fmt.Sprintf("--since-as-filter=%d", t+1), in.ID[s])
				add(in, sel(0, t), true, "rev-list", fmt.Sprintf("--until=%d", t), in.ID[s])
				add(in, sel(0, t-1), true, "rev-list", fmt.Sprintf("--until=%d", t-1), in.ID[s])
				if mono {
					add(in, sel(t, 0), true, "rev-list", fmt.Sprintf("--since=%d", t), in.ID[s])
				}
				for _, u := range ts {
					if u >= t {
						add(in, sel(t, u), true, "rev-list", fmt.Sprintf("--since-as-filter=%d", t), fmt.Sprintf("--until=%d", u), in.ID[s])
					}
				}
			}
		}
		// several starts (= --all over refs at these commits)
		for a := 0; a < in.N; a++ {
			for b := a + 1; b < in.N; b++ {
				add(in, eBits(in.anc[a]|in.anc[b]), true, "rev-list", in.ID[a], in.ID[b])
			}
		}
	}
	keys := make([]string, 0, len(qs))
	for k := range qs {
		keys = append(keys, k)
	}
	sort.Strings(keys)
	var mu sync.Mutex
	done := 0
	c.ParDo(len(keys), 0, func(i int) {
		q := qs[keys[i]]
		r := repo.G.MustRun(q.args...)
		got := eLines(r.Out)
		if q.set {
			sort.Strings(got)
		}
		if strings.Join(got, " ") != strings.Join(q.exp, " ") {
			fw.Abort("reference model disagrees with real git: git %s = %v, model = %v (instance %s)", strings.Join(q.args, " "), got, q.exp, q.inst)
		}
		c.TracesValidated(1)
		mu.Lock()
		done++
		mu.Unlock()
	})
	c.Extra("conformance_distinct_git_queries", map[string]int{"planned": len(keys), "run": done})
}

var _ = memory.NewStorage

package checks

import (
	"fmt"
	"strings"

	"verifmc/fw"
)

// c50ExtraRequests builds one rich tree in the repository of g and adds the
// requests the subset enumeration does not contain: several path filters at
// once, trailing-slash / nested / wildcard filters, a filter naming a directory
// whose name is a prefix of its siblings' names, the tgz and default formats,
// a branch name / a tag of a tag / `<commit>:<dir>` as tree-ish, nested and
// long prefixes; the tree has a group-writable (100664) file, symlinks with
// long targets, a blob larger than any copy buffer, non-ASCII and blank names.
func c50ExtraRequests(c *fw.Ctx, g *fw.Git, add func(kind, treeish, prefix, fkind, format string, filters []string)) {
	blob := func(data string) string {
		return g.MustRunIn([]byte(data), "hash-object", "-w", "--stdin").S()
	}
	mktree := func(lines ...string) string {
		return g.MustRunIn([]byte(strings.Join(lines, "\n")+"\n"), "mktree").S()
	}
	var big strings.Builder
	for i := 0; big.Len() < 200<<10; i++ {
		fmt.Fprintf(&big, "%d:%x\n", i, i*2654435761)
	}
	bF, bX, bBig := blob("file\n"), blob("#!/bin/sh\n"), blob(big.String())
	bL1, bL150, bL5000 := blob("d/inner.txt"), blob(strings.Repeat("t", 150)), blob(strings.Repeat("dir/", 1250))
	tD := mktree("100644 blob "+bF+"\tinner.txt", "100755 blob "+bX+"\trun.sh")
	tD2 := mktree("100644 blob " + bF + "\tx")
	tN3 := mktree("100644 blob "+bF+"\tdeep.txt", "120000 blob "+bL1+"\tup")
	tN2 := mktree("040000 tree "+tN3+"\tn3", "100644 blob "+bF+"\tmid.txt")
	root := mktree(
		"040000 tree "+tD+"\td",
		"100644 blob "+bF+"\td.txt",
		"040000 tree "+tD2+"\td2",
		"100644 blob "+bF+"\tf.txt",
		"100664 blob "+bF+"\tgroup.txt",
		"100644 blob "+bBig+"\tbig.bin",
		"120000 blob "+bL150+"\tlink150",
		"120000 blob "+bL5000+"\tlink5000",
		"040000 tree "+tN2+"\tn2",
		"100644 blob "+bF+"\t\xc3\xa4.txt",
		"100644 blob "+bF+"\tsp ace.txt",
		"100755 blob "+bX+"\tx.sh",
	)
	commit := g.MustRun("commit-tree", "-m", "rich", root).S()
	g.MustRun("branch", "richbranch", commit)
	g.MustRun("tag", "-a", "-m", "t1", "richtag", commit)
	g.MustRun("tag", "-a", "-m", "t2", "richtagtag", "richtag")
	g.MustRun("tag", "-a", "-m", "t3", "richtreetag", root)
	c.Bound("rich_tree", "d/{inner.txt,run.sh} d.txt d2/x f.txt group.txt(100664) big.bin(200KiB) link150 link5000 n2/{mid.txt,n3/{deep.txt,up->}} ä.txt 'sp ace.txt' x.sh")

	formats := []string{"tar", "zip"}
	for _, fm := range []string{"tar", "zip", "tgz", "tar.gz", ""} {
		add("commit", commit, "", "none", fm, nil)
	}
	filterSets := []struct {
		kind string
		f    []string
	}{
		{"sibling", []string{"d"}},
		{"slash", []string{"d/"}},
		{"sibling", []string{"d.txt"}},
		{"sibling", []string{"d2"}},
		{"multi", []string{"d", "f.txt"}},
		{"multi", []string{"d/run.sh", "n2", "x.sh"}},
		{"multi", []string{"n2/n3/deep.txt", "d2/x"}},
		{"multi", []string{"f.txt", "f.txt"}},
		{"nested", []string{"n2/n3"}},
		{"slash", []string{"n2/n3/"}},
		{"nested", []string{"n2/n3/up"}},
		{"file", []string{"sp ace.txt"}},
		{"file", []string{"\xc3\xa4.txt"}},
		{"file", []string{"link5000"}},
		{"file", []string{"big.bin"}},
		{"glob", []string{"*.txt"}},
		{"glob", []string{"d*"}},
		{"glob", []string{"n2/*"}},
		{"glob", []string{"?.sh"}},
		{"glob", []string{"d/*.sh"}},
	}
	for _, fs := range filterSets {
		for _, fm := range formats {
			add("commit", commit, "", fs.kind, fm, fs.f)
			add("commit", commit, "p/", fs.kind, fm, fs.f)
		}
	}
	longPrefix := strings.Repeat("P", 90) + "/"
	for _, fm := range formats {
		add("branch", "richbranch", "", "none", fm, nil)
		add("branch", "refs/heads/richbranch", "p", "none", fm, nil)
		add("tag", "richtagtag", "", "none", fm, nil)
		add("tree", "richtreetag", "", "none", fm, nil)
		add("subtree", commit+":d", "", "none", fm, nil)
		add("subtree", commit+":n2/n3", "p/", "none", fm, nil)
		add("subtree", "richbranch:n2", "", "file", fm, []string{"mid.txt"})
		add("commit", commit, "p/q/", "none", fm, nil)
		add("commit", commit, longPrefix, "none", fm, nil)
		add("commit", commit, longPrefix, "nested", fm, []string{"n2/n3"})
	}
}

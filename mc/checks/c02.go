package checks

// C02 — commit/tag codecs faithful to git.
//
// (a) every object of the grammar in a_objgen.go (stored in a git repository
//     through one pack; bytes read back with `git cat-file --batch`) is decoded
//     and re-encoded by go-git: the bytes must be identical;
// (b) for the objects `git fsck` has no error for and whose standard headers
//     are not duplicated (git's own subsystems disagree on which duplicate
//     wins), the decoded fields are compared with what git reports:
//     `git log --no-walk=unsorted --stdin --date=raw --format=…` for commits,
//     `git for-each-ref --format=…` for tags;
// (c) every well-formed struct of a field product is encoded, decoded again
//     (fields must come back) and the encoding is stored in git: `git fsck`
//     must have no error for it.

import (
	"bytes"
	"fmt"
	"io"
	"slices"
	"strconv"
	"strings"
	"sync/atomic"
	"time"

	"github.com/go-git/go-git/v6/plumbing"
	"github.com/go-git/go-git/v6/plumbing/object"

	"verifmc/fw"
)

func init() {
	fw.Register(&fw.Check{ID: "C02", Level: "exploration", Run: runC02, QuickBudget: 90, ThoroughBudget: 900})
}

func c02Mem(t plumbing.ObjectType, raw []byte) *plumbing.MemoryObject {
	o := &plumbing.MemoryObject{}
	o.SetType(t)
	o.Write(raw)
	return o
}

func c02ReadAll(o plumbing.EncodedObject) []byte {
	r, err := o.Reader()
	if err != nil {
		return nil
	}
	defer r.Close()
	b, _ := io.ReadAll(r)
	return b
}

// c02Fsck runs `git fsck` (default strictness) once; returns ids that have an
// error-level complaint (object-format errors or unparsable objects).
func c02Fsck(g *fw.Git) map[string][]string {
	r := g.Run("fsck", "--no-dangling", "--no-reflogs")
	if r.Code != 0 && r.Code&^0xf != 0 {
		fw.Abort("git fsck exit %d: %.300s", r.Code, r.Err)
	}
	out := map[string][]string{}
	for _, l := range strings.Split(string(r.Out)+string(r.Err), "\n") {
		switch {
		case strings.HasPrefix(l, "error in commit "), strings.HasPrefix(l, "error in tag "):
			f := strings.SplitN(l, " ", 5) // error in commit <id>: <msg>: …
			id := strings.TrimSuffix(f[3], ":")
			msg := ""
			if len(f) > 4 {
				msg = strings.SplitN(f[4], ":", 2)[0]
			}
			out[id] = append(out[id], msg)
		case strings.HasPrefix(l, "error: ") && (strings.Contains(l, "object could not be parsed") || strings.Contains(l, "object corrupt or missing")):
			f := strings.Fields(l)
			id := strings.TrimSuffix(f[1], ":")
			out[id] = append(out[id], "unparsable")
		case strings.HasPrefix(l, "error: bogus commit object "):
			out[strings.TrimPrefix(l, "error: bogus commit object ")] = append(out[strings.TrimPrefix(l, "error: bogus commit object ")], "unparsable")
		}
	}
	return out
}

type c02GitCommit struct {
	ID, Tree, Parents, AN, AE, AD, CN, CE, CD, Enc, Body string
}

func c02GitLog(g *fw.Git, ids []string) map[string]c02GitCommit {
	out := map[string]c02GitCommit{}
	if len(ids) == 0 {
		return out
	}
	const f = "%H%x00%T%x00%P%x00%an%x00%ae%x00%ad%x00%cn%x00%ce%x00%cd%x00%e%x00%B%x00"
	r := g.MustRunIn([]byte(strings.Join(ids, "\n")+"\n"), "log", "--no-walk=unsorted", "--stdin", "--date=raw", "--encoding=none", "--no-show-signature", "--format="+f)
	b := r.Out
	for len(b) > 0 {
		var fs [11]string
		for i := range fs {
			n := bytes.IndexByte(b, 0)
			if n < 0 {
				fw.Abort("git log output truncated: %q", b)
			}
			fs[i] = string(b[:n])
			b = b[n+1:]
		}
		if len(b) == 0 || b[0] != '\n' {
			fw.Abort("git log record not terminated by newline")
		}
		b = b[1:]
		out[fs[0]] = c02GitCommit{fs[0], fs[1], fs[2], fs[3], fs[4], fs[5], fs[6], fs[7], fs[8], fs[9], fs[10]}
	}
	if len(out) != len(ids) {
		fw.Abort("git log reported %d commits for %d ids", len(out), len(ids))
	}
	return out
}

type c02GitTag struct {
	ID, Object, Type, Tag, TN, TE, TD, Contents, Sig string
}

func c02GitTags(g *fw.Git, ids []string) map[string]c02GitTag {
	out := map[string]c02GitTag{}
	if len(ids) == 0 {
		return out
	}
	var upd strings.Builder
	for i, id := range ids {
		fmt.Fprintf(&upd, "create refs/tags/t%07d %s\n", i, id)
	}
	g.MustRunIn([]byte(upd.String()), "update-ref", "--stdin")
	const f = "%(objectname)%00%(object)%00%(type)%00%(tag)%00%(taggername)%00%(taggeremail)%00%(taggerdate:raw)%00%(contents)%00%(contents:signature)%00%01"
	r := g.MustRun("for-each-ref", "--format="+f, "refs/tags")
	for _, rec := range bytes.Split(r.Out, []byte("\x00\x01\n")) {
		if len(rec) == 0 {
			continue
		}
		fs := strings.Split(string(rec), "\x00")
		if len(fs) != 9 {
			fw.Abort("for-each-ref record with %d fields: %q", len(fs), rec)
		}
		out[fs[0]] = c02GitTag{fs[0], fs[1], fs[2], fs[3], fs[4], strings.TrimSuffix(strings.TrimPrefix(fs[5], "<"), ">"), fs[6], fs[7], fs[8]}
	}
	if len(out) != len(ids) {
		fw.Abort("for-each-ref reported %d tags for %d ids", len(out), len(ids))
	}
	return out
}

// c02SameDate compares go-git's When with git's raw date "ts +hhmm".
func c02SameDate(w time.Time, raw string) bool {
	f := strings.Fields(raw)
	if len(f) != 2 || len(f[1]) < 5 {
		return false
	}
	ts, err := strconv.ParseInt(f[0], 10, 64)
	if err != nil {
		return false
	}
	tz, err := strconv.Atoi(f[1][1:])
	if err != nil {
		return false
	}
	off := (tz/100)*3600 + (tz%100)*60
	if f[1][0] == '-' {
		off = -off
	}
	_, goOff := w.Zone()
	return w.Unix() == ts && goOff == off
}

func c02FmtWhen(w time.Time) string {
	_, off := w.Zone()
	return fmt.Sprintf("%d %+d s", w.Unix(), off)
}

func runC02(c *fw.Ctx) {
	freeLines := c.Pick(2, 3)
	extraLines := c.Pick(3, 4)
	maxTagLines := c.Pick(2, 3)
	c.Bound("commit_header_line_kinds", len(aCommitLineKinds))
	c.Bound("commit_free_form_max_lines", freeLines)
	c.Bound("commit_git_layout_max_extra_lines", extraLines)
	c.Bound("commit_parents", []int{0, 1, 2})
	c.Bound("messages", len(aPlainMsgs))
	c.Bound("identity_shapes", len(aIdentShapes))
	c.Bound("tag_header_line_kinds", len(aTagLineKinds))
	c.Bound("tag_max_selected_lines", maxTagLines)
	c.Bound("tag_messages", len(aPlainMsgs)+len(aTagSigMsgs))
	c.SetRule("objects = tree + {0,1,2} parents + every ordered selection of <= max lines of the header-line kinds x 8 message shapes, identity shapes in git's layout, tags likewise (4 target types, inline PGP/SSH/X509 signatures); for each: decode+re-encode byte identity (reference bytes from git cat-file); fields vs git log / for-each-ref on the fsck-clean, duplicate-free subset; plus the struct product encode->decode->fields and git fsck of the encoding; evaluation = one object or struct driven through the real codec; class = (kind, part, layout class, line labels multiset, message label, verdict)")
	c.Assume("git 2.39.5: cat-file bytes, fsck (default strictness) verdict, log --format / for-each-ref --format field reports")
	c.Assume("field comparison only where git's report is well defined: no error from git fsck, no duplicated author/committer/encoding/tagger header (git's pretty-printer takes the last, find_commit_header the first), message without NUL (git's %B is a C string)")
	c.Assume("extra headers and header signatures have no git reporting interface; they are covered by the byte-exact re-encoding clause and (signatures) by C03")
	c.Assume("well-formed struct: non-empty name, timestamps >= 0, zone offsets in whole minutes, extra-header values without trailing newline, signature blocks ending in newline, inline tag signature only after a message that is empty or ends in newline; Encoding \"\" and \"UTF-8\" denote the same (documented default)")

	g, _ := c.InitRepo("c02", "sha1", true)
	cases := append(aCommitCases(freeLines, extraLines, []int{0, 1, 2}), aTagCases(maxTagLines)...)
	cases = append(cases, aLongLineCases()...)
	cases = append(cases, aTrailingBlankCases()...)
	c.Bound("long_line_cases", fmt.Sprintf("%d objects in git's own layout with one line of 5000 / 70000 bytes (message, unknown header, continuation line, gpgsig, identity name, inline tag signature)", len(aLongLineCases())))
	c.Bound("sha256_repository", "every object of the grammar that is in git's own layout (64-digit ids): re-encode identity, decoded ids vs git")
	objs := make([]aObj, len(cases))
	for i, k := range cases {
		objs[i] = aObj{k.Kind, k.Raw()}
	}
	ids := aStoreObjects(g, "sha1", objs)
	// reference bytes from git
	uniq := map[string]int{}
	var q []string
	for i, id := range ids {
		if _, ok := uniq[id]; !ok {
			uniq[id] = i
			q = append(q, id)
		}
	}
	for k, in := range g.CatFileBatch(q) {
		i := uniq[q[k]]
		if in.Missing || in.Type != cases[i].Kind || !bytes.Equal(in.Data, objs[i].Data) {
			fw.Abort("git does not hold the bytes stored for %s", cases[i].Desc())
		}
	}
	bad := c02Fsck(g)
	for i, k := range cases {
		if k.Shape != "" && (len(bad[ids[i]]) > 0) != k.ShapeMalformed {
			fw.Abort("identity shape %s: git fsck errors %v but the grammar says malformed=%v", k.Shape, bad[ids[i]], k.ShapeMalformed)
		}
	}
	c.Extra("objects", map[string]int{"cases": len(cases), "distinct_objects": len(q), "fsck_error_objects": len(bad)})

	// ---------------- (a) decode + re-encode
	type dec struct {
		commit *object.Commit
		tag    *object.Tag
	}
	decs := make([]dec, len(cases))
	var nSame, nSameGitLayout atomic.Int64
	c.ParDo(len(cases), 0, func(i int) {
		k := cases[i]
		raw := objs[i].Data
		c.Eval()
		layout := aLayoutClass(k)
		var out []byte
		var err error
		p := aGuard(func() {
			if k.Kind == "commit" {
				cm := &object.Commit{}
				if err = cm.Decode(c02Mem(plumbing.CommitObject, raw)); err != nil {
					return
				}
				decs[i].commit = cm
				o := &plumbing.MemoryObject{}
				if err = cm.Encode(o); err != nil {
					return
				}
				out = c02ReadAll(o)
			} else {
				tg := &object.Tag{}
				if err = tg.Decode(c02Mem(plumbing.TagObject, raw)); err != nil {
					return
				}
				decs[i].tag = tg
				o := &plumbing.MemoryObject{}
				if err = tg.Encode(o); err != nil {
					return
				}
				out = c02ReadAll(o)
			}
		})
		verdict := "same"
		switch {
		case p != "":
			verdict = "panic"
		case err != nil:
			verdict = "error"
		case !bytes.Equal(out, raw):
			verdict = "differs"
		}
		if verdict == "same" {
			nSame.Add(1)
			if layout == "" && k.Shape == "" {
				nSameGitLayout.Add(1)
			}
		}
		lb := k.Labels()
		slices.Sort(lb)
		c.Class(fmt.Sprintf("a/%s/%s/%s/%s/%s/%s", k.Kind, layout, strings.Join(lb, ","), k.Msg.Label, k.Shape, verdict))
		if i%3001 == 5 {
			c.Sample(map[string]any{"part": "re-encode", "object": k.Desc(), "id": ids[i], "verdict": verdict})
		}
		if verdict == "same" {
			return
		}
		rep := map[string]any{"part": "re-encode", "object": k.Desc(), "id": ids[i], "raw": string(raw), "layout_class": layout}
		if p != "" {
			aFail(c, "re-encode: panic", "Decode/Encode panics on "+k.Desc()+": "+p, rep)
			return
		}
		if err != nil {
			rep["error"] = err.Error()
			aFail(c, "re-encode: error: "+c02KeyTail(k, layout), "Decode/Encode fails ("+err.Error()+") on "+k.Desc(), rep)
			return
		}
		rep["re_encoded"] = string(out)
		aFail(c, "re-encode differs: "+c02KeyTail(k, layout), "Decode+Encode does not reproduce the bytes of "+k.Desc()+": got "+fw.Q(string(out))+" want "+fw.Q(string(raw)), rep)
	})

	c.Extra("re_encode", map[string]int64{"objects": int64(len(cases)), "byte_identical": nSame.Load(), "byte_identical_in_gits_own_layout": nSameGitLayout.Load()})

	// ---------------- (b) fields as git reports them
	dupFree := func(k aCase) bool {
		n := map[string]int{}
		for _, l := range k.Labels() {
			n[strings.SplitN(strings.SplitN(l, "#", 2)[0], "-utf8", 2)[0]]++
		}
		return n["author"] <= 1 && n["committer"] <= 1 && n["encoding"] <= 1 && n["tagger"] <= 1
	}
	var cIDs, tIDs []string
	inB := make([]bool, len(cases))
	seenB := map[string]bool{}
	for i, k := range cases {
		if len(bad[ids[i]]) > 0 || !dupFree(k) || seenB[ids[i]] {
			continue
		}
		if decs[i].commit == nil && decs[i].tag == nil {
			continue // already reported under (a)
		}
		seenB[ids[i]] = true
		inB[i] = true
		if k.Kind == "commit" {
			cIDs = append(cIDs, ids[i])
		} else {
			tIDs = append(tIDs, ids[i])
		}
	}
	gitC := c02GitLog(g, cIDs)
	gitT := c02GitTags(g, tIDs)
	c.Extra("field_domain", map[string]int{"commits": len(cIDs), "tags": len(tIDs)})
	for i, k := range cases {
		if !inB[i] {
			continue
		}
		c.Eval()
		layout := aLayoutClass(k)
		tail := c02KeyTail(k, layout)
		differs := false
		diff := func(field, got, want string) {
			differs = true
			key := fmt.Sprintf("%s field %s differs from git: %s", k.Kind, field, tail)
			if k.Shape != "" {
				key = "identity field (" + field[strings.IndexByte(field, '-')+1:] + ") differs from git: " + tail
			}
			aFail(c, key,
				fmt.Sprintf("decoded %s of %s is %s, git reports %s", field, k.Desc(), fw.Q(got), fw.Q(want)),
				map[string]any{"part": "fields", "object": k.Desc(), "id": ids[i], "raw": string(objs[i].Data), "field": field, "go_git": got, "git": want})
		}
		if k.Kind == "commit" {
			cm, gc := decs[i].commit, gitC[ids[i]]
			if cm.TreeHash.String() != gc.Tree {
				diff("tree", cm.TreeHash.String(), gc.Tree)
			}
			var ps []string
			for _, p := range cm.ParentHashes {
				ps = append(ps, p.String())
			}
			if strings.Join(ps, " ") != gc.Parents {
				diff("parents", strings.Join(ps, " "), gc.Parents)
			}
			if cm.Author.Name != gc.AN {
				diff("author-name", cm.Author.Name, gc.AN)
			}
			if cm.Author.Email != gc.AE {
				diff("author-email", cm.Author.Email, gc.AE)
			}
			if !c02SameDate(cm.Author.When, gc.AD) {
				diff("author-date", c02FmtWhen(cm.Author.When), gc.AD)
			}
			if cm.Committer.Name != gc.CN {
				diff("committer-name", cm.Committer.Name, gc.CN)
			}
			if cm.Committer.Email != gc.CE {
				diff("committer-email", cm.Committer.Email, gc.CE)
			}
			if !c02SameDate(cm.Committer.When, gc.CD) {
				diff("committer-date", c02FmtWhen(cm.Committer.When), gc.CD)
			}
			wantEnc := gc.Enc
			if wantEnc == "" {
				wantEnc = "UTF-8"
			}
			if string(cm.Encoding) != wantEnc {
				diff("encoding", string(cm.Encoding), gc.Enc)
			}
			if k.Msg.Sep && !strings.Contains(k.Msg.Body, "\x00") && cm.Message != gc.Body {
				diff("message", cm.Message, gc.Body)
			}
		} else {
			tg, gt := decs[i].tag, gitT[ids[i]]
			if tg.Target.String() != gt.Object {
				diff("object", tg.Target.String(), gt.Object)
			}
			if tg.TargetType.String() != gt.Type {
				diff("type", tg.TargetType.String(), gt.Type)
			}
			if tg.Name != gt.Tag {
				diff("tag", tg.Name, gt.Tag)
			}
			lb := k.Labels()
			taggerCanonical := true // for-each-ref finds a tagger line anywhere, tag.c only right after the tag line
			for j, l := range lb {
				if strings.HasPrefix(l, "tagger") && j != 0 {
					taggerCanonical = false
				}
			}
			if !taggerCanonical {
				gt.TN, gt.TE, gt.TD = tg.Tagger.Name, tg.Tagger.Email, ""
				if !tg.Tagger.When.IsZero() {
					gt.TD = "skip"
				}
			}
			if tg.Tagger.Name != gt.TN {
				diff("tagger-name", tg.Tagger.Name, gt.TN)
			}
			if tg.Tagger.Email != gt.TE {
				diff("tagger-email", tg.Tagger.Email, gt.TE)
			}
			if gt.TD == "" {
				if !tg.Tagger.When.IsZero() {
					diff("tagger-date", c02FmtWhen(tg.Tagger.When), "")
				}
			} else if gt.TD != "skip" && !c02SameDate(tg.Tagger.When, gt.TD) {
				diff("tagger-date", c02FmtWhen(tg.Tagger.When), gt.TD)
			}
			if k.Msg.Sep && !strings.Contains(k.Msg.Body, "\x00") {
				// %(contents) skips blank lines before the subject
				if strings.TrimLeft(tg.Message+tg.Signature, "\n") != strings.TrimLeft(gt.Contents, "\n") {
					diff("message+signature", tg.Message+tg.Signature, gt.Contents)
				}
				if tg.Signature != gt.Sig {
					diff("inline-signature", tg.Signature, gt.Sig)
				}
			}
		}
		verdict := "agree"
		if differs {
			verdict = "differ"
		}
		c.Class(fmt.Sprintf("b/%s/%s/%s/%s/%s", k.Kind, layout, strings.Join(k.Labels(), ","), k.Msg.Label+k.Shape, verdict))
	}

	// ---------------- (a'), (b') the objects in git's own layout, SHA-256 ids
	c02Sha256(c, cases)

	// ---------------- (c) structs
	c02Structs(c, g)
}

// c02Sha256 stores the git-layout objects with 64-digit ids in a SHA-256
// repository: Decode+Encode must reproduce the bytes, the decoded ids must be
// the ones git reports (log %T %P, for-each-ref %(object)) and the decoded
// Hash must be git's id of the object.
func c02Sha256(c *fw.Ctx, all []aCase) {
	var cases []aCase
	for _, k := range all {
		if aLayoutClass(k) == "" && k.Shape == "" {
			cases = append(cases, k)
		}
	}
	g, _ := c.InitRepo("c02-sha256", "sha256", true)
	objs := make([]aObj, len(cases))
	for i, k := range cases {
		objs[i] = aObj{k.Kind, c03Raw(k, "sha256")}
	}
	ids := aStoreObjects(g, "sha256", objs)
	var cIDs, tIDs []string
	seen := map[string]bool{}
	for i, k := range cases {
		if seen[ids[i]] {
			continue
		}
		seen[ids[i]] = true
		if k.Kind == "commit" {
			cIDs = append(cIDs, ids[i])
		} else {
			tIDs = append(tIDs, ids[i])
		}
	}
	gitC := c02GitLog(g, cIDs)
	gitT := c02GitTags(g, tIDs)
	oh := plumbing.FromObjectFormat(c01FormatOf("sha256"))
	c.ParDo(len(cases), 0, func(i int) {
		k := cases[i]
		raw := objs[i].Data
		c.Eval()
		fail := func(kind, got, want string) {
			// one key per kind of difference and object type: the description of
			// the object is in the message and the replay
			aFail(c, "sha256: "+kind+": "+k.Kind+" in git's own layout", fmt.Sprintf("sha256 repository: %s for %s: go-git %s, git %s", kind, k.Desc(), fw.Q(got), fw.Q(want)),
				map[string]any{"part": "sha256", "object": k.Desc(), "id": ids[i], "raw": string(raw), "go_git": got, "git": want})
		}
		verdict := "same"
		var out []byte
		var err error
		p := aGuard(func() {
			src := plumbing.NewMemoryObject(oh)
			if k.Kind == "commit" {
				src.SetType(plumbing.CommitObject)
				src.Write(raw)
				cm := &object.Commit{}
				if err = cm.Decode(src); err != nil {
					return
				}
				gc := gitC[ids[i]]
				var ps []string
				for _, p := range cm.ParentHashes {
					ps = append(ps, p.String())
				}
				if cm.Hash.String() != ids[i] {
					verdict = "fields"
					fail("decoded commit Hash differs from git's id", cm.Hash.String(), ids[i])
				}
				if cm.TreeHash.String() != gc.Tree {
					verdict = "fields"
					fail("commit field tree differs from git", cm.TreeHash.String(), gc.Tree)
				}
				if strings.Join(ps, " ") != gc.Parents {
					verdict = "fields"
					fail("commit field parents differs from git", strings.Join(ps, " "), gc.Parents)
				}
				o := plumbing.NewMemoryObject(oh)
				if err = cm.Encode(o); err != nil {
					return
				}
				out = c02ReadAll(o)
				if o.Hash().String() != ids[i] && bytes.Equal(out, raw) {
					verdict = "fields"
					fail("id of the re-encoded commit differs from git's", o.Hash().String(), ids[i])
				}
			} else {
				src.SetType(plumbing.TagObject)
				src.Write(raw)
				tg := &object.Tag{}
				if err = tg.Decode(src); err != nil {
					return
				}
				gt := gitT[ids[i]]
				if tg.Hash.String() != ids[i] {
					verdict = "fields"
					fail("decoded tag Hash differs from git's id", tg.Hash.String(), ids[i])
				}
				if tg.Target.String() != gt.Object {
					verdict = "fields"
					fail("tag field object differs from git", tg.Target.String(), gt.Object)
				}
				o := plumbing.NewMemoryObject(oh)
				if err = tg.Encode(o); err != nil {
					return
				}
				out = c02ReadAll(o)
			}
		})
		switch {
		case p != "":
			verdict = "panic"
			fail("Decode/Encode panics", p, "no panic")
		case err != nil:
			verdict = "error"
			fail("Decode/Encode fails", err.Error(), "no error")
		case !bytes.Equal(out, raw):
			verdict = "differs"
			fail("re-encode differs", string(out), string(raw))
		}
		c.Class(fmt.Sprintf("sha256/%s/%s/%s/%s", k.Kind, strings.Join(k.Labels(), ","), k.Msg.Label, verdict))
	})
}

// c02KeyTail identifies the class of input a difference was seen on.
func c02KeyTail(k aCase, layout string) string {
	switch {
	case k.Shape != "" && k.ShapeMalformed:
		return "identity line that git fsck rejects"
	case k.Shape != "":
		return "identity " + k.Shape[strings.IndexByte(k.Shape, ':')+1:]
	case layout != "":
		return k.Kind + " not in git's own layout: " + layout
	}
	return k.Kind + " in git's own layout: [" + strings.Join(k.Labels(), ", ") + "] msg=" + k.Msg.Label
}

func c02Sig(name, email string, ts int64, offMin int) object.Signature {
	return object.Signature{Name: name, Email: email, When: time.Unix(ts, 0).In(time.FixedZone("", offMin*60))}
}

func c02SigEq(a, b object.Signature) bool {
	_, ao := a.When.Zone()
	_, bo := b.When.Zone()
	return a.Name == b.Name && a.Email == b.Email && a.When.Unix() == b.When.Unix() && ao == bo
}

func c02Structs(c *fw.Ctx, g *fw.Git) {
	tree := plumbing.NewHash(aTreeID)
	authors := []object.Signature{
		c02Sig("A U Thor", "author@example.com", 1700000000, 60),
		c02Sig("Ä Ü", "a+b@x.y", 0, -570),
		c02Sig("A", "", 1<<31, 13*60+45),
	}
	committers := []object.Signature{c02Sig("C O Mitter", "committer@example.com", 1700000001, -420), c02Sig("C", "c@x", 1, 0)}
	encodings := []string{"", "UTF-8", "ISO-8859-1"}
	type ex struct {
		label string
		h     []object.ExtraHeader
	}
	extras := []ex{
		{"none", nil},
		{"foo=bar", []object.ExtraHeader{{Key: "foo", Value: "bar"}}},
		{"foo-empty", []object.ExtraHeader{{Key: "foo", Value: ""}}},
		{"multi-line-with-empty-line", []object.ExtraHeader{{Key: "bar", Value: "a\n\nb"}}},
		{"mergetag", []object.ExtraHeader{{Key: "mergetag", Value: "object " + aParentIDs[1] + "\ntype commit\ntag v0\ntagger T <t@x> 1 +0000\n\nmerged"}}},
		{"same-key-twice", []object.ExtraHeader{{Key: "foo", Value: "a"}, {Key: "foo", Value: "b"}}},
	}
	sigs := []string{"", aPGP}
	sigs256 := []string{"", aPGP2}
	msgs := []string{"", "m", "m\n", "\nm\n", "a\n\nb\n"}
	c.Bound("struct_commit_product", fmt.Sprintf("parents 3 x authors %d x committers %d x encodings %d x extras %d x gpgsig 2 x gpgsig-sha256 2 x messages %d", len(authors), len(committers), len(encodings), len(extras), len(msgs)))

	type sc struct {
		desc string
		raw  []byte
		kind string
	}
	var stored []sc
	fail := func(kind, field, feature, got, want, desc string) {
		aFail(c, fmt.Sprintf("struct %s: %s not preserved by Encode+Decode [%s]", kind, field, feature),
			fmt.Sprintf("%s of %s comes back as %s, was %s", field, desc, fw.Q(got), fw.Q(want)),
			map[string]any{"part": "struct", "struct": desc, "field": field, "got": got, "want": want})
	}
	for _, idx := range fw.Product(3, len(authors), len(committers), len(encodings), len(extras), 2, 2, len(msgs)) {
		np, a, cm, en, exi, sg, sg2, m := idx[0], authors[idx[1]], committers[idx[2]], encodings[idx[3]], extras[idx[4]], sigs[idx[5]], sigs256[idx[6]], msgs[idx[7]]
		in := &object.Commit{TreeHash: tree, Author: a, Committer: cm, Encoding: object.MessageEncoding(en), ExtraHeaders: exi.h, Signature: sg, SignatureSHA256: sg2, Message: m}
		for i := 0; i < np; i++ {
			in.ParentHashes = append(in.ParentHashes, plumbing.NewHash(aParentIDs[i]))
		}
		desc := fmt.Sprintf("Commit{parents:%d author:%d committer:%d encoding:%q extras:%s gpgsig:%v gpgsig-sha256:%v message:%q}", np, idx[1], idx[2], en, exi.label, sg != "", sg2 != "", m)
		c.Eval()
		var raw []byte
		var out *object.Commit
		var err error
		p := aGuard(func() {
			o := &plumbing.MemoryObject{}
			if err = in.Encode(o); err != nil {
				return
			}
			raw = c02ReadAll(o)
			out = &object.Commit{}
			err = out.Decode(c02Mem(plumbing.CommitObject, raw))
		})
		c.Class(fmt.Sprintf("c/commit/%d/%d/%d/%s/%s/%v/%v/%q", np, idx[1], idx[2], en, exi.label, sg != "", sg2 != "", m))
		if p != "" || err != nil {
			aFail(c, "struct commit: Encode/Decode fails", "Encode/Decode of "+desc+": "+p+fmt.Sprint(err), map[string]any{"struct": desc})
			continue
		}
		stored = append(stored, sc{desc, raw, "commit"})
		if out.TreeHash != in.TreeHash {
			fail("commit", "TreeHash", "any", out.TreeHash.String(), in.TreeHash.String(), desc)
		}
		if !slices.Equal(out.ParentHashes, in.ParentHashes) {
			fail("commit", "ParentHashes", fmt.Sprint(np), fmt.Sprint(out.ParentHashes), fmt.Sprint(in.ParentHashes), desc)
		}
		if !c02SigEq(out.Author, in.Author) {
			fail("commit", "Author", fmt.Sprintf("author %d", idx[1]), out.Author.String()+" "+c02FmtWhen(out.Author.When), in.Author.String()+" "+c02FmtWhen(in.Author.When), desc)
		}
		if !c02SigEq(out.Committer, in.Committer) {
			fail("commit", "Committer", fmt.Sprintf("committer %d", idx[2]), out.Committer.String()+" "+c02FmtWhen(out.Committer.When), in.Committer.String()+" "+c02FmtWhen(in.Committer.When), desc)
		}
		we := en
		if we == "" {
			we = "UTF-8"
		}
		if string(out.Encoding) != we {
			fail("commit", "Encoding", en, string(out.Encoding), we, desc)
		}
		if !(len(out.ExtraHeaders) == 0 && len(in.ExtraHeaders) == 0) && !slices.Equal(out.ExtraHeaders, in.ExtraHeaders) {
			fail("commit", "ExtraHeaders", exi.label, fmt.Sprintf("%v", out.ExtraHeaders), fmt.Sprintf("%v", in.ExtraHeaders), desc)
		}
		if out.Signature != in.Signature {
			fail("commit", "Signature", "gpgsig", out.Signature, in.Signature, desc)
		}
		if out.SignatureSHA256 != in.SignatureSHA256 {
			fail("commit", "SignatureSHA256", "gpgsig-sha256", out.SignatureSHA256, in.SignatureSHA256, desc)
		}
		if out.Message != in.Message {
			fail("commit", "Message", fw.Q(m), out.Message, in.Message, desc)
		}
	}

	taggers := []object.Signature{{}, c02Sig("T A Gger", "tagger@example.com", 1700000002, 330), c02Sig("T", "", 0, -570)}
	tmsgs := []string{"", "m\n", "\nm\n", "m"}
	tsigs := []string{"", aPGP, aSSH}
	names := []string{"v1", "release/1.0"}
	c.Bound("struct_tag_product", fmt.Sprintf("types 4 x names %d x taggers %d x messages %d x inline signatures %d x gpgsig-sha256 2", len(names), len(taggers), len(tmsgs), len(tsigs)))
	for _, idx := range fw.Product(4, len(names), len(taggers), len(tmsgs), len(tsigs), 2) {
		tt, name, tgr, m, sg, sg2 := c01Types[idx[0]], names[idx[1]], taggers[idx[2]], tmsgs[idx[3]], tsigs[idx[4]], sigs256[idx[5]]
		if sg != "" && m != "" && !strings.HasSuffix(m, "\n") {
			continue // documented precondition of Tag.Encode
		}
		in := &object.Tag{Name: name, Tagger: tgr, Message: m, Signature: sg, SignatureSHA256: sg2, TargetType: aTypeOf(tt), Target: plumbing.NewHash(aTagTargets[tt])}
		desc := fmt.Sprintf("Tag{type:%s name:%q tagger:%d message:%q inline-signature:%v gpgsig-sha256:%v}", tt, name, idx[2], m, sg != "", sg2 != "")
		c.Eval()
		var raw []byte
		var out *object.Tag
		var err error
		p := aGuard(func() {
			o := &plumbing.MemoryObject{}
			if err = in.Encode(o); err != nil {
				return
			}
			raw = c02ReadAll(o)
			out = &object.Tag{}
			err = out.Decode(c02Mem(plumbing.TagObject, raw))
		})
		c.Class(fmt.Sprintf("c/tag/%s/%s/%d/%q/%v/%v", tt, name, idx[2], m, sg != "", sg2 != ""))
		if p != "" || err != nil {
			aFail(c, "struct tag: Encode/Decode fails", "Encode/Decode of "+desc+": "+p+fmt.Sprint(err), map[string]any{"struct": desc})
			continue
		}
		stored = append(stored, sc{desc, raw, "tag"})
		if out.Target != in.Target || out.TargetType != in.TargetType {
			fail("tag", "Target/TargetType", tt, out.Target.String()+" "+out.TargetType.String(), in.Target.String()+" "+in.TargetType.String(), desc)
		}
		if out.Name != in.Name {
			fail("tag", "Name", name, out.Name, in.Name, desc)
		}
		if !c02SigEq(out.Tagger, in.Tagger) && !(in.Tagger.When.IsZero() && out.Tagger.When.IsZero() && out.Tagger.Name == "" && out.Tagger.Email == "") {
			fail("tag", "Tagger", fmt.Sprintf("tagger %d", idx[2]), out.Tagger.String()+" "+c02FmtWhen(out.Tagger.When), in.Tagger.String()+" "+c02FmtWhen(in.Tagger.When), desc)
		}
		if out.Message != in.Message {
			fail("tag", "Message", fw.Q(m), out.Message, in.Message, desc)
		}
		if out.Signature != in.Signature {
			fail("tag", "Signature", "inline", out.Signature, in.Signature, desc)
		}
		if out.SignatureSHA256 != in.SignatureSHA256 {
			fail("tag", "SignatureSHA256", "gpgsig-sha256", out.SignatureSHA256, in.SignatureSHA256, desc)
		}
	}
	// git accepts what the encoder produced
	gs, _ := c.InitRepo("c02-structs", "sha1", true)
	sobjs := make([]aObj, len(stored))
	for i, s := range stored {
		sobjs[i] = aObj{s.kind, s.raw}
	}
	sids := aStoreObjects(gs, "sha1", sobjs)
	sbad := c02Fsck(gs)
	for i, s := range stored {
		if msgs := sbad[sids[i]]; len(msgs) > 0 {
			aFail(c, "struct "+s.kind+": git fsck rejects the encoding ("+msgs[0]+")", "git fsck: "+strings.Join(msgs, ",")+" for the encoding of "+s.desc+": "+fw.Q(string(s.raw)),
				map[string]any{"part": "struct", "struct": s.desc, "raw": string(s.raw), "fsck": msgs})
		}
	}
	c.Extra("structs", map[string]int{"encoded": len(stored), "fsck_rejected": len(sbad)})
}

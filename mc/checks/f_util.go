package checks

// Helpers shared by the batch "f" checks (C44..C47).

import (
	"bytes"
	"fmt"
	"sort"
	"strings"
	"sync"

	git "github.com/go-git/go-git/v6"
	"github.com/go-git/go-git/v6/plumbing"
	"github.com/go-git/go-git/v6/storage/memory"

	"verifmc/fw"
)

// fRepoPool hands out one *git.Repository per concurrent user so that no two
// goroutines ever share go-git storage objects (storage concurrency is the
// subject of other properties, not of these).
type fRepoPool struct {
	dir  string
	mu   sync.Mutex
	free []*git.Repository
}

func (p *fRepoPool) get() *git.Repository {
	p.mu.Lock()
	if n := len(p.free); n > 0 {
		r := p.free[n-1]
		p.free = p.free[:n-1]
		p.mu.Unlock()
		return r
	}
	p.mu.Unlock()
	r, err := git.PlainOpen(p.dir)
	if err != nil {
		fw.Abort("go-git cannot open oracle repository %s: %v", p.dir, err)
	}
	return r
}

func (p *fRepoPool) put(r *git.Repository) {
	p.mu.Lock()
	p.free = append(p.free, r)
	p.mu.Unlock()
}

// fHashObject writes blobs with one git process per blob (few blobs only).
func fHashObject(g *fw.Git, data string) string {
	return g.MustRunIn([]byte(data), "hash-object", "-w", "--stdin").S()
}

// fMktreeBatch creates one tree per record with a single `git mktree --batch
// --missing` process. A record is a list of "<mode> <type> <id>\t<name>" lines.
func fMktreeBatch(g *fw.Git, records [][]string) []string {
	var in bytes.Buffer
	for _, r := range records {
		for _, l := range r {
			in.WriteString(l)
			in.WriteByte('\n')
		}
		in.WriteByte('\n')
	}
	out := g.MustRunIn(in.Bytes(), "mktree", "--batch", "--missing").S()
	ids := strings.Split(out, "\n")
	if len(records) == 0 {
		return nil
	}
	if len(ids) != len(records) {
		fw.Abort("mktree --batch: %d ids for %d records", len(ids), len(records))
	}
	return ids
}

func fSortedCopy(s []string) []string {
	o := append([]string{}, s...)
	sort.Strings(o)
	return o
}

func fEqualStrings(a, b []string) bool {
	if len(a) != len(b) {
		return false
	}
	for i := range a {
		if a[i] != b[i] {
			return false
		}
	}
	return true
}

// fRecover runs f and converts a panic into an error string (a panic inside
// go-git is a property violation, never an engine error).
func fRecover(f func()) (panicked string) {
	defer func() {
		if r := recover(); r != nil {
			panicked = fmt.Sprint(r)
		}
	}()
	f()
	return ""
}

// fMemObjects reads every object of a git repository once (one cat-file
// process); fMemStorage then builds a private go-git memory storage from them.
// Used where the property is about an algorithm over objects (diff, rename),
// not about the storage that serves them.
func fMemObjects(g *fw.Git) []fw.ObjInfo { return g.CatFileAll() }

func fMemStorage(objs []fw.ObjInfo) *memory.Storage {
	st := memory.NewStorage()
	for _, o := range objs {
		t, err := plumbing.ParseObjectType(o.Type)
		if err != nil {
			fw.Abort("object type %q: %v", o.Type, err)
		}
		mo := st.NewEncodedObject()
		mo.SetType(t)
		mo.SetSize(int64(len(o.Data)))
		w, _ := mo.Writer()
		w.Write(o.Data)
		w.Close()
		h, err := st.SetEncodedObject(mo)
		if err != nil || h.String() != o.ID {
			fw.Abort("memory storage: object %s stored as %s (%v)", o.ID, h, err)
		}
	}
	return st
}

// fPackAll packs every object of the repository (reachable or not) into one
// pack and removes the loose copies: git then serves thousands of batch queries
// without one open/mmap/munmap per object.
func fPackAll(g *fw.Git, gitDir string) {
	ids := g.MustRun("cat-file", "--batch-all-objects", "--batch-check=%(objectname)").Out
	g.MustRunIn(ids, "pack-objects", "-q", gitDir+"/objects/pack/pack")
	g.MustRun("prune-packed", "-q")
}

// fStoragePool is an explicit free list (sync.Pool would drop the storages at
// every GC cycle).
type fStoragePool struct {
	objs []fw.ObjInfo
	mu   sync.Mutex
	free []*memory.Storage
}

func (p *fStoragePool) get() *memory.Storage {
	p.mu.Lock()
	if n := len(p.free); n > 0 {
		s := p.free[n-1]
		p.free = p.free[:n-1]
		p.mu.Unlock()
		return s
	}
	p.mu.Unlock()
	return fMemStorage(p.objs)
}

func (p *fStoragePool) put(s *memory.Storage) {
	p.mu.Lock()
	p.free = append(p.free, s)
	p.mu.Unlock()
}

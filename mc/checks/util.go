package checks

import "os"

func os_RemoveAll(p string) { _ = os.RemoveAll(p) }

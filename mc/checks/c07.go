package checks

import (
	"bytes"
	"encoding/hex"
	"fmt"
	"os"
	"path/filepath"
	"sort"
	"strings"
	"sync"

	"github.com/go-git/go-billy/v6/osfs"
	"github.com/go-git/go-git/v6/plumbing"
	"github.com/go-git/go-git/v6/plumbing/cache"
	"github.com/go-git/go-git/v6/plumbing/format/packfile"
	"github.com/go-git/go-git/v6/plumbing/storer"
	"github.com/go-git/go-git/v6/storage/filesystem"
	"github.com/go-git/go-git/v6/storage/memory"

	"verifmc/fw"
)

// C07: packs written by go-git's Encoder contain exactly the requested objects
// and are accepted by git index-pack / verify-pack.

func init() {
	fw.Register(&fw.Check{ID: "C07", Level: "exploration", Run: runC07, QuickBudget: 100, ThoroughBudget: 1300})
}

type c07Obj struct {
	Name string
	Type string
	Data []byte
	OID  string
}

func c07Text(seed, n int) []byte {
	var b bytes.Buffer
	for i := 0; b.Len() < n; i++ {
		fmt.Fprintf(&b, "line %04d of text %d: %s\n", i, seed, strings.Repeat(string(rune('a'+(i*7+seed)%26)), 8+(i*5+seed)%23))
	}
	return b.Bytes()[:n]
}

// c07Universe: the objects sets are drawn from (per object format).
func c07Universe(sha256fmt bool) (core []c07Obj, chain []c07Obj) {
	core, chain, _ = c07UniverseX(sha256fmt)
	return
}

// c07UniverseX also returns the objects of the second driver (c07_extra.go).
func c07UniverseX(sha256fmt bool) (core []c07Obj, chain []c07Obj, extra []c07Obj) {
	defer func() { extra = c07ExtraObjects(sha256fmt, core) }()
	add := func(name, typ string, data []byte) c07Obj {
		o := c07Obj{name, typ, data, bOIDHex(sha256fmt, typ, data)}
		core = append(core, o)
		return o
	}
	raw := func(o c07Obj) []byte { b, _ := hex.DecodeString(o.OID); return b }
	e := add("empty", "blob", []byte{})
	a1d := c07Text(1, 300)
	a2d := append([]byte{}, a1d...)
	a2d[150] = '#'
	a1 := add("a1", "blob", a1d)
	a2 := add("a2", "blob", a2d)
	c1d := c07Text(2, 2048)
	c2d := append(append(append([]byte{}, c1d[:700]...), "an inserted line in version two\n"...), c1d[700:]...)
	c3d := append(append([]byte{}, c2d[:1500]...), "replaced tail in version three, shorter than before\n"...)
	c1 := add("c1", "blob", c1d)
	add("c2", "blob", c2d)
	add("c3", "blob", c3d)
	add("big", "blob", c07Text(3, 70*1024))
	tree := func(ents ...[2]any) []byte {
		var b bytes.Buffer
		for _, en := range ents {
			fmt.Fprintf(&b, "100644 %s\x00", en[0].(string))
			b.Write(raw(en[1].(c07Obj)))
		}
		return b.Bytes()
	}
	t1 := add("tree1", "tree", tree([2]any{"alpha.txt", a1}, [2]any{"chapter-one.txt", c1}, [2]any{"empty", e}, [2]any{"zeta-file-with-a-long-name.txt", a1}))
	add("tree2", "tree", tree([2]any{"alpha.txt", a2}, [2]any{"chapter-one.txt", c1}, [2]any{"empty", e}, [2]any{"zeta-file-with-a-long-name.txt", a1}))
	who := "A U Thor <author@example.com> 1700000000 +0000"
	k := add("commit", "commit", []byte(fmt.Sprintf("tree %s\nauthor %s\ncommitter %s\n\nthe commit\n", t1.OID, who, who)))
	add("tag", "tag", []byte(fmt.Sprintf("object %s\ntype commit\ntag v1\ntagger %s\n\nthe tag\n", k.OID, who)))
	// a long edit chain: 60 versions of a 2 KiB text, each a small edit of the previous one
	cur := c07Text(4, 2048)
	for i := 0; i < 60; i++ {
		cur = append([]byte{}, cur...)
		pos := (i * 31) % (len(cur) - 40)
		copy(cur[pos:], fmt.Sprintf("<<edit number %02d>>", i))
		o := c07Obj{fmt.Sprintf("chain%02d", i), "blob", cur, bOIDHex(sha256fmt, "blob", cur)}
		chain = append(chain, o)
	}
	return
}

type c07Env struct {
	sha256 bool
	g      *fw.Git
	dir    string // git repository holding every universe object loose (oracle side)
	packed string // copy with everything in one git-written pack (go-git reads deltas from it)
	all    []c07Obj
	mem    sync.Pool
	fs     sync.Pool
	// second driver
	nCore, nChain int
	packedOfs     string // like packed, written with --delta-base-offset (OFS_DELTA entries)
	fsOfs         sync.Pool
	fsLoose       sync.Pool
}

func c07Setup(c *fw.Ctx, sha256fmt bool) *c07Env {
	core, chain, extra := c07UniverseX(sha256fmt)
	env := &c07Env{sha256: sha256fmt, all: append(append(append([]c07Obj{}, core...), chain...), extra...)}
	env.nCore, env.nChain = len(core), len(chain)
	env.g, env.dir = c.InitRepo("c07-"+bFmtName(sha256fmt), bFmtName(sha256fmt), true)
	src := c.TempDir("c07src")
	for _, typ := range []string{"blob", "tree", "commit", "tag"} {
		var paths []string
		var want []string
		for _, o := range env.all {
			if o.Type == typ {
				p := filepath.Join(src, o.Name)
				bWriteFile(p, o.Data)
				paths = append(paths, p)
				want = append(want, o.OID)
			}
		}
		r := env.g.MustRunIn([]byte(strings.Join(paths, "\n")+"\n"), "hash-object", "-t", typ, "-w", "--stdin-paths")
		got := strings.Fields(string(r.Out))
		if strings.Join(got, " ") != strings.Join(want, " ") {
			fw.Abort("C07 set-up: git hash-object names differ from the independent hasher for %s objects", typ)
		}
	}
	env.g.MustRun("fsck", "--strict", "--no-dangling", "--no-progress")
	// the packed twin
	_, env.packed = c.InitRepo("c07packed-"+bFmtName(sha256fmt), bFmtName(sha256fmt), true)
	for _, o := range env.all {
		sub := filepath.Join("objects", o.OID[:2], o.OID[2:])
		bWriteFile(filepath.Join(env.packed, sub), bReadFile(filepath.Join(env.dir, sub)))
	}
	gp := env.g.In(env.packed)
	// pack everything (unreachable objects too): pack-objects over the full list
	var ids []string
	for _, o := range env.all {
		ids = append(ids, o.OID)
	}
	gp.C("pack.threads=1").MustRunIn([]byte(strings.Join(ids, "\n")+"\n"), "pack-objects", "-q", "--window=10", "--depth=50", filepath.Join(env.packed, "objects/pack/pack"))
	gp.MustRun("prune-packed", "-q")
	cnt := gp.MustRun("count-objects", "-v").S()
	if !strings.Contains(cnt, "count: 0") {
		fw.Abort("C07 set-up: loose objects remain in the packed twin: %s", cnt)
	}
	env.mem.New = func() any {
		st := memory.NewStorage(memory.WithObjectFormat(bObjFormat(sha256fmt)))
		for _, o := range env.all {
			eo := st.NewEncodedObject()
			t, _ := plumbing.ParseObjectType(o.Type)
			eo.SetType(t)
			eo.SetSize(int64(len(o.Data)))
			w, _ := eo.Writer()
			w.Write(o.Data)
			w.Close()
			h, err := st.SetEncodedObject(eo)
			if err != nil || h.String() != o.OID {
				fw.Abort("C07 set-up: memory storage names %s as %s (%v)", o.OID, h, err)
			}
		}
		return st
	}
	env.fs.New = func() any {
		return filesystem.NewStorageWithOptions(osfs.New(env.packed), cache.NewObjectLRU(8*cache.MiByte), filesystem.Options{})
	}
	c07SetupExtra(c, env, ids)
	return env
}

type c07Cfg struct {
	Storage string // memory | packed
	Window  uint
	Ref     bool
}

func (cfg c07Cfg) String() string {
	k := "ofs"
	if cfg.Ref {
		k = "ref"
	}
	return fmt.Sprintf("%s/window=%d/%s", cfg.Storage, cfg.Window, k)
}

type c07Info struct {
	nEnt, nDelta, maxDepth int
	dupIn                  bool
	trailer                []byte
	// territory reached (classes only)
	farOfs, hdr4, bigDelta bool
	deltaTypes             string
}

func c07HasDup(objs []c07Obj) bool {
	seen := map[string]bool{}
	for _, o := range objs {
		if seen[o.OID] {
			return true
		}
		seen[o.OID] = true
	}
	return false
}

// c07Encode runs the Encoder and reads the result with the independent pack
// reader. what == "" when everything the property says about the bytes holds.
func c07Encode(env *c07Env, objs []c07Obj, cfg c07Cfg) (pack []byte, info c07Info, what, detail string) {
	var st storer.EncodedObjectStorer
	if cfg.Storage == "memory" {
		m := env.mem.Get().(*memory.Storage)
		defer env.mem.Put(m)
		st = m
	} else if cfg.Storage == "packed-ofs" {
		f := env.fsOfs.Get().(*filesystem.Storage)
		defer env.fsOfs.Put(f)
		st = f
	} else if cfg.Storage == "loose" {
		f := env.fsLoose.Get().(*filesystem.Storage)
		defer env.fsLoose.Put(f)
		st = f
	} else {
		f := env.fs.Get().(*filesystem.Storage)
		defer env.fs.Put(f)
		st = f
	}
	var hashes []plumbing.Hash
	for _, o := range objs {
		hashes = append(hashes, plumbing.NewHash(o.OID))
	}
	var buf bytes.Buffer
	var sum plumbing.Hash
	var err error
	pan := ""
	func() {
		defer func() {
			if r := recover(); r != nil {
				pan = fmt.Sprint(r)
			}
		}()
		enc := packfile.NewEncoder(&buf, st, cfg.Ref)
		sum, err = enc.Encode(hashes, cfg.Window)
	}()
	if pan != "" {
		return nil, info, "Encode panics", pan
	}
	if err != nil {
		return nil, info, "Encode fails on stored objects", err.Error()
	}
	pack = buf.Bytes()
	hs := 20
	if env.sha256 {
		hs = 32
	}
	if len(pack) < 12+hs {
		return pack, info, "pack too short", fmt.Sprint(len(pack))
	}
	h := bNewHash(env.sha256)
	h.Write(pack[:len(pack)-hs])
	info.trailer = h.Sum(nil)
	if !bytes.Equal(info.trailer, pack[len(pack)-hs:]) {
		return pack, info, "trailer is not the checksum of the pack contents", hex.EncodeToString(pack[len(pack)-hs:])
	}
	if sum.String() != hex.EncodeToString(info.trailer) {
		return pack, info, "Encode returns a checksum different from the trailer", sum.String()
	}
	ents, rerr := bReadPack(pack, env.sha256, nil)
	if rerr != nil {
		return pack, info, "pack unreadable by the independent reader", rerr.Error()
	}
	want := map[string]bool{}
	for _, o := range objs {
		want[o.OID] = true
	}
	got := map[string]int{}
	nOfs, nRef := 0, 0
	pos := map[string]int64{}
	info.nEnt = len(ents)
	for _, e := range ents {
		if e.Unresolved {
			return pack, info, "pack holds a delta whose base is not in the pack", fmt.Sprintf("entry at %d", e.Off)
		}
		got[e.OID]++
		if _, ok := pos[e.OID]; !ok {
			pos[e.OID] = e.Off
		}
		if e.Type == bTOfs {
			nOfs++
		}
		if e.Type == bTRef {
			nRef++
		}
		if e.Type == bTOfs && e.Off-e.BaseOff >= 16384 {
			info.farOfs = true
		}
		if e.HdrLen >= 4 {
			info.hdr4 = true
		}
		if e.Type >= 6 && len(e.RData) > 65536 {
			info.bigDelta = true
		}
		if e.Type >= 6 && !strings.Contains(info.deltaTypes, e.RType[:2]) {
			info.deltaTypes += e.RType[:2]
		}
		if e.Type >= 6 {
			info.nDelta++
			if e.Depth > info.maxDepth {
				info.maxDepth = e.Depth
			}
		}
	}
	for _, id := range bSortedKeys(want) {
		if got[id] == 0 {
			return pack, info, "requested object missing from the pack", id
		}
	}
	dupReq := c07HasDup(objs)
	for _, id := range bSortedKeys(got) {
		if !want[id] {
			return pack, info, "pack holds an object that was not requested", id
		}
		if got[id] > 1 {
			info.dupIn = true
			if !dupReq {
				return pack, info, "object written twice although requested once", id
			}
		}
	}
	if (cfg.Ref && nOfs > 0) || (!cfg.Ref && nRef > 0) {
		return pack, info, "wrong delta kind in pack", fmt.Sprintf("ofs=%d ref=%d", nOfs, nRef)
	}
	if cfg.Window == 0 && info.nDelta > 0 {
		return pack, info, "deltas written with window 0", fmt.Sprint(info.nDelta)
	}
	return pack, info, "", ""
}

var c07Seq struct {
	sync.Mutex
	n int
}

// c07Git: git index-pack --strict must accept and index exactly the request.
// Leaves <base>.pack/.idx in dir and returns base ("" when rejected).
func c07Git(env *c07Env, objs []c07Obj, pack []byte, info c07Info, dir string) (base, what, detail string) {
	c07Seq.Lock()
	c07Seq.n++
	n := c07Seq.n
	c07Seq.Unlock()
	base = filepath.Join(dir, fmt.Sprintf("%s-%d", bFmtName(env.sha256), n))
	pf, idxf := base+".pack", base+".idx"
	bWriteFile(pf, pack)
	r := env.g.Run("index-pack", "--strict", "-o", idxf, pf)
	if !r.OK() && info.dupIn && c07HasDup(objs) && bytes.Contains(r.Err, []byte("appears twice in the pack")) {
		r = env.g.Run("index-pack", "-o", idxf, pf)
	}
	if !r.OK() {
		msg := bFirstLine(r.Err)
		cls := msg
		for _, known := range []string{"already resolved (duplicate base", "appears twice in the pack", "failed to apply delta", "unresolved delta", "pack is corrupted", "pack has bad object", "did not receive expected object", "fsck error"} {
			if strings.Contains(msg, known) {
				cls = known
			}
		}
		return "", "git index-pack rejects the pack (" + cls + ")", msg
	}
	ie, err := bReadIdx(bReadFile(idxf), env.sha256)
	if err != nil {
		fw.Abort("C07: cannot read git's idx: %v", err)
	}
	if len(ie) != info.nEnt {
		return "", "git indexes a different number of entries", fmt.Sprintf("%d vs %d", len(ie), info.nEnt)
	}
	want := map[string]bool{}
	for _, o := range objs {
		want[o.OID] = true
	}
	seen := map[string]bool{}
	for _, e := range ie {
		id := hex.EncodeToString(e.OID)
		if !want[id] {
			return "", "git finds an object in the pack that was not requested", id
		}
		seen[id] = true
	}
	if len(seen) != len(want) {
		return "", "git does not find every requested object in the pack", fmt.Sprintf("%d of %d", len(seen), len(want))
	}
	return base, "", ""
}

func c07Cfgs() []c07Cfg {
	var cfgs []c07Cfg
	for _, st := range []string{"memory", "packed"} {
		for _, ref := range []bool{false, true} {
			for _, w := range []uint{0, 1, 10, 50} {
				cfgs = append(cfgs, c07Cfg{st, w, ref})
			}
		}
	}
	// second driver: the OFS_DELTA source pack only matters when deltas are
	// looked up (window > 0); the loose source differs from the memory one in
	// how whole objects are read, not in the selection
	for _, ref := range []bool{false, true} {
		for _, w := range []uint{1, 10} {
			cfgs = append(cfgs, c07Cfg{"packed-ofs", w, ref})
		}
	}
	cfgs = append(cfgs, c07Cfg{"loose", 0, false}, c07Cfg{"loose", 10, false})
	return cfgs
}

// c07Report minimises a failing (request, configuration) and records it: the
// key is the failure class, the minimal request (objects named by type and
// order of appearance) and the simplest configuration that still fails.
func c07Report(c *fw.Ctx, envs []*c07Env, env *c07Env, objs []c07Obj, cfg c07Cfg, what, detail, dir string) []c07Obj {
	full := func(e *c07Env, o []c07Obj, cf c07Cfg) string {
		if len(o) == 0 {
			return ""
		}
		pack, info, w, _ := c07Encode(e, o, cf)
		if w != "" {
			return w
		}
		base, w, _ := c07Git(e, o, pack, info, dir)
		if w != "" {
			return w
		}
		if what == "git verify-pack rejects the pack" {
			if r := e.g.Run("verify-pack", "-v", base+".idx"); !r.OK() {
				return what
			}
		}
		return ""
	}
	// simpler objects come earlier in the universe (empty blob first)
	rank := map[string]int{}
	for i, o := range env.all {
		rank[o.Name] = i
	}
	min := fw.MinSeq(objs, nil, func(o []c07Obj) bool { return full(env, o, cfg) == what })
	// then replace each distinct object (all its occurrences at once, so that a
	// repeated request stays repeated) by the simplest one that still fails
	for k := 0; k < len(min) && !c07HasDup(min); k++ {
		cur := min[k]
		first := true
		for j := 0; j < k; j++ {
			if min[j].Name == cur.Name {
				first = false
			}
		}
		if !first {
			continue
		}
		for _, l := range env.all[:minInt(rank[cur.Name], 11)] {
			used := false
			for _, o := range min {
				if o.Name == l.Name {
					used = true
				}
			}
			if used {
				continue
			}
			cand := append([]c07Obj{}, min...)
			for j := range cand {
				if cand[j].Name == cur.Name {
					cand[j] = l
				}
			}
			if full(env, cand, cfg) == what {
				min = cand
				break
			}
		}
	}
	if c07HasDup(min) {
		// one defect (the request list is not de-duplicated) whatever the objects
		// and the configuration: one key per way git refuses the result
		var orig []string
		for _, o := range objs {
			orig = append(orig, o.Name)
		}
		c.Fail(what+" :: request names an object twice", what+": "+detail+" ["+cfg.String()+" "+bFmtName(env.sha256)+"]", map[string]any{
			"format": bFmtName(env.sha256), "config": cfg.String(), "request": orig, "minimal_request": c07Names(min),
			"replay": "objects = c07Universe(format); packfile.NewEncoder(w, storage, ref).Encode(hashes(request), window); git index-pack --strict; git verify-pack -v"})
		return min
	}
	// simplest configuration / format that still fails, one dimension at a time
	bestEnv, bestCfg := env, cfg
	mapTo := func(e *c07Env) []c07Obj {
		byName := map[string]c07Obj{}
		for _, o := range e.all {
			byName[o.Name] = o
		}
		var mo []c07Obj
		for _, o := range min {
			mo = append(mo, byName[o.Name])
		}
		return mo
	}
	if bestEnv != envs[0] && full(envs[0], mapTo(envs[0]), bestCfg) == what {
		bestEnv = envs[0]
	}
	mo := mapTo(bestEnv)
	if bestCfg.Storage != "memory" {
		t := bestCfg
		t.Storage = "memory"
		if full(bestEnv, mo, t) == what {
			bestCfg = t
		}
	}
	if bestCfg.Ref {
		t := bestCfg
		t.Ref = false
		if full(bestEnv, mo, t) == what {
			bestCfg = t
		}
	}
	for _, w := range []uint{0, 1, 10} {
		if w >= bestCfg.Window {
			break
		}
		t := bestCfg
		t.Window = w
		if full(bestEnv, mo, t) == what {
			bestCfg = t
			break
		}
	}
	roles := map[string]string{}
	cnt := map[string]int{}
	var names []string
	for _, o := range min {
		if _, ok := roles[o.Name]; !ok {
			cnt[o.Type]++
			roles[o.Name] = fmt.Sprintf("%s#%d", o.Type, cnt[o.Type])
		}
		names = append(names, roles[o.Name])
	}
	key := fmt.Sprintf("%s :: request {%s} [%s %s]", what, strings.Join(names, ","), bestCfg, bFmtName(bestEnv.sha256))
	var orig, mins []string
	for _, o := range objs {
		orig = append(orig, o.Name)
	}
	for _, o := range min {
		mins = append(mins, o.Name)
	}
	c.Fail(key, what+": "+detail+" ["+cfg.String()+" "+bFmtName(env.sha256)+"]", map[string]any{
		"format": bFmtName(env.sha256), "config": cfg.String(), "request": orig, "minimal_request": mins,
		"minimal_config": bestCfg.String() + " " + bFmtName(bestEnv.sha256),
		"replay":         "objects = c07Universe(format); packfile.NewEncoder(w, storage, ref).Encode(hashes(request), window); git index-pack --strict; git verify-pack -v"})
	return min
}

type c07Pack struct {
	env   *c07Env
	bytes []byte
	objs  []c07Obj
	cfg   c07Cfg
	info  c07Info
	base  string
}

func runC07(c *fw.Ctx) {
	maxSub := c.Pick(2, 4)
	c.Bound("universe", "empty blob, two near-identical 300-byte blobs, 3-step edit chain of 2 KiB blobs, 70 KiB blob, two near-identical trees, commit, tag (11 objects) + a 60-version edit chain requested as a whole")
	c.Bound("max_subset_size", maxSub)
	c.Bound("windows", []int{0, 1, 10, 50})
	c.Bound("delta_kinds", []string{"ofs", "ref"})
	c.Bound("object_formats", []string{"sha1", "sha256"})
	c.Bound("source_storages", []string{"memory (whole objects)", "filesystem storage over a git-written pack of REF_DELTA entries (deltas are reused)", "the same with OFS_DELTA entries (pack-objects --delta-base-offset)", "filesystem storage over loose objects"})
	c.Bound("extra_universe", "second driver (c07_extra.go): near-identical 70 KiB and 300 KiB blob pairs, near-identical commit and tag pairs, blobs of 1/16/17/18/19/40 bytes (two of each size from 17), a 21 KiB / 20 KiB incompressible / 19 KiB triple (OFS distance > 16384)")
	c.Bound("extra_requests", "the pairs, six requests of tiny blobs (thorough: every subset <=2 of seven), all tiny blobs, the far triple in both orders, chain[10:30], chain[:52], every other / every tenth missing element of the edit chain (thorough also chain[5:]), the whole universe")
	c.Bound("extra_configurations", "packed-ofs: window {1,10} x {ofs,ref}; loose: window {0,10} x ofs")
	c.SetRule("every subset of the universe up to max_subset_size (plus the same list with its first object requested twice for sizes 1-2, plus the whole 60-version chain: in order, reversed, and with a duplicate) x 4 windows x {ofs,ref} x {sha1,sha256} x 2 source storages is encoded with packfile.Encoder; the bytes are read by an independent pack reader (trailer = hash of body, header count = entries, resolved (type,content) set = request, no object twice unless requested twice), and every DISTINCT pack (byte-identical outputs of different configurations are run once) goes to `git index-pack --strict` (names in git's idx = request) and `git verify-pack -v`. distinct = (entries, #deltas, max chain depth, delta kind, has-duplicate) classes.")
	c.Assume("git index-pack runs inside a repository that holds the whole universe as loose objects, so that --strict link checks pass for sets that are not closed; 'The same object appears twice' from --strict is tolerated only when the request itself names an object twice (plain index-pack must then accept)")
	t0 := c.Elapsed().Seconds()
	phases := map[string]float64{}
	lap := func(name string) {
		phases[name] = c.Elapsed().Seconds() - t0
		t0 = c.Elapsed().Seconds()
	}

	type job struct {
		env  *c07Env
		objs []c07Obj
		cfg  c07Cfg
	}
	var jobs []job
	cfgs := c07Cfgs()
	var envs []*c07Env
	for _, s := range []bool{false, true} {
		envs = append(envs, c07Setup(c, s))
	}
	lap("setup")
	for _, env := range envs {
		core := env.all[:env.nCore]
		chain := env.all[env.nCore : env.nCore+env.nChain]
		var reqs [][]c07Obj
		for _, sub := range fw.Subsets(len(core), maxSub) {
			var r []c07Obj
			for _, i := range sub {
				r = append(r, core[i])
			}
			reqs = append(reqs, r)
			if len(sub) >= 1 && len(sub) <= 2 {
				reqs = append(reqs, append(append([]c07Obj{}, r...), r[0]))
			}
		}
		reqs = append(reqs, chain)
		reqs = append(reqs, append(append([]c07Obj{}, chain...), chain[7]))
		rev := make([]c07Obj, len(chain))
		for i := range chain {
			rev[len(chain)-1-i] = chain[i]
		}
		reqs = append(reqs, rev)
		reqs = append(reqs, c07ExtraRequests(env, c.Thorough())...)
		for _, r := range reqs {
			for _, cfg := range cfgs {
				jobs = append(jobs, job{env, r, cfg})
			}
		}
	}
	// smaller requests first (a deadline cuts the tail)
	sort.SliceStable(jobs, func(i, j int) bool { return len(jobs[i].objs) < len(jobs[j].objs) })
	c.Bound("encodes", len(jobs))
	pdir := c.TempDir("c07packs")
	mdir := c.TempDir("c07min")

	var mu sync.Mutex
	distinct := map[string]*c07Pack{}
	type failure struct {
		j            job
		what, detail string
	}
	var failures []failure
	lapAdd := func(name string) {
		phases[name] += c.Elapsed().Seconds() - t0
		t0 = c.Elapsed().Seconds()
	}
	nDistinct := 0
	allJobs := jobs
	// one size class after the other, each through all three phases, so that a
	// deadline only cuts the largest requests
	for lo := 0; lo < len(allJobs); {
		hi := lo
		for hi < len(allJobs) && len(allJobs[hi].objs) == len(allJobs[lo].objs) {
			hi++
		}
		jobs := allJobs[lo:hi]
		lo = hi
		var order []*c07Pack
		if c.Expired() {
			c.Incomplete(fmt.Sprintf("requests of %d objects and larger not run", len(jobs[0].objs)))
			break
		}
		// ---- phase 1: encode + independent reading
		c.ParDo(len(jobs), 0, func(i int) {
			j := jobs[i]
			pack, info, what, detail := c07Encode(j.env, j.objs, j.cfg)
			c.Eval()
			if what != "" {
				mu.Lock()
				failures = append(failures, failure{j, what, detail})
				mu.Unlock()
				return
			}
			depthClass := info.maxDepth
			if depthClass > 3 {
				depthClass = 3 + info.maxDepth/10
			}
			c.Class(fmt.Sprintf("n=%d deltas=%d depth=%d ref=%v dup=%v", minInt(info.nEnt, 6), minInt(info.nDelta, 4), depthClass, j.cfg.Ref && info.nDelta > 0, info.dupIn))
			if info.farOfs || info.hdr4 || info.bigDelta || strings.Contains(info.deltaTypes, "co") || strings.Contains(info.deltaTypes, "ta") {
				c.Class(fmt.Sprintf("far-ofs=%v hdr4=%v delta>64K=%v commit-delta=%v tag-delta=%v", info.farOfs, info.hdr4, info.bigDelta, strings.Contains(info.deltaTypes, "co"), strings.Contains(info.deltaTypes, "ta")))
			}
			key := bFmtName(j.env.sha256) + hex.EncodeToString(info.trailer)
			mu.Lock()
			if _, ok := distinct[key]; !ok {
				p := &c07Pack{env: j.env, bytes: append([]byte{}, pack...), objs: j.objs, cfg: j.cfg, info: info}
				distinct[key] = p
				order = append(order, p)
			}
			mu.Unlock()
			if i%997 == 3 {
				c.Sample(map[string]any{"request": c07Names(j.objs), "config": j.cfg.String(), "format": bFmtName(j.env.sha256), "entries": info.nEnt, "deltas": info.nDelta, "max_depth": info.maxDepth, "pack_bytes": len(pack)})
			}
		})
		lapAdd("encode")
		sort.Slice(order, func(i, j int) bool {
			if len(order[i].objs) != len(order[j].objs) {
				return len(order[i].objs) < len(order[j].objs)
			}
			return bytes.Compare(order[i].info.trailer, order[j].info.trailer) < 0
		})
		nDistinct += len(order)

		// ---- phase 2: git index-pack --strict on every distinct pack
		c.ParDo(len(order), 0, func(i int) {
			p := order[i]
			c.Eval()
			base, what, detail := c07Git(p.env, p.objs, p.bytes, p.info, pdir)
			if what != "" {
				mu.Lock()
				failures = append(failures, failure{job{p.env, p.objs, p.cfg}, what, detail})
				mu.Unlock()
				return
			}
			p.base = base
		})
		lapAdd("index-pack")

		// ---- phase 3: git verify-pack -v, many packs per process
		const batch = 40
		nb := (len(order) + batch - 1) / batch
		c.ParDo(nb, 0, func(b int) {
			for k, env := range envs {
				var args []string
				var ps []*c07Pack
				for i := b * batch; i < (b+1)*batch && i < len(order); i++ {
					if order[i].base != "" && order[i].env == envs[k] {
						args = append(args, order[i].base+".idx")
						ps = append(ps, order[i])
					}
				}
				if len(args) == 0 {
					continue
				}
				r := env.g.Run(append([]string{"verify-pack", "-v"}, args...)...)
				c.Evals(len(args))
				if r.OK() {
					continue
				}
				for k, a := range args { // find the culprits one by one
					r1 := env.g.Run("verify-pack", "-v", a)
					if !r1.OK() {
						mu.Lock()
						failures = append(failures, failure{job{ps[k].env, ps[k].objs, ps[k].cfg}, "git verify-pack rejects the pack", bFirstLine(r1.Err)})
						mu.Unlock()
					}
				}
			}
		})
		lapAdd("verify-pack")
	}
	c.Extra("distinct_packs", nDistinct)

	// ---- failures: minimise and report (same defect => same key)
	sort.SliceStable(failures, func(i, j int) bool {
		a, b := failures[i], failures[j]
		if len(a.j.objs) != len(b.j.objs) {
			return len(a.j.objs) < len(b.j.objs)
		}
		return a.what+strings.Join(c07Names(a.j.objs), ",")+a.j.cfg.String() < b.what+strings.Join(c07Names(b.j.objs), ",")+b.j.cfg.String()
	})
	c.Extra("failing_cases", len(failures))
	// a failing request that contains an already reported minimal request (same
	// failure, same delta kind and storage) is attributed to it
	type found struct {
		what    string
		names   map[string]int
		ref     bool
		storage string
		dup     bool
	}
	var founds []found
	for _, f := range failures {
		names := map[string]int{}
		for _, o := range f.j.objs {
			names[o.Name]++
		}
		covered := false
		for _, fd := range founds {
			if fd.what == f.what && fd.dup && c07HasDup(f.j.objs) {
				covered = true
				break
			}
			if fd.what != f.what || fd.ref != f.j.cfg.Ref || fd.storage != f.j.cfg.Storage {
				continue
			}
			sub := true
			for n, k := range fd.names {
				if names[n] < k {
					sub = false
				}
			}
			if sub {
				covered = true
				break
			}
		}
		if covered {
			continue
		}
		min := c07Report(c, envs, f.j.env, f.j.objs, f.j.cfg, f.what, f.detail, mdir)
		mn := map[string]int{}
		for _, o := range min {
			mn[o.Name]++
		}
		founds = append(founds, found{f.what, mn, f.j.cfg.Ref, f.j.cfg.Storage, c07HasDup(min)})
	}
	lap("minimise")
	c.Extra("phase_seconds", phases)
	os.RemoveAll(pdir)
	os.RemoveAll(mdir)
}

func c07Names(objs []c07Obj) []string {
	var n []string
	for _, o := range objs {
		n = append(n, o.Name)
	}
	return n
}

func minInt(a, b int) int {
	if a < b {
		return a
	}
	return b
}

package checks

// Grammar of commit and tag objects shared by C02 and C03.

import (
	"fmt"
	"strings"
)

// aLine is one logical header line (with its continuation lines), Text ends
// with "\n".
type aLine struct {
	Label string
	Text  string
}

// aMsg is what follows the headers.
type aMsg struct {
	Label string
	Sep   bool   // blank separator line present
	Body  string // bytes after the separator
	Cut   bool   // no separator and the last header line has no "\n"
}

type aCase struct {
	Kind           string // commit | tag
	Parents        int    // commit
	TType          string // tag: type of the target
	Lines          []aLine
	Msg            aMsg
	Shape          string // identity shape label when this is an identity-shape case
	ShapeMalformed bool
}

const (
	aTreeID  = "4b825dc642cb6eb9a060e54bf8d69288fbee4904"
	aPGP     = "-----BEGIN PGP SIGNATURE-----\n\niQEzBAABCAAdFiEE\n=abcd\n-----END PGP SIGNATURE-----\n"
	aPGP2    = "-----BEGIN PGP SIGNATURE-----\n\nsecond256\n-----END PGP SIGNATURE-----\n"
	aSSH     = "-----BEGIN SSH SIGNATURE-----\nU1NIU0lHAAAAAQ\n-----END SSH SIGNATURE-----\n"
	aX509    = "-----BEGIN SIGNED MESSAGE-----\nMIIB\n-----END SIGNED MESSAGE-----\n"
	aPGPMsg  = "-----BEGIN PGP MESSAGE-----\n\nowEB\n-----END PGP MESSAGE-----\n"
	aNormalA = "A U Thor <author@example.com> 1700000000 +0100"
	aNormalC = "C O Mitter <committer@example.com> 1700000001 -0700"
	aNormalT = "T A Gger <tagger@example.com> 1700000002 +0530"
)

var aParentIDs = []string{
	"1111111111111111111111111111111111111111",
	"5555555555555555555555555555555555555555",
	"6666666666666666666666666666666666666666",
}

// distinct (non-existent) targets per type: git caches the type of an id per process
var aTagTargets = map[string]string{
	"commit": "1111111111111111111111111111111111111111",
	"tree":   "2222222222222222222222222222222222222222",
	"blob":   "3333333333333333333333333333333333333333",
	"tag":    "4444444444444444444444444444444444444444",
}

// aHdr turns a multi-line value into a header with continuation lines.
func aHdr(key, value string) string {
	v := strings.TrimSuffix(value, "\n")
	return key + " " + strings.ReplaceAll(v, "\n", "\n ") + "\n"
}

var aCommitLineKinds = []aLine{
	{"author", "author " + aNormalA + "\n"},
	{"committer", "committer " + aNormalC + "\n"},
	{"author#2", "author Dup Licate <dup@example.com> 5 +0000\n"},
	{"encoding", "encoding ISO-8859-1\n"},
	{"encoding-utf8", "encoding UTF-8\n"},
	{"gpgsig", aHdr("gpgsig", aPGP)},
	{"gpgsig-sha256", aHdr("gpgsig-sha256", aPGP2)},
	{"mergetag", aHdr("mergetag", "object "+aParentIDs[1]+"\ntype commit\ntag v0\ntagger T <t@x> 1 +0000\n\nmerged\n")},
	{"foo", "foo bar\n"},
	{"foo-empty", "foo\n"},
	{"cont", "bar a\n \n b\n"},
}

var aTagLineKinds = []aLine{
	{"tagger", "tagger " + aNormalT + "\n"},
	{"tagger#2", "tagger Dup Licate <dup@example.com> 5 +0000\n"},
	{"gpgsig-sha256", aHdr("gpgsig-sha256", aPGP2)},
	{"gpgsig", aHdr("gpgsig", aPGP)},
	{"foo", "foo bar\n"},
	{"foo-empty", "foo\n"},
}

var aPlainMsgs = []aMsg{
	{Label: "no-separator"},
	{Label: "empty", Sep: true},
	{Label: "m", Sep: true, Body: "m"},
	{Label: "m-nl", Sep: true, Body: "m\n"},
	{Label: "nl-m-nl", Sep: true, Body: "\nm\n"},
	{Label: "only-newlines", Sep: true, Body: "\n\n"},
	{Label: "nul-inside", Sep: true, Body: "a\x00b\n"},
	{Label: "cut-header", Cut: true},
}

var aTagSigMsgs = []aMsg{
	{Label: "m+pgp", Sep: true, Body: "m\n" + aPGP},
	{Label: "m+ssh", Sep: true, Body: "m\n" + aSSH},
	{Label: "m+x509", Sep: true, Body: "m\n" + aX509},
	{Label: "m+pgpmessage", Sep: true, Body: "m\n" + aPGPMsg},
	{Label: "m+pgp+ssh", Sep: true, Body: "m\n" + aPGP + aSSH},
	{Label: "m+pgp+text", Sep: true, Body: "m\n" + aPGP + "trailing text\n"},
	{Label: "m-nonl+pgp", Sep: true, Body: "m" + aPGP},
	{Label: "pgp-only", Sep: true, Body: aPGP},
}

type aShape struct {
	Label, Ident string
	Malformed    bool // git fsck reports an error for the identity line
}

var aIdentShapes = []aShape{
	{"normal", "N A Me <n@example.com> 1700000000 +0100", false},
	{"no-angle-brackets", "N A Me 1700000000 +0100", true},
	{"empty-name", "<n@example.com> 1700000000 +0100", true},
	{"double-open-bracket", "N A Me <<n@example.com> 1700000000 +0100", true},
	{"missing-date", "N A Me <n@example.com>", true},
	{"ts-0", "N A Me <n@example.com> 0 +0000", false},
	{"ts-minus-1", "N A Me <n@example.com> -1 +0000", true},
	{"ts-2^31", "N A Me <n@example.com> 2147483648 +0000", false},
	{"ts-2^63-1", "N A Me <n@example.com> 9223372036854775807 +0000", false},
	{"ts-2^64", "N A Me <n@example.com> 18446744073709551616 +0000", true},
	{"tz-minus-0000", "N A Me <n@example.com> 1700000000 -0000", false},
	{"tz-plus-0530", "N A Me <n@example.com> 1700000000 +0530", false},
	{"tz-plus-9999", "N A Me <n@example.com> 1700000000 +9999", false},
	{"tz-minus-1", "N A Me <n@example.com> 1700000000 -1", true},
	{"tz-UTC", "N A Me <n@example.com> 1700000000 UTC", true},
	{"tz-minus-0030", "N A Me <n@example.com> 1700000000 -0030", false},
	{"tz-minus-0930", "N A Me <n@example.com> 1700000000 -0930", false},
}

// aLongLineCases: objects in git's own layout with ONE line longer than the
// usual reader buffers (4 KiB bufio default, 64 KiB): message line, unknown
// header value, continuation line of an unknown header and of gpgsig, identity
// name. Labels ending in "-long" are treated like their short kinds by
// aLayoutClass.
func aLongLineCases() []aCase {
	var out []aCase
	a, cm, tgr := aCommitLineKinds[0], aCommitLineKinds[1], aTagLineKinds[0]
	for _, n := range []int{5000, 70000} {
		v := strings.Repeat("v", n)
		sfx := fmt.Sprintf("-%d", n)
		msg := aMsg{Label: "long-line" + sfx, Sep: true, Body: "m\n\n" + v + "\nend\n"}
		plain := aPlainMsgs[3]
		longA := aLine{"author", "author " + strings.Repeat("N", n) + " <author@example.com> 1700000000 +0100\n"}
		longT := aLine{"tagger", "tagger " + strings.Repeat("N", n) + " <tagger@example.com> 1700000002 +0530\n"}
		pgpLong := "-----BEGIN PGP SIGNATURE-----\n\n" + v + "\n=abcd\n-----END PGP SIGNATURE-----\n"
		for _, lines := range [][]aLine{
			{a, cm},
			{longA, cm},
			{a, cm, {"foo-long" + sfx, "foo " + v + "\n"}},
			{a, cm, {"cont-long" + sfx, "bar a\n " + v + "\n b\n"}},
			{a, cm, {"gpgsig-long" + sfx, aHdr("gpgsig", pgpLong)}},
			{a, cm, {"cont-long" + sfx, "bar a\n " + v + "\n b\n"}, {"gpgsig-long" + sfx, aHdr("gpgsig", pgpLong)}},
		} {
			m := plain
			if len(lines) == 2 && lines[0].Text == a.Text {
				m = msg
			}
			out = append(out, aCase{Kind: "commit", Parents: 1, Lines: lines, Msg: m})
		}
		out = append(out,
			aCase{Kind: "tag", TType: "commit", Lines: []aLine{tgr}, Msg: msg},
			aCase{Kind: "tag", TType: "commit", Lines: []aLine{longT}, Msg: plain},
			aCase{Kind: "tag", TType: "commit", Lines: []aLine{tgr}, Msg: aMsg{Label: "long-line" + sfx + "+pgp", Sep: true, Body: msg.Body + aPGP}},
			aCase{Kind: "tag", TType: "commit", Lines: []aLine{tgr}, Msg: aMsg{Label: "m+pgp-long" + sfx, Sep: true, Body: "m\n" + pgpLong}},
		)
	}
	return out
}

// aTrailingBlankCases: an unknown multi-line header / a mergetag whose LAST
// continuation line is empty (" \n"), alone and followed by gpgsig.
func aTrailingBlankCases() []aCase {
	a, cm := aCommitLineKinds[0], aCommitLineKinds[1]
	tb := aLine{"cont-trailing-blank", "bar a\n \n"}
	mt := aLine{"mergetag-trailing-blank", aHdr("mergetag", "object "+aParentIDs[1]+"\ntype commit\ntag v0\ntagger T <t@x> 1 +0000\n\nmerged\n") + " \n"}
	var out []aCase
	for _, lines := range [][]aLine{{a, cm, tb}, {a, cm, tb, aCommitLineKinds[5]}, {a, cm, mt}, {a, cm, mt, aCommitLineKinds[5]}} {
		out = append(out, aCase{Kind: "commit", Parents: 1, Lines: lines, Msg: aPlainMsgs[3]})
	}
	return out
}

// aBaseLabel strips the "-long-<n>" suffix of a long-line label.
func aBaseLabel(l string) string {
	if i := strings.Index(l, "-long-"); i >= 0 {
		return l[:i]
	}
	return l
}

// Raw assembles the object bytes.
func (k aCase) Raw() []byte {
	var b strings.Builder
	if k.Kind == "commit" {
		b.WriteString("tree " + aTreeID + "\n")
		for i := 0; i < k.Parents; i++ {
			b.WriteString("parent " + aParentIDs[i] + "\n")
		}
	} else {
		b.WriteString("object " + aTagTargets[k.TType] + "\ntype " + k.TType + "\ntag v1\n")
	}
	for _, l := range k.Lines {
		b.WriteString(l.Text)
	}
	s := b.String()
	switch {
	case k.Msg.Cut:
		s = strings.TrimSuffix(s, "\n")
	case k.Msg.Sep:
		s += "\n" + k.Msg.Body
	}
	return []byte(s)
}

func (k aCase) Labels() []string {
	out := make([]string, len(k.Lines))
	for i, l := range k.Lines {
		out[i] = l.Label
	}
	return out
}

func (k aCase) Desc() string {
	head := fmt.Sprintf("commit parents=%d", k.Parents)
	if k.Kind == "tag" {
		head = "tag type=" + k.TType
	}
	s := head + " [" + strings.Join(k.Labels(), ", ") + "] msg=" + k.Msg.Label
	if k.Shape != "" {
		s += " identity=" + k.Shape
	}
	return s
}

// aOrderedSelections: every ordered selection of <= max distinct elements of [0,n).
func aOrderedSelections(n, max int) [][]int {
	out := [][]int{{}}
	var rec func(cur []int, used uint64)
	rec = func(cur []int, used uint64) {
		if len(cur) == max {
			return
		}
		for i := 0; i < n; i++ {
			if used&(1<<uint(i)) != 0 {
				continue
			}
			nx := append(append([]int{}, cur...), i)
			out = append(out, nx)
			rec(nx, used|1<<uint(i))
		}
	}
	rec(nil, 0)
	return out
}

// aCommitCases enumerates the commit space: parents x messages x
//
//	(A) every ordered selection of <= freeLines of all header-line kinds, and
//	(B) author, committer followed by every ordered selection of <= extraLines
//	    of the other kinds (git's own layout and its neighbours),
//
// plus the identity shapes in git's own layout.
func aCommitCases(freeLines, extraLines int, parents []int) []aCase {
	var out []aCase
	seen := map[string]bool{}
	add := func(lines []aLine) {
		key := ""
		for _, l := range lines {
			key += l.Label + ","
		}
		if seen[key] {
			return
		}
		seen[key] = true
		for _, p := range parents {
			for _, m := range aPlainMsgs {
				out = append(out, aCase{Kind: "commit", Parents: p, Lines: lines, Msg: m})
			}
		}
	}
	for _, sel := range aOrderedSelections(len(aCommitLineKinds), freeLines) {
		lines := make([]aLine, len(sel))
		for i, x := range sel {
			lines[i] = aCommitLineKinds[x]
		}
		add(lines)
	}
	others := aCommitLineKinds[2:]
	for _, sel := range aOrderedSelections(len(others), extraLines) {
		lines := []aLine{aCommitLineKinds[0], aCommitLineKinds[1]}
		for _, x := range sel {
			lines = append(lines, others[x])
		}
		add(lines)
	}
	for _, sh := range aIdentShapes {
		for _, who := range []string{"author", "committer"} {
			a, c := aNormalA, aNormalC
			if who == "author" {
				a = sh.Ident
			} else {
				c = sh.Ident
			}
			out = append(out, aCase{Kind: "commit", Parents: 1, Shape: who + ":" + sh.Label, ShapeMalformed: sh.Malformed, Msg: aPlainMsgs[3],
				Lines: []aLine{{"author", "author " + a + "\n"}, {"committer", "committer " + c + "\n"}}})
		}
	}
	return out
}

func aTagCases(maxLines int) []aCase {
	var out []aCase
	msgs := append(append([]aMsg{}, aPlainMsgs...), aTagSigMsgs...)
	for _, sel := range aOrderedSelections(len(aTagLineKinds), maxLines) {
		lines := make([]aLine, len(sel))
		for i, x := range sel {
			lines[i] = aTagLineKinds[x]
		}
		for _, t := range c01Types {
			for _, m := range msgs {
				out = append(out, aCase{Kind: "tag", TType: t, Lines: lines, Msg: m})
			}
		}
	}
	for _, sh := range aIdentShapes {
		out = append(out, aCase{Kind: "tag", TType: "commit", Shape: "tagger:" + sh.Label, ShapeMalformed: sh.Malformed, Msg: aPlainMsgs[3],
			Lines: []aLine{{"tagger", "tagger " + sh.Ident + "\n"}}})
	}
	return out
}

// aLayoutClass names the first way in which a case departs from the layout
// git itself writes ("" = git's own layout). Pure function of the input; used
// to key re-encoding differences.
func aLayoutClass(k aCase) string {
	lb := k.Labels()
	count := func(pfx string) int {
		n := 0
		for _, l := range lb {
			if l == pfx || strings.HasPrefix(l, pfx+"#") || strings.HasPrefix(l, pfx+"-utf8") {
				n++
			}
		}
		return n
	}
	if k.Kind == "commit" {
		if len(lb) < 2 || lb[0] != "author" || lb[1] != "committer" {
			return "author/committer missing or not right after tree/parents"
		}
		if count("author") > 1 {
			return "duplicate author header"
		}
		rest := lb[2:]
		stage := 0 // 0 encoding allowed, 1 extras, 2 after gpgsig, 3 after gpgsig-sha256
		for _, l := range rest {
			if strings.HasSuffix(l, "-trailing-blank") {
				return "extra header whose value ends in an empty continuation line"
			}
			switch aBaseLabel(l) {
			case "encoding":
				if stage > 0 {
					return "encoding header not directly after committer"
				}
				stage = 1
			case "encoding-utf8":
				return "redundant 'encoding UTF-8' header"
			case "mergetag", "foo", "foo-empty", "cont":
				if stage > 1 {
					return "extra header after a signature header"
				}
				stage = 1
			case "gpgsig":
				if stage > 1 {
					return "gpgsig after gpgsig-sha256"
				}
				stage = 2
			case "gpgsig-sha256":
				stage = 3
			}
		}
	} else {
		i := 0
		if i < len(lb) && lb[i] == "tagger" {
			i++
		}
		if i < len(lb) && lb[i] == "gpgsig-sha256" {
			i++
		}
		if i < len(lb) {
			switch lb[i] {
			case "tagger":
				return "tagger not right after the tag line"
			case "tagger#2":
				return "duplicate tagger header"
			case "gpgsig-sha256":
				return "gpgsig-sha256 header not where git writes it"
			default:
				return "header the Tag struct cannot represent (" + lb[i] + ")"
			}
		}
	}
	if !k.Msg.Sep {
		return "no blank line after the headers"
	}
	return ""
}

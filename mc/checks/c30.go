package checks

import (
	"fmt"
	"os"
	"sort"
	"strings"

	git "github.com/go-git/go-git/v6"
	"github.com/go-git/go-git/v6/plumbing"

	"verifmc/fw"
)

// C30: a checkout without force and a reset in merge / keep mode either
// refuse or preserve every uncommitted modification and every untracked file
// the target would overwrite.

func init() {
	fw.Register(&fw.Check{ID: "C30", Level: "exploration", Run: runC30, QuickBudget: 150, ThoroughBudget: 1200})
}

var (
	c30Mods = []string{"edit a", "edit d-side file", "chmod +x a", "untracked file at every path the target adds", "staged edit of a",
		"staged new file at a path the target adds", "untracked wrong-type entry where the target adds", "delete a",
		"a removed from the index only, untracked file left at a", "d-side file removed from the index only, untracked file left there"}
	c30Ops = []string{"Checkout(branch)", "Checkout(hash)", "Reset(Merge)", "Reset(Keep)"}
)

// vector layout: curA curD tgtA tgtD mod op  (commit alphabet of C25)
var c30Dims = []int{len(c25A), len(c25D), len(c25A), len(c25D), len(c30Mods), len(c30Ops)}

func c30Render(v []int) string {
	return fmt.Sprintf("cur={a:%c d:%c} target={a:%c d:%c} local=%q op=%s", c25A[v[0]], c25D[v[1]], c25A[v[2]], c25D[v[3]], c30Mods[v[4]], c30Ops[v[5]])
}

type c30Env struct {
	c *fw.Ctx
	t *hTemplate
}

func (e *c30Env) commit(a, d byte) string { return e.t.commit[string([]byte{a, d})] }

// setup builds cur checked out cleanly plus the local modification; returns
// the local content that must not be lost (path -> snapshot) or nil when the
// modification does not apply to this pair.
func (e *c30Env) setup(v []int, root string) map[string]string {
	ca, cd, ta, td := c25A[v[0]], c25D[v[1]], c25A[v[2]], c25D[v[3]]
	cur, tgt := c25Files(ca, cd), c25Files(ta, td)
	e.t.skel.instantiate(root, hConfig{FileMode: true}, "ref: refs/heads/main",
		map[string]string{"main": e.commit(ca, cd), "tgt": e.commit(ta, td)})
	var paths []string
	for p := range cur {
		paths = append(paths, p)
	}
	sort.Strings(paths)
	ents := map[string]hIdxEntry{}
	for _, p := range paths {
		hPut(root, p, cur[p], hOldTime)
		ents[p] = hIdxEntry{Path: p, Mode: hKindMode(cur[p]), OID: hKindOID(cur[p]), StatOf: p}
	}
	local := map[string]string{}
	added := func() []string { // paths of the target that are free in cur
		var out []string
		for p := range tgt {
			free := true
			for q := range cur {
				if hConflicts(p, q) {
					free = false
				}
			}
			if free {
				out = append(out, p)
			}
		}
		sort.Strings(out)
		return out
	}
	dside := ""
	for _, p := range paths {
		if p != "a" {
			dside = p
		}
	}
	var post []func() // worktree edits applied after the index was written
	switch v[4] {
	case 0:
		if k, ok := cur["a"]; !ok || k == 'l' {
			return nil
		}
		post = append(post, func() { hPut(root, "a", '3', hOldTime) })
		local["a"] = "F:three\n"
		if cur["a"] == 'x' {
			post = append(post, func() { os.Chmod(root+"/a", 0o755) })
			local["a"] = "X:three\n"
		}
	case 1:
		if dside == "" {
			return nil
		}
		post = append(post, func() { hPut(root, dside, '3', hOldTime) })
		local[dside] = "F:three\n"
	case 2:
		if k := cur["a"]; k != '1' && k != '2' {
			return nil
		}
		_, data := hKindSpec(cur["a"])
		post = append(post, func() { os.Chmod(root+"/a", 0o755); hSetMtime(root+"/a", hOldTime) })
		local["a"] = "X:" + data
	case 3:
		ad := added()
		if len(ad) == 0 {
			return nil
		}
		for _, p := range ad {
			p := p
			post = append(post, func() { hPut(root, p, '3', hOldTime) })
			local[p] = "F:three\n"
		}
	case 4:
		if k, ok := cur["a"]; !ok || k == 'l' {
			return nil
		}
		hPut(root, "a", '3', hOldTime)
		ents["a"] = hIdxEntry{Path: "a", Mode: 0o100644, OID: hKindOID('3'), StatOf: "a"}
		local["a"] = "F:three\n"
	case 5:
		ad := added()
		if len(ad) == 0 {
			return nil
		}
		p := ad[0]
		hPut(root, p, '3', hOldTime)
		ents[p] = hIdxEntry{Path: p, Mode: 0o100644, OID: hKindOID('3'), StatOf: p}
		local[p] = "F:three\n"
	case 6:
		ad := added()
		if len(ad) == 0 {
			return nil
		}
		for _, p := range ad {
			if strings.Contains(p, "/") { // target wants directory d: an untracked file d is in the way
				top := strings.Split(p, "/")[0]
				post = append(post, func() { hPut(root, top, '3', hOldTime) })
				local[top] = "F:three\n"
			} else { // target wants file p: an untracked directory p/ is in the way
				p := p
				post = append(post, func() { hPut(root, p+"/k", '3', hOldTime) })
				local[p+"/k"] = "F:three\n"
			}
		}
	case 7:
		if _, ok := cur["a"]; !ok {
			return nil
		}
		post = append(post, func() { hClearPath(root, "a") })
	case 8: // `git rm --cached a`, then a file of other content at the same name: untracked, at a path HEAD and possibly the target track
		if k, ok := cur["a"]; !ok || k == 'l' {
			return nil
		}
		delete(ents, "a")
		post = append(post, func() { hPut(root, "a", '3', hOldTime) })
		local["a"] = "F:three\n"
	case 9:
		if dside == "" {
			return nil
		}
		delete(ents, dside)
		post = append(post, func() { hPut(root, dside, '3', hOldTime) })
		local[dside] = "F:three\n"
	}
	var list []hIdxEntry
	for _, en := range ents {
		list = append(list, en)
	}
	hWriteIndex(root, list)
	for _, f := range post {
		f()
	}
	return local
}

// run returns (signature, class); class "" = modification not applicable.
func (e *c30Env) run(v []int) (sig, class string) {
	rootA, rootB := e.c.TempDir("c30a"), e.c.TempDir("c30b")
	defer os.RemoveAll(rootA)
	defer os.RemoveAll(rootB)
	local := e.setup(v, rootA)
	if local == nil {
		return "", ""
	}
	e.setup(v, rootB)
	tgtID := e.commit(c25A[v[2]], c25D[v[3]])
	var repo *git.Repository
	err := hCall(func() error {
		var err error
		repo, err = git.PlainOpen(rootA)
		if err != nil {
			return err
		}
		w, err := repo.Worktree()
		if err != nil {
			return err
		}
		switch v[5] {
		case 0:
			return w.Checkout(&git.CheckoutOptions{Branch: "refs/heads/tgt"})
		case 1:
			return w.Checkout(&git.CheckoutOptions{Hash: plumbing.NewHash(tgtID)})
		case 2:
			return w.Reset(&git.ResetOptions{Commit: plumbing.NewHash(tgtID), Mode: git.MergeReset})
		}
		return w.Reset(&git.ResetOptions{Commit: plumbing.NewHash(tgtID), Mode: git.KeepReset})
	})
	if repo != nil {
		repo.Close()
	}
	if hPanicked(err) {
		return "op:E'ok'/'panic'", "panic"
	}
	g := e.t.g.In(rootB)
	var r fw.Res
	switch v[5] {
	case 0:
		r = g.Run("checkout", "-q", "tgt")
	case 1:
		r = g.Run("checkout", "-q", "--detach", tgtID)
	case 2:
		r = g.Run("reset", "-q", "--merge", tgtID)
	case 3:
		r = g.Run("reset", "-q", "--keep", tgtID)
	}
	goRefused, gitRefused := err != nil, !r.OK()
	snapA, snapB := hSnapshotWT(rootA), hSnapshotWT(rootB)
	var items []string
	lostBoth := 0
	var lp []string
	for p := range local {
		lp = append(lp, p)
	}
	sort.Strings(lp)
	for _, p := range lp {
		// Whether go-git refused or not, the local content must still be there
		// (a refusal that already destroyed it is no refusal).
		goLost := snapA[p] != local[p]
		gitSafe := gitRefused || snapB[p] == local[p]
		if goLost && gitSafe {
			how := "overwritten"
			if snapA[p] == "" {
				how = "deleted"
			}
			verdict := "proceeds"
			if goRefused {
				verdict = "refuses-but"
			}
			gv := "keeps"
			if gitRefused {
				gv = "refuses"
			}
			items = append(items, fmt.Sprintf("%s:local'%s'/'%s-%s'", p, gv, verdict, how))
		} else if goLost {
			lostBoth++
		}
	}
	class = fmt.Sprintf("mod=%d op=%d go=%v git=%v bothlose=%d", v[4], v[5], goRefused, gitRefused, lostBoth)
	return strings.Join(items, ";"), class
}

func runC30(c *fw.Ctx) {
	g, dir := c.InitRepo("c30tmpl", "sha1", false)
	t := &hTemplate{g: g, dir: dir, commit: map[string]string{}}
	var specs []fw.CommitSpec
	var names []string
	for _, a := range []byte(c25A) {
		for _, d := range []byte(c25D) {
			files := map[string]fw.FileSpec{}
			for p, k := range c25Files(a, d) {
				mode, data := hKindSpec(k)
				files[p] = fw.FileSpec{Mode: mode, Data: data}
			}
			specs = append(specs, fw.CommitSpec{Time: 1700000000, Files: files, Msg: "c " + string([]byte{a, d}) + "\n"})
			names = append(names, string([]byte{a, d}))
		}
	}
	for i, id := range g.BuildHistory(specs, true) {
		t.commit[names[i]] = id
	}
	g.MustRunIn([]byte("three\n"), "hash-object", "-w", "--stdin")
	g.MustRun("pack-refs", "--all")
	g.MustRun("repack", "-adq")
	t.skel = hReadSkel(dir + "/.git")
	e := &c30Env{c: c, t: t}

	n := hVecCount(c30Dims)
	c.Bound("a_kinds", c25A)
	c.Bound("d_shapes", c25D)
	c.Bound("local_modifications", c30Mods)
	c.Bound("ops", c30Ops)
	c.Bound("vectors", n)
	c.SetRule("all ordered pairs of the 20 commits of C25 (quick: 12 of them, without the second contents) (a: absent/2 contents/exec/symlink, d: absent/file/dir x2) x 10 local modifications x {Checkout branch, Checkout hash, Reset Merge, Reset Keep} (inapplicable combinations skipped and not counted); the same op runs through go-git on copy A and real git on copy B; a case fails when local content (bytes+exec bit at its path) is gone from A although git either refused or kept it; cases where git itself discards the content (e.g. staged edits under reset --merge) are only counted; non-trivial = every executed case; distinct counts (modification, op, go-git refused?, git refused?, lost-by-both)")
	c.Assume("git 2.39.5 checkout / reset --merge / reset --keep verdicts are the reference for what may be discarded; a deletion carries no content and is not judged; go-git refusing more often than git is allowed by the statement")

	if v := hDevVec(); v != nil {
		sig, class := e.run(v)
		fmt.Printf("case %s\n class %s\n disagreement %s\n", c30Render(v), class, sig)
		return
	}
	var fails hFailures
	c.ParDo(n, 0, func(k int) {
		i := hSpread(k, n)
		v := hVecAt(c30Dims, i)
		if !c.Thorough() && (c25A[v[0]] == '2' || c25A[v[2]] == '2' || c25A[v[0]] == 'e' || c25A[v[2]] == 'e' || c25D[v[1]] == 'E' || c25D[v[3]] == 'E') {
			return // quick: 12 of the 20 commits
		}
		sig, class := e.run(v)
		if class == "" {
			return
		}
		c.Eval()
		c.Class(class)
		if i%211 == 0 {
			c.Sample(map[string]any{"case": c30Render(v), "class": class, "disagreement": sig})
		}
		if sig != "" {
			// class = (op family, kind of local change, what happened to it); paths are not part of the key
			opc := []string{"Checkout", "Checkout", "Reset(Merge)", "Reset(Keep)"}[v[5]]
			modc := []string{"unstaged edit of a tracked file", "unstaged edit of a tracked file", "chmod +x of a tracked file", "untracked file at a path the target adds",
				"staged edit of a tracked file", "staged new file at a path the target adds", "untracked wrong-type entry where the target adds", "deleted tracked file",
				"untracked file at a path removed from the index only", "untracked file at a path removed from the index only"}[v[4]]
			for tok := range hSigTokens(sig) {
				fails.addHint(i, v, sig, fmt.Sprintf("%s with %s: %s", opc, modc, tok))
			}
		}
	})
	hReportClasses(c, &fails, c30Render)
}

package checks

import (
	"fmt"
	"io"
	"sort"
	"strings"
	"time"

	git "github.com/go-git/go-git/v6"
	"github.com/go-git/go-git/v6/plumbing"
	"github.com/go-git/go-git/v6/plumbing/cache"
	"github.com/go-git/go-git/v6/plumbing/filemode"
	"github.com/go-git/go-git/v6/plumbing/object"
	"github.com/go-git/go-git/v6/plumbing/storer"
	"github.com/go-git/go-git/v6/storage/filesystem"

	"verifmc/fw"
	"verifmc/mcfs"
)

var fixedSig = &object.Signature{Name: "V", Email: "v@example.com", When: time.Unix(1700001000, 0).UTC()}

// twoRepoWorld builds one world holding a client repository (/wt, /wt/.git)
// cloned by real git from a bare server repository (/srv/r.git) that is one
// commit ahead; both were written by git (one pack + loose objects, packed and
// loose refs, a tag).
type repoInfo struct {
	c1, c2, c3 string // commits: client has c1,c2 ; server has c1,c2,c3
	tag        string
}

func twoRepoWorld(c *fw.Ctx) (*mcfs.World, repoInfo) {
	gs, sdir := c.InitRepo("srv", "", false)
	ids := gs.BuildHistory([]fw.CommitSpec{
		{Time: 1700000000, Files: map[string]fw.FileSpec{"a": {Data: "a1\n"}, "d/b": {Data: "b1\n"}}},
		{Parents: []int{0}, Time: 1700000100, Files: map[string]fw.FileSpec{"a": {Data: "a2\n"}, "d/b": {Data: "b1\n"}, "x": {Data: "x\n", Mode: "100755"}}},
	}, false)
	gs.MustRun("update-ref", "refs/heads/main", ids[1])
	gs.MustRun("update-ref", "refs/heads/b", ids[0])
	gs.MustRun("tag", "-a", "-m", "t", "v1", ids[0])
	gs.MustRun("repack", "-a", "-d", "-q")
	gs.MustRun("pack-refs", "--all")
	home := c.GitHome()
	cdir := c.TempDir("client")
	home.MustRun("clone", "-q", sdir, cdir)
	gc := home.In(cdir)
	gc.MustRun("branch", "b", "origin/b")
	// server moves ahead by one commit (loose objects on the server)
	ids3 := gs.BuildHistory([]fw.CommitSpec{
		{Time: 1700000000, Files: map[string]fw.FileSpec{"a": {Data: "a1\n"}, "d/b": {Data: "b1\n"}}},
		{Parents: []int{0}, Time: 1700000100, Files: map[string]fw.FileSpec{"a": {Data: "a2\n"}, "d/b": {Data: "b1\n"}, "x": {Data: "x\n", Mode: "100755"}}},
		{Parents: []int{1}, Time: 1700000200, Files: map[string]fw.FileSpec{"a": {Data: "a3\n"}, "d/b": {Data: "b3\n"}, "n": {Data: "new\n"}}},
	}, false)
	if ids3[1] != ids[1] {
		fw.Abort("history not reproducible")
	}
	gs.MustRun("update-ref", "refs/heads/main", ids3[2])
	gc.MustRun("config", "remote.origin.url", "file:///srv/r.git")
	gc.MustRun("config", "user.name", "V")
	gc.MustRun("config", "user.email", "v@example.com")
	w := mcfs.NewWorld()
	c.Must(w.Import(cdir, "/wt"), "import client")
	c.Must(w.Import(sdir+"/.git", "/srv/r.git"), "import server")
	w.RemoveSetup("/wt/.git/hooks")
	w.RemoveSetup("/srv/r.git/hooks")
	// make the server bare for go-git/git
	if b, ok := w.ReadFile("/srv/r.git/config"); ok {
		w.WriteFile("/srv/r.git/config", []byte(strings.Replace(string(b), "bare = false", "bare = true", 1)), false)
	}
	w.AdvanceClock(10) // files are older than "now"
	return w, repoInfo{c1: ids[0], c2: ids[1], c3: ids3[2], tag: gs.MustRun("rev-parse", "v1").S()}
}

func openStorage(w *mcfs.World, gitdir, id string) *filesystem.Storage {
	return filesystem.NewStorage(w.View(gitdir, id), cache.NewObjectLRUDefault())
}

func openRepo(w *mcfs.World, gitdir, wt string) (*git.Repository, *filesystem.Storage, error) {
	st := openStorage(w, gitdir, "git")
	if wt == "" {
		r, err := git.Open(st, nil)
		return r, st, err
	}
	r, err := git.Open(st, w.View(wt, "wt"))
	return r, st, err
}

// refsOf lists all references (name -> value) through a fresh storage.
func refsOf(w *mcfs.World, gitdir string) (map[string]string, error) {
	st := openStorage(w, gitdir, "probe")
	it, err := st.IterReferences()
	if err != nil {
		return nil, err
	}
	m := map[string]string{}
	err = it.ForEach(func(r *plumbing.Reference) error {
		m[r.Name().String()] = refVal(r)
		return nil
	})
	return m, err
}

// repoProblems opens the repository with go-git and reports everything that
// makes it unreadable or disconnected: unreadable HEAD/index/config, refs that
// do not resolve, objects reachable from any reference that are missing or
// unreadable.
func repoProblems(w *mcfs.World, gitdir string) []string {
	var probs []string
	st := openStorage(w, gitdir, "probe")
	if _, err := st.Config(); err != nil {
		probs = append(probs, "config unreadable: "+normErr(err))
	}
	if _, err := st.Index(); err != nil {
		probs = append(probs, "index unreadable: "+normErr(err))
	}
	if _, err := st.Shallow(); err != nil {
		probs = append(probs, "shallow unreadable: "+normErr(err))
	}
	head, err := st.Reference(plumbing.HEAD)
	if err != nil {
		probs = append(probs, "HEAD unreadable: "+normErr(err))
	}
	refs := map[string]*plumbing.Reference{}
	it, err := st.IterReferences()
	if err != nil {
		return append(probs, "references cannot be listed: "+normErr(err))
	}
	if err := it.ForEach(func(r *plumbing.Reference) error { refs[r.Name().String()] = r; return nil }); err != nil {
		return append(probs, "references cannot be listed: "+normErr(err))
	}
	if head != nil {
		refs["HEAD"] = head
	}
	seen := map[plumbing.Hash]bool{}
	var walk func(h plumbing.Hash, via string)
	walk = func(h plumbing.Hash, via string) {
		if seen[h] {
			return
		}
		seen[h] = true
		o, err := st.EncodedObject(plumbing.AnyObject, h)
		if err != nil {
			probs = append(probs, fmt.Sprintf("object missing/unreadable via %s: %s", via, normErr(err)))
			return
		}
		rd, err := o.Reader()
		if err == nil {
			_, err = io.Copy(io.Discard, rd)
			rd.Close()
		}
		if err != nil {
			probs = append(probs, fmt.Sprintf("object content unreadable via %s: %s", via, normErr(err)))
			return
		}
		switch o.Type() {
		case plumbing.CommitObject:
			cm, err := object.DecodeCommit(st, o)
			if err != nil {
				probs = append(probs, "commit undecodable via "+via)
				return
			}
			walk(cm.TreeHash, via+">tree")
			for _, p := range cm.ParentHashes {
				walk(p, via+">parent")
			}
		case plumbing.TreeObject:
			t, err := object.DecodeTree(st, o)
			if err != nil {
				probs = append(probs, "tree undecodable via "+via)
				return
			}
			for _, e := range t.Entries {
				if e.Mode == filemode.Submodule {
					continue
				}
				walk(e.Hash, via+">entry")
			}
		case plumbing.TagObject:
			t, err := object.DecodeTag(st, o)
			if err != nil {
				probs = append(probs, "tag undecodable via "+via)
				return
			}
			walk(t.Target, via+">target")
		}
	}
	names := make([]string, 0, len(refs))
	for n := range refs {
		names = append(names, n)
	}
	sort.Strings(names)
	for _, n := range names {
		r := refs[n]
		for depth := 0; r != nil && r.Type() == plumbing.SymbolicReference && depth < 5; depth++ {
			t, err := st.Reference(r.Target())
			if err != nil {
				if n == "HEAD" {
					r = nil // unborn branch is a valid state
					break
				}
				probs = append(probs, fmt.Sprintf("symbolic ref %s -> %s does not resolve", refClass(n), refClass(r.Target().String())))
				r = nil
				break
			}
			r = t
		}
		if r == nil || r.Type() != plumbing.HashReference {
			continue
		}
		if r.Hash().IsZero() {
			probs = append(probs, "ref "+refClass(n)+" has a zero/garbage value")
			continue
		}
		walk(r.Hash(), "ref "+refClass(n))
	}
	sort.Strings(probs)
	return dedup(probs)
}

var _ storer.EncodedObjectStorer = (*filesystem.Storage)(nil)

func dedup(s []string) []string {
	var out []string
	for i, x := range s {
		if i == 0 || x != s[i-1] {
			out = append(out, x)
		}
	}
	return out
}

// refClass keeps finding keys stable across hashes but specific per namespace.
func refClass(n string) string { return n }

func normErr(err error) string {
	if err == nil {
		return "ok"
	}
	f := strings.Fields(err.Error())
	for i, x := range f {
		t := strings.Trim(x, ":\"'")
		if (len(t) == 40 || len(t) == 64) && isHex(t) {
			f[i] = "<hash>"
		}
	}
	return strings.Join(f, " ")
}

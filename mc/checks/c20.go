package checks

import (
	"bytes"
	"crypto"
	"fmt"
	"reflect"
	"sort"
	"strings"
	"sync/atomic"
	"syscall"

	git "github.com/go-git/go-git/v6"
	"github.com/go-git/go-git/v6/plumbing"
	"github.com/go-git/go-git/v6/plumbing/format/index"
	githash "github.com/go-git/go-git/v6/plumbing/hash"
	"github.com/go-git/go-git/v6/storage/filesystem"

	"verifmc/fw"
	"verifmc/mcfs"
)

func init() {
	fw.Register(&fw.Check{ID: "C20", Level: "model_checking", Run: runC20, QuickBudget: 100, ThoroughBudget: 1200})
}

type c20Op struct {
	name string
	ext  bool // external rewrite (not a go-git call)
	do   func(s *c20Sys) error
}

type c20Sys struct {
	w    *mcfs.World
	repo *git.Repository
	st   *filesystem.Storage
	info repoInfo
}

func decodeDiskIndex(w *mcfs.World) (*index.Index, error) {
	b, ok := w.ReadFile("/wt/.git/index")
	idx := &index.Index{Version: 2}
	if !ok {
		return idx, nil
	}
	err := index.NewDecoder(bytes.NewReader(b), githash.New(crypto.SHA1)).Decode(idx)
	return idx, err
}

func encodeIndex(idx *index.Index) []byte {
	var buf bytes.Buffer
	if err := index.NewEncoder(&buf, githash.New(crypto.SHA1)).Encode(idx); err != nil {
		fw.Abort("encode index: %v", err)
	}
	return buf.Bytes()
}

func indexString(idx *index.Index) string {
	var ls []string
	for _, e := range idx.Entries {
		ls = append(ls, fmt.Sprintf("%s h=%s m=%o sz=%d st=%d skip=%v ita=%v mt=%d ct=%d dev=%d ino=%d uid=%d gid=%d", e.Name, e.Hash.String()[:8], e.Mode, e.Size, e.Stage, e.SkipWorktree, e.IntentToAdd, e.ModifiedAt.UnixNano(), e.CreatedAt.UnixNano(), e.Dev, e.Inode, e.UID, e.GID))
	}
	sort.Strings(ls)
	ext := fmt.Sprintf("v=%d cache=%v reuc=%v eoie=%v", idx.Version, idx.Cache != nil, idx.ResolveUndo != nil, idx.EndOfIndexEntry != nil)
	if idx.Cache != nil {
		ext += fmt.Sprintf(" cache-entries=%d", len(idx.Cache.Entries))
	}
	return ext + "\n" + strings.Join(ls, "\n")
}

// compare returns "" when the cached view equals the decode of the bytes on disk.
func (s *c20Sys) compare() string {
	disk, derr := decodeDiskIndex(s.w)
	view, verr := s.st.Index()
	if derr != nil {
		if verr != nil {
			return "" // the file on disk is undecodable and the storage says so too
		}
		return "disk index undecodable (" + normErr(derr) + ") but Index() returns a value"
	}
	if verr != nil {
		return "Index() fails (" + normErr(verr) + ") although the file decodes"
	}
	a, b := indexString(disk), indexString(view)
	if a != b {
		return "Index() differs from the on-disk index: " + diffLines(a, b)
	}
	// also deep-compare caches/extensions
	d2, v2 := *disk, *view
	d2.ModTime, v2.ModTime = d2.ModTime, d2.ModTime
	d2.Entries, v2.Entries = nil, nil
	if !reflect.DeepEqual(d2.Cache, v2.Cache) || !reflect.DeepEqual(d2.ResolveUndo, v2.ResolveUndo) || !reflect.DeepEqual(d2.EndOfIndexEntry, v2.EndOfIndexEntry) {
		return "Index() extensions differ from the on-disk index"
	}
	return ""
}

func c20Ops(info repoInfo) []c20Op {
	wt := func(s *c20Sys) *git.Worktree {
		w, err := s.repo.Worktree()
		if err != nil {
			fw.Abort("worktree: %v", err)
		}
		return w
	}
	rewrite := func(s *c20Sys, mutate func(idx *index.Index), keepMtime bool) error {
		idx, err := decodeDiskIndex(s.w)
		if err != nil {
			return nil // nothing sensible to rewrite
		}
		old := s.w.Mtime("/wt/.git/index")
		mutate(idx)
		if !keepMtime {
			s.w.AdvanceClock(3)
		}
		s.w.WriteFile("/wt/.git/index", encodeIndex(idx), false)
		if keepMtime {
			s.w.Touch("/wt/.git/index", old)
		}
		return nil
	}
	return []c20Op{
		{name: "edit+Add(a)", do: func(s *c20Sys) error {
			s.w.AdvanceClock(2)
			s.w.WriteFile("/wt/a", []byte("edited "+fmt.Sprint(s.w.Clock())+"\n"), false)
			_, err := wt(s).Add("a")
			return err
		}},
		{name: "new+Add(d/n)", do: func(s *c20Sys) error {
			s.w.AdvanceClock(2)
			s.w.WriteFile("/wt/d/n", []byte("new\n"), false)
			_, err := wt(s).Add("d/n")
			return err
		}},
		{name: "AddAll", do: func(s *c20Sys) error {
			s.w.AdvanceClock(2)
			s.w.WriteFile("/wt/x", []byte("x changed\n"), true)
			s.w.RemoveSetup("/wt/d/b")
			return wt(s).AddWithOptions(&git.AddOptions{All: true})
		}},
		{name: "Remove(x)", do: func(s *c20Sys) error { _, err := wt(s).Remove("x"); return err }},
		{name: "Move(a,a2)", do: func(s *c20Sys) error { _, err := wt(s).Move("a", "a2"); return err }},
		{name: "Commit", do: func(s *c20Sys) error {
			_, err := wt(s).Commit("m\n", &git.CommitOptions{Author: fixedSig, AllowEmptyCommits: true})
			return err
		}},
		{name: "Reset(hard,c1)", do: func(s *c20Sys) error {
			return wt(s).Reset(&git.ResetOptions{Mode: git.HardReset, Commit: plumbing.NewHash(info.c1)})
		}},
		{name: "Reset(mixed,c1)", do: func(s *c20Sys) error {
			return wt(s).Reset(&git.ResetOptions{Mode: git.MixedReset, Commit: plumbing.NewHash(info.c1)})
		}},
		{name: "Checkout(b,sparse d)", do: func(s *c20Sys) error {
			return wt(s).Checkout(&git.CheckoutOptions{Branch: "refs/heads/b", SparseCheckoutDirectories: []string{"d"}, Force: true})
		}},
		{name: "Checkout(main)", do: func(s *c20Sys) error {
			return wt(s).Checkout(&git.CheckoutOptions{Branch: "refs/heads/main"})
		}},
		{name: "Status", do: func(s *c20Sys) error { _, err := wt(s).Status(); return err }},
		{name: "ext:rewrite(new size,new mtime)", ext: true, do: func(s *c20Sys) error {
			return rewrite(s, func(idx *index.Index) {
				e, _ := idx.Add("ext-added")
				e.Hash = plumbing.NewHash(info.c1)
				e.Mode = 0o100644
			}, false)
		}},
		{name: "ext:rewrite(same size,new mtime)", ext: true, do: func(s *c20Sys) error {
			return rewrite(s, func(idx *index.Index) {
				if len(idx.Entries) > 0 {
					idx.Entries[0].Hash = plumbing.NewHash(info.c2)
				}
			}, false)
		}},
		{name: "ext:rewrite(new size,same mtime)", ext: true, do: func(s *c20Sys) error {
			return rewrite(s, func(idx *index.Index) {
				e, _ := idx.Add("ext-added-2")
				e.Hash = plumbing.NewHash(info.c1)
				e.Mode = 0o100644
			}, true)
		}},
	}
}

func runC20(c *fw.Ctx) {
	depth := c.Pick(2, 3)
	c.Bound("depth", depth)
	base, info := twoRepoWorld(c)
	ops := c20Ops(info)
	var names []string
	for _, o := range ops {
		names = append(names, o.name)
	}
	c.Bound("ops", names)
	c.SetRule("one repository instance (its storage keeps the index cache) over mcfs; all sequences up to depth over 11 worktree operations and 3 external rewrites of .git/index (new size+new mtime, same size+new mtime, new size+same mtime); after EVERY step the value of Storer.Index() is compared, field by field and including extensions, with an independent decode of the bytes currently on disk; additionally for every sequence the LAST go-git operation is re-run with each of its filesystem calls failing once (EIO on mutating calls, and on opens of worktree files) and the comparison is repeated after the failed call, once with the cache warmed by a prior Index() and once cold (the failing operation performs the first index read of the instance); distinct = distinct (sequence outcome, index content) pairs")
	c.Assume("rewrites that change neither size nor mtime are outside the statement; Index.ModTime (in-memory stamp) is excluded from the comparison; mcfs clock ticks per mutating call")
	seqs := fw.Seqs(len(ops), depth)
	var states, trans atomic.Int64
	newSys := func() *c20Sys {
		w := base.Clone()
		repo, st, err := openRepo(w, "/wt/.git", "/wt")
		if err != nil {
			fw.Abort("open: %v", err)
		}
		return &c20Sys{w: w, repo: repo, st: st, info: info}
	}
	run := func(s *c20Sys, op c20Op) (err error) {
		defer func() {
			if r := recover(); r != nil {
				err = fmt.Errorf("panic: %v", r)
			}
		}()
		return op.do(s)
	}
	c.ParDo(len(seqs), 0, func(i int) {
		seq := seqs[i]
		if len(seq) == 0 {
			return
		}
		var hist []string
		for _, k := range seq {
			hist = append(hist, ops[k].name)
		}
		// 1. plain run, compare after every step
		s := newSys()
		if d := s.compare(); d != "" { // warm the cache with the initial index
			fw.Abort("initial state differs: %s", d)
		}
		okUntil := len(seq)
		for j, k := range seq {
			err := run(s, ops[k])
			trans.Add(1)
			if d := s.compare(); d != "" {
				res := "ok"
				if err != nil {
					res = "error"
				}
				c.Fail(fmt.Sprintf("after %s (%s): %s", opKind(ops[k].name), res, c20Norm(d)), fmt.Sprintf("history %v, step %d (%s, returned %v): %s", hist, j, ops[k].name, err, d), map[string]any{"history": hist, "step": j})
				okUntil = j
				break
			}
		}
		c.Eval()
		states.Add(1)
		c.Class(strings.Join(hist, ";") + "|" + s.w.Hash("/wt/.git/index"))
		if okUntil < len(seq) {
			return
		}
		// 2. single faults in the last operation
		last := ops[seq[len(seq)-1]]
		if last.ext {
			return
		}
		// count fault sites with a dry run
		count := func() int {
			s := newSys()
			s.compare()
			for _, k := range seq[:len(seq)-1] {
				run(s, ops[k])
			}
			n := 0
			s.w.SetHook(func(op *mcfs.Op) error {
				if c20FaultSite(op) {
					n++
				}
				return nil
			})
			run(s, last)
			return n
		}()
		for f2 := 0; f2 < 2*count; f2++ {
			f, cold := f2/2, f2%2 == 1
			s := newSys()
			if !cold {
				s.compare()
			}
			for _, k := range seq[:len(seq)-1] {
				run(s, ops[k])
			}
			if !cold {
				s.compare() // cache holds the pre-state
			} // cold: the failing operation's own index read is the cache miss that fills the cache
			n := 0
			var site string
			s.w.SetHook(func(op *mcfs.Op) error {
				if c20FaultSite(op) {
					if n == f {
						n++
						site = op.Kind + " " + fileClass(op.Path)
						return syscall.EIO
					}
					n++
				}
				return nil
			})
			err := run(s, last)
			s.w.SetHook(nil)
			trans.Add(1)
			c.Eval()
			if d := s.compare(); d != "" {
				res := "ok"
				if err != nil {
					res = "error"
				}
				c.Fail(fmt.Sprintf("after %s with EIO at %s (%s): %s", opKind(last.name), site, res, c20Norm(d)),
					fmt.Sprintf("history %v, last operation with filesystem call #%d (%s) failing (returned %v): %s", hist, f, site, err, d), map[string]any{"history": hist, "fault_index": f, "site": site})
			}
			c.Class(strings.Join(hist, ";") + fmt.Sprintf("|fault%d|", f) + s.w.Hash("/wt/.git/index"))
		}
		if i%37 == 0 {
			c.Sample(map[string]any{"history": hist, "fault_sites_in_last_op": count})
		}
	})
	c.States(int(states.Load()))
	c.Transitions(int(trans.Load()))
	c.TracesValidated(0)
}

func c20FaultSite(op *mcfs.Op) bool {
	if op.Mutating {
		return true
	}
	return (op.Kind == "open" || op.Kind == "stat" || op.Kind == "lstat") && strings.HasPrefix(op.Path, "/wt/") && !strings.HasPrefix(op.Path, "/wt/.git")
}

func opKind(n string) string {
	if i := strings.IndexByte(n, '('); i > 0 {
		return n[:i]
	}
	return n
}

func c20Norm(d string) string {
	d = reHashPath.ReplaceAllString(d, "<h>")
	// keep the shape only
	if i := strings.Index(d, ": [") ; i > 0 {
		return d[:i]
	}
	return d
}

package checks

import (
	"bytes"
	"crypto"
	"fmt"
	"os"
	"reflect"
	"sort"
	"strings"
	"sync/atomic"
	"syscall"

	git "github.com/go-git/go-git/v6"
	"github.com/go-git/go-git/v6/plumbing"
	"github.com/go-git/go-git/v6/plumbing/format/index"
	githash "github.com/go-git/go-git/v6/plumbing/hash"
	"github.com/go-git/go-git/v6/storage/filesystem"

	"verifmc/fw"
	"verifmc/mcfs"
)

func init() {
	fw.Register(&fw.Check{ID: "C20", Level: "model_checking", Run: runC20, QuickBudget: 240, ThoroughBudget: 1200})
}

type c20Op struct {
	name string
	ext  bool // external rewrite (not a go-git call)
	do   func(s *c20Sys) error
}

type c20Sys struct {
	w      *mcfs.World
	repo   *git.Repository
	st     *filesystem.Storage
	info   repoInfo
	frozen bool // coarse-timestamp configuration: go-git's own writes do not move the clock
}

// adv moves the clock ahead of a worktree edit made by the harness, except in
// the frozen-clock configuration (everything go-git does then happens within
// one timestamp granule; only the "new mtime" external rewrites move time).
func (s *c20Sys) adv(n int64) {
	if !s.frozen {
		s.w.AdvanceClock(n)
	}
}

func decodeDiskIndex(w *mcfs.World) (*index.Index, error) {
	b, ok := w.ReadFile("/wt/.git/index")
	idx := &index.Index{Version: 2}
	if !ok {
		return idx, nil
	}
	err := index.NewDecoder(bytes.NewReader(b), githash.New(crypto.SHA1)).Decode(idx)
	return idx, err
}

func encodeIndex(idx *index.Index) []byte {
	var buf bytes.Buffer
	if err := index.NewEncoder(&buf, githash.New(crypto.SHA1)).Encode(idx); err != nil {
		fw.Abort("encode index: %v", err)
	}
	return buf.Bytes()
}

func indexString(idx *index.Index) string {
	var ls []string
	for _, e := range idx.Entries {
		ls = append(ls, fmt.Sprintf("%s h=%s m=%o sz=%d st=%d skip=%v ita=%v mt=%d ct=%d dev=%d ino=%d uid=%d gid=%d", e.Name, e.Hash.String()[:8], e.Mode, e.Size, e.Stage, e.SkipWorktree, e.IntentToAdd, e.ModifiedAt.UnixNano(), e.CreatedAt.UnixNano(), e.Dev, e.Inode, e.UID, e.GID))
	}
	sort.Strings(ls)
	ext := fmt.Sprintf("v=%d cache=%v reuc=%v eoie=%v", idx.Version, idx.Cache != nil, idx.ResolveUndo != nil, idx.EndOfIndexEntry != nil)
	if idx.Cache != nil {
		ext += fmt.Sprintf(" cache-entries=%d", len(idx.Cache.Entries))
	}
	return ext + "\n" + strings.Join(ls, "\n")
}

func entryOrder(idx *index.Index) string {
	var sb strings.Builder
	for _, e := range idx.Entries {
		fmt.Fprintf(&sb, "%s#%d ", e.Name, e.Stage)
	}
	return sb.String()
}

// compare returns "" when the cached view equals the decode of the bytes on disk.
func (s *c20Sys) compare() string {
	disk, derr := decodeDiskIndex(s.w)
	view, verr := s.st.Index()
	if derr != nil {
		if verr != nil {
			return "" // the file on disk is undecodable and the storage says so too
		}
		return "disk index undecodable (" + normErr(derr) + ") but Index() returns a value"
	}
	if verr != nil {
		return "Index() fails (" + normErr(verr) + ") although the file decodes"
	}
	a, b := indexString(disk), indexString(view)
	if a != b {
		return "Index() differs from the on-disk index: " + diffLines(a, b)
	}
	// same entries: they must also come in the order a decode gives them
	if a, b := entryOrder(disk), entryOrder(view); a != b {
		return "Index() returns the entries in another order than the on-disk index: " + fmt.Sprintf("[] want %q got %q", a, b)
	}
	// also deep-compare caches/extensions
	d2, v2 := *disk, *view
	d2.ModTime, v2.ModTime = d2.ModTime, d2.ModTime
	d2.Entries, v2.Entries = nil, nil
	if !reflect.DeepEqual(d2.Cache, v2.Cache) || !reflect.DeepEqual(d2.ResolveUndo, v2.ResolveUndo) || !reflect.DeepEqual(d2.EndOfIndexEntry, v2.EndOfIndexEntry) {
		return "Index() extensions differ from the on-disk index"
	}
	return ""
}

func c20Ops(info repoInfo, gitIndex []byte) []c20Op {
	wt := func(s *c20Sys) *git.Worktree {
		w, err := s.repo.Worktree()
		if err != nil {
			fw.Abort("worktree: %v", err)
		}
		return w
	}
	rewrite := func(s *c20Sys, mutate func(idx *index.Index), keepMtime bool) error {
		idx, err := decodeDiskIndex(s.w)
		if err != nil {
			return nil // nothing sensible to rewrite
		}
		old := s.w.Mtime("/wt/.git/index")
		mutate(idx)
		if !keepMtime {
			s.w.AdvanceClock(3)
		}
		s.w.WriteFile("/wt/.git/index", encodeIndex(idx), false)
		if keepMtime {
			s.w.Touch("/wt/.git/index", old)
		}
		return nil
	}
	return []c20Op{
		{name: "edit+Add(a)", do: func(s *c20Sys) error {
			s.adv(2)
			s.w.WriteFile("/wt/a", []byte("edited "+fmt.Sprint(s.w.Clock())+"\n"), false)
			_, err := wt(s).Add("a")
			return err
		}},
		{name: "new+Add(d/n)", do: func(s *c20Sys) error {
			s.adv(2)
			s.w.WriteFile("/wt/d/n", []byte("new\n"), false)
			_, err := wt(s).Add("d/n")
			return err
		}},
		{name: "AddAll", do: func(s *c20Sys) error {
			s.adv(2)
			s.w.WriteFile("/wt/x", []byte("x changed\n"), true)
			s.w.RemoveSetup("/wt/d/b")
			return wt(s).AddWithOptions(&git.AddOptions{All: true})
		}},
		{name: "Remove(x)", do: func(s *c20Sys) error { _, err := wt(s).Remove("x"); return err }},
		{name: "Move(a,a2)", do: func(s *c20Sys) error { _, err := wt(s).Move("a", "a2"); return err }},
		{name: "Commit", do: func(s *c20Sys) error {
			_, err := wt(s).Commit("m\n", &git.CommitOptions{Author: fixedSig, AllowEmptyCommits: true})
			return err
		}},
		{name: "Reset(hard,c1)", do: func(s *c20Sys) error {
			return wt(s).Reset(&git.ResetOptions{Mode: git.HardReset, Commit: plumbing.NewHash(info.c1)})
		}},
		{name: "Reset(mixed,c1)", do: func(s *c20Sys) error {
			return wt(s).Reset(&git.ResetOptions{Mode: git.MixedReset, Commit: plumbing.NewHash(info.c1)})
		}},
		{name: "Checkout(b,sparse d)", do: func(s *c20Sys) error {
			return wt(s).Checkout(&git.CheckoutOptions{Branch: "refs/heads/b", SparseCheckoutDirectories: []string{"d"}, Force: true})
		}},
		{name: "Checkout(main)", do: func(s *c20Sys) error {
			return wt(s).Checkout(&git.CheckoutOptions{Branch: "refs/heads/main"})
		}},
		{name: "Status", do: func(s *c20Sys) error { _, err := wt(s).Status(); return err }},
		{name: "ext:rewrite(new size,new mtime)", ext: true, do: func(s *c20Sys) error {
			return rewrite(s, func(idx *index.Index) {
				e, _ := idx.Add("ext-added")
				e.Hash = plumbing.NewHash(info.c1)
				e.Mode = 0o100644
			}, false)
		}},
		{name: "ext:rewrite(same size,new mtime)", ext: true, do: func(s *c20Sys) error {
			return rewrite(s, func(idx *index.Index) {
				if len(idx.Entries) > 0 {
					idx.Entries[0].Hash = plumbing.NewHash(info.c2)
				}
			}, false)
		}},
		{name: "ext:rewrite(new size,same mtime)", ext: true, do: func(s *c20Sys) error {
			return rewrite(s, func(idx *index.Index) {
				e, _ := idx.Add("ext-added-2")
				e.Hash = plumbing.NewHash(info.c1)
				e.Mode = 0o100644
			}, true)
		}},
		// --- added by the hole review (notes/C20-holes.md) ---
		{name: "ext:rewrite(smaller size,same mtime)", ext: true, do: func(s *c20Sys) error {
			return rewrite(s, func(idx *index.Index) {
				if len(idx.Entries) > 0 {
					idx.Entries = idx.Entries[:len(idx.Entries)-1]
				}
			}, true)
		}},
		{name: "ext:rewrite(same size,older mtime)", ext: true, do: func(s *c20Sys) error {
			// a file restored from a backup / written by a process with an older clock
			idx, err := decodeDiskIndex(s.w)
			if err != nil {
				return nil
			}
			old := s.w.Mtime("/wt/.git/index")
			if len(idx.Entries) > 0 {
				idx.Entries[0].Hash = plumbing.NewHash(info.c2)
				idx.Entries[0].Size += 7
			}
			s.w.WriteFile("/wt/.git/index", encodeIndex(idx), false)
			s.w.Touch("/wt/.git/index", old-4)
			return nil
		}},
		{name: "ext:git writes a v4 index with TREE+REUC+EOIE", ext: true, do: func(s *c20Sys) error {
			s.w.AdvanceClock(3)
			s.w.WriteFile("/wt/.git/index", append([]byte{}, gitIndex...), false)
			return nil
		}},
		{name: "ext:delete index", ext: true, do: func(s *c20Sys) error {
			s.w.RemoveSetup("/wt/.git/index")
			return nil
		}},
		{name: "ext:truncate index (undecodable)", ext: true, do: func(s *c20Sys) error {
			b, ok := s.w.ReadFile("/wt/.git/index")
			if !ok || len(b) < 40 {
				return nil
			}
			s.w.AdvanceClock(3)
			s.w.WriteFile("/wt/.git/index", append([]byte{}, b[:len(b)-27]...), false)
			return nil
		}},
		{name: "Storer.SetIndex(idx) then caller keeps editing idx", do: func(s *c20Sys) error {
			// what a caller of the storer API may do: the value handed to SetIndex stays the
			// caller's; editing it afterwards (without writing) must not reach later readers
			idx, err := s.st.Index()
			if err != nil {
				return err
			}
			if err := s.st.SetIndex(idx); err != nil {
				return err
			}
			if len(idx.Entries) > 0 {
				idx.Entries[0].Hash = plumbing.NewHash(info.c2)
				idx.Entries[0].Size += 11
				idx.Entries = idx.Entries[:len(idx.Entries)-1]
			}
			return nil
		}},
		{name: "AddGlob(d/*)", do: func(s *c20Sys) error {
			s.adv(2)
			s.w.WriteFile("/wt/d/b", []byte("b glob "+fmt.Sprint(s.w.Clock())+"\n"), false)
			s.w.WriteFile("/wt/d/g", []byte("g\n"), false)
			return wt(s).AddGlob("d/*")
		}},
		{name: "RemoveGlob(d/*)", do: func(s *c20Sys) error { return wt(s).RemoveGlob("d/*") }},
		{name: "Commit(All)", do: func(s *c20Sys) error {
			s.adv(2)
			s.w.WriteFile("/wt/a", []byte("for commit -a "+fmt.Sprint(s.w.Clock())+"\n"), false)
			s.w.RemoveSetup("/wt/d/b")
			_, err := wt(s).Commit("all\n", &git.CommitOptions{Author: fixedSig, All: true, AllowEmptyCommits: true})
			return err
		}},
		{name: "Restore(staged,a)", do: func(s *c20Sys) error {
			return wt(s).Restore(&git.RestoreOptions{Staged: true, Files: []string{"a"}})
		}},
		{name: "Reset(merge,c1)", do: func(s *c20Sys) error {
			return wt(s).Reset(&git.ResetOptions{Mode: git.MergeReset, Commit: plumbing.NewHash(info.c1)})
		}},
	}
}

func runC20(c *fw.Ctx) {
	depth := c.Pick(2, 3)
	c.Bound("depth", depth)
	base, info := twoRepoWorld(c)
	gitIndex := c20GitIndex(c, base)
	ops := c20Ops(info, gitIndex)
	var names []string
	for _, o := range ops {
		names = append(names, o.name)
	}
	c.Bound("ops", names)
	c.SetRule("one repository instance (its storage keeps the index cache) over mcfs, in two clock configurations (ticking: every mutating call gets a new timestamp; frozen: all of go-git's writes fall into the timestamp granule the index file already has, so only the size can invalidate the cache after go-git's own writes); all sequences up to depth over 16 worktree operations (Add of an existing/new path, Add(All), AddGlob, Remove, RemoveGlob, Move, Commit, Commit(All), Reset hard/mixed/merge, Restore(staged), sparse and plain Checkout, Status), one direct storer call (SetIndex, after which the caller keeps editing the value it passed) and 8 external rewrites of .git/index (a git-written version-4 index with cached-tree, resolve-undo and end-of-index-entry extensions, new size+new mtime, same size+new mtime, larger/smaller size+same mtime, same size+OLDER mtime, file deleted, file truncated to an undecodable one); after EVERY step the value of Storer.Index() is compared, field by field, in entry order and including extensions, with an independent decode of the bytes currently on disk; additionally for every sequence the LAST go-git operation is re-run with each of its filesystem calls failing once (EIO on mutating calls, on stat/open of worktree files and on stat/open/fstat/read of the index file itself) and the comparison is repeated after the failed call, once with the cache warmed by a prior Index() and once cold (the failing operation performs the first index read of the instance); distinct = distinct (clock configuration, sequence outcome, index content) pairs")
	c.Assume("rewrites that change neither size nor mtime are outside the statement; Index.ModTime (in-memory stamp) is excluded from the comparison; the mcfs clock ticks per mutating call (ticking configuration) or only when an external rewrite says so (frozen configuration)")
	seqs := fw.Seqs(len(ops), depth)
	clocks := []string{"ticking", "frozen"}
	c.Bound("clock_configurations", clocks)
	var states, trans atomic.Int64
	run := func(s *c20Sys, op c20Op) (err error) {
		defer func() {
			if r := recover(); r != nil {
				err = fmt.Errorf("panic: %v", r)
			}
		}()
		return op.do(s)
	}
	c.ParDo(len(seqs)*len(clocks), 0, func(ci int) {
		i, frozen := ci/len(clocks), ci%len(clocks) == 1
		seq := seqs[i]
		if len(seq) == 0 {
			return
		}
		cfg := ""
		if frozen {
			cfg = "[frozen clock] "
		}
		newSys := func() *c20Sys {
			w := base.Clone()
			if frozen {
				// every write go-git makes lands in the timestamp granule the index already has
				w.ClockStep = 0
				w.Touch("/wt/.git/index", w.Clock())
			}
			repo, st, err := openRepo(w, "/wt/.git", "/wt")
			if err != nil {
				fw.Abort("open: %v", err)
			}
			return &c20Sys{w: w, repo: repo, st: st, info: info, frozen: frozen}
		}
		var hist []string
		for _, k := range seq {
			hist = append(hist, ops[k].name)
		}
		// 1. plain run, compare after every step
		s := newSys()
		if d := s.compare(); d != "" { // warm the cache with the initial index
			fw.Abort("initial state differs: %s", d)
		}
		okUntil := len(seq)
		for j, k := range seq {
			err := run(s, ops[k])
			trans.Add(1)
			if d := s.compare(); d != "" {
				res := "ok"
				if err != nil {
					res = "error"
				}
				c.Fail(fmt.Sprintf("%safter %s (%s): %s", cfg, opKind(ops[k].name), res, c20Norm(d)), fmt.Sprintf("%shistory %v, step %d (%s, returned %v): %s", cfg, hist, j, ops[k].name, err, d), map[string]any{"history": hist, "step": j, "frozen_clock": frozen})
				okUntil = j
				break
			}
		}
		c.Eval()
		states.Add(1)
		c.Class(cfg + strings.Join(hist, ";") + "|" + s.w.Hash("/wt/.git/index"))
		if okUntil < len(seq) {
			return
		}
		// 2. single faults in the last operation
		last := ops[seq[len(seq)-1]]
		if last.ext {
			return
		}
		// count fault sites with a dry run
		count := func() int {
			s := newSys()
			s.compare()
			for _, k := range seq[:len(seq)-1] {
				run(s, ops[k])
			}
			n := 0
			s.w.SetHook(func(op *mcfs.Op) error {
				if c20FaultSite(op) {
					n++
				}
				return nil
			})
			run(s, last)
			return n
		}()
		for f2 := 0; f2 < 2*count; f2++ {
			f, cold := f2/2, f2%2 == 1
			s := newSys()
			if !cold {
				s.compare()
			}
			for _, k := range seq[:len(seq)-1] {
				run(s, ops[k])
			}
			if !cold {
				s.compare() // cache holds the pre-state
			} // cold: the failing operation's own index read is the cache miss that fills the cache
			n := 0
			var site string
			s.w.SetHook(func(op *mcfs.Op) error {
				if c20FaultSite(op) {
					if n == f {
						n++
						site = op.Kind + " " + fileClass(op.Path)
						return syscall.EIO
					}
					n++
				}
				return nil
			})
			err := run(s, last)
			s.w.SetHook(nil)
			trans.Add(1)
			c.Eval()
			if d := s.compare(); d != "" {
				res := "ok"
				if err != nil {
					res = "error"
				}
				c.Fail(fmt.Sprintf("%safter %s with EIO at %s (%s): %s", cfg, opKind(last.name), site, res, c20Norm(d)),
					fmt.Sprintf("%shistory %v, last operation with filesystem call #%d (%s) failing (returned %v): %s", cfg, hist, f, site, err, d), map[string]any{"history": hist, "fault_index": f, "site": site, "frozen_clock": frozen})
			}
			c.Class(cfg + strings.Join(hist, ";") + fmt.Sprintf("|fault%d|", f) + s.w.Hash("/wt/.git/index"))
		}
		if i%37 == 0 {
			c.Sample(map[string]any{"history": hist, "fault_sites_in_last_op": count, "frozen_clock": frozen})
		}
	})
	c.States(int(states.Load()))
	c.Transitions(int(trans.Load()))
	c.TracesValidated(0)
}

// c20FaultSite: every mutating call, the stat/open of worktree files ("unreadable
// file") and every call that reads the index file itself (stat, open, fstat, read):
// the cache is keyed on the stat of that file and refilled from those reads.
// c20GitIndex has real git produce, in a dump of the client repository, an index
// file of version 4 that carries the cached-tree, resolve-undo and
// end-of-index-entry extensions (a merge conflict resolved with git add).
func c20GitIndex(c *fw.Ctx, base *mcfs.World) []byte {
	dir := c.TempDir("c20git")
	c.Must(base.Dump("/wt", dir), "dump client")
	g := c.GitHome().In(dir).C("index.recordEndOfIndexEntries=true", "index.version=4", "user.name=V", "user.email=v@example.com")
	g.MustRun("checkout", "-q", "-b", "side", "b")
	c.Must(os.WriteFile(dir+"/a", []byte("a on side\n"), 0o644), "write")
	g.MustRun("commit", "-q", "-a", "-m", "side")
	g.Run("merge", "-q", "main") // conflicts in a
	c.Must(os.WriteFile(dir+"/a", []byte("a resolved\n"), 0o644), "write")
	g.MustRun("add", "a")
	g.MustRun("write-tree")
	g.MustRun("update-index", "--index-version", "4", "--force-write")
	b, err := os.ReadFile(dir + "/.git/index")
	c.Must(err, "read git index")
	idx := &index.Index{}
	c.Must(index.NewDecoder(bytes.NewReader(b), githash.New(crypto.SHA1)).Decode(idx), "decode git index")
	if idx.Version != 4 || idx.Cache == nil || idx.ResolveUndo == nil || idx.EndOfIndexEntry == nil {
		fw.Abort("git did not produce the wanted index: v=%d tree=%v reuc=%v eoie=%v", idx.Version, idx.Cache != nil, idx.ResolveUndo != nil, idx.EndOfIndexEntry != nil)
	}
	return b
}

func c20FaultSite(op *mcfs.Op) bool {
	if op.Mutating {
		return true
	}
	if op.Path == "/wt/.git/index" || strings.HasSuffix(op.Path, "(index)") || strings.HasSuffix(op.Path, "/index)") {
		return op.Kind == "open" || op.Kind == "stat" || op.Kind == "lstat" || op.Kind == "fstat" || op.Kind == "read"
	}
	return (op.Kind == "open" || op.Kind == "stat" || op.Kind == "lstat") && strings.HasPrefix(op.Path, "/wt/") && !strings.HasPrefix(op.Path, "/wt/.git")
}

func opKind(n string) string {
	if i := strings.IndexByte(n, '('); i > 0 {
		return n[:i]
	}
	return n
}

func c20Norm(d string) string {
	d = reHashPath.ReplaceAllString(d, "<h>")
	// keep the shape only
	if i := strings.Index(d, ": [") ; i > 0 {
		return d[:i]
	}
	return d
}

package checks

// C37: object selection for transfer. For any wants and haves over any stored
// history, revlist.Objects returns R with
//     reachObj(wants) \ reachObj(haves)  ⊆  R  ⊆  reachObj(wants)
// (non-shallow store; missing haves are ignored).
//
// Space: DAG x weak order of committer timestamps x assignment of root trees
// from a small menu with shared subtrees, the same subtree under two names,
// reverted content and a submodule entry x wants/haves (commits, annotated
// tags on commits/tree/blob/tag, a raw tree and blob, a missing have).
// Oracle: object-level reachability model; the model's reach sets are replayed
// against real `git rev-list --objects` on the complete smaller space, where
// git's own wants/--not haves answer must also lie between the two bounds.

import (
	"bytes"
	"encoding/hex"
	"fmt"
	"sort"
	"strings"

	"github.com/go-git/go-git/v6/plumbing"
	"github.com/go-git/go-git/v6/plumbing/revlist"

	"verifmc/fw"
)

func init() {
	fw.Register(&fw.Check{ID: "C37", Level: "model_checking", Run: runC37, QuickBudget: 100, ThoroughBudget: 1200})
}

// ---- the static object universe: blobs, subtrees, root-tree menu ----

type c37Universe struct {
	objs  map[string]eObj
	kids  map[string][]string // tree -> entries (gitlinks excluded), tag -> target
	menu  []string            // root tree ids
	blobX string
	names []string
}

func c37Tree(entries [][3]string) []byte { // mode, name, hex id; already sorted
	var b bytes.Buffer
	for _, e := range entries {
		raw, _ := hex.DecodeString(e[2])
		fmt.Fprintf(&b, "%s %s\x00", e[0], e[1])
		b.Write(raw)
	}
	return b.Bytes()
}

func c37NewUniverse() *c37Universe {
	u := &c37Universe{objs: map[string]eObj{}, kids: map[string][]string{}}
	put := func(typ string, body []byte, kids ...string) string {
		id := eHashObj(typ, body)
		u.objs[id] = eObj{Type: typ, Body: body, ID: id}
		u.kids[id] = kids
		return id
	}
	X := put("blob", []byte("x\n"))
	Y := put("blob", []byte("y\n"))
	K := put("blob", []byte("k\n"))
	L := put("blob", []byte("l\n"))
	u.blobX = X
	subK := put("tree", c37Tree([][3]string{{"100644", "g", K}}), K)
	subL := put("tree", c37Tree([][3]string{{"100644", "g", L}}), L)
	deep := put("tree", c37Tree([][3]string{{"40000", "h", subK}}), subK)
	link := strings.Repeat("1", 40)
	t0 := put("tree", c37Tree([][3]string{{"100644", "a", X}, {"40000", "d", subK}}), X, subK)
	t1 := put("tree", c37Tree([][3]string{{"100644", "a", Y}, {"40000", "d", subK}}), Y, subK)
	t2 := put("tree", c37Tree([][3]string{{"100644", "a", X}, {"40000", "d", subL}, {"160000", "s", link}}), X, subL)
	t3 := put("tree", c37Tree([][3]string{{"100644", "a", Y}, {"40000", "d", subL}, {"40000", "e", subK}}), Y, subL, subK)
	t4 := put("tree", c37Tree([][3]string{{"40000", "d", deep}, {"100644", "k", X}}), deep, X)
	// a directory with one child that changes and one (w, reachable from nothing else) that never does:
	// T0 -> T5 -> T6 -> T5 adds d/w, changes d/g, and reverts the directory to a tree seen before
	W := put("blob", []byte("w: only below d, never changes\n"))
	subKW := put("tree", c37Tree([][3]string{{"100644", "g", K}, {"100644", "w", W}}), K, W)
	subLW := put("tree", c37Tree([][3]string{{"100644", "g", L}, {"100644", "w", W}}), L, W)
	t5 := put("tree", c37Tree([][3]string{{"100644", "a", X}, {"40000", "d", subKW}}), X, subKW)
	t6 := put("tree", c37Tree([][3]string{{"100644", "a", X}, {"40000", "d", subLW}}), X, subLW)
	// the name d is a directory in T0 and a file in T7 (and the reverse going back); T8 is the empty tree
	t7 := put("tree", c37Tree([][3]string{{"100644", "a", X}, {"100644", "d", K}}), X, K)
	t8 := put("tree", nil)
	if t8 != eEmptyTree {
		fw.Abort("empty tree id %s", t8)
	}
	u.menu = []string{t0, t1, t2, t3, t4, t5, t6, t7, t8}
	u.names = []string{"T0{a:x d/g:k}", "T1{a:y d/g:k}", "T2{a:x d/g:l s:gitlink}", "T3{a:y d/g:l e/g:k}", "T4{d/h/g:k k:x}", "T5{a:x d/g:k d/w}", "T6{a:x d/g:l d/w}", "T7{a:x d:k (file)}", "T8{} (empty tree)"}
	return u
}

func (u *c37Universe) addTag(name, target, ttype string) string {
	body := []byte(fmt.Sprintf("object %s\ntype %s\ntag %s\ntagger T Agger <tagger@example.com> 1700000000 +0000\n\n%s\n", target, ttype, name, name))
	id := eHashObj("tag", body)
	u.objs[id] = eObj{Type: "tag", Body: body, ID: id}
	u.kids[id] = []string{target}
	return id
}

// c37Case is an instance plus its tree assignment, tags and object graph.
type c37Case struct {
	in     *eInst
	assign []int
	u      *c37Universe
	kids   map[string][]string // instance-local: commits and tags
	typ    map[string]string
	tagC   []string // tag on commit i
	tagT   string   // tag on the root tree of commit 0
	tagB   string   // tag on blob x
	tag2   string   // tag on tagC[n-1]
	extra  []eObj
}

func c37NewCase(u *c37Universe, d fw.DAG, ranks []int, assign []int) *c37Case {
	cs := &c37Case{assign: assign, u: u, kids: map[string][]string{}, typ: map[string]string{}}
	cs.in = eNewInst(d, ranks, func(i int) string { return u.menu[assign[i]] })
	in := cs.in
	local := map[string]eObj{}
	tag := func(name, target, ttype string) string {
		body := []byte(fmt.Sprintf("object %s\ntype %s\ntag %s\ntagger T Agger <tagger@example.com> 1700000000 +0000\n\n%s\n", target, ttype, name, name))
		id := eHashObj("tag", body)
		local[id] = eObj{Type: "tag", Body: body, ID: id}
		cs.kids[id] = []string{target}
		cs.typ[id] = "tag"
		return id
	}
	for i := 0; i < in.N; i++ {
		k := []string{in.Tree[i]}
		for _, p := range in.Parents[i] {
			k = append(k, in.ID[p])
		}
		cs.kids[in.ID[i]] = k
		cs.typ[in.ID[i]] = "commit"
		cs.tagC = append(cs.tagC, tag(fmt.Sprintf("c%d", i), in.ID[i], "commit"))
	}
	cs.tagT = tag("tree0", in.Tree[0], "tree")
	cs.tagB = tag("blobx", u.blobX, "blob")
	cs.tag2 = tag("nested", cs.tagC[in.N-1], "tag")
	// extra objects of the instance: reachable universe objects + tags
	seen := map[string]bool{}
	var walk func(id string)
	walk = func(id string) {
		if seen[id] {
			return
		}
		seen[id] = true
		if o, ok := u.objs[id]; ok {
			cs.extra = append(cs.extra, o)
			for _, k := range u.kids[id] {
				walk(k)
			}
		}
	}
	for i := 0; i < in.N; i++ {
		walk(in.Tree[i])
	}
	walk(u.blobX)
	var tids []string
	for id := range local {
		tids = append(tids, id)
	}
	sort.Strings(tids)
	for _, id := range tids {
		cs.extra = append(cs.extra, local[id])
	}
	in.Extra = cs.extra
	return cs
}

func (cs *c37Case) typeOf(id string) string {
	if t, ok := cs.typ[id]; ok {
		return t
	}
	if o, ok := cs.u.objs[id]; ok {
		return o.Type
	}
	return "?"
}

// reach adds every object reachable from id to set (model).
func (cs *c37Case) reach(id string, set map[string]bool) {
	if set[id] {
		return
	}
	ks, ok := cs.kids[id]
	if !ok {
		if ks, ok = cs.u.kids[id]; !ok {
			return // not in the store (missing have)
		}
	}
	set[id] = true
	for _, k := range ks {
		cs.reach(k, set)
	}
}

func (cs *c37Case) desc() map[string]any {
	d := cs.in.Desc()
	var t []string
	for _, a := range cs.assign {
		t = append(t, cs.u.names[a])
	}
	d["root_trees"] = t
	return d
}

// c37Assignments: tree assignments tried for n commits. full: every
// assignment over the first k menu trees; else a fixed list of patterns
// (same tree everywhere, alternating = reverted content, all different,
// palindromes, gitlink/deep variants).
func c37Assignments(n, k int, full bool) [][]int {
	if full {
		var out [][]int
		cur := make([]int, n)
		var rec func(i int)
		rec = func(i int) {
			if i == n {
				out = append(out, append([]int{}, cur...))
				return
			}
			for t := 0; t < k; t++ {
				cur[i] = t
				rec(i + 1)
			}
		}
		rec(0)
		return out
	}
	pats := [][]int{
		{0, 5, 6, 5, 0}, // a directory reverts to an earlier tree while one of its children never changed
		{0, 1, 0, 1, 0}, // reverted content
		{0, 1, 2, 3, 4}, // all different
		{0, 0, 0, 0, 0}, // nothing ever changes
		{0, 3, 3, 0, 1}, // subtree k moves between names; palindrome
		{4, 2, 0, 2, 4}, // deep shared subtree, gitlink
		{1, 0, 3, 0, 2},
		{0, 7, 8, 0, 7}, // a directory becomes a file, everything is deleted, and back
	}
	var out [][]int
	for _, p := range pats {
		out = append(out, p[:n])
	}
	return out
}

type c37Query struct {
	wants, haves []string
	label        string
}

func (cs *c37Case) queries(lite bool) []c37Query {
	in := cs.in
	n := in.N
	missing := strings.Repeat("e", 40)
	name := func(ids []string) string {
		var out []string
		for _, id := range ids {
			lab := cs.typeOf(id)
			for i := 0; i < n; i++ {
				if id == in.ID[i] {
					lab = fmt.Sprintf("c%d", i)
				}
				if id == cs.tagC[i] {
					lab = fmt.Sprintf("tag->c%d", i)
				}
			}
			switch id {
			case cs.tagT:
				lab = "tag->tree(c0)"
			case cs.tagB:
				lab = "tag->blob(x)"
			case cs.tag2:
				lab = fmt.Sprintf("tag->tag->c%d", n-1)
			case missing:
				lab = "missing"
			case in.Tree[0]:
				lab = "tree(c0)"
			case cs.u.blobX:
				lab = "blob(x)"
			}
			out = append(out, lab)
		}
		return strings.Join(out, ",")
	}
	var cw, ch [][]string // commit-level wants / all haves
	for a := 0; a < n; a++ {
		cw = append(cw, []string{in.ID[a]})
		for b := a + 1; b < n; b++ {
			cw = append(cw, []string{in.ID[a], in.ID[b]})
		}
	}
	if !lite {
		ch = append(ch, nil)
	}
	for a := 0; a < n; a++ {
		ch = append(ch, []string{in.ID[a]})
		if !lite && (a == 0 || n <= 3) {
			ch = append(ch, []string{in.ID[a], missing})
		}
		if !lite && (a == n-1 || n <= 3) {
			ch = append(ch, []string{cs.tagC[a]})
		}
		for b := a + 1; b < n; b++ {
			ch = append(ch, []string{in.ID[a], in.ID[b]})
		}
	}
	if lite {
		// 5 commits: single commit wants x {single, pair} commit haves
		cw = cw[:0]
		for a := 0; a < n; a++ {
			cw = append(cw, []string{in.ID[a]})
		}
	} else {
		ch = append(ch, []string{missing}, []string{cs.tagT}, []string{cs.tagB}, []string{in.Tree[0]}, []string{cs.u.blobX}, []string{cs.tag2})
	}
	var out []c37Query
	for _, w := range cw {
		for _, h := range ch {
			out = append(out, c37Query{w, h, "wants=" + name(w) + " haves=" + name(h)})
		}
	}
	if lite {
		return out
	}
	// tag / tree / blob wants against no have and every single commit have
	var tw [][]string
	for a := 0; a < n; a++ {
		tw = append(tw, []string{cs.tagC[a]})
	}
	tw = append(tw, []string{cs.tagT}, []string{cs.tagB}, []string{cs.tag2}, []string{cs.tagT, in.ID[n-1]}, []string{in.Tree[0]}, []string{cs.u.blobX})
	for _, w := range tw {
		out = append(out, c37Query{w, nil, "wants=" + name(w) + " haves="})
		for a := 0; a < n; a++ {
			h := []string{in.ID[a]}
			out = append(out, c37Query{w, h, "wants=" + name(w) + " haves=" + name(h)})
		}
	}
	return out
}

func runC37(c *fw.Ctx) {
	maxN := c.Pick(4, 5)
	confN := 3
	maxPar := func(n int) int {
		if n <= 4 {
			return 3
		}
		return 2
	}
	never := func(int) bool { return false }
	space := eNewSpace(maxN, maxPar, never)
	u := c37NewUniverse()
	c.Bound("max_commits", maxN)
	c.Bound("space", space.Sizes())
	c.Bound("parents", "ascending parent lists (parent order is irrelevant to reachability), up to 3 parents for n<=4, 2 for n=5")
	c.Bound("tree_menu", u.names)
	fullK := map[int]int{1: 5, 2: 5, 3: 3}
	npat := map[int]int{4: 3} // quick: reverted directory, reverted content, all-different at 4 commits
	if c.Thorough() {
		fullK[3] = 4
		npat = map[int]int{4: 8, 5: 1}
	}
	c.Bound("tree_assignments", fmt.Sprintf("every assignment over the first k menu trees for n->k in %v; beyond that the first p of the fixed patterns {reverted directory with an unchanged child, alternating/reverted, all different, constant, palindrome with moved subtree, deep subtree + gitlink, mixed, directory->file->empty tree->back}; additionally for n<=2 every assignment over {T0, T7 (d is a file), T8 (empty tree)} and for n=3 the seven patterns 0 7 0, 7 0 7, 0 8 0, 8 0 8, 0 7 8, 8 7 0, 7 8 7 for n->p in %v; at 5 commits the single mixed pattern T0 T1 T0 T3 T1 (revert, moved subtree, repeat)", fullK, npat))
	c.Bound("wants_haves", "n<=4: wants every 1- and 2-subset of commits x haves {none, each commit, each pair, commit+missing (every commit for n<=3, c0 at n=4), tag on commit (every / last), missing only, tag->tree, tag->blob, raw tree, raw blob, tag->tag}; wants {tag on each commit, tag->tree, tag->blob, tag->tag->commit, tag->tree + tip, raw tree, raw blob} x haves {none, each commit}; n=5: wants each commit x haves {each commit, each pair}")
	c.Bound("entry_points", "revlist.Objects on every query; revlist.ObjectsWithRef (keys = selected objects; an object listed under a want must be reachable from it) on every query of the instances with at most 2 commits")
	c.Bound("conformance_max_commits", confN)
	c.SetRule("every DAG x weak order x tree assignment x want/have query; revlist.Objects on a memory store holding the raw objects; verdict: reach(wants)\\reach(haves) subset of result subset of reach(wants) under an object-level reachability model; the model's reach sets are replayed against `git rev-list --objects <start>` for every distinct start of the complete space up to conformance_max_commits, and git's own `rev-list --objects wants --not haves` is checked to lie between the same bounds with exactly the model's commits; non-trivial = at least one have present in the store; distinct counts (result vs bounds: exact-lower / between / exact-upper, want kind, have kind, timestamp shape) classes")
	c.Assume("non-shallow store; gitlink targets are never sent; a missing have is ignored (git upload-pack semantics); git 2.39.5 rev-list is the reference for reach sets")

	type job struct {
		idx    int
		assign []int
	}
	var jobs []job
	for idx := 0; idx < space.Total; idx++ {
		d, _, _, _ := space.At(idx)
		n := len(d.Parents)
		var as [][]int
		if k, ok := fullK[n]; ok {
			as = c37Assignments(n, k, true)
		} else {
			as = c37Assignments(n, 0, false)[:npat[n]]
			if n == 5 {
				as = [][]int{{0, 1, 0, 3, 1}}
			}
		}
		if n <= 2 {
			// every assignment over {T0, T7, T8}: file<->directory, the empty tree
			for _, a := range c37Assignments(n, 3, true) {
				b := make([]int, n)
				zero := true
				for i, x := range a {
					b[i] = []int{0, 7, 8}[x]
					zero = zero && x == 0
				}
				if !zero {
					as = append(as, b)
				}
			}
		} else if n == 3 {
			as = append(as, []int{0, 7, 0}, []int{7, 0, 7}, []int{0, 8, 0}, []int{8, 0, 8}, []int{0, 7, 8}, []int{8, 7, 0}, []int{7, 8, 7})
		}
		for _, a := range as {
			jobs = append(jobs, job{idx, a})
		}
	}
	c.Bound("instances", len(jobs))
	fails := eNewFailSet()
	c.States(len(jobs))
	c.ParDo(len(jobs), 0, func(j int) {
		d, r, _, _ := space.At(jobs[j].idx)
		cs := c37NewCase(u, d, r, jobs[j].assign)
		if j%9973 == 5 {
			c.Sample(map[string]any{"job": j, "instance": cs.desc()})
		}
		c37Run(c, cs, j, fails, cs.in.N >= 5)
	})
	c37Wide(c, u, fails, c.Pick(6, 7))
	fails.Report(c)

	t0 := c.Elapsed()
	if c.Expired() {
		c.Incomplete("deadline reached before the model-vs-git conformance replay")
		return
	}
	c37Conformance(c, u, confN, maxPar)
	c.Extra("conformance_seconds", int((c.Elapsed() - t0).Seconds()))
}

func c37Hashes(ids []string) []plumbing.Hash {
	out := make([]plumbing.Hash, len(ids))
	for i, id := range ids {
		out[i] = plumbing.NewHash(id)
	}
	return out
}

func c37Run(c *fw.Ctx, cs *c37Case, j int, fails *eFailSet, lite bool) {
	c37RunQ(c, cs, j, fails, cs.queries(lite), cs.in.N <= 2, "")
}

// c37RunQ runs the queries on a fresh memory store. withRef: also through
// ObjectsWithRef. tier is put in the class keys ("" for the main space).
func c37RunQ(c *fw.Ctx, cs *c37Case, j int, fails *eFailSet, qs []c37Query, withRef bool, tier string) {
	in := cs.in
	st := eMemStore(in)
	shape := in.TimeShape(1<<in.N - 1)
	for _, q := range qs {
		upper := map[string]bool{}
		for _, w := range q.wants {
			cs.reach(w, upper)
		}
		hv := map[string]bool{}
		for _, h := range q.haves {
			cs.reach(h, hv)
		}
		var res []plumbing.Hash
		var err error
		pan := eSafe(func() { res, err = revlist.Objects(st, c37Hashes(q.wants), c37Hashes(q.haves)) })
		c.Eval()
		c.Transitions(1)
		rep := func(got any) func() map[string]any {
			return func() map[string]any {
				return map[string]any{"instance": cs.desc(), "query": q.label, "wants": q.wants, "haves": q.haves, "go_git": got}
			}
		}
		if pan != "" {
			fails.Add("Objects: panic", j, q.label, pan, rep("panic: "+pan))
			continue
		}
		if err != nil {
			fails.Add("Objects: error", j, q.label, fmt.Sprintf("%v %s: %v", cs.desc(), q.label, err), rep("error: "+err.Error()))
			continue
		}
		got := map[string]bool{}
		for _, h := range res {
			got[h.String()] = true
		}
		missT, extraT := map[string]bool{}, map[string]bool{}
		var miss, extra []string
		nLower := 0
		for id := range upper {
			if hv[id] {
				continue
			}
			nLower++
			if !got[id] {
				missT[cs.typeOf(id)] = true
				miss = append(miss, cs.typeOf(id)+" "+id[:8])
			}
		}
		for id := range got {
			if !upper[id] {
				extraT[cs.typeOf(id)] = true
				extra = append(extra, cs.typeOf(id)+" "+id[:8])
			}
		}
		keys := func(m map[string]bool) string {
			var k []string
			for x := range m {
				k = append(k, x)
			}
			sort.Strings(k)
			return strings.Join(k, "+")
		}
		if len(miss) > 0 {
			sort.Strings(miss)
			fails.Add(fmt.Sprintf("Objects: not sent although reachable from wants only: %s [%s]", keys(missT), shape), j, q.label,
				fmt.Sprintf("%v %s missing %v", cs.desc(), q.label, miss), rep(map[string]any{"missing": miss, "result_size": len(got)}))
		}
		if len(extra) > 0 {
			sort.Strings(extra)
			fails.Add(fmt.Sprintf("Objects: sent although not reachable from wants: %s [%s]", keys(extraT), shape), j, q.label,
				fmt.Sprintf("%v %s extra %v", cs.desc(), q.label, extra), rep(map[string]any{"extra": extra, "result_size": len(got)}))
		}
		if len(hv) > 0 {
			pos := "between"
			switch len(got) {
			case nLower:
				pos = "exact-lower"
			case len(upper):
				pos = "exact-upper"
			}
			if nLower == len(upper) {
				pos = "disjoint"
			}
			c.Class(fmt.Sprintf("%s%s w%s h%s %s", tier, pos, cs.typeOf(q.wants[0]), cs.typeOf(q.haves[0]), shape))
		}
		if !withRef {
			continue
		}
		// the other entry point: ObjectsWithRef (used by upload-pack). Its keys
		// are the selected objects: same bounds; and an object listed under a
		// want must be reachable from that want.
		var ref map[plumbing.Hash][]plumbing.Hash
		pan = eSafe(func() { ref, err = revlist.ObjectsWithRef(st, c37Hashes(q.wants), c37Hashes(q.haves)) })
		c.Eval()
		c.Transitions(1)
		if pan != "" || err != nil {
			fails.Add("ObjectsWithRef: panic or error", j, q.label, fmt.Sprint(pan, err), rep(fmt.Sprint("ObjectsWithRef: ", pan, err)))
			continue
		}
		var rmiss, rextra, rwrong []string
		for id := range upper {
			if !hv[id] {
				if _, ok := ref[plumbing.NewHash(id)]; !ok {
					rmiss = append(rmiss, cs.typeOf(id)+" "+id[:8])
				}
			}
		}
		perWant := map[string]map[string]bool{}
		for _, w := range q.wants {
			perWant[w] = map[string]bool{}
			cs.reach(w, perWant[w])
		}
		for h, ws := range ref {
			if !upper[h.String()] {
				rextra = append(rextra, cs.typeOf(h.String())+" "+h.String()[:8])
			}
			for _, w := range ws {
				if pw, ok := perWant[w.String()]; !ok || !pw[h.String()] {
					rwrong = append(rwrong, cs.typeOf(h.String())+" "+h.String()[:8])
				}
			}
		}
		if len(rmiss) > 0 {
			sort.Strings(rmiss)
			fails.Add("ObjectsWithRef: not selected although reachable from wants only ["+shape+"]", j, q.label, fmt.Sprintf("%v %s missing %v", cs.desc(), q.label, rmiss), rep(map[string]any{"entry_point": "ObjectsWithRef", "missing": rmiss}))
		}
		if len(rextra) > 0 {
			sort.Strings(rextra)
			fails.Add("ObjectsWithRef: selected although not reachable from wants ["+shape+"]", j, q.label, fmt.Sprintf("%v %s extra %v", cs.desc(), q.label, rextra), rep(map[string]any{"entry_point": "ObjectsWithRef", "extra": rextra}))
		}
		if len(rwrong) > 0 {
			sort.Strings(rwrong)
			fails.Add("ObjectsWithRef: object listed under a want that does not reach it ["+shape+"]", j, q.label, fmt.Sprintf("%v %s wrong %v", cs.desc(), q.label, rwrong), rep(map[string]any{"entry_point": "ObjectsWithRef", "not_reachable_from_listed_want": rwrong}))
		}
		if len(hv) > 0 && len(q.wants) > 1 {
			c.Class(fmt.Sprintf("%sObjectsWithRef wants=%d selected=%v %s", tier, len(q.wants), len(ref) > 0, shape))
		}
	}
}

// ---- the wide tier: more queue entries than any window -------------------
//
// k independent branches root_i <- tip_i (optionally all roots on one base
// commit), every branch in one of the roles {untouched, tip wanted, tip had,
// tip wanted + root had}, under timestamp layouts that put the roots that are
// painted from both sides before or after the want-only ones. The commit
// queue of the painted walk then holds up to 2k entries of every kind.
func c37Wide(c *fw.Ctx, u *c37Universe, fails *eFailSet, k int) {
	type layout struct {
		name  string
		ranks func(base bool) []int // per commit
	}
	idxRoot := func(base bool, i int) int {
		if base {
			return 1 + 2*i
		}
		return 2 * i
	}
	mk := func(base bool, baseRank int, root, tip func(i int) int) []int {
		n := 2 * k
		if base {
			n++
		}
		r := make([]int, n)
		if base {
			r[0] = baseRank
		}
		for i := 0; i < k; i++ {
			r[idxRoot(base, i)] = root(i)
			r[idxRoot(base, i)+1] = tip(i)
		}
		return r
	}
	layouts := []layout{
		{"roots ascending then tips", func(b bool) []int { return mk(b, 0, func(i int) int { return 1 + i }, func(i int) int { return 1 + k + i }) }},
		{"roots descending then tips", func(b bool) []int { return mk(b, 0, func(i int) int { return k - i }, func(i int) int { return 1 + k + i }) }},
		{"tips older than roots, base newest", func(b bool) []int { return mk(b, 2*k+1, func(i int) int { return 1 + k + i }, func(i int) int { return 1 + i }) }},
		{"all equal", func(b bool) []int { return mk(b, 0, func(int) int { return 0 }, func(int) int { return 0 }) }},
		{"branch after branch", func(b bool) []int { return mk(b, 0, func(i int) int { return 2*i + 1 }, func(i int) int { return 2*i + 2 }) }},
		{"branch after branch, descending", func(b bool) []int {
			return mk(b, 0, func(i int) int { return 2*(k-i) - 1 }, func(i int) int { return 2 * (k - i) })
		}},
	}
	var lnames []string
	for _, l := range layouts {
		lnames = append(lnames, l.name)
	}
	c.Bound("wide_tier", fmt.Sprintf("%d branches root<-tip, with and without a common base commit; root trees T(i mod 7), tip trees T((i+1) mod 7); timestamp layouts %v; every assignment of the roles {untouched, tip wanted, tip had, tip wanted + root had} to the branches with at least one want (4^%d-2^%d queries per instance)", k, lnames, k, k))
	type wjob struct {
		base bool
		l    int
	}
	var jobs []wjob
	for _, b := range []bool{false, true} {
		for l := range layouts {
			jobs = append(jobs, wjob{b, l})
		}
	}
	c.States(len(jobs))
	c.ParDo(len(jobs), 0, func(j int) {
		jb := jobs[j]
		var d fw.DAG
		var assign []int
		if jb.base {
			d.Parents = append(d.Parents, []int{})
			assign = append(assign, 4)
		}
		for i := 0; i < k; i++ {
			r := idxRoot(jb.base, i)
			if jb.base {
				d.Parents = append(d.Parents, []int{0}, []int{r})
			} else {
				d.Parents = append(d.Parents, []int{}, []int{r})
			}
			assign = append(assign, i%7, (i+1)%7)
		}
		cs := c37NewCase(u, d, layouts[jb.l].ranks(jb.base), assign)
		in := cs.in
		var qs []c37Query
		total := 1
		for i := 0; i < k; i++ {
			total *= 4
		}
		for code := 0; code < total; code++ {
			var q c37Query
			var lab []string
			x := code
			for i := 0; i < k; i++ {
				r := idxRoot(jb.base, i)
				switch x % 4 {
				case 1:
					q.wants = append(q.wants, in.ID[r+1])
					lab = append(lab, "W")
				case 2:
					q.haves = append(q.haves, in.ID[r+1])
					lab = append(lab, "H")
				case 3:
					q.wants = append(q.wants, in.ID[r+1])
					q.haves = append(q.haves, in.ID[r])
					lab = append(lab, "Wh")
				default:
					lab = append(lab, "-")
				}
				x /= 4
			}
			if len(q.wants) == 0 {
				continue
			}
			q.label = fmt.Sprintf("wide base=%v layout=%q roles=%s", jb.base, layouts[jb.l].name, strings.Join(lab, ""))
			qs = append(qs, q)
		}
		c37RunQ(c, cs, 1<<30+j, fails, qs, false, "wide ")
	})
}

// ---------------------------------------------------------------------------

func c37Conformance(c *fw.Ctx, u *c37Universe, confN int, maxPar func(int) int) {
	space := eNewSpace(confN, maxPar, func(int) bool { return false })
	var reachCases, sandCases []*c37Case
	var insts []*eInst
	for idx := 0; idx < space.Total; idx++ {
		d, r, _, oi := space.At(idx)
		n := len(d.Parents)
		// (1) reach sets do not depend on timestamps: first and last weak order only
		if oi == 0 || oi == len(space.Ords[n])-1 {
			k := 3
			if n <= 2 {
				k = 5
			}
			for _, a := range c37Assignments(n, k, true) {
				cs := c37NewCase(u, d, r, a)
				reachCases = append(reachCases, cs)
				insts = append(insts, cs.in)
			}
		}
		// (2) git's own wants/--not haves answer: every weak order, two patterns
		if n == confN {
			for _, a := range c37Assignments(n, 0, false)[:2] {
				cs := c37NewCase(u, d, r, a)
				sandCases = append(sandCases, cs)
				insts = append(insts, cs.in)
			}
		}
	}
	repo := eBuildRepo(c, "c37conf", insts)
	c.Extra("conformance_repo_commits", repo.NObjs)
	c.Bound("conformance_space", fmt.Sprintf("reach sets: %d instances (n<=%d, two timestamp orders, every assignment over 3 trees; 5 trees for n<=2); git wants/--not haves between the bounds: %d instances (n=%d, every weak order, reverted and all-different trees)", len(reachCases), confN, len(sandCases), confN))

	type rq struct {
		exp  []string
		inst string
	}
	starts := map[string]*rq{}
	addStart := func(cs *c37Case, id string) {
		set := map[string]bool{}
		cs.reach(id, set)
		var e []string
		for x := range set {
			e = append(e, x)
		}
		sort.Strings(e)
		if old, ok := starts[id]; ok {
			if strings.Join(old.exp, " ") != strings.Join(e, " ") {
				fw.Abort("reference model is not a function of the objects: reach(%s) differs between %s and %v", id, old.inst, cs.desc())
			}
			return
		}
		starts[id] = &rq{e, fmt.Sprint(cs.desc())}
	}
	for _, cs := range reachCases {
		for i := 0; i < cs.in.N; i++ {
			addStart(cs, cs.in.ID[i])
		}
		addStart(cs, cs.tagC[cs.in.N-1])
		addStart(cs, cs.tagT)
		addStart(cs, cs.tagB)
		addStart(cs, cs.tag2)
	}
	type wq struct {
		cs   *c37Case
		w, h string
	}
	sand := map[string]wq{}
	for _, cs := range sandCases {
		in := cs.in
		for w := 1; w < in.N; w++ {
			for h := 0; h < in.N; h++ {
				if h == w {
					continue
				}
				k := in.ID[w] + " ^" + in.ID[h]
				if _, ok := sand[k]; !ok {
					sand[k] = wq{cs, in.ID[w], in.ID[h]}
				}
			}
		}
	}
	sk := make([]string, 0, len(starts))
	for k := range starts {
		sk = append(sk, k)
	}
	sort.Strings(sk)
	c.ParDo(len(sk), 0, func(i int) {
		r := repo.G.MustRun("rev-list", "--objects", sk[i])
		var got []string
		for _, l := range eLines(r.Out) {
			got = append(got, strings.Fields(l)[0])
		}
		sort.Strings(got)
		if strings.Join(got, " ") != strings.Join(starts[sk[i]].exp, " ") {
			fw.Abort("reference model disagrees with real git: rev-list --objects %s = %v, model = %v (%s)", sk[i], got, starts[sk[i]].exp, starts[sk[i]].inst)
		}
		c.TracesValidated(1)
	})
	wk := make([]string, 0, len(sand))
	for k := range sand {
		wk = append(wk, k)
	}
	sort.Strings(wk)
	c.ParDo(len(wk), 0, func(i int) {
		w := sand[wk[i]]
		r := repo.G.MustRun("rev-list", "--objects", w.w, "--not", w.h)
		upper, hv := map[string]bool{}, map[string]bool{}
		w.cs.reach(w.w, upper)
		w.cs.reach(w.h, hv)
		got := map[string]bool{}
		for _, l := range eLines(r.Out) {
			got[strings.Fields(l)[0]] = true
		}
		for id := range upper {
			if !hv[id] && !got[id] {
				fw.Abort("real git itself does not list %s for %s (instance %v): the lower bound of the model is not git's", id, wk[i], w.cs.desc())
			}
			if w.cs.typeOf(id) == "commit" && hv[id] && got[id] {
				fw.Abort("real git lists commit %s reachable from the have for %s (instance %v)", id, wk[i], w.cs.desc())
			}
		}
		for id := range got {
			if !upper[id] {
				fw.Abort("real git lists %s outside reach(wants) for %s (instance %v)", id, wk[i], w.cs.desc())
			}
		}
		c.TracesValidated(1)
	})
	c.Extra("conformance_distinct_git_queries", map[string]int{"rev-list --objects <start>": len(sk), "rev-list --objects want --not have": len(wk)})
}

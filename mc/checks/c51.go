package checks

// C51: commit-graph files interoperate with git.
//  (A) every commit-graph file go-git's Encoder writes (MemoryIndex filled with
//      parents / root tree / commit time / generation v1 and v2 recomputed
//      from the commit objects) passes `git commit-graph verify`;
//  (B) every commit-graph git writes (single file; chains split at every cut
//      point) is read back by go-git with parents, root tree, commit time and
//      generation numbers (v1 topological level, v2 corrected commit date)
//      equal to the values recomputed from the commit objects.
// go-git has no chain writer (Encoder emits no BASE chunk), so "chain go-git
// writes" is empty; go-git re-encoding a git-written file is covered.

import (
	"bytes"
	"fmt"
	"os"
	"path/filepath"
	"regexp"
	"sort"
	"strings"
	"time"

	"github.com/go-git/go-billy/v6/osfs"

	"github.com/go-git/go-git/v6/plumbing"
	cgfmt "github.com/go-git/go-git/v6/plumbing/format/commitgraph"
	cgobj "github.com/go-git/go-git/v6/plumbing/object/commitgraph"
	"github.com/go-git/go-git/v6/storage/memory"

	"verifmc/fw"
)

func init() {
	fw.Register(&fw.Check{ID: "C51", Level: "exploration", Run: runC51, QuickBudget: 100, ThoroughBudget: 1200})
}

// c51Gen returns generation v1 (topological level) and v2 (corrected commit
// date) of every commit, from the objects.
func c51Gen(in *eInst) (lvl, corr []uint64) {
	lvl = make([]uint64, in.N)
	corr = make([]uint64, in.N)
	for i := 0; i < in.N; i++ {
		l, cd := uint64(1), uint64(in.Time[i])
		for _, p := range in.Parents[i] {
			if lvl[p]+1 > l {
				l = lvl[p] + 1
			}
			if corr[p]+1 > cd {
				cd = corr[p] + 1
			}
		}
		lvl[i], corr[i] = l, cd
	}
	return
}

type c51Scheme struct {
	name  string
	times func(n int) []int64
}

func c51Schemes() []c51Scheme {
	lin := func(base, step int64, rev bool) func(n int) []int64 {
		return func(n int) []int64 {
			t := make([]int64, n)
			for i := range t {
				r := int64(i)
				if rev {
					r = int64(n - 1 - i)
				}
				t[i] = base + r*step
			}
			return t
		}
	}
	rootBig := func(add int64) func(n int) []int64 {
		return func(n int) []int64 {
			t := lin(eBase, 10, true)(n)
			t[0] = eBase + add
			return t
		}
	}
	return []c51Scheme{
		{"monotone", lin(eBase, 10, false)},
		{"reversed(small offsets)", lin(eBase, 10, true)},
		{"all-equal", lin(eBase, 0, false)},
		{"root+2^31+5 (offsets in [2^31,2^32))", rootBig(1<<31 + 5)},
		{"root+2^32+2^31 (offsets > 2^32)", rootBig(1<<32 + 1<<31)},
		{"reversed step 2^31+5", lin(1000, 1<<31+5, true)},
	}
}

var c51Hex = regexp.MustCompile(`[0-9a-f]{40}`)
var c51Num = regexp.MustCompile(`[0-9]+`)

func c51Norm(msg string) string {
	l := strings.TrimSpace(msg)
	if i := strings.IndexByte(l, '\n'); i >= 0 {
		l = l[:i]
	}
	l = c51Hex.ReplaceAllString(l, "<oid>")
	l = c51Num.ReplaceAllString(l, "N")
	if len(l) > 120 {
		l = l[:120]
	}
	return l
}

func c51Encode(in *eInst, reverseAdd bool) ([]byte, error) {
	lvl, corr := c51Gen(in)
	mi := cgfmt.NewMemoryIndex()
	for k := 0; k < in.N; k++ {
		i := k
		if reverseAdd {
			i = in.N - 1 - k
		}
		var ph []plumbing.Hash
		for _, p := range in.Parents[i] {
			ph = append(ph, in.H[p])
		}
		mi.Add(in.H[i], &cgfmt.CommitData{TreeHash: plumbing.NewHash(in.Tree[i]), ParentHashes: ph,
			Generation: lvl[i], GenerationV2: corr[i], When: time.Unix(in.Time[i], 0)})
	}
	var buf bytes.Buffer
	var err error
	if pan := eSafe(func() { err = cgfmt.NewEncoder(&buf).Encode(mi) }); pan != "" {
		return nil, fmt.Errorf("panic: %s", pan)
	}
	return buf.Bytes(), err
}

// c51MiniRepo creates (without spawning git) a bare repository that borrows
// the objects of main through alternates and holds the given commit-graph.
func c51MiniRepo(dir, mainObjects string, graph []byte) {
	must := func(err error) {
		if err != nil {
			fw.Abort("mini repo: %v", err)
		}
	}
	must(os.MkdirAll(filepath.Join(dir, "objects", "info"), 0o755))
	must(os.MkdirAll(filepath.Join(dir, "refs"), 0o755))
	must(os.WriteFile(filepath.Join(dir, "HEAD"), []byte("ref: refs/heads/main\n"), 0o644))
	must(os.WriteFile(filepath.Join(dir, "config"), []byte("[core]\n\trepositoryformatversion = 0\n\tbare = true\n"), 0o644))
	must(os.WriteFile(filepath.Join(dir, "objects", "info", "alternates"), []byte(mainObjects+"\n"), 0o644))
	must(os.WriteFile(filepath.Join(dir, "objects", "info", "commit-graph"), graph, 0o644))
}

type c51Case struct {
	in     *eInst
	scheme string
	label  string
}

func runC51(c *fw.Ctx) {
	maxN := c.Pick(4, 5)
	weakN := c.Pick(3, 4)
	schemes := c51Schemes()
	var names []string
	for _, s := range schemes {
		names = append(names, s.name)
	}
	c.Bound("max_commits", maxN)
	c.Bound("dags", "n<=4: up to 3 parents, every parent order (octopus -> EDGE chunk); n=5: every parent SET (up to 4 parents, ascending)")
	c.Bound("timestamp_schemes", names)
	c.Bound("weak_orders", fmt.Sprintf("additionally every weak order (step 10 s) for n<=%d", weakN))
	c.Bound("overflow_boundaries", "2-commit chain and a 3-commit fork with generation-data offset exactly 1, 2^31-1, 2^31, 2^31+1, 2^32-1, 2^32, 2^32+1, 2^33")
	c.Bound("chains", "git-written: single file; 2-layer chains cut at every commit number k (layer 1 = commits numbered < k); 3-layer chains for every pair of cuts")
	c.SetRule("(A) one commit-graph per (DAG, timestamp scheme) written by go-git's MemoryIndex+Encoder (commits added in ascending and in descending order) and judged by `git commit-graph verify` in a bare repository borrowing the objects; plus go-git's re-encoding of the git-written universe graph; (B) git writes the graph of the universe of all cases (single file and split chains), go-git opens it with OpenChainOrFileIndex and every commit's tree/parents/time/generation v1/v2 are compared with values recomputed from the objects; non-trivial = commit with at least one parent; distinct counts (side, parent count class, offset band none/small/[2^31,2^32)/>=2^32, layer) classes")
	c.Assume("git 2.39.5 commit-graph verify/write is the reference; go-git has no chain writer; SHA-1 only")

	// ---- the cases
	var cases []*c51Case
	add := func(d fw.DAG, t []int64, scheme string) {
		at := make([]int64, len(t))
		for i := range at {
			at[i] = eBase
		}
		in := eNewInstTimes(d, t, at, nil)
		cases = append(cases, &c51Case{in, scheme, fmt.Sprintf("parents=%v times=%v", d.Parents, t)})
	}
	for n := 1; n <= maxN; n++ {
		var dags []fw.DAG
		if n <= 4 {
			dags = fw.DAGs(n, 3, true)
		} else {
			dags = fw.DAGs(n, 4, false)
		}
		for _, d := range dags {
			for _, s := range schemes {
				add(d, s.times(n), s.name)
			}
			if n <= weakN {
				for _, r := range fw.WeakOrders(n) {
					t := make([]int64, n)
					for i := range t {
						t[i] = eBase + int64(r[i])*10
					}
					add(d, t, "weak-order")
				}
			}
		}
	}
	for _, off := range []int64{1, 1<<31 - 1, 1 << 31, 1<<31 + 1, 1<<32 - 1, 1 << 32, 1<<32 + 1, 1 << 33} {
		// corrected(child) = root+1, offset = root+1-child
		add(fw.DAG{Parents: [][]int{{}, {0}}}, []int64{1000 + off - 1, 1000}, fmt.Sprintf("offset=%d", off))
		add(fw.DAG{Parents: [][]int{{}, {0}, {0}}}, []int64{1000 + off - 1, 1000, 1000 + off + 5}, fmt.Sprintf("offset=%d fork", off))
	}
	c.Bound("cases", len(cases))

	insts := make([]*eInst, len(cases))
	for i, cs := range cases {
		insts[i] = cs.in
	}
	repo := eBuildRepo(c, "c51", insts)
	mainObjects := filepath.Join(repo.Dir, "objects")
	c.Extra("universe_commits", repo.NObjs)
	fails := eNewFailSet()

	band := func(in *eInst) string {
		_, corr := c51Gen(in)
		b := "none"
		for i := 0; i < in.N; i++ {
			off := corr[i] - uint64(in.Time[i])
			switch {
			case off >= 1<<32:
				return "offset>=2^32"
			case off >= 1<<31:
				b = "offset in [2^31,2^32)"
			case off > 0 && b == "none":
				b = "small offset"
			}
		}
		return b
	}
	pclass := func(in *eInst) string {
		m := 0
		for _, p := range in.Parents {
			if len(p) > m {
				m = len(p)
			}
		}
		if m > 2 {
			return "octopus"
		}
		return fmt.Sprintf("maxpar%d", m)
	}

	miniRoot := c.TempDir("c51mini")
	// ---- (B) git writes, go-git reads
	var allIDs bytes.Buffer
	seen := map[string]bool{}
	byNum := make([]bytes.Buffer, maxN+1) // ids of commits numbered < k
	for _, in := range insts {
		for i := 0; i < in.N; i++ {
			if seen[in.ID[i]] {
				continue
			}
			seen[in.ID[i]] = true
			allIDs.WriteString(in.ID[i] + "\n")
			for k := i + 1; k <= maxN; k++ {
				byNum[k].WriteString(in.ID[i] + "\n")
			}
		}
	}
	readBack := func(layout string, layerOf func(num int) int) {
		var idx cgfmt.Index
		var err error
		if pan := eSafe(func() { idx, err = cgfmt.OpenChainOrFileIndex(osfs.New(repo.Dir)) }); pan != "" || err != nil {
			fails.Add("go-git cannot open the commit-graph git wrote ["+layout+"]", 0, layout, fmt.Sprint(pan, err), func() map[string]any { return map[string]any{"layout": layout, "error": fmt.Sprint(pan, err)} })
			return
		}
		defer idx.Close()
		hashes := map[plumbing.Hash]bool{}
		for _, h := range idx.Hashes() {
			hashes[h] = true
		}
		c.ParDo(len(cases), 0, func(ci int) {
			in := cases[ci].in
			lvl, corr := c51Gen(in)
			ni := cgobj.NewGraphCommitNodeIndex(idx, memory.NewStorage())
			for i := 0; i < in.N; i++ {
				c.Eval()
				var kinds []string
				var data *cgfmt.CommitData
				var pos uint32
				var err error
				pan := eSafe(func() {
					pos, err = idx.GetIndexByHash(in.H[i])
					if err == nil {
						data, err = idx.GetCommitDataByIndex(pos)
					}
				})
				obs := map[string]any{}
				switch {
				case pan != "":
					kinds = append(kinds, "panic")
					obs["panic"] = pan
				case err != nil:
					kinds = append(kinds, "lookup error")
					obs["error"] = err.Error()
				default:
					if h, e := idx.GetHashByIndex(pos); e != nil || h != in.H[i] {
						kinds = append(kinds, "GetHashByIndex mismatch")
					}
					if !hashes[in.H[i]] {
						kinds = append(kinds, "missing from Hashes()")
					}
					if data.TreeHash.String() != in.Tree[i] {
						kinds = append(kinds, "tree")
					}
					var ph []string
					for _, p := range data.ParentHashes {
						ph = append(ph, p.String())
					}
					var want []string
					for _, p := range in.Parents[i] {
						want = append(want, in.ID[p])
					}
					if strings.Join(ph, " ") != strings.Join(want, " ") {
						kinds = append(kinds, "parents")
					}
					if len(data.ParentIndexes) != len(want) {
						kinds = append(kinds, "parent indexes")
					} else {
						for k, pi := range data.ParentIndexes {
							if h, e := idx.GetHashByIndex(pi); e != nil || h.String() != want[k] {
								kinds = append(kinds, "parent indexes")
								break
							}
						}
					}
					if data.When.Unix() != in.Time[i] {
						kinds = append(kinds, "commit time")
					}
					if data.Generation != lvl[i] {
						kinds = append(kinds, "generation v1")
					}
					if !idx.HasGenerationV2() {
						kinds = append(kinds, "generation v2 not recognised")
					} else if data.GenerationV2 != corr[i] {
						kinds = append(kinds, "generation v2")
					}
					obs = map[string]any{"tree": data.TreeHash.String(), "parents": ph, "time": data.When.Unix(), "generation": data.Generation, "generation_v2": data.GenerationV2}
					// the CommitNode view
					if node, e := ni.Get(in.H[i]); e != nil {
						kinds = append(kinds, "CommitNodeIndex.Get error")
					} else {
						if node.Generation() != lvl[i] || node.GenerationV2() != corr[i] || node.CommitTime().Unix() != in.Time[i] || node.NumParents() != len(want) {
							kinds = append(kinds, "CommitNode view")
						}
						for k := range want {
							if p, e := node.ParentNode(k); e != nil || p.ID().String() != want[k] {
								kinds = append(kinds, "CommitNode parent")
								break
							}
						}
					}
				}
				off := corr[i] - uint64(in.Time[i])
				ob := "none"
				switch {
				case off >= 1<<32:
					ob = "offset>=2^32"
				case off >= 1<<31:
					ob = "offset in [2^31,2^32)"
				case off > 0:
					ob = "small offset"
				}
				np := len(in.Parents[i])
				pc := fmt.Sprintf("%d parents", min(np, 3))
				if len(kinds) > 0 {
					sort.Strings(kinds)
					fails.Add(fmt.Sprintf("git-written commit-graph read back wrong [%s; %s; %s]: %s", layout0(layout), pc, ob, strings.Join(kinds, "+")), ci,
						fmt.Sprintf("%s commit %d", layout, i), fmt.Sprintf("%s %s commit %d: %v", layout, cases[ci].label, i, obs),
						func() map[string]any {
							return map[string]any{"layout": layout, "instance": in.Desc(), "commit": i, "go_git": obs,
								"expected": map[string]any{"generation": lvl[i], "generation_v2": corr[i], "time": in.Time[i], "parents": in.Parents[i]}}
						})
				}
				if np > 0 {
					c.Class(fmt.Sprintf("B %s layer%d %s %s", layout0(layout), layerOf(i), pc, ob))
				}
			}
		})
	}
	graphFile := filepath.Join(repo.Dir, "objects", "info", "commit-graph")
	chainDir := filepath.Join(repo.Dir, "objects", "info", "commit-graphs")

	repo.G.MustRunIn(allIDs.Bytes(), "commit-graph", "write", "--stdin-commits")
	repo.G.MustRun("commit-graph", "verify")
	readBack("single file", func(int) int { return 0 })
	// go-git re-encodes what it read from git; git verifies it
	if !c.Expired() {
		gb, err := os.ReadFile(graphFile)
		c.Must(err, "read git-written commit-graph")
		idx, err := cgfmt.OpenFileIndex(nopCloserAt{bytes.NewReader(gb)})
		if err == nil {
			mi := cgfmt.NewMemoryIndex()
			bad := ""
			for _, h := range idx.Hashes() {
				pos, e1 := idx.GetIndexByHash(h)
				d, e2 := idx.GetCommitDataByIndex(pos)
				if e1 != nil || e2 != nil {
					bad = fmt.Sprint(e1, e2)
					break
				}
				mi.Add(h, d)
			}
			var buf bytes.Buffer
			if bad == "" {
				if pan := eSafe(func() { err = cgfmt.NewEncoder(&buf).Encode(mi) }); pan != "" {
					bad = "panic: " + pan
				} else if err != nil {
					bad = err.Error()
				}
			}
			c.Eval()
			if bad != "" {
				fails.Add("go-git cannot re-encode the git-written universe graph", 0, "", bad, func() map[string]any { return map[string]any{"error": bad} })
			} else {
				dir := filepath.Join(miniRoot, "reencode")
				c51MiniRepo(dir, mainObjects, buf.Bytes())
				r := repo.G.In(dir).Run("commit-graph", "verify")
				os.RemoveAll(dir)
				c.Class(fmt.Sprintf("A re-encode universe ok=%v", r.OK()))
				if !r.OK() {
					fails.Add("go-git re-encoding of the git-written universe graph fails git commit-graph verify: "+c51Norm(string(r.Err)), 0, "", strings.TrimSpace(string(r.Err)),
						func() map[string]any { return map[string]any{"stderr": strings.TrimSpace(string(r.Err)), "commits": repo.NObjs} })
				}
			}
		}
	}
	os.Remove(graphFile)

	// chains
	type cut struct{ a, b int }
	var cuts []cut
	for a := 1; a < maxN; a++ {
		cuts = append(cuts, cut{a, 0})
	}
	for a := 1; a < maxN; a++ {
		for b := a + 1; b < maxN; b++ {
			cuts = append(cuts, cut{a, b})
		}
	}
	for _, ct := range cuts {
		if c.Expired() {
			c.Incomplete("deadline reached before every chain layout was read back")
			break
		}
		os.RemoveAll(chainDir)
		repo.G.MustRunIn(byNum[ct.a].Bytes(), "commit-graph", "write", "--split=no-merge", "--stdin-commits")
		layout := fmt.Sprintf("chain cut at %d", ct.a)
		if ct.b > 0 {
			repo.G.MustRunIn(byNum[ct.b].Bytes(), "commit-graph", "write", "--split=no-merge", "--stdin-commits")
			layout = fmt.Sprintf("chain cut at %d and %d", ct.a, ct.b)
		}
		repo.G.MustRunIn(allIDs.Bytes(), "commit-graph", "write", "--split=no-merge", "--stdin-commits")
		repo.G.MustRun("commit-graph", "verify")
		cb, err := os.ReadFile(filepath.Join(chainDir, "commit-graph-chain"))
		c.Must(err, "chain file")
		wantLayers := 2
		if ct.b > 0 {
			wantLayers = 3
		}
		if got := len(eLines(cb)); got != wantLayers {
			fw.Abort("git wrote %d chain layers for %s, expected %d", got, layout, wantLayers)
		}
		readBack(layout, func(num int) int {
			switch {
			case num < ct.a:
				return 0
			case ct.b > 0 && num < ct.b:
				return 1
			case ct.b > 0:
				return 2
			}
			return 1
		})
	}
	os.RemoveAll(chainDir)
	// ---- (A) go-git writes, git verifies (after (B): (A) is one git process per case)
	c.ParDo(len(cases), 0, func(i int) {
		cs := cases[i]
		in := cs.in
		if i%997 == 3 {
			c.Sample(map[string]any{"case": i, "scheme": cs.scheme, "instance": in.Desc()})
		}
		var prev []byte
		for _, rev := range []bool{false, true} {
			b, err := c51Encode(in, rev)
			c.Eval()
			rep := func(got string) func() map[string]any {
				return func() map[string]any {
					return map[string]any{"instance": in.Desc(), "scheme": cs.scheme, "added_in_descending_order": rev, "observed": got}
				}
			}
			if err != nil {
				fails.Add(fmt.Sprintf("Encoder.Encode fails [%s]", band(in)), i, cs.label, cs.label+": "+err.Error(), rep(err.Error()))
				continue
			}
			if rev && bytes.Equal(b, prev) {
				continue // same bytes as the ascending insertion: already judged
			}
			if rev && prev != nil {
				fails.Add("Encoder output depends on the order commits were added", i, cs.label, cs.label, rep("bytes differ"))
			}
			prev = b
			dir := filepath.Join(miniRoot, fmt.Sprintf("r%d_%v", i, rev))
			c51MiniRepo(dir, mainObjects, b)
			r := repo.G.In(dir).Run("commit-graph", "verify")
			os.RemoveAll(dir)
			if !r.OK() {
				msg := c51Norm(string(r.Err))
				fails.Add(fmt.Sprintf("go-git-written commit-graph fails git commit-graph verify [%s]: %s", band(in), msg), i, cs.label,
					cs.label+": "+strings.TrimSpace(string(r.Err)), rep(strings.TrimSpace(string(r.Err))))
			}
			if in.N > 1 {
				c.Class(fmt.Sprintf("A %s %s ok=%v", band(in), pclass(in), r.OK()))
			}
		}
	})

	fails.Report(c)
}

// layout0 reduces a layout label to its kind for class keys.
func layout0(l string) string {
	switch {
	case strings.HasPrefix(l, "chain cut at") && strings.Contains(l, " and "):
		return "3-layer chain"
	case strings.HasPrefix(l, "chain"):
		return "2-layer chain"
	}
	return l
}

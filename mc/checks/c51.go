package checks

// C51: commit-graph files interoperate with git.
//  (A) every commit-graph file go-git's Encoder writes (MemoryIndex filled with
//      parents / root tree / commit time / generation v1 and v2 recomputed
//      from the commit objects) passes `git commit-graph verify`;
//  (B) every commit-graph git writes (single file; chains split at every cut
//      point) is read back by go-git with parents, root tree, commit time and
//      generation numbers (v1 topological level, v2 corrected commit date)
//      equal to the values recomputed from the commit objects.
// go-git has no chain writer (Encoder emits no BASE chunk), so "chain go-git
// writes" is empty; go-git re-encoding a git-written file is covered.
// Every file go-git writes is also read back by go-git itself (a file that
// passes `git commit-graph verify` is a valid commit-graph, so go-git must
// read it like any other), and besides one file per case go-git writes one
// file per timestamp scheme holding the commits of ALL the cases of the scheme
// (thousands of commits, hundreds of octopus merges, every fanout bucket).

import (
	"bytes"
	"fmt"
	"os"
	"path/filepath"
	"regexp"
	"sort"
	"strings"
	"time"

	"github.com/go-git/go-billy/v6/osfs"

	"github.com/go-git/go-git/v6/plumbing"
	cgfmt "github.com/go-git/go-git/v6/plumbing/format/commitgraph"
	cgobj "github.com/go-git/go-git/v6/plumbing/object/commitgraph"
	"github.com/go-git/go-git/v6/storage/memory"

	"verifmc/fw"
)

func init() {
	fw.Register(&fw.Check{ID: "C51", Level: "exploration", Run: runC51, QuickBudget: 100, ThoroughBudget: 1200})
}

// c51Gen returns generation v1 (topological level) and v2 (corrected commit
// date) of every commit, from the objects.
func c51Gen(in *eInst) (lvl, corr []uint64) {
	lvl = make([]uint64, in.N)
	corr = make([]uint64, in.N)
	for i := 0; i < in.N; i++ {
		l, cd := uint64(1), uint64(in.Time[i])
		for _, p := range in.Parents[i] {
			if lvl[p]+1 > l {
				l = lvl[p] + 1
			}
			if corr[p]+1 > cd {
				cd = corr[p] + 1
			}
		}
		lvl[i], corr[i] = l, cd
	}
	return
}

type c51Scheme struct {
	name  string
	times func(n int) []int64
}

func c51Schemes() []c51Scheme {
	lin := func(base, step int64, rev bool) func(n int) []int64 {
		return func(n int) []int64 {
			t := make([]int64, n)
			for i := range t {
				r := int64(i)
				if rev {
					r = int64(n - 1 - i)
				}
				t[i] = base + r*step
			}
			return t
		}
	}
	rootBig := func(add int64) func(n int) []int64 {
		return func(n int) []int64 {
			t := lin(eBase, 10, true)(n)
			t[0] = eBase + add
			return t
		}
	}
	return []c51Scheme{
		{"monotone", lin(eBase, 10, false)},
		{"reversed(small offsets)", lin(eBase, 10, true)},
		{"all-equal", lin(eBase, 0, false)},
		{"root+2^31+5 (offsets in [2^31,2^32))", rootBig(1<<31 + 5)},
		{"root+2^32+2^31 (offsets > 2^32)", rootBig(1<<32 + 1<<31)},
		{"reversed step 2^31+5", lin(1000, 1<<31+5, true)},
	}
}

var c51Hex = regexp.MustCompile(`[0-9a-f]{40}`)
var c51Num = regexp.MustCompile(`[0-9]+`)

func c51Norm(msg string) string {
	l := strings.TrimSpace(msg)
	if i := strings.IndexByte(l, '\n'); i >= 0 {
		l = l[:i]
	}
	l = c51Hex.ReplaceAllString(l, "<oid>")
	l = c51Num.ReplaceAllString(l, "N")
	if len(l) > 120 {
		l = l[:120]
	}
	return l
}

func c51Encode(in *eInst, reverseAdd bool) ([]byte, error) {
	lvl, corr := c51Gen(in)
	mi := cgfmt.NewMemoryIndex()
	for k := 0; k < in.N; k++ {
		i := k
		if reverseAdd {
			i = in.N - 1 - k
		}
		var ph []plumbing.Hash
		for _, p := range in.Parents[i] {
			ph = append(ph, in.H[p])
		}
		mi.Add(in.H[i], &cgfmt.CommitData{TreeHash: plumbing.NewHash(in.Tree[i]), ParentHashes: ph,
			Generation: lvl[i], GenerationV2: corr[i], When: time.Unix(in.Time[i], 0)})
	}
	var buf bytes.Buffer
	var err error
	if pan := eSafe(func() { err = cgfmt.NewEncoder(&buf).Encode(mi) }); pan != "" {
		return nil, fmt.Errorf("panic: %s", pan)
	}
	return buf.Bytes(), err
}

// c51MiniRepo creates (without spawning git) a bare repository that borrows
// the objects of main through alternates and holds the given commit-graph.
func c51MiniRepo(dir, mainObjects string, graph []byte) {
	must := func(err error) {
		if err != nil {
			fw.Abort("mini repo: %v", err)
		}
	}
	must(os.MkdirAll(filepath.Join(dir, "objects", "info"), 0o755))
	must(os.MkdirAll(filepath.Join(dir, "refs"), 0o755))
	must(os.WriteFile(filepath.Join(dir, "HEAD"), []byte("ref: refs/heads/main\n"), 0o644))
	must(os.WriteFile(filepath.Join(dir, "config"), []byte("[core]\n\trepositoryformatversion = 0\n\tbare = true\n"), 0o644))
	must(os.WriteFile(filepath.Join(dir, "objects", "info", "alternates"), []byte(mainObjects+"\n"), 0o644))
	must(os.WriteFile(filepath.Join(dir, "objects", "info", "commit-graph"), graph, 0o644))
}


// c51EmptyBlob is the id of the empty blob.
const c51EmptyBlob = "e69de29bb2d1d6434b8b29ae775ad8c2e48c5391"

// c51Trees returns one distinct root tree per commit number (tree k holds the
// single empty file "f<k>") so that a root tree read from the wrong record
// is visible, plus the objects to store.
func c51Trees(n int) (ids []string, objs []eObj) {
	objs = append(objs, eObj{Type: "blob", Body: []byte{}, ID: c51EmptyBlob})
	if got := eHashObj("blob", nil); got != c51EmptyBlob {
		fw.Abort("empty blob id %s", got)
	}
	raw := plumbing.NewHash(c51EmptyBlob)
	for k := 0; k < n; k++ {
		body := append([]byte(fmt.Sprintf("100644 f%d\x00", k)), raw.Bytes()...)
		id := eHashObj("tree", body)
		ids = append(ids, id)
		objs = append(objs, eObj{Type: "tree", Body: body, ID: id})
	}
	return
}

// c51Compare compares what idx says about commit i of in with the values
// recomputed from the commit objects. wantV2 tells whether the file(s) carry
// generation data (GDA2) in every layer. ni is the CommitNode view of idx.
func c51Compare(idx cgfmt.Index, ni cgobj.CommitNodeIndex, hashes map[plumbing.Hash]bool, in *eInst, i int, lvl, corr []uint64, wantV2 bool) (kinds []string, obs map[string]any) {
	var data *cgfmt.CommitData
	var pos uint32
	var err error
	pan := eSafe(func() {
		pos, err = idx.GetIndexByHash(in.H[i])
		if err == nil {
			data, err = idx.GetCommitDataByIndex(pos)
		}
	})
	obs = map[string]any{}
	switch {
	case pan != "":
		kinds = append(kinds, "panic")
		obs["panic"] = pan
		return
	case err != nil:
		kinds = append(kinds, "lookup error")
		obs["error"] = err.Error()
		return
	}
	pan = eSafe(func() {
		if h, e := idx.GetHashByIndex(pos); e != nil || h != in.H[i] {
			kinds = append(kinds, "GetHashByIndex mismatch")
		}
		if hashes != nil && !hashes[in.H[i]] {
			kinds = append(kinds, "missing from Hashes()")
		}
		if data.TreeHash.String() != in.Tree[i] {
			kinds = append(kinds, "tree")
		}
		var ph []string
		for _, p := range data.ParentHashes {
			ph = append(ph, p.String())
		}
		var want []string
		for _, p := range in.Parents[i] {
			want = append(want, in.ID[p])
		}
		if strings.Join(ph, " ") != strings.Join(want, " ") {
			kinds = append(kinds, "parents")
		}
		if len(data.ParentIndexes) != len(want) {
			kinds = append(kinds, "parent indexes")
		} else {
			for k, pi := range data.ParentIndexes {
				if h, e := idx.GetHashByIndex(pi); e != nil || h.String() != want[k] {
					kinds = append(kinds, "parent indexes")
					break
				}
			}
		}
		if data.When.Unix() != in.Time[i] {
			kinds = append(kinds, "commit time")
		}
		if data.Generation != lvl[i] {
			kinds = append(kinds, "generation v1")
		}
		wantCorr := corr[i]
		switch {
		case wantV2 && !idx.HasGenerationV2():
			kinds = append(kinds, "generation v2 not recognised")
		case !wantV2 && idx.HasGenerationV2():
			kinds = append(kinds, "generation v2 claimed for a graph without generation data in every layer")
		case wantV2 && data.GenerationV2 != corr[i]:
			kinds = append(kinds, "generation v2")
		}
		obs = map[string]any{"tree": data.TreeHash.String(), "parents": ph, "time": data.When.Unix(), "generation": data.Generation, "generation_v2": data.GenerationV2}
		// the CommitNode view
		node, e := ni.Get(in.H[i])
		if e != nil {
			kinds = append(kinds, "CommitNodeIndex.Get error")
			return
		}
		if node.Generation() != lvl[i] || (wantV2 && node.GenerationV2() != wantCorr) || node.CommitTime().Unix() != in.Time[i] || node.NumParents() != len(want) || node.ID() != in.H[i] {
			kinds = append(kinds, "CommitNode view")
		}
		var nph []string
		for _, h := range node.ParentHashes() {
			nph = append(nph, h.String())
		}
		if strings.Join(nph, " ") != strings.Join(want, " ") {
			kinds = append(kinds, "CommitNode ParentHashes")
		}
		// ParentNode(k): the node must be the parent (id) AND carry the parent's
		// own record (generation, time, number of parents)
		for k, pn := range in.Parents[i] {
			p, e := node.ParentNode(k)
			if e != nil || p.ID().String() != want[k] {
				kinds = append(kinds, "CommitNode parent")
				break
			}
			if p.Generation() != lvl[pn] || p.CommitTime().Unix() != in.Time[pn] || p.NumParents() != len(in.Parents[pn]) || (wantV2 && p.GenerationV2() != corr[pn]) {
				kinds = append(kinds, "CommitNode parent record")
				break
			}
		}
		if _, e := node.ParentNode(len(want)); e == nil {
			kinds = append(kinds, "CommitNode parent beyond the last")
		}
		// ParentNodes(): the same parents, in order, through the iterator
		var iterIDs []string
		it := node.ParentNodes()
		for {
			p, e := it.Next()
			if e != nil {
				break
			}
			iterIDs = append(iterIDs, p.ID().String())
			if len(iterIDs) > len(want)+1 {
				break
			}
		}
		it.Close()
		if strings.Join(iterIDs, " ") != strings.Join(want, " ") {
			kinds = append(kinds, "CommitNode ParentNodes iterator")
		}
	})
	if pan != "" {
		kinds = append(kinds, "panic")
		obs["panic"] = pan
	}
	return
}

// c51OffBand names the generation-data offset band of one commit.
func c51OffBand(off uint64) string {
	switch {
	case off >= 1<<32:
		return "offset>=2^32"
	case off >= 1<<31:
		return "offset in [2^31,2^32)"
	case off > 0:
		return "small offset"
	}
	return "none"
}

// c51EncodeUnion has go-git write ONE commit-graph holding the commits of all
// the given instances (deduplicated by id).
func c51EncodeUnion(insts []*eInst, withV2 bool) ([]byte, int, error) {
	mi := cgfmt.NewMemoryIndex()
	seen := map[plumbing.Hash]bool{}
	n := 0
	for _, in := range insts {
		lvl, corr := c51Gen(in)
		for i := 0; i < in.N; i++ {
			if seen[in.H[i]] {
				continue
			}
			seen[in.H[i]] = true
			n++
			var ph []plumbing.Hash
			for _, p := range in.Parents[i] {
				ph = append(ph, in.H[p])
			}
			d := &cgfmt.CommitData{TreeHash: plumbing.NewHash(in.Tree[i]), ParentHashes: ph,
				Generation: lvl[i], When: time.Unix(in.Time[i], 0)}
			if withV2 {
				d.GenerationV2 = corr[i]
			}
			mi.Add(in.H[i], d)
		}
	}
	var buf bytes.Buffer
	var err error
	if pan := eSafe(func() { err = cgfmt.NewEncoder(&buf).Encode(mi) }); pan != "" {
		return nil, n, fmt.Errorf("panic: %s", pan)
	}
	return buf.Bytes(), n, err
}

// c51Octopuses counts the commits with more than two parents.
func c51Octopuses(in *eInst) int {
	n := 0
	for _, p := range in.Parents {
		if len(p) > 2 {
			n++
		}
	}
	return n
}

type c51Case struct {
	in     *eInst
	scheme string
	label  string
}

func runC51(c *fw.Ctx) {
	maxN := c.Pick(4, 5)
	weakN := c.Pick(3, 4)
	schemes := c51Schemes()
	var names []string
	for _, s := range schemes {
		names = append(names, s.name)
	}
	c.Bound("max_commits", maxN)
	c.Bound("dags", "n<=4: up to 3 parents, every parent order (octopus -> EDGE chunk); n=5: every parent SET (up to 4 parents, ascending)")
	c.Bound("multi_octopus_dags", "n=5: commit 3 = octopus of {0,1,2}, commit 4 = every parent set of 3 or 4 among {0..3}, commits 1,2 with every parent set (40 DAGs); n=6..8: hand-picked shapes with 3 octopus merges of 3, 4 and 5 parents, in several parent orders")
	c.Bound("timestamp_schemes", names)
	c.Bound("weak_orders", fmt.Sprintf("additionally every weak order (step 10 s) for n<=%d", weakN))
	c.Bound("overflow_boundaries", "2-commit chain and a 3-commit fork with generation-data offset exactly 1, 2^31-1, 2^31, 2^31+1, 2^32-1, 2^32, 2^32+1, 2^33")
	c.Bound("root_trees", "commit number k has the root tree {f<k>: empty blob}: 8 distinct trees")
	c.Bound("chains", "git-written: single file; 2-layer chains cut at every commit number k (layer 1 = commits numbered < k); 3-layer chains for every pair of cuts")
	c.Bound("git_write_options", "single file: default, --changed-paths (Bloom chunks BIDX/BDAT), commitGraph.generationVersion=1 (no GDA2); 2-layer chains cut at 2: --changed-paths in both layers, generationVersion=1 in both layers, and the mixed chain (layer 0 with generation data, layer 1 without)")
	c.Bound("optional_chunks", "git-written graphs of three sub-universes (cases of at most 3 commits without octopus merge and without / with overflowing offsets; 4-commit octopus cases with small offsets), each as single file and 2-layer chain, with and without Bloom filters: every combination of EDGE/GDO2/BIDX+BDAT/BASE presence except EDGE+GDO2 which the universe covers")
	c.Bound("union_files", "go-git additionally writes one file per timestamp scheme holding every commit of every case of the scheme, and one file holding the whole universe, with and without generation v2")
	c.SetRule("(A) one commit-graph per (DAG, timestamp scheme) written by go-git's MemoryIndex+Encoder (commits added in ascending and in descending order), one per scheme holding all the scheme's cases, one of the universe (with and without generation v2) and go-git's re-encodings of the git-written graphs (through a MemoryIndex, and Encode applied directly to the file index and to the chain index); each judged by `git commit-graph verify` in a bare repository borrowing the objects and read back by go-git (every commit compared); (B) git writes the graph of the universe of all cases (single file, split chains, with Bloom filters, without generation data, mixed), go-git opens it with OpenChainOrFileIndex and every commit's tree/parents/time/generation v1/v2 and the CommitNode view (ParentNode, ParentNodes, ParentHashes, the parent's own record) are compared with values recomputed from the objects; non-trivial = commit with at least one parent; distinct counts (side, parent count class, offset band none/small/[2^31,2^32)/>=2^32, layer, number of octopus merges in the file) classes")
	c.Assume("git 2.39.5 commit-graph verify/write is the reference; go-git has no chain writer; SHA-1 only; a file that passes git commit-graph verify is a valid commit-graph that go-git must read correctly")

	// ---- the cases
	treeIDs, treeObjs := c51Trees(8)
	var cases []*c51Case
	add := func(d fw.DAG, t []int64, scheme string) {
		at := make([]int64, len(t))
		for i := range at {
			at[i] = eBase
		}
		in := eNewInstTimes(d, t, at, func(i int) string { return treeIDs[i] })
		if len(cases) == 0 {
			in.Extra = treeObjs
		}
		cases = append(cases, &c51Case{in, scheme, fmt.Sprintf("parents=%v times=%v", d.Parents, t)})
	}
	for n := 1; n <= maxN; n++ {
		var dags []fw.DAG
		if n <= 4 {
			dags = fw.DAGs(n, 3, true)
		} else {
			dags = fw.DAGs(n, 4, false)
		}
		for _, d := range dags {
			for _, s := range schemes {
				add(d, s.times(n), s.name)
			}
			if n <= weakN {
				for _, r := range fw.WeakOrders(n) {
					t := make([]int64, n)
					for i := range t {
						t[i] = eBase + int64(r[i])*10
					}
					add(d, t, "weak-order")
				}
			}
		}
	}
	// several octopus merges in one graph: the extra-edge list positions of the
	// second and later merges
	var multi []fw.DAG
	for _, p1 := range fw.Subsets(1, 1) {
		for _, p2 := range fw.Subsets(2, 2) {
			for _, p4 := range fw.Subsets(4, 4) {
				if len(p4) < 3 {
					continue
				}
				multi = append(multi, fw.DAG{Parents: [][]int{{}, p1, p2, {0, 1, 2}, p4}})
			}
		}
	}
	multi = append(multi,
		fw.DAG{Parents: [][]int{{}, {}, {}, {0, 1, 2}, {3, 2, 1, 0}, {4, 0, 3, 1, 2}}},
		fw.DAG{Parents: [][]int{{}, {}, {}, {2, 1, 0}, {1, 2, 3}, {2, 3, 4}}},
		fw.DAG{Parents: [][]int{{}, {0}, {0}, {0}, {1, 2, 3}, {3, 2, 1}, {4, 5, 0, 1}, {6, 5, 4, 3, 2}}},
		fw.DAG{Parents: [][]int{{}, {0}, {1}, {2, 1, 0}, {3}, {4, 3, 2, 1, 0}, {5, 4}, {6, 5, 3}}},
	)
	for _, d := range multi {
		for _, s := range schemes {
			add(d, s.times(len(d.Parents)), s.name)
		}
	}
	for _, off := range []int64{1, 1<<31 - 1, 1 << 31, 1<<31 + 1, 1<<32 - 1, 1 << 32, 1<<32 + 1, 1 << 33} {
		// corrected(child) = root+1, offset = root+1-child
		add(fw.DAG{Parents: [][]int{{}, {0}}}, []int64{1000 + off - 1, 1000}, fmt.Sprintf("offset=%d", off))
		add(fw.DAG{Parents: [][]int{{}, {0}, {0}}}, []int64{1000 + off - 1, 1000, 1000 + off + 5}, fmt.Sprintf("offset=%d fork", off))
	}
	c.Bound("cases", len(cases))
	maxNum := 0 // largest number of commits of a case
	for _, cs := range cases {
		maxNum = max(maxNum, cs.in.N)
	}

	insts := make([]*eInst, len(cases))
	for i, cs := range cases {
		insts[i] = cs.in
	}
	repo := eBuildRepo(c, "c51", insts)
	mainObjects := filepath.Join(repo.Dir, "objects")
	c.Extra("universe_commits", repo.NObjs)
	fails := eNewFailSet()
	phases := []string{}
	phase := func(name string) {
		phases = append(phases, fmt.Sprintf("%s@%.0fs", name, c.Elapsed().Seconds()))
		c.Extra("phase_end_times", phases)
	}
	phase("repository built")

	band := func(in *eInst) string {
		_, corr := c51Gen(in)
		b := "none"
		for i := 0; i < in.N; i++ {
			off := corr[i] - uint64(in.Time[i])
			switch {
			case off >= 1<<32:
				return "offset>=2^32"
			case off >= 1<<31:
				b = "offset in [2^31,2^32)"
			case off > 0 && b == "none":
				b = "small offset"
			}
		}
		return b
	}
	pclass := func(in *eInst) string {
		m := 0
		for _, p := range in.Parents {
			if len(p) > m {
				m = len(p)
			}
		}
		switch k := c51Octopuses(in); {
		case k > 1:
			return fmt.Sprintf("%d octopuses (up to %d parents)", min(k, 3), m)
		case k == 1:
			return "octopus"
		}
		return fmt.Sprintf("maxpar%d", m)
	}

	miniRoot := c.TempDir("c51mini")
	// gitVerify puts a go-git-written graph in a bare repository borrowing the
	// objects and returns git's verdict.
	gitVerify := func(name string, graph []byte) fw.Res {
		dir := filepath.Join(miniRoot, name)
		c51MiniRepo(dir, mainObjects, graph)
		r := repo.G.In(dir).Run("commit-graph", "verify")
		os.RemoveAll(dir)
		return r
	}
	// ownReadBack: go-git reads a file go-git wrote; every commit of the given
	// cases is compared. Returns the sorted set of deviation kinds.
	ownReadBack := func(graph []byte, ins []*eInst, wantV2 bool) (string, map[string]any) {
		idx, err := cgfmt.OpenFileIndex(nopCloserAt{bytes.NewReader(graph)})
		if err != nil {
			return "OpenFileIndex error", map[string]any{"error": err.Error()}
		}
		defer idx.Close()
		ni := cgobj.NewGraphCommitNodeIndex(idx, memory.NewStorage())
		set := map[string]bool{}
		var first map[string]any
		for _, in := range ins {
			lvl, corr := c51Gen(in)
			for i := 0; i < in.N; i++ {
				c.Eval()
				kinds, obs := c51Compare(idx, ni, nil, in, i, lvl, corr, wantV2)
				for _, k := range kinds {
					set[k] = true
				}
				if len(kinds) > 0 && first == nil {
					first = map[string]any{"instance": in.Desc(), "commit": i, "go_git": obs, "deviations": kinds}
				}
			}
		}
		var ks []string
		for k := range set {
			ks = append(ks, k)
		}
		sort.Strings(ks)
		return strings.Join(ks, "+"), first
	}

	// ---- (A) go-git writes, git verifies, go-git reads back
	// (A1) one file per scheme with every commit of the scheme's cases, and the universe
	type group struct {
		name string
		ins  []*eInst
	}
	var groups []*group
	gidx := map[string]*group{}
	for _, cs := range cases {
		name := cs.scheme
		if strings.HasPrefix(name, "offset=") {
			name = "offset boundaries"
		}
		g := gidx[name]
		if g == nil {
			g = &group{name: name}
			gidx[name] = g
			groups = append(groups, g)
		}
		g.ins = append(g.ins, cs.in)
	}
	groups = append(groups, &group{"universe", insts}, &group{"universe without generation v2", insts})
	c.ParDo(len(groups), 0, func(gi int) {
		g := groups[gi]
		withV2 := g.name != "universe without generation v2"
		b, ncommits, err := c51EncodeUnion(g.ins, withV2)
		c.Eval()
		octo := 0
		seenC := map[string]bool{}
		for _, in := range g.ins {
			for i := 0; i < in.N; i++ {
				if !seenC[in.ID[i]] {
					seenC[in.ID[i]] = true
					if len(in.Parents[i]) > 2 {
						octo++
					}
				}
			}
		}
		rep := func(got string) func() map[string]any {
			return func() map[string]any {
				return map[string]any{"file": "one commit-graph holding every commit of every case of: " + g.name, "commits": ncommits, "octopus_merges": octo, "observed": got}
			}
		}
		if err != nil {
			fails.Add("Encoder.Encode fails [many cases in one file]", gi, g.name, g.name+": "+err.Error(), rep(err.Error()))
			return
		}
		r := gitVerify(fmt.Sprintf("u%d", gi), b)
		c.Class(fmt.Sprintf("A union file [%s] commits>256=%v octopuses>1=%v ok=%v", g.name, ncommits > 256, octo > 1, r.OK()))
		if !r.OK() {
			fails.Add("go-git-written commit-graph holding many cases fails git commit-graph verify: "+c51Norm(string(r.Err)), gi, g.name,
				g.name+": "+strings.TrimSpace(string(r.Err)), rep(strings.TrimSpace(string(r.Err))))
		}
		if dev, first := ownReadBack(b, g.ins, withV2); dev != "" {
			fails.Add("go-git-written commit-graph holding many cases read back wrong by go-git: "+dev, gi, g.name, g.name+": "+dev, func() map[string]any {
				m := rep(dev)()
				m["first"] = first
				return m
			})
		}
	})
	phase("A1 union files")
	// ---- (B) git writes, go-git reads
	var allIDs bytes.Buffer
	seen := map[string]bool{}
	byNum := make([]bytes.Buffer, maxNum+1) // ids of commits numbered < k
	for _, in := range insts {
		for i := 0; i < in.N; i++ {
			if seen[in.ID[i]] {
				continue
			}
			seen[in.ID[i]] = true
			allIDs.WriteString(in.ID[i] + "\n")
			for k := i + 1; k <= maxNum; k++ {
				byNum[k].WriteString(in.ID[i] + "\n")
			}
		}
	}
	// reEncode: go-git writes again what it read from git (directly from the
	// opened index, or through a MemoryIndex); git verifies, go-git reads back.
	reEncode := func(layout string, wantV2 bool) {
		for _, via := range []string{"direct", "memory"} {
			if c.Expired() {
				return
			}
			idx, err := cgfmt.OpenChainOrFileIndex(osfs.New(repo.Dir))
			if err != nil {
				return // reported by readBack
			}
			var buf bytes.Buffer
			bad := ""
			pan := eSafe(func() {
				var src cgfmt.Index = idx
				if via == "memory" {
					mi := cgfmt.NewMemoryIndex()
					for _, h := range idx.Hashes() {
						pos, e1 := idx.GetIndexByHash(h)
						if e1 != nil {
							bad = e1.Error()
							return
						}
						d, e2 := idx.GetCommitDataByIndex(pos)
						if e2 != nil {
							bad = e2.Error()
							return
						}
						mi.Add(h, d)
					}
					src = mi
				}
				if err := cgfmt.NewEncoder(&buf).Encode(src); err != nil {
					bad = err.Error()
				}
			})
			idx.Close()
			if pan != "" {
				bad = "panic: " + pan
			}
			c.Eval()
			what := fmt.Sprintf("[%s, %s]", layout0(layout), via)
			if bad != "" {
				fails.Add("go-git cannot re-encode the git-written universe graph "+what, 0, "", bad, func() map[string]any { return map[string]any{"layout": layout, "via": via, "error": bad} })
				continue
			}
			r := gitVerify("reencode", buf.Bytes())
			c.Class(fmt.Sprintf("A re-encode universe %s ok=%v", what, r.OK()))
			if !r.OK() {
				fails.Add("go-git re-encoding of the git-written universe graph fails git commit-graph verify "+what+": "+c51Norm(string(r.Err)), 0, "", strings.TrimSpace(string(r.Err)),
					func() map[string]any {
						return map[string]any{"layout": layout, "via": via, "stderr": strings.TrimSpace(string(r.Err)), "commits": repo.NObjs}
					})
			}
			if dev, first := ownReadBack(buf.Bytes(), insts, wantV2); dev != "" {
				fails.Add("go-git re-encoding of the git-written universe graph read back wrong by go-git "+what+": "+dev, 0, "", dev, func() map[string]any { return first })
			}
		}
	}
	var readBackSel func(layout string, wantV2 bool, layerOf func(num int) int, sel []int, ncommits int)
	readBack := func(layout string, wantV2 bool, layerOf func(num int) int) {
		readBackSel(layout, wantV2, layerOf, nil, repo.NObjs)
	}
	readBackSel = func(layout string, wantV2 bool, layerOf func(num int) int, sel []int, ncommits int) {
		if sel == nil {
			sel = make([]int, len(cases))
			for i := range sel {
				sel[i] = i
			}
		}
		var idx cgfmt.Index
		var err error
		if pan := eSafe(func() { idx, err = cgfmt.OpenChainOrFileIndex(osfs.New(repo.Dir)) }); pan != "" || err != nil {
			fails.Add("go-git cannot open the commit-graph git wrote ["+layout+"]", 0, layout, fmt.Sprint(pan, err), func() map[string]any { return map[string]any{"layout": layout, "error": fmt.Sprint(pan, err)} })
			return
		}
		defer idx.Close()
		hashes := map[plumbing.Hash]bool{}
		for _, h := range idx.Hashes() {
			hashes[h] = true
		}
		if len(hashes) != ncommits || int(idx.MaximumNumberOfHashes()) != ncommits {
			fails.Add("git-written commit-graph: Hashes()/MaximumNumberOfHashes() do not count the commits ["+layout0(layout)+"]", 0, layout, layout,
				func() map[string]any {
					return map[string]any{"layout": layout, "hashes": len(hashes), "maximum_number_of_hashes": idx.MaximumNumberOfHashes(), "commits": ncommits}
				})
		}
		c.ParDo(len(sel), 0, func(si int) {
			ci := sel[si]
			in := cases[ci].in
			lvl, corr := c51Gen(in)
			ni := cgobj.NewGraphCommitNodeIndex(idx, memory.NewStorage())
			for i := 0; i < in.N; i++ {
				c.Eval()
				kinds, obs := c51Compare(idx, ni, hashes, in, i, lvl, corr, wantV2)
				ob := c51OffBand(corr[i] - uint64(in.Time[i]))
				np := len(in.Parents[i])
				pc := fmt.Sprintf("%d parents", min(np, 3))
				if len(kinds) > 0 {
					sort.Strings(kinds)
					fails.Add(fmt.Sprintf("git-written commit-graph read back wrong [%s; %s; %s]: %s", layout0(layout), pc, ob, strings.Join(kinds, "+")), ci,
						fmt.Sprintf("%s commit %d", layout, i), fmt.Sprintf("%s %s commit %d: %v", layout, cases[ci].label, i, obs),
						func() map[string]any {
							return map[string]any{"layout": layout, "instance": in.Desc(), "commit": i, "go_git": obs,
								"expected": map[string]any{"generation": lvl[i], "generation_v2": corr[i], "time": in.Time[i], "parents": in.Parents[i], "tree": in.Tree[i]}}
						})
				}
				if np > 0 {
					c.Class(fmt.Sprintf("B %s layer%d %s %s", layout0(layout), layerOf(i), pc, ob))
				}
			}
		})
	}
	graphFile := filepath.Join(repo.Dir, "objects", "info", "commit-graph")
	chainDir := filepath.Join(repo.Dir, "objects", "info", "commit-graphs")
	layer0 := func(int) int { return 0 }
	v1 := repo.G.C("commitGraph.generationVersion=1")

	repo.G.MustRunIn(allIDs.Bytes(), "commit-graph", "write", "--stdin-commits")
	repo.G.MustRun("commit-graph", "verify")
	readBack("single file", true, layer0)
	reEncode("single file", true)
	os.Remove(graphFile)

	repo.G.MustRunIn(allIDs.Bytes(), "commit-graph", "write", "--stdin-commits", "--changed-paths")
	repo.G.MustRun("commit-graph", "verify")
	if gb, err := os.ReadFile(graphFile); err != nil || !bytes.Contains(gb[:200], []byte("BIDX")) {
		fw.Abort("git wrote no Bloom chunks with --changed-paths (%v)", err)
	}
	readBack("single file with Bloom filters", true, layer0)
	os.Remove(graphFile)

	v1.MustRunIn(allIDs.Bytes(), "commit-graph", "write", "--stdin-commits")
	repo.G.MustRun("commit-graph", "verify")
	if gb, err := os.ReadFile(graphFile); err != nil || bytes.Contains(gb[:200], []byte("GDA2")) {
		fw.Abort("git wrote generation data with commitGraph.generationVersion=1 (%v)", err)
	}
	readBack("single file without generation data", false, layer0)
	reEncode("single file without generation data", false)
	os.Remove(graphFile)

	// optional chunks: graphs of sub-universes that need no EDGE and/or no GDO2
	// chunk, each as a single file and as a 2-layer chain (BASE), with and
	// without Bloom chunks, so that every chunk is followed by every other.
	for _, su := range []struct {
		name     string
		octopus  bool
		overflow bool
	}{{"no EDGE, no GDO2", false, false}, {"EDGE, no GDO2", true, false}, {"GDO2, no EDGE", false, true}} {
		var sel []int
		var ids, low bytes.Buffer
		seenS := map[string]bool{}
		for ci, cs := range cases {
			in := cs.in
			b := band(in)
			if (c51Octopuses(in) > 0) != su.octopus || (b == "offset>=2^32" || b == "offset in [2^31,2^32)") != su.overflow || in.N > 4 {
				continue
			}
			if su.octopus && cs.scheme != "monotone" && cs.scheme != "all-equal" && cs.scheme != "reversed(small offsets)" {
				continue
			}
			if !su.octopus && in.N > 3 {
				continue
			}
			sel = append(sel, ci)
			for i := 0; i < in.N; i++ {
				if !seenS[in.ID[i]] {
					seenS[in.ID[i]] = true
					ids.WriteString(in.ID[i] + "\n")
					if i < 2 {
						low.WriteString(in.ID[i] + "\n")
					}
				}
			}
		}
		if len(sel) == 0 {
			fw.Abort("empty sub-universe %s", su.name)
		}
		for _, bloom := range []bool{false, true} {
			for _, chain := range []bool{false, true} {
				if c.Expired() {
					break
				}
				args := []string{"commit-graph", "write", "--stdin-commits"}
				layout := "single file"
				if chain {
					args = append(args, "--split=no-merge")
					layout = "chain cut at 2"
				}
				if bloom {
					args = append(args, "--changed-paths")
					layout += " with Bloom filters"
				}
				layout += " (" + su.name + ")"
				if chain {
					repo.G.MustRunIn(low.Bytes(), args...)
				}
				repo.G.MustRunIn(ids.Bytes(), args...)
				repo.G.MustRun("commit-graph", "verify")
				// the chunk table must be what the layout's name says
				top := graphFile
				if chain {
					cb, err := os.ReadFile(filepath.Join(chainDir, "commit-graph-chain"))
					c.Must(err, "chain file")
					ls := eLines(cb)
					if len(ls) != 2 {
						fw.Abort("git wrote %d chain layers for %s", len(ls), layout)
					}
					top = filepath.Join(chainDir, "graph-"+ls[1]+".graph")
				}
				gb, err := os.ReadFile(top)
				c.Must(err, "git-written graph")
				toc := gb[:min(len(gb), 8+12*12)]
				for sig, want := range map[string]bool{"EDGE": su.octopus, "GDO2": su.overflow, "BIDX": bloom, "BASE": chain, "GDA2": true} {
					if bytes.Contains(toc, []byte(sig)) != want {
						fw.Abort("git-written %s: chunk %s present=%v, expected %v", layout, sig, !want, want)
					}
				}
				readBackSel(layout, true, func(num int) int {
					if chain && num >= 2 {
						return 1
					}
					return 0
				}, sel, len(seenS))
				os.Remove(graphFile)
				os.RemoveAll(chainDir)
			}
		}
	}
	phase("B single files")
	// chains
	type cut struct {
		a, b int
		kind string // "", bloom, v1, mixed
	}
	var cuts []cut
	for a := 1; a < maxN; a++ {
		cuts = append(cuts, cut{a, 0, ""})
	}
	cuts = append(cuts, cut{2, 0, "bloom"}, cut{2, 0, "v1"}, cut{2, 0, "mixed"})
	for a := 1; a < maxN; a++ {
		for b := a + 1; b < maxN; b++ {
			cuts = append(cuts, cut{a, b, ""})
		}
	}
	for _, ct := range cuts {
		if c.Expired() {
			c.Incomplete("deadline reached before every chain layout was read back")
			break
		}
		os.RemoveAll(chainDir)
		g1, g2 := repo.G, repo.G
		var extra []string
		wantV2 := true
		suffix := ""
		switch ct.kind {
		case "bloom":
			extra = []string{"--changed-paths"}
			suffix = " with Bloom filters"
		case "v1":
			g1, g2 = v1, v1
			wantV2 = false
			suffix = " without generation data"
		case "mixed":
			g2 = v1
			wantV2 = false
			suffix = " mixed (generation data in layer 0 only)"
		}
		wr := func(g *fw.Git, ids []byte) {
			g.MustRunIn(ids, append([]string{"commit-graph", "write", "--split=no-merge", "--stdin-commits"}, extra...)...)
		}
		wr(g1, byNum[ct.a].Bytes())
		layout := fmt.Sprintf("chain cut at %d%s", ct.a, suffix)
		if ct.b > 0 {
			wr(g1, byNum[ct.b].Bytes())
			layout = fmt.Sprintf("chain cut at %d and %d", ct.a, ct.b)
		}
		wr(g2, allIDs.Bytes())
		repo.G.MustRun("commit-graph", "verify")
		cb, err := os.ReadFile(filepath.Join(chainDir, "commit-graph-chain"))
		c.Must(err, "chain file")
		wantLayers := 2
		if ct.b > 0 {
			wantLayers = 3
		}
		if got := len(eLines(cb)); got != wantLayers {
			fw.Abort("git wrote %d chain layers for %s, expected %d", got, layout, wantLayers)
		}
		readBack(layout, wantV2, func(num int) int {
			switch {
			case num < ct.a:
				return 0
			case ct.b > 0 && num < ct.b:
				return 1
			case ct.b > 0:
				return 2
			}
			return 1
		})
		if ct.a == 2 && (ct.b == 0 || ct.b == 3) && ct.kind != "bloom" {
			reEncode(layout, wantV2)
		}
	}
	os.RemoveAll(chainDir)
	phase("B chains")

	// (A2) one file per case (after (B): one git process per case)
	c.ParDo(len(cases), 0, func(i int) {
		cs := cases[i]
		in := cs.in
		if i%997 == 3 {
			c.Sample(map[string]any{"case": i, "scheme": cs.scheme, "instance": in.Desc()})
		}
		var prev []byte
		for _, rev := range []bool{false, true} {
			b, err := c51Encode(in, rev)
			c.Eval()
			rep := func(got string) func() map[string]any {
				return func() map[string]any {
					return map[string]any{"instance": in.Desc(), "scheme": cs.scheme, "added_in_descending_order": rev, "observed": got}
				}
			}
			if err != nil {
				fails.Add(fmt.Sprintf("Encoder.Encode fails [%s]", band(in)), i, cs.label, cs.label+": "+err.Error(), rep(err.Error()))
				continue
			}
			if rev && bytes.Equal(b, prev) {
				continue // same bytes as the ascending insertion: already judged
			}
			if rev && prev != nil {
				fails.Add("Encoder output depends on the order commits were added", i, cs.label, cs.label, rep("bytes differ"))
			}
			prev = b
			r := gitVerify(fmt.Sprintf("r%d_%v", i, rev), b)
			if !r.OK() {
				msg := c51Norm(string(r.Err))
				fails.Add(fmt.Sprintf("go-git-written commit-graph fails git commit-graph verify [%s]: %s", band(in), msg), i, cs.label,
					cs.label+": "+strings.TrimSpace(string(r.Err)), rep(strings.TrimSpace(string(r.Err))))
			}
			if dev, first := ownReadBack(b, []*eInst{in}, true); dev != "" {
				fails.Add(fmt.Sprintf("go-git-written commit-graph read back wrong by go-git [%s; %s]: %s", band(in), pclass(in), dev), i, cs.label, cs.label+": "+dev,
					func() map[string]any { m := rep(dev)(); m["first"] = first; return m })
			}
			if in.N > 1 {
				c.Class(fmt.Sprintf("A %s %s ok=%v", band(in), pclass(in), r.OK()))
			}
		}
	})

	phase("A2 one file per case")
	fails.Report(c)
}

// layout0 reduces a layout label to its kind for class keys.
func layout0(l string) string {
	switch {
	case strings.Contains(l, " ("):
		l = strings.Replace(l, "chain cut at 2", "2-layer chain", 1)
		return l
	case strings.HasPrefix(l, "chain cut at") && strings.Contains(l, " and "):
		return "3-layer chain"
	case strings.HasPrefix(l, "chain") && strings.Contains(l, " with Bloom"):
		return "2-layer chain with Bloom filters"
	case strings.HasPrefix(l, "chain") && strings.Contains(l, " without generation"):
		return "2-layer chain without generation data"
	case strings.HasPrefix(l, "chain") && strings.Contains(l, " mixed"):
		return "2-layer mixed chain"
	case strings.HasPrefix(l, "chain"):
		return "2-layer chain"
	}
	return l
}

package checks

// C44: tree diffs are complete and agree with git.
//
// Space: every ORDERED PAIR of trees from a set T that is closed under entry
// deletion: trees of depth <= 2 whose total number of entries (a directory
// counts 1 + its children) is <= W, root names {a, a-b, a.b, a0, ab} (they sort
// around '/': a directory "a" sorts as "a/"), sub-directory names a subset of
// those, leaf kinds {regular c1, regular c2 (similar to c1), empty regular,
// executable c1, symlink c1 (same blob as regular c1), gitlink}; directories may
// be empty.
//
// Oracle:
//   (1) model: diff of the two flattened path->(mode,id) maps. The model is
//       replayed against `git diff-tree -r --no-renames --raw --stdin` on EVERY
//       pair (engine error when they differ), so it is git's answer.
//   (2) go-git object.DiffTree(a,b) as a multiset == model; applying the
//       reported changes to flatten(a) gives flatten(b).
//   (3) with rename detection (default options, and exact-only): expanding each
//       reported rename (Modify whose From.Name != To.Name) into delete(From) +
//       insert(To) gives exactly the multiset of (2): nothing lost, nothing
//       invented, renames pair a real deletion with a real insertion. Which
//       deletion is paired with which insertion is a heuristic and NOT compared
//       with `git diff-tree -M`.

import (
	"context"
	"fmt"
	"sort"
	"strings"
	"sync"

	"github.com/go-git/go-git/v6/plumbing"
	"github.com/go-git/go-git/v6/plumbing/object"
	"github.com/go-git/go-git/v6/plumbing/storer"
	"github.com/go-git/go-git/v6/utils/merkletrie"

	"verifmc/fw"
)

func init() {
	fw.Register(&fw.Check{ID: "C44", Level: "exploration", Run: runC44, QuickBudget: 150, ThoroughBudget: 900})
}

type c44Kind struct{ tag, mode, typ, data, id string }

type c44Ent struct {
	name string
	leaf int      // index into kinds, -1 for a directory
	sub  []c44Ent // children of a directory (leaves only)
}

type c44Tree struct {
	ents []c44Ent
	key  string
	id   string
	flat map[string]string // path -> "mode id"
	tags map[string]string // path -> kind tag
}

type c44Space struct {
	kinds []c44Kind
	trees []*c44Tree
	byKey map[string]int
}

func c44Key(ents []c44Ent, kinds []c44Kind) string {
	var parts []string
	for _, e := range ents {
		if e.leaf >= 0 {
			parts = append(parts, e.name+"="+kinds[e.leaf].tag)
		} else {
			parts = append(parts, e.name+"={"+c44Key(e.sub, kinds)+"}")
		}
	}
	return strings.Join(parts, ",")
}

func c44Weight(ents []c44Ent) int {
	w := 0
	for _, e := range ents {
		w += 1 + c44Weight(e.sub)
	}
	return w
}

// c44EnumerateDeep lists every entry list over `names` whose entries are leaf
// kinds 0..nk-1 or directories nested up to maxDepth levels (maxDepth 1 =
// leaves only), with total weight (every entry at every level counts 1) <= maxW.
func c44EnumerateDeep(nk int, names []string, maxW, maxDepth int) [][]c44Ent {
	type wl struct {
		ents []c44Ent
		w    int
	}
	var gen func(maxW, depth int) []wl
	gen = func(maxW, depth int) []wl {
		var inner []wl
		if depth > 1 && maxW >= 1 {
			inner = gen(maxW-1, depth-1)
		}
		var out []wl
		var rec func(i int, cur []c44Ent, w int)
		rec = func(i int, cur []c44Ent, w int) {
			if i == len(names) {
				out = append(out, wl{append([]c44Ent{}, cur...), w})
				return
			}
			rec(i+1, cur, w)
			if w+1 > maxW {
				return
			}
			for k := 0; k < nk; k++ {
				rec(i+1, append(cur, c44Ent{name: names[i], leaf: k}), w+1)
			}
			for _, in := range inner {
				if w+1+in.w <= maxW {
					rec(i+1, append(cur, c44Ent{name: names[i], leaf: -1, sub: in.ents}), w+1+in.w)
				}
			}
		}
		rec(0, nil, 0)
		return out
	}
	var res [][]c44Ent
	for _, x := range gen(maxW, maxDepth) {
		res = append(res, x.ents)
	}
	return res
}

// c44Enumerate lists every tree with weight <= maxW, <= maxRoot root entries.
func c44Enumerate(kinds []c44Kind, rootNames, subNames []string, maxW, maxRoot int) [][]c44Ent {
	// all sub-directory contents (leaves only), by weight
	var subs [][]c44Ent
	for _, set := range fw.Subsets(len(subNames), maxW-1) {
		dims := make([]int, len(set))
		for i := range dims {
			dims[i] = len(kinds)
		}
		for _, ks := range fw.Product(dims...) {
			var es []c44Ent
			for i, n := range set {
				es = append(es, c44Ent{name: subNames[n], leaf: ks[i]})
			}
			subs = append(subs, es)
		}
	}
	// choices for one root entry: leaf kinds, then directories
	type choice struct {
		leaf int
		sub  []c44Ent
		w    int
	}
	var choices []choice
	for k := range kinds {
		choices = append(choices, choice{leaf: k, w: 1})
	}
	for _, s := range subs {
		choices = append(choices, choice{leaf: -1, sub: s, w: 1 + len(s)})
	}
	var out [][]c44Ent
	for _, set := range fw.Subsets(len(rootNames), maxRoot) {
		var rec func(i int, cur []c44Ent, w int)
		rec = func(i int, cur []c44Ent, w int) {
			if i == len(set) {
				out = append(out, append([]c44Ent{}, cur...))
				return
			}
			for _, ch := range choices {
				if w+ch.w+(len(set)-i-1) > maxW {
					continue
				}
				rec(i+1, append(cur, c44Ent{name: rootNames[set[i]], leaf: ch.leaf, sub: ch.sub}), w+ch.w)
			}
		}
		if len(set) <= maxW {
			rec(0, nil, 0)
		}
	}
	return out
}

func c44Flatten(t *c44Tree, kinds []c44Kind) {
	t.flat = map[string]string{}
	t.tags = map[string]string{}
	var rec func(prefix string, ents []c44Ent)
	rec = func(prefix string, ents []c44Ent) {
		for _, e := range ents {
			if e.leaf >= 0 {
				// git reads the deprecated mode 100664 as 100644 (canon_mode)
				t.flat[prefix+e.name] = c44CanonMode(kinds[e.leaf].mode) + " " + kinds[e.leaf].id
				t.tags[prefix+e.name] = kinds[e.leaf].tag
				continue
			}
			rec(prefix+e.name+"/", e.sub)
		}
	}
	rec("", t.ents)
}

func c44CanonMode(m string) string {
	if m == "100664" {
		return "100644"
	}
	return m
}

const c44Zero = "000000 0000000000000000000000000000000000000000"

// c44ModelDiff: sorted change lines "<S> <oldmode> <oldid> <newmode> <newid>\t<path>".
func c44ModelDiff(a, b *c44Tree) []string {
	var out []string
	for p, va := range a.flat {
		if vb, ok := b.flat[p]; ok {
			if va != vb {
				out = append(out, "M "+va+" "+vb+"\t"+p)
			}
		} else {
			out = append(out, "D "+va+" "+c44Zero+"\t"+p)
		}
	}
	for p, vb := range b.flat {
		if _, ok := a.flat[p]; !ok {
			out = append(out, "A "+c44Zero+" "+vb+"\t"+p)
		}
	}
	sort.Strings(out)
	return out
}

func c44EntryStr(e object.ChangeEntry) string {
	return c44CanonMode(fmt.Sprintf("%06o", uint32(e.TreeEntry.Mode))) + " " + e.TreeEntry.Hash.String()
}

// c44Lines renders go-git changes in the model's format; when expand is true a
// rename is rendered as its delete + insert.
func c44Lines(chs object.Changes, expand bool) (lines []string, renames int, err error) {
	for _, ch := range chs {
		act, e := ch.Action()
		if e != nil {
			return nil, 0, e
		}
		switch act {
		case merkletrie.Insert:
			lines = append(lines, "A "+c44Zero+" "+c44EntryStr(ch.To)+"\t"+ch.To.Name)
		case merkletrie.Delete:
			lines = append(lines, "D "+c44EntryStr(ch.From)+" "+c44Zero+"\t"+ch.From.Name)
		default:
			if ch.From.Name != ch.To.Name {
				renames++
				if expand {
					lines = append(lines, "D "+c44EntryStr(ch.From)+" "+c44Zero+"\t"+ch.From.Name)
					lines = append(lines, "A "+c44Zero+" "+c44EntryStr(ch.To)+"\t"+ch.To.Name)
					continue
				}
				lines = append(lines, "R "+c44EntryStr(ch.From)+" "+c44EntryStr(ch.To)+"\t"+ch.From.Name+"\t"+ch.To.Name)
				continue
			}
			lines = append(lines, "M "+c44EntryStr(ch.From)+" "+c44EntryStr(ch.To)+"\t"+ch.From.Name)
		}
	}
	sort.Strings(lines)
	return lines, renames, nil
}

// c44Apply applies change lines to a flattened tree; "" = fine.
func c44Apply(a map[string]string, lines []string, want map[string]string) string {
	cur := map[string]string{}
	for k, v := range a {
		cur[k] = v
	}
	for _, l := range lines {
		tab := strings.IndexByte(l, '\t')
		f := strings.Fields(l[:tab])
		p := l[tab+1:]
		old, nw := f[1]+" "+f[2], f[3]+" "+f[4]
		switch f[0] {
		case "A":
			if _, ok := cur[p]; ok {
				return "insert of existing path " + p
			}
			cur[p] = nw
		case "D":
			if cur[p] != old {
				return "delete of absent/different entry " + p
			}
			delete(cur, p)
		case "M":
			if cur[p] != old {
				return "modify of absent/different entry " + p
			}
			cur[p] = nw
		}
	}
	if len(cur) != len(want) {
		return "result has a different number of paths"
	}
	for k, v := range want {
		if cur[k] != v {
			return "result differs at " + k
		}
	}
	return ""
}

// Option sets: the two DiffTreeWithOptions runs walk the trees again (fresh
// Tree values / the same Tree values); the others go through the second
// exported entry point, DetectRenames, on the changes of the plain diff, with
// every rarely-set field of the options struct on both sides of its default:
// RenameLimit 0 / 1 / 2 (the matrix truncation of the n:m exact branch and the
// size gate of the content pass), RenameScore 0 / 60 / 100, nil options.
var c44RenameOpts = []struct {
	name   string
	opts   *object.DiffTreeOptions
	detect bool
}{
	{"default", object.DefaultDiffTreeOptions, false},
	{"exact", &object.DiffTreeOptions{DetectRenames: true, RenameScore: 60, OnlyExactRenames: true}, false},
	{"DetectRenames(nil)", nil, true},
	{"DetectRenames(limit=1)", &object.DiffTreeOptions{DetectRenames: true, RenameScore: 60, RenameLimit: 1}, true},
	{"DetectRenames(limit=2,exact)", &object.DiffTreeOptions{DetectRenames: true, RenameScore: 60, RenameLimit: 2, OnlyExactRenames: true}, true},
	{"DetectRenames(limit=3)", &object.DiffTreeOptions{DetectRenames: true, RenameScore: 60, RenameLimit: 3}, true},
	{"DetectRenames(score=0)", &object.DiffTreeOptions{DetectRenames: true, RenameScore: 0}, true},
	{"DetectRenames(score=100)", &object.DiffTreeOptions{DetectRenames: true, RenameScore: 100}, true},
}

// c44Verdict runs the real code on one pair and returns "" or the failure kind
// plus a description; obs is the observation class.
func c44Verdict(st storer.EncodedObjectStorer, a, b *c44Tree) (kind, what, obs string) {
	model := c44ModelDiff(a, b)
	var plain []string
	var errS string
	renObs := ""
	p := fRecover(func() {
		ta, err := object.GetTree(st, plumbing.NewHash(a.id))
		if err != nil {
			errS = "GetTree: " + err.Error()
			return
		}
		tb, err := object.GetTree(st, plumbing.NewHash(b.id))
		if err != nil {
			errS = "GetTree: " + err.Error()
			return
		}
		chs, err := object.DiffTree(ta, tb)
		if err != nil {
			errS = "DiffTree: " + err.Error()
			return
		}
		plain, _, err = c44Lines(chs, false)
		if err != nil {
			errS = "Action: " + err.Error()
			return
		}
		if !fEqualStrings(plain, model) {
			kind, what = "diff", fmt.Sprintf("DiffTree differs from git diff-tree -r --no-renames: go-git=%q git=%q", plain, model)
			return
		}
		if m := c44Apply(a.flat, plain, b.flat); m != "" {
			kind, what = "apply", "applying the reported changes to the first tree does not give the second: "+m
			return
		}
		for ri, ro := range c44RenameOpts {
			var rch object.Changes
			var err error
			switch {
			case ro.detect:
				// the other entry point: DetectRenames on the changes of the
				// plain diff (must not depend on what an earlier call did
				// with the same change values)
				rch, err = object.DetectRenames(chs, ro.opts)
			case ri%2 == 0:
				// fresh trees: rename detection must not depend on memoised state
				ta2, _ := object.GetTree(st, plumbing.NewHash(a.id))
				tb2, _ := object.GetTree(st, plumbing.NewHash(b.id))
				rch, err = object.DiffTreeWithOptions(context.Background(), ta2, tb2, ro.opts)
			default:
				// the SAME Tree values a second time (state left by the first diff)
				rch, err = object.DiffTreeWithOptions(context.Background(), ta, tb, ro.opts)
			}
			if err != nil {
				errS = "rename detection (" + ro.name + "): " + err.Error()
				return
			}
			exp, nren, err := c44Lines(rch, true)
			if err != nil {
				errS = "Action: " + err.Error()
				return
			}
			if !fEqualStrings(exp, model) {
				raw, _, _ := c44Lines(rch, false)
				kind = "rename: " + c44RenameClass(exp, model)
				what = fmt.Sprintf("rename detection (%s) loses or invents changes: reported=%q, expanded=%q, without renames=%q", ro.name, raw, exp, model)
				return
			}
			renObs += fmt.Sprintf(" %d:%d", ri, nren)
		}
	})
	if p != "" {
		return "panic", "panic: " + p, ""
	}
	if errS != "" {
		return "error", errS, ""
	}
	if kind != "" {
		return kind, what, ""
	}
	// observation class: multiset of (status, old kind, new kind, depth) + renames
	var sig []string
	for _, l := range model {
		tab := strings.IndexByte(l, '\t')
		pth := l[tab+1:]
		sig = append(sig, l[:1]+a.tags[pth]+">"+b.tags[pth]+fmt.Sprint(strings.Count(pth, "/")))
	}
	sort.Strings(sig)
	return "", "", strings.Join(sig, ",") + "|" + renObs
}

// c44RenameClass names the class of a rename-conservation failure by a
// predicate on the input: for each lost / invented change its status and how
// many insertions and deletions of the no-rename diff carry the same blob id
// (0, 1 or 2+) -- the quantities the exact-rename matcher branches on.
func c44RenameClass(expanded, model []string) string {
	count := func(l []string) map[string]int {
		m := map[string]int{}
		for _, x := range l {
			m[x]++
		}
		return m
	}
	ce, cm := count(expanded), count(model)
	blob := func(l string) string {
		f := strings.Fields(l[:strings.IndexByte(l, '\t')])
		if f[0] == "A" {
			return f[4]
		}
		return f[2]
	}
	num := func(st, id string) string {
		n := 0
		for _, l := range model {
			if l[:1] == st && blob(l) == id {
				n++
			}
		}
		if n >= 2 {
			return "2+"
		}
		return fmt.Sprint(n)
	}
	set := map[string]bool{}
	for l, n := range cm {
		if ce[l] < n {
			set["lost "+l[:1]+"(inserts-with-blob="+num("A", blob(l))+",deletes-with-blob="+num("D", blob(l))+")"] = true
		}
	}
	for l, n := range ce {
		if cm[l] < n {
			set["invented "+l[:1]] = true
		}
	}
	var parts []string
	for k := range set {
		parts = append(parts, k)
	}
	sort.Strings(parts)
	return strings.Join(parts, "; ")
}

// c44Reductions lists the indices of trees one reduction step simpler than t:
// at any nesting level an entry removed, a directory replaced by the first leaf
// kind, a kind lowered, a name lowered to an earlier name unused in its directory.
func (sp *c44Space) reductions(t *c44Tree, rootNames, subNames []string) []int {
	var out []int
	var canon func(es []c44Ent) []c44Ent
	canon = func(es []c44Ent) []c44Ent {
		o := make([]c44Ent, len(es))
		for i, e := range es {
			o[i] = e
			if e.leaf < 0 {
				o[i].sub = canon(e.sub)
			}
		}
		sort.SliceStable(o, func(i, j int) bool { return idxOf(rootNames, o[i].name) < idxOf(rootNames, o[j].name) })
		return o
	}
	add := func(ents []c44Ent) {
		if i, ok := sp.byKey[c44Key(canon(ents), sp.kinds)]; ok {
			out = append(out, i)
		}
	}
	with := func(es []c44Ent, i int, e *c44Ent) []c44Ent { // copy with entry i replaced (nil = removed)
		o := append([]c44Ent{}, es[:i]...)
		if e != nil {
			o = append(o, *e)
		}
		return append(o, es[i+1:]...)
	}
	// pass 0 removals and directory collapses, pass 1 kinds, pass 2 names
	for pass := 0; pass < 3; pass++ {
		var walk func(es []c44Ent, rebuild func([]c44Ent) []c44Ent)
		walk = func(es []c44Ent, rebuild func([]c44Ent) []c44Ent) {
			for i, e := range es {
				switch pass {
				case 0:
					add(rebuild(with(es, i, nil)))
					if e.leaf < 0 {
						add(rebuild(with(es, i, &c44Ent{name: e.name, leaf: 0})))
					}
				case 1:
					for k := 0; k < e.leaf; k++ {
						add(rebuild(with(es, i, &c44Ent{name: e.name, leaf: k})))
					}
				case 2:
					for k := 0; k < idxOf(rootNames, e.name); k++ {
						used := false
						for _, x := range es {
							if x.name == rootNames[k] {
								used = true
							}
						}
						if !used {
							ne := e
							ne.name = rootNames[k]
							add(rebuild(with(es, i, &ne)))
						}
					}
				}
				if e.leaf < 0 {
					i, e := i, e
					walk(e.sub, func(sub []c44Ent) []c44Ent {
						return rebuild(with(es, i, &c44Ent{name: e.name, leaf: -1, sub: sub}))
					})
				}
			}
		}
		walk(t.ents, func(x []c44Ent) []c44Ent { return x })
	}
	return out
}

// c44Big: about 9 KiB of text crossing the 4096-byte read buffer of the
// similarity index twice: lines longer than 64 bytes, CRLF line ends, and runs
// of CR placed across both buffer boundaries. variant 1 = variant 0 + one line.
func c44Big(variant int) string {
	var b strings.Builder
	for i := 0; b.Len() < 4000; i++ {
		fmt.Fprintf(&b, "line %03d %s\r\n", i, strings.Repeat("x", i%90))
	}
	b.WriteString(strings.Repeat("\r", 200)) // covers offset 4095/4096
	b.WriteString("\n")
	for i := 0; b.Len() < 8100; i++ {
		fmt.Fprintf(&b, "second part %03d %s\n", i, strings.Repeat("y", (i*7)%80))
	}
	b.WriteString(strings.Repeat("\r", 200)) // covers offset 8191/8192
	b.WriteString("\nlast line\n")
	if variant == 1 {
		b.WriteString("one more line\n")
	}
	return b.String()
}

// renamed returns the index of t with root (level 0) or sub-directory (level 1)
// name `from` replaced by `to` everywhere, or -1 when `to` is already used at
// that level or the result is outside the space. ok=false means "to in use".
func (sp *c44Space) renamed(t *c44Tree, level int, from, to string, rootNames, subNames []string) int {
	c := make([]c44Ent, len(t.ents))
	for i, e := range t.ents {
		c[i] = e
		if e.leaf < 0 {
			c[i].sub = append([]c44Ent{}, e.sub...)
		}
		if level == 0 {
			if e.name == to {
				return -1
			}
			if e.name == from {
				c[i].name = to
			}
			continue
		}
		for j := range c[i].sub {
			if c[i].sub[j].name == to {
				return -1
			}
			if c[i].sub[j].name == from {
				c[i].sub[j].name = to
			}
		}
		sub := c[i].sub
		sort.Slice(sub, func(x, y int) bool { return idxOf(subNames, sub[x].name) < idxOf(subNames, sub[y].name) })
	}
	sort.Slice(c, func(i, j int) bool { return idxOf(rootNames, c[i].name) < idxOf(rootNames, c[j].name) })
	if i, ok := sp.byKey[c44Key(c, sp.kinds)]; ok {
		return i
	}
	return -1
}

func idxOf(l []string, s string) int {
	for i, x := range l {
		if x == s {
			return i
		}
	}
	return -1
}

func runC44(c *fw.Ctx) {
	// c2 is c1 plus one line: similar enough (>= 60%) for content renames.
	c1 := "alpha\nbravo\ncharlie\ndelta\necho\nfoxtrot\ngolf\nhotel\n"
	c2 := c1 + "india\n"
	kinds := []c44Kind{
		{tag: "f1", mode: "100644", typ: "blob", data: c1},
		{tag: "f2", mode: "100644", typ: "blob", data: c2},
		{tag: "fe", mode: "100644", typ: "blob", data: ""},
		{tag: "x1", mode: "100755", typ: "blob", data: c1},
		{tag: "l1", mode: "120000", typ: "blob", data: c1},
		{tag: "s1", mode: "160000", typ: "commit", id: "1111111111111111111111111111111111111111"},
		// the deprecated group-writable mode: git (canon_mode) and go-git's
		// treeNoder.Hash both read it as 100644
		{tag: "d1", mode: "100664", typ: "blob", data: c1},
		// two similar blobs larger than the 4 KiB read buffer of the
		// similarity index, with lines longer than its 64-byte block, CRLF
		// line ends and runs of CR across the buffer boundaries
		{tag: "g1", mode: "100644", typ: "blob", data: c44Big(0)},
		{tag: "g2", mode: "100644", typ: "blob", data: c44Big(1)},
	}
	// global name order (keys list entries in this order)
	rootNames := []string{"a", "a-b", "a.b", "a0", "ab"}
	subNames := []string{"a", "a.b", "ab"}
	// Sub-spaces; all ordered pairs WITHIN each sub-space are checked.
	// depth 0: the two-level enumerator (rn = root names, sn = names inside a
	// directory, <= 3 root entries); depth >= 2: the recursive enumerator over
	// rn at every level (directories nested up to `depth` levels).
	type subspace struct {
		name   string
		kinds  []int
		rn, sn []string
		w      int
		depth  int
	}
	all := []int{0, 1, 2, 3, 4, 5}
	var spaces []subspace
	if c.Thorough() {
		spaces = []subspace{
			{"W2-full", all, rootNames, subNames, 2, 0},
			{"W3-reduced", []int{0, 1, 3, 4, 5}, []string{"a", "a-b", "a.b", "a0"}, []string{"a", "a.b"}, 3, 0},
			{"deep-W4", []int{0, 1}, []string{"a", "a.b"}, nil, 4, 3},
			{"deep-W3-3names", []int{0}, []string{"a", "a-b", "a0"}, nil, 3, 3},
			{"W2-other-kinds", []int{0, 6, 7, 8}, []string{"a", "a.b", "a0"}, []string{"a", "a.b"}, 2, 0},
		}
	} else {
		spaces = []subspace{
			{"W2", all, []string{"a", "a-b", "a.b", "a0"}, []string{"a", "a.b"}, 2, 0},
			{"W3-reduced", []int{0, 1, 3}, []string{"a", "a.b", "a0"}, []string{"a", "ab"}, 3, 0},
			{"deep-W4-1kind", []int{0}, []string{"a", "a.b"}, nil, 4, 3},
			{"deep-W3", []int{0, 1}, []string{"a", "a.b"}, nil, 3, 3},
			{"W2-other-kinds", []int{0, 6, 7, 8}, []string{"a", "a.b"}, []string{"a"}, 2, 0},
		}
	}
	c.Bound("max_depth", 3)
	c.Bound("max_root_entries", 3)
	c.Bound("leaf_kinds", []string{"f1 regular c1", "f2 regular c2~c1", "fe regular empty", "x1 executable c1", "l1 symlink c1", "s1 gitlink", "d1 c1 with the deprecated mode 100664", "g1 regular 9 KiB (long lines, CRLF, CR runs)", "g2 regular g1 + one line"})
	c.Bound("rename_option_sets", len(c44RenameOpts))
	c.SetRule("all ordered pairs of trees within each sub-space (each closed under entry deletion; W = max total entries over 2 levels); go-git DiffTree multiset vs flattened-map model that is itself replayed against `git diff-tree -r --no-renames --stdin` on every pair; rename detection (default and exact-only) must expand to the same multiset; a case is non-trivial when the trees differ; distinct = multisets of (status, old kind, new kind, depth) plus rename counts")
	c.Assume("git 2.39.5 diff-tree is the reference for the no-rename diff; WHICH delete is paired with which insert by rename detection is heuristic and not compared with git -M; worktree/index noders are exercised by the status properties (C25/C27), not here")

	g, dir := c.InitRepo("c44", "sha1", true)
	for i := range kinds {
		if kinds[i].typ == "blob" {
			kinds[i].id = fHashObject(g, kinds[i].data)
		}
	}
	sp := &c44Space{kinds: kinds, byKey: map[string]int{}}
	addSpace := func(ks []c44Kind, rn, sn []string, w, depth int) []int {
		var members []int
		var lists [][]c44Ent
		if depth == 0 {
			lists = c44Enumerate(ks, rn, sn, w, 3)
		} else {
			lists = c44EnumerateDeep(len(ks), rn, w, depth)
		}
		for _, ents := range lists {
			var conv func(es []c44Ent) []c44Ent // re-index leaf kinds into the full kind list
			conv = func(es []c44Ent) []c44Ent {
				o := make([]c44Ent, len(es))
				for i, e := range es {
					o[i] = e
					if e.leaf >= 0 {
						for k := range kinds {
							if kinds[k].tag == ks[e.leaf].tag {
								o[i].leaf = k
							}
						}
					} else {
						o[i].sub = conv(e.sub)
					}
				}
				return o
			}
			full := conv(ents)
			k := c44Key(full, kinds)
			idx, dup := sp.byKey[k]
			if !dup {
				idx = len(sp.trees)
				sp.byKey[k] = idx
				sp.trees = append(sp.trees, &c44Tree{ents: full, key: k})
			}
			members = append(members, idx)
		}
		return members
	}
	type row struct{ space, i int }
	var rows []row
	var members [][]int
	inSpace := make([]map[int]bool, len(spaces))
	var bdesc []map[string]any
	pairs := 0
	for si, s := range spaces {
		var ks []c44Kind
		var tags []string
		for _, k := range s.kinds {
			ks = append(ks, kinds[k])
			tags = append(tags, kinds[k].tag)
		}
		m := addSpace(ks, s.rn, s.sn, s.w, s.depth)
		members = append(members, m)
		inSpace[si] = map[int]bool{}
		for _, x := range m {
			inSpace[si][x] = true
			rows = append(rows, row{si, x})
		}
		pairs += len(m) * len(m)
		bdesc = append(bdesc, map[string]any{"name": s.name, "max_total_entries": s.w, "kinds": tags, "root_names": s.rn, "sub_names": s.sn, "nesting_levels": map[bool]int{true: 2, false: s.depth}[s.depth == 0], "trees": len(m), "ordered_pairs": len(m) * len(m)})
	}
	c.Bound("sub_spaces", bdesc)
	// build: directories by height (leaf-only directories first), then roots
	type dirNode struct {
		sub    []c44Ent
		height int
	}
	dirs := map[string]*dirNode{}
	var collect func(es []c44Ent) int
	collect = func(es []c44Ent) int {
		h := 1
		for _, e := range es {
			if e.leaf < 0 {
				if ch := collect(e.sub) + 1; ch > h {
					h = ch
				}
			}
		}
		k := c44Key(es, kinds)
		if _, ok := dirs[k]; !ok {
			dirs[k] = &dirNode{es, h}
		}
		return h
	}
	maxH := 0
	for _, t := range sp.trees {
		for _, e := range t.ents {
			if e.leaf < 0 {
				if h := collect(e.sub); h > maxH {
					maxH = h
				}
			}
		}
	}
	dirID := map[string]string{}
	record := func(es []c44Ent) []string {
		var rec []string
		for _, e := range es {
			if e.leaf >= 0 {
				kd := kinds[e.leaf]
				rec = append(rec, fmt.Sprintf("%s %s %s\t%s", kd.mode, kd.typ, kd.id, e.name))
			} else {
				rec = append(rec, fmt.Sprintf("040000 tree %s\t%s", dirID[c44Key(e.sub, kinds)], e.name))
			}
		}
		return rec
	}
	for h := 1; h <= maxH; h++ {
		var keys []string
		for k, d := range dirs {
			if d.height == h {
				keys = append(keys, k)
			}
		}
		sort.Strings(keys)
		var recs [][]string
		for _, k := range keys {
			recs = append(recs, record(dirs[k].sub))
		}
		for i, id := range fMktreeBatch(g, recs) {
			dirID[keys[i]] = id
		}
	}
	var rootRecs [][]string
	for _, t := range sp.trees {
		rootRecs = append(rootRecs, record(t.ents))
	}
	rootIDs := fMktreeBatch(g, rootRecs)
	seen := map[string]string{}
	for i, t := range sp.trees {
		t.id = rootIDs[i]
		if o, dup := seen[t.id]; dup {
			fw.Abort("two enumerated trees have the same id: %s and %s", o, t.key)
		}
		seen[t.id] = t.key
		c44Flatten(t, kinds)
	}
	c.Bound("trees", len(sp.trees))
	c.Bound("ordered_pairs", pairs)
	fPackAll(g, dir)

	objs := fMemObjects(g)
	c.Assume("objects are served to DiffTree from go-git's memory storage loaded with the objects git wrote (the property is about the diff, not the storage)")
	pool := &fStoragePool{objs: objs}
	fails := func(repo storer.EncodedObjectStorer, i, j int, kind string) bool {
		k, _, _ := c44Verdict(repo, sp.trees[i], sp.trees[j])
		return k == kind
	}
	minimise := func(repo storer.EncodedObjectStorer, i, j int, kind string) (int, int) {
		for changed := true; changed; {
			changed = false
			for _, ri := range sp.reductions(sp.trees[i], rootNames, subNames) {
				if fails(repo, ri, j, kind) {
					i, changed = ri, true
					break
				}
			}
			for _, rj := range sp.reductions(sp.trees[j], rootNames, subNames) {
				if fails(repo, i, rj, kind) {
					j, changed = rj, true
					break
				}
			}
			// the same renaming applied to both trees
			for level, names := range [][]string{rootNames, subNames} {
				for fi := 1; fi < len(names); fi++ {
					for ti := 0; ti < fi; ti++ {
						ri := sp.renamed(sp.trees[i], level, names[fi], names[ti], rootNames, subNames)
						rj := sp.renamed(sp.trees[j], level, names[fi], names[ti], rootNames, subNames)
						if ri < 0 || rj < 0 || (ri == i && rj == j) {
							continue
						}
						if fails(repo, ri, rj, kind) {
							i, j, changed = ri, rj, true
						}
					}
				}
			}
		}
		return i, j
	}

	// A nil *Tree stands for "no tree" (object.DiffTree(nil, t) is how the
	// patch of a root commit is computed): it must diff like the empty tree.
	emptyIdx, haveEmpty := sp.byKey[""]
	if !haveEmpty {
		fw.Abort("the empty tree is not in the space")
	}
	c.ParDo(len(sp.trees), 0, func(i int) {
		t := sp.trees[i]
		repo := pool.get()
		defer pool.put(repo)
		for dir := 0; dir < 2; dir++ {
			a, b := sp.trees[emptyIdx], t
			if dir == 1 {
				a, b = t, sp.trees[emptyIdx]
			}
			model := c44ModelDiff(a, b) // the (empty tree, t) pairs are replayed against git below
			var got []string
			errS := ""
			p := fRecover(func() {
				tt, err := object.GetTree(repo, plumbing.NewHash(t.id))
				if err != nil {
					errS = "GetTree: " + err.Error()
					return
				}
				var chs object.Changes
				if dir == 0 {
					chs, err = object.DiffTree(nil, tt)
				} else {
					chs, err = tt.Diff(nil)
				}
				if err != nil {
					errS = "DiffTree with a nil tree: " + err.Error()
					return
				}
				got, _, err = c44Lines(chs, false)
				if err != nil {
					errS = "Action: " + err.Error()
				}
			})
			c.Eval()
			side := []string{"DiffTree(nil, t)", "t.Diff(nil)"}[dir]
			switch {
			case p != "":
				c.Fail("nil tree: panic in "+side, "panic: "+p+" (t = {"+t.key+"})", map[string]any{"tree": t.key, "tree_id": t.id})
			case errS != "":
				c.Fail("nil tree: error in "+side, errS+" (t = {"+t.key+"})", map[string]any{"tree": t.key, "tree_id": t.id})
			case !fEqualStrings(got, model):
				c.Fail("nil tree: "+side+" differs from the diff against the empty tree", fmt.Sprintf("t = {%s}: go-git=%q, git diff-tree against the empty tree=%q", t.key, got, model), map[string]any{"tree": t.key, "tree_id": t.id})
			default:
				if len(model) > 0 {
					c.Class(fmt.Sprintf("nil-tree|%d|%d", dir, len(model)))
				}
			}
		}
	})

	var seenClass sync.Map
	c.ParDo(len(rows), 0, func(ri int) {
		si, i := rows[ri].space, rows[ri].i
		a := sp.trees[i]
		// partners: the sub-space, minus pairs already covered by an earlier one
		var js []int
		for _, j := range members[si] {
			dup := false
			for e := 0; e < si; e++ {
				if inSpace[e][i] && inSpace[e][j] {
					dup = true
				}
			}
			if !dup {
				js = append(js, j)
			}
		}
		n := len(js)
		if n == 0 {
			return
		}
		// git: one diff-tree process for the pairs (a, *)
		var in strings.Builder
		for _, j := range js {
			in.WriteString(a.id + " " + sp.trees[j].id + "\n")
		}
		out := g.MustRunIn([]byte(in.String()), "diff-tree", "-r", "--no-renames", "--raw", "--no-abbrev", "--stdin").S()
		gitDiff := make([][]string, n)
		cur := -1
		for _, l := range strings.Split(out, "\n") {
			if l == "" {
				continue
			}
			if l[0] != ':' {
				cur++
				if cur >= n || l != a.id+" "+sp.trees[js[cur]].id {
					fw.Abort("diff-tree --stdin: unexpected header %q", l)
				}
				continue
			}
			// :old new oldid newid S\tpath
			tab := strings.IndexByte(l, '\t')
			f := strings.Fields(l[1:tab])
			if len(f) != 5 || cur < 0 {
				fw.Abort("diff-tree --stdin: bad line %q", l)
			}
			st := f[4]
			if st == "T" {
				st = "M"
			}
			gitDiff[cur] = append(gitDiff[cur], st+" "+f[0]+" "+f[2]+" "+f[1]+" "+f[3]+"\t"+l[tab+1:])
		}
		if cur != n-1 {
			fw.Abort("diff-tree --stdin: %d headers for %d pairs", cur+1, n)
		}
		repo := pool.get()
		defer pool.put(repo)
		for jx, j := range js {
			b := sp.trees[j]
			model := c44ModelDiff(a, b)
			sort.Strings(gitDiff[jx])
			if !fEqualStrings(model, gitDiff[jx]) {
				fw.Abort("flattened-map model disagrees with git diff-tree on %s => %s: model=%q git=%q", a.key, b.key, model, gitDiff[jx])
			}
			c.TracesValidated(1)
			c.Eval()
			kind, what, obs := c44Verdict(repo, a, b)
			if kind == "" {
				if i != j {
					c.Class(obs)
				}
				if i != j && (i+3*j)%977 == 5 {
					c.Sample(map[string]any{"from": a.key, "to": b.key, "git": model})
				}
				continue
			}
			report := func() {
				mi, mj := minimise(repo, i, j, kind)
				_, mwhat, _ := c44Verdict(repo, sp.trees[mi], sp.trees[mj])
				key := kind + ": {" + sp.trees[mi].key + "} => {" + sp.trees[mj].key + "}"
				if strings.HasPrefix(kind, "rename: ") {
					key = kind // one key per class; a minimal pair is in the replay
				}
				c.Fail(key, mwhat+" (minimised from {"+a.key+"} => {"+b.key+"})", map[string]any{
					"from": a.key, "to": b.key, "from_id": a.id, "to_id": b.id, "what": what,
					"minimal_from": sp.trees[mi].key, "minimal_to": sp.trees[mj].key,
					"minimal_from_id": sp.trees[mi].id, "minimal_to_id": sp.trees[mj].id,
					"git": c44ModelDiff(sp.trees[mi], sp.trees[mj]),
					"how": "git mktree the two trees (kinds: f1/f2 = regular files, fe = empty file, x1 = executable, l1 = symlink, s1 = gitlink), object.DiffTree / DiffTreeWithOptions(DefaultDiffTreeOptions)"})
			}
			if strings.HasPrefix(kind, "rename: ") {
				// thousands of pairs fall in one class: minimise the first, count the rest
				o, _ := seenClass.LoadOrStore(kind, new(sync.Once))
				first := false
				o.(*sync.Once).Do(func() { first = true; report() })
				if !first {
					c.Fail(kind, "", nil)
				}
				continue
			}
			report()
		}
	})
}

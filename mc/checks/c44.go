package checks

// C44: tree diffs are complete and agree with git.
//
// Space: every ORDERED PAIR of trees from a set T that is closed under entry
// deletion: trees of depth <= 2 whose total number of entries (a directory
// counts 1 + its children) is <= W, root names {a, a-b, a.b, a0, ab} (they sort
// around '/': a directory "a" sorts as "a/"), sub-directory names a subset of
// those, leaf kinds {regular c1, regular c2 (similar to c1), empty regular,
// executable c1, symlink c1 (same blob as regular c1), gitlink}; directories may
// be empty.
//
// Oracle:
//   (1) model: diff of the two flattened path->(mode,id) maps. The model is
//       replayed against `git diff-tree -r --no-renames --raw --stdin` on EVERY
//       pair (engine error when they differ), so it is git's answer.
//   (2) go-git object.DiffTree(a,b) as a multiset == model; applying the
//       reported changes to flatten(a) gives flatten(b).
//   (3) with rename detection (default options, and exact-only): expanding each
//       reported rename (Modify whose From.Name != To.Name) into delete(From) +
//       insert(To) gives exactly the multiset of (2): nothing lost, nothing
//       invented, renames pair a real deletion with a real insertion. Which
//       deletion is paired with which insertion is a heuristic and NOT compared
//       with `git diff-tree -M`.

import (
	"context"
	"fmt"
	"sort"
	"strings"
	"sync"

	"github.com/go-git/go-git/v6/plumbing"
	"github.com/go-git/go-git/v6/plumbing/object"
	"github.com/go-git/go-git/v6/plumbing/storer"
	"github.com/go-git/go-git/v6/utils/merkletrie"

	"verifmc/fw"
)

func init() {
	fw.Register(&fw.Check{ID: "C44", Level: "exploration", Run: runC44, QuickBudget: 150, ThoroughBudget: 900})
}

type c44Kind struct{ tag, mode, typ, data, id string }

type c44Ent struct {
	name string
	leaf int      // index into kinds, -1 for a directory
	sub  []c44Ent // children of a directory (leaves only)
}

type c44Tree struct {
	ents []c44Ent
	key  string
	id   string
	flat map[string]string // path -> "mode id"
	tags map[string]string // path -> kind tag
}

type c44Space struct {
	kinds []c44Kind
	trees []*c44Tree
	byKey map[string]int
}

func c44Key(ents []c44Ent, kinds []c44Kind) string {
	var parts []string
	for _, e := range ents {
		if e.leaf >= 0 {
			parts = append(parts, e.name+"="+kinds[e.leaf].tag)
		} else {
			parts = append(parts, e.name+"={"+c44Key(e.sub, kinds)+"}")
		}
	}
	return strings.Join(parts, ",")
}

func c44Weight(ents []c44Ent) int {
	w := 0
	for _, e := range ents {
		w += 1 + len(e.sub)
	}
	return w
}

// c44Enumerate lists every tree with weight <= maxW, <= maxRoot root entries.
func c44Enumerate(kinds []c44Kind, rootNames, subNames []string, maxW, maxRoot int) [][]c44Ent {
	// all sub-directory contents (leaves only), by weight
	var subs [][]c44Ent
	for _, set := range fw.Subsets(len(subNames), maxW-1) {
		dims := make([]int, len(set))
		for i := range dims {
			dims[i] = len(kinds)
		}
		for _, ks := range fw.Product(dims...) {
			var es []c44Ent
			for i, n := range set {
				es = append(es, c44Ent{name: subNames[n], leaf: ks[i]})
			}
			subs = append(subs, es)
		}
	}
	// choices for one root entry: leaf kinds, then directories
	type choice struct {
		leaf int
		sub  []c44Ent
		w    int
	}
	var choices []choice
	for k := range kinds {
		choices = append(choices, choice{leaf: k, w: 1})
	}
	for _, s := range subs {
		choices = append(choices, choice{leaf: -1, sub: s, w: 1 + len(s)})
	}
	var out [][]c44Ent
	for _, set := range fw.Subsets(len(rootNames), maxRoot) {
		var rec func(i int, cur []c44Ent, w int)
		rec = func(i int, cur []c44Ent, w int) {
			if i == len(set) {
				out = append(out, append([]c44Ent{}, cur...))
				return
			}
			for _, ch := range choices {
				if w+ch.w+(len(set)-i-1) > maxW {
					continue
				}
				rec(i+1, append(cur, c44Ent{name: rootNames[set[i]], leaf: ch.leaf, sub: ch.sub}), w+ch.w)
			}
		}
		if len(set) <= maxW {
			rec(0, nil, 0)
		}
	}
	return out
}

func c44Flatten(t *c44Tree, kinds []c44Kind) {
	t.flat = map[string]string{}
	t.tags = map[string]string{}
	for _, e := range t.ents {
		if e.leaf >= 0 {
			t.flat[e.name] = kinds[e.leaf].mode + " " + kinds[e.leaf].id
			t.tags[e.name] = kinds[e.leaf].tag
			continue
		}
		for _, s := range e.sub {
			p := e.name + "/" + s.name
			t.flat[p] = kinds[s.leaf].mode + " " + kinds[s.leaf].id
			t.tags[p] = kinds[s.leaf].tag
		}
	}
}

const c44Zero = "000000 0000000000000000000000000000000000000000"

// c44ModelDiff: sorted change lines "<S> <oldmode> <oldid> <newmode> <newid>\t<path>".
func c44ModelDiff(a, b *c44Tree) []string {
	var out []string
	for p, va := range a.flat {
		if vb, ok := b.flat[p]; ok {
			if va != vb {
				out = append(out, "M "+va+" "+vb+"\t"+p)
			}
		} else {
			out = append(out, "D "+va+" "+c44Zero+"\t"+p)
		}
	}
	for p, vb := range b.flat {
		if _, ok := a.flat[p]; !ok {
			out = append(out, "A "+c44Zero+" "+vb+"\t"+p)
		}
	}
	sort.Strings(out)
	return out
}

func c44EntryStr(e object.ChangeEntry) string {
	return fmt.Sprintf("%06o %s", uint32(e.TreeEntry.Mode), e.TreeEntry.Hash.String())
}

// c44Lines renders go-git changes in the model's format; when expand is true a
// rename is rendered as its delete + insert.
func c44Lines(chs object.Changes, expand bool) (lines []string, renames int, err error) {
	for _, ch := range chs {
		act, e := ch.Action()
		if e != nil {
			return nil, 0, e
		}
		switch act {
		case merkletrie.Insert:
			lines = append(lines, "A "+c44Zero+" "+c44EntryStr(ch.To)+"\t"+ch.To.Name)
		case merkletrie.Delete:
			lines = append(lines, "D "+c44EntryStr(ch.From)+" "+c44Zero+"\t"+ch.From.Name)
		default:
			if ch.From.Name != ch.To.Name {
				renames++
				if expand {
					lines = append(lines, "D "+c44EntryStr(ch.From)+" "+c44Zero+"\t"+ch.From.Name)
					lines = append(lines, "A "+c44Zero+" "+c44EntryStr(ch.To)+"\t"+ch.To.Name)
					continue
				}
				lines = append(lines, "R "+c44EntryStr(ch.From)+" "+c44EntryStr(ch.To)+"\t"+ch.From.Name+"\t"+ch.To.Name)
				continue
			}
			lines = append(lines, "M "+c44EntryStr(ch.From)+" "+c44EntryStr(ch.To)+"\t"+ch.From.Name)
		}
	}
	sort.Strings(lines)
	return lines, renames, nil
}

// c44Apply applies change lines to a flattened tree; "" = fine.
func c44Apply(a map[string]string, lines []string, want map[string]string) string {
	cur := map[string]string{}
	for k, v := range a {
		cur[k] = v
	}
	for _, l := range lines {
		tab := strings.IndexByte(l, '\t')
		f := strings.Fields(l[:tab])
		p := l[tab+1:]
		old, nw := f[1]+" "+f[2], f[3]+" "+f[4]
		switch f[0] {
		case "A":
			if _, ok := cur[p]; ok {
				return "insert of existing path " + p
			}
			cur[p] = nw
		case "D":
			if cur[p] != old {
				return "delete of absent/different entry " + p
			}
			delete(cur, p)
		case "M":
			if cur[p] != old {
				return "modify of absent/different entry " + p
			}
			cur[p] = nw
		}
	}
	if len(cur) != len(want) {
		return "result has a different number of paths"
	}
	for k, v := range want {
		if cur[k] != v {
			return "result differs at " + k
		}
	}
	return ""
}

var c44RenameOpts = []struct {
	name string
	opts *object.DiffTreeOptions
}{
	{"default", object.DefaultDiffTreeOptions},
	{"exact", &object.DiffTreeOptions{DetectRenames: true, RenameScore: 60, OnlyExactRenames: true}},
}

// c44Verdict runs the real code on one pair and returns "" or the failure kind
// plus a description; obs is the observation class.
func c44Verdict(st storer.EncodedObjectStorer, a, b *c44Tree) (kind, what, obs string) {
	model := c44ModelDiff(a, b)
	var plain []string
	var errS string
	renObs := ""
	p := fRecover(func() {
		ta, err := object.GetTree(st, plumbing.NewHash(a.id))
		if err != nil {
			errS = "GetTree: " + err.Error()
			return
		}
		tb, err := object.GetTree(st, plumbing.NewHash(b.id))
		if err != nil {
			errS = "GetTree: " + err.Error()
			return
		}
		chs, err := object.DiffTree(ta, tb)
		if err != nil {
			errS = "DiffTree: " + err.Error()
			return
		}
		plain, _, err = c44Lines(chs, false)
		if err != nil {
			errS = "Action: " + err.Error()
			return
		}
		if !fEqualStrings(plain, model) {
			kind, what = "diff", fmt.Sprintf("DiffTree differs from git diff-tree -r --no-renames: go-git=%q git=%q", plain, model)
			return
		}
		if m := c44Apply(a.flat, plain, b.flat); m != "" {
			kind, what = "apply", "applying the reported changes to the first tree does not give the second: "+m
			return
		}
		for _, ro := range c44RenameOpts {
			// fresh trees: rename detection must not depend on memoised state
			ta2, _ := object.GetTree(st, plumbing.NewHash(a.id))
			tb2, _ := object.GetTree(st, plumbing.NewHash(b.id))
			rch, err := object.DiffTreeWithOptions(context.Background(), ta2, tb2, ro.opts)
			if err != nil {
				errS = "DiffTreeWithOptions(" + ro.name + "): " + err.Error()
				return
			}
			exp, nren, err := c44Lines(rch, true)
			if err != nil {
				errS = "Action: " + err.Error()
				return
			}
			if !fEqualStrings(exp, model) {
				raw, _, _ := c44Lines(rch, false)
				kind = "rename: " + c44RenameClass(exp, model)
				what = fmt.Sprintf("rename detection (%s) loses or invents changes: reported=%q, expanded=%q, without renames=%q", ro.name, raw, exp, model)
				return
			}
			renObs += fmt.Sprintf(" %s:%d", ro.name, nren)
		}
	})
	if p != "" {
		return "panic", "panic: " + p, ""
	}
	if errS != "" {
		return "error", errS, ""
	}
	if kind != "" {
		return kind, what, ""
	}
	// observation class: multiset of (status, old kind, new kind, depth) + renames
	var sig []string
	for _, l := range model {
		tab := strings.IndexByte(l, '\t')
		pth := l[tab+1:]
		sig = append(sig, l[:1]+a.tags[pth]+">"+b.tags[pth]+fmt.Sprint(strings.Count(pth, "/")))
	}
	sort.Strings(sig)
	return "", "", strings.Join(sig, ",") + "|" + renObs
}

// c44RenameClass names the class of a rename-conservation failure by a
// predicate on the input: for each lost / invented change its status and how
// many insertions and deletions of the no-rename diff carry the same blob id
// (0, 1 or 2+) -- the quantities the exact-rename matcher branches on.
func c44RenameClass(expanded, model []string) string {
	count := func(l []string) map[string]int {
		m := map[string]int{}
		for _, x := range l {
			m[x]++
		}
		return m
	}
	ce, cm := count(expanded), count(model)
	blob := func(l string) string {
		f := strings.Fields(l[:strings.IndexByte(l, '\t')])
		if f[0] == "A" {
			return f[4]
		}
		return f[2]
	}
	num := func(st, id string) string {
		n := 0
		for _, l := range model {
			if l[:1] == st && blob(l) == id {
				n++
			}
		}
		if n >= 2 {
			return "2+"
		}
		return fmt.Sprint(n)
	}
	set := map[string]bool{}
	for l, n := range cm {
		if ce[l] < n {
			set["lost "+l[:1]+"(inserts-with-blob="+num("A", blob(l))+",deletes-with-blob="+num("D", blob(l))+")"] = true
		}
	}
	for l, n := range ce {
		if cm[l] < n {
			set["invented "+l[:1]] = true
		}
	}
	var parts []string
	for k := range set {
		parts = append(parts, k)
	}
	sort.Strings(parts)
	return strings.Join(parts, "; ")
}

// c44Reductions lists the indices of trees one reduction step simpler than t:
// an entry removed, a directory replaced by its first child kind, a kind
// lowered, a name lowered to an unused earlier name.
func (sp *c44Space) reductions(t *c44Tree, rootNames, subNames []string) []int {
	var out []int
	add := func(ents []c44Ent) {
		sort.Slice(ents, func(i, j int) bool { return idxOf(rootNames, ents[i].name) < idxOf(rootNames, ents[j].name) })
		if i, ok := sp.byKey[c44Key(ents, sp.kinds)]; ok {
			out = append(out, i)
		}
	}
	clone := func() []c44Ent {
		c := make([]c44Ent, len(t.ents))
		for i, e := range t.ents {
			c[i] = e
			c[i].sub = append([]c44Ent{}, e.sub...)
			if e.leaf < 0 && c[i].sub == nil {
				c[i].sub = []c44Ent{}
			}
		}
		return c
	}
	for i := range t.ents {
		c := clone()
		add(append(c[:i:i], c[i+1:]...))
	}
	for i, e := range t.ents {
		for j := range e.sub {
			c := clone()
			c[i].sub = append(c[i].sub[:j:j], c[i].sub[j+1:]...)
			add(c)
		}
		if e.leaf < 0 {
			c := clone()
			c[i].leaf, c[i].sub = 0, nil
			add(c)
		}
	}
	for i, e := range t.ents {
		for k := 0; k < e.leaf; k++ {
			c := clone()
			c[i].leaf = k
			add(c)
		}
		for j, s := range e.sub {
			for k := 0; k < s.leaf; k++ {
				c := clone()
				c[i].sub[j].leaf = k
				add(c)
			}
		}
	}
	for i, e := range t.ents {
		used := map[string]bool{}
		for _, x := range t.ents {
			used[x.name] = true
		}
		for k := 0; k < idxOf(rootNames, e.name); k++ {
			if !used[rootNames[k]] {
				c := clone()
				c[i].name = rootNames[k]
				add(c)
			}
		}
		for j, s := range e.sub {
			usedS := map[string]bool{}
			for _, x := range e.sub {
				usedS[x.name] = true
			}
			for k := 0; k < idxOf(subNames, s.name); k++ {
				if !usedS[subNames[k]] {
					c := clone()
					c[i].sub[j].name = subNames[k]
					sort.Slice(c[i].sub, func(x, y int) bool { return idxOf(subNames, c[i].sub[x].name) < idxOf(subNames, c[i].sub[y].name) })
					add(c)
				}
			}
		}
	}
	return out
}

// renamed returns the index of t with root (level 0) or sub-directory (level 1)
// name `from` replaced by `to` everywhere, or -1 when `to` is already used at
// that level or the result is outside the space. ok=false means "to in use".
func (sp *c44Space) renamed(t *c44Tree, level int, from, to string, rootNames, subNames []string) int {
	c := make([]c44Ent, len(t.ents))
	for i, e := range t.ents {
		c[i] = e
		if e.leaf < 0 {
			c[i].sub = append([]c44Ent{}, e.sub...)
		}
		if level == 0 {
			if e.name == to {
				return -1
			}
			if e.name == from {
				c[i].name = to
			}
			continue
		}
		for j := range c[i].sub {
			if c[i].sub[j].name == to {
				return -1
			}
			if c[i].sub[j].name == from {
				c[i].sub[j].name = to
			}
		}
		sub := c[i].sub
		sort.Slice(sub, func(x, y int) bool { return idxOf(subNames, sub[x].name) < idxOf(subNames, sub[y].name) })
	}
	sort.Slice(c, func(i, j int) bool { return idxOf(rootNames, c[i].name) < idxOf(rootNames, c[j].name) })
	if i, ok := sp.byKey[c44Key(c, sp.kinds)]; ok {
		return i
	}
	return -1
}

func idxOf(l []string, s string) int {
	for i, x := range l {
		if x == s {
			return i
		}
	}
	return -1
}

func runC44(c *fw.Ctx) {
	// c2 is c1 plus one line: similar enough (>= 60%) for content renames.
	c1 := "alpha\nbravo\ncharlie\ndelta\necho\nfoxtrot\ngolf\nhotel\n"
	c2 := c1 + "india\n"
	kinds := []c44Kind{
		{tag: "f1", mode: "100644", typ: "blob", data: c1},
		{tag: "f2", mode: "100644", typ: "blob", data: c2},
		{tag: "fe", mode: "100644", typ: "blob", data: ""},
		{tag: "x1", mode: "100755", typ: "blob", data: c1},
		{tag: "l1", mode: "120000", typ: "blob", data: c1},
		{tag: "s1", mode: "160000", typ: "commit", id: "1111111111111111111111111111111111111111"},
	}
	rootNames := []string{"a", "a-b", "a.b", "a0", "ab"}
	subNames := []string{"a", "a.b", "ab"}
	// Sub-spaces; all ordered pairs WITHIN each sub-space are checked.
	type subspace struct {
		name   string
		kinds  []int
		rn, sn []string
		w      int
	}
	all := []int{0, 1, 2, 3, 4, 5}
	var spaces []subspace
	if c.Thorough() {
		spaces = []subspace{
			{"W2-full", all, rootNames, subNames, 2},
			{"W3-reduced", []int{0, 1, 3, 4, 5}, []string{"a", "a-b", "a.b", "a0"}, []string{"a", "a.b"}, 3},
		}
	} else {
		spaces = []subspace{
			{"W2", all, []string{"a", "a-b", "a.b", "a0"}, []string{"a", "a.b"}, 2},
			{"W3-reduced", []int{0, 1, 3}, []string{"a", "a.b", "a0"}, []string{"a", "ab"}, 3},
		}
	}
	c.Bound("max_depth", 2)
	c.Bound("max_root_entries", 3)
	c.Bound("leaf_kinds", []string{"f1 regular c1", "f2 regular c2~c1", "fe regular empty", "x1 executable c1", "l1 symlink c1", "s1 gitlink"})
	c.SetRule("all ordered pairs of trees within each sub-space (each closed under entry deletion; W = max total entries over 2 levels); go-git DiffTree multiset vs flattened-map model that is itself replayed against `git diff-tree -r --no-renames --stdin` on every pair; rename detection (default and exact-only) must expand to the same multiset; a case is non-trivial when the trees differ; distinct = multisets of (status, old kind, new kind, depth) plus rename counts")
	c.Assume("git 2.39.5 diff-tree is the reference for the no-rename diff; WHICH delete is paired with which insert by rename detection is heuristic and not compared with git -M; worktree/index noders are exercised by the status properties (C25/C27), not here")

	g, dir := c.InitRepo("c44", "sha1", true)
	for i := range kinds {
		if kinds[i].typ == "blob" {
			kinds[i].id = fHashObject(g, kinds[i].data)
		}
	}
	sp := &c44Space{kinds: kinds, byKey: map[string]int{}}
	addSpace := func(ks []c44Kind, rn, sn []string, w int) []int {
		var members []int
		for _, ents := range c44Enumerate(ks, rn, sn, w, 3) {
			conv := func(es []c44Ent) []c44Ent { // re-index leaf kinds into the full kind list
				o := make([]c44Ent, len(es))
				for i, e := range es {
					o[i] = e
					if e.leaf >= 0 {
						for k := range kinds {
							if kinds[k].tag == ks[e.leaf].tag {
								o[i].leaf = k
							}
						}
					}
				}
				return o
			}
			full := conv(ents)
			for i := range full {
				if full[i].leaf < 0 {
					full[i].sub = conv(full[i].sub)
				}
			}
			k := c44Key(full, kinds)
			idx, dup := sp.byKey[k]
			if !dup {
				idx = len(sp.trees)
				sp.byKey[k] = idx
				sp.trees = append(sp.trees, &c44Tree{ents: full, key: k})
			}
			members = append(members, idx)
		}
		return members
	}
	type row struct{ space, i int }
	var rows []row
	var members [][]int
	inSpace := make([]map[int]bool, len(spaces))
	var bdesc []map[string]any
	pairs := 0
	for si, s := range spaces {
		var ks []c44Kind
		var tags []string
		for _, k := range s.kinds {
			ks = append(ks, kinds[k])
			tags = append(tags, kinds[k].tag)
		}
		m := addSpace(ks, s.rn, s.sn, s.w)
		members = append(members, m)
		inSpace[si] = map[int]bool{}
		for _, x := range m {
			inSpace[si][x] = true
			rows = append(rows, row{si, x})
		}
		pairs += len(m) * len(m)
		bdesc = append(bdesc, map[string]any{"name": s.name, "max_total_entries": s.w, "kinds": tags, "root_names": s.rn, "sub_names": s.sn, "trees": len(m), "ordered_pairs": len(m) * len(m)})
	}
	c.Bound("sub_spaces", bdesc)
	// build: sub-directories first, then roots
	subIdx := map[string]int{}
	var subRecs [][]string
	for _, t := range sp.trees {
		for _, e := range t.ents {
			if e.leaf < 0 {
				k := c44Key(e.sub, kinds)
				if _, ok := subIdx[k]; !ok {
					subIdx[k] = len(subRecs)
					var rec []string
					for _, s := range e.sub {
						kd := kinds[s.leaf]
						rec = append(rec, fmt.Sprintf("%s %s %s\t%s", kd.mode, kd.typ, kd.id, s.name))
					}
					subRecs = append(subRecs, rec)
				}
			}
		}
	}
	subIDs := fMktreeBatch(g, subRecs)
	var rootRecs [][]string
	for _, t := range sp.trees {
		var rec []string
		for _, e := range t.ents {
			if e.leaf >= 0 {
				kd := kinds[e.leaf]
				rec = append(rec, fmt.Sprintf("%s %s %s\t%s", kd.mode, kd.typ, kd.id, e.name))
			} else {
				rec = append(rec, fmt.Sprintf("040000 tree %s\t%s", subIDs[subIdx[c44Key(e.sub, kinds)]], e.name))
			}
		}
		rootRecs = append(rootRecs, rec)
	}
	rootIDs := fMktreeBatch(g, rootRecs)
	seen := map[string]string{}
	for i, t := range sp.trees {
		t.id = rootIDs[i]
		if o, dup := seen[t.id]; dup {
			fw.Abort("two enumerated trees have the same id: %s and %s", o, t.key)
		}
		seen[t.id] = t.key
		c44Flatten(t, kinds)
	}
	c.Bound("trees", len(sp.trees))
	c.Bound("ordered_pairs", pairs)
	fPackAll(g, dir)

	objs := fMemObjects(g)
	c.Assume("objects are served to DiffTree from go-git's memory storage loaded with the objects git wrote (the property is about the diff, not the storage)")
	pool := &fStoragePool{objs: objs}
	fails := func(repo storer.EncodedObjectStorer, i, j int, kind string) bool {
		k, _, _ := c44Verdict(repo, sp.trees[i], sp.trees[j])
		return k == kind
	}
	minimise := func(repo storer.EncodedObjectStorer, i, j int, kind string) (int, int) {
		for changed := true; changed; {
			changed = false
			for _, ri := range sp.reductions(sp.trees[i], rootNames, subNames) {
				if fails(repo, ri, j, kind) {
					i, changed = ri, true
					break
				}
			}
			for _, rj := range sp.reductions(sp.trees[j], rootNames, subNames) {
				if fails(repo, i, rj, kind) {
					j, changed = rj, true
					break
				}
			}
			// the same renaming applied to both trees
			for level, names := range [][]string{rootNames, subNames} {
				for fi := 1; fi < len(names); fi++ {
					for ti := 0; ti < fi; ti++ {
						ri := sp.renamed(sp.trees[i], level, names[fi], names[ti], rootNames, subNames)
						rj := sp.renamed(sp.trees[j], level, names[fi], names[ti], rootNames, subNames)
						if ri < 0 || rj < 0 || (ri == i && rj == j) {
							continue
						}
						if fails(repo, ri, rj, kind) {
							i, j, changed = ri, rj, true
						}
					}
				}
			}
		}
		return i, j
	}

	var seenClass sync.Map
	c.ParDo(len(rows), 0, func(ri int) {
		si, i := rows[ri].space, rows[ri].i
		a := sp.trees[i]
		// partners: the sub-space, minus pairs already covered by an earlier one
		var js []int
		for _, j := range members[si] {
			dup := false
			for e := 0; e < si; e++ {
				if inSpace[e][i] && inSpace[e][j] {
					dup = true
				}
			}
			if !dup {
				js = append(js, j)
			}
		}
		n := len(js)
		if n == 0 {
			return
		}
		// git: one diff-tree process for the pairs (a, *)
		var in strings.Builder
		for _, j := range js {
			in.WriteString(a.id + " " + sp.trees[j].id + "\n")
		}
		out := g.MustRunIn([]byte(in.String()), "diff-tree", "-r", "--no-renames", "--raw", "--no-abbrev", "--stdin").S()
		gitDiff := make([][]string, n)
		cur := -1
		for _, l := range strings.Split(out, "\n") {
			if l == "" {
				continue
			}
			if l[0] != ':' {
				cur++
				if cur >= n || l != a.id+" "+sp.trees[js[cur]].id {
					fw.Abort("diff-tree --stdin: unexpected header %q", l)
				}
				continue
			}
			// :old new oldid newid S\tpath
			tab := strings.IndexByte(l, '\t')
			f := strings.Fields(l[1:tab])
			if len(f) != 5 || cur < 0 {
				fw.Abort("diff-tree --stdin: bad line %q", l)
			}
			st := f[4]
			if st == "T" {
				st = "M"
			}
			gitDiff[cur] = append(gitDiff[cur], st+" "+f[0]+" "+f[2]+" "+f[1]+" "+f[3]+"\t"+l[tab+1:])
		}
		if cur != n-1 {
			fw.Abort("diff-tree --stdin: %d headers for %d pairs", cur+1, n)
		}
		repo := pool.get()
		defer pool.put(repo)
		for jx, j := range js {
			b := sp.trees[j]
			model := c44ModelDiff(a, b)
			sort.Strings(gitDiff[jx])
			if !fEqualStrings(model, gitDiff[jx]) {
				fw.Abort("flattened-map model disagrees with git diff-tree on %s => %s: model=%q git=%q", a.key, b.key, model, gitDiff[jx])
			}
			c.TracesValidated(1)
			c.Eval()
			kind, what, obs := c44Verdict(repo, a, b)
			if kind == "" {
				if i != j {
					c.Class(obs)
				}
				if i != j && (i+3*j)%977 == 5 {
					c.Sample(map[string]any{"from": a.key, "to": b.key, "git": model})
				}
				continue
			}
			report := func() {
				mi, mj := minimise(repo, i, j, kind)
				_, mwhat, _ := c44Verdict(repo, sp.trees[mi], sp.trees[mj])
				key := kind + ": {" + sp.trees[mi].key + "} => {" + sp.trees[mj].key + "}"
				if strings.HasPrefix(kind, "rename: ") {
					key = kind // one key per class; a minimal pair is in the replay
				}
				c.Fail(key, mwhat+" (minimised from {"+a.key+"} => {"+b.key+"})", map[string]any{
					"from": a.key, "to": b.key, "from_id": a.id, "to_id": b.id, "what": what,
					"minimal_from": sp.trees[mi].key, "minimal_to": sp.trees[mj].key,
					"minimal_from_id": sp.trees[mi].id, "minimal_to_id": sp.trees[mj].id,
					"git": c44ModelDiff(sp.trees[mi], sp.trees[mj]),
					"how": "git mktree the two trees (kinds: f1/f2 = regular files, fe = empty file, x1 = executable, l1 = symlink, s1 = gitlink), object.DiffTree / DiffTreeWithOptions(DefaultDiffTreeOptions)"})
			}
			if strings.HasPrefix(kind, "rename: ") {
				// thousands of pairs fall in one class: minimise the first, count the rest
				o, _ := seenClass.LoadOrStore(kind, new(sync.Once))
				first := false
				o.(*sync.Once).Do(func() { first = true; report() })
				if !first {
					c.Fail(kind, "", nil)
				}
				continue
			}
			report()
		}
	})
}

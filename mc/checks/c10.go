package checks

// C10 — pack index lookups agree across MemoryIndex / LazyIndex / mmap
// PackScanner and with a plain map.
//
// States   : entry sets over a colliding 12-hash universe (x two offset/CRC
//            assignments x sha1/sha256) encoded BY GO-GIT (idxfile.Writer +
//            idxfile.Encode + revfile.Encode), plus packs indexed BY GIT with a
//            forced 64-bit offset table (index-pack --index-version=2,N
//            --rev-index).
// Model    : a plain map built from `git show-index` of the very file the
//            readers get (cross-checked with the intended entry set and, for
//            git packs, with `git verify-pack -v`).
// Explored : every query sequence of length L over the whole query alphabet, each
//            on a fresh reader instance, every step compared with the map.
// Malformed: see c10_corrupt.go.

import (
	"bytes"
	"crypto"
	"errors"
	"fmt"
	"io"
	"os"
	"path/filepath"
	"sort"
	"strconv"
	"strings"
	"sync/atomic"
	"time"

	"github.com/go-git/go-billy/v6/osfs"
	"github.com/go-git/go-git/v6/plumbing"
	"github.com/go-git/go-git/v6/plumbing/format/idxfile"
	"github.com/go-git/go-git/v6/plumbing/format/revfile"
	ghash "github.com/go-git/go-git/v6/plumbing/hash"
	"github.com/go-git/go-git/v6/storage/filesystem/mmap"
	"github.com/go-git/go-git/v6/x/fdpool"

	"verifmc/fw"
)

func init() {
	fw.Register(&fw.Check{ID: "C10", Level: "model_checking", Run: runC10, QuickBudget: 150, ThoroughBudget: 1500})
}

type c10Entry struct {
	H   string // raw hash bytes
	Off uint64
	CRC uint32
}

func (e c10Entry) String() string { return fmt.Sprintf("%x@%d/%08x", e.H, e.Off, e.CRC) }

const (
	c10Contains = iota
	c10MayContain
	c10FindOffset
	c10FindCRC
	c10FindHash
	c10Prefix
	c10Entries
	c10ByOffset
	c10Count
)

var c10KindName = []string{"Contains", "MayContain", "FindOffset", "FindCRC32", "FindHash", "EntriesWithPrefix", "Entries", "EntriesByOffset", "Count"}

type c10Query struct {
	Kind int
	H    string // hash bytes, or prefix bytes
	Off  int64
}

func (q c10Query) String() string {
	switch q.Kind {
	case c10FindHash:
		return fmt.Sprintf("FindHash(%d)", q.Off)
	case c10Entries, c10ByOffset, c10Count:
		return c10KindName[q.Kind] + "()"
	}
	return fmt.Sprintf("%s(%x)", c10KindName[q.Kind], q.H)
}

// answer states
const (
	c10OK = iota
	c10NotFound
	c10Rejected
	c10Panic
)

type c10Ans struct {
	St   int
	B    bool
	N    uint64
	H    string
	Ents []c10Entry
	Msg  string
}

func (a c10Ans) String() string {
	switch a.St {
	case c10NotFound:
		return "not-found"
	case c10Rejected:
		return fmt.Sprintf("error(%s) after %v", a.Msg, a.Ents)
	case c10Panic:
		return "PANIC " + a.Msg
	}
	return fmt.Sprintf("ok{b=%v n=%d h=%x ents=%v}", a.B, a.N, a.H, a.Ents)
}

func c10SameEnts(a, b []c10Entry) bool {
	if len(a) != len(b) {
		return false
	}
	for i := range a {
		if a[i] != b[i] {
			return false
		}
	}
	return true
}

// ---------------------------------------------------------------- the model

type c10Model struct {
	hs    int
	ents  []c10Entry // sorted by hash
	byOff []c10Entry // sorted by offset
	byH   map[string]int
	byO   map[uint64]int
	first [256]bool
}

func c10NewModel(hs int, ents []c10Entry) *c10Model {
	m := &c10Model{hs: hs, byH: map[string]int{}, byO: map[uint64]int{}}
	m.ents = append(m.ents, ents...)
	sort.Slice(m.ents, func(i, j int) bool { return m.ents[i].H < m.ents[j].H })
	m.byOff = append(m.byOff, ents...)
	sort.Slice(m.byOff, func(i, j int) bool { return m.byOff[i].Off < m.byOff[j].Off })
	for i, e := range m.ents {
		m.byH[e.H] = i
		m.byO[e.Off] = i
		m.first[e.H[0]] = true
	}
	return m
}

func (m *c10Model) answer(q c10Query) c10Ans {
	switch q.Kind {
	case c10Contains, c10MayContain:
		_, ok := m.byH[q.H]
		return c10Ans{B: ok}
	case c10FindOffset:
		if i, ok := m.byH[q.H]; ok {
			return c10Ans{N: m.ents[i].Off}
		}
		return c10Ans{St: c10NotFound}
	case c10FindCRC:
		if i, ok := m.byH[q.H]; ok {
			return c10Ans{N: uint64(m.ents[i].CRC)}
		}
		return c10Ans{St: c10NotFound}
	case c10FindHash:
		if q.Off >= 0 {
			if i, ok := m.byO[uint64(q.Off)]; ok {
				return c10Ans{H: m.ents[i].H}
			}
		}
		return c10Ans{St: c10NotFound}
	case c10Prefix:
		var out []c10Entry
		for _, e := range m.ents {
			if strings.HasPrefix(e.H, q.H) {
				out = append(out, e)
			}
		}
		return c10Ans{Ents: out}
	case c10Entries:
		return c10Ans{Ents: append([]c10Entry(nil), m.ents...)}
	case c10ByOffset:
		return c10Ans{Ents: append([]c10Entry(nil), m.byOff...)}
	case c10Count:
		return c10Ans{N: uint64(len(m.ents))}
	}
	panic("bad query kind")
}

// c10Agree compares a real answer with the model's on a VALID file.
func c10Agree(q c10Query, got, want c10Ans) (ok bool, kind string) {
	if got.St == c10Panic {
		return false, "panic"
	}
	if q.Kind == c10MayContain {
		// contract: false is authoritative; true only means "ask Contains".
		if got.St != c10OK {
			return false, "rejected"
		}
		if want.B && !got.B {
			return false, "missing"
		}
		return true, ""
	}
	if got.St == c10Rejected {
		return false, "rejected"
	}
	if got.St != want.St {
		if got.St == c10NotFound {
			return false, "missing"
		}
		return false, "phantom"
	}
	if got.St == c10NotFound {
		return true, ""
	}
	if got.B != want.B {
		if want.B {
			return false, "missing"
		}
		return false, "phantom"
	}
	if got.N != want.N || got.H != want.H {
		return false, "wrong-value"
	}
	if !c10SameEnts(got.Ents, want.Ents) {
		return false, "wrong-iteration"
	}
	return true, ""
}

// ---------------------------------------------------------------- readers

type c10Reader interface {
	do(q c10Query) c10Ans
	close()
}

const c10IterCap = 4096

type c10IdxReader struct {
	ix     idxfile.Index
	closer func()
}

func c10Hash(b string) plumbing.Hash {
	h, ok := plumbing.FromBytes([]byte(b))
	if !ok {
		fw.Abort("bad hash length %d", len(b))
	}
	return h
}

func c10ErrAns(err error, notFound ...error) c10Ans {
	for _, nf := range notFound {
		if errors.Is(err, nf) {
			return c10Ans{St: c10NotFound}
		}
	}
	return c10Ans{St: c10Rejected, Msg: err.Error()}
}

func c10Drain(it idxfile.EntryIter, err error) c10Ans {
	if err != nil {
		return c10ErrAns(err)
	}
	defer it.Close()
	var out []c10Entry
	for {
		e, err := it.Next()
		if err == io.EOF {
			return c10Ans{Ents: out}
		}
		if err != nil {
			return c10Ans{St: c10Rejected, Msg: err.Error(), Ents: out}
		}
		if e == nil {
			return c10Ans{St: c10Rejected, Msg: "nil entry with nil error", Ents: out}
		}
		out = append(out, c10Entry{string(e.Hash.Bytes()), e.Offset, e.CRC32})
		if len(out) > c10IterCap {
			return c10Ans{St: c10Rejected, Msg: "iteration does not end", Ents: out[:8]}
		}
	}
}

func (r *c10IdxReader) do(q c10Query) (a c10Ans) {
	if p, what := ccGuard(func() { a = r.do1(q) }); p {
		return c10Ans{St: c10Panic, Msg: what}
	}
	return a
}

func (r *c10IdxReader) do1(q c10Query) c10Ans {
	nf := plumbing.ErrObjectNotFound
	switch q.Kind {
	case c10Contains:
		b, err := r.ix.Contains(c10Hash(q.H))
		if err != nil {
			return c10ErrAns(err, nf)
		}
		return c10Ans{B: b}
	case c10MayContain:
		return c10Ans{B: r.ix.MayContain(c10Hash(q.H))}
	case c10FindOffset:
		o, err := r.ix.FindOffset(c10Hash(q.H))
		if err != nil {
			return c10ErrAns(err, nf)
		}
		return c10Ans{N: uint64(o)}
	case c10FindCRC:
		v, err := r.ix.FindCRC32(c10Hash(q.H))
		if err != nil {
			return c10ErrAns(err, nf)
		}
		return c10Ans{N: uint64(v)}
	case c10FindHash:
		h, err := r.ix.FindHash(q.Off)
		if err != nil {
			return c10ErrAns(err, nf)
		}
		return c10Ans{H: string(h.Bytes())}
	case c10Prefix:
		return c10Drain(r.ix.EntriesWithPrefix([]byte(q.H)))
	case c10Entries:
		return c10Drain(r.ix.Entries())
	case c10ByOffset:
		return c10Drain(r.ix.EntriesByOffset())
	case c10Count:
		n, err := r.ix.Count()
		if err != nil {
			return c10ErrAns(err)
		}
		return c10Ans{N: uint64(n)}
	}
	panic("bad query kind")
}

func (r *c10IdxReader) close() {
	ccGuard(func() { r.ix.Close() })
	if r.closer != nil {
		r.closer()
	}
}

type c10MmapReader struct{ s *mmap.PackScanner }

func (r *c10MmapReader) do(q c10Query) (a c10Ans) {
	if p, what := ccGuard(func() { a = r.do1(q) }); p {
		return c10Ans{St: c10Panic, Msg: what}
	}
	return a
}

func (r *c10MmapReader) do1(q c10Query) c10Ans {
	switch q.Kind {
	case c10Contains:
		_, err := r.s.FindOffset(c10Hash(q.H))
		if err != nil {
			a := c10ErrAns(err, mmap.ErrObjectNotFound, plumbing.ErrObjectNotFound)
			if a.St == c10NotFound {
				return c10Ans{B: false}
			}
			return a
		}
		return c10Ans{B: true}
	case c10FindOffset:
		o, err := r.s.FindOffset(c10Hash(q.H))
		if err != nil {
			return c10ErrAns(err, mmap.ErrObjectNotFound, plumbing.ErrObjectNotFound)
		}
		return c10Ans{N: o}
	case c10FindHash:
		h, err := r.s.FindHash(uint64(q.Off))
		if err != nil {
			return c10ErrAns(err, mmap.ErrObjectNotFound, plumbing.ErrObjectNotFound)
		}
		return c10Ans{H: string(h.Bytes())}
	}
	panic("query not supported by the mmap scanner")
}

func (r *c10MmapReader) close() { ccGuard(func() { r.s.Close() }) }

// c10Files is what a reader is opened on.
type c10Files struct {
	hs             int
	idx, rev, pack []byte
	packSum        string
	dir            string // directory holding p.pack/p.idx/p.rev for the mmap scanner ("" = not written)
}

type c10Impl struct {
	name     string
	open     func(f *c10Files) (c10Reader, error)
	supports func(q c10Query) bool
}

func c10All(c10Query) bool { return true }

func c10CryptoHash(hs int) crypto.Hash {
	if hs == 32 {
		return crypto.SHA256
	}
	return crypto.SHA1
}

func c10OpenMemory(f *c10Files) (r c10Reader, err error) {
	if p, what := ccGuard(func() {
		ix := idxfile.NewMemoryIndex(f.hs)
		err = idxfile.NewDecoder(ccNewMemInput(f.idx), ghash.New(c10CryptoHash(f.hs))).Decode(ix)
		if err == nil {
			r = &c10IdxReader{ix: ix}
		}
	}); p {
		return nil, errors.New("PANIC " + what)
	}
	return r, err
}

func c10OpenLazy(pool bool) func(f *c10Files) (c10Reader, error) {
	return func(f *c10Files) (r c10Reader, err error) {
		if p, what := ccGuard(func() {
			var pl *fdpool.Pool
			if pool {
				pl = fdpool.New(1)
			}
			openIdx := func() (idxfile.ReadAtCloser, error) { return &ccMemFile{data: f.idx}, nil }
			openRev := func() (idxfile.ReadAtCloser, error) { return &ccMemFile{data: f.rev}, nil }
			var ix *idxfile.LazyIndex
			ix, err = idxfile.NewLazyIndexWithPool(openIdx, openRev, c10Hash(f.packSum), pl)
			if err == nil {
				r = &c10IdxReader{ix: ix}
			}
		}); p {
			return nil, errors.New("PANIC " + what)
		}
		return r, err
	}
}

func (f *c10Files) write(dir string) {
	f.dir = dir
	for n, b := range map[string][]byte{"p.pack": f.pack, "p.idx": f.idx, "p.rev": f.rev} {
		if err := os.WriteFile(filepath.Join(dir, n), b, 0o644); err != nil {
			fw.Abort("write %s: %v", n, err)
		}
	}
}

func c10OpenMmap(f *c10Files) (r c10Reader, err error) {
	if f.dir == "" {
		fw.Abort("mmap reader needs files on disk")
	}
	if p, what := ccGuard(func() {
		fs := osfs.New(f.dir)
		pf, e1 := fs.Open("p.pack")
		xf, e2 := fs.Open("p.idx")
		rf, e3 := fs.Open("p.rev")
		if e1 != nil || e2 != nil || e3 != nil {
			fw.Abort("open scanner files: %v %v %v", e1, e2, e3)
		}
		var s *mmap.PackScanner
		s, err = mmap.NewPackScanner(f.hs, pf, xf, rf)
		if err == nil {
			r = &c10MmapReader{s}
		} else {
			// the scanner closes what it mapped; close the rest (double close is harmless)
			pf.Close()
			xf.Close()
			rf.Close()
		}
	}); p {
		return nil, errors.New("PANIC " + what)
	}
	return r, err
}

func c10MmapSupports(q c10Query) bool {
	switch q.Kind {
	case c10Contains, c10FindOffset:
		return true
	case c10FindHash:
		return q.Off >= 0
	}
	return false
}

var c10Impls = []c10Impl{
	{"memory", c10OpenMemory, c10All},
	{"lazy", c10OpenLazy(false), c10All},
	{"lazy+pool1", c10OpenLazy(true), c10All},
	{"mmap", c10OpenMmap, c10MmapSupports},
}

// ---------------------------------------------------------------- states

var c10SynthOffsets = []uint64{12, 1<<31 - 1, 1 << 31, 1<<32 + 5, 1<<31 + 1, 1<<32 - 1, 1 << 32, 100, 1 << 40, 1<<63 - 1, 1 << 20, 13}
var c10SynthCRCs = []uint32{0, 0xffffffff, 1, 0x80000000, 0x7fffffff, 0xdeadbeef, 0, 0xffffffff, 2, 3, 0x01020304, 0xfffffffe}

// c10Universe returns 12 hashes chosen to collide: first bytes 00 and ff, same
// first byte / first 2 / first 4 / first hs-1 bytes, adjacent buckets.
func c10Universe(hs int) []string {
	mk := func(fill byte, head ...byte) string {
		b := bytes.Repeat([]byte{fill}, hs)
		copy(b, head)
		return string(b)
	}
	tail := func(s string, last byte) string {
		b := []byte(s)
		b[hs-1] = last
		return string(b)
	}
	base := mk(0x00, 0xab, 0xcd, 0x00, 0x00)
	return []string{
		tail(mk(0x00), 0x01),               // 0: 00 … 01 (smallest non-zero)
		mk(0xff, 0x00),                     // 1: 00 ff ff …
		mk(0xff),                           // 2: ff … ff (largest)
		mk(0x00, 0xff),                     // 3: ff 00 00 …
		tail(base, 0x10),                   // 4: ab cd 00 00 … 10
		tail(base, 0x11),                   // 5: same first hs-1 bytes as 4
		mk(0x00, 0xab, 0xcd, 0x00, 0x00, 1), // 6: same first 4 bytes as 4
		mk(0x00, 0xab, 0xcd, 0x7f),         // 7: same first 2 bytes
		mk(0x00, 0xab, 0x00),               // 8: same first byte
		mk(0xff, 0xab),                     // 9: ab ff ff …
		mk(0x00, 0xac),                     // 10: adjacent bucket
		mk(0xff, 0x7f),                     // 11: 7f ff …
	}
}

// c10Assign gives universe hash i its (offset, crc) under assignment a.
func c10Assign(a, i int) (uint64, uint32) {
	if a == 0 {
		return c10SynthOffsets[i], c10SynthCRCs[i]
	}
	j := (i*7 + 3) % 12
	return c10SynthOffsets[j], c10SynthCRCs[(j+1)%12]
}

// c10Representable: an idx v2 file can hold at most n-1 offsets >= 2^31 (the
// first object of a pack sits at offset 12; git's load_idx size formula
// max = min + (n-1)*8 encodes exactly this and go-git's decoder mirrors it).
func c10Representable(assign int, subset []int) bool {
	big := 0
	for _, i := range subset {
		if o, _ := c10Assign(assign, i); o >= 1<<31 {
			big++
		}
	}
	return big == 0 || big < len(subset)
}

type c10State struct {
	label    string
	files    c10Files
	model    *c10Model
	universe []string
	offs     []int64
	// for synthetic states: how to rebuild a sub-state (minimisation)
	synth  bool
	broken bool
	assign int
	subset []int
}

var c10PackSumByte = byte(0x5a)

// c10Encode builds idx+rev bytes for the entries with go-git's own writer/encoders.
func c10Encode(hs int, ents []c10Entry) (idx, rev []byte, packSum string, err error) {
	packSum = string(bytes.Repeat([]byte{c10PackSumByte}, hs))
	if p, what := ccGuard(func() {
		w := new(idxfile.Writer)
		if err = w.OnHeader(uint32(len(ents))); err != nil {
			return
		}
		// feed in pack (offset) order, the way a pack parser would
		byOff := append([]c10Entry(nil), ents...)
		sort.Slice(byOff, func(i, j int) bool { return byOff[i].Off < byOff[j].Off })
		for _, e := range byOff {
			w.Add(c10Hash(e.H), e.Off, e.CRC)
		}
		if err = w.OnFooter(c10Hash(packSum)); err != nil {
			return
		}
		var mi *idxfile.MemoryIndex
		if mi, err = w.Index(); err != nil {
			return
		}
		var ib, rb bytes.Buffer
		if err = idxfile.Encode(&ib, ghash.New(c10CryptoHash(hs)), mi); err != nil {
			return
		}
		if err = revfile.Encode(&rb, ghash.New(c10CryptoHash(hs)), mi); err != nil {
			return
		}
		idx, rev = ib.Bytes(), rb.Bytes()
	}); p {
		err = errors.New("PANIC " + what)
	}
	return
}

// c10ExpectedRev is the rev v1 file the format prescribes for the table.
func c10ExpectedRev(m *c10Model, packSum string) []byte {
	b := []byte{'R', 'I', 'D', 'X', 0, 0, 0, 1, 0, 0, 0, 1}
	if m.hs == 32 {
		b[11] = 2
	}
	for _, e := range m.byOff {
		p := uint32(m.byH[e.H])
		b = append(b, byte(p>>24), byte(p>>16), byte(p>>8), byte(p))
	}
	b = append(b, packSum...)
	h := c10CryptoHash(m.hs).New()
	h.Write(b)
	return h.Sum(b)
}

func c10DummyPack(hs, n int) []byte {
	b := []byte{'P', 'A', 'C', 'K', 0, 0, 0, 2, byte(n >> 24), byte(n >> 16), byte(n >> 8), byte(n)}
	return append(b, bytes.Repeat([]byte{c10PackSumByte}, hs)...)
}

func c10SynthEntries(hs, assign int, subset []int) []c10Entry {
	u := c10Universe(hs)
	var ents []c10Entry
	for _, i := range subset {
		o, crc := c10Assign(assign, i)
		ents = append(ents, c10Entry{u[i], o, crc})
	}
	return ents
}

func c10ProbeOffsets(present []uint64) []int64 {
	seen := map[int64]bool{}
	var out []int64
	add := func(v int64) {
		if !seen[v] {
			seen[v] = true
			out = append(out, v)
		}
	}
	for _, o := range present {
		add(int64(o))
	}
	for _, o := range []int64{0, 11, 14, 1<<31 + 2, 1<<63 - 2, -1} {
		add(o)
	}
	return out
}

// c10ShowIndex parses `git show-index` (v2 format: "<offset> <hex> (<crc>)").
func c10ShowIndex(g *fw.Git, hs int, idx []byte) ([]c10Entry, error) {
	args := []string{"show-index"}
	if hs == 32 {
		args = append(args, "--object-format=sha256")
	}
	r := g.RunIn(idx, args...)
	if !r.OK() {
		return nil, fmt.Errorf("git show-index failed (%d): %s", r.Code, bytes.TrimSpace(r.Err))
	}
	var out []c10Entry
	for _, l := range strings.Split(strings.TrimSpace(string(r.Out)), "\n") {
		if l == "" {
			continue
		}
		f := strings.Fields(l)
		if len(f) != 3 {
			return nil, fmt.Errorf("show-index line %q", l)
		}
		off, e1 := strconv.ParseUint(f[0], 10, 64)
		hb := make([]byte, hs)
		_, e2 := fmt.Sscanf(f[1], "%x", &hb)
		crc, e3 := strconv.ParseUint(strings.Trim(f[2], "()"), 16, 32)
		if e1 != nil || e2 != nil || e3 != nil || len(hb) != hs {
			return nil, fmt.Errorf("show-index line %q", l)
		}
		out = append(out, c10Entry{string(hb), off, uint32(crc)})
	}
	return out, nil
}

// c10BuildSynth encodes a synthetic state. A go-git failure to encode is
// returned as err (a property violation, not an engine error).
func c10BuildSynth(hs, assign int, subset []int) (*c10State, error) {
	ents := c10SynthEntries(hs, assign, subset)
	idx, rev, ps, err := c10Encode(hs, ents)
	if err != nil {
		return nil, err
	}
	st := &c10State{
		label:    fmt.Sprintf("synth hs=%d assign=%d subset=%v", hs, assign, subset),
		files:    c10Files{hs: hs, idx: idx, rev: rev, pack: c10DummyPack(hs, len(ents)), packSum: ps},
		model:    c10NewModel(hs, ents),
		universe: c10Universe(hs),
		offs:     c10ProbeOffsets(c10SynthOffsets),
		synth:    true, assign: assign, subset: subset,
	}
	return st, nil
}

// c10Alphabet lists the queries. reduced drops the probes that only repeat a
// shape (used for the deeper sequence bound).
func c10Alphabet(hs int, universe []string, offs []int64, reduced bool) []c10Query {
	var qs []c10Query
	for _, h := range universe {
		qs = append(qs, c10Query{Kind: c10FindOffset, H: h}, c10Query{Kind: c10FindCRC, H: h})
		if !reduced {
			qs = append(qs, c10Query{Kind: c10Contains, H: h}, c10Query{Kind: c10MayContain, H: h})
		}
	}
	for _, o := range offs {
		if reduced && (o == 11 || o == 14 || o == 1<<63-2 || o == -1) {
			continue
		}
		qs = append(qs, c10Query{Kind: c10FindHash, Off: o})
	}
	seen := map[string]bool{}
	addP := func(p string) {
		if !seen[p] {
			seen[p] = true
			qs = append(qs, c10Query{Kind: c10Prefix, H: p})
		}
	}
	if reduced {
		addP("")
		if len(universe) > 4 {
			addP(universe[4][:1])
			addP(universe[4][:2])
			addP(universe[4][:hs-1])
		}
	} else {
		for _, h := range universe {
			for l := 0; l <= 3; l++ {
				addP(h[:l])
			}
		}
		if len(universe) > 4 {
			addP(universe[4][:hs-1])
			addP(universe[4])
			addP(universe[4] + "\x00") // longer than a hash: matches nothing
		}
		addP("\x01")         // empty bucket
		addP("\xab\xce")     // inside a used bucket, past every name
		addP("\xab\xcd\xff") // between names
	}
	qs = append(qs, c10Query{Kind: c10Entries}, c10Query{Kind: c10ByOffset})
	if !reduced {
		qs = append(qs, c10Query{Kind: c10Count})
	}
	return qs
}

// c10CoreAlphabet is the state-dependent alphabet of the deepest pass: every
// question about the present entries, two absent hashes (a neighbour sharing a
// first byte if there is one, and one in another bucket), two absent offsets.
func c10CoreAlphabet(st *c10State) []c10Query {
	var hs []string
	firsts := map[byte]bool{}
	for _, e := range st.model.ents {
		hs = append(hs, e.H)
		firsts[e.H[0]] = true
	}
	var near, far string
	for _, u := range st.universe {
		if _, ok := st.model.byH[u]; ok {
			continue
		}
		if firsts[u[0]] && near == "" {
			near = u
		} else if !firsts[u[0]] && far == "" {
			far = u
		}
	}
	for _, x := range []string{near, far} {
		if x != "" {
			hs = append(hs, x)
		}
	}
	var qs []c10Query
	for _, h := range hs {
		qs = append(qs, c10Query{Kind: c10Contains, H: h}, c10Query{Kind: c10FindOffset, H: h}, c10Query{Kind: c10FindCRC, H: h})
	}
	for _, e := range st.model.ents {
		qs = append(qs, c10Query{Kind: c10FindHash, Off: int64(e.Off)})
	}
	qs = append(qs, c10Query{Kind: c10FindHash, Off: 0}, c10Query{Kind: c10FindHash, Off: 1<<31 + 2})
	qs = append(qs, c10Query{Kind: c10Prefix, H: ""})
	if len(st.model.ents) > 0 {
		qs = append(qs, c10Query{Kind: c10Prefix, H: st.model.ents[0].H[:1]}, c10Query{Kind: c10Prefix, H: st.model.ents[0].H[:2]})
	}
	return append(qs, c10Query{Kind: c10Entries}, c10Query{Kind: c10ByOffset})
}

// ---------------------------------------------------------------- exploration

type c10Mismatch struct {
	step      int
	kind      string
	got, want c10Ans
}

// c10RunSeq runs one query sequence on a fresh reader; returns the first mismatch.
func c10RunSeq(im *c10Impl, st *c10State, seq []c10Query) (mm *c10Mismatch, steps int) {
	r, err := im.open(&st.files)
	if err != nil {
		return &c10Mismatch{step: -1, kind: "open-rejected", got: c10Ans{St: c10Rejected, Msg: err.Error()}}, 0
	}
	defer r.close()
	for i, q := range seq {
		got := r.do(q)
		steps++
		want := st.model.answer(q)
		if ok, kind := c10Agree(q, got, want); !ok {
			return &c10Mismatch{step: i, kind: kind, got: got, want: want}, steps
		}
	}
	return nil, steps
}

func c10SeqKinds(seq []c10Query) string {
	var s []string
	for _, q := range seq {
		s = append(s, c10KindName[q.Kind])
	}
	return strings.Join(s, ">")
}

// c10Report minimises (sequence, then entry set) and files the violation.
func c10Report(c *fw.Ctx, im *c10Impl, st *c10State, seq []c10Query, mm *c10Mismatch, scratch string) {
	kind := mm.kind
	cur := st
	failsSeq := func(s []c10Query) bool {
		m, _ := c10RunSeq(im, cur, s)
		return m != nil && m.kind == kind
	}
	minSeq := seq
	if kind != "open-rejected" {
		minSeq = fw.MinSeq(seq[:mm.step+1], nil, failsSeq)
	} else {
		minSeq = nil
	}
	flags := ""
	n := len(st.model.ents)
	minSubset := st.subset
	if st.synth {
		build := func(sub []int, hs int) *c10State {
			s2, err := c10BuildSynth(hs, st.assign, sub)
			if err != nil {
				return nil
			}
			if im.name == "mmap" {
				d := filepath.Join(scratch, "min")
				os.MkdirAll(d, 0o755)
				s2.files.write(d)
			}
			return s2
		}
		minSubset = fw.MinSeq(st.subset, nil, func(sub []int) bool {
			s2 := build(sub, st.files.hs)
			if s2 == nil {
				return false
			}
			m, _ := c10RunSeq(im, s2, minSeq)
			return m != nil && m.kind == kind
		})
		n = len(minSubset)
		big := false
		for _, i := range minSubset {
			if o, _ := c10Assign(st.assign, i); o >= 1<<31 {
				big = true
			}
		}
		if big {
			flags += "/o64"
		}
		// does it depend on the hash size?
		other := 52 - st.files.hs
		if s2 := build(minSubset, other); s2 != nil {
			var q2 []c10Query
			u1, u2 := c10Universe(st.files.hs), c10Universe(other)
			for _, q := range minSeq { // translate the hashes/prefixes to the other universe
				nq := q
				for i := range u1 {
					if q.H == u1[i] {
						nq.H = u2[i]
					}
				}
				q2 = append(q2, nq)
			}
			if m, _ := c10RunSeq(im, s2, q2); m == nil || m.kind != kind {
				flags += fmt.Sprintf("/sha%d-only", map[int]int{20: 1, 32: 256}[st.files.hs])
			}
		}
		if s3 := build(minSubset, st.files.hs); s3 != nil {
			cur = s3
		}
	}
	key := fmt.Sprintf("%s/%s/%s/n=%d%s", im.name, c10SeqKinds(minSeq), kind, n, flags)
	if minSeq == nil {
		key = fmt.Sprintf("%s/open/%s/n=%d%s", im.name, kind, n, flags)
	}
	var qs []string
	for _, q := range minSeq {
		qs = append(qs, q.String())
	}
	var es []string
	for _, e := range cur.model.ents {
		es = append(es, e.String())
	}
	c.Fail(key, fmt.Sprintf("%s on a valid index (%s): sequence %v: got %s, map says %s", im.name, cur.label, qs, mm.got, mm.want),
		map[string]any{"impl": im.name, "state": cur.label, "entries": es, "sequence": qs, "got": mm.got.String(), "want": mm.want.String(),
			"original_state": st.label, "idx_hex": fw.Hex(cur.files.idx), "rev_hex": fw.Hex(cur.files.rev)})
}

// c10Explore runs every query sequence of length exactly L (all shorter ones
// are its prefixes and are compared step by step). MemoryIndex and LazyIndex
// get a fresh reader per sequence. The mmap scanner (an mmap/munmap of three
// files per instance) gets a fresh reader per sequence PREFIX of length L-1 and
// the last position is iterated on that instance.
func c10Explore(c *fw.Ctx, im *c10Impl, st *c10State, alpha []c10Query, L int, scratch string) {
	var qs []c10Query
	for _, q := range alpha {
		if im.supports(q) {
			qs = append(qs, q)
		}
	}
	if len(qs) == 0 {
		return
	}
	want := make([]c10Ans, len(qs))
	for i, q := range qs {
		want[i] = st.model.answer(q)
	}
	share := im.name == "mmap"
	reported := map[string]bool{}
	var trans int
	step := func(r c10Reader, seq []int, i int) bool { // false = mismatch
		q := qs[seq[i]]
		got := r.do(q)
		trans++
		if ok, kind := c10Agree(q, got, want[seq[i]]); !ok {
			full := make([]c10Query, i+1)
			for k := 0; k <= i; k++ {
				full[k] = qs[seq[k]]
			}
			sig := kind + c10SeqKinds(full)
			if !reported[sig] {
				reported[sig] = true
				c10Report(c, im, st, full, &c10Mismatch{step: i, kind: kind, got: got, want: want[seq[i]]}, scratch)
			}
			return false
		}
		return true
	}
	P := L
	if share {
		P = L - 1
	}
	idx := make([]int, P)
	seq := make([]int, L)
	for {
		r, err := im.open(&st.files)
		if err != nil {
			c10Report(c, im, st, nil, &c10Mismatch{step: -1, kind: "open-rejected", got: c10Ans{St: c10Rejected, Msg: err.Error()}}, scratch)
			break
		}
		copy(seq, idx)
		ok := true
		for i := 0; i < P && ok; i++ {
			ok = step(r, seq, i)
		}
		if share {
			for last := 0; last < len(qs) && ok; last++ {
				seq[L-1] = last
				c.Eval()
				if !step(r, seq, L-1) {
					break
				}
			}
		} else {
			c.Eval()
		}
		r.close()
		k := P - 1
		for k >= 0 {
			idx[k]++
			if idx[k] < len(qs) {
				break
			}
			idx[k] = 0
			k--
		}
		if k < 0 {
			break
		}
	}
	c.Transitions(trans)
}

func c10Phase(c *fw.Ctx, name string) {
	if os.Getenv("C10_DEBUG") != "" {
		fmt.Fprintf(os.Stderr, "C10 phase %s done at %.1fs\n", name, c.Elapsed().Seconds())
	}
}

func c10StateClass(st *c10State) string {
	n := len(st.model.ents)
	big, buckets, shared := 0, map[byte]int{}, 0
	for i, e := range st.model.ents {
		if e.Off >= 1<<31 {
			big++
		}
		buckets[e.H[0]]++
		if i > 0 && e.H[:2] == st.model.ents[i-1].H[:2] {
			shared++
		}
	}
	return fmt.Sprintf("hs%d n%d big%d buckets%d shared%d synth%v", st.files.hs, n, big, len(buckets), shared, st.synth)
}

func runC10(c *fw.Ctx) {
	g := c.GitHome()
	maxSet := c.Pick(3, 4)
	c.Bound("universe_hashes", 12)
	c.Bound("offsets", c10SynthOffsets)
	c.Bound("assignments", 2)
	c.Bound("hash_sizes", []int{20, 32})
	c.Bound("max_set_size", maxSet)
	c.Bound("implementations", []string{"memory", "lazy", "lazy+pool1", "mmap"})
	c.SetRule("states = entry sets (subsets of a 12-hash colliding universe x 2 offset/crc assignments x sha1/sha256, encoded by go-git's Writer+Encode; plus packs indexed by git with a forced 64-bit offset table); for every state and implementation every query sequence of the stated length over the whole alphabet (Contains/MayContain/FindOffset/FindCRC32 per universe hash, FindHash per present+absent offset, EntriesWithPrefix per 0-3 byte prefix and near-full prefixes, Entries, EntriesByOffset, Count) is run on a fresh reader and each step compared with a plain map built from `git show-index`; a class is non-trivial when it is a distinct (state shape: hash size, entries, 64-bit offsets, buckets, shared prefixes) x implementation; large indexes (8191..9000 entries quick, up to 20000 thorough, six placements of 64-bit offsets around the 8192-entry scan-chunk boundary) (and one sha256 index) driven through every entry point - lookups by id/crc/offset, absent neighbours, prefixes of eight rows, whole listings in both orders - on MemoryIndex/LazyIndex/mmap scanner; iterators opened together, advanced alternately with lookups in between and abandoned half-way on every small state; malformed files: every single-byte substitution (4 values), truncation and three extensions of idx and rev files of 3 states, classes = (impl, file, region, outcome)")
	c.Assume("git 2.39.5 show-index / verify-pack / load_idx are the reference for the idx v2 and rev v1 formats")
	c.Assume("the mmap PackScanner only offers FindOffset and FindHash; CRC, prefix and iteration queries are compared on MemoryIndex and LazyIndex only")
	c.Assume("a file is 'malformed' when git's own loader (load_idx / load_revindex_from_disk) refuses it, or when an answer could only come from bytes that are not a row of the table; a structurally loadable file with altered content may be answered from consistently (neither git nor the lazy readers verify the trailing checksum on open)")

	scratch := c.TempDir("c10")
	c10Large(c)

	// ---- states
	var states []*c10State
	for _, hs := range []int{20, 32} {
		for a := 0; a < 2; a++ {
			for _, sub := range fw.Subsets(12, maxSet) {
				if !c10Representable(a, sub) {
					continue
				}
				st, err := c10BuildSynth(hs, a, sub)
				if err != nil {
					c.Fail(fmt.Sprintf("encode/failed/n=%d", len(sub)), fmt.Sprintf("go-git cannot encode entry set %v hs=%d assign=%d: %v", sub, hs, a, err),
						map[string]any{"subset": sub, "hs": hs, "assign": a, "error": err.Error()})
					continue
				}
				states = append(states, st)
			}
		}
	}
	nSynth := len(states)
	c10Phase(c, "built")
	states = append(states, c10GitStates(c, scratch)...)
	c.States(len(states))
	c.Extra("states_synthetic", nSynth)
	c.Extra("states_git_written", len(states)-nSynth)

	// ---- the model of a synthetic state is the plain reading of the very file
	// go-git wrote (c10ParseIdx: a 40-line transcription of the idx v2 layout);
	// it must be the intended entry set, and the rev file must be byte-for-byte
	// what the format prescribes.
	for _, st := range states {
		if !st.synth {
			continue
		}
		c.Eval()
		big := ""
		for _, e := range st.model.ents {
			if e.Off >= 1<<31 {
				big = "/o64"
			}
		}
		p := c10ParseIdx(st.files.idx, st.files.hs)
		if p == nil || p.asModel == nil || !p.sumOK || p.packSum != st.files.packSum || !c10SameEnts(p.asModel.ents, st.model.ents) {
			c.Fail("encode/idx-differs"+big, fmt.Sprintf("the idx go-git wrote for %s does not read back as the entry set %v", st.label, st.model.ents),
				map[string]any{"state": st.label, "idx_hex": fw.Hex(st.files.idx)})
			st.broken = true
			continue
		}
		if want := c10ExpectedRev(st.model, st.files.packSum); !bytes.Equal(want, st.files.rev) {
			c.Fail("encode/rev-differs"+big, fmt.Sprintf("the rev file go-git wrote for %s is not the by-offset permutation of its idx", st.label),
				map[string]any{"state": st.label, "rev_hex": fw.Hex(st.files.rev), "want_hex": fw.Hex(want)})
			st.broken = true
			continue
		}
		st.model = p.asModel
	}
	// ---- conformance of that reading against real git (`git show-index`):
	// quick = sets of size <= 1 and the first set of every larger size per
	// (hash size, assignment); thorough = every state.
	var conf []*c10State
	seenShape := map[string]bool{}
	for _, st := range states {
		if !st.synth || st.broken {
			continue
		}
		shape := fmt.Sprintf("%d/%d/%d", st.files.hs, st.assign, len(st.subset))
		if c.Thorough() || len(st.subset) <= 1 || !seenShape[shape] {
			conf = append(conf, st)
		}
		seenShape[shape] = true
	}
	c.ParDo(len(conf), 0, func(i int) {
		st := conf[i]
		got, err := c10ShowIndex(g, st.files.hs, st.files.idx)
		if err != nil {
			c.Fail("encode/git-show-index-rejects", fmt.Sprintf("git show-index refuses the idx go-git wrote for %s: %v", st.label, err),
				map[string]any{"state": st.label, "idx_hex": fw.Hex(st.files.idx)})
			return
		}
		if !c10SameEnts(got, st.model.ents) {
			fw.Abort("plain idx reading disagrees with git show-index on %s: git %v, parse %v", st.label, got, st.model.ents)
		}
		c.TracesValidated(1)
	})

	c10Phase(c, "showindex")
	// ---- re-encode idempotence + revfile.Decode on valid files
	c.ParDo(len(states), 0, func(i int) { c10Roundtrip(c, states[i]) })

	c10Phase(c, "roundtrip")
	// ---- overlapping iterators on every state
	c10Interleaved(c, states)
	c10Phase(c, "interleaved")
	// ---- exploration: a list of passes (set-size bound, alphabet, length)
	type pass struct {
		maxSet int
		alpha  string // full | reduced | core
		L      int
	}
	passes := []pass{{3, "full", 1}, {1, "full", 2}, {2, "reduced", 2}, {1, "core", 3}}
	if c.Thorough() {
		passes = []pass{{4, "full", 1}, {3, "full", 2}, {2, "core", 3}, {1, "reduced", 3}}
	}
	var pdesc []string
	for _, p := range passes {
		pdesc = append(pdesc, fmt.Sprintf("sets<=%d x %s alphabet x all sequences of length %d", p.maxSet, p.alpha, p.L))
	}
	c.Bound("passes", pdesc)
	type job struct {
		st   *c10State
		im   *c10Impl
		L    int
		alph []c10Query
	}
	var jobs []job
	alphaCache := map[string][]c10Query{}
	alphaOf := func(st *c10State, kind string) []c10Query {
		if kind == "core" {
			return c10CoreAlphabet(st)
		}
		k := fmt.Sprintf("%p/%v", st, kind)
		if st.synth {
			k = fmt.Sprintf("synth%d/%v", st.files.hs, kind)
		}
		if a, ok := alphaCache[k]; ok {
			return a
		}
		a := c10Alphabet(st.files.hs, st.universe, st.offs, kind == "reduced")
		alphaCache[k] = a
		return a
	}
	for _, p := range passes {
		for _, st := range states {
			if st.broken || len(st.model.ents) > p.maxSet+map[bool]int{true: 0, false: 4}[st.synth] {
				continue // git-written states (1, 3 or 7 objects) count as size-4 larger
			}
			for k := range c10Impls {
				jobs = append(jobs, job{st, &c10Impls[k], p.L, alphaOf(st, p.alpha)})
			}
		}
	}
	c.Extra("alphabet_full", len(alphaOf(states[0], "full")))
	c.Extra("alphabet_reduced", len(alphaOf(states[0], "reduced")))
	c.Sample(map[string]any{"state": states[len(states)/2].label, "entries": fmt.Sprint(states[len(states)/2].model.ents)})
	c.Sample(map[string]any{"state": states[len(states)-1].label, "entries": fmt.Sprint(states[len(states)-1].model.ents)})

	// files for the mmap scanner: one directory per state
	for i, st := range states {
		d := filepath.Join(scratch, "st", strconv.Itoa(i))
		if err := os.MkdirAll(d, 0o755); err != nil {
			fw.Abort("mkdir: %v", err)
		}
		st.files.write(d)
	}
	var prof [4]atomic.Int64
	c.ParDo(len(jobs), 0, func(i int) {
		j := jobs[i]
		if o := os.Getenv("C10_ONLY"); o != "" && o != j.im.name {
			return
		}
		t0 := time.Now()
		defer func() {
			for k := range c10Impls {
				if &c10Impls[k] == j.im {
					prof[k].Add(int64(time.Since(t0)))
				}
			}
		}()
		c.Class(c10StateClass(j.st) + "/" + j.im.name)
		c10Explore(c, j.im, j.st, j.alph, j.L, filepath.Join(scratch, "w"+strconv.Itoa(i)))
	})

	c10Phase(c, "explore")
	if os.Getenv("C10_DEBUG") != "" {
		for k := range c10Impls {
			fmt.Fprintf(os.Stderr, "C10 prof %s: %.1fs busy (wall-in-worker)\n", c10Impls[k].name, float64(prof[k].Load())/1e9)
		}
	}
	// ---- malformed files
	c10Corrupt(c, g, states, scratch)
}

// c10Roundtrip: decode(encode(x)) re-encodes to the same bytes; revfile.Decode
// yields the by-offset permutation.
func c10Roundtrip(c *fw.Ctx, st *c10State) {
	hs := st.files.hs
	var reenc []byte
	var err error
	if p, what := ccGuard(func() {
		ix := idxfile.NewMemoryIndex(hs)
		if err = idxfile.NewDecoder(ccNewMemInput(st.files.idx), ghash.New(c10CryptoHash(hs))).Decode(ix); err != nil {
			return
		}
		var b bytes.Buffer
		if err = idxfile.Encode(&b, ghash.New(c10CryptoHash(hs)), ix); err != nil {
			return
		}
		reenc = b.Bytes()
	}); p {
		err = errors.New("PANIC " + what)
	}
	c.Eval()
	if err != nil {
		c.Fail("memory/roundtrip/error", fmt.Sprintf("decode+encode of a valid idx fails (%s): %v", st.label, err), map[string]any{"state": st.label, "idx_hex": fw.Hex(st.files.idx)})
	} else if !bytes.Equal(reenc, st.files.idx) {
		c.Fail("memory/roundtrip/bytes-differ", fmt.Sprintf("encode(decode(idx)) != idx (%s)", st.label), map[string]any{"state": st.label, "idx_hex": fw.Hex(st.files.idx), "reencoded_hex": fw.Hex(reenc)})
	}
	if len(st.model.ents) == 0 {
		return // revfile.Decode documents ErrEmptyReverseIndex for an empty pack
	}
	got, derr := c10RevDecode(st.files.rev, len(st.model.ents), st.files.packSum)
	var want []uint32
	for _, e := range st.model.byOff {
		want = append(want, uint32(st.model.byH[e.H]))
	}
	c.Eval()
	if derr != nil {
		c.Fail("revfile/decode/rejected-valid", fmt.Sprintf("revfile.Decode refuses a valid rev file (%s): %v", st.label, derr), map[string]any{"state": st.label, "rev_hex": fw.Hex(st.files.rev)})
	} else if fmt.Sprint(got) != fmt.Sprint(want) {
		c.Fail("revfile/decode/wrong-positions", fmt.Sprintf("revfile.Decode yields %v, by-offset order is %v (%s)", got, want, st.label), map[string]any{"state": st.label, "rev_hex": fw.Hex(st.files.rev)})
	}
}

func c10RevDecode(rev []byte, n int, packSum string) (out []uint32, err error) {
	if p, what := ccGuard(func() {
		ch := make(chan uint32, n+8)
		err = revfile.Decode(bytes.NewReader(rev), int64(n), c10Hash(packSum), ch)
		for v := range ch {
			out = append(out, v)
		}
	}); p {
		return nil, errors.New("PANIC " + what)
	}
	return out, err
}

// c10GitStates builds packs with git and lets git index them with a forced
// 64-bit offset table and a rev file.
func c10GitStates(c *fw.Ctx, scratch string) []*c10State {
	var out []*c10State
	for _, of := range []string{"sha1", "sha256"} {
		hs := 20
		if of == "sha256" {
			hs = 32
		}
		g, dir := c.InitRepo("c10git-"+of, of, false)
		var ids []string
		for i := 0; i < 7; i++ {
			r := g.MustRunIn([]byte(fmt.Sprintf("c10 blob %d\n%s", i, strings.Repeat("x", i*37))), "hash-object", "-w", "--stdin")
			ids = append(ids, r.S())
		}
		for vi, variant := range []struct {
			n     int
			limit string
		}{{7, "0xc"}, {7, "0x40"}, {1, "0x10"}, {3, "0x7fffffff"}} {
			base := filepath.Join(dir, fmt.Sprintf("v%d", vi))
			os.MkdirAll(base, 0o755)
			r := g.MustRunIn([]byte(strings.Join(ids[:variant.n], "\n")+"\n"), "pack-objects", "-q", filepath.Join(base, "pack"))
			ph := r.S()
			pack := filepath.Join(base, "pack-"+ph+".pack")
			oidx := filepath.Join(base, "out.idx")
			g.MustRun("index-pack", "--index-version=2,"+variant.limit, "--rev-index", "-o", oidx, pack)
			idx, e1 := os.ReadFile(oidx)
			rev, e2 := os.ReadFile(filepath.Join(base, "out.rev"))
			pk, e3 := os.ReadFile(pack)
			if e1 != nil || e2 != nil || e3 != nil {
				fw.Abort("git state files: %v %v %v", e1, e2, e3)
			}
			ents, err := c10ShowIndex(g, hs, idx)
			if err != nil {
				fw.Abort("show-index on git's own idx: %v", err)
			}
			// cross-check with verify-pack -v of the pack's default idx: "<oid> <type> <size> <size-in-pack> <offset>"
			vp := g.MustRun("verify-pack", "-v", filepath.Join(base, "pack-"+ph+".idx"))
			vmap := map[string]uint64{}
			for _, l := range strings.Split(vp.S(), "\n") {
				f := strings.Fields(l)
				if len(f) >= 5 && len(f[0]) == hs*2 {
					o, _ := strconv.ParseUint(f[4], 10, 64)
					vmap[f[0]] = o
				}
			}
			if len(vmap) != len(ents) {
				fw.Abort("verify-pack lists %d objects, show-index %d", len(vmap), len(ents))
			}
			var offs []uint64
			var uni []string
			for _, e := range ents {
				if vmap[fw.Hex([]byte(e.H))] != e.Off {
					fw.Abort("verify-pack and show-index disagree on %x", e.H)
				}
				offs = append(offs, e.Off)
				uni = append(uni, e.H)
				// near misses: last byte and first byte changed
				b := []byte(e.H)
				b[hs-1] ^= 1
				uni = append(uni, string(b))
			}
			b := []byte(ents[0].H)
			b[0] ^= 0x80
			uni = append(uni, string(b))
			if len(uni) > 12 {
				uni = uni[:12]
			}
			phb := pk[len(pk)-hs:]
			st := &c10State{
				label:    fmt.Sprintf("git-indexed %s %d objects, 64-bit table above offset %s", of, variant.n, variant.limit),
				files:    c10Files{hs: hs, idx: idx, rev: rev, pack: pk, packSum: string(phb)},
				model:    c10NewModel(hs, ents),
				universe: uni,
				offs:     c10ProbeOffsets(offs),
			}
			if want := c10ExpectedRev(st.model, st.files.packSum); !bytes.Equal(want, rev) {
				fw.Abort("rev file model disagrees with the rev file git wrote (%s)", st.label)
			}
			if p := c10ParseIdx(idx, hs); p == nil || p.asModel == nil || !p.sumOK || !c10SameEnts(p.asModel.ents, ents) {
				fw.Abort("plain idx reading disagrees with git show-index on git's own idx (%s)", st.label)
			}
			out = append(out, st)
			c.TracesValidated(1)
		}
	}
	return out
}

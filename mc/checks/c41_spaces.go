package checks

import (
	"fmt"
	"strings"

	"verifmc/fw"
)

// Structured case lists of C41 (see c41.go): spaces that the symbol-sequence
// enumeration cannot reach inside its length bound.

type c41Listed struct {
	path     string
	args     []string
	class    string // coarse generator class, part of the observation class
	faithful bool   // also one `sh -c` per shell in the quick tier
}

// c41Tails: shell syntax that does something visible when it ends up outside
// quotes (runs a command that is not a stub -> stderr; an extra stub record;
// a file in cwd; an expansion of $a / ~ / a glob over the bait files a, aa;
// a changed word count; a syntax error).
var c41Tails = []string{
	"", "a", ";a", "|a", "&a", "&&a", "||a", "\na", " a", "\ta", "$a", "${a}", "$(a)", "`a`", "$((1))",
	">b", "<b", ">>b", "2>b", "*", "?", "[a]", "{a,b}", "~", "#a", " #a", "\\", "\\a", "\"", "\"a\"",
	"(a)", ")", "}", ";git-upload-pack b", "\ngit-receive-pack b", "<<a\n", "\\\n", "$'a'", "a=b", "-a", "\\'", "\\!",
}

func c41Runs(maxLen int) []string {
	return fw.Strings([]string{"'", "!"}, maxLen)[1:] // without the empty run
}

func c41RunsCases(thorough bool) []c41Listed {
	var out []c41Listed
	pres := []string{"", "a"}
	posts := []string{"", "'", "!", "''"}
	runs := c41Runs(3)
	if thorough {
		runs = c41Runs(4)
	}
	add := func(path string, args []string, class string, faithful bool) {
		out = append(out, c41Listed{path, args, class, faithful})
	}
	// simplest first: post, then run length, then tail, then position
	for _, post := range posts {
		for _, run := range runs {
			for ti, tail := range c41Tails {
				for _, pre := range pres {
					w := pre + run + tail + post
					cl := fmt.Sprintf("run%d|tail%d|post%d", len(run), ti, len(post))
					add(w, nil, cl+"|path", len(run) <= 2 && post == "" && pre == "")
					add("a", []string{w}, cl+"|arg1", len(run) <= 1 && post == "" && pre == "")
					add("a", []string{"", w}, cl+"|arg2", false)
				}
			}
		}
	}
	// a run split across the word boundary: path ends with specials, the
	// argument starts with specials and goes on with shell syntax
	for _, r1 := range c41Runs(2) {
		for _, r2 := range c41Runs(2) {
			for ti, tail := range c41Tails {
				for _, pre := range pres {
					add(pre+r1, []string{r2 + tail}, fmt.Sprintf("split|tail%d", ti), false)
					add(pre+r1+tail, []string{r2, tail + r1}, fmt.Sprintf("split3|tail%d", ti), false)
				}
			}
		}
	}
	return out
}

func c41ByteCases() []c41Listed {
	var out []c41Listed
	for b := 1; b < 256; b++ {
		s := string([]byte{byte(b)})
		cl := fmt.Sprintf("byte%02x", b)
		out = append(out,
			c41Listed{s, nil, cl, false},
			c41Listed{"a", []string{s}, cl, false},
			c41Listed{"a", []string{"", s + s}, cl, false},
			c41Listed{"a" + s + "a", []string{"a" + s}, cl, false},
			c41Listed{"'" + s, nil, cl, false},
			c41Listed{s + "'", []string{"!" + s + "!"}, cl, false},
			c41Listed{"''" + s + "a", nil, cl, false},
			c41Listed{"a" + s + "''" + s, nil, cl, false},
		)
	}
	for b1 := 1; b1 < 256; b1++ {
		for b2 := 1; b2 < 256; b2++ {
			out = append(out, c41Listed{string([]byte{byte(b1), byte(b2)}), nil, fmt.Sprintf("pair%02x", b1), false})
		}
	}
	return out
}

func c41MiscCases() []c41Listed {
	var out []c41Listed
	// long words: specials at the ends and at the buffer-size positions. The
	// quoted form must stay below Linux's 128 KiB limit for one argv string.
	for _, n := range []int{4095, 4096, 4097, 8191, 8192, 8193, 32767, 32768, 32769, 65535, 65536, 65537} {
		body := strings.Repeat("a", n)
		out = append(out,
			c41Listed{body, nil, "long", true},
			c41Listed{"'" + body + "';a", nil, "long", true},
			c41Listed{body[:n-1] + "'", []string{"!" + body[:n/2] + "''$(a)"}, "long", true},
			c41Listed{body[:n/2] + "!';a;'" + body[n/2:], nil, "long", true},
		)
	}
	for _, n := range []int{1000, 4096, 10000} {
		out = append(out,
			c41Listed{strings.Repeat("'", n), nil, "longrun", true},
			c41Listed{strings.Repeat("'!", n/2) + ";a", []string{strings.Repeat("!", n)}, "longrun", true},
		)
	}
	// more than two arguments
	words := []string{"", "a", "'", "!", ";a", "''", "$(a)", " ", "\n", "--", "a b"}
	for nargs := 3; nargs <= 6; nargs++ {
		for off := 0; off < len(words); off++ {
			var args []string
			for j := 0; j < nargs; j++ {
				args = append(args, words[(off+j*(1+off%3))%len(words)])
			}
			out = append(out, c41Listed{"a", args, fmt.Sprintf("args%d", nargs), false})
			out = append(out, c41Listed{words[off], append([]string{}, append(args[1:], args[0])...), fmt.Sprintf("args%d", nargs), false})
		}
	}
	return out
}

package checks

// Helpers of batch "i" (C36, C38, C33): a hidden `__serve` mode that turns the
// vcheck binary into a go-git upload-pack/receive-pack server on stdin/stdout
// (so that a real git client can talk to go-git's server code through
// --upload-pack/--receive-pack), a transport that runs the real
// `git upload-pack` / `git receive-pack` for go-git clients, a sealed git runner
// with a watchdog, and small repository snapshot helpers.

import (
	"bytes"
	"context"
	"errors"
	"fmt"
	"io"
	"net/url"
	"os"
	"os/exec"
	"path/filepath"
	"sort"
	"strings"
	"sync"
	"time"

	"github.com/go-git/go-git/v6/plumbing/transport"
)

func init() {
	// vcheck __serve <upload-pack|receive-pack> <repo path>
	if len(os.Args) >= 4 && os.Args[1] == "__serve" {
		os.Exit(iServeMain(os.Args[2], os.Args[len(os.Args)-1]))
	}
}

func iServeMain(service, path string) int {
	st, err := transport.DefaultLoader.Load(&url.URL{Scheme: "file", Path: path})
	if err != nil {
		fmt.Fprintf(os.Stderr, "vserve: load %s: %v\n", path, err)
		return 128
	}
	proto := os.Getenv("GIT_PROTOCOL")
	ctx := context.Background()
	switch service {
	case "upload-pack":
		err = transport.UploadPack(ctx, st, io.NopCloser(os.Stdin), os.Stdout, &transport.UploadPackRequest{GitProtocol: proto})
	case "receive-pack":
		err = transport.ReceivePack(ctx, st, io.NopCloser(os.Stdin), os.Stdout, &transport.ReceivePackRequest{GitProtocol: proto})
	default:
		fmt.Fprintf(os.Stderr, "vserve: unknown service %q\n", service)
		return 129
	}
	if c, ok := st.(io.Closer); ok {
		_ = c.Close()
	}
	if err != nil {
		fmt.Fprintf(os.Stderr, "vserve: %s: %v\n", service, err)
		return 1
	}
	return 0
}

// iSelf is the path of the running vcheck binary (used as the server program).
func iSelf() string {
	p, err := os.Executable()
	if err != nil {
		panic(err)
	}
	return p
}

// iGitEnv is the sealed environment for git subprocesses (same as fw.Git's).
func iGitEnv(home string, extra ...string) []string {
	e := []string{
		"PATH=" + os.Getenv("PATH"),
		"HOME=" + home, "XDG_CONFIG_HOME=" + home, "GIT_CONFIG_NOSYSTEM=1", "GIT_CONFIG_GLOBAL=/dev/null",
		"LC_ALL=C", "LANG=C", "TZ=UTC", "GIT_TERMINAL_PROMPT=0", "GIT_ADVICE=0",
		"GIT_AUTHOR_NAME=A U Thor", "GIT_AUTHOR_EMAIL=author@example.com", "GIT_AUTHOR_DATE=1700000000 +0000",
		"GIT_COMMITTER_NAME=C O Mitter", "GIT_COMMITTER_EMAIL=committer@example.com", "GIT_COMMITTER_DATE=1700000000 +0000",
		"GIT_PAGER=cat", "GIT_OPTIONAL_LOCKS=0",
	}
	return append(e, extra...)
}

// iWatchdog is the generous per-operation time limit: an operation that does not
// finish within it is reported as inconclusive, never as a violation.
const iWatchdog = 60 * time.Second

type iRes struct {
	Out, Err string
	Code     int
	TimedOut bool
}

// iGit runs git with the sealed environment and the watchdog.
func iGit(home, dir string, conf []string, args ...string) iRes {
	var full []string
	for _, kv := range conf {
		full = append(full, "-c", kv)
	}
	if dir != "" {
		full = append(full, "-C", dir)
	}
	full = append(full, args...)
	ctx, cancel := context.WithTimeout(context.Background(), iWatchdog)
	defer cancel()
	cmd := exec.CommandContext(ctx, "git", full...)
	cmd.Env = iGitEnv(home)
	cmd.WaitDelay = 20 * time.Second
	var o, e bytes.Buffer
	cmd.Stdout, cmd.Stderr = &o, &e
	err := cmd.Run()
	r := iRes{Out: o.String(), Err: e.String()}
	if ctx.Err() != nil {
		r.TimedOut = true
		r.Code = -1
		return r
	}
	if errors.Is(err, exec.ErrWaitDelay) {
		// the process exited; a detached grandchild (e.g. auto maintenance) kept a pipe open
		err = nil
	}
	if err != nil {
		var ee *exec.ExitError
		if errors.As(err, &ee) {
			r.Code = ee.ExitCode()
			if r.Code == 0 {
				r.Code = -1
			}
		} else {
			r.Code = -2
			r.Err += err.Error()
		}
	}
	return r
}

// ---------------------------------------------------------------------------
// transport that runs the real git server programs

type iExecTransport struct{ home string }

func (t *iExecTransport) Handshake(ctx context.Context, req *transport.Request) (transport.Session, error) {
	conn, err := t.Connect(ctx, req)
	if err != nil {
		return nil, err
	}
	return transport.NewStreamSession(conn, req.Command)
}

func (t *iExecTransport) Connect(_ context.Context, req *transport.Request) (transport.Conn, error) {
	svc := strings.TrimPrefix(req.Command, "git-")
	switch svc {
	case "upload-pack", "receive-pack":
	default:
		return nil, fmt.Errorf("iExecTransport: unsupported %q", req.Command)
	}
	cmd := exec.Command("git", svc, req.URL.Path)
	var extra []string
	if p := transport.GitProtocolEnv(req.Protocol); p != "" {
		extra = append(extra, "GIT_PROTOCOL="+p)
	}
	cmd.Env = iGitEnv(t.home, extra...)
	in, err := cmd.StdinPipe()
	if err != nil {
		return nil, err
	}
	out, err := cmd.StdoutPipe()
	if err != nil {
		return nil, err
	}
	c := &iExecConn{cmd: cmd, in: in, out: out}
	cmd.Stderr = &c.stderr
	if err := cmd.Start(); err != nil {
		return nil, err
	}
	return c, nil
}

type iExecConn struct {
	cmd    *exec.Cmd
	in     io.WriteCloser
	out    io.ReadCloser
	stderr bytes.Buffer
	once   sync.Once
	err    error
}

func (c *iExecConn) Reader() io.Reader      { return c.out }
func (c *iExecConn) Writer() io.WriteCloser { return c.in }
func (c *iExecConn) Close() error {
	c.once.Do(func() {
		_ = c.in.Close()
		done := make(chan struct{})
		go func() {
			_, _ = io.Copy(io.Discard, c.out)
			_ = c.cmd.Wait()
			close(done)
		}()
		select {
		case <-done:
		case <-time.After(5 * time.Second):
			_ = c.cmd.Process.Kill()
			<-done
		}
	})
	return nil
}

var (
	_ transport.Transport = (*iExecTransport)(nil)
	_ transport.Connector = (*iExecTransport)(nil)
)

// ---------------------------------------------------------------------------
// filesystem helpers

func iCopyDir(src, dst string) error {
	return filepath.Walk(src, func(p string, fi os.FileInfo, err error) error {
		if err != nil {
			return err
		}
		rel, _ := filepath.Rel(src, p)
		t := filepath.Join(dst, rel)
		switch {
		case fi.IsDir():
			return os.MkdirAll(t, 0o755)
		case fi.Mode()&os.ModeSymlink != 0:
			l, err := os.Readlink(p)
			if err != nil {
				return err
			}
			return os.Symlink(l, t)
		default:
			b, err := os.ReadFile(p)
			if err != nil {
				return err
			}
			return os.WriteFile(t, b, fi.Mode().Perm()|0o200)
		}
	})
}

// iRepoState is the observable ref/shallow state of a repository, read with git.
type iRepoState struct {
	Refs    map[string]string // refname -> object id (symbolic refs: "ref: target")
	Head    string            // "ref: refs/heads/x" or an id or ""
	Shallow []string          // sorted
}

// iReadState reads the refs (loose files and packed-refs), HEAD and the shallow
// file of gitDir with a small strict reader (no git process: the formats are
// one line per ref; `git fsck` run on the same directory rejects anything git
// itself cannot parse).
func iReadState(_ string, gitDir string) (iRepoState, error) {
	st := iRepoState{Refs: map[string]string{}}
	if b, err := os.ReadFile(filepath.Join(gitDir, "packed-refs")); err == nil {
		for _, l := range strings.Split(string(b), "\n") {
			if l == "" || l[0] == '#' || l[0] == '^' {
				continue
			}
			f := strings.Fields(l)
			if len(f) != 2 || !iIsHex(f[0]) {
				return st, fmt.Errorf("%s/packed-refs: bad line %q", gitDir, l)
			}
			st.Refs[f[1]] = f[0]
		}
	}
	root := filepath.Join(gitDir, "refs")
	err := filepath.Walk(root, func(p string, fi os.FileInfo, err error) error {
		if err != nil {
			if os.IsNotExist(err) {
				return nil
			}
			return err
		}
		if fi.IsDir() {
			return nil
		}
		if strings.HasSuffix(p, ".lock") {
			return fmt.Errorf("stale lock file %s", p)
		}
		b, err := os.ReadFile(p)
		if err != nil {
			return err
		}
		rel, _ := filepath.Rel(gitDir, p)
		v := strings.TrimRight(string(b), "\n")
		switch {
		case strings.HasPrefix(v, "ref: "):
			st.Refs[rel] = v
		case iIsHex(v):
			st.Refs[rel] = v
		default:
			return fmt.Errorf("ref file %s: bad content %q", p, b)
		}
		return nil
	})
	if err != nil {
		return st, err
	}
	if b, err := os.ReadFile(filepath.Join(gitDir, "HEAD")); err == nil {
		st.Head = strings.TrimSpace(string(b))
	}
	if b, err := os.ReadFile(filepath.Join(gitDir, "shallow")); err == nil {
		for _, l := range strings.Split(string(b), "\n") {
			if l = strings.TrimSpace(l); l != "" {
				st.Shallow = append(st.Shallow, l)
			}
		}
		sort.Strings(st.Shallow)
	}
	return st, nil
}

func iIsHex(s string) bool {
	if len(s) != 40 && len(s) != 64 {
		return false
	}
	for i := 0; i < len(s); i++ {
		if !(s[i] >= '0' && s[i] <= '9' || s[i] >= 'a' && s[i] <= 'f') {
			return false
		}
	}
	return true
}

// iFsck runs `git fsck --connectivity-only` and returns "" when clean.
func iFsck(home, gitDir string) string {
	r := iGit(home, gitDir, nil, "fsck", "--connectivity-only", "--no-dangling", "--no-progress")
	if r.Code == 0 {
		return ""
	}
	return strings.TrimSpace(r.Out + r.Err)
}

func iSortedKeys[V any](m map[string]V) []string {
	ks := make([]string, 0, len(m))
	for k := range m {
		ks = append(ks, k)
	}
	sort.Strings(ks)
	return ks
}

package checks

// C10, further drivers:
//  * c10LargeMore: on the large indexes (beyond one scan chunk) every entry
//    point, not only the three lookups: full listings in hash and offset order,
//    prefix listings around the chunk boundary, absent-id and absent-offset
//    probes, for MemoryIndex, LazyIndex (with and without pool) and the mmap
//    scanner, sha1 and sha256;
//  * c10Interleaved: iterators that are abandoned half-way, two iterators
//    advanced alternately and lookups made while an iterator is open, on every
//    small state.

import (
	"fmt"
	"io"
	"os"
	"path/filepath"

	"github.com/go-git/go-git/v6/plumbing/format/idxfile"

	"verifmc/fw"
)

const c10LargeIterCap = 1 << 20

func c10DrainAll(it idxfile.EntryIter, err error) c10Ans {
	if err != nil {
		return c10ErrAns(err)
	}
	defer it.Close()
	var out []c10Entry
	for {
		e, err := it.Next()
		if err == io.EOF {
			return c10Ans{Ents: out}
		}
		if err != nil {
			return c10Ans{St: c10Rejected, Msg: err.Error()}
		}
		if e == nil {
			return c10Ans{St: c10Rejected, Msg: "nil entry with nil error"}
		}
		out = append(out, c10Entry{string(e.Hash.Bytes()), e.Offset, e.CRC32})
		if len(out) > c10LargeIterCap {
			return c10Ans{St: c10Rejected, Msg: "iteration does not end"}
		}
	}
}

// c10LargeMore runs the remaining entry points on one large index through one implementation.
// It returns a description of the first disagreement, or "".
func c10LargeMore(name string, r c10Reader, m *c10Model, n int) string {
	rows := []int{0, 1, 8190, 8191, 8192, 8193, n - 2, n - 1}
	var qs []c10Query
	flip := func(h string, by byte) string {
		b := []byte(h)
		b[len(b)-1] ^= by
		return string(b)
	}
	for _, i := range rows {
		if i < 0 || i >= n {
			continue
		}
		e := m.ents[i]
		for _, k := range []int{c10Contains, c10MayContain, c10FindOffset, c10FindCRC} {
			qs = append(qs, c10Query{Kind: k, H: e.H}, c10Query{Kind: k, H: flip(e.H, 1)}, c10Query{Kind: k, H: flip(e.H, 0x80)})
		}
		qs = append(qs, c10Query{Kind: c10FindHash, Off: int64(e.Off)}, c10Query{Kind: c10FindHash, Off: int64(e.Off) + 1}, c10Query{Kind: c10FindHash, Off: int64(e.Off) - 1})
		for _, l := range []int{1, 2, 3, m.hs - 1, m.hs} {
			qs = append(qs, c10Query{Kind: c10Prefix, H: e.H[:l]})
		}
		qs = append(qs, c10Query{Kind: c10Prefix, H: flip(e.H, 1)[:m.hs]}, c10Query{Kind: c10Prefix, H: e.H + "\x00"})
	}
	zero, ff := make([]byte, m.hs), make([]byte, m.hs)
	for i := range ff {
		ff[i] = 0xff
	}
	for _, k := range []int{c10Contains, c10FindOffset} {
		qs = append(qs, c10Query{Kind: k, H: string(zero)}, c10Query{Kind: k, H: string(ff)})
	}
	qs = append(qs, c10Query{Kind: c10FindHash, Off: 0}, c10Query{Kind: c10FindHash, Off: -1}, c10Query{Kind: c10FindHash, Off: 1<<62 + 5},
		c10Query{Kind: c10Prefix, H: "\x00"}, c10Query{Kind: c10Prefix, H: "\xff"}, c10Query{Kind: c10Count})
	mm := name == "mmap"
	for _, q := range qs {
		if mm && !c10MmapSupports(q) {
			continue
		}
		want := m.answer(q)
		var got c10Ans
		if ir, ok := r.(*c10IdxReader); ok && q.Kind == c10Prefix {
			got = c10DrainAll(ir.ix.EntriesWithPrefix([]byte(q.H)))
		} else {
			got = r.do(q)
		}
		if ok, kind := c10Agree(q, got, want); !ok {
			return fmt.Sprintf("%s: %s (got %v, map says %v)", q, kind, got, want)
		}
	}
	ir, ok := r.(*c10IdxReader)
	if !ok {
		return ""
	}
	// whole listings, twice (the second on the same instance), and a listing abandoned after the chunk boundary
	for pass := 0; pass < 2; pass++ {
		if got := c10DrainAll(ir.ix.Entries()); got.St != c10OK || !c10SameEnts(got.Ents, m.ents) {
			return fmt.Sprintf("Entries() pass %d: %s", pass, c10FirstDiff(got, m.ents))
		}
		if got := c10DrainAll(ir.ix.EntriesByOffset()); got.St != c10OK || !c10SameEnts(got.Ents, m.byOff) {
			return fmt.Sprintf("EntriesByOffset() pass %d: %s", pass, c10FirstDiff(got, m.byOff))
		}
		if pass == 0 {
			it, err := ir.ix.Entries()
			if err != nil {
				return "Entries(): " + err.Error()
			}
			for i := 0; i < 8195 && i < n; i++ {
				e, err := it.Next()
				if err != nil || e == nil || string(e.Hash.Bytes()) != m.ents[i].H || e.Offset != m.ents[i].Off {
					it.Close()
					return fmt.Sprintf("Entries() row %d: %v, %v", i, e, err)
				}
			}
			it.Close()
		}
	}
	return ""
}

func c10FirstDiff(got c10Ans, want []c10Entry) string {
	if got.St != c10OK {
		return "refused: " + got.Msg
	}
	if len(got.Ents) != len(want) {
		return fmt.Sprintf("%d entries, map has %d", len(got.Ents), len(want))
	}
	for i := range want {
		if got.Ents[i] != want[i] {
			return fmt.Sprintf("row %d is %v, map says %v", i, got.Ents[i], want[i])
		}
	}
	return "?"
}

// c10Interleaved drives iterators that overlap in time on one reader instance.
func c10Interleaved(c *fw.Ctx, states []*c10State) {
	impls := c10Impls[:3] // the mmap scanner has no iterators
	c.Bound("interleaved_iterators", "per state and index implementation: Entries, EntriesByOffset and EntriesWithPrefix iterators opened together and advanced alternately with lookups in between, one abandoned half-way, then whole listings on the same instance")
	type job struct {
		st *c10State
		im *c10Impl
	}
	var jobs []job
	for _, st := range states {
		if st.broken {
			continue
		}
		for k := range impls {
			jobs = append(jobs, job{st, &impls[k]})
		}
	}
	c.ParDo(len(jobs), 0, func(i int) {
		j := jobs[i]
		c.Eval()
		what := ""
		if pn, w := ccGuard(func() { what = c10InterleavedOne(j.st, j.im) }); pn {
			what = "panic: " + w
		}
		c.Transitions(1)
		if what != "" {
			shape := "n=0"
			if n := len(j.st.model.ents); n == 1 {
				shape = "n=1"
			} else if n > 1 {
				shape = "n>1"
			}
			kind := "wrong"
			if len(what) > 5 && what[:5] == "panic" {
				kind = "panic"
			}
			c.Fail(fmt.Sprintf("%s/interleaved-iterators/%s/%s", j.im.name, kind, shape),
				fmt.Sprintf("%s on %s: overlapping iterators: %s", j.im.name, j.st.label, what),
				map[string]any{"impl": j.im.name, "state": j.st.label, "entries": fmt.Sprint(j.st.model.ents), "detail": what})
		}
	})
}

func c10InterleavedOne(st *c10State, im *c10Impl) string {
	r, err := im.open(&st.files)
	if err != nil {
		return "open: " + err.Error()
	}
	defer r.close()
	ir := r.(*c10IdxReader)
	m := st.model
	n := len(m.ents)
	same := func(e *idxfile.Entry, w c10Entry) bool {
		return e != nil && string(e.Hash.Bytes()) == w.H && e.Offset == w.Off && e.CRC32 == w.CRC
	}
	a, err := ir.ix.Entries()
	if err != nil {
		return "Entries: " + err.Error()
	}
	b, err := ir.ix.EntriesByOffset()
	if err != nil {
		a.Close()
		return "EntriesByOffset: " + err.Error()
	}
	var pfx string
	if n > 0 {
		pfx = m.ents[n-1].H[:1]
	} else {
		pfx = "\x00"
	}
	wantP := m.answer(c10Query{Kind: c10Prefix, H: pfx}).Ents
	p, err := ir.ix.EntriesWithPrefix([]byte(pfx))
	if err != nil {
		a.Close()
		b.Close()
		return "EntriesWithPrefix: " + err.Error()
	}
	defer a.Close()
	defer b.Close()
	defer p.Close()
	pi := 0
	for i := 0; i <= n; i++ {
		ea, erra := a.Next()
		eb, errb := b.Next()
		if i == n {
			if erra != io.EOF || errb != io.EOF {
				return fmt.Sprintf("after %d entries Next gives %v / %v, not io.EOF", n, erra, errb)
			}
			break
		}
		if erra != nil || !same(ea, m.ents[i]) {
			return fmt.Sprintf("Entries row %d while other iterators are open: %v, %v", i, ea, erra)
		}
		if errb != nil || !same(eb, m.byOff[i]) {
			return fmt.Sprintf("EntriesByOffset row %d while other iterators are open: %v, %v", i, eb, errb)
		}
		// lookups in between
		q := c10Query{Kind: c10FindOffset, H: m.ents[n-1-i].H}
		if ok, kind := c10Agree(q, r.do(q), m.answer(q)); !ok {
			return fmt.Sprintf("%s between iterator steps: %s", q, kind)
		}
		q = c10Query{Kind: c10FindHash, Off: int64(m.byOff[n-1-i].Off)}
		if ok, kind := c10Agree(q, r.do(q), m.answer(q)); !ok {
			return fmt.Sprintf("%s between iterator steps: %s", q, kind)
		}
		if pi < len(wantP) {
			ep, errp := p.Next()
			if errp != nil || !same(ep, wantP[pi]) {
				return fmt.Sprintf("EntriesWithPrefix row %d while other iterators are open: %v, %v", pi, ep, errp)
			}
			pi++
		}
		if i == 0 {
			// an iterator abandoned after one entry
			x, err := ir.ix.Entries()
			if err != nil {
				return "second Entries: " + err.Error()
			}
			if e, err := x.Next(); err != nil || !same(e, m.ents[0]) {
				x.Close()
				return fmt.Sprintf("second Entries iterator row 0: %v, %v", e, err)
			}
			x.Close()
		}
	}
	a.Close()
	b.Close()
	p.Close()
	// the instance still answers whole listings
	for _, q := range []c10Query{{Kind: c10Entries}, {Kind: c10ByOffset}, {Kind: c10Prefix, H: pfx}, {Kind: c10Count}} {
		if ok, kind := c10Agree(q, r.do(q), m.answer(q)); !ok {
			return fmt.Sprintf("%s after the iterators were closed: %s", q, kind)
		}
	}
	return ""
}

// c10LargeFiles writes the files of a large index for the mmap scanner.
func c10LargeFiles(f *c10Files, n int, dir string) {
	f.pack = c10DummyPack(f.hs, n)
	if err := os.MkdirAll(dir, 0o755); err != nil {
		fw.Abort("mkdir: %v", err)
	}
	f.write(dir)
	_ = filepath.Join
}

package checks

import (
	"fmt"
	"math/bits"
	"os"
	"sort"
	"strings"

	git "github.com/go-git/go-git/v6"
	"github.com/go-git/go-git/v6/plumbing"

	"verifmc/fw"
)

// C32: after a checkout / reset with sparse directories D the worktree holds
// exactly the tracked files inside one of D (whole path components), those
// entries are not skip-worktree, every other tracked entry is skip-worktree
// and absent.

func init() {
	fw.Register(&fw.Check{ID: "C32", Level: "exploration", Run: runC32, QuickBudget: 150, ThoroughBudget: 1200})
}

var (
	c32Paths = []string{"a/x", "ab/x", "a/b/y", "a.b/z", "b/x", "top"}
	c32Dirs  = []string{"a", "ab", "a/b", "b", "a.b"}
	c32Ops   = []string{"Checkout", "Checkout(Force)", "Reset(Hard)", "Reset(Merge)"}
	c32From  = []string{"fresh", "full", "sparse[a]", "sparse[b a.b]"}
)

// c32Inside is the statement's predicate: p lies inside d by whole components.
func c32Inside(p string, dirs []string) bool {
	for _, d := range dirs {
		if p == d || strings.HasPrefix(p, d+"/") {
			return true
		}
	}
	return false
}

type c32Env struct {
	c     *fw.Ctx
	t     *hTemplate
	trees []int // tree masks ordered by size (index 0 = smallest)
	sels  []int // selection masks ordered by size, non-empty
}

// vector layout: tree sel from op target
func (e *c32Env) dims() []int { return []int{len(e.trees), len(e.sels), len(c32From), len(c32Ops), 2} }

func c32Mask(names []string, m int) []string {
	var out []string
	for i, n := range names {
		if m&(1<<i) != 0 {
			out = append(out, n)
		}
	}
	return out
}

func (e *c32Env) render(v []int) string {
	return fmt.Sprintf("tree=%v dirs=%v from=%s op=%s target=%s", c32Mask(c32Paths, e.trees[v[0]]), c32Mask(c32Dirs, e.sels[v[1]]),
		c32From[v[2]], c32Ops[v[3]], []string{"same-commit", "other-commit"}[v[4]])
}

func (e *c32Env) commitName(mask int, kind byte) string {
	s := ""
	for i := range c32Paths {
		if mask&(1<<i) != 0 {
			s += string(kind)
		} else {
			s += "-"
		}
	}
	return s
}

// run executes the case; returns the signature of the disagreement ("" = ok),
// an observation class, and whether the operation was refused.
func (e *c32Env) run(v []int) (sig, class string) {
	mask := e.trees[v[0]]
	dirs := c32Mask(c32Dirs, e.sels[v[1]])
	tracked := c32Mask(c32Paths, mask)
	c1 := e.t.commit[e.commitName(mask, '1')]
	c2 := e.t.commit[e.commitName(mask, '2')]
	root := e.c.TempDir("c32")
	defer os.RemoveAll(root)
	defer hKeep(root, "c32")
	e.t.skel.instantiate(root, hConfig{FileMode: true}, "ref: refs/heads/main", map[string]string{"main": c1, "other": c2})
	g := e.t.g.In(root)

	repo, err := git.PlainOpen(root)
	if err != nil {
		fw.Abort("PlainOpen: %v", err)
	}
	defer repo.Close()
	w, err := repo.Worktree()
	if err != nil {
		fw.Abort("Worktree: %v", err)
	}
	// from-state
	switch v[2] {
	case 0: // fresh: no index, empty worktree
	case 1: // full checkout of main, index with stat data
		var ents []hIdxEntry
		for _, p := range tracked {
			hPut(root, p, '1', hOldTime)
			ents = append(ents, hIdxEntry{Path: p, Mode: 0o100644, OID: hKindOID('1'), StatOf: p})
		}
		hWriteIndex(root, ents)
	case 2, 3:
		d0 := []string{"a"}
		if v[2] == 3 {
			d0 = []string{"b", "a.b"}
		}
		err := hCall(func() error {
			return w.Checkout(&git.CheckoutOptions{Branch: "refs/heads/main", SparseCheckoutDirectories: d0})
		})
		if hPanicked(err) {
			return "op:E'ok'/'panic'", "panic"
		}
		if err != nil {
			return "", "from-state refused: " + err.Error()
		}
	}
	target := plumbing.NewHash(c1)
	branch := plumbing.ReferenceName("refs/heads/main")
	if v[4] == 1 {
		target = plumbing.NewHash(c2)
		branch = "refs/heads/other"
	}
	opErr := hCall(func() error {
		switch v[3] {
		case 0:
			return w.Checkout(&git.CheckoutOptions{Branch: branch, SparseCheckoutDirectories: dirs})
		case 1:
			return w.Checkout(&git.CheckoutOptions{Branch: branch, SparseCheckoutDirectories: dirs, Force: true})
		case 2:
			return w.Reset(&git.ResetOptions{Commit: target, Mode: git.HardReset, SparseDirs: dirs})
		}
		return w.Reset(&git.ResetOptions{Commit: target, Mode: git.MergeReset, SparseDirs: dirs})
	})
	if hPanicked(opErr) {
		return "op:E'ok'/'panic'", "panic"
	}
	if opErr != nil {
		return "", "refused: " + opErr.Error()
	}
	// expected
	kind := byte('1')
	if v[4] == 1 {
		kind = '2'
	}
	_, data := hKindSpec(kind)
	wantFS := map[string]string{}
	wantTag := map[string]string{}
	nin := 0
	for _, p := range tracked {
		if c32Inside(p, dirs) {
			wantFS[p] = "F:" + data
			wantTag[p] = "H"
			nin++
		} else {
			wantTag[p] = "S"
		}
	}
	gotFS := hSnapshotWT(root)
	for p, s := range gotFS {
		if s == "D:" { // an empty directory left behind is not a tracked file
			delete(gotFS, p)
		}
	}
	gotTag := map[string]string{}
	for _, rec := range strings.Split(string(g.MustRun("ls-files", "-t", "-z").Out), "\x00") {
		if len(rec) > 2 {
			gotTag[rec[2:]] = rec[:1]
		}
	}
	var items []string
	for _, p := range append(append([]string{}, c32Paths...), "") {
		if p == "" {
			for q := range gotFS {
				known := false
				for _, pp := range c32Paths {
					if pp == q {
						known = true
					}
				}
				if !known {
					items = append(items, fmt.Sprintf("%s:disk'absent'/'present'", q))
				}
			}
			continue
		}
		role := c32Role(p, dirs)
		if role == "prefix-sibling" && wantTag[p] == gotTag[p] {
			role = "outside" // the flag is right: whatever else is wrong is not the prefix trap
		}
		if wantFS[p] != gotFS[p] {
			st := func(s string) string {
				switch {
				case s == "":
					return "absent"
				case s == "F:"+data:
					return "target"
				}
				return "other"
			}
			items = append(items, fmt.Sprintf("%s:disk(%s)'%s'/'%s'", p, role, st(wantFS[p]), st(gotFS[p])))
		}
		if wantTag[p] != gotTag[p] {
			items = append(items, fmt.Sprintf("%s:flag(%s)'%s'/'%s'", p, role, wantTag[p], gotTag[p]))
		}
	}
	sort.Strings(items)
	st := hParsePorcelainZ(g.MustRun("status", "--porcelain=v1", "-z", "--untracked-files=all", "--no-renames").Out)
	if len(items) == 0 && len(st) != 0 {
		items = append(items, "status:git'clean'/'dirty'")
	}
	return strings.Join(items, ";"), fmt.Sprintf("ok in=%d of %d from=%d op=%d", nin, len(tracked), v[2], v[3])
}

// c32Role says how p relates to the selection: inside, sibling whose name has a
// selected directory as a string prefix (the a / ab trap), or outside.
func c32Role(p string, dirs []string) string {
	if c32Inside(p, dirs) {
		return "inside"
	}
	for _, d := range dirs {
		if strings.HasPrefix(p, d) {
			return "prefix-sibling"
		}
	}
	return "outside"
}

func runC32(c *fw.Ctx) {
	std := [2][]string{c32Paths, c32Dirs}
	c32Pass(c, "", false)
	// second universe: selections three components deep, with an excluded
	// sibling directory that sorts before the selected one (the directory nodes
	// a and a/b are then first reached through a skipped entry)
	c32Paths = []string{"a/b/c/x", "a/b/d/y", "a/b/z", "a/w", "top"}
	c32Dirs = []string{"a/b/c", "a/b/d", "a/b", "a"}
	c32Pass(c, "deep_", true)
	c32Paths, c32Dirs = std[0], std[1]
}

func c32Pass(c *fw.Ctx, label string, deep bool) {
	var kinds = "-12"
	// template: every non-empty subset of the six paths, all files '1' (main) or '2' (other)
	g, dir := c.InitRepo("c32tmpl"+label, "sha1", false)
	t := &hTemplate{g: g, dir: dir, paths: c32Paths, kinds: kinds, commit: map[string]string{}}
	var specs []fw.CommitSpec
	var names []string
	e := &c32Env{c: c, t: t}
	for m := 1; m < 1<<len(c32Paths); m++ {
		e.trees = append(e.trees, m)
		for _, k := range []byte{'1', '2'} {
			files := map[string]fw.FileSpec{}
			for _, p := range c32Mask(c32Paths, m) {
				mode, data := hKindSpec(k)
				files[p] = fw.FileSpec{Mode: mode, Data: data}
			}
			specs = append(specs, fw.CommitSpec{Time: 1700000000, Files: files})
			names = append(names, e.commitName(m, k))
		}
	}
	for i, id := range g.BuildHistory(specs, true) {
		t.commit[names[i]] = id
	}
	g.MustRun("pack-refs", "--all")
	g.MustRun("repack", "-adq")
	t.skel = hReadSkel(dir + "/.git")
	sort.SliceStable(e.trees, func(i, j int) bool { return bits.OnesCount(uint(e.trees[i])) < bits.OnesCount(uint(e.trees[j])) })
	for m := 1; m < 1<<len(c32Dirs); m++ {
		e.sels = append(e.sels, m)
	}
	sort.SliceStable(e.sels, func(i, j int) bool { return bits.OnesCount(uint(e.sels[i])) < bits.OnesCount(uint(e.sels[j])) })

	// enumerated trees: quick = the full tree, every tree with one path removed,
	// and the two-path trees pairing a/x with each sibling; thorough = all 63.
	var treeIdx []int
	for i, m := range e.trees {
		n := bits.OnesCount(uint(m))
		if deep && !(n == len(c32Paths) || m == 3) && !c.Thorough() {
			continue // quick, deep universe: the full tree and the two deep siblings alone
		}
		if c.Thorough() || n == len(c32Paths) || (n == 2 && m&1 != 0) {
			treeIdx = append(treeIdx, i)
		}
	}
	dims := e.dims()
	var cases [][]int
	for _, ti := range treeIdx {
		for si := range e.sels {
			for fr := 0; fr < c.Pick(3, dims[2]); fr++ {
				for op := 0; op < dims[3]; op++ {
					for tg := 0; tg < 2; tg++ {
						cases = append(cases, []int{ti, si, fr, op, tg})
					}
				}
			}
		}
	}
	c.Bound(label+"paths", c32Paths)
	c.Bound(label+"directories", c32Dirs)
	c.Bound(label+"trees", len(treeIdx))
	c.Bound(label+"selections", len(e.sels))
	c.Bound(label+"from_states", c32From)
	c.Bound(label+"ops", c32Ops)
	c.Bound(label+"cases", len(cases))
	c.SetRule("trees = subsets of 6 paths (quick: the full tree and the pairs with a/x; thorough: all 63) x all 31 non-empty subsets of 5 directories x from-state (fresh clone / full checkout / earlier sparse set [a] / thorough also [b a.b], made by go-git) x {Checkout, Checkout Force, Reset Hard, Reset Merge} x target {same commit, other commit with other contents}; after a successful op the on-disk files, the skip-worktree flags read by `git ls-files -t` and `git status` are compared with the component-wise membership predicate; refused operations (e.g. selected directory not in the tree) are counted as classes, not judged; non-trivial = op succeeded; distinct counts (files inside, files tracked, from, op)")
	c.Assume("the statement's predicate (path == d or path starts with d + '/') is the specification; git's cone mode (which always keeps root files) is NOT the oracle; git ls-files -t decodes the skip-worktree bit")

	if v := hDevVec(); v != nil {
		sig, class := e.run(v)
		fmt.Printf("case %s\n class %s\n disagreement %s\n", e.render(v), class, sig)
		return
	}
	var fails hFailures
	refused := map[string]int{}
	var rmu = make(chan struct{}, 1)
	c.ParDo(len(cases), 0, func(k int) {
		i := hSpread(k, len(cases))
		v := cases[i]
		sig, class := e.run(v)
		c.Eval()
		if strings.HasPrefix(class, "ok") {
			c.Class(class)
		} else {
			rmu <- struct{}{}
			k := class
			if j := strings.Index(k, ":"); j > 0 && len(k) > 60 {
				k = k[:60]
			}
			refused[k]++
			<-rmu
		}
		if i%499 == 0 {
			c.Sample(map[string]any{"case": e.render(v), "result": class, "disagreement": sig})
		}
		if sig != "" {
			// one class per (role-level disagreement, forced / non-forced op): the
			// tokens name roles (inside / outside / prefix-sibling), not paths
			opc := "non-forced op (Checkout, Reset Merge)"
			if v[3] == 1 || v[3] == 2 {
				opc = "forced op (Checkout Force, Reset Hard)"
			}
			for tok := range hSigTokens(sig) {
				fails.addHint(i, v, sig, tok+" after "+opc)
			}
		}
	})
	c.Extra(label+"refusals", refused)
	hReportClasses(c, &fails, e.render)
}

package checks

import (
	"bytes"
	"fmt"
	"os"
	"path/filepath"
	"sort"
	"strconv"
	"strings"
	"sync"
	"time"

	"github.com/go-git/go-billy/v6/osfs"
	"github.com/go-git/go-git/v6/plumbing"
	"github.com/go-git/go-git/v6/plumbing/cache"
	"github.com/go-git/go-git/v6/plumbing/format/reflog"
	"github.com/go-git/go-git/v6/storage/filesystem"

	"verifmc/fw"
)

// C52: reflog entries interoperate with git.
//
//	A. entries appended by go-git (filesystem storage, AppendReflog) are listed by
//	   `git log -g` with the same new id, identity, timestamp, zone and the message
//	   as git itself would have normalised it; old ids are checked through git's
//	   own chain check (`ref@{n}` warns "has gap" when old(n-1) != new(n)) and the
//	   oldest old id through `ref@{<ancient date>}`.
//	B. reflogs written by real git during generated histories are decoded by
//	   go-git (Storage.Reflog) into exactly the entries `git log -g` shows.

func init() {
	fw.Register(&fw.Check{ID: "C52", Level: "exploration", Run: runC52, QuickBudget: 100, ThoroughBudget: 1200})
}

type c52Shown struct {
	New, Name, Email, Subject string
	Secs                      int64
	Zone                      string
}

// c52GitLog lists the reflogs of refs with one git process; result per ref, newest first.
func c52GitLog(g *fw.Git, refs []string) map[string][]c52Shown {
	out := map[string][]c52Shown{}
	if len(refs) == 0 {
		return out
	}
	args := append([]string{"log", "-g", "--date=raw", "--format=%H%x00%gD%x00%gn%x00%ge%x00%gs%x00%x01"}, refs...)
	r := g.Run(args...)
	if !r.OK() {
		fw.Abort("git log -g failed (%d): %s", r.Code, r.Err)
	}
	for _, rec := range bytes.Split(r.Out, []byte{1}) {
		rec = bytes.TrimPrefix(rec, []byte("\n"))
		if len(rec) == 0 {
			continue
		}
		f := bytes.Split(rec, []byte{0})
		if len(f) < 6 {
			fw.Abort("git log -g: bad record %q", rec)
		}
		sel := string(f[1])
		at := strings.LastIndex(sel, "@{")
		if at < 0 || !strings.HasSuffix(sel, "}") {
			fw.Abort("git log -g: bad selector %q", sel)
		}
		ref := sel[:at]
		tz := strings.Fields(sel[at+2 : len(sel)-1])
		if len(tz) != 2 {
			fw.Abort("git log -g: bad raw date in %q", sel)
		}
		secs, err := strconv.ParseInt(tz[0], 10, 64)
		if err != nil {
			fw.Abort("git log -g: bad seconds in %q", sel)
		}
		out[ref] = append(out[ref], c52Shown{New: string(f[0]), Name: string(f[2]), Email: string(f[3]), Subject: string(f[4]), Secs: secs, Zone: tz[1]})
	}
	return out
}

func c52Zone(t time.Time) string {
	_, off := t.Zone()
	sign := "+"
	if off < 0 {
		sign = "-"
		off = -off
	}
	return fmt.Sprintf("%s%02d%02d", sign, off/3600, off%3600/60)
}

func c52ZoneSecs(z string) int {
	if len(z) != 5 {
		return 1 << 30
	}
	h, _ := strconv.Atoi(z[1:3])
	m, _ := strconv.Atoi(z[3:5])
	v := h*3600 + m*60
	if z[0] == '-' {
		v = -v
	}
	return v
}

func runC52(c *fw.Ctx) {
	c.SetRule("A: every entry of messages x zones x identities x timestamps appended alone to its own ref, plus every chain of <=3 entries over a reduced product, through filesystem Storage.AppendReflog, then listed by `git log -g --date=raw` (new id, name, e-mail, seconds, zone, subject) and chain-checked by `git rev-parse ref@{n}`; the expected subject is git's own normalisation of the message, obtained from real `git update-ref -m`; B: every sequence of <= max_ops operations of {commit, checkout -b, checkout main, reset --hard HEAD~1, branch -m, update-ref -m} run by real git with rotating committer identities/zones, every reflog file then decoded by Storage.Reflog and compared entry by entry with `git log -g`; non-trivial = an entry with a message needing normalisation, a non-UTC zone or an odd identity (A), a history with at least 3 reflog entries (B); distinct = (part, message shape, zone, identity shape, number of entries) classes")
	c.Assume("git log -g lists every reflog entry whose new id is a commit and none whose new id is null (branch renames write such entries; they are left out of the comparison); a zero timestamp is excluded (git treats such a line as corrupt); a zone of -0000 cannot be represented by time.Time and git itself rewrites it to +0000 when writing, so zones are compared as offsets; identities containing '<', '>' or a newline are outside the space (they cannot be represented in the line format by git either); old ids are observed through git's gap warning and date look-up, the only places git exposes them")
	c52Concurrent(c)
	if os.Getenv("S13_ONLY_NEW") == "" { // development aid: skip the unchanged parts
		c52A(c)
	}
	c52B(c)
}

// ------------------------------------------------------------------ part A

type c52Ident struct{ Name, Email string }

func c52A(c *fw.Ctx) {
	messages := []string{"m", "", "two words", " lead", "trail ", "a\tb", "a\nb", "a  b", "a\r\nb", "\n", "x\n\ny ", "caf\xc3\xa9", "a\x0bb", "a\xc2\xa0b"}
	zones := []int{0, 5*3600 + 1800, -12 * 3600, 14 * 3600, -(3*3600 + 1800), 59 * 60}
	idents := []c52Ident{{"A U Thor", "author@example.com"}, {"", "a@x"}, {"NoMail", ""}, {"J\xc3\xbcrgen, Jr.", "j@x"}}
	times := []int64{1, 1700000000, 1 << 31, 1<<32 + 5} // 0 is excluded: git treats a zero timestamp as a corrupt reflog line
	c.Bound("a_messages", messages)
	c.Bound("a_zone_offsets_s", zones)
	c.Bound("a_identities", idents)
	c.Bound("a_timestamps", times)

	g, dir := c.InitRepo("c52a", "sha1", false)
	ids := g.BuildHistory([]fw.CommitSpec{
		{Time: 1600000000, Files: map[string]fw.FileSpec{"f": {Data: "1\n"}}},
		{Parents: []int{0}, Time: 1600000100, Files: map[string]fw.FileSpec{"f": {Data: "2\n"}}},
		{Parents: []int{1}, Time: 1600000200, Files: map[string]fw.FileSpec{"f": {Data: "3\n"}}},
	}, false)
	zero := strings.Repeat("0", 40)

	// git's own normalisation of each message (the reference for %gs)
	norm := make([]string, len(messages))
	for i, m := range messages {
		ref := fmt.Sprintf("refs/heads/norm%d", i)
		if m == "" { // git refuses an explicitly empty -m; without -m the entry has no message
			g.MustRun("update-ref", ref, ids[0])
		} else {
			g.MustRun("update-ref", "-m", m, ref, ids[0])
		}
		sh := c52GitLog(g, []string{ref})[ref]
		if len(sh) != 1 {
			fw.Abort("normalisation probe: %d entries for %s", len(sh), ref)
		}
		norm[i] = sh[0].Subject
	}
	c.Extra("a_git_normalised_messages", norm)

	type entrySpec struct{ msg, zone, ident, time, old, new int } // old/new: -1 = zero id, else commit index
	type refCase struct {
		ref     string
		entries []entrySpec
	}
	var cases []refCase
	n := 0
	for mi := range messages {
		for zi := range zones {
			for ii := range idents {
				for ti := range times {
					cases = append(cases, refCase{fmt.Sprintf("refs/heads/s%d", n), []entrySpec{{mi, zi, ii, ti, -1, n % 3}}})
					n++
				}
			}
		}
	}
	// chains of 2..3 entries over a reduced product (messages x zones, rotating identities/times)
	chainLen := c.Pick(3, 3)
	redM := []int{0, 1, 5, 6}
	redZ := []int{0, 1, 4}
	pairs := len(redM) * len(redZ)
	for l := 2; l <= chainLen; l++ {
		for _, v := range fw.Product(func() []int {
			d := make([]int, l)
			for i := range d {
				d[i] = pairs
			}
			return d
		}()...) {
			var es []entrySpec
			prev := -1
			for k, x := range v {
				nw := (prev + 1 + k) % 3
				es = append(es, entrySpec{redM[x/len(redZ)], redZ[x%len(redZ)], k % len(idents), (1 + k) % len(times), prev, nw})
				prev = nw
			}
			cases = append(cases, refCase{fmt.Sprintf("refs/heads/c%d", n), es})
			n++
		}
	}
	c.Bound("a_refs", len(cases))

	// create the refs without letting git write reflog entries itself
	var in bytes.Buffer
	for _, cs := range cases {
		last := cs.entries[len(cs.entries)-1]
		fmt.Fprintf(&in, "create %s %s\n", cs.ref, ids[last.new])
	}
	g.C("core.logAllRefUpdates=false").MustRunIn(in.Bytes(), "update-ref", "--stdin")

	st := filesystem.NewStorage(osfs.New(filepath.Join(dir, ".git")), cache.NewObjectLRUDefault())
	hash := func(i int) plumbing.Hash {
		if i < 0 {
			return plumbing.NewHash(zero)
		}
		return plumbing.NewHash(ids[i])
	}
	var mu sync.Mutex
	appendErr := map[string]string{}
	c.ParDo(len(cases), 0, func(i int) {
		cs := cases[i]
		for _, e := range cs.entries {
			c.Eval()
			err := func() (err error) {
				defer func() {
					if r := recover(); r != nil {
						err = fmt.Errorf("panic: %v", r)
					}
				}()
				id := idents[e.ident]
				return st.AppendReflog(plumbing.ReferenceName(cs.ref), &reflog.Entry{
					OldHash: hash(e.old), NewHash: hash(e.new),
					Committer: reflog.Signature{Name: id.Name, Email: id.Email, When: time.Unix(times[e.time], 0).In(time.FixedZone("", zones[e.zone]))},
					Message:   messages[e.msg],
				})
			}()
			if err != nil {
				mu.Lock()
				appendErr[cs.ref] = err.Error()
				mu.Unlock()
			}
		}
	})
	if c.Expired() {
		return
	}

	// one git process per 400 refs
	const chunk = 400
	type failure struct{ key, what string }
	var fails []failure
	shape := func(m string) string {
		s := ""
		for _, ch := range []string{"\t", "\n", "\r", "  ", "\x0b"} {
			if strings.Contains(m, ch) {
				s += fmt.Sprintf("%q", ch)
			}
		}
		if m == "" {
			s += "empty"
		}
		if strings.HasPrefix(m, " ") || strings.HasSuffix(m, " ") {
			s += "edge-space"
		}
		return s
	}
	c.ParDo((len(cases)+chunk-1)/chunk, 0, func(ci int) {
		lo, hi := ci*chunk, (ci+1)*chunk
		if hi > len(cases) {
			hi = len(cases)
		}
		var refs []string
		for _, cs := range cases[lo:hi] {
			refs = append(refs, cs.ref)
		}
		shown := c52GitLog(g, refs)
		// chain check: ref@{n} for every n>=1 of multi-entry refs, and the oldest old id
		var rp []string
		for _, cs := range cases[lo:hi] {
			for k := 1; k < len(cs.entries); k++ {
				rp = append(rp, fmt.Sprintf("%s@{%d}", cs.ref, k))
			}
		}
		gapRefs := map[string]bool{}
		if len(rp) > 0 {
			r := g.Run(append([]string{"rev-parse"}, rp...)...)
			for _, l := range strings.Split(string(r.Err), "\n") {
				if strings.Contains(l, "has gap") {
					for _, cs := range cases[lo:hi] {
						if strings.Contains(l, "log for ref "+cs.ref+" has gap") {
							gapRefs[cs.ref] = true
						}
					}
				}
			}
			if !r.OK() {
				gapRefs["<rev-parse failed: "+strings.TrimSpace(string(r.Err))+">"] = true
			}
		}
		mu.Lock()
		defer mu.Unlock()
		for gr := range gapRefs {
			if strings.HasPrefix(gr, "<") {
				fails = append(fails, failure{"A chain: git cannot resolve ref@{n} in a reflog go-git wrote", gr})
			}
		}
		for _, cs := range cases[lo:hi] {
			if e, bad := appendErr[cs.ref]; bad {
				fails = append(fails, failure{"A AppendReflog fails: " + e, cs.ref})
				continue
			}
			sh := shown[cs.ref]
			if len(sh) != len(cs.entries) {
				e := cs.entries[0]
				fails = append(fails, failure{fmt.Sprintf("A git lists %d entries instead of %d: message %s identity %q", len(sh), len(cs.entries), fw.Q(messages[e.msg]), idents[e.ident]), cs.ref})
				continue
			}
			if gapRefs[cs.ref] {
				fails = append(fails, failure{"A old id: git reports a gap in a chain whose old ids equal the previous new ids", cs.ref})
			}
			for k, e := range cs.entries {
				got := sh[len(sh)-1-k] // git lists newest first
				id := idents[e.ident]
				c.Class(fmt.Sprintf("A|%s|%d|%v%v|%d", shape(messages[e.msg]), zones[e.zone], id.Name == "", id.Email == "", len(cs.entries)))
				var diffs []string
				if got.New != ids[e.new] {
					diffs = append(diffs, "new id")
				}
				if got.Name != id.Name || got.Email != id.Email {
					diffs = append(diffs, fmt.Sprintf("identity(%q)", id))
				}
				if got.Secs != times[e.time] {
					diffs = append(diffs, fmt.Sprintf("timestamp(%d)", times[e.time]))
				}
				if c52ZoneSecs(got.Zone) != zones[e.zone] {
					diffs = append(diffs, fmt.Sprintf("zone(%d s shown as %s)", zones[e.zone], got.Zone))
				}
				if got.Subject != norm[e.msg] {
					diffs = append(diffs, fmt.Sprintf("message(%s: git's own normalisation %s, listed %s)", fw.Q(messages[e.msg]), fw.Q(norm[e.msg]), fw.Q(got.Subject)))
				}
				if len(diffs) > 0 {
					fails = append(fails, failure{"A git lists a different " + strings.Join(diffs, ", "), fmt.Sprintf("%s entry %d: %+v", cs.ref, k, got)})
				}
			}
		}
	})
	sort.Slice(fails, func(a, b int) bool { return fails[a].key+fails[a].what < fails[b].key+fails[b].what })
	for _, f := range fails {
		c.Fail(f.key, f.key+" :: "+f.what, map[string]any{"detail": f.what})
	}
	c.Sample(map[string]any{"part": "A", "message": messages[6], "git_normalises_to": norm[6]})
}

// ------------------------------------------------------------------ part B

func c52B(c *fw.Ctx) {
	if os.Getenv("S13_ONLY_NEW") == "" {
		c52BFmt(c, "sha1", 40, c.Pick(3, 4), "B")
	} else {
		c52BFmt(c, "sha1", 40, 1, "B")
	}
	// the same with 64-digit object ids (the decoder splits the line at the ids)
	c52BFmt(c, "sha256", 64, c.Pick(2, 3), "B256")
	c52A256(c)
}

func c52BFmt(c *fw.Ctx, objFormat string, hexLen, maxOps int, part string) {
	ops := []string{"commit", "checkout -b", "checkout main", "reset --hard HEAD~1", "branch -m", "update-ref -m"}
	c.Bound(strings.ToLower(part)+"_ops", ops)
	c.Bound(strings.ToLower(part)+"_max_ops", maxOps)
	seqs := fw.Seqs(len(ops), maxOps)
	type who struct{ name, email, zone string }
	whos := []who{{"C O Mitter", "c@example.com", "+0000"}, {"Zed", "z@x", "+0530"}, {"J\xc3\xbcrgen", "j@x", "-1200"}, {"Half", "h@x", "-0330"}, {"Dash", "d@x", "-0000"},
		{"Ta\tb", "t@x", "+0545"}, {"Dot.", "a b@x", "-0930"}}
	c.Bound(strings.ToLower(part)+"_committers", whos)
	type failure struct{ key, what string }
	var mu sync.Mutex
	var fails []failure
	c.ParDo(len(seqs), 0, func(si int) {
		seq := seqs[si]
		g0, dir := c.InitRepo("c52b", objFormat, false)
		defer os.RemoveAll(dir)
		step := 0
		run := func(args ...string) {
			w := whos[step%len(whos)]
			date := fmt.Sprintf("%d %s", 1700000000+step*1000, w.zone)
			g := g0.With("GIT_COMMITTER_NAME="+w.name, "GIT_COMMITTER_EMAIL="+w.email, "GIT_COMMITTER_DATE="+date, "GIT_AUTHOR_DATE="+date)
			g.Run(args...) // failures (e.g. reset without a parent) are part of the history
			step++
		}
		run("commit", "-q", "--allow-empty", "-m", "root")
		for k, op := range seq {
			switch op {
			case 0:
				run("commit", "-q", "--allow-empty", "-m", fmt.Sprintf("commit  %d\n\nbody", k))
			case 1:
				run("checkout", "-q", "-b", fmt.Sprintf("b%d", k))
			case 2:
				run("checkout", "-q", "main")
			case 3:
				run("reset", "-q", "--hard", "HEAD~1")
			case 4:
				run("branch", "-m", fmt.Sprintf("r%d", k))
			case 5:
				run("update-ref", "-m", fmt.Sprintf("  upd\t%d  \n x ", k), fmt.Sprintf("refs/heads/u%d", k), "HEAD")
			}
		}
		// all reflog files git wrote
		var refs []string
		logs := filepath.Join(dir, ".git", "logs")
		filepath.Walk(logs, func(p string, info os.FileInfo, err error) error {
			if err == nil && !info.IsDir() {
				rel, _ := filepath.Rel(logs, p)
				refs = append(refs, filepath.ToSlash(rel))
			}
			return nil
		})
		sort.Strings(refs)
		// git can only walk the reflog of a ref that still resolves
		var live []string
		for _, r := range refs {
			if _, err := os.Stat(filepath.Join(dir, ".git", filepath.FromSlash(r))); err == nil {
				live = append(live, r)
			}
		}
		shown := c52GitLog(g0, live)
		st := filesystem.NewStorage(osfs.New(filepath.Join(dir, ".git")), cache.NewObjectLRUDefault())
		total := 0
		for _, ref := range live {
			c.Eval()
			var es []*reflog.Entry
			var err error
			func() {
				defer func() {
					if r := recover(); r != nil {
						err = fmt.Errorf("panic: %v", r)
					}
				}()
				es, err = st.Reflog(plumbing.ReferenceName(ref))
			}()
			raw, _ := os.ReadFile(filepath.Join(logs, filepath.FromSlash(ref)))
			rawLines := strings.Split(strings.TrimSuffix(string(raw), "\n"), "\n")
			if err == nil && len(es) == len(rawLines) { // old ids: first 40 hex digits of each line (format fact)
				for k, e := range es {
					if len(rawLines[k]) > hexLen && e.OldHash.String() != rawLines[k][:hexLen] {
						mu.Lock()
						fails = append(fails, failure{part + " go-git decodes a different old id", fmt.Sprintf("ops %v ref %s entry %d", seq, ref, k)})
						mu.Unlock()
					}
				}
			}
			sh := shown[ref]
			total += len(sh)
			add := func(key, what string) {
				mu.Lock()
				fails = append(fails, failure{key, fmt.Sprintf("ops %v ref %s: %s", seq, ref, what)})
				mu.Unlock()
			}
			if err != nil {
				why := err.Error()
				if i := strings.Index(why, ":"); i > 0 {
					why = why[:i]
				}
				add(part+" go-git cannot decode a reflog git wrote: "+why, fmt.Sprintf("%v; file %q", err, raw))
				continue
			}
			// `git log -g` does not show entries whose new id is null (branch renames write one)
			var vis []*reflog.Entry
			for _, e := range es {
				if !e.NewHash.IsZero() {
					vis = append(vis, e)
				}
			}
			es = vis
			if len(es) != len(sh) {
				add(part+" go-git decodes a different number of entries than git shows", fmt.Sprintf("%d vs %d; file %q", len(es), len(sh), raw))
				continue
			}
			for k, e := range es {
				got := sh[len(sh)-1-k]
				var diffs []string
				if e.NewHash.String() != got.New {
					diffs = append(diffs, "new id")
				}
				if e.Committer.Name != got.Name || e.Committer.Email != got.Email {
					diffs = append(diffs, "identity")
				}
				if e.Committer.When.Unix() != got.Secs {
					diffs = append(diffs, "timestamp")
				}
				if c52ZoneSecs(c52Zone(e.Committer.When)) != c52ZoneSecs(got.Zone) {
					diffs = append(diffs, "zone")
				}
				if e.Message != got.Subject {
					diffs = append(diffs, "message")
				}
				if len(diffs) > 0 {
					add(part+" go-git decodes a different "+strings.Join(diffs, ", "), fmt.Sprintf("entry %d: go-git %+v, git %+v", k, *e, got))
				}
			}
		}
		if total >= 3 {
			c.Class(fmt.Sprintf("%s|%d refs|%d entries", part, len(live), total))
		}
		if si%97 == 11 {
			c.Sample(map[string]any{"part": part, "ops": seq, "refs": live, "entries_shown_by_git": total})
		}
	})
	sort.Slice(fails, func(a, b int) bool { return fails[a].key+fails[a].what < fails[b].key+fails[b].what })
	for _, f := range fails {
		c.Fail(f.key, f.key+" :: "+f.what, map[string]any{"detail": f.what})
	}
}

// c52A256: go-git appends to a reflog of a sha256 repository (64-digit ids,
// including the all-zero old id of a created ref); git lists and chain-checks it.
func c52A256(c *fw.Ctx) {
	g, dir := c.InitRepo("c52a256", "sha256", false)
	ids := g.BuildHistory([]fw.CommitSpec{
		{Time: 1600000000, Files: map[string]fw.FileSpec{"f": {Data: "1\n"}}},
		{Parents: []int{0}, Time: 1600000100, Files: map[string]fw.FileSpec{"f": {Data: "2\n"}}},
		{Parents: []int{1}, Time: 1600000200, Files: map[string]fw.FileSpec{"f": {Data: "3\n"}}},
	}, false)
	if len(ids[0]) != 64 {
		fw.Abort("sha256 repository gives %d-digit ids", len(ids[0]))
	}
	zones := []int{0, 5*3600 + 1800, -(3*3600 + 1800)}
	msgs := []string{"first", "", " two  words\n"}
	want := []string{"first", "", "two words"}
	st := filesystem.NewStorage(osfs.New(filepath.Join(dir, ".git")), cache.NewObjectLRUDefault())
	var fails [][2]string
	for variant, zeroOld := range []plumbing.Hash{plumbing.NewHash(strings.Repeat("0", 64)), plumbing.ZeroHash} {
		ref := fmt.Sprintf("refs/heads/z%d", variant)
		g.C("core.logAllRefUpdates=false").MustRun("update-ref", ref, ids[2])
		prev := zeroOld
		var aerr error
		for k := 0; k < 3; k++ {
			c.Eval()
			func() {
				defer func() {
					if r := recover(); r != nil {
						aerr = fmt.Errorf("panic: %v", r)
					}
				}()
				if err := st.AppendReflog(plumbing.ReferenceName(ref), &reflog.Entry{OldHash: prev, NewHash: plumbing.NewHash(ids[k]),
					Committer: reflog.Signature{Name: "A U Thor", Email: "a@x", When: time.Unix(1700000000+int64(k), 0).In(time.FixedZone("", zones[k]))}, Message: msgs[k]}); err != nil {
					aerr = err
				}
			}()
			prev = plumbing.NewHash(ids[k])
		}
		vname := []string{"64-digit zero id", "plumbing.ZeroHash"}[variant]
		if aerr != nil {
			fails = append(fails, [2]string{"A256 AppendReflog fails (" + vname + ")", aerr.Error()})
			continue
		}
		raw, _ := os.ReadFile(filepath.Join(dir, ".git", "logs", filepath.FromSlash(ref)))
		r := g.Run("log", "-g", "--date=raw", "--format=%H%x00%gD%x00%gn%x00%ge%x00%gs%x00%x01", ref)
		sh := c52GitLog(g, []string{ref})[ref]
		c.Class(fmt.Sprintf("A256|%s|%d entries listed", vname, len(sh)))
		if len(sh) != 3 {
			fails = append(fails, [2]string{"A256 git lists a different number of entries (" + vname + " as the old id of a created ref)", fmt.Sprintf("%d of 3 (stderr %q); file %q", len(sh), r.Err, raw)})
			continue
		}
		for k := 0; k < 3; k++ {
			got := sh[2-k]
			if got.New != ids[k] || got.Name != "A U Thor" || got.Email != "a@x" || got.Secs != 1700000000+int64(k) || c52ZoneSecs(got.Zone) != zones[k] || got.Subject != want[k] {
				fails = append(fails, [2]string{"A256 git lists a different entry", fmt.Sprintf("entry %d: %+v; file %q", k, got, raw)})
			}
		}
		for k := 0; k < 3; k++ {
			rr := g.Run("rev-parse", "--verify", fmt.Sprintf("%s@{%d}", ref, k))
			if !rr.OK() || rr.S() != ids[2-k] || bytes.Contains(rr.Err, []byte("gap")) || bytes.Contains(rr.Err, []byte("warning")) {
				fails = append(fails, [2]string{"A256 git's chain check of ref@{n} fails (" + vname + ")", fmt.Sprintf("%s@{%d}: %q %q", ref, k, rr.Out, rr.Err)})
			}
		}
	}
	for _, f := range fails {
		c.Fail(f[0], f[0]+" :: "+f[1], map[string]any{"detail": f[1]})
	}
}

package checks

import (
	"bytes"
	"fmt"
	"os"
	"path/filepath"
	"sort"
	"strings"
	"sync"

	"github.com/go-git/go-billy/v6/memfs"
	"github.com/go-git/go-git/v6/plumbing/format/gitignore"

	"verifmc/fw"
)

// Further spaces of C49 (called from runC49), each on the far side of a
// shortcut the token enumeration cannot reach inside its bound:
//
//	G  three nested files (.gitignore, a/.gitignore, a/b/.gitignore) and paths
//	   four levels deep: two-component domains, three priority levels
//	H  one pattern built from whole segments (a b * ** ab ?) up to three
//	   segments, anchored / negated / directory-only, in the root file or in
//	   a/.gitignore: `**` in the middle, `**` spanning several directories
//	I  bracket expressions, escapes and names made of special characters
//	F  the file format: CRLF, no final newline, BOM, very long lines, many
//	   lines, in each of the three kinds of ignore file

// c49Files: ignore-file contents by place: "" = .gitignore, "a" = a/.gitignore,
// "a/b" = a/b/.gitignore, "excl" = .git/info/exclude.
type c49Files map[string][]byte

func (f c49Files) String() string {
	var ks []string
	for k := range f {
		ks = append(ks, k)
	}
	sort.Strings(ks)
	var out []string
	for _, k := range ks {
		name := ".gitignore"
		switch {
		case k == "excl":
			name = "info/exclude"
		case k != "":
			name = k + "/.gitignore"
		}
		body := string(f[k])
		if len(body) > 80 {
			body = fmt.Sprintf("%s...(%d bytes)...%s", body[:24], len(body), body[len(body)-24:])
		}
		out = append(out, name+"="+fw.Q(body))
	}
	return strings.Join(out, " ")
}

func c49GoGit(files c49Files, qs []igQuery) (res []bool, panicked any) {
	defer func() {
		if r := recover(); r != nil {
			panicked = r
		}
	}()
	fs := memfs.New()
	fs.MkdirAll(".git/info", 0o755)
	for k, data := range files {
		p := ".gitignore"
		switch {
		case k == "excl":
			p = ".git/info/exclude"
		case k != "":
			fs.MkdirAll(k, 0o755)
			p = k + "/.gitignore"
		}
		f, err := fs.Create(p)
		if err != nil {
			fw.Abort("memfs create %s: %v", p, err)
		}
		f.Write(data)
		f.Close()
	}
	rootPs, err := gitignore.RootPatterns(fs)
	if err != nil {
		fw.Abort("RootPatterns: %v", err)
	}
	scopes := map[string]*gitignore.Scope{}
	var scopeOf func(dir []string) *gitignore.Scope
	scopeOf = func(dir []string) *gitignore.Scope {
		k := strings.Join(dir, "/")
		if s, ok := scopes[k]; ok {
			return s
		}
		var parent *gitignore.Scope
		if len(dir) == 0 {
			parent = gitignore.NewScope(rootPs)
		} else {
			parent = scopeOf(dir[:len(dir)-1])
		}
		var readOwn func() ([]gitignore.Pattern, error)
		if _, ok := files[k]; ok && k != "" {
			d := append([]string{}, dir...)
			readOwn = func() ([]gitignore.Pattern, error) { return gitignore.DirPatterns(fs, d) }
		}
		s, err := parent.Descend(append([]string{}, dir...), readOwn)
		if err != nil {
			fw.Abort("Scope.Descend(%v): %v", dir, err)
		}
		scopes[k] = s
		return s
	}
	res = make([]bool, len(qs))
	for i, q := range qs {
		comps := strings.Split(q.Path, "/")
		res[i] = scopeOf(comps[:len(comps)-1]).Match(comps, q.IsDir)
	}
	return res, nil
}

// c49Forest2: a work tree with `slots` configurations side by side, each with a
// layout where every queried path is a directory (.d) and one where only the
// directories holding ignore files exist (.f).
type c49Forest2 struct {
	repo string
}

func c49NewForest2(c *fw.Ctx, dirs []string, slots int) *c49Forest2 {
	repo := c.TempDir("c49-forest2")
	igRepoSkeleton(c, repo)
	for s := 0; s < slots; s++ {
		base := filepath.Join(repo, fmt.Sprintf("c%d", s))
		c.Must(os.MkdirAll(base+".f", 0o755), "mkdir")
		c.Must(os.MkdirAll(base+".d", 0o755), "mkdir")
		for _, d := range dirs {
			c.Must(os.MkdirAll(filepath.Join(base+".d", d), 0o755), "mkdir")
		}
	}
	return &c49Forest2{repo}
}

func (f *c49Forest2) place(c *fw.Ctx, slot int, files c49Files) {
	base := filepath.Join(f.repo, fmt.Sprintf("c%d", slot))
	for _, suffix := range []string{".d", ".f"} {
		root := base + suffix
		if suffix == ".f" {
			os.RemoveAll(filepath.Join(root, "a"))
		}
		for _, k := range []string{"", "a", "a/b"} {
			p := filepath.Join(root, k, ".gitignore")
			data, ok := files[k]
			if !ok {
				os.Remove(p)
				continue
			}
			c.Must(os.MkdirAll(filepath.Join(root, k), 0o755), "mkdir")
			c.Must(os.WriteFile(p, data, 0o644), "write")
		}
	}
}

// c49Queries: the queries that make sense for files (a directory holding an
// ignore file cannot be asked about as a regular file).
func c49Queries(files c49Files, all []igQuery) []igQuery {
	isDir := map[string]bool{}
	for k := range files {
		if k == "" || k == "excl" {
			continue
		}
		parts := strings.Split(k, "/")
		for i := range parts {
			isDir[strings.Join(parts[:i+1], "/")] = true
		}
	}
	if len(isDir) == 0 {
		return all
	}
	var out []igQuery
	for _, q := range all {
		if !q.IsDir && isDir[q.Path] {
			continue
		}
		out = append(out, q)
	}
	return out
}

// c49AsRoot answers with the files at the real root of a work tree.
func c49AsRoot(c *fw.Ctx, g *fw.Git, files c49Files, dirs []string, qs []igQuery) []igAnswer {
	base := c.TempDir("c49-root2")
	defer os.RemoveAll(base)
	out := make([]igAnswer, len(qs))
	for _, suffix := range []string{".d", ".f"} {
		repo := filepath.Join(base, "w"+suffix)
		igRepoSkeleton(c, repo)
		if suffix == ".d" {
			for _, d := range dirs {
				c.Must(os.MkdirAll(filepath.Join(repo, d), 0o755), "mkdir")
			}
		}
		for k, data := range files {
			p := filepath.Join(repo, k, ".gitignore")
			if k == "excl" {
				p = filepath.Join(repo, ".git", "info", "exclude")
			}
			c.Must(os.MkdirAll(filepath.Dir(p), 0o755), "mkdir")
			c.Must(os.WriteFile(p, data, 0o644), "write")
		}
		var in bytes.Buffer
		var idx []int
		for j, q := range qs {
			if q.IsDir == (suffix == ".d") {
				in.WriteString(q.Path)
				in.WriteByte(0)
				idx = append(idx, j)
			}
		}
		if len(idx) == 0 {
			continue
		}
		r := g.In(repo).RunIn(in.Bytes(), "check-ignore", "--no-index", "-v", "-n", "-z", "--stdin")
		if r.Code != 0 && r.Code != 1 {
			fw.Abort("git check-ignore failed (%d): %s", r.Code, r.Err)
		}
		f := bytes.Split(r.Out, []byte{0})
		if len(f) != 4*len(idx)+1 {
			fw.Abort("git check-ignore: %d fields for %d queries; stderr=%s", len(f)-1, len(idx), r.Err)
		}
		for k, j := range idx {
			pat := string(f[4*k+2])
			if string(f[4*k+3]) != qs[j].Path {
				fw.Abort("git check-ignore answered for %q, expected %q", f[4*k+3], qs[j].Path)
			}
			out[j] = igAnswer{Ignored: pat != "" && !strings.HasPrefix(pat, "!"), Pattern: pat, Source: string(f[4*k])}
		}
	}
	return out
}

type c49Diff struct {
	idx   int
	files c49Files
	dir   int // 0 go-git only, 1 git only, 2 panic
	q     igQuery
	pv    any
}

func c49Lines(b []byte) []string {
	var out []string
	for _, l := range strings.Split(string(b), "\n") {
		l = strings.TrimSuffix(l, "\r")
		if l != "" {
			out = append(out, l)
		}
	}
	return out
}

// c49Report turns the disagreements of one kind into violation keys: the known
// defect families by class (same classes as the token enumeration), anything
// else by its own configuration and path, a few per kind, simplest first.
func c49Report(c *fw.Ctx, kind string, diffs []c49Diff) {
	sort.Slice(diffs, func(a, b int) bool {
		if diffs[a].idx != diffs[b].idx {
			return diffs[a].idx < diffs[b].idx
		}
		return diffs[a].dir < diffs[b].dir
	})
	dirNames := []string{"go-git ignores, git does not", "git ignores, go-git does not", "go-git panics"}
	own := 0
	for _, d := range diffs {
		cfg := igConfig{Root: c49Lines(d.files[""]), Excl: c49Lines(d.files["excl"])}
		cfg.Sub = append(c49Lines(d.files["a"]), c49Lines(d.files["a/b"])...)
		key := ""
		if d.dir < 2 {
			if cl := c49DefectClass(d.dir, cfg, d.q); cl != "" {
				key = dirNames[d.dir] + ": class " + cl
			} else if len(d.files) == 1 && d.files["a"] != nil && strings.HasPrefix(d.q.Path, "a/") {
				// the same families seen from a/.gitignore: its patterns are relative to a/
				if cl := c49DefectClass(d.dir, igConfig{Root: c49Lines(d.files["a"])}, igQuery{strings.TrimPrefix(d.q.Path, "a/"), d.q.IsDir}); cl != "" {
					key = dirNames[d.dir] + ": class " + cl
				}
			}
			if key == "" && d.dir == 1 && d.q.IsDir {
				// the trailing-`/**` defect in its negated form: `!x/**` matches the
				// directory x itself and re-includes it; for git x stays ignored
				for _, data := range d.files {
					for _, l := range c49Lines(data) {
						if t := strings.TrimSuffix(strings.TrimRight(l, " "), "/"); strings.HasPrefix(t, "!") && strings.HasSuffix(t, "/**") {
							key = dirNames[1] + ": class a trailing `/**` matches the directory itself (negated form: `!x/**` re-includes the directory x)"
						}
					}
				}
			}
			if key == "" {
				for _, data := range d.files {
					for _, l := range c49Lines(data) {
						if t := strings.TrimRight(l, " "); t != l && strings.HasSuffix(t, "\\") && len(l)-len(t) >= 2 {
							key = "class trailing blanks after an escaped blank: the escaped blank is trimmed as well"
						}
					}
				}
			}
		}
		if key == "" {
			if own >= 8 {
				continue
			}
			own++
			kindS := "file"
			if d.q.IsDir {
				kindS = "dir"
			}
			key = fmt.Sprintf("%s: kind %s %s path=%s (%s)", dirNames[d.dir], kind, d.files, fw.Q(d.q.Path), kindS)
		}
		c.Fail(key, fmt.Sprintf("%s (kind %s: %s, path %s)", key, kind, d.files, fw.Q(d.q.Path)),
			map[string]any{"kind": kind, "files": d.files.String(), "path": d.q.Path, "is_dir": d.q.IsDir, "direction": dirNames[d.dir], "panic": fmt.Sprint(d.pv)})
	}
}

// c49RunBatched evaluates n configurations (cfgAt) against the query set in
// forests of 256 slots.
func c49RunBatched(c *fw.Ctx, g *fw.Git, kind string, dirs []string, allQ []igQuery, n int, cfgAt func(i int) c49Files) {
	const chunk = 256
	nChunks := (n + chunk - 1) / chunk
	nForest := 8 // each forest is reused for several chunks: creating its directories is the expensive part
	if (nChunks+1)/2 < nForest {
		nForest = (nChunks + 1) / 2
	}
	forests := make(chan *c49Forest2, nForest)
	c.ParDo(nForest, 0, func(int) { forests <- c49NewForest2(c, dirs, chunk) })
	if len(forests) < nForest {
		return
	}
	var mu sync.Mutex
	var diffs []c49Diff
	c.ParDo(nChunks, 0, func(ci int) {
		f := <-forests
		defer func() { forests <- f }()
		var names []string
		var cfgs []c49Files
		var qss [][]igQuery
		for i := ci * chunk; i < (ci+1)*chunk && i < n; i++ {
			files := cfgAt(i)
			f.place(c, i-ci*chunk, files)
			names = append(names, fmt.Sprintf("c%d", i-ci*chunk))
			cfgs = append(cfgs, files)
			qss = append(qss, c49Queries(files, allQ))
		}
		ans := igGitBatch(g, f.repo, names, qss)
		var local []c49Diff
		for k := range names {
			local = append(local, c49Compare(c, kind, ci*chunk+k, cfgs[k], qss[k], ans[k])...)
		}
		mu.Lock()
		diffs = append(diffs, local...)
		mu.Unlock()
	})
	c49Report(c, kind, diffs)
}

func c49Compare(c *fw.Ctx, kind string, idx int, files c49Files, qs []igQuery, ans []igAnswer) []c49Diff {
	for _, data := range files {
		for _, l := range c49Lines(data) {
			if c49LegacyShape(l) {
				return nil
			}
		}
	}
	got, pv := c49GoGit(files, qs)
	if pv != nil {
		return []c49Diff{{idx, files, 2, qs[0], pv}}
	}
	var out []c49Diff
	seen := [2]bool{}
	for j, q := range qs {
		c.Eval()
		if ans[j].Pattern != "" || got[j] {
			c.Class(fmt.Sprintf("%s|%v|%v|%d|%v|%v", kind, ans[j].Ignored, got[j], strings.Count(q.Path, "/"), q.IsDir, strings.HasPrefix(ans[j].Pattern, "!")))
		}
		if got[j] && !ans[j].Ignored && !seen[0] {
			seen[0] = true
			out = append(out, c49Diff{idx, files, 0, q, nil})
		}
		if !got[j] && ans[j].Ignored && !seen[1] {
			seen[1] = true
			out = append(out, c49Diff{idx, files, 1, q, nil})
		}
	}
	return out
}

func c49More(c *fw.Ctx, g *fw.Git) {
	// paths: every path over {a,b} up to four levels, a few with the longer name
	var deep []string
	var gen func(prefix string, depth int)
	gen = func(prefix string, depth int) {
		for _, n := range []string{"a", "b"} {
			p := n
			if prefix != "" {
				p = prefix + "/" + n
			}
			deep = append(deep, p)
			if depth < 4 {
				gen(p, depth+1)
			}
		}
	}
	gen("", 1)
	sort.Slice(deep, func(a, b int) bool {
		if strings.Count(deep[a], "/") != strings.Count(deep[b], "/") {
			return strings.Count(deep[a], "/") < strings.Count(deep[b], "/")
		}
		return deep[a] < deep[b]
	})
	deepAB := append(append([]string{}, deep...), "ab", "a/ab", "ab/a", "ab/b", "a/b/ab", "ab/ab")
	mkQ := func(paths []string) []igQuery {
		var qs []igQuery
		for _, p := range paths {
			qs = append(qs, igQuery{p, false}, igQuery{p, true})
		}
		return qs
	}
	line := func(s string) []byte { return []byte(s + "\n") }

	// ---- G: three nested files
	pl := []string{"", "a", "b", "*", "!a", "!b", "!*", "/a", "/b", "a/", "b/", "a/b", "/a/b", "!a/b", "**/b", "b/**"}
	if c.Thorough() {
		pl = append(pl, "!b/", "/b/a", "*/b", "!/b", "**", "!**/b")
	}
	c.Bound("G_patterns_per_file", pl)
	c.Bound("G_files", ".gitignore x a/.gitignore x a/b/.gitignore, one pattern each")
	c.Bound("G_paths", deep)
	nG := len(pl) * len(pl) * len(pl)
	c.Bound("configs_G", nG)
	c49RunBatched(c, g, "G", deep, mkQ(deep), nG, func(i int) c49Files {
		k := len(pl)
		return c49Files{"": line(pl[i/(k*k)]), "a": line(pl[(i/k)%k]), "a/b": line(pl[i%k])}
	})

	// ---- H: whole-segment patterns
	segs := []string{"a", "b", "*", "**", "ab", "?"}
	var bodies []string
	for _, s1 := range segs {
		bodies = append(bodies, s1)
	}
	for _, s1 := range segs {
		for _, s2 := range segs {
			bodies = append(bodies, s1+"/"+s2)
		}
	}
	for _, s1 := range segs {
		for _, s2 := range segs {
			for _, s3 := range segs {
				bodies = append(bodies, s1+"/"+s2+"/"+s3)
			}
		}
	}
	var hp []string
	for _, b := range bodies {
		for _, neg := range []string{"", "!"} {
			for _, lead := range []string{"", "/"} {
				for _, trail := range []string{"", "/"} {
					hp = append(hp, neg+lead+b+trail)
				}
			}
		}
	}
	c.Bound("H_segments", segs)
	c.Bound("H_patterns", fmt.Sprintf("%d: [!][/]seg[/seg[/seg]][/]; alone in .gitignore, alone in a/.gitignore, and (negated ones) after `*` or `a/` in .gitignore", len(hp)))
	c.Bound("H_paths", deepAB)
	c.Bound("configs_H", 3*len(hp))
	c49RunBatched(c, g, "H", deepAB, mkQ(deepAB), 3*len(hp), func(i int) c49Files {
		p := hp[i%len(hp)]
		switch i / len(hp) {
		case 0:
			return c49Files{"": line(p)}
		case 1:
			return c49Files{"a": line(p)}
		default:
			if strings.HasPrefix(p, "!") {
				return c49Files{"": []byte("*\n" + p + "\n")}
			}
			return c49Files{"": []byte(p + "\n!b\n")}
		}
	})

	// ---- I: bracket expressions, escapes, names made of special characters
	bl := []string{"[a-b]", "[!a]", "[^a]", "[!a-b]", "[[:alpha:]]", "[[:digit:]]", "[[:upper:]]", "[[:punct:]]", "[[:space:]]", "[a", "[]a]", "[\\a]", "[a\\]b]", "[b-a]", "[a-]", "[-a]",
		"[[:foo:]]", "[[:alpha:]", "a[", "[!]a]", "[a-a]", "[A-z]", "[]-]", "[\\!a]", "\\!a", "\\#a", "\\!", "\\#", "\\*", "\\?", "\\[a]", "\\\\", "a\\ ", "\\ a", "a\\  ", "a \\ ", "\\ ", "a\\", "\\a",
		"?", "??", "*a", "a*", "\\a\\b", "[[]", "[]]", "\xc3\xa9", "\xe9", "[\xc3\xa9]", "?\xa9", "a ", " a", "#a", "!a", "[a]", "a]", "^", "[!-]]", "[1-]", "[--1]", "[[:alpha:][:digit:]]", "[a[:digit:]-z]", "[[:alpha:]-z]"}
	names := []string{"a", "b", "ab", "A", "1", "-", "]", "[", "!", "#", "\\", " ", "a ", " a", "*", "?", "a*", "!a", "#a", "[a]", "a]", "^", "\xc3\xa9", "\xe9", "a\\", "\\a", "a  ", "z", ":"}
	c.Bound("I_patterns", bl)
	c.Bound("I_names", names)
	c.Bound("I_layouts", "the pattern alone; `*` then the negated pattern; the pattern with a trailing slash; the pattern in a/.gitignore (names queried below a/)")
	var iNames []string
	iNames = append(iNames, names...)
	for _, n := range names {
		iNames = append(iNames, "a/"+n)
	}
	c.Bound("configs_I", 4*len(bl))
	c49RunBatched(c, g, "I", iNames, mkQ(iNames), 4*len(bl), func(i int) c49Files {
		p := bl[i%len(bl)]
		switch i / len(bl) {
		case 0:
			return c49Files{"": line(p)}
		case 1:
			return c49Files{"": []byte("*\n!" + p + "\n")}
		case 2:
			return c49Files{"": line(p + "/")}
		default:
			return c49Files{"a": line(p)}
		}
	})

	// ---- F: the file format, at a real root
	long := strings.Repeat("x", 70000)
	var many strings.Builder
	for i := 0; i < 5000; i++ {
		fmt.Fprintf(&many, "x%d\n", i)
	}
	contents := []struct{ name, data string }{ // several names may share one defect: see fClass below
		{"CRLF", "a\r\nb/\r\n"},
		{"no final newline", "b\na"},
		{"no final newline, CR", "a\r"},
		{"BOM", "\xef\xbb\xbfa\n"},
		{"BOM then comment", "\xef\xbb\xbf#c\na\n"},
		{"long comment line first", "#" + long + "\na\n"},
		{"long pattern line first", long + "\na\n"},
		{"long line without newline last", "a\n" + long},
		{"line of 65535 then pattern", strings.Repeat("x", 65535) + "\na\n"},
		{"line of 65536 then pattern", strings.Repeat("x", 65536) + "\na\n"},
		{"line of 4096 then pattern", strings.Repeat("x", 4096) + "\na\n"},
		{"5000 lines then pattern", many.String() + "a\n"},
		{"blank lines", "\n\n a\n\na\n\n"},
		{"trailing space then CR", "a \r\n"},
		{"CR in the middle", "a\rb\nb\n"},
		{"negation with CRLF", "a*\r\n!ab\r\n"},
		{"trailing tab", "a\t\nb\n"},
		{"only CRLF", "\r\n"},
		{"comment with CRLF", "#a\r\nb\r\n"},
		{"form feed", "a\f\nb\n"},
	}
	var cnames []string
	for _, k := range contents {
		cnames = append(cnames, k.name)
	}
	c.Bound("F_contents", cnames)
	c.Bound("F_places", []string{".gitignore", ".git/info/exclude", "a/.gitignore"})
	fPaths := []string{"a", "b", "ab", "a/a", "a/b", "b/a", "a/a/b"}
	places := []string{"", "excl", "a"}
	var fmu sync.Mutex
	var fdiffs []c49Diff
	c.ParDo(len(contents)*len(places), 0, func(i int) {
		files := c49Files{places[i%len(places)]: []byte(contents[i/len(places)].data)}
		qs := c49Queries(files, mkQ(fPaths))
		ans := c49AsRoot(c, g, files, fPaths, qs)
		d := c49Compare(c, "F:"+contents[i/len(places)].name, i, files, qs, ans)
		fmu.Lock()
		fdiffs = append(fdiffs, d...)
		fmu.Unlock()
	})
	// one key per content kind and direction
	sort.Slice(fdiffs, func(a, b int) bool { return fdiffs[a].idx < fdiffs[b].idx })
	dirNames := []string{"go-git ignores, git does not", "git ignores, go-git does not", "go-git panics"}
	seen := map[string]bool{}
	for _, d := range fdiffs {
		name := contents[d.idx/len(places)].name
		switch {
		case strings.HasPrefix(name, "long ") || name == "line of 65536 then pattern":
			name = "a line of 64 KiB or more"
		case strings.HasPrefix(name, "BOM"):
			name = "BOM"
		}
		key := fmt.Sprintf("%s: ignore file format: %s", dirNames[d.dir], name)
		if seen[key] {
			continue
		}
		seen[key] = true
		c.Fail(key, fmt.Sprintf("%s (%s, path %s)", key, d.files, fw.Q(d.q.Path)), map[string]any{"files": d.files.String(), "path": d.q.Path, "is_dir": d.q.IsDir, "panic": fmt.Sprint(d.pv)})
	}
}

package checks

// Helpers shared by the C10/C11/C12 checks (batch "cc").

import (
	"bytes"
	"encoding/binary"
	"fmt"
	"io"
	"io/fs"
	"os"
	"runtime/debug"
	"runtime/pprof"
	"strings"
	"time"
)

// ccMemInput is an in-memory idxfile.Input (io.Reader + Stat).
type ccMemInput struct {
	*bytes.Reader
	size int64
}

func ccNewMemInput(b []byte) *ccMemInput { return &ccMemInput{bytes.NewReader(b), int64(len(b))} }

func (m *ccMemInput) Stat() (fs.FileInfo, error) { return ccFileInfo{m.size}, nil }

type ccFileInfo struct{ size int64 }

func (f ccFileInfo) Name() string       { return "mem" }
func (f ccFileInfo) Size() int64        { return f.size }
func (f ccFileInfo) Mode() fs.FileMode  { return 0o444 }
func (f ccFileInfo) ModTime() time.Time { return time.Unix(1700000000, 0) }
func (f ccFileInfo) IsDir() bool        { return false }
func (f ccFileInfo) Sys() any           { return nil }

// ccMemFile is an in-memory ReadAtCloser that refuses reads after Close, so a
// reader using a descriptor it already gave back is noticed.
type ccMemFile struct {
	data   []byte
	pos    int64
	closed bool
}

func (m *ccMemFile) ReadAt(p []byte, off int64) (int, error) {
	if m.closed {
		return 0, fs.ErrClosed
	}
	if off < 0 {
		return 0, fmt.Errorf("negative offset")
	}
	if off >= int64(len(m.data)) {
		return 0, io.EOF
	}
	n := copy(p, m.data[off:])
	if n < len(p) {
		return n, io.EOF
	}
	return n, nil
}

func (m *ccMemFile) Read(p []byte) (int, error) {
	n, err := m.ReadAt(p, m.pos)
	m.pos += int64(n)
	if n > 0 && err == io.EOF {
		err = nil
	}
	return n, err
}

func (m *ccMemFile) Close() error { m.closed = true; return nil }

func ccBE32(b []byte) uint32 { return binary.BigEndian.Uint32(b) }
func ccBE64(b []byte) uint64 { return binary.BigEndian.Uint64(b) }

// ccGuard runs f and converts a panic into (true, first lines of the stack).
func ccGuard(f func()) (panicked bool, what string) {
	defer func() {
		if r := recover(); r != nil {
			panicked = true
			st := strings.Split(string(debug.Stack()), "\n")
			// keep the frames below the panic call, a few are enough for triage
			var keep []string
			for _, l := range st {
				if strings.Contains(l, "go-git") && len(keep) < 6 {
					keep = append(keep, strings.TrimSpace(l))
				}
			}
			what = fmt.Sprintf("%v @ %s", r, strings.Join(keep, " | "))
		}
	}()
	f()
	return false, ""
}

// ccProfile starts a CPU profile when CC_PROF names a file (development aid).
func ccProfile() func() {
	p := os.Getenv("CC_PROF")
	if p == "" {
		return func() {}
	}
	f, err := os.Create(p)
	if err != nil {
		return func() {}
	}
	pprof.StartCPUProfile(f)
	return func() { pprof.StopCPUProfile(); f.Close() }
}

package checks

// C35: smart-protocol messages round-trip through go-git's own codec, and git
// parses go-git's encoding to the same content.

import (
	"bytes"
	"crypto/sha1"
	"crypto/sha256"
	"fmt"
	"io"
	"os"
	"path/filepath"
	"sort"
	"strings"
	"time"

	"github.com/go-git/go-git/v6/plumbing"
	"github.com/go-git/go-git/v6/plumbing/format/pktline"
	"github.com/go-git/go-git/v6/plumbing/protocol"
	"github.com/go-git/go-git/v6/plumbing/protocol/capability"
	"github.com/go-git/go-git/v6/plumbing/protocol/packp"

	"verifmc/fw"
)

func init() {
	fw.Register(&fw.Check{ID: "C35", Level: "exploration", Run: runC35, QuickBudget: 300, ThoroughBudget: 1400})
}

type c35Env struct {
	c     *fw.Ctx
	fails *dMinFails
	cls   *dClassSet
	seq   int
}

// ---------------------------------------------------------------- helpers

func c35Hashes(format string) []plumbing.Hash {
	hex := []string{strings.Repeat("1", 40), strings.Repeat("2", 40), "a94a8fe5ccb19ba61c4c0873d391e987982fbbd3"}
	if format == "sha256" {
		hex = []string{strings.Repeat("1", 64), strings.Repeat("2", 64), "9f86d081884c7d659a2feaa0c55ad015a3bf4f1b2b0b822cd15d6c15b0f00a08"}
	}
	var out []plumbing.Hash
	for _, h := range hex {
		out = append(out, plumbing.NewHash(h))
	}
	return out
}

func c35Zero(format string) plumbing.Hash {
	if format == "sha256" {
		return plumbing.NewHash(strings.Repeat("0", 64))
	}
	return plumbing.ZeroHash
}

func c35Caps(items ...string) capability.List {
	var l capability.List
	for _, it := range items {
		if k, v, ok := strings.Cut(it, "="); ok {
			l.Add(k, v)
		} else {
			l.Add(it)
		}
	}
	return l
}

// c35CapsCanon: capabilities in order with their values in order.
func c35CapsCanon(l *capability.List) string {
	var sb strings.Builder
	for _, k := range l.All() {
		sb.WriteString(k)
		if vs := l.Get(k); len(vs) > 0 {
			sb.WriteString("=" + strings.Join(vs, ","))
		}
		sb.WriteByte(';')
	}
	return sb.String()
}

func c35HashSet(hs []plumbing.Hash) string {
	set := map[string]bool{}
	for _, h := range hs {
		set[h.String()] = true
	}
	var out []string
	for h := range set {
		out = append(out, h)
	}
	sort.Strings(out)
	return strings.Join(out, ",")
}

func c35HashList(hs []plumbing.Hash) string {
	var out []string
	for _, h := range hs {
		out = append(out, h.String())
	}
	return strings.Join(out, ",")
}

func c35RefSet(refs []*plumbing.Reference) string {
	var out []string
	for _, r := range refs {
		if r.Type() == plumbing.SymbolicReference {
			out = append(out, r.Name().String()+"->"+r.Target().String())
		} else {
			out = append(out, r.Name().String()+"="+r.Hash().String())
		}
	}
	sort.Strings(out)
	return strings.Join(out, " ")
}

// c35Trailer follows every self-delimiting message in the decoder's input:
// the decoder must stop exactly in front of it (in the protocol the next
// message or the pack follows on the same stream).
var c35Trailer = []byte("0009\x01PACK0000")

// rt runs one round trip. enc encodes the value, dec decodes into a fresh
// value and returns its canonical form; want is the canonical form of the
// input. The decoder reads the encoding followed by c35Trailer, once from a
// source that delivers everything at once and once byte by byte, and must
// leave exactly the trailer unread. Failures are grouped by (message, kind of
// difference, normalised error text) so that one defect cannot hide another.
func (e *c35Env) rt(msg string, rank int, descr func() string, enc func(w io.Writer) error, dec func(r io.Reader) (string, error), want string, class string) []byte {
	return e.rtx(msg, rank, descr, enc, dec, want, class, true)
}

// rtx is rt for messages that end with the end of the stream (selfDelim
// false): no trailer is appended.
func (e *c35Env) rtx(msg string, rank int, descr func() string, enc func(w io.Writer) error, dec func(r io.Reader) (string, error), want string, class string, selfDelim bool) []byte {
	var buf bytes.Buffer
	fail := func(kind, sub, what string) {
		e.fails.add("roundtrip/"+msg+"/"+kind+"/"+sub, [3]int{rank, 0, 0}, func() (string, string, any) {
			d := descr()
			return fmt.Sprintf("%s round-trip: %s: %s", msg, kind, d), what + " [value " + d + "]", map[string]any{"message": msg, "value": d, "encoded": dShort(buf.Bytes()), "want": want}
		})
	}
	var eerr error
	func() {
		defer func() {
			if r := recover(); r != nil {
				eerr = fmt.Errorf("panic: %v", r)
			}
		}()
		eerr = enc(&buf)
	}()
	if eerr != nil {
		e.c.Eval()
		fail("encode error", c53Outcome(eerr), "Encode refuses a well-formed value: "+eerr.Error())
		e.cls.add(e.c, msg+"|"+class+"|encode-error")
		return nil
	}
	encoded := append([]byte{}, buf.Bytes()...)
	input := encoded
	if selfDelim {
		input = append(append([]byte{}, encoded...), c35Trailer...)
	}
	outcome := "ok"
	for _, k := range []dChunking{{}, {max: 1}} {
		e.c.Eval()
		var got string
		var derr error
		src := newChunkReader(input, k)
		func() {
			defer func() {
				if r := recover(); r != nil {
					derr = fmt.Errorf("panic: %v", r)
				}
			}()
			got, derr = dec(src)
		}()
		how := ""
		if k.max > 0 {
			how = " (source delivering one byte per Read)"
		}
		if derr != nil {
			fail("decode error", c53Outcome(derr)+how, "Decode rejects go-git's own encoding"+how+": "+derr.Error())
			outcome = "decode-error"
			break
		}
		if got != want {
			// name the first differing field ("k=" prefix up to the difference)
			field := "value"
			gw, ww := strings.Split(got, " | "), strings.Split(want, " | ")
			for i := range ww {
				if i >= len(gw) || gw[i] != ww[i] {
					field = strings.SplitN(ww[i], ":", 2)[0]
					break
				}
			}
			fail("differs in "+field, how, fmt.Sprintf("decoded value differs%s: got {%s} want {%s}", how, got, want))
			outcome = "differs"
			break
		}
		if selfDelim && !bytes.Equal(input[src.pos:], c35Trailer) {
			fail("reads past the end of the message", how, fmt.Sprintf("Decode%s leaves %s unread where %s follows the message", how, dShort(input[src.pos:]), dShort(c35Trailer)))
			outcome = "overread"
			break
		}
	}
	e.cls.add(e.c, msg+"|"+class+"|"+outcome)
	return encoded
}

// ---------------------------------------------------------------- AdvRefs

type c35Adv struct {
	format   string
	version  protocol.Version
	refs     []*plumbing.Reference
	shallows []plumbing.Hash
	caps     []string
	shape    string
}

func (a *c35Adv) value() *packp.AdvRefs {
	return &packp.AdvRefs{Version: a.version, Capabilities: c35Caps(a.caps...), References: append([]*plumbing.Reference{}, a.refs...), Shallows: append([]plumbing.Hash{}, a.shallows...)}
}

func c35AdvCanon(a *packp.AdvRefs) string {
	return fmt.Sprintf("version:%d | caps:%s | refs:%s | shallows:%s", a.Version, c35CapsCanon(&a.Capabilities), c35RefSet(a.References), c35HashSet(a.Shallows))
}

func (a *c35Adv) String() string {
	var rs []string
	for _, r := range a.refs {
		rs = append(rs, r.Name().String()+"="+r.Hash().String()[:4])
	}
	return fmt.Sprintf("%s v%d refs=[%s] shallows=%d caps=%v", a.format, a.version, strings.Join(rs, " "), len(a.shallows), a.caps)
}

// c35AdvSpace enumerates advertisement values: every subset of five reference
// groups (HEAD, a branch, an annotated tag with its peeled entry, a lightweight
// tag, a second annotated tag in another namespace), in canonical and reversed
// slice order, with shallow subsets, capability subsets and both versions.
func c35AdvSpace(format string, full bool) []*c35Adv {
	h := c35Hashes(format)
	type grp struct {
		shape string
		refs  []*plumbing.Reference
	}
	groups := []grp{
		{"H", []*plumbing.Reference{plumbing.NewHashReference("HEAD", h[0])}},
		{"b", []*plumbing.Reference{plumbing.NewHashReference("refs/heads/a", h[0])}},
		{"T", []*plumbing.Reference{plumbing.NewHashReference("refs/tags/t", h[1]), plumbing.NewHashReference("refs/tags/t^{}", h[0])}},
		{"l", []*plumbing.Reference{plumbing.NewHashReference("refs/tags/u", h[2])}},
		{"Z", []*plumbing.Reference{plumbing.NewHashReference("refs/a/first", h[1]), plumbing.NewHashReference("refs/a/first^{}", h[2])}},
	}
	capItems := []string{"multi_ack", "side-band-64k", "symref=HEAD:refs/heads/a", "agent=git/2.39.5"}
	var capSets [][]string
	if full {
		for _, s := range fw.Subsets(len(capItems), len(capItems)) {
			var cs []string
			for _, i := range s {
				cs = append(cs, capItems[i])
			}
			capSets = append(capSets, cs)
		}
		capSets = append(capSets, []string{"symref=HEAD:refs/heads/a", "symref=refs/x:refs/heads/a", "agent=x", "multi_ack_detailed", "thin-pack", "ofs-delta", "shallow", "no-done", "filter", "include-tag", "allow-tip-sha1-in-want"})
	} else {
		capSets = [][]string{{}, {"multi_ack", "side-band-64k", "symref=HEAD:refs/heads/a", "agent=x"}}
	}
	shallowSets := [][]plumbing.Hash{{}, {h[1]}, {h[2], h[1]}}
	versions := []protocol.Version{protocol.V0, protocol.V1}
	if !full {
		shallowSets = [][]plumbing.Hash{{}}
		versions = versions[:1]
	}
	var out []*c35Adv
	for _, sub := range fw.Subsets(len(groups), len(groups)) {
		for order := 0; order < 2; order++ {
			var refs []*plumbing.Reference
			shape := ""
			idx := append([]int{}, sub...)
			if order == 1 {
				if len(idx) < 2 {
					continue
				}
				sort.Sort(sort.Reverse(sort.IntSlice(idx)))
				shape = "rev:"
			}
			for _, gi := range idx {
				refs = append(refs, groups[gi].refs...)
				shape += groups[gi].shape
			}
			for _, sh := range shallowSets {
				for _, cs := range capSets {
					for _, v := range versions {
						caps := append([]string{}, cs...)
						if format == "sha256" {
							caps = append(caps, "object-format=sha256")
						}
						out = append(out, &c35Adv{format, v, refs, sh, caps, fmt.Sprintf("%s|s%d|c%d|v%d|%s", shape, len(sh), len(cs), v, format)})
					}
				}
			}
		}
	}
	return out
}

// ---------------------------------------------------------------- run

func runC35(c *fw.Ctx) {
	env := &c35Env{c: c, fails: &dMinFails{}, cls: &dClassSet{}}
	c.SetRule("every value of each smart-protocol message over small domains (reference subsets incl. HEAD, peeled tags in first/middle/last position, symref, shallows, capability subsets with and without values, sha1 and sha256 ids, up to 3 commands / statuses / ACKs, depth and filter variants, v2 ls-refs and fetch arguments) is encoded by go-git and decoded again (canonical forms compared; orders go-git documents as sorted are compared as sets); a sub-space of the encodings is handed to real git (ls-remote over ext::, upload-pack --stateless-rpc in protocol v0 and v2, receive-pack with a pre-receive hook) and git's observable result is compared with the value; a class is (message, value shape, outcome)")
	c.Assume("git 2.39.5 is the reference parser; reference names and capability values are restricted to well-formed ones (no spaces/NUL/LF in names and values)")
	c.Bound("object_formats", []string{"sha1", "sha256"})

	c35RoundTrips(env)
	env.fails.flush(c)
	c.Extra("round_trip_part", map[string]any{"wall_s": float64(int(c.Elapsed().Seconds()*10)) / 10, "evaluations": c.NEvals()})
	if os.Getenv("VERIF_C35_NOGIT") != "" { // development aid
		c.Incomplete("VERIF_C35_NOGIT set: the git side was not run")
		return
	}
	c35GitSide(env)
	env.fails.flush(c)
}

func c35RoundTrips(e *c35Env) {
	c := e.c
	rank := 0
	next := func() int { rank++; return rank }
	for _, format := range []string{"sha1", "sha256"} {
		h := c35Hashes(format)
		zero := c35Zero(format)

		// ---- AdvRefs
		advs := c35AdvSpace(format, true)
		c.Bound("advrefs_values_"+format, len(advs))
		for i, a := range advs {
			a := a
			v := a.value()
			want := c35AdvCanon(a.value())
			e.rt("AdvRefs", next(), a.String, v.Encode, func(r io.Reader) (string, error) {
				var d packp.AdvRefs
				if err := d.Decode(r); err != nil {
					return "", err
				}
				return c35AdvCanon(&d), nil
			}, want, a.shape)
			if i == 77 {
				var b bytes.Buffer
				a.value().Encode(&b)
				c.Sample(map[string]any{"message": "AdvRefs", "value": a.String(), "encoded": fw.Q(b.String())})
			}
		}

		// ---- UploadRequest
		wantSets := [][]plumbing.Hash{{h[0]}, {h[1], h[0]}, {h[0], h[0]}, {h[2], h[1], h[0]}}
		capSets := [][]string{{}, {"multi_ack_detailed"}, {"multi_ack", "side-band-64k", "ofs-delta", "agent=go-git/6.x"}, {"shallow", "deepen-since", "deepen-not", "filter", "thin-pack", "no-progress", "include-tag"}}
		shalSets := [][]plumbing.Hash{{}, {h[2]}, {h[2], h[1]}}
		t0 := time.Unix(1700000000, 0).UTC()
		depths := []packp.DepthRequest{{}, {Deepen: 1}, {Deepen: 3}, {DeepenSince: t0}, {DeepenNot: []string{"refs/heads/a"}}, {DeepenSince: t0, DeepenNot: []string{"refs/heads/a", "refs/tags/t"}}}
		filters := []packp.Filter{"", packp.FilterBlobNone(), packp.FilterTreeDepth(1), packp.FilterBlobLimit(1, packp.BlobLimitPrefixKibi), packp.FilterCombine(packp.FilterBlobNone(), packp.FilterTreeDepth(2))}
		ulCanon := func(u *packp.UploadRequest) string {
			since := int64(0)
			if !u.Depth.DeepenSince.IsZero() {
				since = u.Depth.DeepenSince.Unix()
			}
			return fmt.Sprintf("caps:%s | wants:%s | shallows:%s | depth:%d/%d/%v | filter:%s", c35CapsCanon(&u.Capabilities), c35HashSet(u.Wants), c35HashSet(u.Shallows), u.Depth.Deepen, since, u.Depth.DeepenNot, u.Filter)
		}
		for _, p := range fw.Product(len(wantSets), len(capSets), len(shalSets), len(depths), len(filters)) {
			mk := func() *packp.UploadRequest {
				return &packp.UploadRequest{Capabilities: c35Caps(capSets[p[1]]...), Wants: append([]plumbing.Hash{}, wantSets[p[0]]...), Shallows: append([]plumbing.Hash{}, shalSets[p[2]]...), Depth: depths[p[3]], Filter: filters[p[4]]}
			}
			v := mk()
			want := ulCanon(mk())
			e.rt("UploadRequest", next(), func() string { return format + " " + want }, v.Encode, func(r io.Reader) (string, error) {
				var d packp.UploadRequest
				if err := d.Decode(r); err != nil {
					return "", err
				}
				return ulCanon(&d), nil
			}, want, fmt.Sprintf("w%d c%d s%d d%d f%d %s", p[0], p[1], p[2], p[3], p[4], format))
		}

		// ---- UploadHaves
		for _, hv := range [][]plumbing.Hash{{}, {h[0]}, {h[1], h[0]}, {h[0], h[0], h[2]}} {
			for _, done := range []bool{false, true} {
				v := &packp.UploadHaves{Haves: append([]plumbing.Hash{}, hv...), Done: done}
				want := fmt.Sprintf("haves:%s | done:%v", c35HashSet(hv), done)
				e.rt("UploadHaves", next(), func() string { return format + " " + want }, v.Encode, func(r io.Reader) (string, error) {
					var d packp.UploadHaves
					if err := d.Decode(r); err != nil {
						return "", err
					}
					return fmt.Sprintf("haves:%s | done:%v", c35HashSet(d.Haves), d.Done), nil
				}, want, fmt.Sprintf("n%d done=%v %s", len(hv), done, format))
			}
		}

		// ---- ServerResponse: NAK, single ACK, multi_ack(_detailed) sequences with an
		// optional final plain ACK
		statuses := []packp.ACKStatus{packp.ACKContinue, packp.ACKCommon, packp.ACKReady}
		var ackSeqs [][]packp.ACK
		ackSeqs = append(ackSeqs, nil, []packp.ACK{{Hash: h[0]}}, []packp.ACK{{Hash: h[1]}})
		for _, n := range []int{1, 2} {
			dims := make([]int, 2*n)
			for i := range dims {
				if i%2 == 0 {
					dims[i] = 2
				} else {
					dims[i] = len(statuses)
				}
			}
			for _, p := range fw.Product(dims...) {
				var seq []packp.ACK
				for i := 0; i < n; i++ {
					seq = append(seq, packp.ACK{Hash: h[p[2*i]], Status: statuses[p[2*i+1]]})
				}
				ackSeqs = append(ackSeqs, seq)
				for _, fh := range []plumbing.Hash{h[0], h[1]} {
					ackSeqs = append(ackSeqs, append(append([]packp.ACK{}, seq...), packp.ACK{Hash: fh}))
				}
			}
		}
		ackCanon := func(as []packp.ACK) string {
			var out []string
			for _, a := range as {
				out = append(out, a.Hash.String()+"/"+a.Status.String())
			}
			return "acks:" + strings.Join(out, ",")
		}
		for _, seq := range ackSeqs {
			v := &packp.ServerResponse{ACKs: append([]packp.ACK{}, seq...)}
			want := ackCanon(seq)
			shape := ""
			for _, a := range seq {
				shape += fmt.Sprint(int(a.Status))
			}
			// a response ends with NAK or a status-less ACK; a run of "ACK id status"
			// lines alone ends with the stream
			selfDelim := len(seq) == 0 || seq[len(seq)-1].Status == 0
			e.rtx("ServerResponse", next(), func() string { return format + " " + want }, v.Encode, func(r io.Reader) (string, error) {
				var d packp.ServerResponse
				if err := d.Decode(r); err != nil {
					return "", err
				}
				return ackCanon(d.ACKs), nil
			}, want, shape+" "+format, selfDelim)
		}

		// ---- ShallowUpdate
		hsets := [][]plumbing.Hash{{}, {h[0]}, {h[1], h[0]}}
		for _, sh := range hsets {
			for _, un := range hsets {
				v := &packp.ShallowUpdate{Shallows: append([]plumbing.Hash{}, sh...), Unshallows: append([]plumbing.Hash{}, un...)}
				want := fmt.Sprintf("shallows:%s | unshallows:%s", c35HashList(sh), c35HashList(un))
				e.rt("ShallowUpdate", next(), func() string { return format + " " + want }, v.Encode, func(r io.Reader) (string, error) {
					var d packp.ShallowUpdate
					if err := d.Decode(r); err != nil {
						return "", err
					}
					return fmt.Sprintf("shallows:%s | unshallows:%s", c35HashList(d.Shallows), c35HashList(d.Unshallows)), nil
				}, want, fmt.Sprintf("s%d u%d %s", len(sh), len(un), format))
			}
		}

		// ---- UpdateRequests: <= 3 commands of each kind
		cmdAlpha := []*packp.Command{
			{Name: "refs/heads/a", Old: zero, New: h[0]},
			{Name: "refs/heads/b", Old: h[0], New: h[1]},
			{Name: "refs/heads/c", Old: h[0], New: zero},
			{Name: "refs/tags/t", Old: zero, New: h[2]},
		}
		urCaps := [][]string{{}, {"report-status"}, {"report-status-v2", "side-band-64k", "delete-refs", "atomic", "push-options", "agent=go-git/6.x", "object-format=" + format}}
		urCanon := func(u *packp.UpdateRequests) string {
			var cs []string
			for _, cm := range u.Commands {
				cs = append(cs, fmt.Sprintf("%s:%s>%s(%s)", cm.Name, cm.Old, cm.New, cm.Action()))
			}
			return fmt.Sprintf("caps:%s | commands:%s | shallows:%s", c35CapsCanon(&u.Capabilities), strings.Join(cs, ","), c35HashList(u.Shallows))
		}
		for _, seq := range fw.Seqs(len(cmdAlpha), 3) {
			if len(seq) == 0 {
				continue
			}
			for ci, cs := range urCaps {
				for _, sh := range [][]plumbing.Hash{{}, {h[2]}} {
					mk := func() *packp.UpdateRequests {
						u := &packp.UpdateRequests{Capabilities: c35Caps(cs...), Shallows: append([]plumbing.Hash{}, sh...)}
						for _, i := range seq {
							cp := *cmdAlpha[i]
							u.Commands = append(u.Commands, &cp)
						}
						return u
					}
					v := mk()
					want := urCanon(mk())
					e.rt("UpdateRequests", next(), func() string { return format + " " + want }, v.Encode, func(r io.Reader) (string, error) {
						var d packp.UpdateRequests
						if err := d.Decode(r); err != nil {
							return "", err
						}
						return urCanon(&d), nil
					}, want, fmt.Sprintf("%v c%d s%d %s", seq, ci, len(sh), format))
				}
			}
		}
	}

	// ---- ReportStatus (hash-free)
	rsStat := []*packp.CommandStatus{{ReferenceName: "refs/heads/a", Status: "ok"}, {ReferenceName: "refs/heads/b", Status: "non-fast-forward"}, {ReferenceName: "refs/tags/t", Status: "failed to lock"}}
	rsCanon := func(s *packp.ReportStatus) string {
		var cs []string
		for _, x := range s.CommandStatuses {
			cs = append(cs, x.ReferenceName.String()+":"+x.Status)
		}
		return fmt.Sprintf("unpack:%s | statuses:%s", s.UnpackStatus, strings.Join(cs, ","))
	}
	for _, up := range []string{"ok", "error", "index-pack abnormal exit"} {
		for _, seq := range fw.Seqs(len(rsStat), 3) {
			mk := func() *packp.ReportStatus {
				s := &packp.ReportStatus{UnpackStatus: up}
				for _, i := range seq {
					cp := *rsStat[i]
					s.CommandStatuses = append(s.CommandStatuses, &cp)
				}
				return s
			}
			v := mk()
			want := rsCanon(mk())
			e.rt("ReportStatus", next(), func() string { return want }, v.Encode, func(r io.Reader) (string, error) {
				var d packp.ReportStatus
				if err := d.Decode(r); err != nil {
					return "", err
				}
				return rsCanon(&d), nil
			}, want, fmt.Sprintf("%s %v", up[:2], seq))
		}
	}

	// ---- PushOptions
	optAlpha := []string{"a", "k=v", "x y", "ci.skip", "é=ü"}
	for _, seq := range fw.Seqs(len(optAlpha), 3) {
		var opts []string
		for _, i := range seq {
			opts = append(opts, optAlpha[i])
		}
		v := &packp.PushOptions{Options: opts}
		want := "options:" + strings.Join(opts, "\x1f")
		e.rt("PushOptions", next(), func() string { return fmt.Sprintf("%q", opts) }, v.Encode, func(r io.Reader) (string, error) {
			var d packp.PushOptions
			if err := d.Decode(r); err != nil {
				return "", err
			}
			return "options:" + strings.Join(d.Options, "\x1f"), nil
		}, want, fmt.Sprint(seq))
	}

	// ---- capability lists (v0/v1 string form and v2 pkt-line form)
	capAlpha := []string{"multi_ack", "agent=x", "agent=git/2.39.5", "symref=HEAD:refs/heads/a", "symref=refs/b:refs/heads/c", "object-format=sha256", "side-band-64k", "fetch=shallow", "fetch=filter", "session-id=a=b=", "agent=git/2.39.5-(x86_64;%s)"}
	for _, seq := range fw.Seqs(len(capAlpha), 3) {
		var items []string
		for _, i := range seq {
			items = append(items, capAlpha[i])
		}
		l := c35Caps(items...)
		want := "caps:" + c35CapsCanon(&l)
		l1 := c35Caps(items...)
		e.rtx("capability.List/v0", next(), func() string { return fmt.Sprint(items) }, func(w io.Writer) error { _, err := w.Write(capability.EncodeList(&l1)); return err }, func(r io.Reader) (string, error) {
			b, _ := io.ReadAll(r)
			var d capability.List
			capability.DecodeList(b, &d)
			return "caps:" + c35CapsCanon(&d), nil
		}, want, fmt.Sprint(seq), false)
		l3 := c35Caps(items...)
		e.rtx("capability.List/text", next(), func() string { return fmt.Sprint(items) }, func(w io.Writer) error {
			b, err := l3.MarshalText()
			if err == nil && string(b) != l3.String() {
				err = fmt.Errorf("MarshalText %q differs from String %q", b, l3.String())
			}
			if err == nil {
				_, err = w.Write(b)
			}
			return err
		}, func(r io.Reader) (string, error) {
			b, _ := io.ReadAll(r)
			var d capability.List
			if err := d.UnmarshalText(b); err != nil {
				return "", err
			}
			return "caps:" + c35CapsCanon(&d), nil
		}, want, fmt.Sprint(seq), false)
		l2 := c35Caps(items...)
		e.rt("capability.List/v2", next(), func() string { return fmt.Sprint(items) }, func(w io.Writer) error {
			if err := packp.EncodeListV2(w, &l2); err != nil {
				return err
			}
			return pktline.WriteFlush(w)
		}, func(r io.Reader) (string, error) {
			var d capability.List
			if _, err := packp.DecodeListV2(r, &d); err != nil {
				return "", err
			}
			return "caps:" + c35CapsCanon(&d), nil
		}, want, fmt.Sprint(seq))
		ca := &packp.CapabilityAdv{Version: protocol.V2, Capabilities: c35Caps(items...)}
		e.rt("CapabilityAdv", next(), func() string { return fmt.Sprint(items) }, ca.Encode, func(r io.Reader) (string, error) {
			var d packp.CapabilityAdv
			if err := d.Decode(r); err != nil {
				return "", err
			}
			if d.Version != protocol.V2 {
				return "", fmt.Errorf("version %v", d.Version)
			}
			return "caps:" + c35CapsCanon(&d.Capabilities), nil
		}, want, fmt.Sprint(seq))
	}

	// ---- v2 command requests: ls-refs and fetch
	prefixSets := [][]string{nil, {"refs/heads/"}, {"HEAD", "refs/tags/"}}
	lsCanon := func(a *packp.LsRefsArgs) string {
		return fmt.Sprintf("peel:%v | symrefs:%v | unborn:%v | prefixes:%v", a.Peel, a.Symrefs, a.Unborn, a.RefPrefixes)
	}
	for _, p := range fw.Product(2, 2, 2, len(prefixSets), 2) {
		mkArgs := func() *packp.LsRefsArgs {
			return &packp.LsRefsArgs{Peel: p[0] == 1, Symrefs: p[1] == 1, Unborn: p[2] == 1, RefPrefixes: append([]string(nil), prefixSets[p[3]]...)}
		}
		capItems := []string{"agent=go-git/6.x"}
		if p[4] == 1 {
			capItems = append(capItems, "object-format=sha256")
		}
		cr := &packp.CommandRequest{Command: "ls-refs", Capabilities: c35Caps(capItems...), Args: mkArgs()}
		capl := c35Caps(capItems...)
		want := "command:ls-refs | caps:" + c35CapsCanon(&capl) + " | " + lsCanon(mkArgs())
		e.rt("CommandRequest/ls-refs", next(), func() string { return want }, cr.Encode, func(r io.Reader) (string, error) {
			d := &packp.CommandRequest{Args: &packp.LsRefsArgs{}}
			if err := d.Decode(r); err != nil {
				return "", err
			}
			return "command:" + d.Command + " | caps:" + c35CapsCanon(&d.Capabilities) + " | " + lsCanon(d.Args.(*packp.LsRefsArgs)), nil
		}, want, fmt.Sprint(p))
	}
	for _, format := range []string{"sha1", "sha256"} {
		h := c35Hashes(format)
		t0 := time.Unix(1700000000, 0).UTC()
		faCanon := func(a *packp.FetchArgs) string {
			since := int64(0)
			if !a.DeepenSince.IsZero() {
				since = a.DeepenSince.Unix()
			}
			return fmt.Sprintf("wants:%s | haves:%s | done:%v | flags:%v%v%v%v%v%v | shallows:%s | depth:%d/%d/%v | filter:%s", c35HashSet(a.Wants), c35HashSet(a.Haves), a.Done,
				a.ThinPack, a.NoProgress, a.IncludeTag, a.OFSDelta, a.DeepenRelative, a.WaitForDone, c35HashSet(a.Shallows), a.Deepen, since, a.DeepenNot, a.Filter)
		}
		type depth struct {
			n     int
			rel   bool
			since time.Time
			not   []string
		}
		depths := []depth{{}, {n: 2}, {n: 1, rel: true}, {since: t0}, {not: []string{"refs/heads/a"}}, {since: t0, not: []string{"refs/heads/a", "refs/tags/t"}}}
		faFilters := []packp.Filter{"", packp.FilterBlobNone(), packp.FilterCombine(packp.FilterBlobLimit(0, packp.BlobLimitPrefixNone), packp.FilterTreeDepth(1))}
		for _, p := range fw.Product(2, 3, 2, 4, 2, len(depths), len(faFilters)) {
			mk := func() *packp.FetchArgs {
				a := &packp.FetchArgs{Wants: [][]plumbing.Hash{{h[0]}, {h[1], h[0]}}[p[0]], Haves: [][]plumbing.Hash{nil, {h[2]}, {h[2], h[1]}}[p[1]], Done: p[2] == 1}
				a.Wants = append([]plumbing.Hash{}, a.Wants...)
				a.Haves = append([]plumbing.Hash(nil), a.Haves...)
				switch p[3] {
				case 1:
					a.ThinPack, a.OFSDelta = true, true
				case 2:
					a.NoProgress, a.IncludeTag = true, true
				case 3:
					a.ThinPack, a.NoProgress, a.IncludeTag, a.OFSDelta, a.WaitForDone = true, true, true, true, true
				}
				if p[4] == 1 {
					a.Shallows = []plumbing.Hash{h[1]}
				}
				d := depths[p[5]]
				a.Deepen, a.DeepenRelative, a.DeepenSince, a.DeepenNot = d.n, d.rel, d.since, append([]string(nil), d.not...)
				a.Filter = faFilters[p[6]]
				return a
			}
			cr := &packp.CommandRequest{Command: "fetch", Capabilities: c35Caps("agent=x", "object-format="+format), Args: mk()}
			want := "command:fetch | " + faCanon(mk())
			e.rt("CommandRequest/fetch", next(), func() string { return format + " " + want }, cr.Encode, func(r io.Reader) (string, error) {
				d := &packp.CommandRequest{Args: &packp.FetchArgs{}}
				if err := d.Decode(r); err != nil {
					return "", err
				}
				return "command:" + d.Command + " | " + faCanon(d.Args.(*packp.FetchArgs)), nil
			}, want, fmt.Sprint(p)+format)
		}

		// ---- ls-refs output
		lsRefs := [][]*plumbing.Reference{
			{},
			{plumbing.NewHashReference("refs/heads/a", h[0])},
			{plumbing.NewSymbolicReference("HEAD", "refs/heads/a"), plumbing.NewHashReference("refs/heads/a", h[0])},
			{plumbing.NewSymbolicReference("HEAD", "refs/heads/unborn")},
			{plumbing.NewHashReference("refs/tags/t", h[1]), plumbing.NewHashReference("refs/tags/t^{}", h[0])},
			{plumbing.NewHashReference("HEAD", h[0]), plumbing.NewHashReference("refs/heads/a", h[0]), plumbing.NewHashReference("refs/tags/t", h[1]), plumbing.NewHashReference("refs/tags/t^{}", h[0]), plumbing.NewHashReference("refs/tags/u", h[2])},
			{plumbing.NewHashReference("refs/tags/t", h[1]), plumbing.NewHashReference("refs/tags/t^{}", h[0]), plumbing.NewSymbolicReference("HEAD", "refs/heads/a"), plumbing.NewHashReference("refs/heads/a", h[0])},
		}
		for i, refs := range lsRefs {
			v := &packp.LsRefsOutput{References: refs}
			want := "refs:" + c35RefSet(refs)
			e.rt("LsRefsOutput", next(), func() string { return format + " " + want }, func(w io.Writer) error {
				if err := v.Encode(w); err != nil {
					return err
				}
				return pktline.WriteFlush(w)
			}, func(r io.Reader) (string, error) {
				var d packp.LsRefsOutput
				if err := d.Decode(r); err != nil {
					return "", err
				}
				return "refs:" + c35RefSet(d.References), nil
			}, want, fmt.Sprintf("%d %s", i, format))
		}
	}

	// ---- v2 command requests without arguments: the empty request (a lone
	// flush-pkt), and commands whose argument section is empty (Args nil)
	for _, cmd := range []string{"", "ls-refs", "fetch", "object-info"} {
		for _, capItems := range [][]string{nil, {"agent=go-git/6.x", "object-format=sha1"}} {
			if cmd == "" && capItems != nil {
				continue // the empty request carries nothing
			}
			cr := &packp.CommandRequest{Command: cmd, Capabilities: c35Caps(capItems...)}
			capl := c35Caps(capItems...)
			want := "command:" + cmd + " | caps:" + c35CapsCanon(&capl)
			e.rt("CommandRequest/no-args", next(), func() string { return want }, cr.Encode, func(r io.Reader) (string, error) {
				d := &packp.CommandRequest{Command: "stale", Capabilities: c35Caps("stale")}
				if err := d.Decode(r); err != nil {
					return "", err
				}
				return "command:" + d.Command + " | caps:" + c35CapsCanon(&d.Capabilities), nil
			}, want, fmt.Sprintf("%q c%d", cmd, len(capItems)))
		}
	}

	// ---- ls-refs with many ref-prefix arguments: every count up to 40 and the
	// counts around the decoder's thresholds (git and go-git drop the list at 65536)
	var prefCounts []int
	for n := 4; n <= 40; n++ {
		prefCounts = append(prefCounts, n)
	}
	prefCounts = append(prefCounts, 255, 256, 257, 1023, 1024, 1025, 4095, 4096, 4097, 32767, 32768, 65534, 65535)
	e.c.Bound("ls_refs_ref_prefix_counts", "0..2 in the product above; 4..40, 255..257, 1023..1025, 4095..4097, 32767, 32768, 65534, 65535 (one below the documented cut-off)")
	for _, n := range prefCounts {
		mkArgs := func() *packp.LsRefsArgs {
			a := &packp.LsRefsArgs{Symrefs: true}
			for i := 0; i < n; i++ {
				a.RefPrefixes = append(a.RefPrefixes, fmt.Sprintf("refs/heads/b%05d/", i))
			}
			return a
		}
		cr := &packp.CommandRequest{Command: "ls-refs", Capabilities: c35Caps("agent=x"), Args: mkArgs()}
		want := fmt.Sprintf("command:ls-refs | %s", lsCanon(mkArgs()))
		e.rt("CommandRequest/ls-refs", next(), func() string { return fmt.Sprintf("ls-refs with %d ref-prefix arguments", n) }, cr.Encode, func(r io.Reader) (string, error) {
			d := &packp.CommandRequest{Args: &packp.LsRefsArgs{}}
			if err := d.Decode(r); err != nil {
				return "", err
			}
			return "command:" + d.Command + " | " + lsCanon(d.Args.(*packp.LsRefsArgs)), nil
		}, want, fmt.Sprintf("prefixes=%d", n))
	}

	// ---- v2 fetch response (the v2 form of server response + shallow update):
	// every combination of its sections
	for _, format := range []string{"sha1", "sha256"} {
		h := c35Hashes(format)
		foCanon := func(o *packp.FetchOutput) string {
			var sb strings.Builder
			if o.Acknowledgments != nil {
				fmt.Fprintf(&sb, "acks:%s/ready=%v", c35HashList(o.Acknowledgments.ACKs), o.Acknowledgments.Ready)
			} else {
				sb.WriteString("acks:absent")
			}
			if o.ShallowInfo != nil {
				fmt.Fprintf(&sb, " | shallow-info:%s/%s", c35HashList(o.ShallowInfo.Shallows), c35HashList(o.ShallowInfo.Unshallows))
			} else {
				sb.WriteString(" | shallow-info:absent")
			}
			if o.WantedRefs != nil {
				var rs []string
				for _, r := range o.WantedRefs.Refs {
					rs = append(rs, r.Name().String()+"="+r.Hash().String())
				}
				fmt.Fprintf(&sb, " | wanted-refs:%v", rs)
			} else {
				sb.WriteString(" | wanted-refs:absent")
			}
			if o.PackfileURIs != nil {
				fmt.Fprintf(&sb, " | packfile-uris:%q", o.PackfileURIs.URIs)
			} else {
				sb.WriteString(" | packfile-uris:absent")
			}
			fmt.Fprintf(&sb, " | packfile:%v", o.Packfile)
			return sb.String()
		}
		ackSets := [][]plumbing.Hash{nil, {h[0]}, {h[1], h[0]}, {h[0], h[1], h[2]}}
		shInfos := []*packp.ShallowInfo{nil, {}, {Shallows: []plumbing.Hash{h[1]}}, {Unshallows: []plumbing.Hash{h[2]}}, {Shallows: []plumbing.Hash{h[1], h[0]}, Unshallows: []plumbing.Hash{h[2]}}}
		wanted := []*packp.WantedRefs{nil, {}, {Refs: []*plumbing.Reference{plumbing.NewHashReference("refs/heads/a", h[0])}}, {Refs: []*plumbing.Reference{plumbing.NewHashReference("refs/tags/t", h[1]), plumbing.NewHashReference("refs/heads/a", h[0])}}}
		uris := []*packp.PackfileURIs{nil, {}, {URIs: []string{h[0].String() + " https://example.com/p-1.pack"}}, {URIs: []string{h[1].String() + " https://example.com/a%20b.pack", h[0].String() + " https://example.com/p-1.pack"}}}
		type foCase struct {
			mk    func() *packp.FetchOutput
			class string
		}
		var foCases []foCase
		for ai, as := range ackSets {
			as := as
			// a negotiation round: acknowledgments only, not ready, no packfile
			foCases = append(foCases, foCase{func() *packp.FetchOutput {
				return &packp.FetchOutput{Acknowledgments: &packp.Acknowledgments{ACKs: append([]plumbing.Hash(nil), as...)}}
			}, fmt.Sprintf("round a%d", ai)})
		}
		for _, p := range fw.Product(len(ackSets)+1, len(shInfos), len(wanted), len(uris)) {
			p := p
			foCases = append(foCases, foCase{func() *packp.FetchOutput {
				o := &packp.FetchOutput{Packfile: true}
				if p[0] > 0 {
					o.Acknowledgments = &packp.Acknowledgments{ACKs: append([]plumbing.Hash(nil), ackSets[p[0]-1]...), Ready: true}
				}
				if si := shInfos[p[1]]; si != nil {
					o.ShallowInfo = &packp.ShallowInfo{Shallows: append([]plumbing.Hash(nil), si.Shallows...), Unshallows: append([]plumbing.Hash(nil), si.Unshallows...)}
				}
				if w := wanted[p[2]]; w != nil {
					o.WantedRefs = &packp.WantedRefs{Refs: append([]*plumbing.Reference(nil), w.Refs...)}
				}
				if u := uris[p[3]]; u != nil {
					o.PackfileURIs = &packp.PackfileURIs{URIs: append([]string(nil), u.URIs...)}
				}
				return o
			}, fmt.Sprint("pack ", p)})
		}
		e.c.Bound("fetch_output_values_"+format, len(foCases))
		for _, fc := range foCases {
			v := fc.mk()
			want := foCanon(fc.mk())
			e.rt("FetchOutput", next(), func() string { return format + " " + want }, func(w io.Writer) error {
				if err := v.Encode(w); err != nil {
					return err
				}
				if !v.Packfile {
					return nil // the negotiation round ends with the flush-pkt Encode wrote
				}
				return nil // the packfile (here: the trailer) follows the "packfile" header
			}, func(r io.Reader) (string, error) {
				var d packp.FetchOutput
				if err := d.Decode(r); err != nil {
					return "", err
				}
				return foCanon(&d), nil
			}, want, fc.class+" "+format)
		}

		// ---- smart HTTP service announcement, dumb HTTP info/refs
		for _, svc := range []string{"git-upload-pack", "git-receive-pack"} {
			v := &packp.SmartReply{Service: svc}
			e.rt("SmartReply", next(), func() string { return svc }, v.Encode, func(r io.Reader) (string, error) {
				var d packp.SmartReply
				if err := d.Decode(r); err != nil {
					return "", err
				}
				return "service:" + d.Service, nil
			}, "service:"+svc, svc+" "+format)
		}
		irSets := [][]*plumbing.Reference{
			{},
			{plumbing.NewHashReference("refs/heads/a", h[0])},
			{plumbing.NewHashReference("refs/heads/a", h[0]), plumbing.NewHashReference("refs/tags/t", h[1]), plumbing.NewHashReference("refs/tags/t^{}", h[0]), plumbing.NewHashReference("refs/tags/u", h[2])},
		}
		irCanon := func(refs []*plumbing.Reference) string {
			var out []string
			for _, r := range refs {
				out = append(out, r.Name().String()+"="+r.Hash().String())
			}
			return "refs:" + strings.Join(out, " ")
		}
		for i, refs := range irSets {
			v := &packp.InfoRefs{References: refs}
			want := irCanon(refs)
			e.rtx("InfoRefs", next(), func() string { return format + " " + want }, v.Encode, func(r io.Reader) (string, error) {
				var d packp.InfoRefs
				if err := d.Decode(r); err != nil {
					return "", err
				}
				return irCanon(d.References), nil
			}, want, fmt.Sprintf("%d %s", i, format), false)
		}
	}

	// ---- git:// request line
	for _, p := range fw.Product(2, 2, 3) {
		g := &packp.GitProtoRequest{RequestCommand: []string{"git-upload-pack", "git-receive-pack"}[p[0]], Pathname: "/project.git", Host: []string{"", "example.com:9418"}[p[1]], ExtraParams: [][]string{nil, {"version=2"}, {"version=2", "object-format=sha256"}}[p[2]]}
		want := fmt.Sprintf("cmd:%s | path:%s | host:%s | extra:%v", g.RequestCommand, g.Pathname, g.Host, g.ExtraParams)
		e.rt("GitProtoRequest", next(), func() string { return want }, g.Encode, func(r io.Reader) (string, error) {
			var d packp.GitProtoRequest
			if err := d.Decode(r); err != nil {
				return "", err
			}
			return fmt.Sprintf("cmd:%s | path:%s | host:%s | extra:%v", d.RequestCommand, d.Pathname, d.Host, d.ExtraParams), nil
		}, want, fmt.Sprint(p))
	}
}

// ---------------------------------------------------------------- git side

type c35Repo struct {
	g       *fw.Git
	dir     string
	format  string
	commits []string // linear history c0 <- c1 <- c2 <- c3
	tag     string   // annotated tag object on c1
}

func c35MakeRepo(c *fw.Ctx, format string) *c35Repo {
	g, dir := c.InitRepo("c35-"+format, format, true)
	var specs []fw.CommitSpec
	for i := 0; i < 4; i++ {
		sp := fw.CommitSpec{Time: 1700000000 + int64(i)*1000, Files: map[string]fw.FileSpec{"f": {Data: fmt.Sprintf("v%d\n", i)}}, Msg: fmt.Sprintf("c%d\n", i)}
		if i > 0 {
			sp.Parents = []int{i - 1}
		}
		specs = append(specs, sp)
	}
	ids := g.BuildHistory(specs, false)
	g.MustRun("update-ref", "refs/heads/main", ids[3])
	g.MustRun("update-ref", "refs/heads/old", ids[1])
	g.MustRun("tag", "-a", "-m", "t", "v1", ids[1])
	g.MustRun("config", "uploadpack.allowAnySHA1InWant", "true")
	g.MustRun("config", "uploadpack.allowFilter", "true")
	g.MustRun("config", "receive.advertisePushOptions", "true")
	g.MustRun("config", "receive.denyDeletes", "false")
	return &c35Repo{g: g, dir: dir, format: format, commits: ids, tag: g.MustRun("rev-parse", "refs/tags/v1").S()}
}

func c35GitSide(e *c35Env) {
	c := e.c
	scratch := c.TempDir("c35git")
	serve := filepath.Join(scratch, "serve.sh")
	c.Must(os.WriteFile(serve, []byte("#!/bin/sh\ncat \"$1\"\ncat >/dev/null\n"), 0o755), "write helper")
	gh := c.GitHome().C("protocol.ext.allow=always")

	// ---- AdvRefs through git ls-remote
	var advs []*c35Adv
	for _, f := range []string{"sha1", "sha256"} {
		advs = append(advs, c35AdvSpace(f, c.Thorough())...)
	}
	if c.Thorough() {
		// git side: protocol v0 advertisements only
		var v0 []*c35Adv
		for _, a := range advs {
			if a.version == protocol.V0 {
				v0 = append(v0, a)
			}
		}
		advs = v0
	}
	c.Bound("advrefs_values_sent_to_git_ls_remote", len(advs))
	c.ParDo(len(advs), 0, func(i int) {
		a := advs[i]
		var buf bytes.Buffer
		if err := a.value().Encode(&buf); err != nil {
			return // reported by the round-trip part
		}
		f := filepath.Join(scratch, fmt.Sprintf("adv-%d", i))
		c.Must(os.WriteFile(f, buf.Bytes(), 0o644), "write adv")
		defer os.Remove(f)
		r := gh.Run("ls-remote", "--symref", "ext::"+serve+" "+f)
		c.Eval()
		var want []string
		for _, ref := range a.refs {
			want = append(want, ref.Hash().String()+"\t"+ref.Name().String())
		}
		hasHEAD := false
		for _, ref := range a.refs {
			if ref.Name() == plumbing.HEAD {
				hasHEAD = true
			}
		}
		for _, cp := range a.caps {
			if v, ok := strings.CutPrefix(cp, "symref=HEAD:"); ok && hasHEAD {
				want = append(want, "ref: "+v+"\tHEAD")
			}
		}
		sort.Strings(want)
		got := strings.Split(strings.TrimSpace(string(r.Out)), "\n")
		if len(got) == 1 && got[0] == "" {
			got = nil
		}
		sort.Strings(got)
		outcome := "ok"
		if !r.OK() {
			outcome = "git-error"
		} else if strings.Join(got, "\n") != strings.Join(want, "\n") {
			outcome = "differs"
		}
		e.cls.add(c, "git/ls-remote|"+a.shape+"|"+outcome)
		if outcome != "ok" {
			kind := outcome
			if outcome == "git-error" {
				kind += " (" + c53Outcome(fmt.Errorf("%s", firstLine(r.Err))) + ")"
			} else {
				// which lines are missing / extra
				gs := map[string]bool{}
				for _, l := range got {
					gs[l] = true
				}
				for _, l := range want {
					if !gs[l] {
						switch {
						case strings.HasSuffix(l, "^{}"):
							kind += ": a peeled entry is missing"
						case strings.HasPrefix(l, "ref: "):
							kind += ": a symref is missing"
						default:
							kind += ": a reference is missing"
						}
						break
					}
				}
			}
			e.fails.add("git/ls-remote/"+kind, [3]int{i, 0, 0}, func() (string, string, any) {
				return fmt.Sprintf("git ls-remote of go-git's AdvRefs: %s: %s", kind, a.String()),
					fmt.Sprintf("git does not list what the advertisement holds: git exit %d stderr %q; got %q want %q", r.Code, firstLine(r.Err), got, want),
					map[string]any{"value": a.String(), "encoded": fw.Q(buf.String()), "git_stdout": string(r.Out), "git_stderr": string(r.Err), "want_lines": want}
			})
		}
	})

	repos := map[string]*c35Repo{}
	for _, f := range []string{"sha1", "sha256"} {
		repos[f] = c35MakeRepo(c, f)
	}

	// ---- UploadRequest + UploadHaves into git upload-pack --stateless-rpc (v0)
	type ulCase struct {
		format  string
		wants   []int
		caps    []string
		haves   []int // index into commits; -1 = unknown object
		deepen  int
		filter  packp.Filter
		shallow []int
		since   int64    // deepen-since (commit k has time 1700000000 + 1000 k)
		not     []string // deepen-not
	}
	var ulCases []ulCase
	for _, f := range []string{"sha1", "sha256"} {
		for _, w := range [][]int{{3}, {3, 2}, {1}} {
			for _, cs := range [][]string{{}, {"multi_ack_detailed", "no-done"}, {"multi_ack", "ofs-delta", "thin-pack", "agent=go-git/6.x"}, {"side-band-64k", "no-progress", "include-tag", "shallow", "filter"}} {
				for _, hv := range [][]int{{}, {0}, {1, 0}, {-1}} {
					ulCases = append(ulCases, ulCase{format: f, wants: w, caps: cs, haves: hv})
				}
				ulCases = append(ulCases, ulCase{format: f, wants: w, caps: append([]string{"shallow"}, cs...), deepen: 1}, ulCase{format: f, wants: w, caps: append([]string{"shallow"}, cs...), deepen: 2, shallow: []int{1}})
			}
			ulCases = append(ulCases, ulCase{format: f, wants: w, caps: []string{"filter"}, filter: packp.FilterBlobNone()})
			ulCases = append(ulCases, ulCase{format: f, wants: w, caps: []string{"filter"}, filter: packp.FilterCombine(packp.FilterBlobLimit(1, packp.BlobLimitPrefixKibi), packp.FilterTreeDepth(1))})
			// the rev-list style depth requests (never combined with deepen <n>)
			if len(w) == 1 {
				top := w[0]
				ulCases = append(ulCases, ulCase{format: f, wants: w, caps: []string{"shallow", "deepen-since"}, since: 1700000000 + int64(top)*1000 - 500})
				if top > 1 {
					ulCases = append(ulCases,
						ulCase{format: f, wants: w, caps: []string{"shallow", "deepen-not"}, not: []string{"refs/heads/old"}},
						ulCase{format: f, wants: w, caps: []string{"shallow", "deepen-since", "deepen-not", "multi_ack_detailed"}, since: 1700000500, not: []string{"refs/heads/old"}})
				}
			}
		}
	}
	c.Bound("upload_requests_sent_to_git_upload_pack", len(ulCases))
	c.ParDo(len(ulCases), 0, func(i int) {
		uc := ulCases[i]
		rp := repos[uc.format]
		id := func(k int) plumbing.Hash {
			if k < 0 {
				return c35Hashes(uc.format)[2]
			}
			return plumbing.NewHash(rp.commits[k])
		}
		caps := append([]string{}, uc.caps...)
		if uc.format == "sha256" {
			caps = append(caps, "object-format=sha256")
		}
		req := &packp.UploadRequest{Capabilities: c35Caps(caps...), Filter: uc.filter}
		for _, w := range uc.wants {
			req.Wants = append(req.Wants, id(w))
		}
		for _, s := range uc.shallow {
			req.Shallows = append(req.Shallows, id(s))
		}
		req.Depth.Deepen = uc.deepen
		if uc.since != 0 {
			req.Depth.DeepenSince = time.Unix(uc.since, 0)
		}
		req.Depth.DeepenNot = uc.not
		hv := &packp.UploadHaves{Done: true}
		for _, k := range uc.haves {
			hv.Haves = append(hv.Haves, id(k))
		}
		var buf bytes.Buffer
		if err := req.Encode(&buf); err != nil {
			return
		}
		if err := hv.Encode(&buf); err != nil {
			return
		}
		r := rp.g.C("pack.threads=1").RunIn(buf.Bytes(), "upload-pack", "--stateless-rpc", rp.dir)
		c.Eval()
		descr := fmt.Sprintf("%s wants=%v haves=%v caps=%v deepen=%d shallow=%v filter=%q", uc.format, uc.wants, uc.haves, uc.caps, uc.deepen, uc.shallow, uc.filter)
		if uc.since != 0 || len(uc.not) > 0 {
			descr += fmt.Sprintf(" deepen-since=%d deepen-not=%v", uc.since, uc.not)
		}
		bad := ""
		out := r.Out
		switch {
		case !r.OK() || bytes.Contains(r.Err, []byte("fatal")):
			bad = "git-error (" + c53Outcome(fmt.Errorf("%s", firstLine(r.Err))) + ")"
		default:
			// deepen-since / deepen-not: the boundary on the linear history is the oldest
			// commit that is recent enough and not reachable from refs/heads/old (= c1)
			if uc.since != 0 || len(uc.not) > 0 {
				var su packp.ShallowUpdate
				if err := su.Decode(bytes.NewReader(out)); err != nil {
					bad = "shallow section unreadable"
				} else {
					top := 0
					for _, w := range uc.wants {
						top = max(top, w)
					}
					lowest := -1
					for k := top; k >= 0; k-- {
						if (uc.since != 0 && 1700000000+int64(k)*1000 < uc.since) || (len(uc.not) > 0 && k <= 1) {
							break
						}
						lowest = k
					}
					want := ""
					if lowest > 0 {
						want = rp.commits[lowest]
					}
					if lowest < 0 {
						bad = "" // nothing qualifies: git fails the request; not a case we generate
					} else if c35HashList(su.Shallows) != want {
						bad = fmt.Sprintf("shallow boundary %s instead of %s", c35HashList(su.Shallows), want)
					}
				}
			}
			// expected shallow lines for a single want on the linear history
			if uc.deepen > 0 {
				var su packp.ShallowUpdate
				rd := bytes.NewReader(out)
				if err := su.Decode(rd); err != nil && uc.format == "sha1" {
					bad = "shallow section unreadable"
				} else if uc.format == "sha1" && len(uc.wants) == 1 && len(uc.shallow) == 0 {
					k := uc.wants[0] - (uc.deepen - 1)
					want := ""
					if k > 0 {
						want = rp.commits[k]
					}
					if c35HashList(su.Shallows) != want {
						bad = fmt.Sprintf("shallow boundary %s instead of %s", c35HashList(su.Shallows), want)
					}
				}
			}
			if bad == "" && !bytes.Contains(out, []byte("PACK")) {
				bad = "no pack in the response"
			}
			// the pack must hold exactly the commits reachable from the wants and not from the haves
			if bad == "" && uc.deepen == 0 && uc.since == 0 && len(uc.not) == 0 && uc.filter == "" && !strings.Contains(strings.Join(uc.caps, " "), "side-band") && !strings.Contains(strings.Join(uc.caps, " "), "include-tag") {
				args := []string{"rev-list", "--objects", "--count"}
				for _, w := range uc.wants {
					args = append(args, rp.commits[w])
				}
				for _, k := range uc.haves {
					if k >= 0 {
						args = append(args, "^"+rp.commits[k])
					}
				}
				want := rp.g.MustRun(args...).S()
				p := bytes.Index(out, []byte("PACK"))
				n := int(out[p+8])<<24 | int(out[p+9])<<16 | int(out[p+10])<<8 | int(out[p+11])
				if fmt.Sprint(n) != want {
					bad = fmt.Sprintf("pack holds %d objects, git rev-list says %s", n, want)
				}
			}
		}
		oc := "ok"
		if bad != "" {
			oc = strings.Fields(bad)[0]
		}
		e.cls.add(c, fmt.Sprintf("git/upload-pack|w%d h%d c%d d%d f%v %s|%s", len(uc.wants), len(uc.haves), len(uc.caps), uc.deepen, uc.filter != "", uc.format, oc))
		if bad != "" {
			e.fails.add("git/upload-pack/"+strings.SplitN(bad, " instead", 2)[0], [3]int{i, 0, 0}, func() (string, string, any) {
				return "git upload-pack fed go-git's UploadRequest+UploadHaves: " + bad + ": " + descr,
					fmt.Sprintf("git does not act on the request as encoded: exit %d stderr %q", r.Code, firstLine(r.Err)),
					map[string]any{"value": descr, "encoded": fw.Q(buf.String()), "git_stderr": string(r.Err), "git_stdout": dShort(out)}
			})
		}
	})

	// ---- UpdateRequests (+PushOptions) + pack into git receive-pack
	cmdNames := []string{"create refs/heads/a", "update refs/heads/b", "delete refs/heads/c", "create refs/tags/t"}
	optSets := [][]string{nil, {"a"}, {"k=v", "x y"}}
	type rpCase struct {
		format string
		cmds   []int
		caps   []string
		opts   []string
	}
	var rpCases []rpCase
	for _, f := range []string{"sha1", "sha256"} {
		for _, sub := range fw.Subsets(4, 3) {
			if len(sub) == 0 {
				continue
			}
			for _, order := range [][]int{sub, reversed(sub)} {
				if len(sub) == 1 && &order[0] != &sub[0] {
					continue
				}
				rpCases = append(rpCases, rpCase{f, order, []string{"report-status"}, nil})
				rpCases = append(rpCases, rpCase{f, order, []string{"report-status", "delete-refs", "agent=go-git/6.x"}, nil})
			}
			for _, o := range optSets[1:] {
				rpCases = append(rpCases, rpCase{f, sub, []string{"report-status", "push-options"}, o})
			}
			rpCases = append(rpCases, rpCase{f, sub, []string{"report-status", "atomic"}, nil})
		}
	}
	c.Bound("update_requests_sent_to_git_receive_pack", len(rpCases))
	byFormat := map[string][]int{}
	for i, rc := range rpCases {
		byFormat[rc.format] = append(byFormat[rc.format], i)
	}
	formats := []string{"sha1", "sha256"}
	c.ParDo(len(formats), 2, func(fi int) {
		f := formats[fi]
		rp := repos[f]
		hook := filepath.Join(rp.dir, "hooks", "pre-receive")
		c.Must(os.MkdirAll(filepath.Dir(hook), 0o755), "hooks dir")
		c.Must(os.WriteFile(hook, []byte("#!/bin/sh\ncat >/dev/null\ni=0\n: >\"$GIT_DIR/pushopts.out\"\nwhile [ \"$i\" -lt \"${GIT_PUSH_OPTION_COUNT:-0}\" ]; do eval \"printf '%s\\\\n' \\\"\\$GIT_PUSH_OPTION_$i\\\"\" >>\"$GIT_DIR/pushopts.out\"; i=$((i+1)); done\nexit 0\n"), 0o755), "write hook")
		zero := c35Zero(f)
		cm := func(k int) *packp.Command {
			switch k {
			case 0:
				return &packp.Command{Name: "refs/heads/a", Old: zero, New: plumbing.NewHash(rp.commits[2])}
			case 1:
				return &packp.Command{Name: "refs/heads/b", Old: plumbing.NewHash(rp.commits[1]), New: plumbing.NewHash(rp.commits[2])}
			case 2:
				return &packp.Command{Name: "refs/heads/c", Old: plumbing.NewHash(rp.commits[1]), New: zero}
			}
			return &packp.Command{Name: "refs/tags/t", Old: zero, New: plumbing.NewHash(rp.tag)}
		}
		for _, i := range byFormat[f] {
			if c.Expired() {
				c.Incomplete("internal deadline reached in receive-pack cases")
				return
			}
			rc := rpCases[i]
			// reset the refs
			var in bytes.Buffer
			for _, n := range []string{"refs/heads/a", "refs/tags/t"} {
				fmt.Fprintf(&in, "delete %s\n", n)
			}
			fmt.Fprintf(&in, "update refs/heads/b %s\nupdate refs/heads/c %s\n", rp.commits[1], rp.commits[1])
			rp.g.MustRunIn(in.Bytes(), "update-ref", "--stdin")
			os.Remove(filepath.Join(rp.dir, "pushopts.out"))
			model := map[string]string{"refs/heads/b": rp.commits[1], "refs/heads/c": rp.commits[1], "refs/heads/main": rp.commits[3], "refs/heads/old": rp.commits[1], "refs/tags/v1": rp.tag}
			caps := append([]string{}, rc.caps...)
			if f == "sha256" {
				caps = append(caps, "object-format=sha256")
			}
			req := &packp.UpdateRequests{Capabilities: c35Caps(caps...)}
			allDel := true
			var names []string
			for _, k := range rc.cmds {
				cmd := cm(k)
				req.Commands = append(req.Commands, cmd)
				names = append(names, cmdNames[k])
				if cmd.New.IsZero() {
					delete(model, cmd.Name.String())
				} else {
					model[cmd.Name.String()] = cmd.New.String()
					allDel = false
				}
			}
			var buf bytes.Buffer
			if err := req.Encode(&buf); err != nil {
				continue
			}
			if strings.Contains(strings.Join(rc.caps, " "), "push-options") {
				if err := (&packp.PushOptions{Options: rc.opts}).Encode(&buf); err != nil {
					continue
				}
			}
			if !allDel {
				pk := []byte("PACK\x00\x00\x00\x02\x00\x00\x00\x00")
				if f == "sha256" {
					s := sha256.Sum256(pk)
					pk = append(pk, s[:]...)
				} else {
					s := sha1.Sum(pk)
					pk = append(pk, s[:]...)
				}
				buf.Write(pk)
			}
			r := rp.g.RunIn(buf.Bytes(), "receive-pack", rp.dir)
			c.Eval()
			descr := fmt.Sprintf("%s commands=%v caps=%v options=%q", f, names, rc.caps, rc.opts)
			bad := ""
			// skip git's own advertisement, then decode its report with go-git
			out := r.Out
			sc := pktline.NewScanner(bytes.NewReader(out))
			off := 0
			for sc.Scan() {
				if sc.Len() == pktline.Flush {
					off += 4
					break
				}
				off += sc.Len()
			}
			var rs packp.ReportStatus
			if !r.OK() {
				bad = "git-error (" + c53Outcome(fmt.Errorf("%s", firstLine(r.Err))) + ")"
			} else if err := rs.Decode(bytes.NewReader(out[off:])); err != nil {
				bad = "git's report-status unreadable (" + c53Outcome(err) + ")"
			} else if rs.UnpackStatus != "ok" {
				bad = "git reports unpack " + rs.UnpackStatus
			} else {
				for _, cs := range rs.CommandStatuses {
					if cs.Status != "ok" {
						bad = "git rejects command on " + cs.ReferenceName.String() + ": " + cs.Status
					}
				}
				if bad == "" && len(rs.CommandStatuses) != len(rc.cmds) {
					bad = fmt.Sprintf("git reports %d command statuses for %d commands", len(rs.CommandStatuses), len(rc.cmds))
				}
			}
			if bad == "" {
				got := map[string]string{}
				for _, l := range strings.Split(rp.g.MustRun("for-each-ref", "--format=%(objectname) %(refname)").S(), "\n") {
					if p := strings.SplitN(l, " ", 2); len(p) == 2 {
						got[p[1]] = p[0]
					}
				}
				if fmt.Sprint(got) != fmt.Sprint(model) {
					bad = "refs after receive-pack differ from the commands"
				}
			}
			if bad == "" && rc.opts != nil {
				b, _ := os.ReadFile(filepath.Join(rp.dir, "pushopts.out"))
				if strings.TrimSuffix(string(b), "\n") != strings.Join(rc.opts, "\n") {
					bad = fmt.Sprintf("push options seen by the hook: %q", string(b))
				}
			}
			oc := "ok"
			if bad != "" {
				oc = strings.Fields(bad)[0]
			}
			e.cls.add(c, fmt.Sprintf("git/receive-pack|%v c%d o%d %s|%s", rc.cmds, len(rc.caps), len(rc.opts), f, oc))
			if bad != "" {
				bad := bad
				e.fails.add("git/receive-pack/"+strings.SplitN(bad, ":", 2)[0], [3]int{i, 0, 0}, func() (string, string, any) {
					return "git receive-pack fed go-git's UpdateRequests: " + bad + ": " + descr,
						fmt.Sprintf("git does not apply the commands as encoded: exit %d stderr %q", r.Code, firstLine(r.Err)),
						map[string]any{"value": descr, "encoded": dShort(buf.Bytes()), "git_stderr": string(r.Err), "git_stdout": dShort(out)}
				})
			}
		}
	})

	// ---- protocol v2: ls-refs and fetch command requests into git upload-pack
	prefixSets := [][]string{nil, {"refs/heads/"}, {"HEAD", "refs/tags/"}, {"refs/nomatch/"}}
	type v2Case struct {
		format string
		p      []int
	}
	var v2 []v2Case
	for _, f := range []string{"sha1", "sha256"} {
		for _, p := range fw.Product(2, 2, len(prefixSets)) {
			v2 = append(v2, v2Case{f, p})
		}
	}
	c.Bound("v2_ls_refs_requests_sent_to_git", len(v2))
	// the references as git itself lists them now (the receive-pack part left some behind)
	refsNow := map[string]map[string]string{}
	for f, rp := range repos {
		refsNow[f] = map[string]string{}
		for _, l := range strings.Split(rp.g.MustRun("for-each-ref", "--format=%(objectname) %(refname)").S(), "\n") {
			if p := strings.SplitN(l, " ", 2); len(p) == 2 {
				refsNow[f][p[1]] = p[0]
			}
		}
	}
	c.ParDo(len(v2), 0, func(i int) {
		vc := v2[i]
		rp := repos[vc.format]
		args := &packp.LsRefsArgs{Peel: vc.p[0] == 1, Symrefs: vc.p[1] == 1, RefPrefixes: prefixSets[vc.p[2]]}
		cr := &packp.CommandRequest{Command: "ls-refs", Capabilities: c35Caps("agent=go-git/6.x", "object-format="+vc.format), Args: args}
		var buf bytes.Buffer
		if err := cr.Encode(&buf); err != nil {
			return
		}
		r := rp.g.With("GIT_PROTOCOL=version=2").RunIn(buf.Bytes(), "upload-pack", "--stateless-rpc", rp.dir)
		c.Eval()
		descr := fmt.Sprintf("%s peel=%v symrefs=%v prefixes=%v", vc.format, args.Peel, args.Symrefs, args.RefPrefixes)
		bad := ""
		var lo packp.LsRefsOutput
		if !r.OK() || bytes.Contains(r.Err, []byte("fatal")) {
			bad = "git-error (" + c53Outcome(fmt.Errorf("%s", firstLine(r.Err))) + ")"
		} else if err := lo.Decode(bytes.NewReader(r.Out)); err != nil {
			bad = "git's ls-refs output unreadable (" + c53Outcome(err) + ")"
		} else {
			all := map[string]string{"HEAD": rp.commits[3]}
			for n, h := range refsNow[vc.format] {
				all[n] = h
			}
			var want []string
			for n, h := range all {
				keep := len(args.RefPrefixes) == 0
				for _, p := range args.RefPrefixes {
					if strings.HasPrefix(n, p) {
						keep = true
					}
				}
				if !keep {
					continue
				}
				if n == "HEAD" && args.Symrefs {
					want = append(want, "HEAD->refs/heads/main")
				} else {
					want = append(want, n+"="+h)
				}
				if args.Peel && h == rp.tag { // refs pointing at the annotated tag object
					want = append(want, n+"^{}="+rp.commits[1])
				}
			}
			sort.Strings(want)
			if got := c35RefSet(lo.References); got != strings.Join(want, " ") {
				bad = fmt.Sprintf("git answers {%s}, the request means {%s}", got, strings.Join(want, " "))
			}
		}
		oc := "ok"
		if bad != "" {
			oc = strings.Fields(bad)[0]
		}
		e.cls.add(c, fmt.Sprintf("git/v2-ls-refs|%v %s|%s", vc.p, vc.format, oc))
		if bad != "" {
			e.fails.add("git/v2-ls-refs/"+strings.Fields(bad)[0], [3]int{i, 0, 0}, func() (string, string, any) {
				return "git upload-pack (v2) fed go-git's ls-refs CommandRequest: " + bad + ": " + descr, "git does not answer the ls-refs request as encoded",
					map[string]any{"value": descr, "encoded": fw.Q(buf.String()), "git_stderr": string(r.Err), "git_stdout": fw.Q(string(r.Out))}
			})
		}
	})

	type v2f struct {
		format string
		p      []int
	}
	var fetches []v2f
	for _, f := range []string{"sha1", "sha256"} {
		for _, p := range fw.Product(2, c.Pick(2, 3), 4, c.Pick(2, 3)) {
			fetches = append(fetches, v2f{f, p})
		}
	}
	c.Bound("v2_fetch_requests_sent_to_git", len(fetches))
	c.ParDo(len(fetches), 0, func(i int) {
		fc := fetches[i]
		rp := repos[fc.format]
		id := func(k int) plumbing.Hash { return plumbing.NewHash(rp.commits[k]) }
		a := &packp.FetchArgs{Done: true, NoProgress: true}
		a.Wants = [][]plumbing.Hash{{id(3)}, {id(3), id(1)}}[fc.p[0]]
		a.Haves = [][]plumbing.Hash{nil, {id(0)}, {id(1), id(0)}}[fc.p[1]]
		switch fc.p[2] {
		case 1:
			a.ThinPack, a.OFSDelta = true, true
		case 2:
			a.IncludeTag = true
		case 3:
			a.Filter = packp.FilterBlobNone()
		}
		switch fc.p[3] {
		case 1:
			a.Deepen = 1
		case 2:
			a.Deepen, a.Shallows = 2, []plumbing.Hash{id(2)}
		}
		cr := &packp.CommandRequest{Command: "fetch", Capabilities: c35Caps("agent=go-git/6.x", "object-format="+fc.format), Args: a}
		var buf bytes.Buffer
		if err := cr.Encode(&buf); err != nil {
			return
		}
		r := rp.g.With("GIT_PROTOCOL=version=2").C("pack.threads=1").RunIn(buf.Bytes(), "upload-pack", "--stateless-rpc", rp.dir)
		c.Eval()
		descr := fmt.Sprintf("%s wants=%d haves=%d flags=%d depth=%d", fc.format, len(a.Wants), len(a.Haves), fc.p[2], fc.p[3])
		bad := ""
		switch {
		case !r.OK() || bytes.Contains(r.Err, []byte("fatal")):
			bad = "git-error (" + c53Outcome(fmt.Errorf("%s", firstLine(r.Err))) + ")"
		case !bytes.Contains(r.Out, []byte("packfile\n")):
			bad = "no packfile section in the response"
		case a.Deepen > 0 && !bytes.Contains(r.Out, []byte("shallow-info\n")):
			bad = "no shallow-info section for a deepen request"
		case a.Deepen == 0 && a.Filter == "" && !a.IncludeTag:
			args := []string{"rev-list", "--objects", "--count"}
			for _, w := range a.Wants {
				args = append(args, w.String())
			}
			for _, h := range a.Haves {
				args = append(args, "^"+h.String())
			}
			want := rp.g.MustRun(args...).S()
			// the pack travels on sideband channel 1 right after the packfile line
			p := bytes.Index(r.Out, []byte("\x01PACK"))
			if p < 0 {
				bad = "no pack data on channel 1"
			} else if n := int(r.Out[p+9])<<24 | int(r.Out[p+10])<<16 | int(r.Out[p+11])<<8 | int(r.Out[p+12]); fmt.Sprint(n) != want {
				bad = fmt.Sprintf("pack holds %d objects, git rev-list says %s", n, want)
			}
		}
		oc := "ok"
		if bad != "" {
			oc = strings.Fields(bad)[0]
		}
		e.cls.add(c, fmt.Sprintf("git/v2-fetch|%v %s|%s", fc.p, fc.format, oc))
		if bad != "" {
			e.fails.add("git/v2-fetch/"+strings.SplitN(bad, ",", 2)[0], [3]int{i, 0, 0}, func() (string, string, any) {
				return "git upload-pack (v2) fed go-git's fetch CommandRequest: " + bad + ": " + descr, "git does not act on the fetch request as encoded",
					map[string]any{"value": descr, "encoded": fw.Q(buf.String()), "git_stderr": string(r.Err), "git_stdout": dShort(r.Out)}
			})
		}
	})
}

func reversed(a []int) []int {
	out := make([]int, len(a))
	for i, x := range a {
		out[len(a)-1-i] = x
	}
	return out
}

func firstLine(b []byte) string {
	s := strings.TrimSpace(string(b))
	if i := strings.IndexByte(s, '\n'); i >= 0 {
		s = s[:i]
	}
	if len(s) > 200 {
		s = s[:200]
	}
	return s
}

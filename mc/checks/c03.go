package checks

// C03 — signature verification payload equals git's.
//
// Every object of a signed-object grammar (gpgsig / second gpgsig /
// gpgsig-sha256 / mergetag carrying an armoured block / unknown and
// continuation headers at every position relative to author and committer;
// tags with inline PGP, SSH, X.509 armour, two blocks, text after the block) is
// stored in a git repository and verified with
//   git -c gpg.program=F -c gpg.ssh.program=F -c gpg.x509.program=F verify-commit|verify-tag <id>
// where F is a script that saves its stdin (the payload) and the signature
// file it is handed. go-git side: the bytes of EncodeWithoutSignature and the
// signature Commit.Verify / Tag.Verify hand to the verifier (Commit.Signature,
// Tag.Signature) must equal the captured pair; when git finds no signature
// go-git must not present an armoured one. Mutated variants: the decoded
// struct with Message or Author/Tagger name changed is encoded, that encoding is
// stored in git and captured the same way: EncodeWithoutSignature of the
// mutated struct must be the payload git verifies for what go-git writes; with
// only the Signature field cleared the payload must stay the stored one.

import (
	"bytes"
	"fmt"
	"os"
	"path/filepath"
	"strings"

	"github.com/go-git/go-git/v6/plumbing"
	"github.com/go-git/go-git/v6/plumbing/object"

	"verifmc/fw"
)

func init() {
	fw.Register(&fw.Check{ID: "C03", Level: "exploration", Run: runC03, QuickBudget: 90, ThoroughBudget: 900})
}

const c03Script = `#!/bin/sh
# fake gpg / gpgsm / ssh-keygen: capture payload (stdin) and signature file.
# Shell builtins only (no cat/cp: one process per call). Text without NUL
# bytes is copied exactly, including a missing final newline.
sig=; prev=
for a in "$@"; do
  case "$prev" in --verify|-s) sig=$a;; esac
  prev=$a
done
case " $* " in
  *" find-principals "*) echo "fake-principal"; exit 0;;
esac
copy() {
  while IFS= read -r line; do printf '%s\n' "$line"; done
  [ -n "$line" ] && printf '%s' "$line"
}
copy > "$CAP_DIR/$CAP_ID.payload"
copy < "$sig" > "$CAP_DIR/$CAP_ID.sig"
case " $* " in
  *" -Y "*) echo 'Good "git" signature for fake-principal with ED25519 key SHA256:abc';;
  *) printf '[GNUPG:] GOODSIG 0123456789ABCDEF Fake Signer <f@x>\n[GNUPG:] VALIDSIG 0123456789ABCDEF0123456789ABCDEF01234567 2023-01-01 1700000000 0 4 0 1 8 00 0123456789ABCDEF0123456789ABCDEF01234567\n[GNUPG:] TRUST_ULTIMATE 0 pgp\n';;
esac
exit 0
`

var c03CommitKinds = []aLine{
	{"gpgsig", aHdr("gpgsig", aPGP)},
	{"gpgsig#2-ssh", aHdr("gpgsig", aSSH)},
	{"gpgsig-sha256", aHdr("gpgsig-sha256", aPGP2)},
	{"foo", "foo bar\n"},
	{"mergetag-signed", aHdr("mergetag", "object "+aParentIDs[1]+"\ntype commit\ntag v0\ntagger T <t@x> 1 +0000\n\nmerged\n"+aPGP)},
	{"cont", "bar a\n \n b\n"},
}

var c03CommitMsgs = []aMsg{
	{Label: "m-nl", Sep: true, Body: "m\n"},
	{Label: "no-separator"},
	{Label: "armour-in-body", Sep: true, Body: "m\n" + aPGP},
}

var c03TagKinds = []aLine{
	{"tagger", "tagger " + aNormalT + "\n"},
	{"gpgsig-sha256", aHdr("gpgsig-sha256", aPGP2)},
	{"gpgsig", aHdr("gpgsig", aPGP)},
	{"foo", "foo bar\n"},
}

// c03CommitCases: author before committer, with every ordered selection of
// <= maxExtra sig-related lines distributed over all positions.
func c03CommitCases(maxExtra int) []aCase {
	var out []aCase
	a, cm := aCommitLineKinds[0], aCommitLineKinds[1]
	for _, sel := range aOrderedSelections(len(c03CommitKinds), maxExtra) {
		n := len(sel)
		for pa := 0; pa <= n; pa++ { // author goes before extra #pa
			for pc := pa; pc <= n; pc++ { // committer before extra #pc (after author)
				var lines []aLine
				for i := 0; i <= n; i++ {
					if i == pa {
						lines = append(lines, a)
					}
					if i == pc {
						lines = append(lines, cm)
					}
					if i < n {
						lines = append(lines, c03CommitKinds[sel[i]])
					}
				}
				for _, m := range c03CommitMsgs {
					out = append(out, aCase{Kind: "commit", Parents: 1, Lines: lines, Msg: m})
				}
			}
		}
	}
	return out
}

func c03TagCases(maxLines int) []aCase {
	var out []aCase
	msgs := append([]aMsg{aPlainMsgs[3], aPlainMsgs[0], aPlainMsgs[1]}, aTagSigMsgs...)
	for _, sel := range aOrderedSelections(len(c03TagKinds), maxLines) {
		lines := make([]aLine, len(sel))
		for i, x := range sel {
			lines[i] = c03TagKinds[x]
		}
		for _, t := range []string{"commit", "blob"} {
			for _, m := range msgs {
				out = append(out, aCase{Kind: "tag", TType: t, Lines: lines, Msg: m})
			}
		}
	}
	return out
}

type c03Cap struct {
	ran          bool
	payload, sig []byte
	exit         int
	stderr       string
}

type c03Env struct {
	c      *fw.Ctx
	g      *fw.Git
	capDir string
}

func c03NewEnv(c *fw.Ctx, format string) *c03Env {
	g, _ := c.InitRepo("c03-"+format, format, true)
	dir := c.TempDir("c03-cap-" + format)
	script := filepath.Join(dir, "fakegpg.sh")
	if err := os.WriteFile(script, []byte(c03Script), 0o755); err != nil {
		fw.Abort("write fake gpg: %v", err)
	}
	allowed := filepath.Join(dir, "allowed_signers")
	aMustWrite(allowed, []byte("fake-principal ssh-ed25519 AAAAC3NzaC1lZDI1NTE5AAAAIJunk\n"))
	g = g.C("gpg.program="+script, "gpg.openpgp.program="+script, "gpg.ssh.program="+script, "gpg.x509.program="+script,
		"gpg.ssh.allowedSignersFile="+allowed, "gpg.minTrustLevel=undefined").With("CAP_DIR=" + dir)
	return &c03Env{c, g, dir}
}

// capture runs git verify-commit / verify-tag on id.
func (e *c03Env) capture(kind, id, capID string) c03Cap {
	cmd := "verify-commit"
	if kind == "tag" {
		cmd = "verify-tag"
	}
	r := e.g.With("CAP_ID="+capID).Run(cmd, id)
	out := c03Cap{exit: r.Code, stderr: string(r.Err)}
	p, err1 := os.ReadFile(filepath.Join(e.capDir, capID+".payload"))
	s, err2 := os.ReadFile(filepath.Join(e.capDir, capID+".sig"))
	if err1 == nil && err2 == nil {
		out.ran, out.payload, out.sig = true, p, s
		os.Remove(filepath.Join(e.capDir, capID+".payload"))
		os.Remove(filepath.Join(e.capDir, capID+".sig"))
	} else if r.Code == 0 {
		fw.Abort("git %s %s succeeded without running the verifier", cmd, id)
	}
	return out
}

func c03Armoured(s string) bool {
	for _, p := range []string{"-----BEGIN PGP SIGNATURE-----", "-----BEGIN PGP MESSAGE-----", "-----BEGIN SSH SIGNATURE-----", "-----BEGIN SIGNED MESSAGE-----"} {
		if strings.HasPrefix(s, p) {
			return true
		}
	}
	return false
}

// c03SigClass names the signature-relevant shape of a case (key of a failure).
func c03SigClass(k aCase) string {
	var s []string
	for _, l := range k.Labels() {
		switch {
		case l == "author" || l == "committer" || l == "tagger":
			s = append(s, l[:1])
		default:
			s = append(s, l)
		}
	}
	return k.Kind + " [" + strings.Join(s, " ") + "] msg=" + k.Msg.Label
}

func runC03(c *fw.Ctx) {
	maxExtra := c.Pick(2, 3)
	maxTag := c.Pick(2, 3)
	mutExtra := c.Pick(1, 2)
	c.Bound("commit_sig_line_kinds", len(c03CommitKinds))
	c.Bound("commit_max_extra_lines", maxExtra)
	c.Bound("commit_messages", len(c03CommitMsgs))
	c.Bound("tag_line_kinds", len(c03TagKinds))
	c.Bound("tag_max_lines", maxTag)
	c.Bound("tag_messages", 3+len(aTagSigMsgs))
	c.Bound("mutated_variants_for_objects_with_extra_lines_up_to", mutExtra)
	c.Bound("sha256_repository", "commits with <= 1 extra line")
	c.SetRule("commits = author, committer + every ordered selection of <= max sig-related lines {gpgsig(PGP), 2nd gpgsig(SSH), gpgsig-sha256, foo, mergetag with armoured block, continuation header} at every position x 3 messages; tags = <= max lines of {tagger, gpgsig-sha256, gpgsig, foo} x 11 messages (inline PGP/SSH/X509/PGP MESSAGE, two blocks, text after block, armour not at line start); one `git verify-commit|verify-tag` per object with a capturing fake gpg/gpgsm/ssh-keygen; compared with EncodeWithoutSignature bytes and the Signature field; plus mutated variants (Message, name, Signature cleared); an evaluation is one (object, variant) compared against one git capture; class = (kind, line labels, message, variant, did git run the verifier, verdict)")
	c.Assume("git 2.39.5 verify-commit/verify-tag: what the configured gpg program receives on stdin is the payload, the file it is handed is the signature; the capturing script copies text exactly (the grammar has no NUL bytes in signed objects)")
	c.Assume("'the signature go-git extracts' = the field Commit.Verify / Tag.Verify pass to the verifier: Commit.Signature, Tag.Signature")
	c.Assume("mutated variant oracle: the mutated struct's full encoding is stored in git and git's captured payload for THAT object is the expected EncodeWithoutSignature of the mutated struct")

	for _, format := range []string{"sha1", "sha256"} {
		e := c03NewEnv(c, format)
		var cases []aCase
		if format == "sha1" {
			cases = append(c03CommitCases(maxExtra), c03TagCases(maxTag)...)
		} else {
			cases = c03CommitCases(1)
		}
		objs := make([]aObj, len(cases))
		for i, k := range cases {
			objs[i] = aObj{k.Kind, c03Raw(k, format)}
		}
		ids := aStoreObjects(e.g, format, objs)
		// mutated variants: encode the mutated structs now, store them all in
		// one pack, capture later
		muts := make([]map[string][]byte, len(cases))
		var mobjs []aObj
		if format == "sha1" {
			for i, k := range cases {
				if c03Extras(k) > mutExtra {
					continue
				}
				muts[i] = c03MutatedEncodings(k, objs[i].Data, format)
				for _, name := range c03Mutations {
					if b, ok := muts[i][name]; ok {
						mobjs = append(mobjs, aObj{k.Kind, b})
					}
				}
			}
			aStoreObjects(e.g, format, mobjs)
		}
		c.ParDo(len(cases), 0, func(i int) {
			c03One(e, format, cases[i], objs[i].Data, ids[i], i, muts[i])
		})
	}
}

var c03Mutations = []string{"message-mutated", "name-mutated"}

func c03Extras(k aCase) int {
	n := 0
	for _, l := range k.Labels() {
		if l != "author" && l != "committer" && l != "tagger" {
			n++
		}
	}
	return n
}

func c03Mutate(cm *object.Commit, tg *object.Tag, mut string) (undo func()) {
	if cm != nil {
		om, on := cm.Message, cm.Author.Name
		if mut == "message-mutated" {
			cm.Message += "x\n"
		} else {
			cm.Author.Name += " Jr"
		}
		return func() { cm.Message, cm.Author.Name = om, on }
	}
	om, on := tg.Message, tg.Tagger.Name
	if mut == "message-mutated" {
		tg.Message += "x\n"
	} else {
		tg.Tagger.Name += " Jr"
	}
	return func() { tg.Message, tg.Tagger.Name = om, on }
}

func c03Decode(k aCase, raw []byte, format string) (cm *object.Commit, tg *object.Tag, err error, p string) {
	t := plumbing.CommitObject
	if k.Kind == "tag" {
		t = plumbing.TagObject
	}
	o := plumbing.NewMemoryObject(plumbing.FromObjectFormat(c01FormatOf(format)))
	o.SetType(t)
	o.Write(raw)
	p = aGuard(func() {
		if k.Kind == "commit" {
			cm = &object.Commit{}
			err = cm.Decode(o)
		} else {
			tg = &object.Tag{}
			err = tg.Decode(o)
		}
	})
	return
}

// c03MutatedEncodings returns the full encoding (with signatures) of the
// decoded-then-mutated struct per mutation; missing entry = decode/encode failed
// (reported by c03One).
func c03MutatedEncodings(k aCase, raw []byte, format string) map[string][]byte {
	out := map[string][]byte{}
	cm, tg, err, p := c03Decode(k, raw, format)
	if err != nil || p != "" {
		return out
	}
	for _, mut := range c03Mutations {
		undo := c03Mutate(cm, tg, mut)
		var full []byte
		perr := aGuard(func() {
			o := &plumbing.MemoryObject{}
			if cm != nil {
				cm.Encode(o)
			} else {
				tg.Encode(o)
			}
			full = c02ReadAll(o)
		})
		undo()
		if perr == "" && full != nil {
			out[mut] = full
		}
	}
	return out
}

// c03Raw renders the case; in a sha256 repository every 40-digit id of the
// grammar is doubled to 64 digits.
func c03Raw(k aCase, format string) []byte {
	raw := k.Raw()
	if format != "sha256" {
		return raw
	}
	s := string(raw)
	for _, id := range append([]string{aTreeID}, aParentIDs...) {
		s = strings.ReplaceAll(s, id, id+id[:24])
	}
	return []byte(s)
}

func c03One(e *c03Env, format string, k aCase, raw []byte, id string, idx int, muts map[string][]byte) {
	c := e.c
	sigClass := c03SigClass(k)
	fail := func(kind, variant, got, want string, extra map[string]any) {
		rep := map[string]any{"format": format, "object": k.Desc(), "id": id, "raw": string(raw), "variant": variant, "go_git": got, "git": want}
		for kk, v := range extra {
			rep[kk] = v
		}
		key := kind + ": " + sigClass
		if variant != "as-decoded" {
			key = kind + " (" + variant + "): " + sigClass
		}
		if k.Kind == "tag" && strings.HasPrefix(kind, "payload differs") && c03AdjacentSigHeaders(k) {
			// git's remove_signature() advances to its second slot only after a
			// non-signature line, so of adjacent gpgsig*/gpgsig* blocks only the
			// last is removed from the tag payload
			key = "payload differs from what git verifies: tag with adjacent gpgsig and gpgsig-sha256 headers"
		}
		if strings.HasPrefix(kind, "git refuses before running the verifier") {
			key = kind // one class: a predicate on the input (no signer identity in the payload)
		}
		if format == "sha256" && (strings.HasPrefix(kind, "extracted signature") || strings.HasPrefix(kind, "go-git presents")) {
			key = "sha256 repository: the signature Commit.Verify uses is the gpgsig header, git verifies gpgsig-sha256"
		} else if format == "sha256" {
			key = "sha256 repository: " + key
		}
		aFail(c, key, fmt.Sprintf("%s for %s [%s, %s]: go-git %s, git %s", kind, k.Desc(), format, variant, fw.Q(got), fw.Q(want)), rep)
	}
	// --- decode
	cm, tg, derr, p := c03Decode(k, raw, format)
	if p != "" || derr != nil {
		aFail(c, "decode fails: "+sigClass, fmt.Sprintf("Decode of %s: %s %v", k.Desc(), p, derr), map[string]any{"object": k.Desc(), "raw": string(raw)})
		return
	}
	payloadOf := func() ([]byte, string, string) {
		var b []byte
		var sig, perr string
		perr = aGuard(func() {
			o := &plumbing.MemoryObject{}
			var err error
			if cm != nil {
				err = cm.EncodeWithoutSignature(o)
				sig = cm.Signature
			} else {
				err = tg.EncodeWithoutSignature(o)
				sig = tg.Signature
			}
			if err != nil {
				perr = err.Error()
				return
			}
			b = c02ReadAll(o)
		})
		return b, sig, perr
	}
	compare := func(variant string, cap c03Cap, wantSigToo bool) {
		c.Eval()
		pay, sig, perr := payloadOf()
		verdict := "agree"
		switch {
		case perr != "":
			verdict = "error"
			fail("EncodeWithoutSignature fails", variant, perr, "payload", nil)
		case cap.ran:
			if !bytes.Equal(pay, cap.payload) {
				verdict = "payload-differs"
				fail("payload differs from what git verifies", variant, string(pay), string(cap.payload), nil)
			}
			if wantSigToo && sig != string(cap.sig) {
				verdict = "signature-differs"
				fail("extracted signature differs from git's", variant, sig, string(cap.sig), nil)
			}
		default:
			noSig := strings.Contains(cap.stderr, "no signature found")
			switch {
			case !wantSigToo || !c03Armoured(sig):
			case noSig || format == "sha256":
				verdict = "spurious-signature"
				fail("go-git presents a signature where git finds none", variant, sig, "(verifier not run: "+strings.TrimSpace(cap.stderr)+")", nil)
			case !c03HasSignerIdent(k):
				// git found the signature but check_signature() gives up in
				// parse_payload_metadata: no tagger/committer identity
				verdict = "git-refuses-no-identity"
				fail("git refuses before running the verifier (no "+map[string]string{"tag": "tagger", "commit": "committer"}[k.Kind]+" identity in the payload) but go-git hands payload and signature to the verifier", variant, sig, fmt.Sprintf("exit %d, verifier not run", cap.exit), nil)
			default:
				verdict = "git-did-not-verify"
				fail("git did not run the verifier", variant, sig, fmt.Sprintf("exit %d: %s", cap.exit, strings.TrimSpace(cap.stderr)), nil)
			}
		}
		c.Class(fmt.Sprintf("%s/%s/%s/%s/ran=%v/%s", format, k.Kind, strings.Join(k.Labels(), ","), k.Msg.Label, cap.ran, variant+":"+verdict))
		if idx%997 == 3 && variant == "as-decoded" {
			c.Sample(map[string]any{"format": format, "object": k.Desc(), "id": id, "git_ran_verifier": cap.ran, "git_payload": string(cap.payload), "git_signature": string(cap.sig), "verdict": verdict})
		}
	}
	capID := fmt.Sprintf("%s-%d", format, idx)
	base := e.capture(k.Kind, id, capID)
	compare("as-decoded", base, true)

	// --- mutated variants (bounded subset)
	if muts == nil {
		return
	}
	// (1) only the Signature field cleared: payload unchanged
	{
		save := ""
		if cm != nil {
			save, cm.Signature = cm.Signature, ""
		} else {
			save, tg.Signature = tg.Signature, ""
		}
		compare("signature-cleared", base, false)
		if cm != nil {
			cm.Signature = save
		} else {
			tg.Signature = save
		}
	}
	// (2) Message changed, (3) name changed: expected = git's payload for the
	// object go-git writes from the mutated struct
	for _, mut := range c03Mutations {
		full, ok := muts[mut]
		if !ok {
			aFail(c, "Encode of mutated struct fails", "Encode of the "+mut+" struct of "+k.Desc()+" failed", map[string]any{"object": k.Desc()})
			continue
		}
		undo := c03Mutate(cm, tg, mut)
		mcap := e.capture(k.Kind, aRawID(format, k.Kind, full), capID+"-"+mut)
		compare(mut, mcap, false)
		undo()
	}
}

// c03HasSignerIdent: does the header block carry the identity line git's
// parse_payload_metadata looks for (find_commit_header: first header line with
// that key)?
func c03HasSignerIdent(k aCase) bool {
	want := "committer"
	if k.Kind == "tag" {
		want = "tagger"
	}
	for _, l := range k.Labels() {
		if l == want {
			return true
		}
	}
	return false
}

func c03AdjacentSigHeaders(k aCase) bool {
	lb := k.Labels()
	for i := 1; i < len(lb); i++ {
		if strings.HasPrefix(lb[i], "gpgsig") && strings.HasPrefix(lb[i-1], "gpgsig") {
			return true
		}
	}
	return false
}

// c03ShaClass: in a sha256 repository the failures are keyed by which
// signature headers are present.
func c03ShaClass(k aCase) string {
	var s []string
	for _, l := range k.Labels() {
		if strings.HasPrefix(l, "gpgsig") || l == "mergetag-signed" {
			s = append(s, l)
		}
	}
	if len(s) == 0 {
		return "no signature header"
	}
	return strings.Join(s, "+")
}

package checks

// C03 — signature verification payload equals git's.
//
// Every object of a signed-object grammar (gpgsig / second gpgsig /
// gpgsig-sha256 / mergetag carrying an armoured block / unknown and
// continuation headers at every position relative to author and committer;
// tags with inline PGP, SSH, X.509 armour, two blocks, text after the block) is
// stored in a git repository and verified with
//   git -c gpg.program=F -c gpg.ssh.program=F -c gpg.x509.program=F verify-commit|verify-tag <id>
// where F is a script that saves its stdin (the payload) and the signature
// file it is handed. go-git side: the bytes of EncodeWithoutSignature and the
// signature Commit.Verify / Tag.Verify hand to the verifier (Commit.Signature,
// Tag.Signature) must equal the captured pair; when git finds no signature
// go-git must not present an armoured one. Mutated variants: the decoded
// struct with Message or Author/Tagger name changed is encoded, that encoding is
// stored in git and captured the same way: EncodeWithoutSignature of the
// mutated struct must be the payload git verifies for what go-git writes; with
// only the Signature field cleared the payload must stay the stored one.

import (
	"bytes"
	"fmt"
	"os"
	"path/filepath"
	"regexp"
	"strconv"
	"strings"

	"github.com/go-git/go-git/v6/plumbing"
	"github.com/go-git/go-git/v6/plumbing/object"

	"verifmc/fw"
)

func init() {
	fw.Register(&fw.Check{ID: "C03", Level: "exploration", Run: runC03, QuickBudget: 90, ThoroughBudget: 900})
}

const c03Script = `#!/bin/sh
# fake gpg / gpgsm / ssh-keygen: capture payload (stdin) and signature file.
# Shell builtins only (no cat/cp: one process per call). Text without NUL
# bytes is copied exactly, including a missing final newline.
sig=; prev=
for a in "$@"; do
  case "$prev" in --verify|-s) sig=$a;; esac
  prev=$a
done
case " $* " in
  *" find-principals "*) echo "fake-principal"; exit 0;;
esac
copy() {
  while IFS= read -r line; do printf '%s\n' "$line"; done
  [ -n "$line" ] && printf '%s' "$line"
}
n=0
[ -f "$CAP_DIR/$CAP_ID.n" ] && read -r n < "$CAP_DIR/$CAP_ID.n"
n=$((n+1))
echo "$n" > "$CAP_DIR/$CAP_ID.n"
copy > "$CAP_DIR/$CAP_ID.$n.payload"
copy < "$sig" > "$CAP_DIR/$CAP_ID.$n.sig"
case " $* " in
  *" -Y "*) echo 'Good "git" signature for fake-principal with ED25519 key SHA256:abc';;
  *) printf '[GNUPG:] GOODSIG 0123456789ABCDEF Fake Signer <f@x>\n[GNUPG:] VALIDSIG 0123456789ABCDEF0123456789ABCDEF01234567 2023-01-01 1700000000 0 4 0 1 8 00 0123456789ABCDEF0123456789ABCDEF01234567\n[GNUPG:] TRUST_ULTIMATE 0 pgp\n';;
esac
exit 0
`

var c03CommitKinds = []aLine{
	{"gpgsig", aHdr("gpgsig", aPGP)},
	{"gpgsig#2-ssh", aHdr("gpgsig", aSSH)},
	{"gpgsig-sha256", aHdr("gpgsig-sha256", aPGP2)},
	{"foo", "foo bar\n"},
	{"mergetag-signed", aHdr("mergetag", "object "+aParentIDs[1]+"\ntype commit\ntag v0\ntagger T <t@x> 1 +0000\n\nmerged\n"+aPGP)},
	{"cont", "bar a\n \n b\n"},
}

var c03CommitMsgs = []aMsg{
	{Label: "m-nl", Sep: true, Body: "m\n"},
	{Label: "no-separator"},
	{Label: "armour-in-body", Sep: true, Body: "m\n" + aPGP},
}

var c03TagKinds = []aLine{
	{"tagger", "tagger " + aNormalT + "\n"},
	{"gpgsig-sha256", aHdr("gpgsig-sha256", aPGP2)},
	{"gpgsig", aHdr("gpgsig", aPGP)},
	{"foo", "foo bar\n"},
}

// c03WsKinds: multi-line NON-signature headers with a continuation line that
// holds only white space (as the last continuation line, with TAB, with CR,
// with two blanks) — the neighbourhood of "is this the blank line that ends the
// header block?".
var c03WsKinds = []aLine{
	{"cont-trailing-blank", "bar a\n \n"},
	{"cont-tab", "bar a\n \t\n b\n"},
	{"cont-cr", "bar a\n \r\n b\n"},
	{"cont-2sp", "bar a\n  \n b\n"},
	{"mergetag-trailing-blank", aHdr("mergetag", "object "+aParentIDs[1]+"\ntype commit\ntag v0\ntagger T <t@x> 1 +0000\n\nmerged\n") + " \n"},
}

// c03WhitespaceCases: each of them before gpgsig, after gpgsig, before
// gpgsig-sha256 and between author and committer of a signed commit.
func c03WhitespaceCases() []aCase {
	var out []aCase
	a, cm := aCommitLineKinds[0], aCommitLineKinds[1]
	sig, sig256 := c03CommitKinds[0], c03CommitKinds[2]
	for _, w := range c03WsKinds {
		for _, lines := range [][]aLine{{a, cm, w, sig}, {a, cm, sig, w}, {a, cm, w, sig256}, {a, w, cm, sig}} {
			out = append(out, aCase{Kind: "commit", Parents: 1, Lines: lines, Msg: c03CommitMsgs[0]})
		}
	}
	return out
}

// c03CommitCases: author before committer, with every ordered selection of
// <= maxExtra sig-related lines distributed over all positions.
func c03CommitCases(maxExtra int) []aCase {
	var out []aCase
	a, cm := aCommitLineKinds[0], aCommitLineKinds[1]
	for _, sel := range aOrderedSelections(len(c03CommitKinds), maxExtra) {
		n := len(sel)
		for pa := 0; pa <= n; pa++ { // author goes before extra #pa
			for pc := pa; pc <= n; pc++ { // committer before extra #pc (after author)
				var lines []aLine
				for i := 0; i <= n; i++ {
					if i == pa {
						lines = append(lines, a)
					}
					if i == pc {
						lines = append(lines, cm)
					}
					if i < n {
						lines = append(lines, c03CommitKinds[sel[i]])
					}
				}
				for _, m := range c03CommitMsgs {
					out = append(out, aCase{Kind: "commit", Parents: 1, Lines: lines, Msg: m})
				}
			}
		}
	}
	return out
}

func c03TagCases(maxLines int) []aCase {
	var out []aCase
	msgs := append([]aMsg{aPlainMsgs[3], aPlainMsgs[0], aPlainMsgs[1]}, aTagSigMsgs...)
	for _, sel := range aOrderedSelections(len(c03TagKinds), maxLines) {
		lines := make([]aLine, len(sel))
		for i, x := range sel {
			lines[i] = c03TagKinds[x]
		}
		for _, t := range []string{"commit", "blob"} {
			for _, m := range msgs {
				out = append(out, aCase{Kind: "tag", TType: t, Lines: lines, Msg: m})
			}
		}
	}
	return out
}

type c03Cap struct {
	ran          bool
	payload, sig []byte
	exit         int
	stderr       string
}

type c03Env struct {
	c      *fw.Ctx
	g      *fw.Git
	capDir string
}

func c03NewEnv(c *fw.Ctx, format string) *c03Env {
	g, _ := c.InitRepo("c03-"+format, format, true)
	dir := c.TempDir("c03-cap-" + format)
	script := filepath.Join(dir, "fakegpg.sh")
	if err := os.WriteFile(script, []byte(c03Script), 0o755); err != nil {
		fw.Abort("write fake gpg: %v", err)
	}
	allowed := filepath.Join(dir, "allowed_signers")
	aMustWrite(allowed, []byte("fake-principal ssh-ed25519 AAAAC3NzaC1lZDI1NTE5AAAAIJunk\n"))
	g = g.C("gpg.program="+script, "gpg.openpgp.program="+script, "gpg.ssh.program="+script, "gpg.x509.program="+script,
		"gpg.ssh.allowedSignersFile="+allowed, "gpg.minTrustLevel=undefined").With("CAP_DIR=" + dir)
	return &c03Env{c, g, dir}
}

// capture runs git verify-commit / verify-tag on id.
func (e *c03Env) capture(kind, id, capID string) c03Cap {
	cmd := "verify-commit"
	if kind == "tag" {
		cmd = "verify-tag"
	}
	r := e.g.With("CAP_ID="+capID).Run(cmd, id)
	out := c03Cap{exit: r.Code, stderr: string(r.Err)}
	p, err1 := os.ReadFile(filepath.Join(e.capDir, capID+".1.payload"))
	s, err2 := os.ReadFile(filepath.Join(e.capDir, capID+".1.sig"))
	os.Remove(filepath.Join(e.capDir, capID+".n"))
	if err1 == nil && err2 == nil {
		out.ran, out.payload, out.sig = true, p, s
		os.Remove(filepath.Join(e.capDir, capID+".1.payload"))
		os.Remove(filepath.Join(e.capDir, capID+".1.sig"))
	} else if r.Code == 0 {
		fw.Abort("git %s %s succeeded without running the verifier", cmd, id)
	}
	return out
}

// captureBatch runs ONE `git verify-commit|verify-tag id...` for all ids; the
// fake verifier numbers its invocations, and each captured payload is mapped
// back to its object through the per-object token (c03Token) that every
// object of the grammar carries in a line that is always part of the payload.
// Objects for which the verifier was not run are absent from the result.
func (e *c03Env) captureBatch(kind string, ids []string, capID string) map[int]c03Cap {
	cmd := "verify-commit"
	if kind == "tag" {
		cmd = "verify-tag"
	}
	e.g.With("CAP_ID=" + capID).Run(append([]string{cmd}, ids...)...)
	out := map[int]c03Cap{}
	dup := map[int]bool{}
	for n := 1; ; n++ {
		pf, sf := filepath.Join(e.capDir, fmt.Sprintf("%s.%d.payload", capID, n)), filepath.Join(e.capDir, fmt.Sprintf("%s.%d.sig", capID, n))
		p, err1 := os.ReadFile(pf)
		s, err2 := os.ReadFile(sf)
		if err1 != nil || err2 != nil {
			break
		}
		os.Remove(pf)
		os.Remove(sf)
		tok, ok := c03TokenOf(kind, p)
		if !ok {
			continue // left to the one-by-one path
		}
		if _, twice := out[tok]; twice {
			dup[tok] = true
		}
		out[tok] = c03Cap{ran: true, payload: p, sig: s}
	}
	os.Remove(filepath.Join(e.capDir, capID+".n"))
	for tok := range dup {
		delete(out, tok) // ambiguous: left to the one-by-one path
	}
	return out
}

var (
	c03CommitTokRe = regexp.MustCompile(`(?m)^author [^\n]*<author\+(\d+)@example\.com>`)
	c03TagTokRe    = regexp.MustCompile(`(?m)^tag v1-(\d+)$`)
)

// c03WithToken makes the object unique and recognisable: commits carry the case
// number in the author's e-mail address, tags in the tag name. Neither line is
// ever removed from a verification payload.
func c03WithToken(kind string, raw []byte, idx int) []byte {
	if kind == "commit" {
		return bytes.Replace(raw, []byte("<author@example.com>"), []byte(fmt.Sprintf("<author+%d@example.com>", idx)), 1)
	}
	return bytes.Replace(raw, []byte("\ntag v1\n"), []byte(fmt.Sprintf("\ntag v1-%d\n", idx)), 1)
}

func c03TokenOf(kind string, payload []byte) (int, bool) {
	re := c03CommitTokRe
	if kind == "tag" {
		re = c03TagTokRe
	}
	m := re.FindSubmatch(payload)
	if m == nil {
		return 0, false
	}
	n, err := strconv.Atoi(string(m[1]))
	return n, err == nil
}

func c03Armoured(s string) bool {
	for _, p := range []string{"-----BEGIN PGP SIGNATURE-----", "-----BEGIN PGP MESSAGE-----", "-----BEGIN SSH SIGNATURE-----", "-----BEGIN SIGNED MESSAGE-----"} {
		if strings.HasPrefix(s, p) {
			return true
		}
	}
	return false
}

// c03SigClass names the signature-relevant shape of a case (key of a failure).
func c03SigClass(k aCase) string {
	var s []string
	for _, l := range k.Labels() {
		switch {
		case l == "author" || l == "committer" || l == "tagger":
			s = append(s, l[:1])
		default:
			s = append(s, l)
		}
	}
	return k.Kind + " [" + strings.Join(s, " ") + "] msg=" + k.Msg.Label
}

func runC03(c *fw.Ctx) {
	maxExtra := c.Pick(2, 3)
	maxTag := c.Pick(2, 3)
	mutExtra := c.Pick(1, 2)
	c.Bound("commit_sig_line_kinds", len(c03CommitKinds))
	c.Bound("commit_max_extra_lines", maxExtra)
	c.Bound("commit_messages", len(c03CommitMsgs))
	c.Bound("tag_line_kinds", len(c03TagKinds))
	c.Bound("tag_max_lines", maxTag)
	c.Bound("tag_messages", 3+len(aTagSigMsgs))
	c.Bound("mutated_variants_for_objects_with_extra_lines_up_to", mutExtra)
	c.Bound("sha256_repository", "commits with <= 1 extra line + the whitespace-continuation family")
	c.Bound("whitespace_continuation_family", fmt.Sprintf("%d header kinds x {before gpgsig, after gpgsig, before gpgsig-sha256, between author and committer}", len(c03WsKinds)))
	c.Bound("long_line_cases", len(aLongLineCases()))
	c.Bound("verify_batch_size", c03BatchSize)
	c.SetRule("commits = author, committer + every ordered selection of <= max sig-related lines {gpgsig(PGP), 2nd gpgsig(SSH), gpgsig-sha256, foo, mergetag with armoured block, continuation header} at every position x 3 messages; tags = <= max lines of {tagger, gpgsig-sha256, gpgsig, foo} x 11 messages (inline PGP/SSH/X509/PGP MESSAGE, two blocks, text after block, armour not at line start); `git verify-commit|verify-tag` (one process per batch of objects, payloads mapped back through a per-object token in the author e-mail / tag name) with a capturing fake gpg/gpgsm/ssh-keygen; plus signed commits with whitespace-only continuation lines in non-signature headers and objects with 5000/70000-byte lines; compared with EncodeWithoutSignature bytes and the Signature field; plus mutated variants (Message, name, Signature cleared); an evaluation is one (object, variant) compared against one git capture; class = (kind, line labels, message, variant, did git run the verifier, verdict)")
	c.Assume("git 2.39.5 verify-commit/verify-tag: what the configured gpg program receives on stdin is the payload, the file it is handed is the signature; the capturing script copies text exactly (the grammar has no NUL bytes in signed objects)")
	c.Assume("'the signature go-git extracts' = the field Commit.Verify / Tag.Verify pass to the verifier: Commit.Signature, Tag.Signature")
	c.Assume("mutated variant oracle: the mutated struct's full encoding is stored in git and git's captured payload for THAT object is the expected EncodeWithoutSignature of the mutated struct")

	for _, format := range []string{"sha1", "sha256"} {
		e := c03NewEnv(c, format)
		var cases []aCase
		// order (it only matters when the deadline cuts the run): the
		// whitespace-continuation and long-line families, then the commits with
		// author and committer where git writes them, the tags, the rest
		canon := func(all []aCase, want bool) []aCase {
			var out []aCase
			for _, k := range all {
				lb := k.Labels()
				if (len(lb) >= 2 && lb[0] == "author" && lb[1] == "committer") == want {
					out = append(out, k)
				}
			}
			return out
		}
		if format == "sha1" {
			all := c03CommitCases(maxExtra)
			cases = append(c03WhitespaceCases(), aLongLineCases()...)
			cases = append(cases, canon(all, true)...)
			cases = append(cases, c03TagCases(maxTag)...)
			cases = append(cases, canon(all, false)...)
		} else {
			all := c03CommitCases(1)
			cases = append(c03WhitespaceCases(), canon(all, true)...)
			cases = append(cases, canon(all, false)...)
		}
		objs := make([]aObj, len(cases))
		for i, k := range cases {
			objs[i] = aObj{k.Kind, c03WithToken(k.Kind, c03Raw(k, format), i)}
		}
		ids := aStoreObjects(e.g, format, objs)
		// mutated variants: encode the mutated structs now, store them all in
		// one pack, capture later
		muts := make([]map[string][]byte, len(cases))
		var mobjs []aObj
		if format == "sha1" {
			for i, k := range cases {
				if c03Extras(k) > mutExtra {
					continue
				}
				muts[i] = c03MutatedEncodings(k, objs[i].Data, format)
				for _, name := range c03Mutations {
					if b, ok := muts[i][name]; ok {
						mobjs = append(mobjs, aObj{k.Kind, b})
					}
				}
			}
			aStoreObjects(e.g, format, mobjs)
		}
		// batches of consecutive cases of one kind: one git process verifies the
		// whole batch (and one per mutation), then the go-git side is compared
		type batch struct {
			kind string
			idx  []int
		}
		var batches []batch
		for i, k := range cases {
			if n := len(batches); n == 0 || batches[n-1].kind != k.Kind || len(batches[n-1].idx) >= c03BatchSize {
				batches = append(batches, batch{kind: k.Kind})
			}
			b := &batches[len(batches)-1]
			b.idx = append(b.idx, i)
		}
		c.ParDo(len(batches), 0, func(bi int) {
			bt := batches[bi]
			if c.Expired() {
				c.Incomplete(fmt.Sprintf("internal deadline reached before batch %d of %d (%s)", bi, len(batches), format))
				return
			}
			caps := map[int]map[string]c03Cap{}
			for _, i := range bt.idx {
				caps[i] = map[string]c03Cap{}
			}
			var bids []string
			for _, i := range bt.idx {
				bids = append(bids, ids[i])
			}
			for tok, cp := range e.captureBatch(bt.kind, bids, fmt.Sprintf("%s-b%d", format, bi)) {
				if m, ok := caps[tok]; ok {
					m["as-decoded"] = cp
				}
			}
			for _, mut := range c03Mutations {
				var mids []string
				for _, i := range bt.idx {
					if full, ok := muts[i][mut]; ok {
						mids = append(mids, aRawID(format, bt.kind, full))
					}
				}
				if len(mids) == 0 {
					continue
				}
				for tok, cp := range e.captureBatch(bt.kind, mids, fmt.Sprintf("%s-b%d-%s", format, bi, mut)) {
					if m, ok := caps[tok]; ok {
						m[mut] = cp
					}
				}
			}
			for _, i := range bt.idx {
				c03One(e, format, cases[i], objs[i].Data, ids[i], i, muts[i], caps[i])
			}
		})
	}
}

const c03BatchSize = 24

var c03Mutations = []string{"message-mutated", "name-mutated"}

func c03Extras(k aCase) int {
	n := 0
	for _, l := range k.Labels() {
		if l != "author" && l != "committer" && l != "tagger" {
			n++
		}
	}
	return n
}

func c03Mutate(cm *object.Commit, tg *object.Tag, mut string) (undo func()) {
	if cm != nil {
		om, on := cm.Message, cm.Author.Name
		if mut == "message-mutated" {
			cm.Message += "x\n"
		} else {
			cm.Author.Name += " Jr"
		}
		return func() { cm.Message, cm.Author.Name = om, on }
	}
	om, on := tg.Message, tg.Tagger.Name
	if mut == "message-mutated" {
		tg.Message += "x\n"
	} else {
		tg.Tagger.Name += " Jr"
	}
	return func() { tg.Message, tg.Tagger.Name = om, on }
}

func c03Decode(k aCase, raw []byte, format string) (cm *object.Commit, tg *object.Tag, err error, p string) {
	t := plumbing.CommitObject
	if k.Kind == "tag" {
		t = plumbing.TagObject
	}
	o := plumbing.NewMemoryObject(plumbing.FromObjectFormat(c01FormatOf(format)))
	o.SetType(t)
	o.Write(raw)
	p = aGuard(func() {
		if k.Kind == "commit" {
			cm = &object.Commit{}
			err = cm.Decode(o)
		} else {
			tg = &object.Tag{}
			err = tg.Decode(o)
		}
	})
	return
}

// c03MutatedEncodings returns the full encoding (with signatures) of the
// decoded-then-mutated struct per mutation; missing entry = decode/encode failed
// (reported by c03One).
func c03MutatedEncodings(k aCase, raw []byte, format string) map[string][]byte {
	out := map[string][]byte{}
	cm, tg, err, p := c03Decode(k, raw, format)
	if err != nil || p != "" {
		return out
	}
	for _, mut := range c03Mutations {
		undo := c03Mutate(cm, tg, mut)
		var full []byte
		perr := aGuard(func() {
			o := &plumbing.MemoryObject{}
			if cm != nil {
				cm.Encode(o)
			} else {
				tg.Encode(o)
			}
			full = c02ReadAll(o)
		})
		undo()
		if perr == "" && full != nil {
			out[mut] = full
		}
	}
	return out
}

// c03Raw renders the case; in a sha256 repository every 40-digit id of the
// grammar is doubled to 64 digits.
func c03Raw(k aCase, format string) []byte {
	raw := k.Raw()
	if format != "sha256" {
		return raw
	}
	s := string(raw)
	done := map[string]bool{}
	for _, id := range append(append([]string{aTreeID}, aParentIDs...), aTagTargets["commit"], aTagTargets["tree"], aTagTargets["blob"], aTagTargets["tag"]) {
		if !done[id] {
			done[id] = true
			s = strings.ReplaceAll(s, id, id+id[:24])
		}
	}
	return []byte(s)
}

func c03One(e *c03Env, format string, k aCase, raw []byte, id string, idx int, muts map[string][]byte, caps map[string]c03Cap) {
	c := e.c
	sigClass := c03SigClass(k)
	fail := func(kind, variant, got, want string, extra map[string]any) {
		rep := map[string]any{"format": format, "object": k.Desc(), "id": id, "raw": string(raw), "variant": variant, "go_git": got, "git": want}
		for kk, v := range extra {
			rep[kk] = v
		}
		key := kind + ": " + sigClass
		if variant != "as-decoded" {
			key = kind + " (" + variant + "): " + sigClass
		}
		if k.Kind == "tag" && strings.HasPrefix(kind, "payload differs") && c03AdjacentSigHeaders(k) {
			// git's remove_signature() advances to its second slot only after a
			// non-signature line, so of adjacent gpgsig*/gpgsig* blocks only the
			// last is removed from the tag payload
			key = "payload differs from what git verifies: tag with adjacent gpgsig and gpgsig-sha256 headers"
		}
		if strings.HasPrefix(kind, "git refuses before running the verifier") {
			key = kind // one class: a predicate on the input (no signer identity in the payload)
		}
		if format == "sha256" && (strings.HasPrefix(kind, "extracted signature") || strings.HasPrefix(kind, "go-git presents")) {
			key = "sha256 repository: the signature Commit.Verify uses is the gpgsig header, git verifies gpgsig-sha256"
		} else if format == "sha256" {
			key = "sha256 repository: " + key
		}
		aFail(c, key, fmt.Sprintf("%s for %s [%s, %s]: go-git %s, git %s", kind, k.Desc(), format, variant, fw.Q(got), fw.Q(want)), rep)
	}
	// --- decode
	cm, tg, derr, p := c03Decode(k, raw, format)
	if p != "" || derr != nil {
		aFail(c, "decode fails: "+sigClass, fmt.Sprintf("Decode of %s: %s %v", k.Desc(), p, derr), map[string]any{"object": k.Desc(), "raw": string(raw)})
		return
	}
	payloadOf := func() ([]byte, string, string) {
		var b []byte
		var sig, perr string
		perr = aGuard(func() {
			o := &plumbing.MemoryObject{}
			var err error
			if cm != nil {
				err = cm.EncodeWithoutSignature(o)
				sig = cm.Signature
			} else {
				err = tg.EncodeWithoutSignature(o)
				sig = tg.Signature
			}
			if err != nil {
				perr = err.Error()
				return
			}
			b = c02ReadAll(o)
		})
		return b, sig, perr
	}
	capID := fmt.Sprintf("%s-%d", format, idx)
	compare := func(variant string, cap c03Cap, wantSigToo bool, objID string) {
		c.Eval()
		pay, sig, perr := payloadOf()
		if !cap.ran && perr == "" && wantSigToo && c03Armoured(sig) {
			// the batch did not run the verifier for this object but go-git
			// holds a signature: ask git about this object alone (exit code
			// and message decide the class)
			cap = e.capture(k.Kind, objID, capID+"-"+variant)
		}
		verdict := "agree"
		switch {
		case perr != "":
			verdict = "error"
			fail("EncodeWithoutSignature fails", variant, perr, "payload", nil)
		case cap.ran:
			if !bytes.Equal(pay, cap.payload) {
				verdict = "payload-differs"
				fail("payload differs from what git verifies", variant, string(pay), string(cap.payload), nil)
			}
			if wantSigToo && sig != string(cap.sig) {
				verdict = "signature-differs"
				fail("extracted signature differs from git's", variant, sig, string(cap.sig), nil)
			}
		default:
			noSig := strings.Contains(cap.stderr, "no signature found")
			switch {
			case !wantSigToo || !c03Armoured(sig):
			case noSig || format == "sha256":
				verdict = "spurious-signature"
				fail("go-git presents a signature where git finds none", variant, sig, "(verifier not run: "+strings.TrimSpace(cap.stderr)+")", nil)
			case !c03HasSignerIdent(k):
				// git found the signature but check_signature() gives up in
				// parse_payload_metadata: no tagger/committer identity
				verdict = "git-refuses-no-identity"
				fail("git refuses before running the verifier (no "+map[string]string{"tag": "tagger", "commit": "committer"}[k.Kind]+" identity in the payload) but go-git hands payload and signature to the verifier", variant, sig, fmt.Sprintf("exit %d, verifier not run", cap.exit), nil)
			default:
				verdict = "git-did-not-verify"
				fail("git did not run the verifier", variant, sig, fmt.Sprintf("exit %d: %s", cap.exit, strings.TrimSpace(cap.stderr)), nil)
			}
		}
		c.Class(fmt.Sprintf("%s/%s/%s/%s/ran=%v/%s", format, k.Kind, strings.Join(k.Labels(), ","), k.Msg.Label, cap.ran, variant+":"+verdict))
		if idx%997 == 3 && variant == "as-decoded" {
			c.Sample(map[string]any{"format": format, "object": k.Desc(), "id": id, "git_ran_verifier": cap.ran, "git_payload": string(cap.payload), "git_signature": string(cap.sig), "verdict": verdict})
		}
	}
	base := caps["as-decoded"]
	compare("as-decoded", base, true, id)

	// --- mutated variants (bounded subset)
	if muts == nil {
		return
	}
	// (1) only the Signature field cleared: payload unchanged
	{
		save := ""
		if cm != nil {
			save, cm.Signature = cm.Signature, ""
		} else {
			save, tg.Signature = tg.Signature, ""
		}
		compare("signature-cleared", base, false, id)
		if cm != nil {
			cm.Signature = save
		} else {
			tg.Signature = save
		}
	}
	// (2) Message changed, (3) name changed: expected = git's payload for the
	// object go-git writes from the mutated struct
	for _, mut := range c03Mutations {
		full, ok := muts[mut]
		if !ok {
			aFail(c, "Encode of mutated struct fails", "Encode of the "+mut+" struct of "+k.Desc()+" failed", map[string]any{"object": k.Desc()})
			continue
		}
		undo := c03Mutate(cm, tg, mut)
		compare(mut, caps[mut], false, aRawID(format, k.Kind, full))
		undo()
	}
}

// c03HasSignerIdent: does the header block carry the identity line git's
// parse_payload_metadata looks for (find_commit_header: first header line with
// that key)?
func c03HasSignerIdent(k aCase) bool {
	want := "committer"
	if k.Kind == "tag" {
		want = "tagger"
	}
	for _, l := range k.Labels() {
		if l == want {
			return true
		}
	}
	return false
}

func c03AdjacentSigHeaders(k aCase) bool {
	lb := k.Labels()
	for i := 1; i < len(lb); i++ {
		if strings.HasPrefix(lb[i], "gpgsig") && strings.HasPrefix(lb[i-1], "gpgsig") {
			return true
		}
	}
	return false
}

// c03ShaClass: in a sha256 repository the failures are keyed by which
// signature headers are present.
func c03ShaClass(k aCase) string {
	var s []string
	for _, l := range k.Labels() {
		if strings.HasPrefix(l, "gpgsig") || l == "mergetag-signed" {
			s = append(s, l)
		}
	}
	if len(s) == 0 {
		return "no signature header"
	}
	return strings.Join(s, "+")
}

package checks

// Abstract repository model shared by C17 (all backends behave like the model)
// and C19 (transaction view = base (+) pending): the universe of hashes and
// objects per object format, the observation of a real storer in a canonical
// textual form, the same rendering of the model, the preload and the operation
// menu.

import (
	"bytes"
	"compress/zlib"
	"crypto/sha1"
	"crypto/sha256"
	"encoding/binary"
	"errors"
	"fmt"
	"io"
	"os"
	"sort"
	"strconv"
	"strings"
	"sync"
	"time"

	"github.com/go-git/go-git/v6/config"
	"github.com/go-git/go-git/v6/plumbing"
	formatcfg "github.com/go-git/go-git/v6/plumbing/format/config"
	"github.com/go-git/go-git/v6/plumbing/format/index"
	"github.com/go-git/go-git/v6/plumbing/format/packfile"
	"github.com/go-git/go-git/v6/plumbing/format/reflog"
	"github.com/go-git/go-git/v6/plumbing/storer"
	"github.com/go-git/go-git/v6/storage"

	"verifmc/fw"
)

// reference names of the universe: two plain branches, one nested branch (its
// loose file lives in a sub-directory that removal/packing must clean up) and HEAD
const (
	absRefA = "refs/heads/a"
	absRefB = "refs/heads/b"
	absRefC = "refs/heads/n/c"
	absRefN = "refs/heads/n" // never a reference: the directory above absRefC
)

const absReadAllOp = "ReadAll"

var absRefLookups = []string{absRefA, absRefB, absRefC, absRefN, "HEAD"}
var absReflogNames = []string{absRefA, absRefB}

type absObj struct {
	name string
	typ  plumbing.ObjectType
	data []byte
	hash plumbing.Hash
}

// absUni is the universe for one object format.
type absUni struct {
	format string
	of     formatcfg.ObjectFormat
	h      map[string]plumbing.Hash
	objs   map[string]*absObj
	order  []string          // object names in rendering order
	packs  map[string][]byte // named version-2 packs (undeltified)
	packOf map[string][]string
	// id prefixes looked up after every history: empty, one byte and three
	// bytes of every object, two full ids, and the two extreme bytes
	prefixes [][]byte
}

var (
	absUniMu sync.Mutex
	absUnis  = map[string]*absUni{}
)

// absUniverse builds (once) the universe for "sha1" or "sha256". Object ids are
// computed with the Go standard library, not with go-git.
func absUniverse(format string) *absUni {
	absUniMu.Lock()
	defer absUniMu.Unlock()
	if u, ok := absUnis[format]; ok {
		return u
	}
	u := &absUni{format: format, of: formatcfg.SHA1, h: map[string]plumbing.Hash{}, objs: map[string]*absObj{}, packs: map[string][]byte{}, packOf: map[string][]string{}}
	width := 40
	if format == "sha256" {
		u.of = formatcfg.SHA256
		width = 64
	}
	for i, n := range []string{"h1", "h2", "h3"} {
		h, ok := plumbing.FromHex(strings.Repeat(fmt.Sprint(i+1), width))
		if !ok {
			fw.Abort("absUniverse: bad hash")
		}
		u.h[n] = h
	}
	add := func(name string, t plumbing.ObjectType, data []byte) *absObj {
		h, ok := plumbing.FromHex(aRawID(format, t.String(), data))
		if !ok {
			fw.Abort("absUniverse: bad id for %s", name)
		}
		o := &absObj{name: name, typ: t, data: data, hash: h}
		u.objs[name] = o
		u.order = append(u.order, name)
		return o
	}
	o1 := add("o1", plumbing.BlobObject, []byte("object o1\n"))
	add("o2", plumbing.BlobObject, []byte("object o2\n"))
	add("o3", plumbing.BlobObject, []byte("object o3, somewhat longer than the others\n"))
	add("e0", plumbing.BlobObject, []byte{}) // size 0: below every large-object threshold
	add("p1", plumbing.BlobObject, []byte("object p1\n"))
	t1 := add("t1", plumbing.TreeObject, append([]byte("100644 f\x00"), o1.hash.Bytes()...))
	who := "A <a@x> 1700000000 +0000"
	c1 := add("c1", plumbing.CommitObject, []byte("tree "+t1.hash.String()+"\nauthor "+who+"\ncommitter "+who+"\n\nmsg\n"))
	add("g1", plumbing.TagObject, []byte("object "+c1.hash.String()+"\ntype commit\ntag v\ntagger "+who+"\n\nmsg\n"))
	u.prefixes = [][]byte{{}, {0x00}, {0xff}}
	for _, n := range u.order {
		b := u.objs[n].hash.Bytes()
		u.prefixes = append(u.prefixes, b[:1], b[:3])
	}
	u.prefixes = append(u.prefixes, u.objs["o2"].hash.Bytes(), u.objs["p1"].hash.Bytes())
	u.mkPack("base", "p1", "t1")
	u.mkPack("new", "o2", "o3", "g1")
	absUnis[format] = u
	return u
}

func (u *absUni) mkPack(name string, objs ...string) {
	var pack bytes.Buffer
	pack.WriteString("PACK")
	binary.Write(&pack, binary.BigEndian, uint32(2))
	binary.Write(&pack, binary.BigEndian, uint32(len(objs)))
	for _, n := range objs {
		o := u.objs[n]
		sz := uint64(len(o.data))
		b := byte(o.typ)<<4 | byte(sz&0x0f)
		sz >>= 4
		for sz > 0 {
			pack.WriteByte(b | 0x80)
			b = byte(sz & 0x7f)
			sz >>= 7
		}
		pack.WriteByte(b)
		zw := zlib.NewWriter(&pack)
		zw.Write(o.data)
		zw.Close()
	}
	if u.format == "sha256" {
		s := sha256.Sum256(pack.Bytes())
		pack.Write(s[:])
	} else {
		s := sha1.Sum(pack.Bytes())
		pack.Write(s[:])
	}
	u.packs[name] = pack.Bytes()
	u.packOf[name] = objs
}

func (u *absUni) hashName(h plumbing.Hash) string {
	for k, v := range u.h {
		if v == h {
			return k
		}
	}
	return h.String()
}

func (u *absUni) objName(h plumbing.Hash) string {
	for k, v := range u.objs {
		if v.hash == h {
			return k
		}
	}
	return "?" + h.String()
}

// newConfig is a fresh configuration that is valid for the universe's format.
func (u *absUni) newConfig(user string) *config.Config {
	cfg := config.NewConfig()
	if u.of == formatcfg.SHA256 {
		cfg.Core.RepositoryFormatVersion = formatcfg.Version1
		cfg.Extensions.ObjectFormat = formatcfg.SHA256
	}
	cfg.User.Name = user
	return cfg
}

func (u *absUni) encoded(st storage.Storer, name string) plumbing.EncodedObject {
	o := u.objs[name]
	e := st.NewEncodedObject()
	e.SetType(o.typ)
	w, _ := e.Writer()
	w.Write(o.data)
	w.Close()
	return e
}

// abstract repository state used as model for C19 and C17
type absRepo struct {
	u       *absUni
	refs    map[string]string
	objs    map[string]bool // object names
	index   string          // name of the single index entry ("" = no entries)
	shallow string          // comma separated hash names
	user    string
	reflog  map[string][]string // messages
	modRef  string              // C17 only: value of refs/heads/x inside Module("m")
}

func (a *absRepo) clone() *absRepo {
	b := &absRepo{u: a.u, refs: map[string]string{}, objs: map[string]bool{}, index: a.index, shallow: a.shallow, user: a.user, reflog: map[string][]string{}, modRef: a.modRef}
	for k, v := range a.refs {
		b.refs[k] = v
	}
	for k, v := range a.objs {
		b.objs[k] = v
	}
	for k, v := range a.reflog {
		b.reflog[k] = append([]string{}, v...)
	}
	return b
}

type reflogStorer interface {
	Reflog(plumbing.ReferenceName) ([]*reflog.Entry, error)
	AppendReflog(plumbing.ReferenceName, *reflog.Entry) error
	DeleteReflog(plumbing.ReferenceName) error
}

func absErrKind(err error) string {
	switch {
	case err == nil:
		return "ok"
	case errors.Is(err, plumbing.ErrReferenceNotFound):
		return "ref-not-found"
	case errors.Is(err, plumbing.ErrObjectNotFound):
		return "object-not-found"
	}
	return "error(" + normErr(err) + ")"
}

var absIterTypes = []plumbing.ObjectType{plumbing.AnyObject, plumbing.BlobObject, plumbing.TreeObject, plumbing.CommitObject, plumbing.TagObject}

func absWrongType(t plumbing.ObjectType) plumbing.ObjectType {
	if t == plumbing.TreeObject {
		return plumbing.BlobObject
	}
	return plumbing.TreeObject
}

// describeObj renders what a successful read returned: type, sizes and content.
func describeObj(o plumbing.EncodedObject, h plumbing.Hash) string {
	r, err := o.Reader()
	if err != nil {
		return "reader-" + absErrKind(err)
	}
	b, err := io.ReadAll(r)
	r.Close()
	if err != nil {
		return "read-" + absErrKind(err)
	}
	hs := ""
	if o.Hash() != h {
		hs = " WRONG-HASH"
	}
	return fmt.Sprintf("%s/%d/%q%s", o.Type(), o.Size(), b, hs)
}

// observeRepo reads everything observable from a storer into a canonical string.
func observeRepo(u *absUni, st storage.Storer, tag string) string {
	var out []string
	ek := absErrKind
	refv := func(r *plumbing.Reference) string {
		if r.Type() == plumbing.SymbolicReference {
			return "->" + r.Target().String()
		}
		return u.hashName(r.Hash())
	}
	for _, n := range absRefLookups {
		r, err := st.Reference(plumbing.ReferenceName(n))
		if err != nil {
			out = append(out, "ref "+n+" "+ek(err))
		} else if r.Name().String() != n {
			out = append(out, "ref "+n+" named "+r.Name().String())
		} else {
			out = append(out, "ref "+n+" "+refv(r))
		}
	}
	if it, err := st.IterReferences(); err != nil {
		out = append(out, "iterrefs "+ek(err))
	} else {
		var ls []string
		it.ForEach(func(r *plumbing.Reference) error {
			ls = append(ls, r.Name().String()+"="+refv(r))
			return nil
		})
		sort.Strings(ls)
		out = append(out, "iterrefs "+strings.Join(ls, ","))
	}
	for _, n := range u.order {
		ao := u.objs[n]
		h := ao.hash
		herr := st.HasEncodedObject(h)
		sz, serr := st.EncodedObjectSize(h)
		szs := ek(serr)
		if serr == nil {
			szs = fmt.Sprint(sz)
		}
		rd := func(t plumbing.ObjectType) string {
			o, err := st.EncodedObject(t, h)
			if err != nil {
				return ek(err)
			}
			return describeObj(o, h)
		}
		// untyped read first (cold), typed read (warm), wrong type, untyped again
		out = append(out, fmt.Sprintf("obj %s has=%s size=%s any=%s typed=%s wrongtype=%s again=%s", n, ek(herr), szs,
			rd(plumbing.AnyObject), rd(ao.typ), rd(absWrongType(ao.typ)), rd(plumbing.AnyObject)))
	}
	for _, t := range absIterTypes {
		it, err := st.IterEncodedObjects(t)
		if err != nil {
			out = append(out, "iterobjs "+t.String()+" "+ek(err))
			continue
		}
		var ls []string
		err = it.ForEach(func(o plumbing.EncodedObject) error {
			n := u.objName(o.Hash())
			if ao, ok := u.objs[n]; ok && o.Type() != ao.typ {
				n += "(as " + o.Type().String() + ")"
			}
			ls = append(ls, n)
			return nil
		})
		sort.Strings(ls)
		s := "iterobjs " + t.String() + " " + strings.Join(ls, ",")
		if err != nil {
			s += " then " + ek(err)
		}
		out = append(out, s)
	}
	// abbreviated-id expansion exactly as Repository.ResolveRevision does it:
	// the storage's HashesWithPrefix when it has one, a scan otherwise
	for _, p := range u.prefixes {
		var hs []plumbing.Hash
		var err error
		if fi, ok := st.(interface {
			HashesWithPrefix(prefix []byte) ([]plumbing.Hash, error)
		}); ok {
			hs, err = fi.HashesWithPrefix(p)
		} else {
			var it storer.EncodedObjectIter
			if it, err = st.IterEncodedObjects(plumbing.AnyObject); err == nil {
				err = it.ForEach(func(o plumbing.EncodedObject) error {
					if h := o.Hash(); h.HasPrefix(p) {
						hs = append(hs, h)
					}
					return nil
				})
			}
		}
		if err != nil {
			out = append(out, fmt.Sprintf("prefix %x %s", p, ek(err)))
			continue
		}
		var ls []string
		for _, h := range hs {
			ls = append(ls, u.objName(h))
		}
		sort.Strings(ls)
		out = append(out, fmt.Sprintf("prefix %x: %s", p, strings.Join(ls, ",")))
	}
	if idx, err := st.Index(); err != nil {
		out = append(out, "index "+ek(err))
	} else {
		var ls []string
		for _, e := range idx.Entries {
			ls = append(ls, fmt.Sprintf("%s@%s/%o", e.Name, u.objName(e.Hash), uint32(e.Mode)))
		}
		out = append(out, fmt.Sprintf("index v%d %s", idx.Version, strings.Join(ls, ",")))
	}
	if sh, err := st.Shallow(); err != nil {
		out = append(out, "shallow "+ek(err))
	} else {
		var ls []string
		for _, h := range sh {
			ls = append(ls, u.hashName(h))
		}
		out = append(out, "shallow "+strings.Join(ls, ","))
	}
	if cfg, err := st.Config(); err != nil {
		out = append(out, "config "+ek(err))
	} else {
		out = append(out, "config user="+cfg.User.Name)
	}
	if rl, ok := st.(reflogStorer); ok {
		for _, n := range absReflogNames {
			es, err := rl.Reflog(plumbing.ReferenceName(n))
			if err != nil {
				out = append(out, "reflog "+n+" "+ek(err))
			} else {
				var ls []string
				for _, e := range es {
					ls = append(ls, fmt.Sprintf("%s:%s>%s", e.Message, u.hashName(e.OldHash), u.hashName(e.NewHash)))
				}
				out = append(out, "reflog "+n+" "+strings.Join(ls, ","))
			}
		}
	}
	return tag + ":\n" + strings.Join(out, "\n")
}

// expectRepo renders the model in the same format.
func expectRepo(a *absRepo, tag string, withReflog bool) string {
	u := a.u
	var out []string
	for _, n := range absRefLookups {
		if v, ok := a.refs[n]; ok {
			out = append(out, "ref "+n+" "+v)
		} else {
			out = append(out, "ref "+n+" ref-not-found")
		}
	}
	var ls []string
	for k, v := range a.refs {
		ls = append(ls, k+"="+v)
	}
	sort.Strings(ls)
	out = append(out, "iterrefs "+strings.Join(ls, ","))
	for _, n := range u.order {
		ao := u.objs[n]
		if a.objs[n] {
			d := fmt.Sprintf("%s/%d/%q", ao.typ, len(ao.data), ao.data)
			out = append(out, fmt.Sprintf("obj %s has=ok size=%d any=%s typed=%s wrongtype=object-not-found again=%s", n, len(ao.data), d, d, d))
		} else {
			nf := "object-not-found"
			out = append(out, fmt.Sprintf("obj %s has=%s size=%s any=%s typed=%s wrongtype=%s again=%s", n, nf, nf, nf, nf, nf, nf))
		}
	}
	for _, t := range absIterTypes {
		var os []string
		for _, n := range u.order {
			if a.objs[n] && (t == plumbing.AnyObject || u.objs[n].typ == t) {
				os = append(os, n)
			}
		}
		sort.Strings(os)
		out = append(out, "iterobjs "+t.String()+" "+strings.Join(os, ","))
	}
	for _, p := range u.prefixes {
		var os []string
		for _, n := range u.order {
			if a.objs[n] && bytes.HasPrefix(u.objs[n].hash.Bytes(), p) {
				os = append(os, n)
			}
		}
		sort.Strings(os)
		out = append(out, fmt.Sprintf("prefix %x: %s", p, strings.Join(os, ",")))
	}
	if a.index == "" {
		out = append(out, "index v2 ")
	} else {
		out = append(out, fmt.Sprintf("index v2 %s@o1/100644", a.index))
	}
	out = append(out, "shallow "+a.shallow)
	out = append(out, "config user="+a.user)
	if withReflog {
		for _, n := range absReflogNames {
			var ls []string
			for _, m := range a.reflog[n] {
				ls = append(ls, m+":h1>h2")
			}
			out = append(out, "reflog "+n+" "+strings.Join(ls, ","))
		}
	}
	return tag + ":\n" + strings.Join(out, "\n")
}

func (u *absUni) mkIndex(entry string) *index.Index {
	idx := &index.Index{Version: 2}
	if entry != "" {
		e, _ := idx.Add(entry)
		e.Hash = u.objs["o1"].hash
		e.Mode = 0o100644
	}
	return idx
}

func (u *absUni) mkReflogEntry(msg string) *reflog.Entry {
	return &reflog.Entry{OldHash: u.h["h1"], NewHash: u.h["h2"], Committer: reflog.Signature{Name: "n", Email: "e@x", When: time.Unix(1700000000, 0).UTC()}, Message: msg}
}

// preloadRepo puts the common initial content into a storer and returns its
// model: hash and symbolic references (one nested), loose objects (one empty),
// a pack, an index, a shallow list, a configuration and a reflog.
func preloadRepo(u *absUni, st storage.Storer) *absRepo {
	a := &absRepo{u: u, refs: map[string]string{}, objs: map[string]bool{}, reflog: map[string][]string{}}
	must := func(err error) {
		if err != nil {
			fw.Abort("preload: %v", err)
		}
	}
	must(st.SetReference(plumbing.NewHashReference(absRefA, u.h["h1"])))
	must(st.SetReference(plumbing.NewHashReference(absRefB, u.h["h1"])))
	must(st.SetReference(plumbing.NewSymbolicReference("HEAD", absRefA)))
	a.refs[absRefA], a.refs[absRefB], a.refs["HEAD"] = "h1", "h1", "->"+absRefA
	for _, n := range []string{"o1", "e0"} {
		_, err := st.SetEncodedObject(u.encoded(st, n))
		must(err)
		a.objs[n] = true
	}
	must(packfile.UpdateObjectStorage(st, bytes.NewReader(u.packs["base"])))
	for _, n := range u.packOf["base"] {
		a.objs[n] = true
	}
	must(st.SetIndex(u.mkIndex("f1")))
	a.index = "f1"
	must(st.SetShallow([]plumbing.Hash{u.h["h2"]}))
	a.shallow = "h2"
	must(st.SetConfig(u.newConfig("base")))
	a.user = "base"
	if rl, ok := st.(reflogStorer); ok {
		must(rl.AppendReflog(absRefA, u.mkReflogEntry("r0")))
		a.reflog[absRefA] = []string{"r0"}
	}
	return a
}

type repoOp struct {
	name string
	// do applies to the real storer and the model; returns (expected, got); expected "*" = open
	do func(st storage.Storer, m *absRepo) (string, string)
}

// repoOps is the operation menu shared by C17 and C19; readTag names the
// section of a mid-history read like the final observation of the check, so
// that one defect gives one key wherever it is seen.
func repoOps(u *absUni, readTag string) []repoOp {
	okres := func(err error) string {
		if err == nil {
			return "ok"
		}
		if errors.Is(err, storage.ErrReferenceHasChanged) {
			return "changed"
		}
		if errors.Is(err, plumbing.ErrReferenceNotFound) {
			return "ref-not-found"
		}
		return "error(" + normErr(err) + ")"
	}
	short := func(n string) string { return strings.TrimPrefix(n, "refs/heads/") }
	setRef := func(n, v string) repoOp {
		return repoOp{fmt.Sprintf("SetRef(%s,%s)", short(n), v), func(st storage.Storer, m *absRepo) (string, string) {
			err := st.SetReference(plumbing.NewHashReference(plumbing.ReferenceName(n), u.h[v]))
			m.refs[n] = v
			return "ok", okres(err)
		}}
	}
	cas := func(n, v, old string) repoOp {
		return repoOp{fmt.Sprintf("CAS(%s,new=%s,old=%s)", short(n), v, old), func(st storage.Storer, m *absRepo) (string, string) {
			err := st.CheckAndSetReference(plumbing.NewHashReference(plumbing.ReferenceName(n), u.h[v]), plumbing.NewHashReference(plumbing.ReferenceName(n), u.h[old]))
			if m.refs[n] == old {
				m.refs[n] = v
				return "ok", okres(err)
			}
			// must fail and not update; the error kind is left open
			if err == nil {
				return "fail", "ok"
			}
			return "fail", "fail"
		}}
	}
	casNil := func(n, v string) repoOp {
		return repoOp{fmt.Sprintf("CAS(%s,new=%s,old=nil)", short(n), v), func(st storage.Storer, m *absRepo) (string, string) {
			err := st.CheckAndSetReference(plumbing.NewHashReference(plumbing.ReferenceName(n), u.h[v]), nil)
			m.refs[n] = v
			return "ok", okres(err)
		}}
	}
	// CAS whose old value is symbolic: every implementation compares Hash(),
	// which is zero for all symbolic references. The contract is clear when the
	// stored reference is the same symbolic reference (succeeds), a hash
	// reference or absent (fails); when it is symbolic with another target the
	// result is left open and the model follows the real outcome.
	casSym := func(n, target, old string) repoOp {
		return repoOp{fmt.Sprintf("CAS(%s,new=->%s,old=->%s)", short(n), short(target), short(old)), func(st storage.Storer, m *absRepo) (string, string) {
			err := st.CheckAndSetReference(plumbing.NewSymbolicReference(plumbing.ReferenceName(n), plumbing.ReferenceName(target)), plumbing.NewSymbolicReference(plumbing.ReferenceName(n), plumbing.ReferenceName(old)))
			cur, present := m.refs[n]
			switch {
			case present && cur == "->"+old:
				m.refs[n] = "->" + target
				return "ok", okres(err)
			case present && strings.HasPrefix(cur, "->"):
				if err == nil {
					m.refs[n] = "->" + target
				}
				return "*", okres(err)
			}
			if err == nil {
				return "fail", "ok"
			}
			return "fail", "fail"
		}}
	}
	rm := func(n string) repoOp {
		return repoOp{fmt.Sprintf("RemoveRef(%s)", short(n)), func(st storage.Storer, m *absRepo) (string, string) {
			err := st.RemoveReference(plumbing.ReferenceName(n))
			delete(m.refs, n)
			return "ok", okres(err)
		}}
	}
	setSym := func(n, target string) repoOp {
		return repoOp{fmt.Sprintf("SetSymRef(%s->%s)", short(n), short(target)), func(st storage.Storer, m *absRepo) (string, string) {
			err := st.SetReference(plumbing.NewSymbolicReference(plumbing.ReferenceName(n), plumbing.ReferenceName(target)))
			m.refs[n] = "->" + target
			return "ok", okres(err)
		}}
	}
	setObj := func(n string) repoOp {
		return repoOp{fmt.Sprintf("SetObject(%s)", n), func(st storage.Storer, m *absRepo) (string, string) {
			h, err := st.SetEncodedObject(u.encoded(st, n))
			m.objs[n] = true
			if err == nil && h != u.objs[n].hash {
				return "ok", "ok but returned " + h.String()
			}
			return "ok", okres(err)
		}}
	}
	writePack := func(p string) repoOp {
		return repoOp{fmt.Sprintf("WritePack(%s)", strings.Join(u.packOf[p], "+")), func(st storage.Storer, m *absRepo) (string, string) {
			err := packfile.UpdateObjectStorage(st, bytes.NewReader(u.packs[p]))
			for _, n := range u.packOf[p] {
				m.objs[n] = true
			}
			return "ok", okres(err)
		}}
	}
	setIndex := func(entry string) repoOp {
		return repoOp{fmt.Sprintf("SetIndex(%s)", entry), func(st storage.Storer, m *absRepo) (string, string) {
			err := st.SetIndex(u.mkIndex(entry))
			m.index = entry
			return "ok", okres(err)
		}}
	}
	setShallow := func(names ...string) repoOp {
		return repoOp{fmt.Sprintf("SetShallow(%s)", strings.Join(names, ",")), func(st storage.Storer, m *absRepo) (string, string) {
			hs := []plumbing.Hash{}
			for _, n := range names {
				hs = append(hs, u.h[n])
			}
			err := st.SetShallow(hs)
			m.shallow = strings.Join(names, ",")
			return "ok", okres(err)
		}}
	}
	appendReflog := func(n, msg string) repoOp {
		return repoOp{fmt.Sprintf("AppendReflog(%s,%s)", short(n), msg), func(st storage.Storer, m *absRepo) (string, string) {
			rl, ok := st.(reflogStorer)
			if !ok {
				return "ok", "ok"
			}
			err := rl.AppendReflog(plumbing.ReferenceName(n), u.mkReflogEntry(msg))
			m.reflog[n] = append(m.reflog[n], msg)
			return "ok", okres(err)
		}}
	}
	// ReadAll reads everything mid-history and compares it with the model: the
	// writes that follow meet warm caches and lists (loose-object list, pack
	// list, index cache, object cache) instead of a storage that was only
	// written to.
	readAll := repoOp{absReadAllOp, func(st storage.Storer, m *absRepo) (string, string) {
		_, rl := st.(reflogStorer)
		return expectRepo(m, readTag, rl), observeRepo(u, st, readTag)
	}}
	return []repoOp{
		readAll,
		// references: retarget / detach HEAD, hash -> symbolic (a, the name the
		// hash compare-and-sets aim at), create, overwrite, compare-and-set
		// (current, stale, absent, no old value, symbolic), remove
		setSym("HEAD", absRefB), setSym("HEAD", absRefC), setRef("HEAD", "h2"), setSym(absRefA, absRefB),
		setRef(absRefA, "h2"), setRef(absRefC, "h3"),
		cas(absRefA, "h3", "h1"), cas(absRefA, "h3", "h2"), cas(absRefC, "h2", "h3"), casNil(absRefC, "h1"),
		casSym("HEAD", absRefB, absRefA),
		rm(absRefA), rm(absRefB), rm(absRefC),
		// objects: new loose blob, a blob the base already has loose, one it has
		// packed, a commit, and a pack bringing blobs and a tag
		setObj("o2"), setObj("o1"), setObj("p1"), setObj("c1"), writePack("new"),
		setIndex("f2"), setIndex(""),
		setShallow("h1"), setShallow(),
		{"SetConfig(user=txn)", func(st storage.Storer, m *absRepo) (string, string) {
			// a fresh value: mutating the object Config() hands out would also mutate a
			// memory base through aliasing, which is a trait of that backend, not of the transaction
			err := st.SetConfig(u.newConfig("txn"))
			m.user = "txn"
			return "ok", okres(err)
		}},
		appendReflog(absRefA, "r1"), appendReflog(absRefB, "r2"),
		{"DeleteReflog(a)", func(st storage.Storer, m *absRepo) (string, string) {
			rl, ok := st.(reflogStorer)
			if !ok {
				return "ok", "ok"
			}
			err := rl.DeleteReflog(absRefA)
			delete(m.reflog, absRefA)
			return "ok", okres(err)
		}},
	}
}

// absDevDepth is a development aid for mutant runs on a loaded machine:
// VERIF_DEV_MAXDEPTH=n caps the history depth (recorded in the bounds like any
// other depth; whatever a shallower run catches the full run catches too,
// since it explores a superset of histories).
func absDevDepth(c *fw.Ctx, d int) int {
	if v := os.Getenv("VERIF_DEV_MAXDEPTH"); v != "" {
		if n, err := strconv.Atoi(v); err == nil && n > 0 && n < d {
			c.Bound("dev_max_depth", n)
			return n
		}
	}
	return d
}

// diffLines gives a stable, value-level description of the first differing lines.
func diffLines(e, g string) string {
	el, gl := strings.Split(e, "\n"), strings.Split(g, "\n")
	section := ""
	var out []string
	for i := 0; i < len(el) || i < len(gl); i++ {
		var a, b string
		if i < len(el) {
			a = el[i]
		}
		if i < len(gl) {
			b = gl[i]
		}
		if strings.HasSuffix(a, ":") {
			section = strings.TrimSuffix(a, ":")
		}
		if a != b {
			out = append(out, fmt.Sprintf("[%s] want %q got %q", section, a, b))
			if len(out) >= 2 {
				break
			}
		}
	}
	return strings.Join(out, "; ")
}

// absDiff names the first differing line of two renderings by what differs in
// it (list element missing / extra / duplicate, object field), not by the whole
// line, so that one defect gives the same few keys whatever else the state holds.
func absDiff(e, g string) string {
	el, gl := strings.Split(e, "\n"), strings.Split(g, "\n")
	section := ""
	for i := 0; i < len(el) || i < len(gl); i++ {
		var a, b string
		if i < len(el) {
			a = el[i]
		}
		if i < len(gl) {
			b = gl[i]
		}
		if strings.HasSuffix(a, ":") {
			section = strings.TrimSuffix(a, ":")
		}
		if a != b {
			return fmt.Sprintf("[%s] %s", section, absLineDiff(a, b))
		}
	}
	return "no difference"
}

var absObjFields = []string{" has=", " size=", " any=", " typed=", " wrongtype=", " again="}

func absObjParse(l string) (string, map[string]string, bool) {
	f := map[string]string{}
	rest := strings.TrimPrefix(l, "obj ")
	i := strings.Index(rest, absObjFields[0])
	if i < 0 {
		return "", nil, false
	}
	name := rest[:i]
	rest = rest[i:]
	for k, m := range absObjFields {
		if !strings.HasPrefix(rest, m) {
			return "", nil, false
		}
		rest = rest[len(m):]
		end := len(rest)
		if k+1 < len(absObjFields) {
			end = strings.Index(rest, absObjFields[k+1])
			if end < 0 {
				return "", nil, false
			}
		}
		f[strings.Trim(m, " =")] = rest[:end]
		rest = rest[end:]
	}
	return name, f, true
}

func absListDiff(want, got string) string {
	split := func(s string) []string {
		if s == "" {
			return nil
		}
		return strings.Split(s, ",")
	}
	wc, gc := map[string]int{}, map[string]int{}
	for _, x := range split(want) {
		wc[x]++
	}
	for _, x := range split(got) {
		gc[x]++
	}
	var missing, dup, extra []string
	for x, n := range wc {
		if gc[x] < n {
			missing = append(missing, x)
		}
	}
	for x, n := range gc {
		if n > wc[x] {
			if wc[x] > 0 {
				dup = append(dup, x)
			} else {
				extra = append(extra, x)
			}
		}
	}
	var out []string
	for _, c := range []struct {
		what string
		l    []string
	}{{"missing", missing}, {"duplicate", dup}, {"extra", extra}} {
		if len(c.l) > 0 {
			sort.Strings(c.l)
			out = append(out, c.what+" "+c.l[0])
		}
	}
	if len(out) == 0 {
		return "same elements, different order"
	}
	return strings.Join(out, ", ")
}

func absLineDiff(a, b string) string {
	ta, tb := strings.SplitN(a, " ", 3), strings.SplitN(b, " ", 3)
	if a == "" || b == "" || ta[0] != tb[0] {
		return fmt.Sprintf("want %q got %q", a, b)
	}
	rest := func(t []string, n int) string { // text after the first n tokens
		if len(t) <= n {
			return ""
		}
		return strings.Join(t[n:], " ")
	}
	switch ta[0] {
	case "obj":
		na, fa, oka := absObjParse(a)
		nb, fb, okb := absObjParse(b)
		if oka && okb && na == nb {
			for _, m := range absObjFields {
				k := strings.Trim(m, " =")
				if fa[k] != fb[k] {
					return fmt.Sprintf("obj %s %s: want %s got %s", na, k, fa[k], fb[k])
				}
			}
		}
	case "iterrefs", "shallow":
		return ta[0] + ": " + absListDiff(rest(ta, 1), rest(tb, 1))
	case "iterobjs", "reflog", "index", "prefix":
		if len(ta) >= 2 && len(tb) >= 2 && ta[1] == tb[1] && !strings.Contains(rest(ta, 2)+rest(tb, 2), " ") {
			return ta[0] + " " + strings.TrimSuffix(ta[1], ":") + ": " + absListDiff(rest(ta, 2), rest(tb, 2))
		}
	}
	return fmt.Sprintf("want %q got %q", a, b)
}

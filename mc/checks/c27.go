package checks

import (
	"fmt"
	"golang.org/x/sys/unix"
	"os"
	"path/filepath"
	"sort"
	"strings"
	"time"

	git "github.com/go-git/go-git/v6"

	"verifmc/fw"
)

// C27: Worktree.Status agrees with `git status --porcelain=v1 -z
// --untracked-files=all --no-renames` for every (HEAD, index, worktree) triple.

func init() {
	fw.Register(&fw.Check{ID: "C27", Level: "exploration", Run: runC27, QuickBudget: 150, ThoroughBudget: 1200})
}

// hTemplate is a repository holding one parentless commit per assignment of
// kinds to paths; cases stamp it out and pick HEAD / index trees from it.
type hTemplate struct {
	g      *fw.Git
	dir    string
	skel   *hSkel
	paths  []string
	kinds  string
	commit map[string]string // kinds per path, e.g. "1-" -> commit id
}

func hBuildTemplate(c *fw.Ctx, name string, paths []string, kinds string) *hTemplate {
	g, dir := c.InitRepo(name, "sha1", false)
	t := &hTemplate{g: g, dir: dir, paths: paths, kinds: kinds, commit: map[string]string{}}
	dims := make([]int, len(paths))
	for i := range dims {
		dims[i] = len(kinds)
	}
	n := hVecCount(dims)
	specs := make([]fw.CommitSpec, n)
	names := make([]string, n)
	for i := 0; i < n; i++ {
		v := hVecAt(dims, i)
		files := map[string]fw.FileSpec{}
		nm := ""
		for pi, p := range paths {
			k := kinds[v[pi]]
			nm += string(k)
			if k == '-' {
				continue
			}
			mode, data := hKindSpec(k)
			files[p] = fw.FileSpec{Mode: mode, Data: data}
		}
		specs[i] = fw.CommitSpec{Time: 1700000000, Files: files, Msg: "snapshot " + nm + "\n"}
		names[i] = nm
	}
	ids := g.BuildHistory(specs, true)
	for i, id := range ids {
		t.commit[names[i]] = id
	}
	g.MustRunIn([]byte{}, "hash-object", "-w", "--stdin") // the empty blob (intent-to-add entries name it)
	g.MustRun("pack-refs", "--all")
	g.MustRun("repack", "-adq")
	t.skel = hReadSkel(filepath.Join(dir, ".git"))
	return t
}

const (
	c27H = "-12xl"
	c27I = "-12xli" // i = intent-to-add
	c27W = "-12xlt" // t = type swap (a becomes a directory, d becomes a file)
)

var c27Paths = []string{"a", "d/b"}

// vector layout: ha ia wa hb ib wb fm crlf ign racy
var c27Dims = []int{len(c27H), len(c27I), len(c27W), len(c27H), len(c27I), len(c27W), 2, 3, 4, 3}

func c27Render(v []int) string {
	crlf := []string{"false", "input", "true"}[v[7]]
	ign := []string{"none", "root", "nested", "exclude"}[v[8]]
	mt := []string{"old", "racy", "same-second-other-nanoseconds"}[v[9]]
	return fmt.Sprintf("a=%c%c%c d/b=%c%c%c fileMode=%v autocrlf=%s ignore=%s mtime=%s",
		c27H[v[0]], c27I[v[1]], c27W[v[2]], c27H[v[3]], c27I[v[4]], c27W[v[5]], v[6] == 0, crlf, ign, mt)
}

type c27Env struct {
	c *fw.Ctx
	t *hTemplate
}

// build materialises the state described by v under root. viaGit=false writes
// the index file directly (no process); viaGit=true builds the same state with
// real git (reset + add -N) and is used to conformance-check the direct writer.
func (e *c27Env) build(v []int, root string, viaGit bool) *fw.Git {
	crlf := v[7] != 0
	conv := func(k byte) byte {
		if crlf && k == '2' {
			return 'r'
		}
		return k
	}
	H := []byte{conv(c27H[v[0]]), conv(c27H[v[3]])}
	I := []byte{conv(c27I[v[1]]), conv(c27I[v[4]])}
	W := []byte{conv(c27W[v[2]]), conv(c27W[v[5]])}
	racy := v[9] == 1 || v[9] == 2
	subsec := v[9] == 2 // like racy, but the replaced file lands in the same second with other nanoseconds and the index is newer: not racy, only the sub-second part of the mtime tells
	cf := hConfig{FileMode: v[6] == 0, AutoCRLF: []string{"", "input", "true"}[v[7]]}

	treeKinds := func(ks []byte) string {
		s := ""
		for _, k := range ks {
			if k == 'i' {
				k = '-'
			}
			s += string(k)
		}
		return s
	}
	idxCommit := e.t.commit[treeKinds(I)]
	headCommit := e.t.commit[treeKinds(H)]
	unborn := H[0] == '-' && H[1] == '-'
	e.t.skel.instantiate(root, cf, "ref: refs/heads/main", map[string]string{"main": idxCommit})
	g := e.t.g.In(root)

	putW := func(pi int, k byte) {
		p := c27Paths[pi]
		switch k {
		case 't':
			if pi == 0 {
				hPut(root, "a/k", '1', hOldTime)
			} else {
				hPut(root, "d", '1', hOldTime)
			}
		case '-':
			hClearPath(root, p)
			if pi == 0 {
				hClearPath(root, "a")
			}
		default:
			hPut(root, p, k, hOldTime)
		}
	}
	// 1. the worktree the index is refreshed against: the final one, except in
	// the racy variant where the entry's stat data is taken from a file with
	// the index content that is then replaced within the same second.
	pre := make([]byte, 2)
	for pi := range c27Paths {
		pre[pi] = W[pi]
		if I[pi] == 'i' {
			if viaGit && (W[pi] == '-' || W[pi] == 't') {
				pre[pi] = '1' // git add -N needs a file
			}
		} else if racy && I[pi] != '-' {
			pre[pi] = I[pi]
		}
		putW(pi, pre[pi])
	}
	// 2. the index.
	if viaGit {
		g.MustRun("reset", "-q", idxCommit)
		var ita []string
		for pi, p := range c27Paths {
			if I[pi] == 'i' {
				ita = append(ita, p)
			}
		}
		if len(ita) > 0 {
			g.MustRun(append([]string{"add", "-N", "--"}, ita...)...)
		}
	} else {
		var ents []hIdxEntry
		for pi, p := range c27Paths {
			switch I[pi] {
			case '-':
			case 'i':
				m := uint32(0o100644)
				if W[pi] == 'x' || W[pi] == 'l' {
					m = hKindMode(W[pi])
				}
				ents = append(ents, hIdxEntry{Path: p, Mode: m, OID: hBlobID(nil), ITA: true})
			default:
				en := hIdxEntry{Path: p, Mode: hKindMode(I[pi]), OID: hKindOID(I[pi])}
				if pre[pi] == I[pi] { // what a refresh records for an up-to-date entry
					en.StatOf = p
				}
				ents = append(ents, en)
			}
		}
		hWriteIndex(root, ents)
	}
	// 3. final worktree.
	for pi := range c27Paths {
		if pre[pi] != W[pi] {
			if pre[pi] != '-' {
				putW(pi, '-')
			}
			putW(pi, W[pi])
			if subsec && W[pi] != '-' && W[pi] != 't' {
				ts := []unix.Timespec{{Sec: hOldTime, Nsec: 500000000}, {Sec: hOldTime, Nsec: 500000000}}
				if err := unix.UtimesNanoAt(unix.AT_FDCWD, filepath.Join(root, c27Paths[pi]), ts, unix.AT_SYMLINK_NOFOLLOW); err != nil {
					fw.Abort("utimensat: %v", err)
				}
			}
		}
	}
	dIsDir := W[1] != 't'
	os.MkdirAll(filepath.Join(root, "e"), 0o755)
	hPut(root, "u/v", '1', hOldTime)
	hPut(root, "z.ign", '1', hOldTime)
	if dIsDir {
		hPut(root, "d/z.ign", '1', hOldTime)
	}
	switch v[8] {
	case 1:
		hPutBytes(root, ".gitignore", "100644", []byte("*.ign\n/a\n"), hOldTime)
	case 2:
		if dIsDir {
			hPutBytes(root, "d/.gitignore", "100644", []byte("*.ign\nb\n"), hOldTime)
		}
	case 3:
		os.MkdirAll(filepath.Join(root, ".git", "info"), 0o755)
		if err := os.WriteFile(filepath.Join(root, ".git", "info", "exclude"), []byte("*.ign\nd/\n"), 0o644); err != nil {
			fw.Abort("exclude: %v", err)
		}
	}
	// 4. HEAD and index timestamp.
	ref := filepath.Join(root, ".git", "refs", "heads", "main")
	if unborn {
		os.Remove(ref)
	} else if err := os.WriteFile(ref, []byte(headCommit+"\n"), 0o644); err != nil {
		fw.Abort("ref: %v", err)
	}
	os.Remove(filepath.Join(root, ".git", "ORIG_HEAD"))
	if racy && !subsec {
		tt := time.Unix(hOldTime, 0)
		if err := os.Chtimes(filepath.Join(root, ".git", "index"), tt, tt); err != nil {
			fw.Abort("chtimes index: %v", err)
		}
	}
	return g
}

func c27GitStatus(g *fw.Git) map[string]string {
	r := g.MustRun("status", "--porcelain=v1", "-z", "--untracked-files=all", "--no-renames", "--ignored=no")
	m := hParsePorcelainZ(r.Out)
	for p, xy := range m { // go-git has no type-change code: a type change is a modification
		m[p] = strings.ReplaceAll(xy, "T", "M")
	}
	return m
}

// conform replays v with the state built by real git and aborts when git
// itself sees the directly written index differently.
func (e *c27Env) conform(v []int, direct map[string]string) {
	root := e.c.TempDir("c27g")
	defer os.RemoveAll(root)
	g := e.build(v, root, true)
	viaGit := c27GitStatus(g)
	if d := hDiffStatus(viaGit, direct); d != "" {
		fw.Abort("index writer conformance: %s: git-built state gives %v, directly written state gives %v", c27Render(v), viaGit, direct)
	}
	e.c.TracesValidated(1)
}

// run builds the state described by v, asks git and go-git, and returns both
// status maps (path -> XY) plus a go-git error string.
func (e *c27Env) run(v []int) (gitM, goM map[string]string, goErr string) {
	root := e.c.TempDir("c27")
	defer os.RemoveAll(root)
	g := e.build(v, root, false)
	subsec := v[9] == 2
	if !subsec {
		gitM = c27GitStatus(g)
	}

	// go-git
	goM = map[string]string{}
	defer func() {
		if subsec {
			// The installed git compares whole seconds only (no USE_NSEC), so in
			// this one mode its cached stat data would hide the edit from git
			// itself (even after update-index --really-refresh). The reference
			// is git after the files' mtimes have moved to another second, which
			// makes it re-read them; go-git ran first, on the untouched state.
			for _, p := range c27Paths {
				if fi, err := os.Lstat(filepath.Join(root, p)); err == nil && fi.Mode().IsRegular() {
					hSetMtime(filepath.Join(root, p), hOldTime+77)
				}
			}
			gitM = c27GitStatus(g)
		}
	}()
	func() {
		defer func() {
			if rec := recover(); rec != nil {
				goErr = fmt.Sprintf("panic: %v", rec)
			}
		}()
		repo, err := git.PlainOpen(root)
		if err != nil {
			goErr = "PlainOpen: " + err.Error()
			return
		}
		defer repo.Close()
		w, err := repo.Worktree()
		if err != nil {
			goErr = "Worktree: " + err.Error()
			return
		}
		st, err := w.Status()
		if err != nil {
			goErr = "Status: " + err.Error()
			return
		}
		for p, fs := range st {
			xy := string([]byte{byte(fs.Staging), byte(fs.Worktree)})
			if xy == "  " {
				continue
			}
			goM[p] = xy
		}
	}()
	return gitM, goM, goErr
}

func (e *c27Env) sig(v []int) string {
	gitM, goM, goErr := e.run(v)
	if goErr != "" {
		return "status:E'ok'/'error' " + strings.SplitN(goErr, ":", 2)[0]
	}
	return hDiffStatus(gitM, goM)
}

func runC27(c *fw.Ctx) {
	t := hBuildTemplate(c, "c27tmpl", c27Paths, "-12xlr")
	e := &c27Env{c: c, t: t}

	// states: full triple space of one path x reduced set for the other
	// (quick), full x full (thorough).
	type tri [3]int
	var full []tri
	for h := range c27H {
		for i := range c27I {
			for w := range c27W {
				full = append(full, tri{h, i, w})
			}
		}
	}
	// reduced: absent, clean, modified, untracked, added, deleted (+ staged, staged-delete, exec change, ita in thorough)
	red := []tri{{0, 0, 0}, {1, 1, 1}, {1, 1, 2}, {0, 0, 1}, {0, 1, 1}, {1, 1, 0}}
	if c.Thorough() {
		red = append(red, tri{1, 2, 2}, tri{1, 0, 0}, tri{1, 1, 3}, tri{0, 5, 1})
	}
	states := map[[6]int]bool{}
	var stateList [][6]int
	addState := func(a, b tri) {
		k := [6]int{a[0], a[1], a[2], b[0], b[1], b[2]}
		if !states[k] {
			states[k] = true
			stateList = append(stateList, k)
		}
	}
	if c.Thorough() {
		for _, b := range red { // single-path states (other path absent) come first
			for _, a := range full {
				addState(a, b)
				addState(b, a)
			}
		}
	} else {
		// quick: every triple of one path with the other path absent, plus all
		// pairs of the representative triples
		for _, a := range full {
			addState(a, red[0])
			addState(red[0], a)
		}
		for _, a := range red {
			for _, b := range red {
				addState(a, b)
			}
		}
	}
	reducedN := len(stateList)
	if c.Thorough() {
		for _, a := range full {
			for _, b := range full {
				addState(a, b)
			}
		}
	}
	// configurations: star (each dimension alone + one all-on) for every
	// state; the full product for the reduced states in thorough.
	star := [][4]int{{0, 0, 0, 0}, {1, 0, 0, 0}, {0, 1, 0, 0}, {0, 2, 0, 0}, {0, 0, 1, 0}, {0, 0, 2, 0}, {0, 0, 3, 0}, {0, 0, 0, 1}, {0, 1, 0, 1}, {1, 1, 1, 1}, {0, 0, 0, 2}}
	if c.Thorough() {
		star = append(star, [4]int{0, 2, 0, 1}, [4]int{1, 0, 0, 1})
	}
	inStar := map[[4]int]bool{}
	for _, s := range star {
		inStar[s] = true
	}
	var cases [][]int
	isRed := func(t [3]int) bool {
		for _, r := range red {
			if r == tri(t) {
				return true
			}
		}
		return false
	}
	for si, s := range stateList {
		for ci, cf := range star {
			if si >= reducedN && ci > 0 {
				break // full x full states (thorough) run under the base configuration only
			}
			cases = append(cases, []int{s[0], s[1], s[2], s[3], s[4], s[5], cf[0], cf[1], cf[2], cf[3]})
		}
		// thorough: the full 48-configuration product on the pairs of representative triples
		if c.Thorough() && si < reducedN && isRed([3]int{s[0], s[1], s[2]}) && isRed([3]int{s[3], s[4], s[5]}) {
			for fm := 0; fm < 2; fm++ {
				for cr := 0; cr < 3; cr++ {
					for ig := 0; ig < 4; ig++ {
						for ra := 0; ra < 2; ra++ {
							cf := [4]int{fm, cr, ig, ra}
							if !inStar[cf] {
								cases = append(cases, []int{s[0], s[1], s[2], s[3], s[4], s[5], fm, cr, ig, ra})
							}
						}
					}
				}
			}
		}
	}
	c.Bound("paths", c27Paths)
	c.Bound("head_kinds", c27H)
	c.Bound("index_kinds", c27I)
	c.Bound("worktree_kinds", c27W)
	c.Bound("states", len(stateList))
	c.Bound("configs_per_state", len(star))
	c.Bound("cases", len(cases))
	c.Bound("extras", "always present: empty dir e/, untracked u/v, z.ign, d/z.ign")
	c.SetRule("per path a (HEAD,index,worktree) triple over kinds -=absent 1/2=contents x=exec l=symlink i=intent-to-add t=type swap (2 stands for the CRLF twin of 1 when autocrlf is on); quick: full triple space of one path with the other path absent (both ways) + all pairs of 6 representative triples, thorough: full x 10 representatives (both ways) + full x full; x configurations (core.fileMode, core.autocrlf, ignore file placement, mtime old|same-second-as-index|same second with other nanoseconds under a newer index) as a star (each alone + autocrlf with racy + all on; thorough: the full x full states under the base configuration only, and the full 48-configuration product on the pairs of representative triples); states built with real git (reset/add -N on a stamped template); Worktree.Status compared per path with git status --porcelain=v1 -z --untracked-files=all --no-renames; non-trivial = git reports at least one path besides the fixed extras; distinct counts (config, multiset of XY codes of a and d/b)")
	c.Assume("git 2.39.5 status is the reference; git's type-change code T is read as M (go-git's StatusCode has no T); rename pairing is off (--no-renames); states with stat data matching a same-size different-content file are only produced with index mtime == file mtime (the racy case), never with an older file (that state needs utimes forgery)")

	var fails hFailures
	c.ParDo(len(cases), 0, func(k int) {
		i := hSpread(k, len(cases))
		v := cases[i]
		gitM, goM, goErr := e.run(v)
		c.Eval()
		nontrivial := false
		var codes []string
		for p, xy := range gitM {
			if p == "a" || strings.HasPrefix(p, "a/") || p == "d" || p == "d/b" {
				nontrivial = true
				codes = append(codes, xy)
			}
		}
		if nontrivial {
			sort.Strings(codes)
			c.Class(fmt.Sprintf("%v|%s", v[6:], strings.Join(codes, ",")))
		}
		if i%997 == 0 {
			c.Sample(map[string]any{"case": c27Render(v), "git": gitM, "go_git": goM})
		}
		sig := ""
		if goErr != "" {
			sig = "status:E'ok'/'error' " + strings.SplitN(goErr, ":", 2)[0]
		} else {
			sig = hDiffStatus(gitM, goM)
		}
		if i%53 == 0 {
			e.conform(v, gitM)
		}
		if sig != "" {
			// group by the state of the first disagreeing base path, so that two
			// causes of the same XY disagreement each get a representative
			first := strings.SplitN(strings.SplitN(sig, ";", 2)[0], ":", 2)[0]
			hint := ""
			switch {
			case first == "a" || strings.HasPrefix(first, "a/"):
				hint = fmt.Sprintf("a=%v", v[0:3])
			case first == "d" || first == "d/b":
				hint = fmt.Sprintf("d/b=%v", v[3:6])
			}
			fails.addHint(i, v, sig, hint)
		}
	})
	fails.report(c, e.sig, c27Render)
}

package checks

import (
	"crypto/sha1"
	"crypto/sha256"
	"fmt"
	"os"
	"sort"
	"strings"
	"sync/atomic"

	"github.com/go-git/go-git/v6/plumbing"
	format "github.com/go-git/go-git/v6/plumbing/format/config"
	"github.com/go-git/go-git/v6/storage/memory"
	"github.com/go-git/go-git/v6/x/verif/vsched"

	"verifmc/fw"
)

// c01Concurrent: one ObjectHasher is shared by every object of a storage, so
// "the id go-git computes equals git's" must hold when several goroutines hash
// through it at once. 2 and 3 threads, 1-2 hashing calls each, with inputs
// forced to differ in type and in size (so any state shared across the lock
// shows in the id), all interleavings up to the preemption bound at the
// hasher's lock operations; every returned id is compared with an independent
// sha1/sha256 over "<type> <size>\0<content>".
func c01Concurrent(c *fw.Ctx) {
	if os.Getenv("VERIF_MODE") != "sched" {
		c.Assume("concurrent hashing part skipped: binary not built in sched mode")
		return
	}
	type call struct {
		via  string // compute | memobj | storage
		typ  plumbing.ObjectType
		data string
	}
	inputs := []call{
		{"compute", plumbing.BlobObject, ""},
		{"compute", plumbing.BlobObject, "abc"},
		{"compute", plumbing.TreeObject, ""},
		{"compute", plumbing.CommitObject, "0123456789"},
		{"memobj", plumbing.BlobObject, "x"},
		{"memobj", plumbing.TagObject, strings.Repeat("y", 100)},
		{"storage", plumbing.BlobObject, "zz"},
		{"storage", plumbing.BlobObject, strings.Repeat("w", 1000)},
	}
	ref := func(f format.ObjectFormat, t plumbing.ObjectType, d string) string {
		h := fmt.Sprintf("%s %d\x00%s", t, len(d), d)
		if f == format.SHA256 {
			s := sha256.Sum256([]byte(h))
			return fmt.Sprintf("%x", s)
		}
		s := sha1.Sum([]byte(h))
		return fmt.Sprintf("%x", s)
	}
	// programs: every ordered pair / triple of distinct inputs, one call per
	// thread, plus pairs where the first thread makes two calls.
	type harness struct {
		f     format.ObjectFormat
		progs [][]int
	}
	var hs []harness
	formats := []format.ObjectFormat{format.SHA1, format.SHA256}
	for _, f := range formats {
		for a := range inputs {
			for b := range inputs {
				if a >= b {
					continue
				}
				hs = append(hs, harness{f, [][]int{{a}, {b}}})
			}
		}
		for a := 0; a < len(inputs); a += 2 {
			for b := 1; b < len(inputs); b += 2 {
				for d := 0; d < len(inputs); d += 3 {
					if a == b || b == d || a == d {
						continue
					}
					hs = append(hs, harness{f, [][]int{{a}, {b}, {d}}})
					hs = append(hs, harness{f, [][]int{{a, d}, {b}}})
				}
			}
		}
	}
	maxPre := c.Pick(2, 3)
	c.Bound("concurrent_hashing_harnesses", len(hs))
	c.Bound("concurrent_hashing_threads", "2-3")
	c.Bound("concurrent_hashing_preemption_bound", maxPre)
	var execs, points atomic.Int64
	c.ParDo(len(hs), 0, func(hi int) {
		h := hs[hi]
		var names []string
		for _, p := range h.progs {
			var s []string
			for _, i := range p {
				s = append(s, fmt.Sprintf("%s(%s,%d bytes)", inputs[i].via, inputs[i].typ, len(inputs[i].data)))
			}
			names = append(names, strings.Join(s, ","))
		}
		hname := fmt.Sprintf("format=%v threads=[%s]", h.f, strings.Join(names, " | "))
		outcomes := map[string]bool{}
		body := func(x *vsched.Exec) func(*vsched.Exec) string {
			oh := plumbing.FromObjectFormat(h.f)
			st := memory.NewStorage(memory.WithObjectFormat(h.f))
			var bad atomic.Value
			for ti, p := range h.progs {
				p := p
				x.Go(fmt.Sprintf("t%d", ti), func() any {
					for _, i := range p {
						in := inputs[i]
						var got string
						switch in.via {
						case "compute":
							id, err := oh.Compute(in.typ, []byte(in.data))
							if err != nil {
								bad.Store("Compute: " + err.Error())
								return nil
							}
							got = id.String()
						case "memobj":
							o := plumbing.NewMemoryObject(oh)
							o.SetType(in.typ)
							o.Write([]byte(in.data))
							got = o.Hash().String()
						case "storage":
							o := st.NewEncodedObject()
							o.SetType(in.typ)
							w, _ := o.Writer()
							w.Write([]byte(in.data))
							w.Close()
							id, err := st.SetEncodedObject(o)
							if err != nil {
								bad.Store("SetEncodedObject: " + err.Error())
								return nil
							}
							got = id.String()
						}
						if want := ref(h.f, in.typ, in.data); got != want {
							bad.Store(fmt.Sprintf("%s of a %d-byte %s returned %s, git's id is %s", in.via, len(in.data), in.typ, got, want))
						}
					}
					return nil
				})
			}
			return func(x *vsched.Exec) string {
				if v := bad.Load(); v != nil {
					return v.(string)
				}
				for _, t := range x.Threads() {
					if t.Panic != "" {
						return "panic: " + strings.SplitN(t.Panic, "\n", 2)[0]
					}
				}
				if x.Deadlock {
					return "deadlock"
				}
				outcomes["ok"] = true
				return ""
			}
		}
		st := vsched.Explore(vsched.Config{MaxPreemptions: maxPre}, body, func(f vsched.Failure) bool {
			c.Fail("concurrent hashing through one ObjectHasher returns a wrong object id", fmt.Sprintf("%s: %s", hname, f.What), map[string]any{"harness": hname, "choices": f.Choices})
			return false
		}, func(msg string) { c.EngineError("%s: %s", hname, msg) })
		execs.Add(int64(st.Executions))
		points.Add(int64(st.Points))
		c.Evals(st.Executions)
		if !st.Complete {
			c.Incomplete("deadline inside " + hname)
		}
		var os []string
		for o := range outcomes {
			os = append(os, o)
		}
		sort.Strings(os)
		c.Class("conc|" + hname)
		if hi%61 == 0 {
			c.Sample(map[string]any{"harness": hname, "schedules": st.Executions})
		}
	})
	c.Extra("concurrent_hashing_schedules", execs.Load())
	c.Extra("concurrent_hashing_scheduling_points", points.Load())
}

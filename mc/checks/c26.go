package checks

import (
	"bytes"
	"fmt"
	"sort"
	"strings"

	git "github.com/go-git/go-git/v6"
	"github.com/go-git/go-git/v6/config"
	"github.com/go-git/go-git/v6/plumbing"
	"github.com/go-git/go-git/v6/plumbing/cache"
	"github.com/go-git/go-git/v6/plumbing/object"
	"github.com/go-git/go-git/v6/storage/filesystem"

	"verifmc/fw"
	"verifmc/mcfs"
)

func init() {
	fw.Register(&fw.Check{ID: "C26", Level: "exploration", Run: runC26, QuickBudget: 100, ThoroughBudget: 1200})
}

// rawTree encodes entries (already sorted by the caller or not: order is kept) without any validation.
type c26Entry struct {
	mode string
	name string
	hash plumbing.Hash
}

func c26RawObject(st *filesystem.Storage, t plumbing.ObjectType, data []byte) plumbing.Hash {
	o := &plumbing.MemoryObject{}
	o.SetType(t)
	o.Write(data)
	h, err := st.SetEncodedObject(o)
	if err != nil {
		fw.Abort("raw object: %v", err)
	}
	return h
}

func c26Tree(st *filesystem.Storage, es []c26Entry) plumbing.Hash {
	sort.SliceStable(es, func(i, j int) bool {
		a, b := es[i].name, es[j].name
		if es[i].mode == "40000" {
			a += "/"
		}
		if es[j].mode == "40000" {
			b += "/"
		}
		return a < b
	})
	var buf bytes.Buffer
	for _, e := range es {
		fmt.Fprintf(&buf, "%s %s\x00", e.mode, e.name)
		buf.Write(e.hash.Bytes())
	}
	return c26RawObject(st, plumbing.TreeObject, buf.Bytes())
}

func c26Commit(st *filesystem.Storage, tree plumbing.Hash, parents ...plumbing.Hash) plumbing.Hash {
	var buf bytes.Buffer
	fmt.Fprintf(&buf, "tree %s\n", tree)
	for _, p := range parents {
		fmt.Fprintf(&buf, "parent %s\n", p)
	}
	buf.WriteString("author V <v@example.com> 1700000000 +0000\ncommitter V <v@example.com> 1700000000 +0000\n\nm\n")
	return c26RawObject(st, plumbing.CommitObject, buf.Bytes())
}

// c26Kind describes what a name is in a tree.
type c26Kind struct {
	name string
	// build returns the tree entries for entry name n
	build func(st *filesystem.Storage, n string) []c26Entry
}

func runC26(c *fw.Ctx) {
	names := []string{".git", ".GIT", ".git.", "git~1", ".g‌it", "..", ".", "a", ".gitmodules", "a/b", "a\\b", ".git ", "GIT~1", ".gitignore"}
	childNames := []string{"x", ".git", "..", "config", "hooks"}
	targets := []string{"..", ".git", "/outside", "../outside", ".git/hooks", "b"}
	if !c.Thorough() {
		names = []string{".git", ".GIT", ".git.", "git~1", ".g‌it", "..", "a", ".gitmodules", "a\\b", ".gitignore"}
		childNames = []string{"x", ".git", "config"}
		targets = []string{"..", ".git", "/outside", "../outside"}
	}
	c.Bound("entry_names", names)
	c.Bound("child_names", childNames)
	c.Bound("symlink_targets", targets)
	c.SetRule("trees written raw (bypassing go-git's encoder): every top-level name x kind {file, symlink to each target, gitlink, directory holding each child name as file or symlink}; single commits and every two-commit sequence in which one top-level name changes kind (symlink -> directory and back, the classic escape); x pre-planted worktree symlinks (a -> /outside, a -> .git) x protectNTFS/protectHFS on/off; operations: Checkout(force), Reset(hard), Checkout of the second commit, then Status, Add, Remove, Move, Clean on the resulting worktree; oracle = the complete mcfs journal by view: every call made through the worktree filesystem resolves (after symlink resolution) under /wt and not inside /wt/.git; every call made through the storage filesystem resolves under /wt/.git; sentinel files in /outside, /wt/.git/config and /wt/.git/hooks are byte-identical; distinct = (case shape, outcome, escaped-path set)")
	c.Assume("mcfs resolves symlinks without confinement (the guards under test are go-git's own, not the OS's); mcfs is case-sensitive, so case/NTFS/HFS aliasing is exercised only through go-git's name checks; submodule update over the network is not driven")
	n, err := mcfs.Conformance(c.Scratch(), 2)
	c.Must(err, "mcfs/osfs conformance")
	c.Extra("mcfs_osfs_conformance_sequences", n)

	base := mcfs.NewWorld()
	base.JournalReads = true
	{
		st := filesystem.NewStorage(base.View("/wt/.git", "git"), cache.NewObjectLRUDefault())
		if _, err := git.Init(st, git.WithWorkTree(base.View("/wt", "wt"))); err != nil {
			fw.Abort("init: %v", err)
		}
	}
	base.WriteFile("/outside/x", []byte("SENTINEL-OUTSIDE"), false)
	base.WriteFile("/outside/sub/y", []byte("SENTINEL-OUTSIDE-2"), false)
	base.WriteFile("/wt/.git/refs/heads/main", []byte("1234567890123456789012345678901234567890\n"), false)
	base.WriteFile("/wt/.git/hooks/pre-commit", []byte("SENTINEL-HOOK"), true)
	base.WriteFile("/wt/untracked", []byte("u"), false)
	sentinels := []string{"/outside/x", "/outside/sub/y", "/wt/.git/hooks/pre-commit", "/wt/.git/config", "/wt/.git/refs/heads/main"}

	blob := func(st *filesystem.Storage, s string) plumbing.Hash { return c26RawObject(st, plumbing.BlobObject, []byte(s)) }
	var kinds []c26Kind
	kinds = append(kinds, c26Kind{"file", func(st *filesystem.Storage, n string) []c26Entry {
		return []c26Entry{{"100644", n, blob(st, "content of "+n+"\n")}}
	}})
	for _, t := range targets {
		t := t
		kinds = append(kinds, c26Kind{"symlink->" + t, func(st *filesystem.Storage, n string) []c26Entry {
			return []c26Entry{{"120000", n, blob(st, t)}}
		}})
	}
	// deep paths below the name: when the name is (or becomes) a symlink into .git or out of the tree, the
	// intermediate directories exist in the link's target
	for _, deep := range [][]string{{"refs", "heads", "zz"}, {"hooks", "zz"}, {"sub", "y2"}} {
		deep := deep
		kinds = append(kinds, c26Kind{"dir{" + strings.Join(deep, "/") + "}", func(st *filesystem.Storage, n string) []c26Entry {
			h := blob(st, "planted deep via "+n+"\n")
			cur := c26Tree(st, []c26Entry{{"100644", deep[len(deep)-1], h}})
			for i := len(deep) - 2; i >= 0; i-- {
				cur = c26Tree(st, []c26Entry{{"40000", deep[i], cur}})
			}
			return []c26Entry{{"40000", n, cur}}
		}})
	}
	kinds = append(kinds, c26Kind{"gitlink", func(st *filesystem.Storage, n string) []c26Entry {
		return []c26Entry{{"160000", n, plumbing.NewHash("1234567890123456789012345678901234567890")}}
	}})
	for _, cn := range childNames {
		cn := cn
		kinds = append(kinds, c26Kind{"dir{" + cn + "}", func(st *filesystem.Storage, n string) []c26Entry {
			sub := c26Tree(st, []c26Entry{{"100644", cn, blob(st, "planted via "+n+"/"+cn+"\n")}})
			return []c26Entry{{"40000", n, sub}}
		}})
		kinds = append(kinds, c26Kind{"dir{" + cn + "->/outside}", func(st *filesystem.Storage, n string) []c26Entry {
			sub := c26Tree(st, []c26Entry{{"120000", cn, blob(st, "/outside")}})
			return []c26Entry{{"40000", n, sub}}
		}})
	}
	type cas struct {
		name    string
		k1, k2  int // k2 = -1: single commit
		planted string // "", "a->/outside", "a->.git"
		ntfs, hfs bool
	}
	var cases []cas
	for _, n := range names {
		for k1 := range kinds {
			for _, prot := range [][2]bool{{true, true}, {false, false}} {
				cases = append(cases, cas{n, k1, -1, "", prot[0], prot[1]})
			}
			for k2 := range kinds {
				if k1 == k2 {
					continue
				}
				// only transitions that involve a symlink or a directory can redirect writes
				a, b := kinds[k1].name, kinds[k2].name
				if !(strings.HasPrefix(a, "symlink") || strings.HasPrefix(b, "symlink") || strings.HasPrefix(a, "dir") && strings.HasPrefix(b, "dir")) {
					continue
				}
				if !c.Thorough() && n != "a" && n != ".gitmodules" && n != "git~1" && n != ".gitignore" {
					continue
				}
				cases = append(cases, cas{n, k1, k2, "", true, false})
			}
		}
	}
	for _, planted := range []string{"a->/outside", "a->.git", "a->../outside"} {
		for k1 := range kinds {
			cases = append(cases, cas{"a", k1, -1, planted, true, false})
		}
	}
	c.Bound("cases", len(cases))

	c.ParDo(len(cases), 0, func(i int) {
		cs := cases[i]
		w := base.Clone()
		w.JournalReads = true
		st := filesystem.NewStorage(w.View("/wt/.git", "git"), cache.NewObjectLRUDefault())
		keep := []c26Entry{{"100644", "keep", blob(st, "keep\n")}}
		t1 := c26Tree(st, append(append([]c26Entry{}, keep...), kinds[cs.k1].build(st, cs.name)...))
		c1 := c26Commit(st, t1)
		var c2 plumbing.Hash
		if cs.k2 >= 0 {
			t2 := c26Tree(st, append(append([]c26Entry{}, keep...), kinds[cs.k2].build(st, cs.name)...))
			c2 = c26Commit(st, t2, c1)
		}
		switch cs.planted {
		case "a->/outside":
			w.SymlinkSetup("/outside", "/wt/a")
		case "a->.git":
			w.SymlinkSetup(".git", "/wt/a")
		case "a->../outside":
			w.SymlinkSetup("../outside", "/wt/a")
		}
		cfg, err := st.Config()
		if err != nil {
			fw.Abort("config: %v", err)
		}
		cfg.Core.ProtectNTFS = config.NewOptBool(cs.ntfs)
		cfg.Core.ProtectHFS = config.NewOptBool(cs.hfs)
		if err := st.SetConfig(cfg); err != nil {
			fw.Abort("set config: %v", err)
		}
		// the config sentinel is taken after our own legitimate write
		before := map[string]string{}
		for _, s := range sentinels {
			b, _ := w.ReadFile(s)
			before[s] = string(b)
		}
		w.ResetJournal()
		repo, err := git.Open(st, w.View("/wt", "wt"))
		if err != nil {
			fw.Abort("open: %v", err)
		}
		wt, err := repo.Worktree()
		if err != nil {
			fw.Abort("worktree: %v", err)
		}
		var results []string
		do := func(name string, f func() error) {
			err := func() (err error) {
				defer func() {
					if r := recover(); r != nil {
						err = fmt.Errorf("panic: %v", r)
					}
				}()
				return f()
			}()
			if err != nil && strings.HasPrefix(err.Error(), "panic:") {
				results = append(results, name+"=PANIC "+err.Error())
			} else if err != nil {
				results = append(results, name+"=refused")
			} else {
				results = append(results, name+"=ok")
			}
		}
		do("Checkout(c1)", func() error { return wt.Checkout(&git.CheckoutOptions{Hash: c1, Force: true}) })
		if cs.k2 >= 0 {
			do("Checkout(c2)", func() error { return wt.Checkout(&git.CheckoutOptions{Hash: c2, Force: true}) })
			do("Reset(hard,c1)", func() error { return wt.Reset(&git.ResetOptions{Mode: git.HardReset, Commit: c1}) })
		}
		do("Status", func() error { _, err := wt.Status(); return err })
		do("Add("+cs.name+")", func() error { _, err := wt.Add(cs.name); return err })
		do("Add("+cs.name+"/x)", func() error { _, err := wt.Add(cs.name + "/x"); return err })
		do("Move", func() error { _, err := wt.Move("keep", cs.name+"/moved"); return err })
		do("Move(deep)", func() error { _, err := wt.Move("keep", cs.name+"/refs/heads/moved"); return err })
		do("Add(deep)", func() error { _, err := wt.Add(cs.name + "/refs/heads/main"); return err })
		do("Remove(deep)", func() error { _, err := wt.Remove(cs.name + "/hooks/pre-commit"); return err })
		do("Remove", func() error { _, err := wt.Remove(cs.name); return err })
		do("Clean", func() error { return wt.Clean(&git.CleanOptions{Dir: true}) })
		do("Restore", func() error {
			return wt.Restore(&git.RestoreOptions{Staged: true, Worktree: true, Files: []string{cs.name}})
		})
		c.Eval()
		var esc []string
		for _, op := range w.Journal() {
			view := op.View
			for _, p := range []string{op.Path, op.Path2} {
				if !strings.HasPrefix(p, "/") || (op.Kind == "symlink" && p == op.Path2) {
					continue
				}
				how := "reads"
				if op.Mutating {
					how = "modifies"
				} else if op.Kind == "stat" || op.Kind == "lstat" {
					// existence probes (go-git's own leading-symlink guard stats the ancestors of a path,
					// deepest first) reveal no content and change nothing: not "reading through" the path
					continue
				}
				switch {
				case strings.HasPrefix(view, "wt"):
					inWT := p == "/wt" || strings.HasPrefix(p, "/wt/")
					inGit := strings.HasPrefix(p, "/wt/.git/")
					if p == "/wt/.git" && op.Mutating {
						inGit = true
					}
					if !inWT {
						esc = append(esc, fmt.Sprintf("worktree filesystem %s outside the worktree: %s %s", how, op.Kind, c26PathClass(p)))
					} else if inGit {
						esc = append(esc, fmt.Sprintf("worktree filesystem %s inside .git: %s %s", how, op.Kind, c26PathClass(p)))
					}
				case strings.HasPrefix(view, "git"):
					if !(p == "/wt/.git" || strings.HasPrefix(p, "/wt/.git/")) {
						esc = append(esc, fmt.Sprintf("storage filesystem %s outside .git: %s %s", how, op.Kind, c26PathClass(p)))
					}
				}
			}
		}
		for _, s := range sentinels {
			b, ok := w.ReadFile(s)
			if !ok || string(b) != before[s] {
				esc = append(esc, "sentinel changed: "+s)
			}
		}
		for _, r := range results {
			if strings.Contains(r, "=PANIC") {
				esc = append(esc, "panic in "+strings.SplitN(r, "=", 2)[0])
			}
		}
		sort.Strings(esc)
		esc = dedup(esc)
		shape := fmt.Sprintf("name=%s %s", fw.Q(cs.name), kinds[cs.k1].name)
		if cs.k2 >= 0 {
			shape += " then " + kinds[cs.k2].name
		}
		if cs.planted != "" {
			shape += " planted " + cs.planted
		}
		c.Class(fmt.Sprintf("%s|%v|%d", strings.Join(results, ","), cs.ntfs, len(esc)))
		for _, e := range esc {
			c.Fail(e, fmt.Sprintf("case [%s, protectNTFS=%v protectHFS=%v]: %s (operations: %s)", shape, cs.ntfs, cs.hfs, e, strings.Join(results, ", ")),
				map[string]any{"name": cs.name, "kind1": kinds[cs.k1].name, "kind2": cs.k2, "planted": cs.planted, "results": results, "all": esc})
		}
		if i%211 == 0 {
			c.Sample(map[string]any{"case": shape, "results": results})
		}
	})
	_ = object.ErrUnsupportedObject
}

func c26PathClass(p string) string {
	p = reHashPath.ReplaceAllString(p, "<h>")
	if strings.HasPrefix(p, "/outside") {
		return "/outside/…"
	}
	if strings.HasPrefix(p, "/wt/.git/") {
		parts := strings.SplitN(strings.TrimPrefix(p, "/wt/.git/"), "/", 2)
		return "/wt/.git/" + parts[0] + "/…"
	}
	return p
}

package checks

import (
	"bytes"
	"fmt"
	"os"
	"path/filepath"
	"sort"
	"strings"
	"time"

	billy "github.com/go-git/go-billy/v6"
	"github.com/go-git/go-billy/v6/osfs"

	git "github.com/go-git/go-git/v6"
	"github.com/go-git/go-git/v6/config"
	"github.com/go-git/go-git/v6/plumbing"
	"github.com/go-git/go-git/v6/plumbing/cache"
	"github.com/go-git/go-git/v6/plumbing/object"
	"github.com/go-git/go-git/v6/storage"
	"github.com/go-git/go-git/v6/storage/filesystem"

	"verifmc/fw"
	"verifmc/mcfs"
)

func init() {
	fw.Register(&fw.Check{ID: "C26", Level: "exploration", Run: runC26, QuickBudget: 100, ThoroughBudget: 1200})
}

// rawTree encodes entries (already sorted by the caller or not: order is kept) without any validation.
type c26Entry struct {
	mode string
	name string
	hash plumbing.Hash
}

func c26RawObject(st *filesystem.Storage, t plumbing.ObjectType, data []byte) plumbing.Hash {
	o := &plumbing.MemoryObject{}
	o.SetType(t)
	o.Write(data)
	h, err := st.SetEncodedObject(o)
	if err != nil {
		fw.Abort("raw object: %v", err)
	}
	return h
}

func c26Tree(st *filesystem.Storage, es []c26Entry) plumbing.Hash {
	sort.SliceStable(es, func(i, j int) bool {
		a, b := es[i].name, es[j].name
		if es[i].mode == "40000" {
			a += "/"
		}
		if es[j].mode == "40000" {
			b += "/"
		}
		return a < b
	})
	var buf bytes.Buffer
	for _, e := range es {
		fmt.Fprintf(&buf, "%s %s\x00", e.mode, e.name)
		buf.Write(e.hash.Bytes())
	}
	return c26RawObject(st, plumbing.TreeObject, buf.Bytes())
}

func c26Commit(st *filesystem.Storage, tree plumbing.Hash, parents ...plumbing.Hash) plumbing.Hash {
	var buf bytes.Buffer
	fmt.Fprintf(&buf, "tree %s\n", tree)
	for _, p := range parents {
		fmt.Fprintf(&buf, "parent %s\n", p)
	}
	buf.WriteString("author V <v@example.com> 1700000000 +0000\ncommitter V <v@example.com> 1700000000 +0000\n\nm\n")
	return c26RawObject(st, plumbing.CommitObject, buf.Bytes())
}

// c26Kind describes what a name is in a tree.
type c26Kind struct {
	name string
	// build returns the tree entries for entry name n
	build func(st *filesystem.Storage, n string) []c26Entry
}

// c26Alias classifies one path component against the names that an aliasing filesystem resolves to ".git". It is
// written from git's rules (verify_dotfile, is_hfs_dotgit, is_ntfs_dotgit), not from go-git's pathutil:
// "exact" = .git; "case" = .git / git~1 in any letter case (git refuses these whatever the configuration);
// "hfs" = .git once HFS+ ignorable code points are dropped (protectHFS); "ntfs" = .git or git~1 followed by spaces /
// periods and/or an alternate-data-stream suffix (protectNTFS); "" = an ordinary name.
func c26Alias(comp string) string {
	if comp == ".git" {
		return "exact"
	}
	l := strings.ToLower(comp)
	if l == ".git" || l == "git~1" {
		return "case"
	}
	stripped := strings.Map(func(r rune) rune {
		switch {
		case r >= 0x200c && r <= 0x200f, r >= 0x202a && r <= 0x202e, r >= 0x206a && r <= 0x206f, r == 0xfeff:
			return -1
		}
		return r
	}, comp)
	if stripped != comp && strings.ToLower(stripped) == ".git" {
		return "hfs"
	}
	for _, pre := range []string{".git", "git~1"} {
		if len(l) > len(pre) && strings.HasPrefix(l, pre) {
			rest := l[len(pre):]
			if i := strings.IndexByte(rest, ':'); i >= 0 {
				rest = rest[:i]
			}
			if strings.Trim(rest, " .") == "" {
				return "ntfs"
			}
		}
	}
	return ""
}

// c26InGit says whether world path p (under /wt) lies in the repository's .git directory, directly or through a
// name that the configured protections promise to treat as .git.
func c26InGit(p string, mutating, ntfs, hfs bool) (bool, string) {
	rest := strings.TrimPrefix(p, "/wt/")
	if rest == p || rest == "" {
		return false, ""
	}
	first, below, _ := strings.Cut(rest, "/")
	al := c26Alias(first)
	on := al == "exact" || al == "case" || al == "ntfs" && ntfs || al == "hfs" && hfs
	if !on {
		return false, ""
	}
	if below == "" && !mutating {
		return false, ""
	}
	if al == "exact" {
		return true, ""
	}
	return true, " (" + al + " alias of .git)"
}

type c26Case struct {
	name      string
	k1, k2    int    // k2 = -1: single commit
	planted   string // "", "a->/outside", "a->.git", "a->../outside", "a->/outside/x", "a->.git/config", "aliasdir"
	swap      string // worktree change made between the checkout of c1 and the next operation: "", "->/outside", "->.git", "deep->.git", "deep->/outside"
	ntfs, hfs bool
	script    string // force | merge | pick | glob
}

func runC26(c *fw.Ctx) {
	names := []string{".git", ".GIT", ".git.", "git~1", ".g‌it", "..", ".", "a", ".gitmodules", "a/b", "a\\b", ".git ", "GIT~1", ".gitignore", ".git::$INDEX_ALLOCATION", ".Git"}
	childNames := []string{"x", ".git", "..", "config", "hooks"}
	targets := []string{"..", ".git", "/outside", "../outside", ".git/hooks", "b"}
	if !c.Thorough() {
		names = []string{".git", ".GIT", ".git.", "git~1", ".g‌it", "..", "a", ".gitmodules", "a\\b", ".gitignore"}
		childNames = []string{"x", ".git", "config"}
		targets = []string{"..", ".git", "/outside", "../outside"}
	}
	c.Bound("entry_names", names)
	c.Bound("child_names", childNames)
	c.Bound("symlink_targets", targets)
	c.SetRule("trees written raw (bypassing go-git's encoder): every top-level name x kind {absent, file, symlink to each target, gitlink, directory holding each child name as file or symlink, directory with a deep path}; single commits and two-commit sequences in which one top-level name changes kind (symlink <-> directory, anything <-> absent); x pre-planted worktree state (a -> /outside, a -> .git, a -> a FILE outside or in .git, a directory named like an alias of .git, a nested repository a/.git below an entry that goes away or changes kind) x worktree swapped between the two checkouts (directory replaced by a link, at the top or one level down) x protectNTFS/protectHFS; scripts: force = Checkout(force), Reset(hard), Status, Add, Move, Remove, Clean, Restore; merge = the same commits through non-forced Checkout, Reset merge/keep/mixed, Reset with Files (the resetWorktree path); pick = CherryPick theirs/ours; glob = AddGlob, AddWithOptions(All), RemoveGlob, Clean(no Dir); submodule pass = .gitmodules {name x path} x planted/swapped links: Submodules, Init, Repository, Status, Update(NoFetch) and Storer.Module on every name; osfs pass = a subset on a real directory (osfs.BoundOS, the os.Root bulk-checkout path) judged by sentinels; oracle = the complete mcfs journal by view: every call made through the worktree filesystem resolves (after symlink resolution) under /wt and not inside /wt/.git nor inside a first-level name that the configured protections treat as .git (independent alias classifier), and never modifies anything strictly inside a nested <dir>/.git; every call made through the storage filesystem resolves under /wt/.git, a submodule's storage under /wt/.git/modules; sentinel files byte-identical; distinct = (script, outcome, escaped-path count)")
	c.Assume("mcfs resolves symlinks without confinement (the guards under test are go-git's own, not the OS's); mcfs is case-sensitive: a path through an alias of .git (.GIT, git~1, '.git.', HFS ignorables) counts as inside .git when the corresponding protection is configured (case/git~1: always); submodule update over the network is not driven (NoFetch)")
	n, err := mcfs.Conformance(c.Scratch(), 2)
	c.Must(err, "mcfs/osfs conformance")
	c.Extra("mcfs_osfs_conformance_sequences", n)

	base := mcfs.NewWorld()
	base.JournalReads = true
	{
		st := filesystem.NewStorage(base.View("/wt/.git", "git"), cache.NewObjectLRUDefault())
		if _, err := git.Init(st, git.WithWorkTree(base.View("/wt", "wt"))); err != nil {
			fw.Abort("init: %v", err)
		}
	}
	base.WriteFile("/outside/x", []byte("SENTINEL-OUTSIDE"), false)
	base.WriteFile("/outside/sub/y", []byte("SENTINEL-OUTSIDE-2"), false)
	base.WriteFile("/outside/gm", []byte("[submodule \"m\"]\n\tpath = sm\n\turl = /outside/remote.git\n"), false)
	base.WriteFile("/wt/.git/refs/heads/main", []byte("1234567890123456789012345678901234567890\n"), false)
	base.WriteFile("/wt/.git/hooks/pre-commit", []byte("SENTINEL-HOOK"), true)
	base.WriteFile("/wt/untracked", []byte("u"), false)
	sentinels := []string{"/outside/x", "/outside/sub/y", "/outside/gm", "/wt/.git/hooks/pre-commit", "/wt/.git/config", "/wt/.git/refs/heads/main"}

	blob := func(st *filesystem.Storage, s string) plumbing.Hash {
		return c26RawObject(st, plumbing.BlobObject, []byte(s))
	}
	var kinds []c26Kind
	kinds = append(kinds, c26Kind{"file", func(st *filesystem.Storage, n string) []c26Entry {
		return []c26Entry{{"100644", n, blob(st, "content of "+n+"\n")}}
	}})
	for _, t := range targets {
		t := t
		kinds = append(kinds, c26Kind{"symlink->" + t, func(st *filesystem.Storage, n string) []c26Entry {
			return []c26Entry{{"120000", n, blob(st, t)}}
		}})
	}
	// deep paths below the name: when the name is (or becomes) a symlink into .git or out of the tree, the
	// intermediate directories exist in the link's target
	for _, deep := range [][]string{{"refs", "heads", "zz"}, {"hooks", "zz"}, {"sub", "y2"}} {
		deep := deep
		kinds = append(kinds, c26Kind{"dir{" + strings.Join(deep, "/") + "}", func(st *filesystem.Storage, n string) []c26Entry {
			h := blob(st, "planted deep via "+n+"\n")
			cur := c26Tree(st, []c26Entry{{"100644", deep[len(deep)-1], h}})
			for i := len(deep) - 2; i >= 0; i-- {
				cur = c26Tree(st, []c26Entry{{"40000", deep[i], cur}})
			}
			return []c26Entry{{"40000", n, cur}}
		}})
	}
	kinds = append(kinds, c26Kind{"gitlink", func(st *filesystem.Storage, n string) []c26Entry {
		return []c26Entry{{"160000", n, plumbing.NewHash("1234567890123456789012345678901234567890")}}
	}})
	for _, cn := range childNames {
		cn := cn
		kinds = append(kinds, c26Kind{"dir{" + cn + "}", func(st *filesystem.Storage, n string) []c26Entry {
			sub := c26Tree(st, []c26Entry{{"100644", cn, blob(st, "planted via "+n+"/"+cn+"\n")}})
			return []c26Entry{{"40000", n, sub}}
		}})
		kinds = append(kinds, c26Kind{"dir{" + cn + "->/outside}", func(st *filesystem.Storage, n string) []c26Entry {
			sub := c26Tree(st, []c26Entry{{"120000", cn, blob(st, "/outside")}})
			return []c26Entry{{"40000", n, sub}}
		}})
	}
	// the name is not in the tree at all: with a second commit this is "the entry is deleted / appears", with a
	// planted link it leaves the link alone for the operations that follow
	absent := len(kinds)
	kinds = append(kinds, c26Kind{"absent", func(st *filesystem.Storage, n string) []c26Entry { return nil }})
	isDir := func(k int) bool { return strings.HasPrefix(kinds[k].name, "dir") }
	isSym := func(k int) bool { return strings.HasPrefix(kinds[k].name, "symlink") }
	isDeep := func(k int) bool {
		return isDir(k) && strings.Contains(kinds[k].name, "/") && !strings.Contains(kinds[k].name, "->")
	}

	var cases []c26Case
	quickSeqName := func(n string) bool { return n == "a" || n == ".gitmodules" || n == "git~1" || n == ".gitignore" }
	for _, n := range names {
		for k1 := range kinds {
			if k1 != absent {
				for _, prot := range [][2]bool{{true, true}, {false, false}} {
					cases = append(cases, c26Case{n, k1, -1, "", "", prot[0], prot[1], "force"})
				}
				// the same commit through the non-forced checkout (merge-mode reset, resetWorktree)
				cases = append(cases, c26Case{n, k1, -1, "", "", true, false, "merge"})
			}
			for k2 := range kinds {
				if k1 == k2 {
					continue
				}
				toFromAbsent := k1 == absent || k2 == absent
				// only transitions that involve a symlink, two directories, or the entry appearing/disappearing can redirect writes
				if !(isSym(k1) || isSym(k2) || isDir(k1) && isDir(k2) || toFromAbsent) {
					continue
				}
				if !c.Thorough() && !quickSeqName(n) && !toFromAbsent {
					continue
				}
				cases = append(cases, c26Case{n, k1, k2, "", "", true, false, "force"})
				if n == "a" || c.Thorough() && quickSeqName(n) {
					cases = append(cases, c26Case{n, k1, k2, "", "", true, false, "merge"})
					if k1 != absent {
						cases = append(cases, c26Case{n, k1, k2, "", "", true, false, "pick"})
					}
				} else if toFromAbsent && k1 != absent && (c26Alias(n) != "" || c.Thorough()) {
					cases = append(cases, c26Case{n, k1, k2, "", "", true, false, "pick"})
				}
			}
		}
	}
	planteds := []string{"a->/outside", "a->.git", "a->../outside", "a->/outside/x", "a->.git/config"}
	for _, planted := range planteds {
		for k1 := range kinds {
			for _, script := range []string{"force", "merge", "glob"} {
				cases = append(cases, c26Case{"a", k1, -1, planted, "", true, false, script})
			}
		}
	}
	// a nested repository: the entry's directory holds a git directory of its own (an in-place submodule or a
	// nested clone) while the entry goes away or changes kind between the two commits
	for k1 := range kinds {
		if k := kinds[k1].name; k != "gitlink" && k != "file" && k != "dir{x}" {
			continue
		}
		for _, k2 := range []int{absent, 0} {
			if k2 == k1 {
				continue
			}
			for _, script := range []string{"force", "merge"} {
				cases = append(cases, c26Case{"a", k1, k2, "nestedgit", "", true, false, script})
			}
		}
	}
	// the worktree is changed under go-git between two operations: the directory written by the first checkout
	// is replaced by a link (at the top, or one level down for the deep kinds)
	for k1 := range kinds {
		if !isDir(k1) {
			continue
		}
		swaps := []string{"->/outside", "->.git", "->../outside", "->.git/config", "->/outside/x"}
		if isDeep(k1) {
			swaps = append(swaps, "deep->.git", "deep->/outside")
		}
		for _, sw := range swaps {
			for _, k2 := range []int{absent, 0, k1} {
				for _, script := range []string{"force", "merge", "pick", "glob"} {
					if k2 == k1 && script != "glob" && script != "force" {
						continue
					}
					kk := k2
					if k2 == k1 {
						kk = -1
					}
					cases = append(cases, c26Case{"a", k1, kk, "", sw, true, false, script})
				}
			}
		}
	}
	// a real directory whose name an aliasing filesystem resolves to .git (what .git looks like through the alias)
	for _, n := range names {
		if al := c26Alias(n); al == "" || al == "exact" {
			continue
		}
		for k1 := range kinds {
			if k := kinds[k1].name; k != "absent" && k != "file" && k != "dir{x}" && k != "dir{config}" {
				continue
			}
			for _, prot := range [][2]bool{{true, true}, {false, false}} {
				for _, script := range []string{"force", "glob"} {
					cases = append(cases, c26Case{n, k1, -1, "aliasdir", "", prot[0], prot[1], script})
				}
			}
		}
	}
	c.Bound("cases", len(cases))
	perScript := map[string]int{}
	for _, cs := range cases {
		perScript[cs.script]++
	}
	c.Bound("cases_per_script", perScript)

	c.ParDo(len(cases), 0, func(i int) {
		cs := cases[i]
		w := base.Clone()
		w.JournalReads = true
		st := filesystem.NewStorage(w.View("/wt/.git", "git"), cache.NewObjectLRUDefault())
		keep := []c26Entry{{"100644", "keep", blob(st, "keep\n")}}
		t1 := c26Tree(st, append(append([]c26Entry{}, keep...), kinds[cs.k1].build(st, cs.name)...))
		c1 := c26Commit(st, t1)
		var c2 plumbing.Hash
		if cs.k2 >= 0 {
			t2 := c26Tree(st, append(append([]c26Entry{}, keep...), kinds[cs.k2].build(st, cs.name)...))
			c2 = c26Commit(st, t2, c1)
		}
		switch cs.planted {
		case "":
		case "nestedgit":
			for _, f := range []string{"config", "HEAD", "objects/info/x"} {
				w.WriteFile("/wt/a/.git/"+f, []byte("SENTINEL-NESTED "+f), false)
			}
			w.WriteFile("/wt/a/inner", []byte("inner file\n"), false)
		case "aliasdir":
			for _, f := range []string{"x", "config", "hooks/pre-commit", "refs/heads/main"} {
				w.WriteFile("/wt/"+cs.name+"/"+f, []byte("seen through the alias: "+f), false)
			}
		default:
			w.SymlinkSetup(strings.TrimPrefix(cs.planted, "a->"), "/wt/a")
		}
		c26SetProtect(st, cs.ntfs, cs.hfs)
		// the config sentinel is taken after our own legitimate write
		sentinels := sentinels
		if cs.planted == "nestedgit" {
			sentinels = append(append([]string{}, sentinels...), "/wt/a/.git/config", "/wt/a/.git/HEAD", "/wt/a/.git/objects/info/x")
		}
		before := c26Sentinels(w, sentinels)
		w.ResetJournal()
		repo, err := git.Open(st, w.View("/wt", "wt"))
		if err != nil {
			fw.Abort("open: %v", err)
		}
		wt, err := repo.Worktree()
		if err != nil {
			fw.Abort("worktree: %v", err)
		}
		var results []string
		swap := func() {
			switch cs.swap {
			case "":
			case "deep->.git", "deep->/outside":
				d := strings.SplitN(strings.TrimSuffix(strings.TrimPrefix(kinds[cs.k1].name, "dir{"), "}"), "/", 2)[0]
				if !w.Exists("/wt/a/" + d) {
					return
				}
				w.RemoveSetup("/wt/a/" + d)
				if cs.swap == "deep->.git" {
					w.SymlinkSetup("../.git/"+d, "/wt/a/"+d)
				} else {
					w.SymlinkSetup("/outside/"+d, "/wt/a/"+d)
				}
			default:
				w.RemoveSetup("/wt/" + cs.name)
				w.SymlinkSetup(strings.TrimPrefix(cs.swap, "->"), "/wt/"+cs.name)
			}
		}
		results = c26Script(cs, repo, wt, c1, c2, swap)
		c.Eval()
		esc := c26Judge(w, sentinels, before, results, cs.ntfs, cs.hfs)
		shape := fmt.Sprintf("name=%s %s", fw.Q(cs.name), kinds[cs.k1].name)
		if cs.k2 >= 0 {
			shape += " then " + kinds[cs.k2].name
		}
		if cs.planted != "" {
			shape += " planted " + cs.planted
		}
		if cs.swap != "" {
			shape += " swapped " + cs.swap
		}
		shape += " script " + cs.script
		c.Class(fmt.Sprintf("%s|%v|%d", strings.Join(results, ","), cs.ntfs, len(esc)))
		for _, e := range esc {
			c.Fail(e, fmt.Sprintf("case [%s, protectNTFS=%v protectHFS=%v]: %s (operations: %s)", shape, cs.ntfs, cs.hfs, e, strings.Join(results, ", ")),
				map[string]any{"name": cs.name, "kind1": kinds[cs.k1].name, "kind2": cs.k2, "planted": cs.planted, "swap": cs.swap, "script": cs.script, "results": results, "all": esc})
		}
		if i%211 == 0 {
			c.Sample(map[string]any{"case": shape, "results": results})
		}
	})
	c26Submodules(c, base, sentinels)
	c26OSFS(c, kinds, absent)
	_ = object.ErrUnsupportedObject
}

func c26SetProtect(st *filesystem.Storage, ntfs, hfs bool) {
	cfg, err := st.Config()
	if err != nil {
		fw.Abort("config: %v", err)
	}
	cfg.Core.ProtectNTFS = config.NewOptBool(ntfs)
	cfg.Core.ProtectHFS = config.NewOptBool(hfs)
	if err := st.SetConfig(cfg); err != nil {
		fw.Abort("set config: %v", err)
	}
}

func c26Sentinels(w *mcfs.World, sentinels []string) map[string]string {
	before := map[string]string{}
	for _, s := range sentinels {
		b, _ := w.ReadFile(s)
		before[s] = string(b)
	}
	return before
}

func c26Do(name string, f func() error) string {
	err := func() (err error) {
		defer func() {
			if r := recover(); r != nil {
				err = fmt.Errorf("panic: %v", r)
			}
		}()
		return f()
	}()
	if err != nil && strings.HasPrefix(err.Error(), "panic:") {
		return name + "=PANIC " + err.Error()
	} else if err != nil {
		return name + "=refused"
	}
	return name + "=ok"
}

// c26Judge reads the journal of w by view and returns the (sorted, distinct) escapes.
func c26Judge(w *mcfs.World, sentinels []string, before map[string]string, results []string, ntfs, hfs bool) []string {
	var esc []string
	for _, op := range w.Journal() {
		view := op.View
		for _, p := range []string{op.Path, op.Path2} {
			if !strings.HasPrefix(p, "/") || (op.Kind == "symlink" && p == op.Path2) {
				continue
			}
			how := "reads"
			if op.Mutating {
				how = "modifies"
			} else if op.Kind == "stat" || op.Kind == "lstat" {
				// existence probes (go-git's own leading-symlink guard stats the ancestors of a path,
				// deepest first) reveal no content and change nothing: not "reading through" the path
				continue
			}
			switch {
			case strings.HasPrefix(view, "wt"):
				inWT := p == "/wt" || strings.HasPrefix(p, "/wt/")
				inGit, alias := c26InGit(p, op.Mutating, ntfs, hfs)
				if !inWT {
					esc = append(esc, fmt.Sprintf("worktree filesystem %s outside the worktree: %s %s", how, op.Kind, c26PathClass(p)))
				} else if inGit {
					esc = append(esc, fmt.Sprintf("worktree filesystem %s inside .git%s: %s %s", how, alias, op.Kind, c26PathClass(p)))
				} else if op.Mutating && strings.Contains(strings.TrimPrefix(p, "/wt/"), "/.git/") {
					// strictly inside the git directory of a nested repository (a submodule's git directory)
					esc = append(esc, fmt.Sprintf("worktree filesystem modifies inside a nested repository's git directory: %s", op.Kind))
				}
			case strings.HasPrefix(view, "git/chroot:/modules"):
				if !strings.HasPrefix(p+"/", "/wt/.git/modules/") {
					esc = append(esc, fmt.Sprintf("submodule storage %s outside .git/modules: %s %s", how, op.Kind, c26PathClass(p)))
				}
			case strings.HasPrefix(view, "git"):
				if !(p == "/wt/.git" || strings.HasPrefix(p, "/wt/.git/")) {
					esc = append(esc, fmt.Sprintf("storage filesystem %s outside .git: %s %s", how, op.Kind, c26PathClass(p)))
				}
			}
		}
	}
	for _, s := range sentinels {
		b, ok := w.ReadFile(s)
		if !ok || string(b) != before[s] {
			esc = append(esc, "sentinel changed: "+s)
		}
	}
	for _, r := range results {
		if strings.Contains(r, "=PANIC") {
			esc = append(esc, "panic in "+strings.SplitN(r, "=", 2)[0])
		}
	}
	sort.Strings(esc)
	return dedup(esc)
}

// c26Submodules drives the submodule operations: .gitmodules declares one submodule {name x path}; the tree holds
// gitlinks at sm and a/sm; links are planted after the checkout. The storage handed out for a submodule must live
// under .git/modules and its worktree under the worktree, not through a link and not in .git.
func c26Submodules(c *fw.Ctx, base *mcfs.World, allSentinels []string) {
	// Submodule.Init legitimately rewrites the repository's config (through the storage filesystem)
	var sentinels []string
	for _, s := range allSentinels {
		if s != "/wt/.git/config" {
			sentinels = append(sentinels, s)
		}
	}
	modNames := []string{"m", "../m", "a/../../m", "m/../../../outside/m", "..", "m/..", "../hooks", "a/../../hooks", "/abs", "modules/../../refs"}
	modPaths := []string{"sm", "a/sm", ".git/hooks", "sm/.git", "../outside/sm", "/outside/sm", ".GIT/hooks", "a"}
	swaps := []string{"", "sm->/outside", "sm->.git", "a->/outside", "a->.git", ".gitmodules->/outside/gm", "sm->.git/hooks"}
	c.Bound("submodule_names", modNames)
	c.Bound("submodule_paths", modPaths)
	c.Bound("submodule_swaps", swaps)
	type sc struct{ name, path, swap string }
	var cases []sc
	for _, n := range modNames {
		for _, p := range modPaths {
			for _, s := range swaps {
				if !c.Thorough() && n != "m" && p != "sm" && s != "" {
					continue
				}
				cases = append(cases, sc{n, p, s})
			}
		}
	}
	c.Bound("submodule_cases", len(cases))
	blob := func(st *filesystem.Storage, s string) plumbing.Hash {
		return c26RawObject(st, plumbing.BlobObject, []byte(s))
	}
	gl := plumbing.NewHash("1234567890123456789012345678901234567890")
	c.ParDo(len(cases), 0, func(i int) {
		cs := cases[i]
		w := base.Clone()
		w.JournalReads = true
		st := filesystem.NewStorage(w.View("/wt/.git", "git"), cache.NewObjectLRUDefault())
		gm := fmt.Sprintf("[submodule %q]\n\tpath = %s\n\turl = /outside/remote.git\n", cs.name, cs.path)
		sub := c26Tree(st, []c26Entry{{"160000", "sm", gl}, {"100644", "f", blob(st, "f\n")}})
		t1 := c26Tree(st, []c26Entry{{"100644", "keep", blob(st, "keep\n")}, {"100644", ".gitmodules", blob(st, gm)}, {"160000", "sm", gl}, {"40000", "a", sub}})
		c1 := c26Commit(st, t1)
		c26SetProtect(st, true, false)
		before := c26Sentinels(w, sentinels)
		w.ResetJournal()
		repo, err := git.Open(st, w.View("/wt", "wt"))
		if err != nil {
			fw.Abort("open: %v", err)
		}
		wt, err := repo.Worktree()
		if err != nil {
			fw.Abort("worktree: %v", err)
		}
		var results, extra []string
		do := func(name string, f func() error) { results = append(results, c26Do(name, f)) }
		do("Checkout(c1)", func() error { return wt.Checkout(&git.CheckoutOptions{Hash: c1, Force: true}) })
		if cs.swap != "" {
			link, target, _ := strings.Cut(cs.swap, "->")
			w.RemoveSetup("/wt/" + link)
			w.SymlinkSetup(target, "/wt/"+link)
		}
		checkRepo := func(what string, r *git.Repository) {
			if r == nil {
				return
			}
			defer r.Close()
			if fs, ok := r.Storer.(interface{ Filesystem() billy.Filesystem }); ok {
				root := fs.Filesystem().Root()
				if !strings.HasPrefix(root, "/wt/.git/modules/") {
					extra = append(extra, what+": submodule storage rooted outside .git/modules: "+c26PathClass(root))
				}
			}
			if swt, err := r.Worktree(); err == nil {
				root := swt.Filesystem().Root()
				res := w.Resolve(root)
				inGit, _ := c26InGit(res+"/", true, true, false)
				if !(strings.HasPrefix(res, "/wt/")) || inGit {
					extra = append(extra, what+": submodule worktree rooted outside the worktree or in .git: "+c26PathClass(res))
				}
			}
		}
		var subs git.Submodules
		do("Submodules", func() error { var err error; subs, err = wt.Submodules(); return err })
		for j, s := range subs {
			s := s
			tag := fmt.Sprintf("sub%d.", j)
			do(tag+"Status", func() error { _, err := s.Status(); return err })
			do(tag+"Init", func() error { return s.Init() })
			do(tag+"Repository", func() error { r, err := s.Repository(); checkRepo("Repository", r); return err })
			do(tag+"Status#2", func() error { _, err := s.Status(); return err })
			do(tag+"Update", func() error { return s.Update(&git.SubmoduleUpdateOptions{Init: true, NoFetch: true}) })
		}
		do("Status", func() error { _, err := wt.Status(); return err })
		do("Submodules.Update", func() error {
			l, err := wt.Submodules()
			if err != nil {
				return err
			}
			return l.Update(&git.SubmoduleUpdateOptions{Init: true, NoFetch: true, RecurseSubmodules: git.DefaultSubmoduleRecursionDepth})
		})
		do("Checkout(c1)#2", func() error { return wt.Checkout(&git.CheckoutOptions{Hash: c1, Force: true}) })
		do("Clean", func() error { return wt.Clean(&git.CleanOptions{Dir: true}) })
		// the storage's own guard, reached directly (the .gitmodules parser is a separate layer in front of it)
		for _, mn := range []string{cs.name} {
			do("Storer.Module", func() error {
				ms, err := st.Module(mn)
				if err != nil {
					return err
				}
				if fs, ok := ms.(interface{ Filesystem() billy.Filesystem }); ok {
					root := fs.Filesystem().Root()
					if !strings.HasPrefix(root+"/", "/wt/.git/modules/") {
						extra = append(extra, "Storer.Module hands out a storage rooted outside .git/modules/<name>: "+c26PathClass(root))
					}
				}
				var _ storage.Storer = ms
				return nil
			})
		}
		c.Eval()
		esc := c26Judge(w, sentinels, before, results, true, false)
		esc = dedup(append(esc, extra...))
		sort.Strings(esc)
		shape := fmt.Sprintf("submodule name=%s path=%s swapped %s", fw.Q(cs.name), fw.Q(cs.path), fw.Q(cs.swap))
		c.Class(fmt.Sprintf("sub|%s|%d", strings.Join(results, ","), len(esc)))
		for _, e := range esc {
			c.Fail(e, fmt.Sprintf("case [%s]: %s (operations: %s)", shape, e, strings.Join(results, ", ")),
				map[string]any{"name": cs.name, "path": cs.path, "swap": cs.swap, "results": results, "all": esc})
		}
		if i%37 == 0 {
			c.Sample(map[string]any{"case": shape, "results": results})
		}
	})
}

var c26Sig = &object.Signature{Name: "V", Email: "v@example.com", When: time.Unix(1700000000, 0).UTC()}

// c26Script runs one operation script on an opened repository and returns "op=ok|refused|PANIC" per operation.
// swap is called once, after the first checkout.
func c26Script(cs c26Case, repo *git.Repository, wt *git.Worktree, c1, c2 plumbing.Hash, swap func()) []string {
	var results []string
	sig := c26Sig
	do := func(name string, f func() error) { results = append(results, c26Do(name, f)) }
	switch cs.script {
	case "force":
		do("Checkout(c1)", func() error { return wt.Checkout(&git.CheckoutOptions{Hash: c1, Force: true}) })
		swap()
		if cs.k2 >= 0 {
			do("Checkout(c2)", func() error { return wt.Checkout(&git.CheckoutOptions{Hash: c2, Force: true}) })
			do("Reset(hard,c1)", func() error { return wt.Reset(&git.ResetOptions{Mode: git.HardReset, Commit: c1}) })
		}
		do("Status", func() error { _, err := wt.Status(); return err })
		do("Add("+cs.name+")", func() error { _, err := wt.Add(cs.name); return err })
		do("Add("+cs.name+"/x)", func() error { _, err := wt.Add(cs.name + "/x"); return err })
		do("Move", func() error { _, err := wt.Move("keep", cs.name+"/moved"); return err })
		do("Move(deep)", func() error { _, err := wt.Move("keep", cs.name+"/refs/heads/moved"); return err })
		do("Add(deep)", func() error { _, err := wt.Add(cs.name + "/refs/heads/main"); return err })
		do("Remove(deep)", func() error { _, err := wt.Remove(cs.name + "/hooks/pre-commit"); return err })
		do("Remove", func() error { _, err := wt.Remove(cs.name); return err })
		do("Clean", func() error { return wt.Clean(&git.CleanOptions{Dir: true}) })
		do("Restore", func() error {
			return wt.Restore(&git.RestoreOptions{Staged: true, Worktree: true, Files: []string{cs.name}})
		})
	case "merge":
		do("Checkout(c1,noforce)", func() error { return wt.Checkout(&git.CheckoutOptions{Hash: c1}) })
		swap()
		if cs.k2 >= 0 {
			do("Checkout(c2,noforce)", func() error { return wt.Checkout(&git.CheckoutOptions{Hash: c2}) })
			do("Reset(merge,c1)", func() error { return wt.Reset(&git.ResetOptions{Mode: git.MergeReset, Commit: c1}) })
			do("Reset(keep,c2)", func() error { return wt.Reset(&git.ResetOptions{Mode: git.KeepReset, Commit: c2}) })
			do("Reset(mixed,c1)", func() error { return wt.Reset(&git.ResetOptions{Mode: git.MixedReset, Commit: c1}) })
			do("Checkout(c2,keep)", func() error { return wt.Checkout(&git.CheckoutOptions{Hash: c2, Keep: true}) })
		}
		do("Reset(merge,c1)#2", func() error { return wt.Reset(&git.ResetOptions{Mode: git.MergeReset, Commit: c1}) })
		do("Reset(hard,files)", func() error {
			return wt.Reset(&git.ResetOptions{Mode: git.HardReset, Commit: c1, Files: []string{cs.name, cs.name + "/x", cs.name + "/refs/heads/zz"}})
		})
		do("Restore(staged)", func() error {
			return wt.Restore(&git.RestoreOptions{Staged: true, Files: []string{cs.name, cs.name + "/config"}})
		})
		do("Restore(deep)", func() error {
			return wt.Restore(&git.RestoreOptions{Staged: true, Worktree: true, Files: []string{cs.name + "/hooks/zz", cs.name + "/sub/y2", cs.name + "/config"}})
		})
	case "pick":
		do("Checkout(c1)", func() error { return wt.Checkout(&git.CheckoutOptions{Hash: c1, Force: true}) })
		swap()
		do("CherryPick(theirs,c2)", func() error {
			co, err := repo.CommitObject(c2)
			if err != nil {
				return err
			}
			return wt.CherryPick(&git.CommitOptions{Author: sig, Committer: sig, AllowEmptyCommits: true}, git.TheirsMergeStrategy, co)
		})
		do("CherryPick(ours,c2)", func() error {
			co, err := repo.CommitObject(c2)
			if err != nil {
				return err
			}
			return wt.CherryPick(&git.CommitOptions{Author: sig, Committer: sig, AllowEmptyCommits: true}, git.OursMergeStrategy, co)
		})
		do("CherryPick(theirs,c1)", func() error {
			co, err := repo.CommitObject(c1)
			if err != nil {
				return err
			}
			return wt.CherryPick(&git.CommitOptions{Author: sig, Committer: sig, AllowEmptyCommits: true}, git.TheirsMergeStrategy, co)
		})
	case "glob":
		do("Checkout(c1)", func() error { return wt.Checkout(&git.CheckoutOptions{Hash: c1, Force: true}) })
		swap()
		do("AddGlob("+cs.name+"/*)", func() error { return wt.AddGlob(cs.name + "/*") })
		do("AddGlob(*/*)", func() error { return wt.AddGlob("*/*") })
		do("AddGlob(*/*/*)", func() error { return wt.AddGlob("*/*/*") })
		do("Add(All)", func() error { return wt.AddWithOptions(&git.AddOptions{All: true}) })
		do("Add(Path,SkipStatus)", func() error { return wt.AddWithOptions(&git.AddOptions{Path: cs.name + "/x", SkipStatus: true}) })
		do("RemoveGlob("+cs.name+"/*)", func() error { return wt.RemoveGlob(cs.name + "/*") })
		do("RemoveGlob(*)", func() error { return wt.RemoveGlob("*") })
		do("Clean(files)", func() error { return wt.Clean(&git.CleanOptions{}) })
		do("Submodules", func() error { _, err := wt.Submodules(); return err })
	}
	return results
}

// c26OSFS repeats a subset on a real directory: with an osfs.BoundOS worktree go-git takes a different route for
// bulk checkouts (one os.Root for the whole operation, reusableRootFS). os.Root keeps symlinks from leaving the
// worktree but not from reaching the worktree's own .git, so the judgement here is by content: everything under
// <dir>/outside and everything under .git that the operations have no business changing is byte-identical.
func c26OSFS(c *fw.Ctx, kinds []c26Kind, absent int) {
	var cases []c26Case
	kindOK := func(k int) bool {
		n := kinds[k].name
		return c.Thorough() || n == "absent" || n == "file" || n == "symlink->.git" || n == "dir{config}" || n == "dir{x}" || n == "dir{hooks/zz}" || n == "dir{refs/heads/zz}" || n == "gitlink"
	}
	for k1 := range kinds {
		if !kindOK(k1) {
			continue
		}
		for _, planted := range []string{"", "a->../outside", "a->.git", "a->.git/config", "a->../outside/x"} {
			for _, script := range []string{"force", "merge"} {
				if k1 == absent && planted == "" {
					continue
				}
				cases = append(cases, c26Case{"a", k1, -1, planted, "", true, false, script})
			}
		}
		if strings.HasPrefix(kinds[k1].name, "dir") {
			for _, sw := range []string{"->.git", "->../outside", "->.git/config", "->../outside/x"} {
				for _, script := range []string{"force", "merge", "pick"} {
					cases = append(cases, c26Case{"a", k1, absent, "", sw, true, false, script})
					cases = append(cases, c26Case{"a", k1, 0, "", sw, true, false, script})
				}
			}
		}
		for _, n := range []string{".git", ".GIT", "git~1"} {
			if k1 != absent {
				cases = append(cases, c26Case{n, k1, absent, "", "", true, false, "force"})
				cases = append(cases, c26Case{n, k1, absent, "", "", true, false, "pick"})
			}
		}
	}
	c.Bound("osfs_cases", len(cases))
	root := c.TempDir("c26osfs")
	snapshot := func(dir string) map[string]string {
		m := map[string]string{}
		filepath.Walk(dir, func(p string, fi os.FileInfo, err error) error {
			if err != nil {
				return nil
			}
			rel, _ := filepath.Rel(dir, p)
			switch {
			case fi.Mode()&os.ModeSymlink != 0:
				t, _ := os.Readlink(p)
				m[rel] = "L:" + t
			case fi.IsDir():
				m[rel] = "D"
			default:
				b, _ := os.ReadFile(p)
				m[rel] = "F:" + string(b)
			}
			return nil
		})
		return m
	}
	c.ParDo(len(cases), 0, func(i int) {
		cs := cases[i]
		d := filepath.Join(root, fmt.Sprint(i))
		must := func(err error) {
			if err != nil {
				fw.Abort("osfs pass set-up: %v", err)
			}
		}
		must(os.MkdirAll(filepath.Join(d, "outside", "sub"), 0o755))
		must(os.WriteFile(filepath.Join(d, "outside", "x"), []byte("SENTINEL-OUTSIDE"), 0o644))
		must(os.WriteFile(filepath.Join(d, "outside", "sub", "y"), []byte("SENTINEL-OUTSIDE-2"), 0o644))
		wtDir := filepath.Join(d, "wt")
		repo, err := git.PlainInit(wtDir, false)
		must(err)
		defer repo.Close()
		st, ok := repo.Storer.(*filesystem.Storage)
		if !ok {
			fw.Abort("osfs pass: storer is %T", repo.Storer)
		}
		must(os.MkdirAll(filepath.Join(wtDir, ".git", "hooks"), 0o755))
		must(os.WriteFile(filepath.Join(wtDir, ".git", "hooks", "pre-commit"), []byte("SENTINEL-HOOK"), 0o755))
		must(os.MkdirAll(filepath.Join(wtDir, ".git", "refs", "heads"), 0o755))
		must(os.WriteFile(filepath.Join(wtDir, ".git", "refs", "heads", "main"), []byte("1234567890123456789012345678901234567890\n"), 0o644))
		blob := func(s string) plumbing.Hash { return c26RawObject(st, plumbing.BlobObject, []byte(s)) }
		keep := []c26Entry{{"100644", "keep", blob("keep\n")}}
		t1 := c26Tree(st, append(append([]c26Entry{}, keep...), kinds[cs.k1].build(st, cs.name)...))
		c1 := c26Commit(st, t1)
		var c2 plumbing.Hash
		if cs.k2 >= 0 {
			t2 := c26Tree(st, append(append([]c26Entry{}, keep...), kinds[cs.k2].build(st, cs.name)...))
			c2 = c26Commit(st, t2, c1)
		}
		if cs.planted != "" {
			must(os.Symlink(strings.TrimPrefix(cs.planted, "a->"), filepath.Join(wtDir, "a")))
		}
		c26SetProtect(st, cs.ntfs, cs.hfs)
		wt, err := repo.Worktree()
		must(err)
		if _, isBound := wt.Filesystem().(*osfs.BoundOS); !isBound {
			fw.Abort("osfs pass: worktree filesystem is %T, not *osfs.BoundOS", wt.Filesystem())
		}
		judged := func() map[string]string {
			m := snapshot(filepath.Join(d, "outside"))
			for k, v := range snapshot(filepath.Join(wtDir, ".git")) {
				top := strings.SplitN(k, string(filepath.Separator), 2)[0]
				switch top {
				case "objects", "index", "HEAD", "ORIG_HEAD", "logs", ".":
					continue
				}
				if k == filepath.Join("refs", "heads", "master") {
					continue
				}
				m[".git/"+k] = v
			}
			return m
		}
		before := judged()
		swap := func() {
			if cs.swap == "" {
				return
			}
			os.RemoveAll(filepath.Join(wtDir, cs.name))
			must(os.Symlink(strings.TrimPrefix(cs.swap, "->"), filepath.Join(wtDir, cs.name)))
		}
		results := c26Script(cs, repo, wt, c1, c2, swap)
		c.Eval()
		after := judged()
		var esc []string
		for k, v := range before {
			if av, ok := after[k]; !ok {
				esc = append(esc, "osfs worktree: removed "+c26OSClass(k))
			} else if av != v {
				esc = append(esc, "osfs worktree: modified "+c26OSClass(k))
			}
		}
		for k := range after {
			if _, ok := before[k]; !ok {
				esc = append(esc, "osfs worktree: created "+c26OSClass(k))
			}
		}
		for _, r := range results {
			if strings.Contains(r, "=PANIC") {
				esc = append(esc, "panic in "+strings.SplitN(r, "=", 2)[0])
			}
		}
		sort.Strings(esc)
		esc = dedup(esc)
		shape := fmt.Sprintf("osfs name=%s %s", fw.Q(cs.name), kinds[cs.k1].name)
		if cs.k2 >= 0 {
			shape += " then " + kinds[cs.k2].name
		}
		shape += " planted " + fw.Q(cs.planted) + " swapped " + fw.Q(cs.swap) + " script " + cs.script
		c.Class(fmt.Sprintf("osfs|%s|%d", strings.Join(results, ","), len(esc)))
		for _, e := range esc {
			c.Fail(e, fmt.Sprintf("case [%s]: %s (operations: %s)", shape, e, strings.Join(results, ", ")),
				map[string]any{"name": cs.name, "kind1": kinds[cs.k1].name, "kind2": cs.k2, "planted": cs.planted, "swap": cs.swap, "script": cs.script, "results": results, "all": esc})
		}
		os.RemoveAll(d)
	})
}

func c26OSClass(rel string) string {
	rel = filepath.ToSlash(rel)
	if strings.HasPrefix(rel, ".git/") {
		parts := strings.SplitN(strings.TrimPrefix(rel, ".git/"), "/", 2)
		return ".git/" + parts[0] + "/…"
	}
	return "outside/…"
}

func c26PathClass(p string) string {
	p = reHashPath.ReplaceAllString(p, "<h>")
	if strings.HasPrefix(p, "/outside") {
		return "/outside/…"
	}
	if strings.HasPrefix(p, "/wt/.git/") {
		parts := strings.SplitN(strings.TrimPrefix(p, "/wt/.git/"), "/", 2)
		return "/wt/.git/" + parts[0] + "/…"
	}
	return p
}

package checks

// Shared machinery of batch "e" (C42, C43, C37, C51): the DAG x timestamp-order
// enumerator, instance construction (raw commit objects built here, NOT by
// go-git's encoder), the boring graph reference model, the per-instance
// in-memory go-git store, and the one-fast-import "universe" repository in
// which many instances live side by side for the real-git conformance replays.

import (
	"bytes"
	"crypto/sha1"
	"encoding/hex"
	"fmt"
	"os"
	"path/filepath"
	"sort"
	"strconv"
	"strings"
	"sync"

	"github.com/go-git/go-git/v6/plumbing"
	"github.com/go-git/go-git/v6/plumbing/object"
	"github.com/go-git/go-git/v6/storage/memory"

	"verifmc/fw"
)

const (
	eBase      = int64(1700000000)
	eStep      = int64(10)
	eEmptyTree = "4b825dc642cb6eb9a060e54bf8d69288fbee4904"
)

// eObj is one raw git object.
type eObj struct {
	Type string // commit | tree | blob | tag
	Body []byte
	ID   string
}

func eHashObj(typ string, body []byte) string {
	h := sha1.New()
	fmt.Fprintf(h, "%s %d\x00", typ, len(body))
	h.Write(body)
	return hex.EncodeToString(h.Sum(nil))
}

// eInst is one element of the enumerated space: a DAG plus a weak order of
// committer timestamps. Commit i has committer time eBase+Ranks[i]*eStep and
// author time eBase+(m-1-Ranks[i])*eStep (m = number of ranks used), i.e. the
// author order is the REVERSE of the committer order, so that code looking at
// the wrong date is observable.
type eInst struct {
	DagIdx, OrdIdx int
	N              int
	Parents        [][]int
	Ranks          []int
	Time, ATime    []int64
	Tree           []string // root tree id per commit
	Raw            [][]byte // commit bodies
	ID             []string
	H              []plumbing.Hash
	Extra          []eObj // trees/blobs/tags the instance needs (C37)
	anc            []uint32
}

func (in *eInst) String() string {
	return fmt.Sprintf("parents=%v ranks=%v", in.Parents, in.Ranks)
}

// Desc is the canonical replay description.
func (in *eInst) Desc() map[string]any {
	return map[string]any{"parents": in.Parents, "committer_ranks": in.Ranks, "committer_times": in.Time, "n": in.N,
		"note": "commit i: committer time as listed (1700000000+10*rank in the rank-based spaces), author time reversed, empty tree unless stated, message \"c<i>\\n\""}
}

// eNewInst builds the instance. treeOf may be nil (every commit has the empty tree).
func eNewInst(d fw.DAG, ranks []int, treeOf func(i int) string) *eInst {
	n := len(d.Parents)
	m := 0
	for _, r := range ranks {
		if r+1 > m {
			m = r + 1
		}
	}
	t := make([]int64, n)
	at := make([]int64, n)
	for i := 0; i < n; i++ {
		t[i] = eBase + int64(ranks[i])*eStep
		at[i] = eBase + int64(m-1-ranks[i])*eStep
	}
	in := eNewInstTimes(d, t, at, treeOf)
	in.Ranks = ranks
	return in
}

// eNewInstTimes builds an instance with explicit committer and author times.
func eNewInstTimes(d fw.DAG, ctime, atime []int64, treeOf func(i int) string) *eInst {
	n := len(d.Parents)
	in := &eInst{N: n, Parents: d.Parents}
	in.Time = ctime
	in.ATime = atime
	in.Tree = make([]string, n)
	in.Raw = make([][]byte, n)
	in.ID = make([]string, n)
	in.H = make([]plumbing.Hash, n)
	// ranks of the committer times (dense), for shape predicates
	in.Ranks = make([]int, n)
	for i := 0; i < n; i++ {
		seen := map[int64]bool{}
		for j := 0; j < n; j++ {
			if ctime[j] < ctime[i] && !seen[ctime[j]] {
				seen[ctime[j]] = true
				in.Ranks[i]++
			}
		}
	}
	for i := 0; i < n; i++ {
		in.Tree[i] = eEmptyTree
		if treeOf != nil {
			in.Tree[i] = treeOf(i)
		}
		var b bytes.Buffer
		fmt.Fprintf(&b, "tree %s\n", in.Tree[i])
		for _, p := range d.Parents[i] {
			fmt.Fprintf(&b, "parent %s\n", in.ID[p])
		}
		fmt.Fprintf(&b, "author A U Thor <author@example.com> %d +0000\n", in.ATime[i])
		fmt.Fprintf(&b, "committer C O Mitter <committer@example.com> %d +0000\n", in.Time[i])
		fmt.Fprintf(&b, "\nc%d\n", i)
		in.Raw[i] = b.Bytes()
		in.ID[i] = eHashObj("commit", in.Raw[i])
		in.H[i] = plumbing.NewHash(in.ID[i])
	}
	in.anc = eAncMasks(d.Parents, 0)
	return in
}

// ---- the reference model: plain graph reachability on bit masks ----

// eAncMasks returns anc[i] = set of commits reachable from i (inclusive);
// commits in the shallow mask have their parents cut (git's view of a shallow
// repository).
func eAncMasks(parents [][]int, shallow uint32) []uint32 {
	anc := make([]uint32, len(parents))
	for i, ps := range parents {
		m := uint32(1) << i
		if shallow&(1<<i) == 0 {
			for _, p := range ps {
				m |= anc[p]
			}
		}
		anc[i] = m
	}
	return anc
}

func eBits(m uint32) []int {
	var out []int
	for i := 0; m != 0; i, m = i+1, m>>1 {
		if m&1 != 0 {
			out = append(out, i)
		}
	}
	return out
}

func eMask(xs []int) uint32 {
	var m uint32
	for _, x := range xs {
		m |= 1 << x
	}
	return m
}

// eIndependent: members of set not reachable from another member.
func eIndependent(anc []uint32, set uint32) uint32 {
	var out uint32
	for _, x := range eBits(set) {
		red := false
		for _, y := range eBits(set) {
			if y != x && anc[y]&(1<<x) != 0 {
				red = true
			}
		}
		if !red {
			out |= 1 << x
		}
	}
	return out
}

// eMergeBases: best common ancestors of a and b.
func eMergeBases(anc []uint32, a, b int) uint32 {
	return eIndependent(anc, anc[a]&anc[b])
}

// ---- enumerator ----

// eSpace is the list of (DAG, weak order) pairs for n = 1..maxN.
type eSpace struct {
	MaxN  int
	Dags  [][]fw.DAG // by n
	Ords  [][][]int  // by n
	Start []int      // first global index of size n
	Total int
}

// eNewSpace enumerates every DAG with n<=maxN commits (each commit has up to
// maxPar(n) parents among earlier commits; ordered parent lists when ordered(n))
// x every weak order of n timestamps.
func eNewSpace(maxN int, maxPar func(n int) int, ordered func(n int) bool) *eSpace {
	s := &eSpace{MaxN: maxN, Dags: make([][]fw.DAG, maxN+1), Ords: make([][][]int, maxN+1), Start: make([]int, maxN+2)}
	for n := 1; n <= maxN; n++ {
		s.Dags[n] = fw.DAGs(n, maxPar(n), ordered(n))
		s.Ords[n] = fw.WeakOrders(n)
		s.Start[n] = s.Total
		s.Total += len(s.Dags[n]) * len(s.Ords[n])
	}
	s.Start[maxN+1] = s.Total
	return s
}

// At returns the idx-th (DAG, order) in size order.
func (s *eSpace) At(idx int) (fw.DAG, []int, int, int) {
	for n := 1; n <= s.MaxN; n++ {
		if idx < s.Start[n+1] {
			k := idx - s.Start[n]
			no := len(s.Ords[n])
			return s.Dags[n][k/no], s.Ords[n][k%no], k / no, k % no
		}
	}
	panic("eSpace.At out of range")
}

func (s *eSpace) Inst(idx int, treeOf func(i int) string) *eInst {
	d, r, di, oi := s.At(idx)
	in := eNewInst(d, r, treeOf)
	in.DagIdx, in.OrdIdx = di, oi
	return in
}

func (s *eSpace) Sizes() map[string]any {
	m := map[string]any{}
	for n := 1; n <= s.MaxN; n++ {
		m[fmt.Sprintf("n=%d", n)] = fmt.Sprintf("%d DAGs x %d weak orders", len(s.Dags[n]), len(s.Ords[n]))
	}
	return m
}

// ---- go-git side: per-instance in-memory store holding the raw objects ----

func eObjType(t string) plumbing.ObjectType {
	switch t {
	case "commit":
		return plumbing.CommitObject
	case "tree":
		return plumbing.TreeObject
	case "blob":
		return plumbing.BlobObject
	case "tag":
		return plumbing.TagObject
	}
	panic("bad type " + t)
}

func ePut(st *memory.Storage, typ string, body []byte, wantID string) {
	o := st.NewEncodedObject()
	o.SetType(eObjType(typ))
	w, _ := o.Writer()
	w.Write(body)
	w.Close()
	h, err := st.SetEncodedObject(o)
	if err != nil {
		fw.Abort("memory store refused a %s: %v", typ, err)
	}
	if h.String() != wantID {
		fw.Abort("go-git hashed a %s to %s, expected %s", typ, h, wantID)
	}
}

// eMemStore returns a fresh memory storage with the instance's commits, the
// empty tree and the extra objects.
func eMemStore(in *eInst) *memory.Storage {
	st := memory.NewStorage()
	ePut(st, "tree", nil, eEmptyTree)
	for _, o := range in.Extra {
		ePut(st, o.Type, o.Body, o.ID)
	}
	for i := 0; i < in.N; i++ {
		ePut(st, "commit", in.Raw[i], in.ID[i])
	}
	return st
}

func eCommits(st *memory.Storage, in *eInst) []*object.Commit {
	cs := make([]*object.Commit, in.N)
	for i := range cs {
		c, err := object.GetCommit(st, in.H[i])
		if err != nil {
			fw.Abort("cannot load commit %d of %v from the memory store: %v", i, in, err)
		}
		cs[i] = c
	}
	return cs
}

// eIdx maps hashes back to commit numbers (-1 unknown).
func (in *eInst) Idx(h plumbing.Hash) int {
	for i := range in.H {
		if in.H[i] == h {
			return i
		}
	}
	return -1
}

// eSafe runs f, converting a panic inside go-git into an error string.
func eSafe(f func()) (pan string) {
	defer func() {
		if r := recover(); r != nil {
			pan = fmt.Sprint(r)
		}
	}()
	f()
	return ""
}

// ---- git side: one repository, one fast-import, many instances ----

type eRepo struct {
	G     *fw.Git
	Dir   string
	Have  map[string]bool // commit ids present
	NObjs int
}

// eBuildRepo creates a bare repository containing the commits (deduplicated by
// id) and extra objects of all instances with ONE fast-import, then verifies
// that git gave every commit the id computed here.
func eBuildRepo(c *fw.Ctx, name string, insts []*eInst) *eRepo {
	g, dir := c.InitRepo(name, "sha1", true)
	var b bytes.Buffer
	marks := map[string]int{}
	next := 1
	blobMark := map[string]int{}
	// extra blobs first (trees are created through the commits' file lists by
	// the caller when needed; raw trees/tags are written with hash-object below)
	var looseExtra []eObj
	seenExtra := map[string]bool{}
	for _, in := range insts {
		for _, o := range in.Extra {
			if seenExtra[o.ID] {
				continue
			}
			seenExtra[o.ID] = true
			looseExtra = append(looseExtra, o)
		}
	}
	_ = blobMark
	// raw extra objects: fast-import cannot take raw trees, so write them via
	// `hash-object -w --stdin-paths -t <type>` in three batches.
	if len(looseExtra) > 0 {
		tmp := c.TempDir(name + "-extra")
		for _, typ := range []string{"blob", "tree", "tag"} {
			var paths bytes.Buffer
			var want []string
			k := 0
			for _, o := range looseExtra {
				if o.Type != typ {
					continue
				}
				p := filepath.Join(tmp, typ+strconv.Itoa(k))
				k++
				if err := os.WriteFile(p, o.Body, 0o644); err != nil {
					fw.Abort("write extra object: %v", err)
				}
				paths.WriteString(p + "\n")
				want = append(want, o.ID)
			}
			if k == 0 {
				continue
			}
			r := g.MustRunIn(paths.Bytes(), "hash-object", "-w", "-t", typ, "--literally", "--stdin-paths")
			got := strings.Fields(string(r.Out))
			if len(got) != len(want) {
				fw.Abort("hash-object wrote %d of %d %ss", len(got), len(want), typ)
			}
			for i := range got {
				if got[i] != want[i] {
					fw.Abort("git hashed an extra %s to %s, computed %s", typ, got[i], want[i])
				}
			}
		}
	}
	order := []string{}
	for _, in := range insts {
		for i := 0; i < in.N; i++ {
			if _, ok := marks[in.ID[i]]; ok {
				continue
			}
			marks[in.ID[i]] = next
			order = append(order, in.ID[i])
			b.WriteString("reset refs/verif/t\ncommit refs/verif/t\n")
			fmt.Fprintf(&b, "mark :%d\n", next)
			next++
			fmt.Fprintf(&b, "author A U Thor <author@example.com> %d +0000\n", in.ATime[i])
			fmt.Fprintf(&b, "committer C O Mitter <committer@example.com> %d +0000\n", in.Time[i])
			msg := fmt.Sprintf("c%d\n", i)
			fmt.Fprintf(&b, "data %d\n%s\n", len(msg), msg)
			for j, p := range in.Parents[i] {
				if j == 0 {
					fmt.Fprintf(&b, "from :%d\n", marks[in.ID[p]])
				} else {
					fmt.Fprintf(&b, "merge :%d\n", marks[in.ID[p]])
				}
			}
			if in.Tree[i] == eEmptyTree {
				b.WriteString("deleteall\n")
			} else {
				// root tree given by id: replace the whole tree with it
				fmt.Fprintf(&b, "M 040000 %s \"\"\n", in.Tree[i])
			}
			b.WriteString("\n")
		}
	}
	b.WriteString("done\n")
	marksFile := filepath.Join(c.TempDir(name+"-marks"), "marks")
	g.MustRunIn(b.Bytes(), "fast-import", "--quiet", "--done", "--date-format=raw", "--export-marks="+marksFile)
	g.MustRun("update-ref", "-d", "refs/verif/t")
	mb, err := os.ReadFile(marksFile)
	if err != nil {
		fw.Abort("fast-import marks: %v", err)
	}
	got := map[int]string{}
	for _, l := range strings.Split(strings.TrimSpace(string(mb)), "\n") {
		f := strings.Fields(l)
		if len(f) != 2 {
			continue
		}
		k, _ := strconv.Atoi(strings.TrimPrefix(f[0], ":"))
		got[k] = f[1]
	}
	have := map[string]bool{}
	for id, k := range marks {
		if got[k] != id {
			fw.Abort("commit id computed by the harness (%s) differs from the one git fast-import produced (%s)", id, got[k])
		}
		have[id] = true
	}
	return &eRepo{G: g, Dir: dir, Have: have, NObjs: len(order)}
}

// eLines splits git output into non-empty lines.
func eLines(b []byte) []string {
	var out []string
	for _, l := range strings.Split(string(b), "\n") {
		if l = strings.TrimSpace(l); l != "" {
			out = append(out, l)
		}
	}
	return out
}

// eIDs renders a mask as sorted commit numbers for messages.
func eNums(m uint32) string { return fmt.Sprint(eBits(m)) }

// eFailSet collects failures by class key; for each class it keeps the failing
// case with the smallest enumeration index (deterministic representative) and
// the number of failing cases. Report() turns each class into one c.Fail.
type eFailSet struct {
	mu sync.Mutex
	m  map[string]*eFailRec
}

type eFailRec struct {
	idx    int
	sub    string
	what   string
	replay map[string]any
	count  int
}

func eNewFailSet() *eFailSet { return &eFailSet{m: map[string]*eFailRec{}} }

// Add records a failing case of class key. idx is the enumeration index, sub a
// tie-breaker inside the instance (query text).
func (s *eFailSet) Add(key string, idx int, sub, what string, replay func() map[string]any) {
	s.mu.Lock()
	defer s.mu.Unlock()
	r, ok := s.m[key]
	if !ok {
		s.m[key] = &eFailRec{idx: idx, sub: sub, what: what, replay: replay(), count: 1}
		return
	}
	r.count++
	if idx < r.idx || (idx == r.idx && sub < r.sub) {
		r.idx, r.sub, r.what, r.replay = idx, sub, what, replay()
	}
}

func (s *eFailSet) Report(c *fw.Ctx) {
	var keys []string
	for k := range s.m {
		keys = append(keys, k)
	}
	sort.Strings(keys)
	for _, k := range keys {
		r := s.m[k]
		r.replay["failing_cases_in_class"] = r.count
		r.replay["enumeration_index"] = r.idx
		c.Fail(k, fmt.Sprintf("%s (smallest of %d failing cases: %s)", k, r.count, r.what), r.replay)
	}
}

// eTimeShape classifies the timestamp assignment of an instance restricted to
// the commits in mask: "mono" (every parent strictly older than its child),
// "tie" (some parent as old as its child, none newer), "inv" (some parent newer
// than its child).
func (in *eInst) TimeShape(mask uint32) string {
	shape := "mono"
	for _, i := range eBits(mask) {
		for _, p := range in.Parents[i] {
			if mask&(1<<p) == 0 {
				continue
			}
			if in.Ranks[p] > in.Ranks[i] {
				return "inv"
			}
			if in.Ranks[p] == in.Ranks[i] {
				shape = "tie"
			}
		}
	}
	return shape
}

func eAlways(int) bool { return true }

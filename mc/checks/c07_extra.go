package checks

import (
	"bytes"
	"encoding/hex"
	"fmt"
	"path/filepath"
	"strings"

	"github.com/go-git/go-billy/v6/osfs"
	"github.com/go-git/go-git/v6/plumbing/cache"
	"github.com/go-git/go-git/v6/storage/filesystem"

	"verifmc/fw"
)

// C07, second driver: object sets and source storages on the far side of the
// encoder's shortcuts that the first universe never reaches:
//   * deltas between objects above maxCopySize (64 KiB) and above the 3-byte
//     entry header (2^18): near-identical 70 KiB and 300 KiB blobs;
//   * reused deltas of commit and tag type (git deltifies them, go-git's own
//     selector only deltifies blobs and trees);
//   * tiny objects on both sides of the "msz <= 8" / 16-byte block shortcuts;
//   * an OFS_DELTA whose base lies more than 16384 bytes back (3-byte offset);
//   * a source pack made of OFS_DELTA entries (DeltaObject resolves the base by
//     offset) and a source made of loose objects;
//   * parts of a reused delta chain (bases missing in the middle).

func c07ExtraObjects(sha256fmt bool, core []c07Obj) (extra []c07Obj) {
	add := func(name, typ string, data []byte) c07Obj {
		o := c07Obj{name, typ, data, bOIDHex(sha256fmt, typ, data)}
		extra = append(extra, o)
		return o
	}
	byName := map[string]c07Obj{}
	for _, o := range core {
		byName[o.Name] = o
	}
	edit := func(b []byte, pos int, s string) []byte {
		out := append([]byte{}, b...)
		copy(out[pos:], s)
		return out
	}
	big := byName["big"].Data
	add("big2", "blob", edit(edit(big, 100, "<<first edit>>"), 69000, "<<an edit beyond 64 KiB>>"))
	huge := c07Text(5, 300*1024)
	add("huge", "blob", huge)
	add("huge2", "blob", append(edit(edit(huge, 70000, "<<edit>>"), 280000, "<<late edit>>"), "and a new tail\n"...))
	who := "A U Thor <author@example.com> 1700000000 +0000"
	who2 := "A U Thor <author@example.com> 1700000100 +0000"
	body := strings.Repeat("a long commit message line that both commits share\n", 8)
	t1 := byName["tree1"]
	k1 := add("commitA", "commit", []byte(fmt.Sprintf("tree %s\nauthor %s\ncommitter %s\n\n%s", t1.OID, who, who, body)))
	add("commitB", "commit", []byte(fmt.Sprintf("tree %s\nparent %s\nauthor %s\ncommitter %s\n\n%s", t1.OID, k1.OID, who2, who2, body)))
	add("tagA", "tag", []byte(fmt.Sprintf("object %s\ntype commit\ntag vA\ntagger %s\n\n%s", k1.OID, who, body)))
	add("tagB", "tag", []byte(fmt.Sprintf("object %s\ntype commit\ntag vB\ntagger %s\n\n%s", k1.OID, who2, body)))
	// two 12-entry trees differing in one entry (the 4-entry trees of the first
	// universe are too small for git to store one as a delta of the other)
	mkTree := func(changed int) []byte {
		var b bytes.Buffer
		blobs := []string{"a1", "a2", "c1", "empty"}
		for i := 0; i < 12; i++ {
			o := byName[blobs[i%len(blobs)]]
			if i == changed {
				o = byName["c2"]
			}
			id, _ := hex.DecodeString(o.OID)
			fmt.Fprintf(&b, "100644 file-%02d-with-a-rather-long-name.txt\x00", i)
			b.Write(id)
		}
		return b.Bytes()
	}
	add("treeA", "tree", mkTree(-1))
	add("treeB", "tree", mkTree(7))
	txt := "0123456789abcdefghijklmnopqrstuvwxyzABCDEFGHIJKLMNOPQRSTUVWXYZ"
	add("t1", "blob", []byte("x"))
	add("t16", "blob", []byte(txt[:16]))
	for _, n := range []int{17, 18, 19, 40} {
		add(fmt.Sprintf("t%da", n), "blob", []byte(txt[:n]))
		add(fmt.Sprintf("t%db", n), "blob", append([]byte(txt[:n-1]), '!'))
	}
	// far triple: the middle one is incompressible, so the base of far2 lies
	// more than 16384 bytes before it
	far := c07Text(6, 21*1024)
	add("far1", "blob", far)
	mid := make([]byte, 20*1024)
	x := uint32(2463534242)
	for i := range mid {
		x ^= x << 13
		x ^= x >> 17
		x ^= x << 5
		mid[i] = byte(x >> 11)
	}
	add("mid", "blob", mid)
	add("far2", "blob", far[:19*1024])
	return extra
}

func c07SetupExtra(c *fw.Ctx, env *c07Env, ids []string) {
	_, env.packedOfs = c.InitRepo("c07packedofs-"+bFmtName(env.sha256), bFmtName(env.sha256), true)
	for _, o := range env.all {
		sub := filepath.Join("objects", o.OID[:2], o.OID[2:])
		bWriteFile(filepath.Join(env.packedOfs, sub), bReadFile(filepath.Join(env.dir, sub)))
	}
	gp := env.g.In(env.packedOfs)
	gp.C("pack.threads=1").MustRunIn([]byte(strings.Join(ids, "\n")+"\n"), "pack-objects", "-q", "--delta-base-offset", "--window=10", "--depth=50", filepath.Join(env.packedOfs, "objects/pack/pack"))
	gp.MustRun("prune-packed", "-q")
	if cnt := gp.MustRun("count-objects", "-v").S(); !strings.Contains(cnt, "count: 0") {
		fw.Abort("C07 set-up: loose objects remain in the OFS packed twin: %s", cnt)
	}
	// the set-up must really give what the driver claims: OFS_DELTA entries
	// here, REF_DELTA entries in the first twin, and deltas of every type
	for _, d := range []struct {
		dir  string
		want int
	}{{env.packed, bTRef}, {env.packedOfs, bTOfs}} {
		packs, _ := filepath.Glob(filepath.Join(d.dir, "objects/pack/*.pack"))
		if len(packs) != 1 {
			fw.Abort("C07 set-up: %d packs in %s", len(packs), d.dir)
		}
		ents, err := bReadPack(bReadFile(packs[0]), env.sha256, nil)
		if err != nil {
			fw.Abort("C07 set-up: cannot read git's pack: %v", err)
		}
		kinds := map[int]int{}
		deltaOf := map[string]int{}
		for _, e := range ents {
			kinds[e.Type]++
			if e.Type >= 6 {
				deltaOf[e.RType]++
			}
		}
		other := bTOfs + bTRef - d.want
		if kinds[d.want] == 0 || kinds[other] != 0 {
			fw.Abort("C07 set-up: source pack in %s has %d OFS and %d REF deltas", d.dir, kinds[bTOfs], kinds[bTRef])
		}
		for _, t := range []string{"blob", "tree", "commit", "tag"} {
			if deltaOf[t] == 0 {
				fw.Abort("C07 set-up: git stored no %s as a delta in the source pack (%v)", t, deltaOf)
			}
		}
	}
	env.fsOfs.New = func() any {
		return filesystem.NewStorageWithOptions(osfs.New(env.packedOfs), cache.NewObjectLRU(8*cache.MiByte), filesystem.Options{})
	}
	env.fsLoose.New = func() any {
		return filesystem.NewStorageWithOptions(osfs.New(env.dir), cache.NewObjectLRU(8*cache.MiByte), filesystem.Options{})
	}
}

func c07ExtraRequests(env *c07Env, thorough bool) (reqs [][]c07Obj) {
	byName := map[string]c07Obj{}
	for _, o := range env.all {
		byName[o.Name] = o
	}
	pick := func(names ...string) []c07Obj {
		var r []c07Obj
		for _, n := range names {
			o, ok := byName[n]
			if !ok {
				fw.Abort("C07: no object %q", n)
			}
			r = append(r, o)
		}
		return r
	}
	reqs = append(reqs,
		pick("big", "big2"), pick("huge", "huge2"), pick("huge2"), pick("huge", "big", "huge2", "big2"),
		pick("commitA", "commitB"), pick("commitB"), pick("tagA", "tagB"), pick("tagB"), pick("tagA"),
		pick("treeA", "treeB"), pick("treeB"), pick("treeA"),
		pick("commit", "commitA", "commitB", "tag", "tagA", "tagB", "tree1", "tree2", "treeA", "treeB"),
		pick("far1", "mid", "far2"), pick("far2", "mid", "far1"), pick("far2"),
		pick("t1", "t16", "t17a", "t17b", "t18a", "t18b", "t19a", "t19b", "t40a", "t40b"))
	reqs = append(reqs, pick("t17a", "t17b"), pick("t18a", "t18b"), pick("t40a", "t40b"), pick("t16", "t17a"), pick("t17a"), pick("t18b"))
	tiny := pick("t16", "t17a", "t17b", "t18a", "t18b", "t40a", "t40b")
	for _, sub := range fw.Subsets(len(tiny), 2) {
		if len(sub) == 0 || !thorough { // quick: the six requests above
			continue
		}
		var r []c07Obj
		for _, i := range sub {
			r = append(r, tiny[i])
		}
		reqs = append(reqs, r)
	}
	chain := env.all[env.nCore : env.nCore+env.nChain]
	reqs = append(reqs, chain[10:30], chain[:52])
	if thorough {
		reqs = append(reqs, chain[5:])
	}
	var odd, holed []c07Obj
	for i, o := range chain {
		if i%2 == 1 {
			odd = append(odd, o)
		}
		if i%10 != 4 {
			holed = append(holed, o)
		}
	}
	reqs = append(reqs, odd, holed, env.all)
	return reqs
}

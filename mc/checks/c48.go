package checks

import (
	"bytes"
	"fmt"
	"os"
	"path/filepath"
	"regexp"
	"sort"
	"strings"
	"sync"
	"sync/atomic"
	"unicode/utf8"

	gogitcfg "github.com/go-git/go-git/v6/config"
	format "github.com/go-git/go-git/v6/plumbing/format/config"

	"verifmc/fw"
)

// C48: configuration files mean the same to go-git and git.
//
//	P1 raw decoding: generated files -> format.Decoder vs `git config --list --null`
//	   (only files git itself parses; git is the judge).
//	P2 interpretation: boolean / integer spellings of the settings go-git
//	   interprets vs `git config --type=bool|int`.
//	P3 writing: generated Config values -> Marshal -> read back by git and by go-git.

func init() {
	fw.Register(&fw.Check{ID: "C48", Level: "exploration", Run: runC48, QuickBudget: 100, ThoroughBudget: 1200})
}

var c48BadFile = regexp.MustCompile(`bad config line \d+ in file (\S+)`)

// c48GitList parses many files with one git process (an include chain with
// --show-origin). A file git refuses is reported as !accepted and the batch is
// re-run without it.
func c48GitList(c *fw.Ctx, g *fw.Git, dir string, files []string) (map[string][]gitCfgEntry, map[string]bool) {
	out := map[string][]gitCfgEntry{}
	rejected := map[string]bool{}
	cur := append([]string{}, files...)
	for round := 0; ; round++ {
		if len(cur) == 0 {
			return out, rejected
		}
		var m bytes.Buffer
		m.WriteString("[include]\n")
		for _, f := range cur {
			fmt.Fprintf(&m, "\tpath = %s\n", f)
		}
		master := filepath.Join(dir, fmt.Sprintf("master-%d", round))
		c.Must(os.WriteFile(master, m.Bytes(), 0o644), "write master")
		r := g.Run("config", "--file", master, "--includes", "--list", "--null", "--show-origin")
		if r.Code != 0 {
			mm := c48BadFile.FindSubmatch(r.Err)
			if mm == nil {
				fw.Abort("git config --list failed unexpectedly: %s", r.Err)
			}
			bad := string(mm[1])
			rejected[bad] = true
			var nx []string
			for _, f := range cur {
				if f != bad {
					nx = append(nx, f)
				}
			}
			if len(nx) == len(cur) {
				fw.Abort("git config names an unknown bad file %q: %s", bad, r.Err)
			}
			cur = nx
			continue
		}
		f := bytes.Split(r.Out, []byte{0})
		if len(f) > 0 && len(f[len(f)-1]) == 0 {
			f = f[:len(f)-1]
		}
		if len(f)%2 != 0 {
			fw.Abort("git config --show-origin --null: odd field count %d", len(f))
		}
		for _, p := range cur {
			out[p] = nil
		}
		for i := 0; i < len(f); i += 2 {
			origin := strings.TrimPrefix(string(f[i]), "file:")
			if origin == master {
				continue
			}
			if _, ok := out[origin]; !ok {
				fw.Abort("git config reports unknown origin %q", origin)
			}
			e := gitCfgEntry{}
			if nl := bytes.IndexByte(f[i+1], '\n'); nl >= 0 {
				e.Key, e.Value, e.HasValue = string(f[i+1][:nl]), string(f[i+1][nl+1:]), true
			} else {
				e.Key = string(f[i+1])
			}
			out[origin] = append(out[origin], e)
		}
		return out, rejected
	}
}

// c48GoGitEntries flattens a decoded format.Config the way `git config --list`
// names variables: section and key lower-cased, subsection verbatim.
func c48GoGitEntries(cfg *format.Config) []gitCfgEntry {
	var es []gitCfgEntry
	for _, s := range cfg.Sections {
		sec := strings.ToLower(s.Name)
		for _, o := range s.Options {
			es = append(es, gitCfgEntry{Key: sec + "." + strings.ToLower(o.Key), Value: o.Value, HasValue: true})
		}
		for _, ss := range s.Subsections {
			for _, o := range ss.Options {
				es = append(es, gitCfgEntry{Key: sec + "." + ss.Name + "." + strings.ToLower(o.Key), Value: o.Value, HasValue: true})
			}
		}
	}
	return es
}

func c48Decode(data []byte) (es []gitCfgEntry, err error, panicked any) {
	defer func() {
		if r := recover(); r != nil {
			panicked = r
		}
	}()
	cfg := format.New()
	if err := format.NewDecoder(bytes.NewReader(data)).Decode(cfg); err != nil {
		return nil, err, nil
	}
	return c48GoGitEntries(cfg), nil, nil
}

// comparison classes
const (
	c48NotRun      = 0
	c48GitRejects  = 1
	c48Agree       = 2
	c48GoGitError  = 3 // git parses the file, go-git returns an error
	c48KeysDiffer  = 4 // the sets of variable names differ
	c48ValsDiffer  = 5 // same variables, different ordered values
	c48GoGitPanics = 6
)

var c48ClassName = map[int]string{3: "go-git fails to read a file git accepts", 4: "go-git and git see different variables", 5: "go-git and git see different values", 6: "go-git panics"}

// c48Compare: a valueless key (git: no value, i.e. boolean true) is compared as
// the empty string here because format.Option cannot express it; its boolean
// meaning is judged in P2.
func c48Compare(git []gitCfgEntry, gg []gitCfgEntry) int {
	mg, mo := map[string][]string{}, map[string][]string{}
	for _, e := range git {
		mg[e.Key] = append(mg[e.Key], e.Value)
	}
	for _, e := range gg {
		mo[e.Key] = append(mo[e.Key], e.Value)
	}
	if len(mg) != len(mo) {
		return c48KeysDiffer
	}
	for k := range mg {
		if _, ok := mo[k]; !ok {
			return c48KeysDiffer
		}
	}
	for k, v := range mg {
		if !eqStrs(v, mo[k]) {
			return c48ValsDiffer
		}
	}
	return c48Agree
}

func c48SeqIndex(k int, seq []int) int {
	idx := fw.CountStrings(k, len(seq)-1)
	if len(seq) == 0 {
		return 0
	}
	v := 0
	for _, x := range seq {
		v = v*k + x
	}
	return idx + v
}

func runC48(c *fw.Ctx) {
	g := c.GitHome()
	c.SetRule("P1: files = one of 3 section headers + every body of <= max_body_tokens tokens, and `[s] k =` + every value body (keys, '=', values, quotes, escapes, continuation, comments, blanks, tabs, newlines, a second header); files git refuses are outside the property; go-git's format.Decoder result is compared with `git config --list --null` as variable -> ordered values; P2: every boolean/integer setting go-git interprets x every spelling, against `git config --type=bool|int`; P3: generated Config values -> Marshal -> `git config --list` and go-git ReadConfig; a case is non-trivial when git reports at least one variable; distinct = (part, comparison class, variables, value shape) classes")
	c.Assume("git 2.39.5 is the judge of which files are valid; includes are excluded from the generated files (they are only the batching vehicle: git parses an included file with the same parser); a transcription of git's parser predicts acceptance for batching only and is replayed against real git on the small space; a valueless key is compared as an empty value in P1 (format.Option cannot express it) and by meaning in P2")

	if os.Getenv("S13_ONLY_NEW") == "" { // development aid: skip the unchanged parts
		c48P1(c, g)
		c48P2(c, g)
	}
	c48P3(c, g)
	c48More(c, g)
}

// ---------------------------------------------------------------- P1

func c48P1(c *fw.Ctx, g *fw.Git) {
	// prefixes 0-2: a section header, then a free body (structure); prefix 3: a
	// key and '=' are given and the body explores value syntax.
	headers := []string{"[s \"X\"]\n", "[s]\n", "[s.X]\n", "[s]\n\tk ="}
	// token order = simplicity rank for minimisation
	tokens := []string{"k", "=", "v", "\n", " ", "K", "\t", "\"", "#c", ";c", "\\\"", "\\\\", "\\n", "\\\n", "[S]", "\\t"}
	maxBody := []int{c.Pick(3, 4), c.Pick(3, 4), c.Pick(3, 4), c.Pick(4, 5)}
	confReject := c.Pick(2, 3)
	c.Bound("p1_headers", headers)
	c.Bound("p1_body_tokens", tokens)
	c.Bound("p1_max_body_tokens_per_header", maxBody)
	c.Bound("p1_model_rejection_conformance_max_tokens", confReject)
	k := len(tokens)
	content := func(h int, seq []int) []byte {
		var b bytes.Buffer
		b.WriteString(headers[h])
		for _, t := range seq {
			b.WriteString(tokens[t])
		}
		return b.Bytes()
	}
	results := make([][]uint8, len(headers))
	var nGitRejects, nModelOptimistic, nModelRejectGoGitAccepts atomic.Int64
	const chunk = 1024
	var suspects sync.Mutex
	var suspectFiles [][]byte

	// evalFiles compares a list of files (already known to be model-accepted or
	// to be checked individually) and returns their classes.
	evalBatch := func(datas [][]byte) []uint8 {
		dir := c.TempDir("c48-p1")
		defer os.RemoveAll(dir)
		files := make([]string, len(datas))
		for i, d := range datas {
			files[i] = filepath.Join(dir, fmt.Sprintf("f%d", i))
			c.Must(os.WriteFile(files[i], d, 0o644), "write case")
		}
		got, rej := c48GitList(c, g, dir, files)
		out := make([]uint8, len(datas))
		for i, f := range files {
			if rej[f] {
				out[i] = c48GitRejects
				continue
			}
			es, err, pv := c48Decode(datas[i])
			switch {
			case pv != nil:
				out[i] = c48GoGitPanics
			case err != nil:
				out[i] = c48GoGitError
			default:
				out[i] = uint8(c48Compare(got[f], es))
			}
			if len(got[f]) > 0 {
				shape := ""
				for _, e := range got[f] {
					shape += e.Key + ":"
					for _, ch := range []string{" ", "\t", "\n", "\"", "\\", "#", ";"} {
						if strings.Contains(e.Value, ch) {
							shape += ch
						}
					}
					if !e.HasValue {
						shape += "<novalue>"
					}
					shape += ","
				}
				c.Class(fmt.Sprintf("P1|%d|%s", out[i], shape))
			}
		}
		return out
	}

	for h := range headers {
		n := fw.CountStrings(k, maxBody[h])
		results[h] = make([]uint8, n)
		h := h
		c.ParDo((n+chunk-1)/chunk, 0, func(ci int) {
			var datas [][]byte
			var idxs []int
			for i := ci * chunk; i < (ci+1)*chunk && i < n; i++ {
				seq := c41SeqAt(k, i)
				d := content(h, seq)
				c.Eval()
				if _, ok := gitCfgModel(d); !ok {
					results[h][i] = c48GitRejects
					nGitRejects.Add(1)
					if _, err, pv := c48Decode(d); err == nil && pv == nil {
						if nModelRejectGoGitAccepts.Add(1) <= 5000 {
							suspects.Lock()
							suspectFiles = append(suspectFiles, d)
							suspects.Unlock()
						}
					}
					continue
				}
				datas = append(datas, d)
				idxs = append(idxs, i)
			}
			cls := evalBatch(datas)
			for j, i := range idxs {
				results[h][i] = cls[j]
				if cls[j] == c48GitRejects {
					nModelOptimistic.Add(1)
					nGitRejects.Add(1)
				}
				if i%5003 == 7 {
					c.Sample(map[string]any{"part": "P1", "file": string(datas[j]), "class": cls[j]})
				}
			}
		})
	}
	c.Extra("p1_files_git_rejects", nGitRejects.Load())
	c.Extra("p1_model_accepts_but_git_rejects", nModelOptimistic.Load())
	c.Extra("p1_model_rejects_but_gogit_accepts", nModelRejectGoGitAccepts.Load())

	// files the model rejects but go-git accepts are where a wrong model would
	// hide most: each goes to real git on its own (first 5000).
	c.ParDo(len(suspectFiles), 0, func(i int) {
		dir := c.TempDir("c48-susp")
		defer os.RemoveAll(dir)
		f := filepath.Join(dir, "f")
		c.Must(os.WriteFile(f, suspectFiles[i], 0o644), "write")
		if r := g.Run("config", "--file", f, "--list", "--null"); r.Code == 0 {
			fw.Abort("config parser model rejects a file real git accepts: %q", suspectFiles[i])
		}
	})
	c.Extra("p1_model_rejections_confirmed_by_git", len(suspectFiles))

	// conformance of the model's rejections: on the small space every file the
	// model rejects is given to real git on its own.
	for h := range headers {
		h := h
		n := fw.CountStrings(k, confReject)
		c.ParDo(n, 0, func(i int) {
			d := content(h, c41SeqAt(k, i))
			if _, ok := gitCfgModel(d); ok {
				return
			}
			dir := c.TempDir("c48-conf")
			defer os.RemoveAll(dir)
			f := filepath.Join(dir, "f")
			c.Must(os.WriteFile(f, d, 0o644), "write")
			if r := g.Run("config", "--file", f, "--list", "--null"); r.Code == 0 {
				fw.Abort("config parser model rejects a file real git accepts: %q", d)
			}
		})
	}

	// report: minimise inside the enumerated space
	single := func(h int, seq []int) uint8 {
		if len(seq) <= maxBody[h] {
			if r := results[h][c48SeqIndex(k, seq)]; r != c48NotRun {
				return r
			}
		}
		d := content(h, seq)
		if _, ok := gitCfgModel(d); !ok {
			return c48GitRejects
		}
		return evalBatch([][]byte{d})[0]
	}
	type found struct {
		h   int
		seq []int
		cls uint8
	}
	var fs []found
	for h := range headers {
		for i, r := range results[h] {
			if r >= c48GoGitError {
				fs = append(fs, found{h, c41SeqAt(k, i), r})
			}
		}
	}
	c.Extra("p1_files_with_a_disagreement", len(fs))
	seen := map[string]bool{}
	memo := map[string]uint8{}
	msingle := func(h int, seq []int) uint8 {
		key := fmt.Sprint(h, seq)
		if v, ok := memo[key]; ok {
			return v
		}
		v := single(h, seq)
		memo[key] = v
		return v
	}
	for _, f := range fs {
		min := fw.MinSeq(f.seq, func(x int) []int {
			var lower []int
			for l := 0; l < x; l++ {
				lower = append(lower, l)
			}
			return lower
		}, func(s []int) bool { return msingle(f.h, s) == f.cls })
		// prefer the simplest header that still fails the same way
		hh := f.h
		if (hh == 0 || hh == 2) && msingle(1, min) == f.cls {
			hh = 1
		}
		if hh == 3 { // express the case under the plain "[s]" header when it fails the same way there
			cand := append([]int{0, 1}, min...) // tokens "k", "="
			if msingle(1, cand) == f.cls {
				hh = 1
				min = fw.MinSeq(cand, func(x int) []int {
					var lower []int
					for l := 0; l < x; l++ {
						lower = append(lower, l)
					}
					return lower
				}, func(s []int) bool { return msingle(1, s) == f.cls })
			}
		}
		data := content(hh, min)
		key := fmt.Sprintf("P1 %s: %s", c48ClassName[int(f.cls)], fw.Q(string(data)))
		if seen[key] {
			c.Fail(key, "", nil)
			continue
		}
		seen[key] = true
		ges, _ := gitCfgModel(data)
		oes, err, pv := c48Decode(data)
		c.Fail(key, fmt.Sprintf("%s (minimised from %s)", key, fw.Q(string(content(f.h, f.seq)))),
			map[string]any{"file": string(content(f.h, f.seq)), "minimal_file": string(data), "git_model_entries": ges, "gogit_entries": oes, "gogit_error": fmt.Sprint(err), "panic": fmt.Sprint(pv)})
	}
}

// ---------------------------------------------------------------- P2

type c48BoolField struct {
	name string
	text func(assign string) string // config text with the setting written as `key<assign>`
	get  func(cfg *gogitcfg.Config) string
}

func c48OptBool(o gogitcfg.OptBool) string {
	if !o.IsSet() {
		return "unset"
	}
	return fmt.Sprint(o.IsTrue())
}

func c48P2(c *fw.Ctx, g *fw.Git) {
	spellings := []string{"true", "false", "yes", "no", "on", "off", "1", "0", "TRUE", "True", "False", "YES", "On", "oFF", "2", "-1", "00", "t", "f", "T", "F", "", "<valueless>", "tru", "1k", "0x1", "y", "n"}
	c.Bound("p2_bool_spellings", spellings)
	sec := func(section, key string) func(string) string {
		return func(assign string) string { return "[" + section + "]\n\t" + key + assign + "\n" }
	}
	remote := func(key string) func(string) string {
		return func(assign string) string { return "[remote \"o\"]\n\turl = https://example.com/r\n\t" + key + assign + "\n" }
	}
	fields := []c48BoolField{
		{"core.bare", sec("core", "bare"), func(x *gogitcfg.Config) string { return fmt.Sprint(x.Core.IsBare) }},
		{"core.filemode", sec("core", "filemode"), func(x *gogitcfg.Config) string { return fmt.Sprint(x.Core.FileMode) }},
		{"core.protectNTFS", sec("core", "protectNTFS"), func(x *gogitcfg.Config) string { return c48OptBool(x.Core.ProtectNTFS) }},
		{"core.protectHFS", sec("core", "protectHFS"), func(x *gogitcfg.Config) string { return c48OptBool(x.Core.ProtectHFS) }},
		{"tag.gpgSign", sec("tag", "gpgSign"), func(x *gogitcfg.Config) string { return c48OptBool(x.Tag.GpgSign) }},
		{"commit.gpgSign", sec("commit", "gpgSign"), func(x *gogitcfg.Config) string { return c48OptBool(x.Commit.GpgSign) }},
		{"index.skipHash", sec("index", "skipHash"), func(x *gogitcfg.Config) string { return c48OptBool(x.Index.SkipHash) }},
		{"uploadArchive.allowUnreachable", sec("uploadArchive", "allowUnreachable"), func(x *gogitcfg.Config) string { return c48OptBool(x.UploadArchive.AllowUnreachable) }},
		{"extensions.worktreeConfig", sec("extensions", "worktreeConfig"), func(x *gogitcfg.Config) string { return fmt.Sprint(x.Extensions.WorktreeConfig) }},
		{"pack.readReverseIndex", sec("pack", "readReverseIndex"), func(x *gogitcfg.Config) string { return fmt.Sprint(x.Pack.ReadReverseIndex) }},
		{"pack.writeReverseIndex", sec("pack", "writeReverseIndex"), func(x *gogitcfg.Config) string { return fmt.Sprint(x.Pack.WriteReverseIndex) }},
		{"remote.<name>.mirror", remote("mirror"), func(x *gogitcfg.Config) string {
			if r := x.Remotes["o"]; r != nil {
				return fmt.Sprint(r.Mirror)
			}
			return "no remote"
		}},
		{"remote.<name>.promisor", remote("promisor"), func(x *gogitcfg.Config) string {
			if r := x.Remotes["o"]; r != nil {
				return fmt.Sprint(r.Promisor)
			}
			return "no remote"
		}},
	}
	var fnames []string
	for _, f := range fields {
		fnames = append(fnames, f.name)
	}
	c.Bound("p2_bool_fields", fnames)
	assignOf := func(sp string) string {
		if sp == "<valueless>" {
			return ""
		}
		return " = " + sp
	}
	dir := c.TempDir("c48-p2")
	// git's interpretation of each spelling (the same function, git_config_bool, for every one of these variables)
	gitBool := make([]string, len(spellings)) // "true" | "false" | "" (git refuses)
	c.ParDo(len(spellings), 0, func(i int) {
		f := filepath.Join(dir, fmt.Sprintf("b%d", i))
		c.Must(os.WriteFile(f, []byte("[x]\n\tv"+assignOf(spellings[i])+"\n"), 0o644), "write")
		r := g.Run("config", "--file", f, "--type=bool", "--get", "x.v")
		switch {
		case r.Code == 0 && (r.S() == "true" || r.S() == "false"):
			gitBool[i] = r.S()
		case r.Code == 128:
			gitBool[i] = ""
		default:
			fw.Abort("git config --type=bool for %q: exit %d out %q err %s", spellings[i], r.Code, r.Out, r.Err)
		}
	})
	if c.Expired() {
		return
	}
	for _, f := range fields {
		var diffs []string
		detail := map[string]any{}
		for i, sp := range spellings {
			if gitBool[i] == "" {
				continue // git itself refuses this value
			}
			c.Eval()
			got := ""
			func() {
				defer func() {
					if r := recover(); r != nil {
						got = fmt.Sprintf("panic: %v", r)
					}
				}()
				cfg := gogitcfg.NewConfig()
				if err := cfg.Unmarshal([]byte(f.text(assignOf(sp)))); err != nil {
					got = "error: " + err.Error()
					return
				}
				got = f.get(cfg)
			}()
			c.Class(fmt.Sprintf("P2|%s|%s|%s", f.name, gitBool[i], got))
			if got != gitBool[i] {
				diffs = append(diffs, sp)
				detail[sp] = map[string]string{"git": gitBool[i], "go-git": got}
			}
		}
		if len(diffs) > 0 {
			key := fmt.Sprintf("P2 bool %s: go-git differs from git for the spellings %q", f.name, diffs)
			c.Fail(key, key, map[string]any{"field": f.name, "spellings": detail})
		}
	}

	// integers: pack.window
	ints := []string{"0", "1", "10", "007", "+5", "1k", "1K", "2m", "1g", "0x10", "010", "4294967295"}
	c.Bound("p2_int_spellings_pack.window", ints)
	gitInt := make([]string, len(ints))
	c.ParDo(len(ints), 0, func(i int) {
		f := filepath.Join(dir, fmt.Sprintf("i%d", i))
		c.Must(os.WriteFile(f, []byte("[pack]\n\twindow = "+ints[i]+"\n"), 0o644), "write")
		r := g.Run("config", "--file", f, "--type=int", "--get", "pack.window")
		if r.Code == 0 {
			gitInt[i] = r.S()
		} else if r.Code != 128 {
			fw.Abort("git config --type=int for %q: exit %d err %s", ints[i], r.Code, r.Err)
		}
	})
	if c.Expired() {
		return
	}
	var diffs []string
	detail := map[string]any{}
	for i, sp := range ints {
		if gitInt[i] == "" || strings.HasPrefix(gitInt[i], "-") {
			continue
		}
		c.Eval()
		got := ""
		func() {
			defer func() {
				if r := recover(); r != nil {
					got = fmt.Sprintf("panic: %v", r)
				}
			}()
			cfg := gogitcfg.NewConfig()
			if err := cfg.Unmarshal([]byte("[pack]\n\twindow = " + sp + "\n")); err != nil {
				got = "error: " + err.Error()
				return
			}
			got = fmt.Sprint(cfg.Pack.Window)
		}()
		c.Class(fmt.Sprintf("P2|pack.window|%s|%s", gitInt[i], got))
		if got != gitInt[i] {
			diffs = append(diffs, sp)
			detail[sp] = map[string]string{"git": gitInt[i], "go-git": got}
		}
	}
	if len(diffs) > 0 {
		key := fmt.Sprintf("P2 int pack.window: go-git differs from git for the spellings %q", diffs)
		c.Fail(key, key, map[string]any{"field": "pack.window", "spellings": detail})
	}
}

// ---------------------------------------------------------------- P3

type c48Setter struct {
	name   string
	sub    string // "" | remote | branch | submodule | url : kind of subsection name used
	gitKey func(sub string) string
	set    func(cfg *gogitcfg.Config, sub, v string)
	get    func(cfg *gogitcfg.Config, sub string) []string
}

func c48P3(c *fw.Ctx, g *fw.Git) {
	values := []string{"v", "a b", " lead", "trail ", "a#b", "a;b", "a\"b", "a\\b", "a\tb", "a\nb", "a\bb", "ä", "a=b", "[x]", "a\\", "\"", "a  b", "#", "a\\nb", "'q'",
		// bytes an escaping routine built on Go's %q / strconv.Quote / unicode.IsPrint would rewrite:
		// non-UTF-8, control bytes, DEL, non-printable code points, astral runes
		"\xe9", "a\xe9b", "\xff\xfe", "\u00a0", "a\u200bb", "\x01", "a\x1bb", "\x7f", "a\vb", "\f", "\U0001F600", "\tlead", "trail\t", "a\\\"b", strings.Repeat("long ", 900)}
	odd := []string{"\xe9", "a\xe9b", "\u00a0", "a\u200bb", "\x01", "a\x7fb", "a\tb", "ä", "\U0001F600", "a\\\"b", "a\x1b[mb"}
	subNames := map[string][]string{
		"":          {""},
		"remote":    append([]string{"o", "a.b", "a\"b", "A"}, odd...),
		"branch":    append([]string{"m", "a.b", "a\"b", "f/x"}, odd...),
		"submodule": append([]string{"m", "a b", "a\"b", "a\\b", "a]b", "a.b"}, odd...),
		"url":       append([]string{"https://x/", "a b", "a\"b", "a\\b", "a]b", "a#b"}, odd...),
	}
	c.Bound("p3_values", values)
	c.Bound("p3_subsection_names", subNames)
	simple := func(name, key string, set func(*gogitcfg.Config, string), get func(*gogitcfg.Config) string) c48Setter {
		return c48Setter{name: name, gitKey: func(string) string { return key },
			set: func(x *gogitcfg.Config, _ string, v string) { set(x, v) },
			get: func(x *gogitcfg.Config, _ string) []string { return []string{get(x)} }}
	}
	remoteOf := func(x *gogitcfg.Config, n string) *gogitcfg.RemoteConfig {
		if x.Remotes[n] == nil {
			x.Remotes[n] = &gogitcfg.RemoteConfig{Name: n, URLs: []string{"https://example.com/r"}}
		}
		return x.Remotes[n]
	}
	branchOf := func(x *gogitcfg.Config, n string) *gogitcfg.Branch {
		if x.Branches[n] == nil {
			x.Branches[n] = &gogitcfg.Branch{Name: n}
		}
		return x.Branches[n]
	}
	subOf := func(x *gogitcfg.Config, n string) *gogitcfg.Submodule {
		if x.Submodules[n] == nil {
			x.Submodules[n] = &gogitcfg.Submodule{Name: n, Path: "p", URL: "https://example.com/s"}
		}
		return x.Submodules[n]
	}
	setters := []c48Setter{
		simple("User.Name", "user.name", func(x *gogitcfg.Config, v string) { x.User.Name = v }, func(x *gogitcfg.Config) string { return x.User.Name }),
		simple("User.Email", "user.email", func(x *gogitcfg.Config, v string) { x.User.Email = v }, func(x *gogitcfg.Config) string { return x.User.Email }),
		simple("User.SigningKey", "user.signingkey", func(x *gogitcfg.Config, v string) { x.User.SigningKey = v }, func(x *gogitcfg.Config) string { return x.User.SigningKey }),
		simple("Author.Name", "author.name", func(x *gogitcfg.Config, v string) { x.Author.Name = v }, func(x *gogitcfg.Config) string { return x.Author.Name }),
		simple("Committer.Email", "committer.email", func(x *gogitcfg.Config, v string) { x.Committer.Email = v }, func(x *gogitcfg.Config) string { return x.Committer.Email }),
		simple("Core.Worktree", "core.worktree", func(x *gogitcfg.Config, v string) { x.Core.Worktree = v }, func(x *gogitcfg.Config) string { return x.Core.Worktree }),
		simple("Core.HooksPath", "core.hookspath", func(x *gogitcfg.Config, v string) { x.Core.HooksPath = v }, func(x *gogitcfg.Config) string { return x.Core.HooksPath }),
		simple("Init.DefaultBranch", "init.defaultbranch", func(x *gogitcfg.Config, v string) { x.Init.DefaultBranch = v }, func(x *gogitcfg.Config) string { return x.Init.DefaultBranch }),
		simple("GPG.Format", "gpg.format", func(x *gogitcfg.Config, v string) { x.GPG.Format = v }, func(x *gogitcfg.Config) string { return x.GPG.Format }),
		simple("GPG.SSH.AllowedSignersFile", "gpg.ssh.allowedsignersfile", func(x *gogitcfg.Config, v string) { x.GPG.SSH.AllowedSignersFile = v }, func(x *gogitcfg.Config) string { return x.GPG.SSH.AllowedSignersFile }),
		{name: "Remote.URLs", sub: "remote", gitKey: func(s string) string { return "remote." + s + ".url" },
			set: func(x *gogitcfg.Config, s, v string) { remoteOf(x, s).URLs = []string{v, "second"} },
			get: func(x *gogitcfg.Config, s string) []string {
				if x.Remotes[s] == nil {
					return nil
				}
				return x.Remotes[s].URLs
			}},
		{name: "Remote.PartialCloneFilter", sub: "remote", gitKey: func(s string) string { return "remote." + s + ".partialclonefilter" },
			set: func(x *gogitcfg.Config, s, v string) { remoteOf(x, s).PartialCloneFilter = v },
			get: func(x *gogitcfg.Config, s string) []string {
				if x.Remotes[s] == nil {
					return nil
				}
				return []string{x.Remotes[s].PartialCloneFilter}
			}},
		{name: "Branch.Remote", sub: "branch", gitKey: func(s string) string { return "branch." + s + ".remote" },
			set: func(x *gogitcfg.Config, s, v string) { branchOf(x, s).Remote = v },
			get: func(x *gogitcfg.Config, s string) []string {
				if x.Branches[s] == nil {
					return nil
				}
				return []string{x.Branches[s].Remote}
			}},
		{name: "Branch.Description", sub: "branch", gitKey: func(s string) string { return "branch." + s + ".description" },
			set: func(x *gogitcfg.Config, s, v string) { branchOf(x, s).Description = v },
			get: func(x *gogitcfg.Config, s string) []string {
				if x.Branches[s] == nil {
					return nil
				}
				return []string{x.Branches[s].Description}
			}},
		{name: "Submodule.URL", sub: "submodule", gitKey: func(s string) string { return "submodule." + s + ".url" },
			set: func(x *gogitcfg.Config, s, v string) { subOf(x, s).URL = v },
			get: func(x *gogitcfg.Config, s string) []string {
				if x.Submodules[s] == nil {
					return nil
				}
				return []string{x.Submodules[s].URL}
			}},
		{name: "Submodule.Branch", sub: "submodule", gitKey: func(s string) string { return "submodule." + s + ".branch" },
			set: func(x *gogitcfg.Config, s, v string) { subOf(x, s).Branch = v },
			get: func(x *gogitcfg.Config, s string) []string {
				if x.Submodules[s] == nil {
					return nil
				}
				return []string{x.Submodules[s].Branch}
			}},
		{name: "URL.InsteadOfs", sub: "url", gitKey: func(s string) string { return "url." + s + ".insteadof" },
			set: func(x *gogitcfg.Config, s, v string) {
				x.URLs = append(x.URLs, &gogitcfg.URL{Name: s, InsteadOfs: []string{v, "other"}})
			},
			get: func(x *gogitcfg.Config, s string) []string {
				for _, u := range x.URLs {
					if u.Name == s {
						return u.InsteadOfs
					}
				}
				return nil
			}},
	}
	var snames []string
	for _, s := range setters {
		snames = append(snames, s.name)
	}
	c.Bound("p3_fields", snames)

	type p3case struct {
		setter   int
		sub, val string
		data     []byte
		want     []string
		merr     string
	}
	var cases []*p3case
	validSubs := map[string]map[string]bool{} // per field: subsection names go-git's Validate accepts
	for si, st := range setters {
		for _, sub := range subNames[st.sub] {
			for _, v := range values {
				cs := &p3case{setter: si, sub: sub, val: v}
				func() {
					defer func() {
						if r := recover(); r != nil {
							cs.merr = fmt.Sprintf("panic: %v", r)
						}
					}()
					cfg := gogitcfg.NewConfig()
					st.set(cfg, sub, v)
					if err := cfg.Validate(); err != nil {
						cs.merr = "invalid"
						return
					}
					cs.want = st.get(cfg, sub)
					b, err := cfg.Marshal()
					if err != nil {
						cs.merr = "marshal error: " + err.Error()
						return
					}
					cs.data = b
				}()
				if cs.merr == "invalid" {
					continue // go-git itself refuses this Config value
				}
				if validSubs[st.name] == nil {
					validSubs[st.name] = map[string]bool{}
				}
				validSubs[st.name][sub] = true
				cases = append(cases, cs)
			}
		}
	}
	c.Bound("p3_cases", len(cases))
	type p3fail struct{ kind, field, sub, val, detail string }
	var fmu sync.Mutex
	var fails []p3fail
	addFail := func(cs *p3case, kind, detail string) {
		fmu.Lock()
		fails = append(fails, p3fail{kind, setters[cs.setter].name, cs.sub, cs.val, detail})
		fmu.Unlock()
	}
	const chunk = 256
	c.ParDo((len(cases)+chunk-1)/chunk, 0, func(ci int) {
		dir := c.TempDir("c48-p3")
		defer os.RemoveAll(dir)
		var files []string
		var cur []*p3case
		for i := ci * chunk; i < (ci+1)*chunk && i < len(cases); i++ {
			cs := cases[i]
			c.Eval()
			if cs.merr != "" {
				addFail(cs, "Marshal fails", cs.merr)
				continue
			}
			f := filepath.Join(dir, fmt.Sprintf("f%d", i))
			c.Must(os.WriteFile(f, cs.data, 0o644), "write")
			files = append(files, f)
			cur = append(cur, cs)
		}
		got, rej := c48GitList(c, g, dir, files)
		for j, cs := range cur {
			st := setters[cs.setter]
			key := st.gitKey(cs.sub)
			if rej[files[j]] {
				addFail(cs, "git cannot parse what go-git wrote", fw.Q(string(cs.data)))
			} else {
				var vals []string
				for _, e := range got[files[j]] {
					if e.Key == key {
						vals = append(vals, e.Value)
					}
				}
				c.Class(fmt.Sprintf("P3|%s|%v", st.name, eqStrs(vals, cs.want)))
				if !eqStrs(vals, cs.want) {
					addFail(cs, "git reads back a different value", fmt.Sprintf("wrote %q, git reads %s = %q from %s", cs.want, key, vals, fw.Q(string(cs.data))))
				}
			}
			// go-git reads its own output
			func() {
				defer func() {
					if r := recover(); r != nil {
						addFail(cs, "go-git panics reading its own output", fmt.Sprint(r))
					}
				}()
				cfg2, err := gogitcfg.ReadConfig(bytes.NewReader(cs.data))
				if err != nil {
					addFail(cs, "go-git cannot read its own output", err.Error())
					return
				}
				if back := st.get(cfg2, cs.sub); !eqStrs(back, cs.want) {
					addFail(cs, "go-git reads back a different value", fmt.Sprintf("wrote %q, read %q from %s", cs.want, back, fw.Q(string(cs.data))))
				}
			}()
		}
	})
	// keys: a (kind, value) failing for 3+ fields is one key; otherwise per field
	sort.Slice(fails, func(a, b int) bool {
		x, y := fails[a], fails[b]
		return x.kind+x.val+x.field+x.sub < y.kind+y.val+y.field+y.sub
	})
	// one defect, one key: go-git's decoder refuses bytes that are not valid
	// UTF-8 wherever they stand, so every case carrying such a byte in the
	// subsection name or the value fails to load whatever the field
	const nonUTF8Key = "P3 go-git cannot read its own output: bytes that are not valid UTF-8 in a subsection name or value"
	{
		var rest []p3fail
		for _, f := range fails {
			if f.kind == "go-git cannot read its own output" && (!utf8.ValidString(f.sub) || !utf8.ValidString(f.val)) {
				c.Fail(nonUTF8Key, nonUTF8Key+" :: "+f.field+" :: "+f.detail, map[string]any{"field": f.field, "subsection": f.sub, "value": f.val, "kind": f.kind, "detail": f.detail})
				continue
			}
			rest = append(rest, f)
		}
		fails = rest
	}
	// a subsection name for which (nearly) every value of a field fails is a
	// problem of the NAME: one key per (kind, name)
	{
		nVals := map[string]int{} // field+sub -> cases
		for _, cs := range cases {
			nVals[setters[cs.setter].name+"\x00"+cs.sub]++
		}
		cnt := map[string]map[string]bool{}
		for _, f := range fails {
			k := f.kind + "\x00" + f.field + "\x00" + f.sub
			if cnt[k] == nil {
				cnt[k] = map[string]bool{}
			}
			cnt[k][f.val] = true
		}
		var rest []p3fail
		for _, f := range fails {
			n := nVals[f.field+"\x00"+f.sub]
			if f.sub != "" && n >= 5 && len(cnt[f.kind+"\x00"+f.field+"\x00"+f.sub])*5 >= n*4 {
				key := fmt.Sprintf("P3 %s: subsection name %s (every value)", f.kind, fw.Q(f.sub))
				c.Fail(key, key+" :: "+f.field+" :: "+f.detail, map[string]any{"field": f.field, "subsection": f.sub, "value": f.val, "kind": f.kind, "detail": f.detail})
				continue
			}
			rest = append(rest, f)
		}
		fails = rest
	}
	perKV := map[string]map[string]bool{}
	perKFV := map[string]map[string]bool{}
	for _, f := range fails {
		k := f.kind + "\x00" + f.val
		if perKV[k] == nil {
			perKV[k] = map[string]bool{}
		}
		perKV[k][f.field] = true
		k2 := k + "\x00" + f.field
		if perKFV[k2] == nil {
			perKFV[k2] = map[string]bool{}
		}
		perKFV[k2][f.sub] = true
	}
	for _, f := range fails {
		k := f.kind + "\x00" + f.val
		var key string
		if len(perKV[k]) >= 3 {
			key = fmt.Sprintf("P3 %s: value %s (many fields)", f.kind, fw.Q(f.val))
		} else if n := len(perKFV[k+"\x00"+f.field]); n == len(validSubs[f.field]) || (n >= 4 && n*5 >= len(validSubs[f.field])*3) {
			// (nearly) every name: names that fail for a reason of their own are keyed by the name above
			key = fmt.Sprintf("P3 %s: %s value %s (every subsection name)", f.kind, f.field, fw.Q(f.val))
		} else {
			key = fmt.Sprintf("P3 %s: %s[%s] value %s", f.kind, f.field, fw.Q(f.sub), fw.Q(f.val))
		}
		c.Fail(key, key+" :: "+f.detail, map[string]any{"field": f.field, "subsection": f.sub, "value": f.val, "kind": f.kind, "detail": f.detail})
	}
}

package checks

import (
	"fmt"
	"regexp"
	"sort"
	"strings"
	"sync"

	git "github.com/go-git/go-git/v6"
	"github.com/go-git/go-git/v6/config"
	"github.com/go-git/go-git/v6/plumbing"
	"github.com/go-git/go-git/v6/plumbing/client"
	"github.com/go-git/go-git/v6/plumbing/transport"

	"verifmc/fw"
	"verifmc/mcfs"
)

func init() {
	fw.Register(&fw.Check{ID: "C21", Level: "fault_enumeration", Run: runC21, QuickBudget: 100, ThoroughBudget: 1200})
}

type crashOp struct {
	name   string
	gitdir string                      // repository judged after the crash
	setup  func(w *mcfs.World)         // unjournaled preparation of S0
	run    func(w *mcfs.World) error   // the mutation (journaled)
}

var reHashPath = regexp.MustCompile(`[0-9a-f]{38,64}`)
var reTmp = regexp.MustCompile(`(tmp_[a-z_]*|\.tmp/[a-z_.-]*|incoming-)[0-9A-Za-z]+`)
var reLoose = regexp.MustCompile(`objects/[0-9a-f]{2}(/|$)`)

func pathClass(p string) string {
	p = reHashPath.ReplaceAllString(p, "<h>")
	p = reTmp.ReplaceAllString(p, "$1<n>")
	p = reLoose.ReplaceAllString(p, "objects/<xx>$1")
	return p
}

var reIno = regexp.MustCompile(`^ino:\d+\((.*)\)$`)
var reRefName = regexp.MustCompile(`refs/[A-Za-z0-9_./-]+`)

// fileClass maps a journal path to the class of file written (the call site of
// the writer): one finding per class, whatever operation reached it.
func fileClass(p string) string {
	if m := reIno.FindStringSubmatch(p); m != nil {
		p = m[1]
	}
	for _, pre := range []string{"/wt/.git/", "/srv/r.git/", "/wt2/.git/"} {
		p = strings.TrimPrefix(p, pre)
	}
	p = strings.TrimPrefix(p, "./")
	switch {
	case strings.HasPrefix(p, "refs/"):
		return "loose ref file"
	case strings.HasPrefix(p, "logs/"):
		return "reflog file"
	case p == "HEAD" || p == "ORIG_HEAD" || p == "FETCH_HEAD":
		return p
	}
	return pathClass(p)
}

func genProblem(s string) string {
	return reRefName.ReplaceAllString(s, "<ref>")
}

func mcLoader(w *mcfs.World) client.Option {
	return client.WithLoader(transport.NewFilesystemLoader(w.View("/", "loader"), false))
}

func c21Ops(info repoInfo) []crashOp {
	mustRepo := func(w *mcfs.World, gitdir, wt string) *git.Repository {
		r, _, err := openRepo(w, gitdir, wt)
		if err != nil {
			fw.Abort("open %s: %v", gitdir, err)
		}
		return r
	}
	stage := func(w *mcfs.World) {
		w.WriteFile("/wt/a", []byte("a-local\n"), false)
		w.WriteFile("/wt/z", []byte("z-new\n"), false)
		w.AdvanceClock(5)
	}
	ops := []crashOp{
		{name: "Add", gitdir: "/wt/.git", setup: stage, run: func(w *mcfs.World) error {
			wt, err := mustRepo(w, "/wt/.git", "/wt").Worktree()
			if err != nil {
				return err
			}
			if _, err := wt.Add("z"); err != nil {
				return err
			}
			_, err = wt.Add("a")
			return err
		}},
		{name: "Commit", gitdir: "/wt/.git", setup: func(w *mcfs.World) {
			stage(w)
			wt, _ := mustRepo(w, "/wt/.git", "/wt").Worktree()
			if _, err := wt.Add("z"); err != nil {
				fw.Abort("setup add: %v", err)
			}
			if _, err := wt.Add("a"); err != nil {
				fw.Abort("setup add: %v", err)
			}
		}, run: func(w *mcfs.World) error {
			wt, err := mustRepo(w, "/wt/.git", "/wt").Worktree()
			if err != nil {
				return err
			}
			_, err = wt.Commit("msg\n", &git.CommitOptions{Author: fixedSig})
			return err
		}},
		{name: "Checkout(b)", gitdir: "/wt/.git", run: func(w *mcfs.World) error {
			wt, err := mustRepo(w, "/wt/.git", "/wt").Worktree()
			if err != nil {
				return err
			}
			return wt.Checkout(&git.CheckoutOptions{Branch: "refs/heads/b"})
		}},
		{name: "Reset(hard,c1)", gitdir: "/wt/.git", run: func(w *mcfs.World) error {
			wt, err := mustRepo(w, "/wt/.git", "/wt").Worktree()
			if err != nil {
				return err
			}
			return wt.Reset(&git.ResetOptions{Mode: git.HardReset, Commit: plumbing.NewHash(info.c1)})
		}},
		{name: "Fetch", gitdir: "/wt/.git", run: func(w *mcfs.World) error {
			return mustRepo(w, "/wt/.git", "/wt").Fetch(&git.FetchOptions{RemoteName: "origin", ClientOptions: []client.Option{mcLoader(w)}})
		}},
		{name: "Push(receive-pack side)", gitdir: "/srv/r.git", setup: func(w *mcfs.World) {
			// the client gets a new commit on branch b that the server does not have
			stage(w)
			r := mustRepo(w, "/wt/.git", "/wt")
			wt, _ := r.Worktree()
			if err := wt.Checkout(&git.CheckoutOptions{Branch: "refs/heads/b", Force: true}); err != nil {
				fw.Abort("setup checkout: %v", err)
			}
			w.WriteFile("/wt/p", []byte("pushed\n"), false)
			if _, err := wt.Add("p"); err != nil {
				fw.Abort("setup add: %v", err)
			}
			if _, err := wt.Commit("to push\n", &git.CommitOptions{Author: fixedSig}); err != nil {
				fw.Abort("setup commit: %v", err)
			}
		}, run: func(w *mcfs.World) error {
			return mustRepo(w, "/wt/.git", "/wt").Push(&git.PushOptions{RemoteName: "origin",
				RefSpecs: []config.RefSpec{"refs/heads/b:refs/heads/b"}, ClientOptions: []client.Option{mcLoader(w)}})
		}},
		{name: "RepackObjects", gitdir: "/srv/r.git", run: func(w *mcfs.World) error {
			return mustRepo(w, "/srv/r.git", "").RepackObjects(&git.RepackConfig{})
		}},
		{name: "Prune", gitdir: "/wt/.git", setup: func(w *mcfs.World) {
			// an unreachable loose object
			st := openStorage(w, "/wt/.git", "setup")
			o := st.NewEncodedObject()
			o.SetType(plumbing.BlobObject)
			wr, _ := o.Writer()
			wr.Write([]byte("unreachable\n"))
			wr.Close()
			if _, err := st.SetEncodedObject(o); err != nil {
				fw.Abort("setup object: %v", err)
			}
		}, run: func(w *mcfs.World) error {
			r := mustRepo(w, "/wt/.git", "/wt")
			return r.Prune(git.PruneOptions{Handler: r.DeleteObject})
		}},
		{name: "PackRefs", gitdir: "/wt/.git", run: func(w *mcfs.World) error {
			return openStorage(w, "/wt/.git", "git").PackRefs()
		}},
		{name: "SetReference", gitdir: "/wt/.git", run: func(w *mcfs.World) error {
			return openStorage(w, "/wt/.git", "git").SetReference(plumbing.NewHashReference("refs/heads/b", plumbing.NewHash(info.c2)))
		}},
		{name: "CheckAndSetReference(packed)", gitdir: "/srv/r.git", run: func(w *mcfs.World) error {
			return openStorage(w, "/srv/r.git", "git").CheckAndSetReference(
				plumbing.NewHashReference("refs/heads/b", plumbing.NewHash(info.c2)),
				plumbing.NewHashReference("refs/heads/b", plumbing.NewHash(info.c1)))
		}},
		{name: "RemoveReference(packed tag)", gitdir: "/srv/r.git", run: func(w *mcfs.World) error {
			return openStorage(w, "/srv/r.git", "git").RemoveReference("refs/tags/v1")
		}},
		{name: "RemoveReference(loose)", gitdir: "/wt/.git", run: func(w *mcfs.World) error {
			return openStorage(w, "/wt/.git", "git").RemoveReference("refs/heads/b")
		}},
		// --- added by the hole review (notes/C21-holes.md) ---
		{name: "SetReference(new ref in a new directory)", gitdir: "/wt/.git", run: func(w *mcfs.World) error {
			return openStorage(w, "/wt/.git", "git").SetReference(plumbing.NewHashReference("refs/heads/topic/deep/n", plumbing.NewHash(info.c1)))
		}},
		{name: "Commit(branch only in packed-refs)", gitdir: "/wt/.git", setup: func(w *mcfs.World) {
			stage(w)
			if err := openStorage(w, "/wt/.git", "setup").PackRefs(); err != nil {
				fw.Abort("setup pack-refs: %v", err)
			}
			wt, _ := mustRepo(w, "/wt/.git", "/wt").Worktree()
			if _, err := wt.Add("z"); err != nil {
				fw.Abort("setup add: %v", err)
			}
		}, run: func(w *mcfs.World) error {
			wt, err := mustRepo(w, "/wt/.git", "/wt").Worktree()
			if err != nil {
				return err
			}
			_, err = wt.Commit("msg\n", &git.CommitOptions{Author: fixedSig})
			return err
		}},
		{name: "RemoveReference(loose value over a stale packed one)", gitdir: "/wt/.git", setup: func(w *mcfs.World) {
			st := openStorage(w, "/wt/.git", "setup")
			if err := st.PackRefs(); err != nil { // b -> c1 goes to packed-refs
				fw.Abort("setup pack-refs: %v", err)
			}
			// b moves on: the loose file now shadows the packed line
			if err := st.SetReference(plumbing.NewHashReference("refs/heads/b", plumbing.NewHash(info.c2))); err != nil {
				fw.Abort("setup set-ref: %v", err)
			}
		}, run: func(w *mcfs.World) error {
			return openStorage(w, "/wt/.git", "git").RemoveReference("refs/heads/b")
		}},
		{name: "Push(delete a packed ref on the receive-pack side)", gitdir: "/srv/r.git", run: func(w *mcfs.World) error {
			return mustRepo(w, "/wt/.git", "/wt").Push(&git.PushOptions{RemoteName: "origin",
				RefSpecs: []config.RefSpec{":refs/heads/b"}, ClientOptions: []client.Option{mcLoader(w)}})
		}},
		{name: "SetConfig", gitdir: "/wt/.git", run: func(w *mcfs.World) error {
			st := openStorage(w, "/wt/.git", "git")
			cfg, err := st.Config()
			if err != nil {
				return err
			}
			cfg.User.Name = "Somebody Else With A Longer Name"
			return st.SetConfig(cfg)
		}},
		{name: "SetIndex", gitdir: "/wt/.git", run: func(w *mcfs.World) error {
			st := openStorage(w, "/wt/.git", "git")
			idx, err := st.Index()
			if err != nil {
				return err
			}
			idx.Entries = idx.Entries[:len(idx.Entries)-1]
			return st.SetIndex(idx)
		}},
	}
	return ops
}

func journalSig(j []*mcfs.Op) string {
	var sb strings.Builder
	for _, o := range j {
		if o.Mutating && o.Err == "" {
			fmt.Fprintf(&sb, "%s %s %s %d %d|", o.Kind, o.Path, o.Path2, o.Off, len(o.Data))
		}
	}
	return sb.String()
}

func runC21(c *fw.Ctx) {
	c.SetRule("for each go-git mutation on a git-written client/server repository pair over mcfs: record the journal of mutating filesystem calls of one run; for EVERY prefix of it and, when the next call is a write of length L, every torn length in {0,1,L/2,L-1} (all when L<=16), synthesise the crash state from the journal (no re-execution), reopen with a fresh go-git storage and check: HEAD/index/config/shallow readable, references listable, each reference has its pre- or post-operation value and resolves, every object reachable from the references present in that state is readable; states go-git accepts are dumped and also judged by real `git fsck --connectivity-only` + `git for-each-ref` (thorough: every distinct state; quick: for every operation the crash points at a fixed stride of its enumeration, at most 40 per operation, so that no operation goes unjudged). distinct = distinct crash-state digests")
	c.Assume("process-crash model: every completed filesystem call persists, the call in flight may be torn; no power-loss reordering (go-git never calls fsync); map-iteration order inside one operation is the order that happened in the recorded run")
	n, err := mcfs.Conformance(c.Scratch(), 2)
	c.Must(err, "mcfs/osfs conformance")
	c.Extra("mcfs_osfs_conformance_sequences", n)

	base, info := twoRepoWorld(c)
	ops := c21Ops(info)
	var names []string
	for _, o := range ops {
		names = append(names, o.name)
	}
	c.Bound("operations", names)
	g := c.GitHome()
	const gitPerOp = 40
	c.Bound("quick_tier_states_judged_by_git_per_operation", gitPerOp)
	var mu sync.Mutex
	gitJudged := map[string]bool{}
	gitSkipped := 0
	for _, op := range ops {
		if c.Expired() {
			c.Incomplete("deadline before " + op.name)
			break
		}
		s0 := base.Clone()
		if op.setup != nil {
			op.setup(s0)
		}
		s0.ResetJournal()
		// recorded run (twice: the journal must be deterministic)
		run := func() (*mcfs.World, []*mcfs.Op, error) {
			w := s0.Clone()
			err := func() (err error) {
				defer func() {
					if r := recover(); r != nil {
						err = fmt.Errorf("panic: %v", r)
					}
				}()
				return op.run(w)
			}()
			var mj []*mcfs.Op
			for _, o := range w.Journal() {
				if o.Mutating && o.Err == "" {
					mj = append(mj, o)
				}
			}
			return w, mj, err
		}
		wPost, j, err := run()
		if err != nil {
			fw.Abort("operation %s failed on the intact repository: %v", op.name, err)
		}
		_, j2, _ := run()
		if journalSig(j) != journalSig(j2) {
			// foreign goroutines may order their private writes differently; the crash states of THIS run are still exact
			c.Extra("journal_order_varies:"+op.name, true)
		}
		pre, err := refsOf(s0, op.gitdir)
		c.Must(err, "refs of S0")
		post, err := refsOf(wPost, op.gitdir)
		c.Must(err, "refs of post state")
		if p := repoProblems(s0, op.gitdir); len(p) > 0 {
			fw.Abort("%s: initial state already broken: %v", op.name, p)
		}
		if p := repoProblems(wPost, op.gitdir); len(p) > 0 {
			c.Fail(op.name+" | completed operation leaves a broken repository: "+p[0], fmt.Sprintf("%s: after the operation completed: %v", op.name, p), map[string]any{"op": op.name, "problems": p})
		}
		// crash points
		type cp struct{ k, torn int }
		var cps []cp
		for k := 0; k <= len(j); k++ {
			cps = append(cps, cp{k, -1})
			if k < len(j) && j[k].Kind == "write" {
				L := len(j[k].Data)
				var ts []int
				if L <= 16 {
					for t := 0; t < L; t++ {
						ts = append(ts, t)
					}
				} else {
					ts = []int{0, 1, L / 2, L - 1}
				}
				for _, t := range ts {
					cps = append(cps, cp{k + 1, t}) // ops[:k+1] with the last one torn to t bytes
				}
			}
		}
		c.Sample(map[string]any{"operation": op.name, "journal_len": len(j), "crash_states": len(cps), "first_ops": opStrings(j, 6)})
		gitStride := (len(cps) + gitPerOp - 1) / gitPerOp
		if gitStride < 1 {
			gitStride = 1
		}
		c.ParDo(len(cps), 0, func(i int) {
			p := cps[i]
			w := s0.Clone()
			if err := w.Apply(j[:p.k], p.torn); err != nil {
				fw.Abort("%s: journal replay failed at %d: %v", op.name, p.k, err)
			}
			c.Eval()
			digest := w.Hash(op.gitdir)
			c.Class(op.name + digest)
			where := "before the first call"
			if p.k > 0 {
				o := j[p.k-1]
				where = fmt.Sprintf("after %s of %s", o.Kind, fileClass(o.Path))
				if o.Path2 != "" && o.Kind == "rename" {
					where += " -> " + fileClass(o.Path2)
				}
				if p.torn >= 0 {
					where = fmt.Sprintf("during write of %s (torn)", fileClass(o.Path))
				}
			}
			var probs []string
			probs = append(probs, repoProblems(w, op.gitdir)...)
			if cur, err := refsOf(w, op.gitdir); err == nil {
				var ns []string
				for n := range cur {
					ns = append(ns, n)
				}
				sort.Strings(ns)
				for _, n := range ns {
					v := cur[n]
					if v != pre[n] && v != post[n] {
						probs = append(probs, fmt.Sprintf("ref %s has a value that is neither its pre- nor its post-operation value", n))
					}
				}
				for n := range pre {
					if _, ok := cur[n]; !ok {
						if _, stays := post[n]; stays {
							probs = append(probs, fmt.Sprintf("ref %s disappeared although it exists before and after the operation", n))
						}
					}
				}
			}
			if len(probs) > 0 {
				sort.Strings(probs)
				key := fmt.Sprintf("crash %s | %s", where, genProblem(probs[0]))
				c.Fail(key, fmt.Sprintf("%s: crash %s (journal prefix %d/%d, torn=%d): %s", op.name, where, p.k, len(j), p.torn, strings.Join(probs, "; ")),
					map[string]any{"op": op.name, "prefix": p.k, "torn": p.torn, "journal": opStrings(j, 400), "problems": probs})
				return
			}
			// independent judgement by real git on every distinct state go-git accepts
			mu.Lock()
			seen := gitJudged[op.gitdir+digest]
			if !seen && !c.Thorough() && i%gitStride != 0 {
				// quick tier: real git judges, for EVERY operation, the crash points whose
				// position in the operation's enumeration is a multiple of gitStride
				// (<= gitPerOp per operation, chosen by position: the same states every run)
				seen = true
				gitSkipped++
			} else {
				gitJudged[op.gitdir+digest] = true
			}
			mu.Unlock()
			if seen {
				return
			}
			dir := c.TempDir("c21")
			defer os_RemoveAll(dir)
			target := dir + "/.git"
			if strings.HasSuffix(op.gitdir, ".git") && !strings.HasSuffix(op.gitdir, "/.git") {
				target = dir + "/r.git"
			}
			c.Must(w.Dump(op.gitdir, target), "dump")
			gg := g.In(target).With("GIT_DIR=" + target)
			r := gg.Run("fsck", "--connectivity-only", "--no-dangling")
			r2 := gg.Run("for-each-ref")
			if !r.OK() || !r2.OK() {
				msg := strings.TrimSpace(string(r.Err) + string(r.Out) + string(r2.Err))
				first := strings.SplitN(msg, "\n", 2)[0]
				key := fmt.Sprintf("crash %s | git: %s", where, genProblem(pathClass(reHashPath.ReplaceAllString(first, "<h>"))))
				c.Fail(key, fmt.Sprintf("%s: crash %s: real git rejects the state: %s", op.name, where, msg), map[string]any{"op": op.name, "prefix": p.k, "torn": p.torn, "git": msg, "journal": opStrings(j, 400)})
			}
		})
	}
	c.Extra("distinct_states_judged_by_git", len(gitJudged))
	c.Extra("distinct_states_not_judged_by_git_in_quick_tier", gitSkipped)
}

func opStrings(j []*mcfs.Op, max int) []string {
	var out []string
	for i, o := range j {
		if i >= max {
			break
		}
		out = append(out, o.String())
	}
	return out
}

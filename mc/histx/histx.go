// Package histx explores every operation history up to a depth on fresh real
// instances, compares each step and each reached state with a reference model,
// and merges histories that reach the same canonical state.
package histx

import (
	"fmt"
	"sort"
	"strings"
	"sync"

	"verifmc/fw"
)

// Sys is one paired instance: the real system under test and the model.
type Sys interface {
	// Apply performs op k on both sides and returns (expected, got)
	// observations; expected == "*" means the model leaves the result open.
	Apply(k int) (expected, got string)
	// Observe returns the full observable state of both sides.
	Observe() (expected, got string)
	// Key returns the canonical state used to merge histories (must determine
	// all futures: model state + persistent real state + instance cache summary).
	Key() string
	// Close releases the instance.
	Close()
}

// Spec describes an exploration.
type Spec struct {
	Name    string
	OpNames []string
	New     func() Sys
	Depth   int
	// Enabled optionally prunes ill-formed histories (e.g. Write before Open);
	// it is given the history so far and the candidate op.
	Enabled func(hist []int, k int) bool
	// Classify maps a failure to a stable key (default: last op + expected/got).
	Classify func(hist []string, where, expected, got string) string
	NoDedup  bool
}

// Result reports coverage.
type Result struct {
	States, Transitions, MaxDepth int
	Complete                     bool
	Histories                    int
}

type cand struct {
	hist []int
	key  string
	fail *failure
}

type failure struct {
	where, expected, got string
}

// Run explores and reports violations through c.Fail.
func Run(c *fw.Ctx, sp Spec) Result {
	res := Result{Complete: true}
	seen := map[string]bool{}
	frontier := [][]int{{}}
	// root state
	{
		s := sp.New()
		e, g := s.Observe()
		if e != g {
			report(c, sp, nil, "initial state", e, g)
		}
		seen[s.Key()] = true
		s.Close()
		res.States = 1
	}
	var tmu sync.Mutex
	for d := 1; d <= sp.Depth; d++ {
		var cands []*cand
		for _, h := range frontier {
			for k := range sp.OpNames {
				if sp.Enabled != nil && !sp.Enabled(h, k) {
					continue
				}
				cands = append(cands, &cand{hist: append(append([]int{}, h...), k)})
			}
		}
		done := make([]bool, len(cands))
		c.ParDo(len(cands), 0, func(i int) {
			cd := cands[i]
			s := sp.New()
			defer s.Close()
			n := len(cd.hist)
			for j, k := range cd.hist {
				e, g := s.Apply(k)
				tmu.Lock()
				res.Transitions++
				tmu.Unlock()
				if j == n-1 && e != "*" && e != g {
					cd.fail = &failure{"result of " + sp.OpNames[k], e, g}
					done[i] = true
					return
				}
			}
			e, g := s.Observe()
			if e != g {
				cd.fail = &failure{"state after " + sp.OpNames[cd.hist[n-1]], e, g}
				done[i] = true
				return
			}
			cd.key = s.Key()
			done[i] = true
		})
		var next [][]int
		incomplete := false
		for i, cd := range cands {
			if !done[i] {
				incomplete = true
				continue
			}
			res.Histories++
			c.Eval()
			if cd.fail != nil {
				report(c, sp, cd.hist, cd.fail.where, cd.fail.expected, cd.fail.got)
				continue // failing histories are not extended
			}
			if !sp.NoDedup {
				if seen[cd.key] {
					continue
				}
				seen[cd.key] = true
			}
			res.States++
			c.Class(cd.key)
			next = append(next, cd.hist)
		}
		if incomplete {
			res.Complete = false
			break
		}
		res.MaxDepth = d
		frontier = next
		if len(frontier) == 0 {
			break
		}
	}
	return res
}

func report(c *fw.Ctx, sp Spec, hist []int, where, e, g string) {
	names := make([]string, len(hist))
	for i, k := range hist {
		names[i] = sp.OpNames[k]
	}
	var key string
	if sp.Classify != nil {
		key = sp.Classify(names, where, e, g)
	} else {
		key = fmt.Sprintf("%s: %s", where, firstDiff(e, g))
	}
	c.Fail(key, fmt.Sprintf("%s: after history [%s] %s: expected %s, got %s", sp.Name, strings.Join(names, "; "), where, clip(e), clip(g)),
		map[string]any{"spec": sp.Name, "history": names, "where": where, "expected": e, "got": g})
}

func clip(s string) string {
	if len(s) > 300 {
		return s[:300] + "…"
	}
	return s
}

// firstDiff gives a compact description of how two multi-line observations differ.
func firstDiff(e, g string) string {
	el, gl := strings.Split(e, "\n"), strings.Split(g, "\n")
	es, gs := map[string]bool{}, map[string]bool{}
	for _, l := range el {
		es[l] = true
	}
	for _, l := range gl {
		gs[l] = true
	}
	var miss, extra []string
	for _, l := range el {
		if !gs[l] {
			miss = append(miss, l)
		}
	}
	for _, l := range gl {
		if !es[l] {
			extra = append(extra, l)
		}
	}
	sort.Strings(miss)
	sort.Strings(extra)
	return fmt.Sprintf("missing=%v extra=%v", miss, extra)
}

package fw

import (
	"bytes"
	"fmt"
	"os"
	"os/exec"
	"path/filepath"
	"strings"
)

// Git runs the installed git with a sealed environment.
type Git struct {
	Dir   string   // -C dir ("" = none)
	Home  string   // HOME used (an empty dir)
	Extra []string // extra env
	Conf  []string // -c k=v pairs
}

// NewGit returns a sealed git runner; home must be a directory git may use as HOME.
func NewGit(dir, home string) *Git { return &Git{Dir: dir, Home: home} }

func (g *Git) env() []string {
	e := []string{
		"PATH=" + os.Getenv("PATH"),
		"HOME=" + g.Home, "XDG_CONFIG_HOME=" + g.Home, "GIT_CONFIG_NOSYSTEM=1", "GIT_CONFIG_GLOBAL=/dev/null",
		"LC_ALL=C", "LANG=C", "TZ=UTC", "GIT_TERMINAL_PROMPT=0", "GIT_ADVICE=0",
		"GIT_AUTHOR_NAME=A U Thor", "GIT_AUTHOR_EMAIL=author@example.com", "GIT_AUTHOR_DATE=1700000000 +0000",
		"GIT_COMMITTER_NAME=C O Mitter", "GIT_COMMITTER_EMAIL=committer@example.com", "GIT_COMMITTER_DATE=1700000000 +0000",
		"GIT_PAGER=cat", "GIT_OPTIONAL_LOCKS=0",
	}
	return append(e, g.Extra...)
}

// With returns a copy with extra environment.
func (g *Git) With(env ...string) *Git {
	c := *g
	c.Extra = append(append([]string{}, g.Extra...), env...)
	return &c
}

// In returns a copy operating in dir.
func (g *Git) In(dir string) *Git { c := *g; c.Dir = dir; return &c }

// C returns a copy with -c settings.
func (g *Git) C(kv ...string) *Git {
	c := *g
	c.Conf = append(append([]string{}, g.Conf...), kv...)
	return &c
}

// Res is a git invocation result.
type Res struct {
	Out, Err []byte
	Code     int
}

func (r Res) OK() bool { return r.Code == 0 }
func (r Res) S() string { return strings.TrimRight(string(r.Out), "\n") }

// Run runs git with stdin.
func (g *Git) RunIn(stdin []byte, args ...string) Res {
	var full []string
	for _, kv := range g.Conf {
		full = append(full, "-c", kv)
	}
	if g.Dir != "" {
		full = append(full, "-C", g.Dir)
	}
	full = append(full, args...)
	cmd := exec.Command("git", full...)
	cmd.Env = g.env()
	var o, e bytes.Buffer
	cmd.Stdout, cmd.Stderr = &o, &e
	if stdin != nil {
		cmd.Stdin = bytes.NewReader(stdin)
	}
	err := cmd.Run()
	code := 0
	if err != nil {
		if ee, ok := err.(*exec.ExitError); ok {
			code = ee.ExitCode()
			if code == 0 {
				code = -1
			}
		} else {
			Abort("cannot run git %v: %v", args, err)
		}
	}
	return Res{o.Bytes(), e.Bytes(), code}
}

func (g *Git) Run(args ...string) Res { return g.RunIn(nil, args...) }

// MustRun aborts the check (engine error) when git fails: used for oracle
// set-up steps that must succeed.
func (g *Git) MustRunIn(stdin []byte, args ...string) Res {
	r := g.RunIn(stdin, args...)
	if !r.OK() {
		Abort("git %s (dir %s) failed (%d): %s", strings.Join(args, " "), g.Dir, r.Code, r.Err)
	}
	return r
}
func (g *Git) MustRun(args ...string) Res { return g.MustRunIn(nil, args...) }

// InitRepo creates a repository with git (objectFormat "sha1"|"sha256").
func (c *Ctx) InitRepo(name, objectFormat string, bare bool) (*Git, string) {
	dir := c.TempDir(name)
	home := filepath.Join(c.scratch, "home")
	os.MkdirAll(home, 0o755)
	g := NewGit("", home)
	args := []string{"init", "-q", "-b", "main"}
	if objectFormat != "" {
		args = append(args, "--object-format="+objectFormat)
	}
	if bare {
		args = append(args, "--bare")
	}
	args = append(args, dir)
	g.MustRun(args...)
	return g.In(dir), dir
}

// GitHome returns a sealed git runner without a directory.
func (c *Ctx) GitHome() *Git {
	home := filepath.Join(c.scratch, "home")
	os.MkdirAll(home, 0o755)
	return NewGit("", home)
}

// CatFileBatch returns type,size,content for each id using one git process.
type ObjInfo struct {
	ID, Type string
	Size     int
	Data     []byte
	Missing  bool
}

func (g *Git) CatFileBatch(ids []string) []ObjInfo {
	in := []byte(strings.Join(ids, "\n") + "\n")
	r := g.MustRunIn(in, "cat-file", "--batch")
	return parseBatch(r.Out, len(ids))
}

// CatFileAll lists all objects in the repository with contents.
func (g *Git) CatFileAll() []ObjInfo {
	r := g.MustRun("cat-file", "--batch-all-objects", "--batch", "--unordered")
	return parseBatch(r.Out, -1)
}

func parseBatch(b []byte, n int) []ObjInfo {
	var out []ObjInfo
	for len(b) > 0 {
		nl := bytes.IndexByte(b, '\n')
		if nl < 0 {
			Abort("cat-file --batch: truncated header %q", b)
		}
		hdr := string(b[:nl])
		b = b[nl+1:]
		f := strings.Fields(hdr)
		if len(f) == 2 && (f[1] == "missing" || f[1] == "ambiguous") {
			out = append(out, ObjInfo{ID: f[0], Missing: true})
			continue
		}
		if len(f) != 3 {
			Abort("cat-file --batch: bad header %q", hdr)
		}
		var sz int
		fmt.Sscanf(f[2], "%d", &sz)
		if len(b) < sz+1 {
			Abort("cat-file --batch: short body")
		}
		out = append(out, ObjInfo{ID: f[0], Type: f[1], Size: sz, Data: append([]byte{}, b[:sz]...)})
		b = b[sz+1:]
	}
	if n >= 0 && len(out) != n {
		Abort("cat-file --batch: %d answers for %d queries", len(out), n)
	}
	return out
}

// Package fw is the shared scaffolding of all checks: context, evidence file,
// known-findings discipline, scratch directories, parallel enumeration.
package fw

import (
	"bufio"
	"crypto/sha256"
	"encoding/hex"
	"encoding/json"
	"fmt"
	"os"
	"path/filepath"
	"runtime"
	"runtime/debug"
	"sort"
	"strconv"
	"strings"
	"sync"
	"sync/atomic"
	"time"
)

// Check is one registered property check.
type Check struct {
	ID    string
	Level string // exploration | fault_enumeration | model_checking
	Run   func(c *Ctx)
	// Budget is the internal deadline (seconds) per tier; when it expires the
	// check stops enumerating, reports exhaustive:false and exits 0.
	QuickBudget, ThoroughBudget int
}

var registry = map[string]*Check{}

func Register(ch *Check) {
	if _, dup := registry[ch.ID]; dup {
		panic("duplicate check " + ch.ID)
	}
	registry[ch.ID] = ch
}

func IDs() []string {
	var ids []string
	for k := range registry {
		ids = append(ids, k)
	}
	sort.Strings(ids)
	return ids
}

type finding struct {
	Status   string `json:"status"` // known | fixed
	Property string `json:"property"`
	Key      string `json:"key"`
	What     string `json:"what"`
	Commit   string `json:"commit,omitempty"`
}

type violation struct {
	Key    string `json:"key"`
	What   string `json:"what"`
	Replay any    `json:"replay"`
	Count  int    `json:"count"`
	known  bool
}

// Ctx is handed to a check's Run.
type Ctx struct {
	ID, Tier string
	Seed     int64
	Level    string
	VerifDir string
	RepoDir  string
	scratch  string
	start    time.Time
	deadline time.Time

	evals       atomic.Int64
	states      atomic.Int64
	transitions atomic.Int64
	traces      atomic.Int64

	mu         sync.Mutex
	classes    map[[8]byte]struct{}
	samples    []any
	rule       string
	assume     []string
	bounds     map[string]any
	extra      map[string]any
	incomplete []string
	viol       map[string]*violation
	violOrder  []string
	engineErr  []string
	known      []finding
}

func (c *Ctx) Thorough() bool { return c.Tier == "thorough" }

// Pick returns q in quick tier and t in thorough tier.
func (c *Ctx) Pick(q, t int) int {
	if c.Thorough() {
		return t
	}
	return q
}

// Scratch returns a private scratch directory removed at exit.
func (c *Ctx) Scratch() string { return c.scratch }

var tmpSeq atomic.Int64

// TempDir creates a fresh directory under the scratch root.
func (c *Ctx) TempDir(prefix string) string {
	d := filepath.Join(c.scratch, prefix+"-"+strconv.FormatInt(tmpSeq.Add(1), 10))
	if err := os.MkdirAll(d, 0o755); err != nil {
		panic(err)
	}
	return d
}

func (c *Ctx) Eval()                  { c.evals.Add(1) }
func (c *Ctx) Evals(n int)            { c.evals.Add(int64(n)) }
func (c *Ctx) States(n int)           { c.states.Add(int64(n)) }
func (c *Ctx) Transitions(n int)      { c.transitions.Add(int64(n)) }
func (c *Ctx) TracesValidated(n int)  { c.traces.Add(int64(n)) }
func (c *Ctx) NEvals() int64          { return c.evals.Load() }
func (c *Ctx) SetRule(s string)       { c.mu.Lock(); c.rule = s; c.mu.Unlock() }
func (c *Ctx) Assume(s string)        { c.mu.Lock(); c.assume = append(c.assume, s); c.mu.Unlock() }
func (c *Ctx) Bound(k string, v any)  { c.mu.Lock(); c.bounds[k] = v; c.mu.Unlock() }
func (c *Ctx) Extra(k string, v any)  { c.mu.Lock(); c.extra[k] = v; c.mu.Unlock() }
func (c *Ctx) Incomplete(why string)  { c.mu.Lock(); c.incomplete = append(c.incomplete, why); c.mu.Unlock() }
func (c *Ctx) Expired() bool          { return time.Now().After(c.deadline) }
func (c *Ctx) Elapsed() time.Duration { return time.Since(c.start) }

// Class records a distinct non-trivial observation class (see rule).
func (c *Ctx) Class(key string) {
	h := sha256.Sum256([]byte(key))
	var k [8]byte
	copy(k[:], h[:8])
	c.mu.Lock()
	c.classes[k] = struct{}{}
	c.mu.Unlock()
}

// NClasses returns the number of distinct classes recorded so far.
func (c *Ctx) NClasses() int { c.mu.Lock(); defer c.mu.Unlock(); return len(c.classes) }

// Sample keeps a few actual cases for the evidence file.
func (c *Ctx) Sample(v any) {
	c.mu.Lock()
	if len(c.samples) < 8 {
		c.samples = append(c.samples, v)
	}
	c.mu.Unlock()
}

// Fail records a violation. key identifies the minimal failing case (or the
// class of failing cases a single defect produces); it is what
// KNOWN_FINDINGS.jsonl lists.
func (c *Ctx) Fail(key, what string, replay any) {
	c.mu.Lock()
	defer c.mu.Unlock()
	if v, ok := c.viol[key]; ok {
		v.Count++
		return
	}
	v := &violation{Key: key, What: what, Replay: replay, Count: 1}
	for _, f := range c.known {
		if f.Status == "known" && f.Property == c.ID && f.Key == key {
			v.known = true
		}
	}
	c.viol[key] = v
	c.violOrder = append(c.violOrder, key)
}

// NViolations returns how many distinct unlisted violations were recorded.
func (c *Ctx) NViolations() int {
	c.mu.Lock()
	defer c.mu.Unlock()
	n := 0
	for _, v := range c.viol {
		if !v.known {
			n++
		}
	}
	return n
}

// EngineError reports a fault of the machinery itself (never a VIOLATION).
func (c *Ctx) EngineError(format string, a ...any) {
	c.mu.Lock()
	c.engineErr = append(c.engineErr, fmt.Sprintf(format, a...))
	c.mu.Unlock()
}

// Must aborts the check with an engine error when err != nil.
func (c *Ctx) Must(err error, what string) {
	if err != nil {
		panic(engineAbort{fmt.Sprintf("%s: %v", what, err)})
	}
}

type engineAbort struct{ msg string }

// Abort stops the check with an engine error.
func Abort(format string, a ...any) { panic(engineAbort{fmt.Sprintf(format, a...)}) }

// ParDo runs f(i) for i in [0,n) on `workers` goroutines (0 = NumCPU); it
// stops handing out work once the deadline expired and then marks the run
// incomplete.
func (c *Ctx) ParDo(n, workers int, f func(i int)) {
	if workers <= 0 {
		workers = runtime.NumCPU()
	}
	var next atomic.Int64
	var wg sync.WaitGroup
	var cut atomic.Bool
	var pmu sync.Mutex
	var pval any
	for w := 0; w < workers; w++ {
		wg.Add(1)
		go func() {
			defer wg.Done()
			defer func() {
				if r := recover(); r != nil {
					pmu.Lock()
					if pval == nil {
						if _, ok := r.(engineAbort); ok {
							pval = r
						} else {
							pval = engineAbort{fmt.Sprintf("panic in worker: %v\n%s", r, debug.Stack())}
						}
					}
					pmu.Unlock()
					cut.Store(true)
				}
			}()
			for {
				if cut.Load() {
					return
				}
				i := int(next.Add(1) - 1)
				if i >= n {
					return
				}
				if i%64 == 0 && c.Expired() {
					cut.Store(true)
					c.Incomplete(fmt.Sprintf("internal deadline reached after %d of %d cases", i, n))
					return
				}
				f(i)
			}
		}()
	}
	wg.Wait()
	if pval != nil {
		panic(pval)
	}
}

func loadFindings(path string) []finding {
	f, err := os.Open(path)
	if err != nil {
		return nil
	}
	defer f.Close()
	var out []finding
	sc := bufio.NewScanner(f)
	sc.Buffer(make([]byte, 1<<20), 1<<24)
	for sc.Scan() {
		l := strings.TrimSpace(sc.Text())
		if l == "" || strings.HasPrefix(l, "#") {
			continue
		}
		var x finding
		if err := json.Unmarshal([]byte(l), &x); err != nil {
			fmt.Fprintf(os.Stderr, "ENGINE-ERROR bad KNOWN_FINDINGS line: %v\n", err)
			os.Exit(2)
		}
		out = append(out, x)
	}
	return out
}

func envOr(k, d string) string {
	if v := os.Getenv(k); v != "" {
		return v
	}
	return d
}

// Main runs one check and returns the process exit code.
func Main(id, tier string) int {
	ch, ok := registry[id]
	if !ok {
		fmt.Fprintf(os.Stderr, "unknown check %s (have %v)\n", id, IDs())
		return 2
	}
	if tier != "quick" && tier != "thorough" {
		fmt.Fprintf(os.Stderr, "tier must be quick|thorough\n")
		return 2
	}
	verif := envOr("VERIF_DIR", "/verif")
	seed, _ := strconv.ParseInt(os.Getenv("VERIF_SEED"), 10, 64)
	scratchRoot := envOr("VERIF_SCRATCH", "/var/tmp")
	scratch, err := os.MkdirTemp(scratchRoot, "verif-"+id+"-")
	if err != nil {
		fmt.Fprintf(os.Stderr, "ENGINE-ERROR scratch: %v\n", err)
		return 2
	}
	defer os.RemoveAll(scratch)
	c := &Ctx{ID: id, Tier: tier, Seed: seed, Level: ch.Level, VerifDir: verif,
		RepoDir: envOr("VERIF_REPO", "/repo"), scratch: scratch, start: time.Now(),
		classes: map[[8]byte]struct{}{}, bounds: map[string]any{}, extra: map[string]any{},
		viol: map[string]*violation{}}
	budget := ch.QuickBudget
	if budget == 0 {
		budget = 100
	}
	if tier == "thorough" {
		budget = ch.ThoroughBudget
		if budget == 0 {
			budget = 1500
		}
	}
	if b, err := strconv.Atoi(os.Getenv("VERIF_BUDGET_S")); err == nil && b > 0 {
		budget = b
	}
	c.deadline = c.start.Add(time.Duration(budget) * time.Second)
	c.known = loadFindings(filepath.Join(verif, "KNOWN_FINDINGS.jsonl"))
	os.RemoveAll(filepath.Join(verif, "replays", id)) // replay files of earlier runs are stale

	func() {
		defer func() {
			if r := recover(); r != nil {
				if ea, ok := r.(engineAbort); ok {
					c.EngineError("%s", ea.msg)
				} else {
					c.EngineError("panic in check driver: %v\n%s", r, debug.Stack())
				}
			}
		}()
		ch.Run(c)
	}()
	return c.finish()
}

func (c *Ctx) finish() int {
	wall := time.Since(c.start).Seconds()
	exhaustive := len(c.incomplete) == 0 && len(c.engineErr) == 0
	nviol := 0
	var knownHit []string
	replayDir := filepath.Join(c.VerifDir, "replays", c.ID)
	var lines []string
	for i, k := range c.violOrder {
		v := c.viol[k]
		if v.known {
			knownHit = append(knownHit, k)
			for _, f := range c.known {
				if f.Status == "known" && f.Property == c.ID && f.Key == k {
					lines = append(lines, fmt.Sprintf("KNOWN-FINDING: property=%s %s [key=%s, %d case(s)]", c.ID, f.What, k, v.Count))
				}
			}
			continue
		}
		nviol++
		if nviol > 25 {
			continue
		}
		os.MkdirAll(replayDir, 0o755)
		p := filepath.Join(replayDir, fmt.Sprintf("%s-%s-%d.json", c.ID, c.Tier, i))
		b, _ := json.MarshalIndent(map[string]any{"property": c.ID, "tier": c.Tier, "key": v.Key,
			"what": v.What, "cases_with_this_key": v.Count, "replay": v.Replay, "bounds": c.bounds}, "", " ")
		os.WriteFile(p, b, 0o644)
		lines = append(lines, fmt.Sprintf("VIOLATION property=%s replay=%s", c.ID, p))
		lines = append(lines, fmt.Sprintf("  key=%s :: %s", v.Key, v.What))
	}
	cov := map[string]any{
		"evaluations":         c.evals.Load(),
		"distinct_nontrivial": len(c.classes),
		"rule":                c.rule,
		"samples":             c.samples,
		"exhaustive":          exhaustive,
		"bounds":              c.bounds,
	}
	if c.samples == nil {
		cov["samples"] = []any{}
	}
	if c.Level == "model_checking" {
		cov["states"] = c.states.Load()
		cov["transitions"] = c.transitions.Load()
		cov["traces_validated_against_impl"] = c.traces.Load()
	}
	if len(c.incomplete) > 0 {
		cov["incomplete"] = c.incomplete
	}
	if len(knownHit) > 0 {
		cov["known_findings_matched"] = knownHit
	}
	for k, v := range c.extra {
		cov[k] = v
	}
	ev := map[string]any{
		"property_id": c.ID, "tier": c.Tier, "seed": c.Seed, "level": c.Level,
		"coverage": cov, "assumptions": c.assume, "wall_s": float64(int(wall*100)) / 100,
		"violations": nviol,
	}
	if c.assume == nil {
		ev["assumptions"] = []string{}
	}
	if len(c.engineErr) > 0 {
		ev["engine_errors"] = c.engineErr
	}
	b, _ := json.MarshalIndent(ev, "", " ")
	evd := filepath.Join(c.VerifDir, "evidence")
	if d := os.Getenv("VERIF_EVIDENCE_DIR"); d != "" { // self-validation runs against a modified go-git keep their evidence apart
		evd = d
	}
	os.MkdirAll(evd, 0o755)
	evp := filepath.Join(evd, c.ID+".json")
	if err := os.WriteFile(evp+".tmp", append(b, '\n'), 0o644); err == nil {
		os.Rename(evp+".tmp", evp)
	}
	for _, l := range lines {
		fmt.Println(l)
	}
	fmt.Printf("%s %s: evaluations=%d distinct=%d states=%d transitions=%d violations=%d known=%d exhaustive=%v wall=%.1fs\n",
		c.ID, c.Tier, c.evals.Load(), len(c.classes), c.states.Load(), c.transitions.Load(), nviol, len(knownHit), exhaustive, wall)
	for _, w := range c.incomplete {
		fmt.Printf("  incomplete: %s\n", w)
	}
	if len(c.engineErr) > 0 {
		for _, e := range c.engineErr {
			fmt.Printf("ENGINE-ERROR %s\n", e)
		}
		return 2
	}
	if nviol > 0 {
		return 1
	}
	return 0
}

// Hex is a short helper for replay keys.
func Hex(b []byte) string { return hex.EncodeToString(b) }

// Q quotes a byte string for keys/messages.
func Q(s string) string { return strconv.QuoteToASCII(s) }

package fw

// Bounded-exhaustive enumeration combinators. Every value is produced once, in
// size order, with a stable index.

// Strings returns all strings over alphabet (each symbol may be multi-byte) of
// length 0..maxLen symbols, in length-then-lexicographic order.
func Strings(alphabet []string, maxLen int) []string {
	out := []string{""}
	prev := []string{""}
	for l := 1; l <= maxLen; l++ {
		var cur []string
		for _, p := range prev {
			for _, a := range alphabet {
				cur = append(cur, p+a)
			}
		}
		out = append(out, cur...)
		prev = cur
	}
	return out
}

// CountStrings returns the number of strings of length <= maxLen over k symbols.
func CountStrings(k, maxLen int) int {
	n, p := 0, 1
	for l := 0; l <= maxLen; l++ {
		n += p
		p *= k
	}
	return n
}

// StringAt returns the idx-th string (same order as Strings) without
// materialising the list.
func StringAt(alphabet []string, idx int) string {
	k := len(alphabet)
	l, p := 0, 1
	for idx >= p {
		idx -= p
		p *= k
		l++
	}
	syms := make([]int, l)
	for i := l - 1; i >= 0; i-- {
		syms[i] = idx % k
		idx /= k
	}
	s := ""
	for _, x := range syms {
		s += alphabet[x]
	}
	return s
}

// Seqs returns all sequences over [0,k) of length 0..maxLen (as index slices).
func Seqs(k, maxLen int) [][]int {
	out := [][]int{{}}
	prev := [][]int{{}}
	for l := 1; l <= maxLen; l++ {
		var cur [][]int
		for _, p := range prev {
			for a := 0; a < k; a++ {
				s := append(append([]int{}, p...), a)
				cur = append(cur, s)
			}
		}
		out = append(out, cur...)
		prev = cur
	}
	return out
}

// Subsets returns all subsets of [0,n) with size <= maxSize, by size.
func Subsets(n, maxSize int) [][]int {
	var out [][]int
	var rec func(start int, cur []int, want int)
	rec = func(start int, cur []int, want int) {
		if len(cur) == want {
			out = append(out, append([]int{}, cur...))
			return
		}
		for i := start; i < n; i++ {
			rec(i+1, append(cur, i), want)
		}
	}
	for s := 0; s <= maxSize && s <= n; s++ {
		rec(0, nil, s)
	}
	return out
}

// Perms returns all permutations of [0,n).
func Perms(n int) [][]int {
	var out [][]int
	a := make([]int, n)
	for i := range a {
		a[i] = i
	}
	var rec func(k int)
	rec = func(k int) {
		if k == n {
			out = append(out, append([]int{}, a...))
			return
		}
		for i := k; i < n; i++ {
			a[k], a[i] = a[i], a[k]
			rec(k + 1)
			a[k], a[i] = a[i], a[k]
		}
	}
	rec(0)
	return out
}

// Product enumerates the cartesian product of dimension sizes; returns index vectors.
func Product(dims ...int) [][]int {
	out := [][]int{{}}
	for _, d := range dims {
		var next [][]int
		for _, p := range out {
			for i := 0; i < d; i++ {
				next = append(next, append(append([]int{}, p...), i))
			}
		}
		out = next
	}
	return out
}

// DAG is a commit graph: Parents[i] lists parents of commit i, all < i
// (commit 0 is a root). Commits are numbered in a topological order.
type DAG struct{ Parents [][]int }

// DAGs enumerates all DAGs with exactly n commits where each commit i>0 has
// between 0 and maxParents parents among commits < i (every commit may also be a
// new root), and parent lists are ordered sets (first-parent matters) when
// ordered is true, else ascending subsets.
func DAGs(n, maxParents int, ordered bool) []DAG {
	var out []DAG
	var rec func(i int, cur [][]int)
	rec = func(i int, cur [][]int) {
		if i == n {
			cp := make([][]int, n)
			for j := range cur {
				cp[j] = append([]int{}, cur[j]...)
			}
			out = append(out, DAG{cp})
			return
		}
		for _, ps := range parentChoices(i, maxParents, ordered) {
			rec(i+1, append(cur, ps))
		}
	}
	rec(0, nil)
	return out
}

func parentChoices(i, maxParents int, ordered bool) [][]int {
	subs := Subsets(i, maxParents)
	if !ordered {
		return subs
	}
	var out [][]int
	for _, s := range subs {
		for _, p := range Perms(len(s)) {
			o := make([]int, len(s))
			for j, x := range p {
				o[j] = s[x]
			}
			out = append(out, o)
		}
	}
	return out
}

// WeakOrders enumerates all assignments of ranks to n items such that the set
// of used ranks is {0..m-1} for some m (all weak orderings; Fubini numbers).
func WeakOrders(n int) [][]int {
	var out [][]int
	cur := make([]int, n)
	var rec func(i, maxRank int)
	rec = func(i, maxRank int) {
		if i == n {
			// valid iff every rank 0..maxRank used
			used := make([]bool, maxRank+1)
			for _, r := range cur {
				used[r] = true
			}
			for _, u := range used {
				if !u {
					return
				}
			}
			out = append(out, append([]int{}, cur...))
			return
		}
		for r := 0; r < n; r++ {
			cur[i] = r
			m := maxRank
			if r > m {
				m = r
			}
			rec(i+1, m)
		}
	}
	if n == 0 {
		return [][]int{{}}
	}
	rec(0, 0)
	return out
}

// Reach returns the set of commits reachable from starts (inclusive).
func (d DAG) Reach(starts ...int) map[int]bool {
	seen := map[int]bool{}
	var st []int
	st = append(st, starts...)
	for len(st) > 0 {
		x := st[len(st)-1]
		st = st[:len(st)-1]
		if seen[x] {
			continue
		}
		seen[x] = true
		st = append(st, d.Parents[x]...)
	}
	return seen
}

package fw

import (
	"bytes"
	"fmt"
	"sort"
	"strings"
)

// FileSpec is one file of a commit snapshot. Mode "" = 100644; 120000 = symlink
// (Data is the target); 160000 = gitlink (Data is a 40/64-hex id).
type FileSpec struct {
	Mode string
	Data string
}

// CommitSpec describes one commit of a generated history: a full snapshot.
type CommitSpec struct {
	Parents []int // indices of earlier commits (first parent first)
	Time    int64 // committer and author timestamp (seconds)
	Files   map[string]FileSpec
	Msg     string
}

// BuildHistory creates the commits with one `git fast-import` process and
// returns their ids in order. Branch refs are NOT left behind (a temporary ref
// per commit is created under refs/verif/c<i> unless keepRefs is false).
func (g *Git) BuildHistory(specs []CommitSpec, keepRefs bool) []string {
	var b bytes.Buffer
	for i, s := range specs {
		fmt.Fprintf(&b, "commit refs/verif/c%d\nmark :%d\n", i, i+1)
		t := s.Time
		fmt.Fprintf(&b, "author A U Thor <author@example.com> %d +0000\n", t)
		fmt.Fprintf(&b, "committer C O Mitter <committer@example.com> %d +0000\n", t)
		msg := s.Msg
		if msg == "" {
			msg = fmt.Sprintf("c%d\n", i)
		}
		fmt.Fprintf(&b, "data %d\n%s\n", len(msg), msg)
		for j, p := range s.Parents {
			if j == 0 {
				fmt.Fprintf(&b, "from :%d\n", p+1)
			} else {
				fmt.Fprintf(&b, "merge :%d\n", p+1)
			}
		}
		b.WriteString("deleteall\n")
		var paths []string
		for p := range s.Files {
			paths = append(paths, p)
		}
		sort.Strings(paths)
		for _, p := range paths {
			f := s.Files[p]
			mode := f.Mode
			if mode == "" {
				mode = "100644"
			}
			if mode == "160000" {
				fmt.Fprintf(&b, "M 160000 %s %s\n", f.Data, quotePath(p))
				continue
			}
			fmt.Fprintf(&b, "M %s inline %s\ndata %d\n%s\n", mode, quotePath(p), len(f.Data), f.Data)
		}
		b.WriteString("\n")
	}
	b.WriteString("done\n")
	g.MustRunIn(b.Bytes(), "fast-import", "--quiet", "--done", "--date-format=raw")
	ids := make([]string, len(specs))
	for i := range specs {
		ids[i] = g.MustRun("rev-parse", fmt.Sprintf("refs/verif/c%d", i)).S()
	}
	if !keepRefs {
		var in bytes.Buffer
		for i := range specs {
			fmt.Fprintf(&in, "delete refs/verif/c%d\n", i)
		}
		g.MustRunIn(in.Bytes(), "update-ref", "--stdin")
	}
	return ids
}

func quotePath(p string) string {
	if strings.ContainsAny(p, "\"\n\\ ") {
		return fmt.Sprintf("%q", p)
	}
	return p
}

// HistoryFromDAG builds a CommitSpec list from a DAG: commit i gets timestamp
// base+ranks[i]*step (ranks may be nil = i) and a snapshot in which every
// commit adds/edits file "f<i>" on top of its first parent's snapshot (merges
// take the union, first parent winning), so trees differ between commits.
func HistoryFromDAG(d DAG, ranks []int, base, step int64) []CommitSpec {
	specs := make([]CommitSpec, len(d.Parents))
	for i, ps := range d.Parents {
		files := map[string]FileSpec{}
		for j := len(ps) - 1; j >= 0; j-- {
			for k, v := range specs[ps[j]].Files {
				files[k] = v
			}
		}
		files[fmt.Sprintf("f%d", i)] = FileSpec{Data: fmt.Sprintf("content %d\n", i)}
		files["shared"] = FileSpec{Data: fmt.Sprintf("shared as of %d\n", i)}
		r := i
		if ranks != nil {
			r = ranks[i]
		}
		specs[i] = CommitSpec{Parents: ps, Time: base + int64(r)*step, Files: files, Msg: fmt.Sprintf("commit %d\n", i)}
	}
	return specs
}

package fw

// MinSeq 1-minimises a failing sequence: repeatedly deletes single elements
// and lowers elements to smaller ranks (lower(x) yields candidates that are
// "simpler" than x) while fails() stays true. Deterministic.
func MinSeq[T any](in []T, lower func(T) []T, fails func([]T) bool) []T {
	cur := append([]T{}, in...)
	changed := true
	for changed {
		changed = false
		for w := 1; w <= 3; w++ { // delete windows of 1, 2, 3 adjacent elements
			for i := 0; i+w <= len(cur); i++ {
				cand := append(append([]T{}, cur[:i]...), cur[i+w:]...)
				if fails(cand) {
					cur = cand
					changed = true
					i--
				}
			}
		}
		if lower != nil {
			for i := 0; i < len(cur); i++ {
				for _, l := range lower(cur[i]) {
					cand := append([]T{}, cur...)
					cand[i] = l
					if fails(cand) {
						cur = cand
						changed = true
						break
					}
				}
			}
		}
	}
	return cur
}

// MinString minimises a failing string at byte level; simpler lists bytes in
// increasing complexity: a byte may be replaced only by one that appears
// earlier in simpler than itself (bytes not in simpler may be replaced by any).
func MinString(s string, simpler string, fails func(string) bool) string {
	rank := map[byte]int{}
	for i := 0; i < len(simpler); i++ {
		rank[simpler[i]] = i
	}
	lower := func(b byte) []byte {
		r, ok := rank[b]
		if !ok {
			r = len(simpler)
		}
		return []byte(simpler[:r])
	}
	out := MinSeq([]byte(s), lower, func(b []byte) bool { return fails(string(b)) })
	return string(out)
}

// vcheck runs one property check: vcheck <ID> <quick|thorough>.
package main

import (
	"fmt"
	"os"

	_ "verifmc/checks"
	"verifmc/fw"
)

func main() {
	if len(os.Args) == 2 && os.Args[1] == "list" {
		for _, id := range fw.IDs() {
			fmt.Println(id)
		}
		return
	}
	if len(os.Args) != 3 {
		fmt.Fprintln(os.Stderr, "usage: vcheck <ID> <quick|thorough> | vcheck list")
		os.Exit(2)
	}
	os.Exit(fw.Main(os.Args[1], os.Args[2]))
}

// mkoverlay writes a `go build -overlay` file from the CURRENT working tree of
// the go-git checkout: (1) adds the verif-tagged shim/bridge/export files under
// /verif/shim/add/<rel>/ to <repo>/<rel>/zz_verif_<name>; (2) in sched mode,
// emits copies of the non-test files of the listed packages whose imports of
// sync, sync/atomic, (time), errgroup and singleflight are redirected to the
// x/verif/v* shims. Nothing else in those files changes, so any edit made to
// the repository before a check runs is what gets explored.
package main

import (
	"bytes"
	"encoding/json"
	"flag"
	"fmt"
	"go/parser"
	"go/token"
	"os"
	"path/filepath"
	"strconv"
	"strings"
)

const mod = "github.com/go-git/go-git/v6"

// packages whose sync primitives are put under the controlled scheduler.
var schedPkgs = []string{
	"internal/sharedfile", "x/fdpool", "internal/packhandle",
	"plumbing/format/idxfile", "plumbing/cache",
	"storage/filesystem", "storage/filesystem/dotgit",
	"plumbing/format/packfile", "plumbing/transport",
	"storage/memory", "x/storage/packfile/mmap", "plumbing",
}

var rewrites = map[string]string{
	"sync":                             mod + "/x/verif/vsync",
	"sync/atomic":                      mod + "/x/verif/vatomic",
	"golang.org/x/sync/errgroup":       mod + "/x/verif/verrgroup",
	"golang.org/x/sync/singleflight":   mod + "/x/verif/vsingleflight",
}

// time is only redirected where timers are armed.
var timePkgs = map[string]bool{"internal/sharedfile": true}

func main() {
	repo := flag.String("repo", "/repo", "go-git checkout")
	shim := flag.String("shim", "/verif/shim", "shim source root")
	out := flag.String("out", "", "output directory")
	mode := flag.String("mode", "base", "base|sched")
	flag.Parse()
	if *out == "" {
		fatal("need -out")
	}
	os.RemoveAll(*out)
	must(os.MkdirAll(*out, 0o755))
	replace := map[string]string{}

	addRoot := filepath.Join(*shim, "add")
	must(filepath.Walk(addRoot, func(p string, info os.FileInfo, err error) error {
		if err != nil {
			return err
		}
		if info.IsDir() || !strings.HasSuffix(p, ".go") {
			return nil
		}
		rel, _ := filepath.Rel(addRoot, p)
		dst := filepath.Join(*repo, filepath.Dir(rel), "zz_verif_"+filepath.Base(rel))
		replace[dst] = p
		return nil
	}))

	if *mode == "sched" {
		n := 0
		for _, pkg := range schedPkgs {
			dir := filepath.Join(*repo, pkg)
			ents, err := os.ReadDir(dir)
			if err != nil {
				continue // package removed by an edit: nothing to rewrite
			}
			for _, e := range ents {
				name := e.Name()
				if e.IsDir() || !strings.HasSuffix(name, ".go") || strings.HasSuffix(name, "_test.go") {
					continue
				}
				src := filepath.Join(dir, name)
				b, err := os.ReadFile(src)
				must(err)
				nb, changed := rewrite(src, b, timePkgs[pkg])
				if !changed {
					continue
				}
				dst := filepath.Join(*out, strings.ReplaceAll(pkg, "/", "_")+"__"+name)
				must(os.WriteFile(dst, nb, 0o644))
				replace[src] = dst
				n++
			}
		}
		fmt.Fprintf(os.Stderr, "mkoverlay: %d files import-rewritten\n", n)
	}
	b, _ := json.MarshalIndent(map[string]any{"Replace": replace}, "", " ")
	must(os.WriteFile(filepath.Join(*out, "overlay.json"), b, 0o644))
}

// rewrite redirects import paths by splicing the string literal only.
func rewrite(name string, src []byte, withTime bool) ([]byte, bool) {
	fset := token.NewFileSet()
	f, err := parser.ParseFile(fset, name, src, parser.ImportsOnly)
	if err != nil {
		return src, false // not parseable: the compiler will say so
	}
	type edit struct {
		off, end int
		text     string
	}
	var edits []edit
	for _, im := range f.Imports {
		p, _ := strconv.Unquote(im.Path.Value)
		to, ok := rewrites[p]
		if !ok && withTime && p == "time" {
			to, ok = mod+"/x/verif/vtime", true
		}
		if !ok {
			continue
		}
		alias := ""
		if im.Name == nil {
			// keep the identifier the file uses (sync, atomic, time, errgroup, singleflight)
			alias = filepath.Base(p) + " "
		}
		off := fset.Position(im.Path.Pos()).Offset
		end := fset.Position(im.Path.End()).Offset
		edits = append(edits, edit{off, end, alias + strconv.Quote(to)})
	}
	if len(edits) == 0 {
		return src, false
	}
	var buf bytes.Buffer
	last := 0
	for _, e := range edits {
		buf.Write(src[last:e.off])
		buf.WriteString(e.text)
		last = e.end
	}
	buf.Write(src[last:])
	return buf.Bytes(), true
}

func must(err error) {
	if err != nil {
		fatal(err.Error())
	}
}

func fatal(s string) { fmt.Fprintln(os.Stderr, "mkoverlay:", s); os.Exit(2) }

package mcfs

import (
	"fmt"
	"io"
	"io/fs"
	"os"
	"sort"
	"strings"

	"github.com/go-git/go-billy/v6"
	"github.com/go-git/go-billy/v6/osfs"
)

// Conformance replays every sequence of `depth` operations from a fixed
// alphabet on a fresh mcfs view and on billy's osfs over a real scratch
// directory and compares all observable results. It returns the number of
// sequences replayed. This is the "model validated against the implementation"
// step for the one real model in the system (the operating system).
func Conformance(scratch string, depth int) (int, error) {
	type opf func(f billy.Filesystem) string
	errClass := func(err error) string {
		switch {
		case err == nil:
			return "ok"
		case os.IsNotExist(err):
			return "ENOENT"
		case os.IsExist(err):
			return "EEXIST"
		default:
			return "ERR"
		}
	}
	read := func(f billy.Filesystem, p string) string {
		h, err := f.Open(p)
		if err != nil {
			return errClass(err)
		}
		defer h.Close()
		b, err := io.ReadAll(h)
		if err != nil {
			return "readerr"
		}
		return "=" + string(b)
	}
	writeFlag := func(p string, flag int, data string) opf {
		return func(f billy.Filesystem) string {
			h, err := f.OpenFile(p, flag, 0o644)
			if err != nil {
				return errClass(err)
			}
			_, werr := h.Write([]byte(data))
			cerr := h.Close()
			return errClass(werr) + errClass(cerr)
		}
	}
	ops := []struct {
		name string
		f    opf
	}{
		{"create a", writeFlag("a", os.O_RDWR|os.O_CREATE|os.O_TRUNC, "AAAA")},
		{"create d/b", writeFlag("d/b", os.O_RDWR|os.O_CREATE|os.O_TRUNC, "B")},
		{"excl a", writeFlag("a", os.O_RDWR|os.O_CREATE|os.O_EXCL, "E")},
		{"append a", writeFlag("a", os.O_WRONLY|os.O_APPEND|os.O_CREATE, "+")},
		{"rdwr-nocreate a", writeFlag("a", os.O_RDWR, "xy")},
		{"create via l", writeFlag("l", os.O_RDWR|os.O_CREATE|os.O_TRUNC, "L")},
		{"rename a d/b", func(f billy.Filesystem) string { return errClass(f.Rename("a", "d/b")) }},
		{"rename d e", func(f billy.Filesystem) string { return errClass(f.Rename("d", "e")) }},
		{"rename a d", func(f billy.Filesystem) string { return errClass(f.Rename("a", "d")) }},
		{"remove a", func(f billy.Filesystem) string { return errClass(f.Remove("a")) }},
		{"remove d", func(f billy.Filesystem) string { return errClass(f.Remove("d")) }},
		{"remove l", func(f billy.Filesystem) string { return errClass(f.Remove("l")) }},
		{"mkdir d", func(f billy.Filesystem) string { return errClass(f.MkdirAll("d", 0o755)) }},
		{"mkdir a/x", func(f billy.Filesystem) string { return errClass(f.MkdirAll("a/x", 0o755)) }},
		{"symlink a<-l", func(f billy.Filesystem) string { return errClass(f.Symlink("a", "l")) }},
		{"symlink d<-l", func(f billy.Filesystem) string { return errClass(f.Symlink("d", "l")) }},
		{"read l/b", func(f billy.Filesystem) string { return read(f, "l/b") }},
		{"trunc-rw a", func(f billy.Filesystem) string {
			h, err := f.OpenFile("a", os.O_RDWR, 0)
			if err != nil {
				return errClass(err)
			}
			defer h.Close()
			e1 := h.Truncate(2)
			_, e2 := h.Seek(0, io.SeekEnd)
			_, e3 := h.Write([]byte("Z"))
			return errClass(e1) + errClass(e2) + errClass(e3)
		}},
	}
	observe := func(f billy.Filesystem) string {
		var sb strings.Builder
		var walk func(p string)
		walk = func(p string) {
			ents, err := f.ReadDir(p)
			if err != nil {
				fmt.Fprintf(&sb, "[readdir %s %s]", p, errClass(err))
				return
			}
			names := []string{}
			m := map[string]fs.DirEntry{}
			for _, e := range ents {
				names = append(names, e.Name())
				m[e.Name()] = e
			}
			sort.Strings(names)
			for _, n := range names {
				full := n
				if p != "" && p != "." {
					full = p + "/" + n
				}
				li, lerr := f.Lstat(full)
				if lerr != nil {
					fmt.Fprintf(&sb, "[%s lstat-err]", full)
					continue
				}
				switch {
				case li.Mode()&fs.ModeSymlink != 0:
					t, _ := f.Readlink(full)
					_, serr := f.Stat(full)
					fmt.Fprintf(&sb, "[%s -> %s stat:%s read:%s]", full, t, errClass(serr), errClassOnly(read(f, full)))
				case li.IsDir():
					fmt.Fprintf(&sb, "[%s/]", full)
					walk(full)
				default:
					fmt.Fprintf(&sb, "[%s %d %s]", full, li.Size(), read(f, full))
				}
			}
		}
		walk(".")
		for _, p := range []string{"a", "d", "l", "zz"} {
			_, e1 := f.Stat(p)
			_, e2 := f.Lstat(p)
			fmt.Fprintf(&sb, "{%s %s %s}", p, errClass(e1), errClass(e2))
		}
		return sb.String()
	}
	n := 0
	seq := make([]int, depth)
	var rec func(i int) error
	rec = func(i int) error {
		if i == depth {
			n++
			dir, err := os.MkdirTemp(scratch, "conf")
			if err != nil {
				return err
			}
			defer os.RemoveAll(dir)
			real := osfs.New(dir)
			w := NewWorld()
			model := w.View("/r", "v")
			for step, k := range seq {
				ro := ops[k].f(real)
				mo := ops[k].f(model)
				if ro != mo {
					return fmt.Errorf("mcfs/osfs mismatch at step %d of %v (%s): osfs=%q mcfs=%q", step, names(ops, seq), ops[k].name, ro, mo)
				}
				so, sm := observe(real), observe(model)
				if so != sm {
					return fmt.Errorf("mcfs/osfs state mismatch after step %d of %v:\n osfs=%s\n mcfs=%s", step, names(ops, seq), so, sm)
				}
			}
			return nil
		}
		for k := range ops {
			seq[i] = k
			if err := rec(i + 1); err != nil {
				return err
			}
		}
		return nil
	}
	err := rec(0)
	return n, err
}

func errClassOnly(s string) string {
	if strings.HasPrefix(s, "=") {
		return "ok"
	}
	return s
}

func names[T any](ops []struct {
	name string
	f    T
}, seq []int) []string {
	var out []string
	for _, k := range seq {
		out = append(out, ops[k].name)
	}
	return out
}

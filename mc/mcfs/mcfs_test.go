package mcfs

import "testing"

func TestConformance(t *testing.T) {
	for d := 1; d <= 3; d++ {
		n, err := Conformance(t.TempDir(), d)
		if err != nil {
			t.Fatalf("depth %d after %d sequences: %v", d, n, err)
		}
		t.Logf("depth %d: %d sequences agree", d, n)
	}
}
